import BppProofs.Lemmas.NumDerivNoRaise
/-!
C12 helper lemmas, part 7: the switches and the cache of the wrapped function's analytical
derivatives through `updateDerivatives` (delegation of non-selected variables).
-/
namespace Bpp.NumDeriv
open Bpp Bpp.Scalar

/-- the flags and selection of the wrapper: nothing in `updateDerivatives` touches them -/
def SameCfg (w w' : W ℝ) : Prop :=
  w'.scheme = w.scheme ∧ w'.c1 = w.c1 ∧ w'.c2 = w.c2 ∧ w'.cx = w.cx ∧ w'.vars = w.vars ∧ w'.h = w.h

theorem SameCfg.refl (w : W ℝ) : SameCfg w w := ⟨rfl, rfl, rfl, rfl, rfl, rfl⟩
theorem SameCfg.trans {a b c : W ℝ} (h1 : SameCfg a b) (h2 : SameCfg b c) : SameCfg a c :=
  ⟨h2.1.trans h1.1, h2.2.1.trans h1.2.1, h2.2.2.1.trans h1.2.2.1, h2.2.2.2.1.trans h1.2.2.2.1,
   h2.2.2.2.2.1.trans h1.2.2.2.2.1, h2.2.2.2.2.2.trans h1.2.2.2.2.2⟩

theorem step2_cfg (f : List ℝ → ℝ) (params : PList ℝ) (lp : Loop ℝ) (i : Nat) (var : Name) :
    SameCfg lp.w (step2 f params lp i var).1.w := by
  unfold step2
  split
  · exact SameCfg.refl _
  · split
    · exact SameCfg.refl _
    · simp only []
      repeat' split
      all_goals exact ⟨rfl, rfl, rfl, rfl, rfl, rfl⟩

theorem step3_cfg (f : List ℝ → ℝ) (params : PList ℝ) (lp : Loop ℝ) (i : Nat) (var : Name) :
    SameCfg lp.w (step3 f params lp i var).1.w := by
  unfold step3
  split
  · exact SameCfg.refl _
  · split
    · exact SameCfg.refl _
    · simp only []
      repeat' split
      all_goals exact ⟨rfl, rfl, rfl, rfl, rfl, rfl⟩

theorem step5_cfg (f : List ℝ → ℝ) (params : PList ℝ) (lp : Loop ℝ) (i : Nat) (var : Name) :
    SameCfg lp.w (step5 f params lp i var).1.w := by
  unfold step5
  split
  · exact SameCfg.refl _
  · simp only []
    repeat' split
    all_goals exact ⟨rfl, rfl, rfl, rfl, rfl, rfl⟩

theorem loopGo_cfg (step : Loop ℝ → Nat → Name → Loop ℝ × Option Exc)
    (hstep : ∀ lp i var, SameCfg lp.w (step lp i var).1.w) :
    ∀ (vs : List Name) (i : Nat) (lp : Loop ℝ), SameCfg lp.w (loopGo step vs i lp).1.w := by
  intro vs
  induction vs with
  | nil => intro i lp; exact SameCfg.refl _
  | cons v vs ih =>
    intro i lp
    unfold loopGo
    have h := hstep lp i v
    rcases hs : step lp i v with ⟨lp', e⟩
    rw [hs] at h
    cases e with
    | some e => exact h
    | none => exact h.trans (ih (i + 1) lp')

theorem crossPair_cfg (f : List ℝ → ℝ) (params : PList ℝ) (cl : CLoop ℝ) (i j : Nat) (var1 var2 : Name) :
    SameCfg cl.w (crossPair f params cl i j var1 var2).1.w := by
  unfold crossPair
  simp only []
  repeat' split
  all_goals exact ⟨rfl, rfl, rfl, rfl, rfl, rfl⟩

theorem crossRow_cfg (f : List ℝ → ℝ) (params : PList ℝ) (i : Nat) (var1 : Name) :
    ∀ (vs : List Name) (j : Nat) (cl : CLoop ℝ), SameCfg cl.w (crossRow f params i var1 vs j cl).1.w := by
  intro vs
  induction vs with
  | nil => intro j cl; exact SameCfg.refl _
  | cons v vs ih =>
    intro j cl
    unfold crossRow
    split
    · split
      · exact SameCfg.refl _
      · rename_i d _
        exact SameCfg.trans (b := { cl.w with cross := setAt2 cl.w.cross i j d }) ⟨rfl, rfl, rfl, rfl, rfl, rfl⟩
          (ih (j + 1) { cl with w := { cl.w with cross := setAt2 cl.w.cross i j d } })
    · split
      · exact ih _ _
      · have h := crossPair_cfg f params cl i j var1 v
        rcases hs : crossPair f params cl i j var1 v with ⟨cl', e⟩
        rw [hs] at h
        cases e with
        | some e => exact h
        | none => exact h.trans (ih _ _)

theorem crossGo_cfg (f : List ℝ → ℝ) (params : PList ℝ) (all : List Name) :
    ∀ (vs : List Name) (i : Nat) (cl : CLoop ℝ), SameCfg cl.w (crossGo f params all vs i cl).1.w := by
  intro vs
  induction vs with
  | nil => intro i cl; exact SameCfg.refl _
  | cons v vs ih =>
    intro i cl
    unfold crossGo
    split
    · exact ih _ _
    · have h := crossRow_cfg f params i v all 0 cl
      rcases hs : crossRow f params i v all 0 cl with ⟨cl', e⟩
      rw [hs] at h
      cases e with
      | some e => exact h
      | none => exact h.trans (ih _ _)


/-- how a computing `updateDerivatives` ends -/
inductive Ending (f : List ℝ → ℝ) (params : PList ℝ) (w : W ℝ) (fn0 : Fn ℝ) (r : W ℝ × Option Exc) : Prop
  | raised (h : r.2 ≠ none)
  | tooLarge (fn1 : Fn ℝ) (hr : ReachS f fn0 fn1) (hb : tooBig fn1.fval = true)
      (he : r.1.fn.pt1 = fn1.pt1 ∧ (fn1.kind ≥ 1 → r.1.fn.en1 = w.c1))
  | finished (w' : W ℝ) (lv : Option Name) (all : Bool) (hr : ReachS f fn0 w'.fn) (hc : SameCfg w w')
      (he : r = finish f params lv all w')

theorem update3_decomp (f : List ℝ → ℝ) (w : W ℝ) (params : PList ℝ)
    (hcond : (w.c1 && decide (w.vars.length > 0)) = true) :
    Ending f params w ((w.fn.enable1 false).enable2 false) (update3 f w params) := by
  unfold update3
  rw [if_pos hcond]
  simp only []
  split
  next fn1 e h => exact .raised (by simp)
  next fn1 h =>
    have r1 : ReachS f ((w.fn.enable1 false).enable2 false) fn1 := (ReachS.refl _).of_set h
    split
    · rename_i htb
      refine .tooLarge fn1 r1 htb ⟨?_, ?_⟩
      · show ((fn1.enable1 w.c1).enable2 w.c2).pt1 = fn1.pt1
        unfold Fn.enable2 Fn.enable1; repeat' split
        all_goals rfl
      · intro hk
        show ((fn1.enable1 w.c1).enable2 w.c2).en1 = w.c1
        unfold Fn.enable2 Fn.enable1; rw [if_pos hk]; split <;> rfl
    · have hl := loopGo_reach f (step3 f params) (step3_reach f params) w.vars 0
        { w := { w with fn := fn1, f2 := fn1.fval }, p := [], lastVar := none }
      have hcf := loopGo_cfg (step3 f params) (step3_cfg f params) w.vars 0
        { w := { w with fn := fn1, f2 := fn1.fval }, p := [], lastVar := none }
      rcases hs : loopGo (step3 f params) w.vars 0 { w := { w with fn := fn1, f2 := fn1.fval }, p := [], lastVar := none } with ⟨lp, e⟩
      rw [hs] at hl hcf
      simp only [] at hl hcf
      have hcf0 : SameCfg w lp.w := SameCfg.trans (b := { w with fn := fn1, f2 := fn1.fval }) ⟨rfl, rfl, rfl, rfl, rfl, rfl⟩ hcf
      cases e with
      | some e => exact .raised (by simp)
      | none =>
        simp only []
        split
        · split
          · exact .finished lp.w lp.lastVar true (r1.trans hl) hcf0 rfl
          · rename_i l _
            have hc := crossGo_reach f params lp.w.vars lp.w.vars 0 { w := lp.w, l1 := l, l2 := l }
            have hcc := crossGo_cfg f params lp.w.vars lp.w.vars 0 { w := lp.w, l1 := l, l2 := l }
            rcases hcs : crossGo f params lp.w.vars lp.w.vars 0 { w := lp.w, l1 := l, l2 := l } with ⟨cl, e⟩
            rw [hcs] at hc hcc
            simp only [] at hc hcc
            cases e with
            | some e => exact .raised (by simp)
            | none => exact .finished cl.w lp.lastVar true ((r1.trans hl).trans (hc.2 rfl)) (hcf0.trans hcc) rfl
        · exact .finished lp.w lp.lastVar false (r1.trans hl) hcf0 rfl

theorem update5_decomp (f : List ℝ → ℝ) (w : W ℝ) (params : PList ℝ)
    (hcond : (w.c1 && decide (w.vars.length > 0)) = true) :
    Ending f params w ((w.fn.enable1 false).enable2 false) (update5 f w params) := by
  unfold update5
  rw [if_pos hcond]
  simp only []
  split
  next fn1 e h => exact .raised (by simp)
  next fn1 h =>
    have r1 : ReachS f ((w.fn.enable1 false).enable2 false) fn1 := (ReachS.refl _).of_set h
    have hl := loopGo_reach f (step5 f params) (step5_reach f params) w.vars 0
      { w := { w with fn := fn1, f3 := fn1.fval }, p := [], lastVar := none }
    have hcf := loopGo_cfg (step5 f params) (step5_cfg f params) w.vars 0
      { w := { w with fn := fn1, f3 := fn1.fval }, p := [], lastVar := none }
    rcases hs : loopGo (step5 f params) w.vars 0 { w := { w with fn := fn1, f3 := fn1.fval }, p := [], lastVar := none } with ⟨lp, e⟩
    rw [hs] at hl hcf
    simp only [] at hl hcf
    have hcf0 : SameCfg w lp.w := SameCfg.trans (b := { w with fn := fn1, f3 := fn1.fval }) ⟨rfl, rfl, rfl, rfl, rfl, rfl⟩ hcf
    cases e with
    | some e => exact .raised (by simp)
    | none => exact .finished lp.w lp.lastVar false (r1.trans hl) hcf0 rfl

theorem update2_decomp (f : List ℝ → ℝ) (w : W ℝ) (params : PList ℝ)
    (hcond : (w.c1 && decide (w.vars.length > 0)) = true) :
    Ending f params w (w.fn.enable1 false) (update2 f w params) := by
  unfold update2
  rw [if_pos hcond]
  simp only []
  split
  next fn1 e h => exact .raised (by simp)
  next fn1 h =>
    have r1 : ReachS f (w.fn.enable1 false) fn1 := (ReachS.refl _).of_set h
    split
    · rename_i htb
      refine .tooLarge fn1 r1 htb ⟨?_, ?_⟩
      · show (fn1.enable1 w.c1).pt1 = fn1.pt1
        unfold Fn.enable1; split <;> rfl
      · intro hk
        show (fn1.enable1 w.c1).en1 = w.c1
        unfold Fn.enable1; rw [if_pos hk]
    · have hl := loopGo_reach f (step2 f params) (step2_reach f params) w.vars 0
        { w := { w with fn := fn1, f1 := fn1.fval }, p := [], lastVar := none }
      have hcf := loopGo_cfg (step2 f params) (step2_cfg f params) w.vars 0
        { w := { w with fn := fn1, f1 := fn1.fval }, p := [], lastVar := none }
      rcases hs : loopGo (step2 f params) w.vars 0 { w := { w with fn := fn1, f1 := fn1.fval }, p := [], lastVar := none } with ⟨lp, e⟩
      rw [hs] at hl hcf
      simp only [] at hl hcf
      have hcf0 : SameCfg w lp.w := SameCfg.trans (b := { w with fn := fn1, f1 := fn1.fval }) ⟨rfl, rfl, rfl, rfl, rfl, rfl⟩ hcf
      cases e with
      | some e => exact .raised (by simp)
      | none => exact .finished lp.w lp.lastVar false (r1.trans hl) hcf0 rfl


/-! ### the cache of analytical first-order derivatives -/

/-- if the wrapped function has its first-order derivatives switched on, they were computed at its
current point -/
def Fresh1 (fn : Fn ℝ) : Prop := fn.en1 = true → fn.pt1 = values fn.params
/-- switched off, cache untouched since it held `P0` -/
def Off1 (P0 : List ℝ) (fn : Fn ℝ) : Prop := fn.en1 = false ∧ fn.pt1 = P0

theorem setParameters_shape (f : List ℝ → ℝ) (fn : Fn ℝ) (pl : PList ℝ) :
    (fn.setParameters f pl).1 = fn ∨ ∃ own, (fn.setParameters f pl).1 = ({ fn with params := own } : Fn ℝ).fire f := by
  simp only [Fn.setParameters, Fn.matchPV]
  cases hv : anyViolation fn.params pl with
  | true => left; simp
  | false =>
    simp only [Bool.false_eq_true, if_false]
    cases hm : matchLoop fn.params pl false with
    | error e => left; simp
    | ok r =>
      rcases r with ⟨own, ch⟩
      cases ch with
      | true => right; exact ⟨own, by simp⟩
      | false =>
        left
        have := (matchLoop_gen pl fn.params own false false hm (noViol_of_any hv)).2.2 rfl
        subst this
        simp

theorem fire_off1 (f : List ℝ → ℝ) (fn : Fn ℝ) (own : PList ℝ) (P0 : List ℝ) (h : Off1 P0 fn) :
    Off1 P0 (({ fn with params := own } : Fn ℝ).fire f) := by
  unfold Off1 Fn.fire at *
  simp only [h.1, Bool.false_eq_true, if_false]
  exact ⟨trivial, h.2⟩

theorem fire_fresh1 (f : List ℝ → ℝ) (fn : Fn ℝ) (own : PList ℝ) : Fresh1 (({ fn with params := own } : Fn ℝ).fire f) := by
  unfold Fresh1 Fn.fire
  simp only []
  intro h
  rw [if_pos h]

theorem Off1.setParameters {f : List ℝ → ℝ} {P0 : List ℝ} {fn : Fn ℝ} (h : Off1 P0 fn) (pl : PList ℝ) :
    Off1 P0 (fn.setParameters f pl).1 := by
  rcases setParameters_shape f fn pl with e | ⟨own, e⟩
  · rw [e]; exact h
  · rw [e]; exact fire_off1 f fn own P0 h

theorem Fresh1.setParameters {f : List ℝ → ℝ} {fn : Fn ℝ} (h : Fresh1 fn) (pl : PList ℝ) :
    Fresh1 (fn.setParameters f pl).1 ∧ (fn.setParameters f pl).1.en1 = fn.en1 := by
  rcases setParameters_shape f fn pl with e | ⟨own, e⟩
  · rw [e]; exact ⟨h, rfl⟩
  · rw [e]; exact ⟨fire_fresh1 f fn own, rfl⟩

theorem Off1.reachS {f : List ℝ → ℝ} {P0 : List ℝ} {a b : Fn ℝ} (h : Off1 P0 a) (hr : ReachS f a b) : Off1 P0 b := by
  induction hr with
  | refl => exact h
  | setp pl _ ih => exact ih.setParameters pl

theorem forward_shape (f : List ℝ → ℝ) (fn : Fn ℝ) (e : Entry ℝ) :
    (fn.forward f e).1 = fn ∨ ∃ own, (fn.forward f e).1 = ({ fn with params := own } : Fn ℝ).fire f := by
  cases e with
  | setParameters pl => exact setParameters_shape f fn pl
  | f pl => exact setParameters_shape f fn pl
  | matchPV pl => exact setParameters_shape f fn pl
  | setVals pl =>
    simp only [Fn.forward, Fn.setParametersValues]
    split
    · left; rfl
    · split
      · left; rfl
      · rename_i own _; right; exact ⟨own, rfl⟩
  | setAll pl =>
    simp only [Fn.forward, Fn.setAllParametersValues]
    split
    · left; rfl
    · split
      · left; rfl
      · rename_i own _; right; exact ⟨own, rfl⟩
  | setOne n v =>
    simp only [Fn.forward, Fn.setParameterValue]
    split
    · left; rfl
    · rename_i own _; right; exact ⟨own, rfl⟩

theorem Fresh1.forward {f : List ℝ → ℝ} {fn : Fn ℝ} (h : Fresh1 fn) (e : Entry ℝ) :
    Fresh1 (fn.forward f e).1 ∧ (fn.forward f e).1.en1 = fn.en1 := by
  rcases forward_shape f fn e with h1 | ⟨own, h1⟩
  · rw [h1]; exact ⟨h, rfl⟩
  · rw [h1]; exact ⟨fire_fresh1 f fn own, rfl⟩

/-- the end of the computing branch switches the derivatives back on: either nothing is evaluated
any more (the cache is the one that was there when they were switched off) or the last reset
evaluates the function with them on -/
theorem finish_fresh (f : List ℝ → ℝ) (params : PList ℝ) (lv : Option Name) (all : Bool) (w : W ℝ) (P0 : List ℝ)
    (hk : w.fn.kind ≥ 1) (h : Off1 P0 w.fn) :
    (finish f params lv all w).1.fn.en1 = w.c1 ∧
    ((finish f params lv all w).1.fn.pt1 = P0 ∨
      (finish f params lv all w).1.fn.pt1 = values (finish f params lv all w).1.fn.params) := by
  have he : (({ w with fn := w.fn.enable1 w.c1 } : W ℝ).enable2 w.c2).en1 = w.c1 ∧
      (({ w with fn := w.fn.enable1 w.c1 } : W ℝ).enable2 w.c2).pt1 = P0 := by
    unfold W.enable2 Fn.enable2 Fn.enable1
    simp only [hk, if_true]
    repeat' split
    all_goals exact ⟨rfl, h.2⟩
  have hshape : ∀ pl, ((({ w with fn := w.fn.enable1 w.c1 } : W ℝ).enable2 w.c2).setParameters f pl).1.en1 = w.c1 ∧
      (((({ w with fn := w.fn.enable1 w.c1 } : W ℝ).enable2 w.c2).setParameters f pl).1.pt1 = P0 ∨
       ((({ w with fn := w.fn.enable1 w.c1 } : W ℝ).enable2 w.c2).setParameters f pl).1.pt1 =
         values ((({ w with fn := w.fn.enable1 w.c1 } : W ℝ).enable2 w.c2).setParameters f pl).1.params) := by
    intro pl
    rcases setParameters_shape f (({ w with fn := w.fn.enable1 w.c1 } : W ℝ).enable2 w.c2) pl with e | ⟨own, e⟩
    · rw [e]; exact ⟨he.1, Or.inl he.2⟩
    · rw [e]
      refine ⟨he.1, ?_⟩
      unfold Fn.fire
      simp only []
      by_cases hc : w.c1 = true
      · right; rw [he.1, if_pos hc]
      · left; rw [he.1, if_neg hc]; exact he.2
  unfold finish
  simp only []
  split
  · exact ⟨he.1, Or.inl he.2⟩
  · split
    · exact hshape params
    · split
      · exact ⟨he.1, Or.inl he.2⟩
      · exact hshape _


theorem enable1_en1 (fn : Fn ℝ) (b : Bool) (hk : fn.kind ≥ 1) : (fn.enable1 b).en1 = b := by
  unfold Fn.enable1; rw [if_pos hk]
@[simp] theorem enable1_pt1 (fn : Fn ℝ) (b : Bool) : (fn.enable1 b).pt1 = fn.pt1 := by
  unfold Fn.enable1; split <;> rfl
@[simp] theorem enable2_en1 (fn : Fn ℝ) (b : Bool) : (fn.enable2 b).en1 = fn.en1 := by
  unfold Fn.enable2; split <;> rfl
@[simp] theorem enable2_pt1 (fn : Fn ℝ) (b : Bool) : (fn.enable2 b).pt1 = fn.pt1 := by
  unfold Fn.enable2; split <;> rfl
@[simp] theorem Wenable2_en1 (w : W ℝ) (b : Bool) : (w.enable2 b).en1 = w.fn.en1 := by
  unfold W.enable2; split <;> simp
@[simp] theorem Wenable2_pt1 (w : W ℝ) (b : Bool) : (w.enable2 b).pt1 = w.fn.pt1 := by
  unfold W.enable2; split <;> simp

theorem setParameters_kind (f : List ℝ → ℝ) (fn : Fn ℝ) (pl : PList ℝ) : (fn.setParameters f pl).1.kind = fn.kind := by
  rcases setParameters_shape f fn pl with e | ⟨own, e⟩ <;> rw [e] <;> rfl

theorem ReachS.kind {f : List ℝ → ℝ} {a b : Fn ℝ} (h : ReachS f a b) : b.kind = a.kind := by
  induction h with
  | refl => rfl
  | setp pl _ ih => rw [setParameters_kind]; exact ih

/-- common end of the three computing branches -/
theorem ending_fresh (f : List ℝ → ℝ) (params : PList ℝ) (w : W ℝ) (fn0 : Fn ℝ) (r : W ℝ × Option Exc)
    (hend : Ending f params w fn0 r) (hk : w.fn.kind ≥ 1) (hcons : w.fn.en1 = w.c1) (hfr : Fresh1 w.fn)
    (h0 : Off1 w.fn.pt1 fn0) (hk0 : fn0.kind = w.fn.kind) (hnone : r.2 = none)
    (hp : r.1.fn.params = w.fn.params) :
    r.1.fn.en1 = w.c1 ∧ Fresh1 r.1.fn := by
  cases hend with
  | raised h => exact absurd hnone h
  | tooLarge fn1 hr hb he =>
    have hoff := h0.reachS hr
    have hk1 : fn1.kind ≥ 1 := by rw [hr.kind, hk0]; exact hk
    refine ⟨he.2 hk1, ?_⟩
    intro hen
    rw [he.1, hoff.2, hp]
    apply hfr
    rw [hcons, ← he.2 hk1]; exact hen
  | finished w' lv all hr hc he =>
    have hoff := h0.reachS hr
    have hk' : w'.fn.kind ≥ 1 := by rw [hr.kind, hk0]; exact hk
    obtain ⟨a, b⟩ := finish_fresh f params lv all w' w.fn.pt1 hk' hoff
    rw [← he] at a b
    refine ⟨by rw [a, hc.2.1], ?_⟩
    intro hen
    rcases b with b | b
    · rw [b, hp]
      apply hfr
      rw [hcons, ← hc.2.1, ← a]; exact hen
    · exact b

theorem update_fresh (f : List ℝ → ℝ) (w : W ℝ) (params : PList ℝ) (hown : Own w.fn) (hok : w.fn.OK f)
    (hsync : Synced params w.fn.params) (hpnd : (names params).Nodup)
    (hk : w.fn.kind ≥ 1) (hcons : w.fn.en1 = w.c1) (hfr : Fresh1 w.fn)
    (hnone : (w.update f params).2 = none) :
    (w.update f params).1.fn.en1 = w.c1 ∧ Fresh1 (w.update f params).1.fn := by
  obtain ⟨sp, so, _, _⟩ := update_spec f w params hown hok hsync hpnd _ rfl hnone
  -- the branch that computes nothing: switch on as asked, one `setParameters`
  have helse : ∀ fnE : Fn ℝ, fnE.en1 = w.c1 → fnE.pt1 = w.fn.pt1 → fnE.params = w.fn.params →
      (fnE.setParameters f params).1.en1 = w.c1 ∧ Fresh1 (fnE.setParameters f params).1 := by
    intro fnE h1 h2 h3
    have hfE : Fresh1 fnE := by
      intro hen; rw [h2, h3]; apply hfr; rw [hcons, ← h1]; exact hen
    obtain ⟨a, b⟩ := hfE.setParameters (f := f) params
    exact ⟨b.trans h1, a⟩
  have hoff3 : Off1 w.fn.pt1 ((w.fn.enable1 false).enable2 false) := by
    unfold Off1; simp [enable1_en1 w.fn false hk]
  have hoff2 : Off1 w.fn.pt1 (w.fn.enable1 false) := by
    unfold Off1; simp [enable1_en1 w.fn false hk]
  unfold W.update at hnone sp so ⊢
  cases hs : w.scheme with
  | two =>
    rw [hs] at hnone sp so
    simp only [] at hnone sp so ⊢
    by_cases hcond : (w.c1 && decide (w.vars.length > 0)) = true
    · exact ending_fresh f params w _ _ (update2_decomp f w params hcond) hk hcons hfr hoff2 (by simp) hnone sp
    · unfold update2
      rw [if_neg hcond]
      simp only []
      have := helse (({ w with fn := w.fn.enable1 w.c1 } : W ℝ).enable2 w.c2)
        (by simp [enable1_en1 w.fn w.c1 hk]) (by simp) (by simp)
      split <;> (rename_i h; rw [h] at this; exact this)
  | three =>
    rw [hs] at hnone sp so
    simp only [] at hnone sp so ⊢
    by_cases hcond : (w.c1 && decide (w.vars.length > 0)) = true
    · exact ending_fresh f params w _ _ (update3_decomp f w params hcond) hk hcons hfr hoff3 (by simp) hnone sp
    · unfold update3
      rw [if_neg hcond]
      simp only []
      have := helse ((w.fn.enable1 w.c1).enable2 w.c2)
        (by simp [enable1_en1 w.fn w.c1 hk]) (by simp) (by simp)
      split <;> (rename_i h; rw [h] at this; exact this)
  | five =>
    rw [hs] at hnone sp so
    simp only [] at hnone sp so ⊢
    by_cases hcond : (w.c1 && decide (w.vars.length > 0)) = true
    · exact ending_fresh f params w _ _ (update5_decomp f w params hcond) hk hcons hfr hoff3 (by simp) hnone sp
    · unfold update5
      rw [if_neg hcond]
      simp only []
      have := helse ((w.fn.enable1 w.c1).enable2 w.c2)
        (by simp [enable1_en1 w.fn w.c1 hk]) (by simp) (by simp)
      split <;> (rename_i h; rw [h] at this; exact this)


/-! ### the switch alone (no hypothesis on what happened before) -/

theorem setParameters_en1 (f : List ℝ → ℝ) (fn : Fn ℝ) (pl : PList ℝ) : (fn.setParameters f pl).1.en1 = fn.en1 := by
  rcases setParameters_shape f fn pl with e | ⟨own, e⟩ <;> rw [e] <;> rfl

theorem ending_flags (f : List ℝ → ℝ) (params : PList ℝ) (w : W ℝ) (fn0 : Fn ℝ) (r : W ℝ × Option Exc)
    (hend : Ending f params w fn0 r) (hk : w.fn.kind ≥ 1) (h0 : fn0.en1 = false) (hk0 : fn0.kind = w.fn.kind)
    (hnone : r.2 = none) : r.1.fn.en1 = w.c1 := by
  cases hend with
  | raised h => exact absurd hnone h
  | tooLarge fn1 hr hb he => exact he.2 (by rw [hr.kind, hk0]; exact hk)
  | finished w' lv all hr hc he =>
    have hoff : Off1 fn0.pt1 w'.fn := Off1.reachS (⟨h0, rfl⟩ : Off1 fn0.pt1 fn0) hr
    have hk' : w'.fn.kind ≥ 1 := by rw [hr.kind, hk0]; exact hk
    obtain ⟨a, _⟩ := finish_fresh f params lv all w' fn0.pt1 hk' hoff
    rw [← he] at a
    rw [a, hc.2.1]

/-- after `updateDerivatives` returns, the wrapped function's analytical first-order derivatives
are on iff the wrapper's first-order derivatives are on -/
theorem update_flags (f : List ℝ → ℝ) (w : W ℝ) (params : PList ℝ) (hk : w.fn.kind ≥ 1)
    (hnone : (w.update f params).2 = none) : (w.update f params).1.fn.en1 = w.c1 := by
  have helse : ∀ fnE : Fn ℝ, fnE.en1 = w.c1 → (fnE.setParameters f params).1.en1 = w.c1 := by
    intro fnE h1; rw [setParameters_en1]; exact h1
  unfold W.update at hnone ⊢
  cases hs : w.scheme with
  | two =>
    rw [hs] at hnone
    simp only [] at hnone ⊢
    by_cases hcond : (w.c1 && decide (w.vars.length > 0)) = true
    · exact ending_flags f params w _ _ (update2_decomp f w params hcond) hk (enable1_en1 w.fn false hk) (by simp) hnone
    · unfold update2
      rw [if_neg hcond]
      simp only []
      have := helse (({ w with fn := w.fn.enable1 w.c1 } : W ℝ).enable2 w.c2) (by simp [enable1_en1 w.fn w.c1 hk])
      split <;> (rename_i h; rw [h] at this; exact this)
  | three =>
    rw [hs] at hnone
    simp only [] at hnone ⊢
    by_cases hcond : (w.c1 && decide (w.vars.length > 0)) = true
    · exact ending_flags f params w _ _ (update3_decomp f w params hcond) hk (by simp [enable1_en1 w.fn false hk]) (by simp) hnone
    · unfold update3
      rw [if_neg hcond]
      simp only []
      have := helse ((w.fn.enable1 w.c1).enable2 w.c2) (by simp [enable1_en1 w.fn w.c1 hk])
      split <;> (rename_i h; rw [h] at this; exact this)
  | five =>
    rw [hs] at hnone
    simp only [] at hnone ⊢
    by_cases hcond : (w.c1 && decide (w.vars.length > 0)) = true
    · exact ending_flags f params w _ _ (update5_decomp f w params hcond) hk (by simp [enable1_en1 w.fn false hk]) (by simp) hnone
    · unfold update5
      rw [if_neg hcond]
      simp only []
      have := helse ((w.fn.enable1 w.c1).enable2 w.c2) (by simp [enable1_en1 w.fn w.c1 hk])
      split <;> (rename_i h; rw [h] at this; exact this)

end Bpp.NumDeriv
