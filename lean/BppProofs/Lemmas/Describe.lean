import BppModel.Describe
/-!
Helper lemmas for C01's description syntax: locating `;` and the closing bracket, cutting the two
bound texts, dropping blanks.  Core Lean only.
-/
namespace Bpp.Describe

def isBracket (c : Char) : Bool := c == '[' || c == ']'

theorem isDigit_iff (c : Char) : isDigit c = true ↔ 48 ≤ c.toNat ∧ c.toNat ≤ 57 := by
  unfold isDigit Char.isDigit
  simp only [Bool.and_eq_true, decide_eq_true_eq, ge_iff_le]
  rw [UInt32.le_iff_toNat_le, UInt32.le_iff_toNat_le]
  rfl

theorem findIdx?_prefix {p : Char → Bool} {X : List Char} {y : Char} {Z : List Char}
    (hX : ∀ c ∈ X, p c = false) (hy : p y = true) : (X ++ y :: Z).findIdx? p = some X.length := by
  induction X with
  | nil => simp [List.findIdx?_cons, hy]
  | cons x X ih =>
    have hx : p x = false := hX x (by simp)
    have ih' := ih (fun c hc => hX c (by simp [hc]))
    simp [List.findIdx?_cons, hx, ih']

theorem dropWhile_all {p : Char → Bool} (ws M : List Char) (h : ∀ c ∈ ws, p c = true) :
    (ws ++ M).dropWhile p = M.dropWhile p := by
  induction ws with
  | nil => rfl
  | cons w ws ih =>
    have hw : p w = true := h w (by simp)
    simp [hw, ih (fun c hc => h c (by simp [hc]))]

theorem dropWhile_head {p : Char → Bool} (M : List Char) (h : ∀ c, M.head? = some c → p c = false) :
    M.dropWhile p = M := by
  cases M with
  | nil => rfl
  | cons m M => simp [h m rfl]

theorem dropWhile_all_nil {p : Char → Bool} (ws : List Char) (h : ∀ c ∈ ws, p c = true) :
    ws.dropWhile p = [] := by
  have := dropWhile_all ws [] h
  simpa using this

/-- no blank at either end -/
def NoEdgeSpace (L : List Char) : Prop :=
  (∀ c, L.head? = some c → isSpace c = false) ∧ (∀ c, L.getLast? = some c → isSpace c = false)

/-- `removeSurroundingWhiteSpaces` removes exactly the surrounding blanks -/
theorem trim_pad (ws1 L ws2 : List Char) (h1 : ∀ c ∈ ws1, isSpace c = true) (h2 : ∀ c ∈ ws2, isSpace c = true)
    (hL : NoEdgeSpace L) : trim (ws1 ++ L ++ ws2) = L := by
  unfold trim
  rw [List.append_assoc, dropWhile_all ws1 _ h1]
  cases L with
  | nil =>
    simp only [List.nil_append]
    rw [dropWhile_all_nil ws2 h2]; rfl
  | cons l L =>
    have hd : ((l :: L) ++ ws2).dropWhile isSpace = (l :: L) ++ ws2 :=
      dropWhile_head _ (fun c hc => hL.1 c (by simpa using hc))
    rw [hd, List.reverse_append]
    rw [dropWhile_all ws2.reverse _ (fun c hc => h2 c (by simpa using hc))]
    rw [dropWhile_head _ (fun c hc => hL.2 c (by rw [List.head?_reverse] at hc; exact hc))]
    exact List.reverse_reverse _

theorem space_not_delim {c : Char} (h : isSpace c = true) : c ≠ ';' ∧ isBracket c = false := by
  unfold isSpace at h
  simp only [Bool.or_eq_true, beq_iff_eq] at h
  rcases h with ((((h | h) | h) | h) | h) | h <;> subst h <;> exact ⟨by decide, by decide⟩

section
variable {α : Type} [NumText α]

/-- locating the delimiters and cutting the two texts -/
theorem read_extract (d : Interval α) (b0 b1 : Char) (X Y rest : List Char)
    (hb0 : b0 = '[' ∨ b0 = ']')  (hb1 : isBracket b1 = true)
    (hX : ∀ c ∈ X, (c == ';') = false ∧ isBracket c = false) (hY : ∀ c ∈ Y, isBracket c = false) :
    readDescription d (b0 :: (X ++ ';' :: (Y ++ b1 :: rest))) =
      readCore d (b0 == '[') (b1 == ']') (trim X) (trim Y) := by
  have hsemi : findSemi (b0 :: (X ++ ';' :: (Y ++ b1 :: rest))) = some (X.length + 1) := by
    unfold findSemi
    have hb : (b0 == ';') = false := by rcases hb0 with h | h <;> subst h <;> decide
    rw [List.findIdx?_cons, hb]
    simp only [Bool.false_eq_true, if_false]
    rw [findIdx?_prefix (p := (· == ';')) (fun c hc => (hX c hc).1) (by simp)]
    simp
  have hbr : findBracket1 (b0 :: (X ++ ';' :: (Y ++ b1 :: rest))) = some (X.length + Y.length + 2) := by
    unfold findBracket1
    simp only [List.drop_succ_cons, List.drop_zero]
    have : X ++ ';' :: (Y ++ b1 :: rest) = (X ++ ';' :: Y) ++ b1 :: rest := by simp
    rw [this]
    have hpre : ∀ c ∈ X ++ ';' :: Y, (c == '[' || c == ']') = false := by
      intro c hc
      simp only [List.mem_append, List.mem_cons] at hc
      rcases hc with hc | hc | hc
      · exact (hX c hc).2
      · subst hc; decide
      · exact hY c hc
    rw [findIdx?_prefix (p := fun c => c == '[' || c == ']') hpre hb1]
    simp; omega
  unfold readDescription
  rw [hsemi, hbr]
  have hhead : (b0 :: (X ++ ';' :: (Y ++ b1 :: rest))).head? = some b0 := rfl
  have hcond : ((some b0 != some ']' && some b0 != some '[') || decide (X.length + 1 ≥ X.length + Y.length + 2)) = false := by
    have : ¬ (X.length + 1 ≥ X.length + Y.length + 2) := by omega
    rcases hb0 with h | h <;> subst h <;> simp [this]
  simp only [hhead]
  rw [if_neg (by rw [hcond]; simp)]
  have hdeb : ((b0 :: (X ++ ';' :: (Y ++ b1 :: rest))).drop 1).take (X.length + 1 - 1) = X := by
    simp
  have hfin : ((b0 :: (X ++ ';' :: (Y ++ b1 :: rest))).drop (X.length + 1 + 1)).take (X.length + Y.length + 2 - (X.length + 1) - 1) = Y := by
    have e1 : b0 :: (X ++ ';' :: (Y ++ b1 :: rest)) = (b0 :: (X ++ [';'])) ++ (Y ++ b1 :: rest) := by simp
    have l1 : (b0 :: (X ++ [';'])).length = X.length + 1 + 1 := by simp
    rw [e1, List.drop_left' l1]
    have : X.length + Y.length + 2 - (X.length + 1) - 1 = Y.length := by omega
    rw [this]; simp
  have hlast : ((b0 :: (X ++ ';' :: (Y ++ b1 :: rest))).drop (X.length + Y.length + 2)).head? = some b1 := by
    have e1 : b0 :: (X ++ ';' :: (Y ++ b1 :: rest)) = (b0 :: (X ++ ';' :: Y)) ++ (b1 :: rest) := by simp
    have l1 : (b0 :: (X ++ ';' :: Y)).length = X.length + Y.length + 2 := by simp; omega
    rw [e1, List.drop_left' l1]; rfl
  rw [hdeb, hfin, hlast]
  simp

end
end Bpp.Describe
