import BppProofs.Lemmas.DiscretizeEqProp
/-!
C09: `discretizeEqualIntervals` at `ℝ`.
-/
namespace Bpp.Discretize
open Bpp

theorem foldl_assign_separated (prec : ℝ) (l : List (ℝ × ℝ)) (m : TMap ℝ)
    (hsep : l.Pairwise (fun a b => a.1 < b.1 - prec)) (hm : ∀ e ∈ m, ∀ v ∈ l, e.1 < v.1 - prec) :
    l.foldl (fun m vp => TMap.assign prec vp.1 vp.2 m) m = m ++ l := by
  induction l generalizing m with
  | nil => simp
  | cons v vs ih =>
    have hall : ∀ e ∈ m, e.1 < v.1 - prec := fun e he => hm e he v (by simp)
    simp only [List.foldl_cons]
    rw [TMap.assign_of_all_lt prec v.1 v.2 m hall]
    rw [ih (m ++ [(v.1, v.2)]) (List.pairwise_cons.1 hsep).2]
    · simp
    · intro e he w hw
      rcases List.mem_append.1 he with he | he
      · exact hm e he w (by simp [hw])
      · simp at he; subst he
        exact (List.pairwise_cons.1 hsep).1 w hw

/-- consecutive pairs of `F j, F (j+1), …, F (j+k)` -/
theorem pairs_map_range' (F : ℕ → ℝ) (k j : ℕ) :
    pairs ((List.range' j (k + 1)).map F) = (List.range' j k).map (fun i => (F i, F (i + 1))) := by
  induction k generalizing j with
  | zero => simp [pairs]
  | succ k ih =>
    rw [List.range'_succ, List.map_cons]
    rw [show List.range' (j + 1) (k + 1) = (j + 1) :: List.range' (j + 1 + 1) k from List.range'_succ ..]
    rw [List.map_cons, pairs]
    rw [show F (j + 1) :: List.map F (List.range' (j + 1 + 1) k) = List.map F (List.range' (j + 1) (k + 1)) by
      rw [List.range'_succ, List.map_cons]]
    rw [ih (j + 1), List.range'_succ, List.map_cons]

/-- `lo :: [f 0, …, f (n-2)] ++ [hi]` as `F 0, …, F n` -/
theorem bounds_as_range (F : ℕ → ℝ) (n : ℕ) (hn : 1 ≤ n) :
    F 0 :: (List.range (n - 1)).map (fun i => F (i + 1)) ++ [F n] = (List.range' 0 (n + 1)).map F := by
  obtain ⟨k, rfl⟩ : ∃ k, n = k + 1 := ⟨n - 1, by omega⟩
  simp only [Nat.add_sub_cancel]
  rw [List.range'_succ, List.map_cons]
  simp only [List.cons_append, Nat.zero_add]
  congr 1
  rw [List.range'_concat, List.map_append, List.range'_eq_map_range]
  simp [List.map_map, Function.comp, Nat.add_comm]

/-- what `eqInt` returns -/
theorem eqInt_ok (par : Parent ℝ) (s s' : DD ℝ) (h : eqInt par s = .ok s') :
    ∃ m, insertPairs s.prec s.dom.hi []
        (((List.range s.n).map (fun i => s.dom.lo + (nat i + half) * ((s.dom.hi - s.dom.lo) / nat s.n))).zip
          (eqIntMasses par s.n (par.P s.dom.hi - par.P s.dom.lo)
            (s.dom.lo :: (List.range (s.n - 1)).map (fun i => s.dom.lo + (nat i + Scalar.one) * ((s.dom.hi - s.dom.lo) / nat s.n)) ++ [s.dom.hi]))) = some m ∧
      s' = { s with dist := m, bounds := (List.range (s.n - 1)).map (fun i => s.dom.lo + (nat i + Scalar.one) * ((s.dom.hi - s.dom.lo) / nat s.n)) } := by
  unfold eqInt at h
  simp only at h
  split at h
  · rename_i m hm
    injection h with h
    exact ⟨m, hm, h.symm⟩
  · simp at h

/-- the bounds, class values and class masses of the equal-interval scheme, as functions of the
class index -/
theorem eqInt_lists (par : Parent ℝ) (s : DD ℝ) (hn : 1 ≤ s.n) :
    let w := (s.dom.hi - s.dom.lo) / (s.n : ℝ)
    let F : ℕ → ℝ := fun i => s.dom.lo + (i : ℝ) * w
    let cond := par.P s.dom.hi - par.P s.dom.lo
    (s.dom.lo :: (List.range (s.n - 1)).map (fun i => s.dom.lo + (nat i + Scalar.one) * ((s.dom.hi - s.dom.lo) / nat s.n)) ++ [s.dom.hi]
      = (List.range' 0 (s.n + 1)).map F) ∧
    (((List.range s.n).map (fun i => s.dom.lo + (nat i + half) * ((s.dom.hi - s.dom.lo) / nat s.n))).zip
      (eqIntMasses par s.n cond
        (s.dom.lo :: (List.range (s.n - 1)).map (fun i => s.dom.lo + (nat i + Scalar.one) * ((s.dom.hi - s.dom.lo) / nat s.n)) ++ [s.dom.hi]))
      = (List.range' 0 s.n).map (fun i : ℕ => (s.dom.lo + ((i : ℝ) + 1 / 2) * w,
          if 0 < cond then (par.P (F (i + 1)) - par.P (F i)) / cond else 1 / (s.n : ℝ)))) := by
  intro w F cond
  have hn' : (0 : ℝ) < s.n := by exact_mod_cast hn
  have hFn : F s.n = s.dom.hi := by simp only [F, w]; field_simp; ring
  have hF0 : F 0 = s.dom.lo := by simp [F]
  have hb : (List.range (s.n - 1)).map (fun i => s.dom.lo + (nat i + Scalar.one) * ((s.dom.hi - s.dom.lo) / nat s.n))
      = (List.range (s.n - 1)).map (fun i => F (i + 1)) := by
    apply List.map_congr_left; intro i _
    simp only [nat_eq, ScalarReal.one_eq, F, w]; push_cast; ring
  have hall' : s.dom.lo :: (List.range (s.n - 1)).map (fun i => s.dom.lo + (nat i + Scalar.one) * ((s.dom.hi - s.dom.lo) / nat s.n)) ++ [s.dom.hi]
      = (List.range' 0 (s.n + 1)).map F := by
    rw [hb, ← bounds_as_range F s.n hn, hF0, hFn]
  refine ⟨hall', ?_⟩
  rw [hall']
  unfold eqIntMasses
  rw [pairs_map_range', List.range_eq_range', List.map_map, List.zip_map']
  apply List.map_congr_left; intro i _
  simp only [Function.comp, nat_eq, half_eq, ScalarReal.one_eq, ScalarReal.zero_eq, F, w, cond, Scalar.gtb, ScalarReal.ltb_iff]

/-- what `eqInt` computes when the classes are wider than the precision and the domain has mass -/
theorem eqInt_spec (par : Parent ℝ) (s : DD ℝ) (hn : 1 ≤ s.n) (hp : 0 ≤ s.prec)
    (hw : s.prec < (s.dom.hi - s.dom.lo) / (s.n : ℝ)) :
    let w := (s.dom.hi - s.dom.lo) / (s.n : ℝ)
    let F : ℕ → ℝ := fun i => s.dom.lo + (i : ℝ) * w
    let cond := par.P s.dom.hi - par.P s.dom.lo
    ∃ s', eqInt par s = .ok s' ∧
    s'.allBounds = (List.range' 0 (s.n + 1)).map F ∧
    s'.dist = (List.range' 0 s.n).map (fun i : ℕ => (s.dom.lo + ((i : ℝ) + 1 / 2) * w,
        if 0 < cond then (par.P (F (i + 1)) - par.P (F i)) / cond else 1 / (s.n : ℝ))) ∧
    s'.n = s.n ∧ s'.dom = s.dom ∧ s'.prec = s.prec ∧ s'.median = s.median ∧ s'.scheme = s.scheme := by
  intro w F cond
  have hwpos : 0 < w := lt_of_le_of_lt hp hw
  obtain ⟨hall', hzip⟩ := eqInt_lists par s hn
  have hins : insertPairs s.prec s.dom.hi [] ((List.range' 0 s.n).map (fun i : ℕ => (s.dom.lo + ((i : ℝ) + 1 / 2) * w,
      if 0 < cond then (par.P (F (i + 1)) - par.P (F i)) / cond else 1 / (s.n : ℝ)))) =
      some ((List.range' 0 s.n).map (fun i : ℕ => (s.dom.lo + ((i : ℝ) + 1 / 2) * w,
      if 0 < cond then (par.P (F (i + 1)) - par.P (F i)) / cond else 1 / (s.n : ℝ)))) := by
    rw [insertPairs_separated s.prec s.dom.hi _ [] _ (by simp)]
    · simp
    · rw [List.pairwise_map]
      have := List.pairwise_lt_range' (s := 0) (n := s.n) (step := 1) (by omega)
      refine this.imp ?_
      intro i j hij
      have : (i : ℝ) + 1 ≤ (j : ℝ) := by exact_mod_cast hij
      show s.dom.lo + ((i : ℝ) + 1 / 2) * ((s.dom.hi - s.dom.lo) / (s.n : ℝ)) < s.dom.lo + ((j : ℝ) + 1 / 2) * ((s.dom.hi - s.dom.lo) / (s.n : ℝ)) - s.prec
      nlinarith
  let dist : TMap ℝ := (List.range' 0 s.n).map (fun i : ℕ => (s.dom.lo + ((i : ℝ) + 1 / 2) * w,
      if 0 < cond then (par.P (F (i + 1)) - par.P (F i)) / cond else 1 / (s.n : ℝ)))
  let bnds : List ℝ := (List.range (s.n - 1)).map (fun i => s.dom.lo + (nat i + Scalar.one) * ((s.dom.hi - s.dom.lo) / nat s.n))
  refine ⟨{ s with dist := dist, bounds := bnds }, ?_, ?_, rfl, rfl, rfl, rfl, rfl, rfl⟩
  · unfold eqInt
    simp only
    rw [hzip, hins]
  · exact hall'

theorem telescope_range' (g : ℕ → ℝ) (n j : ℕ) :
    ((List.range' j n).map (fun i => g (i + 1) - g i)).sum = g (j + n) - g j := by
  induction n generalizing j with
  | zero => simp
  | succ n ih =>
    rw [List.range'_succ, List.map_cons, List.sum_cons, ih (j + 1)]
    rw [show j + 1 + n = j + (n + 1) by omega]; ring

theorem sum_map_div (l : List ℝ) (c : ℝ) : (l.map (fun v => v / c)).sum = l.sum / c := by
  induction l with
  | nil => simp
  | cons a t ih => simp [ih]; ring

/-- the clauses of a valid partition for the equal-interval scheme, with the class masses -/
theorem eqInt_valid (par : Parent ℝ) (s : DD ℝ) (hn : 1 ≤ s.n) (hp : 0 ≤ s.prec)
    (hw : s.prec < (s.dom.hi - s.dom.lo) / (s.n : ℝ))
    (hmono : ∀ x y, s.dom.lo ≤ x → x ≤ y → y ≤ s.dom.hi → par.P x ≤ par.P y)
    (hcond : par.P s.dom.lo < par.P s.dom.hi) :
    ∃ r, eqInt par s = .ok r ∧
    nClassesOk r = true ∧ probsNonneg r = true ∧ probsSumOne 0 r = true ∧
    boundsMonoInDom r = true ∧ valuesStrictMono r = true ∧ valuesInClass r = true ∧
    (∀ pm ∈ r.probs.zip (pairs r.allBounds),
        pm.1 * (par.P s.dom.hi - par.P s.dom.lo) = par.P pm.2.2 - par.P pm.2.1) ∧
    TMap.Sorted s.prec r.dist := by
  have hn' : (0 : ℝ) < s.n := by exact_mod_cast hn
  obtain ⟨r, hr, hall, hdist0, hnn, hdom, hprec, _, _⟩ := eqInt_spec par s hn hp hw
  refine ⟨r, hr, ?_⟩
  obtain ⟨m, _, hrm⟩ := eqInt_ok par s r hr
  set w := (s.dom.hi - s.dom.lo) / (s.n : ℝ) with hwdef
  set F : ℕ → ℝ := fun i => s.dom.lo + (i : ℝ) * w with hF
  set cond := par.P s.dom.hi - par.P s.dom.lo with hc
  have hwpos : 0 < w := lt_of_le_of_lt hp hw
  have hcpos : 0 < cond := by simp only [hc]; linarith
  have hdist : r.dist = (List.range' 0 s.n).map (fun i : ℕ => (s.dom.lo + ((i : ℝ) + 1 / 2) * w, (par.P (F (i + 1)) - par.P (F i)) / cond)) := by
    rw [hdist0]; apply List.map_congr_left; intro i _; simp [hcpos]
  have hFn : F s.n = s.dom.hi := by simp only [hF, hwdef]; field_simp; ring
  have hF0 : F 0 = s.dom.lo := by simp [hF]
  have hFmono : ∀ i j : ℕ, i ≤ j → F i ≤ F j := by
    intro i j hij; simp only [hF]
    have : (i : ℝ) ≤ j := by exact_mod_cast hij
    nlinarith
  have hFlo : ∀ i : ℕ, s.dom.lo ≤ F i := fun i => by rw [← hF0]; exact hFmono 0 i (Nat.zero_le _)
  have hFhi : ∀ i : ℕ, i ≤ s.n → F i ≤ s.dom.hi := fun i hi => by rw [← hFn]; exact hFmono i s.n hi
  have hprobs : r.probs = (List.range' 0 s.n).map (fun i : ℕ => (par.P (F (i + 1)) - par.P (F i)) / cond) := by
    unfold DD.probs TMap.vals; rw [hdist, List.map_map]; rfl
  have hcats : r.cats = (List.range' 0 s.n).map (fun i : ℕ => s.dom.lo + ((i : ℝ) + 1 / 2) * w) := by
    unfold DD.cats TMap.keys; rw [hdist, List.map_map]; rfl
  have hpairs : pairs r.allBounds = (List.range' 0 s.n).map (fun i => (F i, F (i + 1))) := by
    rw [hall, pairs_map_range']
  refine ⟨?_, ?_, ?_, ?_, ?_, ?_, ?_, ?_⟩
  · -- n classes
    simp only [nClassesOk, Bool.and_eq_true, beq_iff_eq]
    constructor
    · rw [hdist, hnn]; simp
    · rw [hnn, hrm]; simp; omega
  · -- non-negative
    simp only [probsNonneg, List.all_eq_true, ScalarReal.leb_iff, ScalarReal.zero_eq]
    intro p hpm
    rw [hprobs] at hpm
    obtain ⟨i, hi, rfl⟩ := List.mem_map.1 hpm
    have hi' : i < s.n := by simpa using hi
    apply div_nonneg _ hcpos.le
    have := hmono (F i) (F (i + 1)) (hFlo i) (hFmono i (i + 1) (by omega)) (hFhi (i + 1) (by omega))
    linarith
  · -- sum to one
    simp only [probsSumOne, ScalarReal.leb_iff, sumL_eq, ScalarReal.abs_eq, ScalarReal.one_eq]
    rw [hprobs]
    have e : (List.range' 0 s.n).map (fun i : ℕ => (par.P (F (i + 1)) - par.P (F i)) / cond) =
        ((List.range' 0 s.n).map (fun i : ℕ => par.P (F (i + 1)) - par.P (F i))).map (fun v => v / cond) := by
      rw [List.map_map]; rfl
    rw [e, sum_map_div, telescope_range' (fun i => par.P (F i)) s.n 0]
    simp only [Nat.zero_add, hFn, hF0]
    rw [show (par.P s.dom.hi - par.P s.dom.lo) / cond = 1 from div_self hcpos.ne']
    simp
  · -- bounds
    simp only [boundsMonoInDom, nondecr_iff]
    rw [hall]
    apply List.Pairwise.isChain
    rw [List.pairwise_map]
    exact (List.pairwise_lt_range' (s := 0) (n := s.n + 1) (step := 1) (by omega)).imp (fun {i j} hij => hFmono i j hij.le)
  · -- values strictly increasing
    simp only [valuesStrictMono, strictIncr_iff]
    rw [hcats]
    apply List.Pairwise.isChain
    rw [List.pairwise_map]
    refine (List.pairwise_lt_range' (s := 0) (n := s.n) (step := 1) (by omega)).imp ?_
    intro i j hij
    have : (i : ℝ) + 1 ≤ (j : ℝ) := by exact_mod_cast hij
    nlinarith
  · -- values in own class
    simp only [valuesInClass]
    rw [hcats, hpairs, List.zip_map']
    simp only [List.all_map, List.all_eq_true, Function.comp, Bool.and_eq_true, ScalarReal.leb_iff]
    intro i _
    simp only [hF]
    constructor <;> push_cast <;> nlinarith
  · -- class masses
    intro pm hpm
    rw [hprobs, hpairs, List.zip_map'] at hpm
    obtain ⟨i, _, rfl⟩ := List.mem_map.1 hpm
    simp only
    exact div_mul_cancel₀ _ hcpos.ne'
  · -- comparator order
    unfold TMap.Sorted
    rw [hdist, List.pairwise_map]
    refine (List.pairwise_lt_range' (s := 0) (n := s.n) (step := 1) (by omega)).imp ?_
    intro i j hij
    have : (i : ℝ) + 1 ≤ (j : ℝ) := by exact_mod_cast hij
    show s.dom.lo + ((i : ℝ) + 1 / 2) * w < s.dom.lo + ((j : ℝ) + 1 / 2) * w - s.prec
    nlinarith

/-- the clauses that need neither wide classes nor mass on the domain (the repaired scheme keeps
the class values distinct and falls back to equal probabilities): after `discretizeEqualIntervals`
there are `n` classes in comparator order, with non-negative probabilities summing to one, and
non-decreasing bounds inside the domain -/
theorem eqInt_partition (par : Parent ℝ) (s r : DD ℝ) (hn : 1 ≤ s.n) (hp : 0 ≤ s.prec) (hl : s.dom.lo ≤ s.dom.hi)
    (hmono : ∀ x y, s.dom.lo ≤ x → x ≤ y → y ≤ s.dom.hi → par.P x ≤ par.P y)
    (h : eqInt par s = .ok r) :
    nClassesOk r = true ∧ probsNonneg r = true ∧ probsSumOne 0 r = true ∧
    boundsMonoInDom r = true ∧ valuesStrictMono r = true ∧ TMap.Sorted s.prec r.dist ∧
    r.n = s.n ∧ r.dom = s.dom ∧ r.prec = s.prec ∧ r.median = s.median ∧ r.scheme = s.scheme := by
  have hn' : (0 : ℝ) < s.n := by exact_mod_cast hn
  obtain ⟨m, hm, hrm⟩ := eqInt_ok par s r h
  obtain ⟨hall', hzip⟩ := eqInt_lists par s hn
  rw [hzip] at hm
  set w := (s.dom.hi - s.dom.lo) / (s.n : ℝ) with hwdef
  set F : ℕ → ℝ := fun i => s.dom.lo + (i : ℝ) * w with hF
  set cond := par.P s.dom.hi - par.P s.dom.lo with hc
  have hw0 : 0 ≤ w := div_nonneg (by linarith) hn'.le
  have hFn : F s.n = s.dom.hi := by simp only [hF, hwdef]; field_simp; ring
  have hF0 : F 0 = s.dom.lo := by simp [hF]
  have hFmono : ∀ i j : ℕ, i ≤ j → F i ≤ F j := by
    intro i j hij; simp only [hF]
    have : (i : ℝ) ≤ j := by exact_mod_cast hij
    nlinarith
  have hFlo : ∀ i : ℕ, s.dom.lo ≤ F i := fun i => by rw [← hF0]; exact hFmono 0 i (Nat.zero_le _)
  have hFhi : ∀ i : ℕ, i ≤ s.n → F i ≤ s.dom.hi := fun i hi => by rw [← hFn]; exact hFmono i s.n hi
  obtain ⟨hsorted, hlen, hperm⟩ := insertPairs_spec s.prec s.dom.hi hp _ [] m (by simp [TMap.Sorted]) hm
  simp only [List.length_nil, Nat.zero_add, List.length_map, List.length_range', TMap.vals, List.map_nil, List.nil_append,
    List.map_map] at hlen hperm
  have hdist : r.dist = m := by rw [hrm]
  have hprobs : r.probs.Perm ((List.range' 0 s.n).map (fun i : ℕ =>
      if 0 < cond then (par.P (F (i + 1)) - par.P (F i)) / cond else 1 / (s.n : ℝ))) := by
    unfold DD.probs TMap.vals
    rw [hdist]
    exact hperm
  have hballs : r.allBounds = (List.range' 0 (s.n + 1)).map F := by
    rw [hrm]; simpa [DD.allBounds] using hall'
  refine ⟨?_, ?_, ?_, ?_, ?_, ?_, by rw [hrm], by rw [hrm], by rw [hrm], by rw [hrm], by rw [hrm]⟩
  · simp only [nClassesOk, Bool.and_eq_true, beq_iff_eq]
    constructor
    · rw [hdist, hlen, hrm]
    · rw [hrm]; simp; omega
  · simp only [probsNonneg, List.all_eq_true, ScalarReal.leb_iff, ScalarReal.zero_eq]
    intro p hpm
    have := hprobs.mem_iff.1 hpm
    obtain ⟨i, hi, rfl⟩ := List.mem_map.1 this
    have hi' : i < s.n := by simpa using hi
    split
    · rename_i hcpos
      apply div_nonneg _ hcpos.le
      have := hmono (F i) (F (i + 1)) (hFlo i) (hFmono i (i + 1) (by omega)) (hFhi (i + 1) (by omega))
      linarith
    · positivity
  · simp only [probsSumOne, ScalarReal.leb_iff, sumL_eq, ScalarReal.abs_eq, ScalarReal.one_eq]
    rw [hprobs.sum_eq]
    by_cases hcpos : 0 < cond
    · simp only [hcpos, if_true]
      have e : (List.range' 0 s.n).map (fun i : ℕ => (par.P (F (i + 1)) - par.P (F i)) / cond) =
          ((List.range' 0 s.n).map (fun i : ℕ => par.P (F (i + 1)) - par.P (F i))).map (fun v => v / cond) := by
        rw [List.map_map]; rfl
      rw [e, sum_map_div, telescope_range' (fun i => par.P (F i)) s.n 0]
      simp only [Nat.zero_add, hFn, hF0]
      rw [show (par.P s.dom.hi - par.P s.dom.lo) / cond = 1 from div_self hcpos.ne']
      simp
    · simp only [hcpos, if_false]
      rw [List.map_const', List.sum_replicate, List.length_range', nsmul_eq_mul]
      rw [show (s.n : ℝ) * (1 / (s.n : ℝ)) = 1 by field_simp]; simp
  · simp only [boundsMonoInDom, nondecr_iff]
    rw [hballs]
    apply List.Pairwise.isChain
    rw [List.pairwise_map]
    exact (List.pairwise_lt_range' (s := 0) (n := s.n + 1) (step := 1) (by omega)).imp (fun {i j} hij => hFmono i j hij.le)
  · rw [valuesStrictMono, DD.cats, hdist]
    exact TMap.keys_strict_of_sorted s.prec hp m hsorted
  · rw [hdist]; exact hsorted

end Bpp.Discretize
