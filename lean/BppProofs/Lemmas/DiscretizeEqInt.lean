import BppProofs.Lemmas.DiscretizeEqProp
/-!
C09: `discretizeEqualIntervals` at `ℝ`.
-/
namespace Bpp.Discretize
open Bpp

theorem foldl_assign_separated (prec : ℝ) (l : List (ℝ × ℝ)) (m : TMap ℝ)
    (hsep : l.Pairwise (fun a b => a.1 < b.1 - prec)) (hm : ∀ e ∈ m, ∀ v ∈ l, e.1 < v.1 - prec) :
    l.foldl (fun m vp => TMap.assign prec vp.1 vp.2 m) m = m ++ l := by
  induction l generalizing m with
  | nil => simp
  | cons v vs ih =>
    have hall : ∀ e ∈ m, e.1 < v.1 - prec := fun e he => hm e he v (by simp)
    simp only [List.foldl_cons]
    rw [TMap.assign_of_all_lt prec v.1 v.2 m hall]
    rw [ih (m ++ [(v.1, v.2)]) (List.pairwise_cons.1 hsep).2]
    · simp
    · intro e he w hw
      rcases List.mem_append.1 he with he | he
      · exact hm e he w (by simp [hw])
      · simp at he; subst he
        exact (List.pairwise_cons.1 hsep).1 w hw

/-- consecutive pairs of `F j, F (j+1), …, F (j+k)` -/
theorem pairs_map_range' (F : ℕ → ℝ) (k j : ℕ) :
    pairs ((List.range' j (k + 1)).map F) = (List.range' j k).map (fun i => (F i, F (i + 1))) := by
  induction k generalizing j with
  | zero => simp [pairs]
  | succ k ih =>
    rw [List.range'_succ, List.map_cons]
    rw [show List.range' (j + 1) (k + 1) = (j + 1) :: List.range' (j + 1 + 1) k from List.range'_succ ..]
    rw [List.map_cons, pairs]
    rw [show F (j + 1) :: List.map F (List.range' (j + 1 + 1) k) = List.map F (List.range' (j + 1) (k + 1)) by
      rw [List.range'_succ, List.map_cons]]
    rw [ih (j + 1), List.range'_succ, List.map_cons]

/-- `lo :: [f 0, …, f (n-2)] ++ [hi]` as `F 0, …, F n` -/
theorem bounds_as_range (F : ℕ → ℝ) (n : ℕ) (hn : 1 ≤ n) :
    F 0 :: (List.range (n - 1)).map (fun i => F (i + 1)) ++ [F n] = (List.range' 0 (n + 1)).map F := by
  obtain ⟨k, rfl⟩ : ∃ k, n = k + 1 := ⟨n - 1, by omega⟩
  simp only [Nat.add_sub_cancel]
  rw [List.range'_succ, List.map_cons]
  simp only [List.cons_append, Nat.zero_add]
  congr 1
  rw [List.range'_concat, List.map_append, List.range'_eq_map_range]
  simp [List.map_map, Function.comp, Nat.add_comm]

/-- what `eqInt` computes when the classes are wider than the precision -/
theorem eqInt_spec (par : Parent ℝ) (s : DD ℝ) (hn : 1 ≤ s.n) (hp : 0 ≤ s.prec)
    (hw : s.prec < (s.dom.hi - s.dom.lo) / (s.n : ℝ)) :
    let w := (s.dom.hi - s.dom.lo) / (s.n : ℝ)
    let F : ℕ → ℝ := fun i => s.dom.lo + (i : ℝ) * w
    let cond := par.P s.dom.hi - par.P s.dom.lo
    (eqInt par s).allBounds = (List.range' 0 (s.n + 1)).map F ∧
    (eqInt par s).dist = (List.range' 0 s.n).map (fun i : ℕ => (s.dom.lo + ((i : ℝ) + 1 / 2) * w, (par.P (F (i + 1)) - par.P (F i)) / cond)) ∧
    (eqInt par s).n = s.n ∧ (eqInt par s).dom = s.dom ∧ (eqInt par s).prec = s.prec ∧
    (eqInt par s).median = s.median ∧ (eqInt par s).scheme = s.scheme := by
  intro w F cond
  have hn' : (0 : ℝ) < s.n := by exact_mod_cast hn
  have hwpos : 0 < w := lt_of_le_of_lt hp hw
  have hFn : F s.n = s.dom.hi := by simp only [F, w]; field_simp; ring
  have hF0 : F 0 = s.dom.lo := by simp [F]
  have hb : (List.range (s.n - 1)).map (fun i => s.dom.lo + (nat i + Scalar.one) * ((s.dom.hi - s.dom.lo) / nat s.n))
      = (List.range (s.n - 1)).map (fun i => F (i + 1)) := by
    apply List.map_congr_left; intro i _
    simp only [nat_eq, ScalarReal.one_eq, F, w]; push_cast; ring
  have hall' : s.dom.lo :: (List.range (s.n - 1)).map (fun i => s.dom.lo + (nat i + Scalar.one) * ((s.dom.hi - s.dom.lo) / nat s.n)) ++ [s.dom.hi]
      = (List.range' 0 (s.n + 1)).map F := by
    rw [hb, ← bounds_as_range F s.n hn, hF0, hFn]
  refine ⟨by simpa [DD.allBounds, eqInt] using hall', ?_, rfl, rfl, rfl, rfl, rfl⟩
  simp only [eqInt]
  rw [hall', pairs_map_range', List.range_eq_range', List.map_map, List.zip_map']
  rw [foldl_assign_separated s.prec _ [] _ (by simp)]
  · simp only [List.nil_append, Function.comp]
    apply List.map_congr_left; intro i _
    simp only [nat_eq, half_eq, F, w, cond]
  · rw [List.pairwise_map]
    have := List.pairwise_lt_range' (s := 0) (n := s.n) (step := 1) (by omega)
    refine this.imp ?_
    intro i j hij
    simp only [nat_eq, half_eq]
    have : (i : ℝ) + 1 ≤ (j : ℝ) := by exact_mod_cast hij
    show s.dom.lo + ((i : ℝ) + 1 / 2) * ((s.dom.hi - s.dom.lo) / (s.n : ℝ)) < s.dom.lo + ((j : ℝ) + 1 / 2) * ((s.dom.hi - s.dom.lo) / (s.n : ℝ)) - s.prec
    nlinarith


theorem telescope_range' (g : ℕ → ℝ) (n j : ℕ) :
    ((List.range' j n).map (fun i => g (i + 1) - g i)).sum = g (j + n) - g j := by
  induction n generalizing j with
  | zero => simp
  | succ n ih =>
    rw [List.range'_succ, List.map_cons, List.sum_cons, ih (j + 1)]
    rw [show j + 1 + n = j + (n + 1) by omega]; ring

theorem sum_map_div (l : List ℝ) (c : ℝ) : (l.map (fun v => v / c)).sum = l.sum / c := by
  induction l with
  | nil => simp
  | cons a t ih => simp [ih]; ring

/-- the clauses of a valid partition for the equal-interval scheme -/
theorem eqInt_valid (par : Parent ℝ) (s : DD ℝ) (hn : 1 ≤ s.n) (hp : 0 ≤ s.prec)
    (hw : s.prec < (s.dom.hi - s.dom.lo) / (s.n : ℝ))
    (hmono : ∀ x y, s.dom.lo ≤ x → x ≤ y → y ≤ s.dom.hi → par.P x ≤ par.P y)
    (hcond : par.P s.dom.lo < par.P s.dom.hi) :
    nClassesOk (eqInt par s) = true ∧ probsNonneg (eqInt par s) = true ∧ probsSumOne 0 (eqInt par s) = true ∧
    boundsMonoInDom (eqInt par s) = true ∧ valuesStrictMono (eqInt par s) = true ∧ valuesInClass (eqInt par s) = true ∧
    (∀ pm ∈ (eqInt par s).probs.zip (pairs (eqInt par s).allBounds),
        pm.1 * (par.P s.dom.hi - par.P s.dom.lo) = par.P pm.2.2 - par.P pm.2.1) ∧
    TMap.Sorted s.prec (eqInt par s).dist := by
  have hn' : (0 : ℝ) < s.n := by exact_mod_cast hn
  obtain ⟨hall, hdist, hnn, hdom, hprec, _, _⟩ := eqInt_spec par s hn hp hw
  set w := (s.dom.hi - s.dom.lo) / (s.n : ℝ) with hwdef
  set F : ℕ → ℝ := fun i => s.dom.lo + (i : ℝ) * w with hF
  set cond := par.P s.dom.hi - par.P s.dom.lo with hc
  have hwpos : 0 < w := lt_of_le_of_lt hp hw
  have hcpos : 0 < cond := by simp only [hc]; linarith
  have hFn : F s.n = s.dom.hi := by simp only [hF, hwdef]; field_simp; ring
  have hF0 : F 0 = s.dom.lo := by simp [hF]
  have hFmono : ∀ i j : ℕ, i ≤ j → F i ≤ F j := by
    intro i j hij; simp only [hF]
    have : (i : ℝ) ≤ j := by exact_mod_cast hij
    nlinarith
  have hFlo : ∀ i : ℕ, s.dom.lo ≤ F i := fun i => by rw [← hF0]; exact hFmono 0 i (Nat.zero_le _)
  have hFhi : ∀ i : ℕ, i ≤ s.n → F i ≤ s.dom.hi := fun i hi => by rw [← hFn]; exact hFmono i s.n hi
  have hprobs : (eqInt par s).probs = (List.range' 0 s.n).map (fun i : ℕ => (par.P (F (i + 1)) - par.P (F i)) / cond) := by
    unfold DD.probs TMap.vals; rw [hdist, List.map_map]; rfl
  have hcats : (eqInt par s).cats = (List.range' 0 s.n).map (fun i : ℕ => s.dom.lo + ((i : ℝ) + 1 / 2) * w) := by
    unfold DD.cats TMap.keys; rw [hdist, List.map_map]; rfl
  have hpairs : pairs (eqInt par s).allBounds = (List.range' 0 s.n).map (fun i => (F i, F (i + 1))) := by
    rw [hall, pairs_map_range']
  refine ⟨?_, ?_, ?_, ?_, ?_, ?_, ?_, ?_⟩
  · -- n classes
    simp only [nClassesOk, Bool.and_eq_true, beq_iff_eq]
    constructor
    · rw [hdist, hnn]; simp
    · rw [hnn]; simp [eqInt]; omega
  · -- non-negative
    simp only [probsNonneg, List.all_eq_true, ScalarReal.leb_iff, ScalarReal.zero_eq]
    intro p hpm
    rw [hprobs] at hpm
    obtain ⟨i, hi, rfl⟩ := List.mem_map.1 hpm
    have hi' : i < s.n := by simpa using hi
    apply div_nonneg _ hcpos.le
    have := hmono (F i) (F (i + 1)) (hFlo i) (hFmono i (i + 1) (by omega)) (hFhi (i + 1) (by omega))
    linarith
  · -- sum to one
    simp only [probsSumOne, ScalarReal.leb_iff, sumL_eq, ScalarReal.abs_eq, ScalarReal.one_eq]
    rw [hprobs]
    have e : (List.range' 0 s.n).map (fun i : ℕ => (par.P (F (i + 1)) - par.P (F i)) / cond) =
        ((List.range' 0 s.n).map (fun i : ℕ => par.P (F (i + 1)) - par.P (F i))).map (fun v => v / cond) := by
      rw [List.map_map]; rfl
    rw [e, sum_map_div, telescope_range' (fun i => par.P (F i)) s.n 0]
    simp only [Nat.zero_add, hFn, hF0]
    rw [show (par.P s.dom.hi - par.P s.dom.lo) / cond = 1 from div_self hcpos.ne']
    simp
  · -- bounds
    simp only [boundsMonoInDom, nondecr_iff]
    rw [hall]
    apply List.Pairwise.isChain
    rw [List.pairwise_map]
    exact (List.pairwise_lt_range' (s := 0) (n := s.n + 1) (step := 1) (by omega)).imp (fun {i j} hij => hFmono i j hij.le)
  · -- values strictly increasing
    simp only [valuesStrictMono, strictIncr_iff]
    rw [hcats]
    apply List.Pairwise.isChain
    rw [List.pairwise_map]
    refine (List.pairwise_lt_range' (s := 0) (n := s.n) (step := 1) (by omega)).imp ?_
    intro i j hij
    have : (i : ℝ) + 1 ≤ (j : ℝ) := by exact_mod_cast hij
    nlinarith
  · -- values in own class
    simp only [valuesInClass]
    rw [hcats, hpairs, List.zip_map']
    simp only [List.all_map, List.all_eq_true, Function.comp, Bool.and_eq_true, ScalarReal.leb_iff]
    intro i _
    simp only [hF]
    constructor <;> push_cast <;> nlinarith
  · -- class masses
    intro pm hpm
    rw [hprobs, hpairs, List.zip_map'] at hpm
    obtain ⟨i, _, rfl⟩ := List.mem_map.1 hpm
    simp only
    exact div_mul_cancel₀ _ hcpos.ne'
  · -- comparator order
    unfold TMap.Sorted
    rw [hdist, List.pairwise_map]
    refine (List.pairwise_lt_range' (s := 0) (n := s.n) (step := 1) (by omega)).imp ?_
    intro i j hij
    have : (i : ℝ) + 1 ≤ (j : ℝ) := by exact_mod_cast hij
    show s.dom.lo + ((i : ℝ) + 1 / 2) * w < s.dom.lo + ((j : ℝ) + 1 / 2) * w - s.prec
    nlinarith

end Bpp.Discretize
