import BppProofs.Lemmas.TextU
import BppProofs.Lemmas.TokenizerU
import BppModel.Text.KeyvalU
/-! Helper lemmas for `Props/C16Keyval.lean`: the UB-aware KeyvalTools and wildcard matcher. -/
namespace Bpp.Text.U
open Bpp.Text Bpp.Text.Keyval

/-! ### generic -/

/-- a monadic fold whose every step is safe is safe -/
theorem kv_foldlM_safe {α β : Type} (f : β → α → R β) (hf : ∀ b a, safe (f b a) = true)
    (l : List α) (b : β) : safe (l.foldlM f b) = true := by
  induction l generalizing b with
  | nil => simp [List.foldlM]
  | cons a l ih =>
    simp only [List.foldlM]
    exact safe_bind (hf b a) (fun b' _ => ih b')

/-- `tokens[tokens.size() - 1]` of a non-empty vector is defined, whatever the size -/
theorem kv_wsub_one_lt {n : Nat} (h : n ≠ 0) : wsub n 1 < n := by
  unfold wsub SZ
  omega

/-! ### the tokenizer methods -/

theorem kv_nextToken_ok {t : Tokenizer} (h : t.hasMoreToken = true) :
    ∃ tok, t.nextToken = .ok (tok, { t with pos := t.pos + 1 }) := by
  unfold Tokenizer.nextToken
  have h' : t.pos < t.tokens.length := by simpa [Tokenizer.hasMoreToken] using h
  simp only [h, Bool.not_true, Bool.false_eq_true, if_false]
  rw [vecAt_ok h']
  exact ⟨_, rfl⟩

theorem kv_hasMore_iff (t : Tokenizer) : t.hasMoreToken = true ↔ t.pos < t.tokens.length := by
  simp [Tokenizer.hasMoreToken]

/-! ### singleKeyval -/

theorem singleKeyvalG_safe_of (fixed : Bool) (desc split : Str) (h : split ≠ []) :
    safe (singleKeyvalG fixed desc split) = true := by
  unfold singleKeyvalG
  split
  · rfl
  · cases hf : find split desc with
    | none => rfl
    | some i =>
      have hb := find_bounds hf
      have hl : 0 < split.length := List.length_pos_iff.mpr h
      have h2 := wadd_le i 1
      simp only []
      rw [substr_ok _ (by omega), substrFrom_ok (by omega)]
      rfl

theorem singleKeyval_safe' (desc split : Str) : safe (singleKeyval desc split) = true := by
  cases split with
  | nil => simp [singleKeyval, singleKeyvalG]
  | cons c r => exact singleKeyvalG_safe_of true desc (c :: r) (by simp)

/-- what `singleKeyval` returns -/
theorem singleKeyval_eq_ok {desc split k v : Str} (h : singleKeyval desc split = .ok (k, v)) :
    ∃ i, find split desc = some i ∧ i + 1 ≤ desc.length ∧ k = desc.take i ∧
      v = desc.drop (wadd i 1) := by
  unfold singleKeyval singleKeyvalG at h
  split at h
  · cases h
  · rename_i hne
    cases hf : find split desc with
    | none => simp [hf] at h
    | some i =>
      have hb := find_bounds hf
      have hl : 0 < split.length := by
        cases split with
        | nil => simp at hne
        | cons c r => simp
      have h2 := wadd_le i 1
      simp only [hf] at h
      rw [substr_ok _ (by omega), substrFrom_ok (by omega)] at h
      simp only [bind_ok, List.drop_zero] at h
      cases h
      exact ⟨i, rfl, by omega, rfl, rfl⟩

/-! ### the merge loop -/

theorem mergeLoop_safe' (fuel : Nat) (st : Tokenizer) (acc : List Str)
    (hpos : st.pos ≤ st.tokens.length) (hfuel : st.tokens.length - st.pos < fuel) :
    safe (mergeLoop fuel st acc) = true := by
  induction fuel generalizing st acc with
  | zero => omega
  | succ fuel ih =>
    unfold mergeLoop
    cases hm : st.hasMoreToken with
    | false => simp
    | true =>
      have hlt := (kv_hasMore_iff st).mp hm
      obtain ⟨tok, htok⟩ := kv_nextToken_ok hm
      simp only [Bool.not_true, Bool.false_eq_true, if_false, htok, bind_ok]
      split
      · split
        · rfl
        · rename_i hacc
          cases hm2 : Tokenizer.hasMoreToken { st with pos := st.pos + 1 } with
          | false => simp
          | true =>
            have hlt2 := (kv_hasMore_iff _).mp hm2
            obtain ⟨nxt, hnxt⟩ := kv_nextToken_ok hm2
            simp only [Bool.not_true, Bool.false_eq_true, if_false, hnxt, bind_ok]
            split
            · rfl
            · have hne : acc.length ≠ 0 := by simpa using hacc
              rw [vecAt_ok (kv_wsub_one_lt hne)]
              simp only [bind_ok]
              apply ih
              · simp only at hlt2 ⊢; omega
              · simp only at hlt2 ⊢; omega
      · apply ih
        · simp only; omega
        · simp only; omega

/-! ### multipleKeyvals -/

theorem kvStepU_safe (m : Map) (tok : Str) : safe (kvStepU m tok) = true := by
  unfold kvStepU
  exact safe_bind (singleKeyval_safe' tok ['=']) (fun kv _ => by cases kv; rfl)

theorem chgStepU_safe (newkv : Map) (split : Str) (st : Bool × Str) (tok : Str) :
    safe (chgStepU newkv split st tok) = true := by
  unfold chgStepU
  refine safe_bind (singleKeyval_safe' tok ['=']) (fun kv _ => ?_)
  cases kv with
  | mk k v =>
    simp only []
    split <;> rfl

/-- the merge loop started by the entry points on a well-formed fresh tokenizer -/
theorem mergeLoop_entry_safe (t : Tokenizer) (hpos : t.pos = 0) :
    safe (mergeLoop (t.tokens.length + 1) t []) = true :=
  mergeLoop_safe' _ t [] (by omega) (by omega)

theorem multipleKeyvals_safe_of' (desc split : Str) (m0 : Map) (nested : Bool)
    (hmk : safe (mkKvTokenizer desc split nested) = true)
    (hwf : ∀ t, mkKvTokenizer desc split nested = .ok t → t.pos = 0 ∧ t.tokens.length < SZ) :
    safe (multipleKeyvals desc m0 split nested) = true := by
  unfold multipleKeyvals
  refine safe_bind hmk (fun t ht => ?_)
  refine safe_bind (mergeLoop_entry_safe t (hwf t ht).1) (fun toks _ => ?_)
  exact kv_foldlM_safe _ kvStepU_safe toks m0

/-! ### splitProcedure -/

theorem splitProcedure_safe' (desc : Str) : safe (splitProcedure desc) = true := by
  unfold splitProcedure
  cases hb : findFirstOf ['('] desc 0 with
  | none => cases he : findLastOf [')'] desc <;> rfl
  | some bi =>
    have hbi := (findFirstOf_bounds hb).2
    have hw := wadd_le bi 1
    have hafter : wadd (toSz (findLastOf [')'] desc)) 1 ≤ desc.length := by
      cases he : findLastOf [')'] desc with
      | none => simp [toSz, wadd, npos, SZ]
      | some k =>
        have := findLastOf_lt he
        have := wadd_le k 1
        simp only [toSz]; omega
    simp only []
    rw [substrFrom_ok hafter]
    simp only [bind_ok]
    split
    · rfl
    · rw [substr_ok _ (by omega), substr_ok _ (by omega)]
      rfl

theorem kv_length_removeFirstWS_le (s : Str) : (removeFirstWS s).length ≤ s.length := by
  unfold removeFirstWS
  exact (List.dropWhile_sublist _).length_le

theorem splitProcedure_inner' (desc name inner : Str)
    (h : splitProcedure desc = .ok (some (name, inner))) :
    inner.length ≤ desc.length ∧ name.length ≤ desc.length := by
  unfold splitProcedure at h
  cases hb : findFirstOf ['('] desc 0 with
  | none => cases he : findLastOf [')'] desc <;> simp [hb, he] at h
  | some bi =>
    simp only [hb] at h
    obtain ⟨after, _, h⟩ := bind_eq_ok h
    split at h
    · cases h
    · obtain ⟨nm, hnm, h⟩ := bind_eq_ok h
      obtain ⟨inn, hinn, h⟩ := bind_eq_ok h
      cases h
      have h1 := (substr_len hnm).1
      have h2 := (substr_len hinn).1
      have h3 := kv_length_removeFirstWS_le nm
      omega

theorem parseProcedure_safe_of' (desc : Str)
    (hmk : ∀ inner, inner.length ≤ desc.length →
      safe (mkKvTokenizer inner [','] true) = true ∧
      ∀ t, mkKvTokenizer inner [','] true = .ok t → t.pos = 0 ∧ t.tokens.length < SZ) :
    safe (parseProcedure desc) = true := by
  unfold parseProcedure
  refine safe_bind (splitProcedure_safe' desc) (fun r hr => ?_)
  cases r with
  | none => rfl
  | some p =>
    cases p with
    | mk name inner =>
      have hl := (splitProcedure_inner' desc name inner hr).1
      simp only []
      exact safe_bind (multipleKeyvals_safe_of' inner [','] [] true (hmk inner hl).1 (hmk inner hl).2)
        (fun _ _ => rfl)

theorem changeKeyvals_safe_of' (desc split : Str) (newkv : Map) (nested : Bool)
    (hmk : ∀ inner, inner.length ≤ desc.length →
      safe (mkKvTokenizer inner split nested) = true ∧
      ∀ t, mkKvTokenizer inner split nested = .ok t → t.pos = 0 ∧ t.tokens.length < SZ) :
    safe (changeKeyvals desc newkv split nested) = true := by
  unfold changeKeyvals
  refine safe_bind (splitProcedure_safe' desc) (fun r hr => ?_)
  cases r with
  | none => rfl
  | some p =>
    cases p with
    | mk name inner =>
      have hl := (splitProcedure_inner' desc name inner hr).1
      simp only []
      refine safe_bind (hmk inner hl).1 (fun t ht => ?_)
      refine safe_bind (mergeLoop_entry_safe t (((hmk inner hl).2 t ht).1)) (fun toks _ => ?_)
      exact safe_bind (kv_foldlM_safe _ (chgStepU_safe newkv split) toks _) (fun _ _ => rfl)

/-! ### the wildcard matcher -/

/-- the matcher loop returns (it never raises, not even the library's exception) -/
theorem matchLoopU_returns (name : Str) (fuel : Nat) (stj : Tokenizer) (pos1 : Nat) (g : Str)
    (hpos : stj.pos ≤ stj.tokens.length) (hfuel : stj.tokens.length - stj.pos < fuel) :
    ∃ r, matchLoopU name fuel stj pos1 g = .ok r := by
  induction fuel generalizing stj pos1 g with
  | zero => omega
  | succ fuel ih =>
    unfold matchLoopU
    cases hm : stj.hasMoreToken with
    | false => exact ⟨_, rfl⟩
    | true =>
      have hlt := (kv_hasMore_iff stj).mp hm
      obtain ⟨tok, htok⟩ := kv_nextToken_ok hm
      simp only [Bool.not_true, Bool.false_eq_true, if_false, htok, bind_ok]
      split
      · exact ⟨none, rfl⟩
      · apply ih
        · simp only; omega
        · simp only; omega

theorem matcherU_returns_of' (pattern name : Str)
    (hwf : ∀ t, mkTokenizer pattern ['*'] true false = .ok t → t.pos = 0 ∧ t.tokens.length < SZ ∧ t.tokens ≠ [])
    (hex : ∃ t, mkTokenizer pattern ['*'] true false = .ok t) :
    ∃ b, matcherU pattern name = .ok b := by
  obtain ⟨t, ht⟩ := hex
  obtain ⟨hp, _, hne⟩ := hwf t ht
  have hlen : 0 < t.tokens.length := List.length_pos_iff.mpr hne
  have hm : t.hasMoreToken = true := by rw [kv_hasMore_iff]; omega
  obtain ⟨g, hg⟩ := kv_nextToken_ok hm
  unfold matcherU
  simp only [ht, hg, bind_ok]
  split
  · exact ⟨false, rfl⟩
  · obtain ⟨r, hr⟩ := matchLoopU_returns name
      ((Tokenizer.mk t.tokens t.splits (t.pos + 1)).tokens.length + 1)
      (Tokenizer.mk t.tokens t.splits (t.pos + 1))
      (wadd (toSz (find g name)) g.length) g (by simp only; omega) (by omega)
    rw [hr]
    simp only [bind_ok]
    cases r with
    | none => exact ⟨false, rfl⟩
    | some p => cases p; exact ⟨_, rfl⟩

theorem matcherU_safe_of' (pattern name : Str)
    (hmk : safe (mkTokenizer pattern ['*'] true false) = true)
    (hwf : ∀ t, mkTokenizer pattern ['*'] true false = .ok t → t.pos = 0 ∧ t.tokens.length < SZ ∧ t.tokens ≠ []) :
    safe (matcherU pattern name) = true := by
  rcases (safe_iff _).mp hmk with ⟨t, ht⟩ | he
  · obtain ⟨b, hb⟩ := matcherU_returns_of' pattern name hwf ⟨t, ht⟩
    rw [hb]; rfl
  · unfold matcherU
    rw [he]; rfl

/-! ### the allocation bound of `singleKeyval` needs a `size_t`-sized description -/

theorem singleKeyval_alloc_of_lt (desc split k v : Str) (h : singleKeyval desc split = .ok (k, v))
    (hlen : desc.length < SZ) : k.length + v.length + 1 ≤ desc.length := by
  obtain ⟨i, _, hi, rfl, rfl⟩ := singleKeyval_eq_ok h
  rw [wadd_eq (by omega)]
  simp only [List.length_take, List.length_drop]
  omega

theorem kv_find_eq_replicate (n : Nat) (r : Str) :
    find ['='] (List.replicate n 'a' ++ '=' :: r) = some n := by
  induction n with
  | zero => simp [find, isPrefix]
  | succ n ih =>
    rw [List.replicate_succ, List.cons_append, find]
    have : isPrefix ['='] ('a' :: (List.replicate n 'a' ++ '=' :: r)) = false := by
      simp [isPrefix]
    rw [this, ih]; rfl

/-- a description of 2^64 characters whose separator is the last one: `i + 1` wraps to 0 and the
value is the whole description -/
theorem singleKeyval_wrap (n : Nat) (hn : n + 1 = SZ) :
    singleKeyval (List.replicate n 'a' ++ ['=']) ['='] =
      .ok (List.replicate n 'a', List.replicate n 'a' ++ ['=']) := by
  have hw : wadd n 1 = 0 := by
    unfold wadd; rw [hn]; exact Nat.mod_self _
  unfold singleKeyval singleKeyvalG
  simp only [List.isEmpty_cons, Bool.and_false, Bool.false_eq_true, if_false,
    kv_find_eq_replicate n [], hw]
  rw [substr_ok _ (by simp), substrFrom_ok (by simp)]
  simp only [bind_ok, List.drop_zero]
  rw [List.take_append_of_le_length (by simp)]
  simp only [List.take_replicate, Nat.min_self]
  rfl

/-- hence `k.length + v.length ≤ desc.length` is false of the model without a bound on `desc` -/
theorem singleKeyval_alloc_unbounded_false :
    ∃ desc split k v : Str, singleKeyval desc split = .ok (k, v) ∧
      ¬ (k.length + v.length ≤ desc.length) := by
  obtain ⟨n, hn⟩ : ∃ n, n + 1 = SZ := ⟨18446744073709551615, rfl⟩
  refine ⟨_, _, _, _, singleKeyval_wrap n hn, ?_⟩
  simp only [List.length_append, List.length_replicate, List.length_cons, List.length_nil]
  unfold SZ at hn; omega

/-! ### the tokenizer constructors the entry points call (facts of `Lemmas/TokenizerU.lean`) -/

theorem kv_strOk_of_lt {s : Str} (h : s.length < 2147483648) : StrOk s := by
  unfold StrOk maxStr; omega

theorem mkKvTokenizer_spec (desc split : Str) (nested : Bool) (hs : desc.length < 2147483648) :
    safe (mkKvTokenizer desc split nested) = true ∧
    ∀ t, mkKvTokenizer desc split nested = .ok t → t.pos = 0 ∧ t.tokens.length < SZ := by
  unfold mkKvTokenizer
  cases nested with
  | true =>
    simp only [if_true]
    obtain ⟨h1, h2⟩ := mkNested_spec desc ['('] [')'] split false hs
    refine ⟨h1, fun t ht => ?_⟩
    obtain ⟨a, _, _, b⟩ := h2 t ht
    exact ⟨a, by unfold SZ; omega⟩
  | false =>
    simp only [Bool.false_eq_true, if_false]
    rcases mkTokenizer_spec desc split false false (kv_strOk_of_lt hs) with e | ⟨t', e, h1, h2, _⟩
    · rw [e]; exact ⟨rfl, fun t ht => by cases ht⟩
    · rw [e]
      refine ⟨rfl, fun t ht => ?_⟩
      cases ht
      exact ⟨h2, h1.size⟩

/-- the `*`-tokenizer of the matcher always returns, with at least one token -/
theorem mkStar_ok (pattern : Str) (hs : StrOk pattern) :
    ∃ t, mkTokenizer pattern ['*'] true false = .ok t ∧
      t.pos = 0 ∧ t.tokens.length < SZ ∧ t.tokens ≠ [] := by
  have hsz := hs.lt_SZ
  obtain ⟨ts, ss, e, h2, _, h4⟩ := solidLoop_spec pattern ['*'] false (by simp) hs (loopFuel pattern) 0
    (Nat.zero_le _) (by unfold loopFuel; omega)
  refine ⟨⟨ts, ss, 0⟩, ?_, rfl, ?_, ?_⟩
  · unfold mkTokenizer mkTokenizerG
    simp [e, pure_eq_ok]
  · show ts.length < SZ; omega
  · exact solidLoop_nonempty e

theorem multipleKeyvals_safe' (desc split : Str) (m0 : Map) (nested : Bool)
    (hs : desc.length < 2147483648) : safe (multipleKeyvals desc m0 split nested) = true :=
  multipleKeyvals_safe_of' desc split m0 nested (mkKvTokenizer_spec desc split nested hs).1
    (mkKvTokenizer_spec desc split nested hs).2

theorem parseProcedure_safe' (desc : Str) (hs : desc.length < 2147483648) :
    safe (parseProcedure desc) = true :=
  parseProcedure_safe_of' desc (fun inner hl => mkKvTokenizer_spec inner [','] true (by omega))

theorem changeKeyvals_safe' (desc split : Str) (newkv : Map) (nested : Bool)
    (hs : desc.length < 2147483648) : safe (changeKeyvals desc newkv split nested) = true :=
  changeKeyvals_safe_of' desc split newkv nested
    (fun inner hl => mkKvTokenizer_spec inner split nested (by omega))

theorem matcherU_returns' (pattern name : Str) (hs : StrOk pattern) :
    ∃ b, matcherU pattern name = .ok b := by
  obtain ⟨t, ht, h⟩ := mkStar_ok pattern hs
  exact matcherU_returns_of' pattern name (fun t' ht' => by rw [ht] at ht'; cases ht'; exact h) ⟨t, ht⟩

end Bpp.Text.U

/-! ## refinement of the UB-aware matcher to C17's functional model -/

namespace Bpp.Text.U
open Bpp.Text Bpp.Text.Glob

theorem kv_isPrefix_star (c : Char) (r : Str) : isPrefix ['*'] (c :: r) = (c == '*') := by
  simp only [isPrefix, Bool.and_true]
  rw [Bool.eq_iff_iff, beq_iff_eq, beq_iff_eq]
  exact eq_comm

theorem kv_find_star_cons (c : Char) (r : Str) :
    find ['*'] (c :: r) = if c == '*' then some 0 else (find ['*'] r).map (· + 1) := by
  rw [find, kv_isPrefix_star]

theorem starTokens_true_eq (u : Str) :
    starTokens true u = starTokens false (u.dropWhile (· == '*')) := by
  induction u with
  | nil => rfl
  | cons c r ih =>
    by_cases hc : (c == '*') = true
    · simp only [List.dropWhile_cons, hc, if_true, ← ih]
      simp only [starTokens, hc, if_true]
    · simp only [List.dropWhile_cons, hc, Bool.false_eq_true, if_false]
      simp only [starTokens, hc, Bool.false_eq_true, if_false]

theorem starTokens_find_none {u : Str} (h : find ['*'] u = none) : starTokens false u = [u] := by
  induction u with
  | nil => rfl
  | cons c r ih =>
    rw [kv_find_star_cons] at h
    by_cases hc : (c == '*') = true
    · simp [hc] at h
    · simp only [hc, Bool.false_eq_true, if_false, Option.map_eq_none_iff] at h
      simp only [starTokens, hc, Bool.false_eq_true, if_false, ih h]

theorem starTokens_find_some {u : Str} {k : Nat} (h : find ['*'] u = some k) :
    starTokens false u =
      u.take k :: starTokens false ((u.drop (k + 1)).dropWhile (· == '*')) := by
  induction u generalizing k with
  | nil => simp [find] at h
  | cons c r ih =>
    rw [kv_find_star_cons] at h
    by_cases hc : (c == '*') = true
    · simp only [hc, if_true, Option.some.injEq] at h
      subst h
      simp only [starTokens, hc, if_true, Bool.false_eq_true, if_false, List.take_zero,
        Nat.zero_add, List.drop_succ_cons, List.drop_zero, starTokens_true_eq]
    · simp only [hc, Bool.false_eq_true, if_false] at h
      cases hf : find ['*'] r with
      | none => simp [hf] at h
      | some j =>
        simp only [hf, Option.map_some, Option.some.injEq] at h
        subst h
        simp only [starTokens, hc, Bool.false_eq_true, if_false, ih hf, List.take_succ_cons,
          List.drop_succ_cons]

theorem skipSolid_star (s : Str) (hs : StrOk s) (fuel idx : Nat)
    (hi : idx ≤ s.length) (hf : s.length - idx + 1 ≤ fuel) :
    ∃ r, skipSolid s ['*'] fuel idx = .ok r ∧ idx ≤ r ∧ r ≤ s.length ∧
      s.drop r = (s.drop idx).dropWhile (· == '*') := by
  have hsz := hs.lt_SZ
  induction fuel generalizing idx with
  | zero => omega
  | succ fuel ih =>
    unfold skipSolid
    simp only [substr_ok _ hi, bind_ok, List.length_cons, List.length_nil, Nat.zero_add]
    cases hd : s.drop idx with
    | nil =>
      refine ⟨idx, by simp [pure_eq_ok], Nat.le_refl _, hi, by simp [hd]⟩
    | cons c r =>
      have hlen : (s.drop idx).length = r.length + 1 := by rw [hd]; rfl
      simp only [List.length_drop] at hlen
      have hr : s.drop (idx + 1) = r := by
        have := congrArg (List.drop 1) hd
        simpa [List.drop_drop, Nat.add_comm] using this
      by_cases hc : (c == '*') = true
      · have hc' : c = '*' := by simpa using hc
        obtain ⟨r', e, h1, h2, h3⟩ := ih (idx + 1) (by omega) (by omega)
        have hw : wadd idx 1 = idx + 1 := wadd_eq (by omega)
        refine ⟨r', ?_, by omega, h2, ?_⟩
        · simp [hc', hw, e]
        · rw [h3, hr]; simp [hc']
      · have hc' : c ≠ '*' := by simpa using hc
        refine ⟨idx, by simp [hc', pure_eq_ok], Nat.le_refl _, hi, ?_⟩
        rw [hd]; simp [hc']

theorem solidLoop_star (s : Str) (hs : StrOk s) (fuel index : Nat)
    (hi : index ≤ s.length) (hf : s.length - index + 1 ≤ fuel) :
    ∃ ss, solidLoop s ['*'] false fuel index = .ok (starTokens false (s.drop index), ss) := by
  have hsz := hs.lt_SZ
  induction fuel generalizing index with
  | zero => omega
  | succ fuel ih =>
    unfold solidLoop
    rw [findFrom_eq hi]
    cases hf' : find ['*'] (s.drop index) with
    | none =>
      simp only [Option.map_none, substrFrom_ok hi, bind_ok, pure_eq_ok, starTokens_find_none hf']
      exact ⟨_, rfl⟩
    | some k =>
      have hb := find_bounds hf'
      simp only [List.length_drop, List.length_cons, List.length_nil] at hb
      have hw : wsub (k + index) index = k := by rw [wsub_eq (by omega) (by omega)]; omega
      have hw1 : wadd (k + index) 1 = k + index + 1 := wadd_eq (by omega)
      obtain ⟨r, e, h1, h2, h3⟩ := skipSolid_star s hs (s.length + 2) (k + index + 1) (by omega) (by omega)
      obtain ⟨ss, e2⟩ := ih r h2 (by omega)
      have hw2 : wsub r (k + index) = r - (k + index) := wsub_eq (by omega) (by omega)
      have hdd : s.drop (k + index + 1) = (s.drop index).drop (k + 1) := by
        rw [List.drop_drop]; congr 1; omega
      simp only [Option.map_some, substr_ok _ hi, bind_ok, hw, List.length_cons, List.length_nil,
        Nat.zero_add, hw1, Bool.not_false, if_true, e, substr_ok _ (show k + index ≤ s.length by omega),
        e2, pure_eq_ok, starTokens_find_some hf', ← hdd, ← h3]
      exact ⟨_, rfl⟩

/-- `StringTokenizer(pattern, "*", solid = true, allowEmptyTokens = false)` computes the token list
of C17's functional model -/
theorem solid_star_tokens (pattern : Str) (hs : StrOk pattern) :
    ∃ ss, mkTokenizer pattern ['*'] true false = .ok ⟨starTokens false pattern, ss, 0⟩ := by
  obtain ⟨ss, e⟩ := solidLoop_star pattern hs (loopFuel pattern) 0 (Nat.zero_le _)
    (by unfold loopFuel; omega)
  refine ⟨ss, ?_⟩
  unfold mkTokenizer mkTokenizerG
  simp [e, pure_eq_ok]


theorem kv_nextToken_eq {t : Tokenizer} (h : t.pos < t.tokens.length) :
    t.nextToken = .ok (t.tokens[t.pos], { t with pos := t.pos + 1 }) := by
  unfold Tokenizer.nextToken
  have hm : t.hasMoreToken = true := (kv_hasMore_iff t).mpr h
  simp only [hm, Bool.not_true, Bool.false_eq_true, if_false]
  rw [vecAt_ok h]; rfl

/-- the UB-aware matcher loop computes C17's `matchLoop` on the remaining tokens (no `size_t`
wrap: a found token ends within the name) -/
theorem matchLoopU_eq (name : Str) (hn : name.length < SZ) (fuel : Nat) (stj : Tokenizer)
    (pos1 : Nat) (g : Str)
    (hpos : stj.pos ≤ stj.tokens.length) (hfuel : stj.tokens.length - stj.pos < fuel) :
    matchLoopU name fuel stj pos1 g = .ok (matchLoop name pos1 g (stj.tokens.drop stj.pos)) := by
  induction fuel generalizing stj pos1 g with
  | zero => omega
  | succ fuel ih =>
    unfold matchLoopU
    by_cases hlt : stj.pos < stj.tokens.length
    · have hm : stj.hasMoreToken = true := (kv_hasMore_iff stj).mpr hlt
      simp only [hm, Bool.not_true, Bool.false_eq_true, if_false, kv_nextToken_eq hlt, bind_ok]
      rw [List.drop_eq_getElem_cons hlt, matchLoop]
      cases hf : findFrom stj.tokens[stj.pos] name pos1 with
      | none => rfl
      | some pos2 =>
        have hb := findFrom_bounds hf
        simp only []
        rw [wadd_eq (by omega)]
        exact ih _ _ _ (by simp only; omega) (by simp only; omega)
    · have hm : stj.hasMoreToken = false := by
        simp [Tokenizer.hasMoreToken, hlt]
      have hd : stj.tokens.drop stj.pos = [] := List.drop_eq_nil_of_le (by omega)
      simp [hm, hd, matchLoop]

theorem kv_length_le_sumLen {a : Str} {l : List Str} (h : a ∈ l) : a.length ≤ sumLen l := by
  induction l with
  | nil => cases h
  | cons b l ih =>
    rw [sumLen_cons]
    rcases List.mem_cons.mp h with rfl | h'
    · omega
    · have := ih h'; omega

theorem matchLoop_mem {name : Str} {ts : List Str} {pos1 p1 : Nat} {g gl : Str}
    (h : matchLoop name pos1 g ts = some (p1, gl)) : gl = g ∨ gl ∈ ts := by
  induction ts generalizing pos1 g with
  | nil => simp [matchLoop] at h; exact Or.inl h.2.symm
  | cons t ts ih =>
    rw [matchLoop] at h
    cases hf : findFrom t name pos1 with
    | none => simp [hf] at h
    | some pos2 =>
      simp only [hf] at h
      rcases ih h with e | e
      · right; simp [e]
      · right; simp [e]

/-- the last comparison `name.rfind(g) == name.length() - g.length()` in `size_t` -/
theorem rfind_test_eq (g name : Str) (hn : StrOk name) (hg : StrOk g) :
    (toSz (rfind g name) == wsub name.length g.length) = rfindEqEnd g name := by
  have hm := maxStr_lt
  unfold StrOk at hn hg
  unfold rfindEqEnd
  cases h : rfind g name with
  | none =>
    simp only [toSz]
    rw [Bool.eq_iff_iff]
    simp only [beq_iff_eq, decide_eq_true_eq]
    unfold wsub npos SZ
    omega
  | some k =>
    obtain ⟨h1, h2, _⟩ := rfind_some h
    have := isPrefix_length h1
    simp only [List.length_drop] at this
    simp only [toSz]
    rw [Bool.eq_iff_iff]
    simp only [beq_iff_eq, decide_eq_true_eq]
    rw [wsub_eq (by omega) (by unfold SZ; omega)]
    omega


theorem matcherU_refines' (pattern name : Str) (hs : StrOk pattern) (hn : StrOk name) :
    matcherU pattern name = .ok (Glob.matcher pattern name) := by
  have hm := maxStr_lt
  have hnsz : name.length < SZ := by unfold StrOk at hn; unfold SZ; omega
  obtain ⟨ss, e⟩ := solid_star_tokens pattern hs
  have hsum : sumLen (starTokens false pattern) ≤ pattern.length := by
    rcases mkTokenizer_spec pattern ['*'] true false hs with e' | ⟨t, e', _, _, h3, _⟩
    · rw [e] at e'; cases e'
    · rw [e] at e'; cases e'; simp only at h3; omega
  have htok : ∀ a ∈ starTokens false pattern, StrOk a := by
    intro a ha
    have := kv_length_le_sumLen ha
    unfold StrOk at hs ⊢; omega
  unfold matcherU Glob.matcher
  rw [e]
  cases hst : starTokens false pattern with
  | nil => exact absurd hst (starTokens_ne_nil _ _)
  | cons g ts =>
    rw [hst] at htok
    have hne : Tokenizer.nextToken ⟨g :: ts, ss, 0⟩ = .ok (g, ⟨g :: ts, ss, 1⟩) :=
      kv_nextToken_eq (t := ⟨g :: ts, ss, 0⟩) (by simp)
    simp only [bind_ok, hne]
    by_cases hf : find g name = some 0
    · have hgl : g.length ≤ name.length := isPrefix_length (find_zero_iff.mp hf)
      have hw : wadd 0 g.length = g.length := by rw [wadd_eq (by omega)]; omega
      have hmore : Tokenizer.hasMoreToken ⟨g :: ts, ss, 1⟩ = !ts.isEmpty := by
        cases ts <;> simp [Tokenizer.hasMoreToken]
      have htz : toSz (some 0) = 0 := rfl
      simp only [hf, htz, hw, hmore, beq_self_eq_true, Bool.true_and, Bool.not_not,
        bne_self_eq_false, Bool.false_eq_true, if_false]
      by_cases hc : (ts.isEmpty && name != g) = true
      · simp [hc, pure_eq_ok]
      · have hc' : (ts.isEmpty && name != g) = false := by simpa using hc
        simp only [hc', Bool.false_eq_true, if_false]
        rw [matchLoopU_eq name hnsz _ _ _ _ (by simp) (by simp only [List.length_cons]; omega)]
        simp only [bind_ok, List.drop_succ_cons, List.drop_zero]
        cases hml : matchLoop name g.length g ts with
        | none => rfl
        | some r =>
          obtain ⟨p1, gl⟩ := r
          have hglok : StrOk gl := by
            rcases matchLoop_mem hml with rfl | hmem
            · exact htok _ (by simp)
            · exact htok _ (by simp [hmem])
          simp only [pure_eq_ok, finalTest, rfind_test_eq gl name hn hglok]
    · have hb : (find g name == some 0) = false := by simpa using hf
      have hb' : (find g name != some 0) = true := by simpa using hf
      simp [hb, hb', pure_eq_ok]

/-! ### … which needs a `size_t`-sized name -/

theorem kv_find_nil (s : Str) : find [] s = some 0 := by
  cases s <;> simp [find, isPrefix]

theorem kv_rfind_eq_replicate (n : Nat) :
    rfind ['='] (List.replicate n 'a' ++ ['=']) = some n := by
  induction n with
  | zero => simp [rfind, isPrefix]
  | succ n ih =>
    rw [List.replicate_succ, List.cons_append, rfind, ih]

theorem kv_star_eq_tokens :
    mkTokenizer ['*', '='] ['*'] true false = .ok ⟨[[], ['=']], [['*']], 0⟩ := rfl

theorem matcherU_wrap (n : Nat) (hn : n = SZ) :
    matcherU ['*', '='] (List.replicate n 'a' ++ ['=']) = .ok false ∧
    Glob.matcher ['*', '='] (List.replicate n 'a' ++ ['=']) = true := by
  have hff : findFrom ['='] (List.replicate n 'a' ++ ['=']) 0 = some n := by
    simp [findFrom, kv_find_eq_replicate n []]
  have hw0 : wadd 0 0 = 0 := rfl
  have hw1 : wadd n 1 = 1 := by unfold wadd; rw [hn]; rfl
  have hw2 : wsub (n + 1) 1 = 0 := by unfold wsub; rw [hn]; rfl
  have hn0 : n ≠ 0 := by rw [hn]; unfold SZ; omega
  constructor
  · unfold matcherU
    rw [kv_star_eq_tokens]
    have h1 : Tokenizer.nextToken ⟨[[], ['=']], [['*']], 0⟩ = .ok ([], ⟨[[], ['=']], [['*']], 1⟩) := rfl
    have h2 : Tokenizer.nextToken ⟨[[], ['=']], [['*']], 1⟩ = .ok (['='], ⟨[[], ['=']], [['*']], 2⟩) := rfl
    have h3 : Tokenizer.hasMoreToken ⟨[[], ['=']], [['*']], 1⟩ = true := rfl
    have h4 : Tokenizer.hasMoreToken ⟨[[], ['=']], [['*']], 2⟩ = false := rfl
    have htz : toSz (some 0) = 0 := rfl
    have htn : toSz (some n) = n := rfl
    simp only [bind_ok, h1, kv_find_nil, htz, List.length_nil, hw0, h3, beq_self_eq_true,
      Bool.not_true, Bool.false_and, Bool.not_false, Bool.and_self, Bool.false_eq_true, if_false,
      List.length_cons, Nat.zero_add]
    unfold matchLoopU
    simp only [h3, Bool.not_true, Bool.false_eq_true, if_false, h2, bind_ok, hff, List.length_cons,
      List.length_nil, Nat.zero_add, hw1]
    unfold matchLoopU
    simp only [h4, Bool.not_false, if_true, bind_ok, kv_rfind_eq_replicate, htn,
      List.length_append, List.length_replicate, List.length_cons, List.length_nil, Nat.zero_add, hw2,
      pure_eq_ok]
    have e1 : (1 == 0) = false := rfl
    have e2 : (1 == n + 1) = false := by simp [hn0]
    have e3 : (n == 0) = false := by simp [hn0]
    simp [e1, e2, e3]
  · have hst : starTokens false ['*', '='] = [[], ['=']] := rfl
    unfold Glob.matcher
    rw [hst]
    simp only [kv_find_nil, bne_self_eq_false, Bool.false_eq_true, if_false, List.isEmpty_cons,
      Bool.false_and, List.length_nil, matchLoop, hff, finalTest, List.length_cons, Nat.zero_add,
      List.length_append, List.length_replicate, beq_self_eq_true, Bool.or_true, Bool.true_or]

/-- `matcherU_refines` without a bound on `name` is false: on a name of 2^64+1 characters the
`size_t` position wraps -/
theorem matcherU_refines_unbounded_false :
    ∃ pattern name : Str, StrOk pattern ∧ matcherU pattern name ≠ .ok (Glob.matcher pattern name) := by
  refine ⟨['*', '='], List.replicate SZ 'a' ++ ['='], by decide, ?_⟩
  obtain ⟨h1, h2⟩ := matcherU_wrap SZ rfl
  rw [h1, h2]; intro h; cases h

end Bpp.Text.U
