import BppProofs.Lemmas.GraphSpec
/-! Helper lemmas for C14: what a graph operation tells its observers (`pending`) covers what it deleted. -/
set_option linter.unusedSimpArgs false
set_option linter.unusedVariables false
set_option linter.unusedSectionVars false
namespace Bpp
namespace Graph
open AL

def notifiedEdges (evs : List Event) : List Nat := evs.flatMap (fun ev => match ev with | .edges l => l | .nodes _ => [])
def notifiedNodes (evs : List Event) : List Nat := evs.flatMap (fun ev => match ev with | .nodes l => l | .edges _ => [])

theorem notifiedEdges_append (a b : List Event) : notifiedEdges (a ++ b) = notifiedEdges a ++ notifiedEdges b := by
  simp [notifiedEdges]
theorem notifiedNodes_append (a b : List Event) : notifiedNodes (a ++ b) = notifiedNodes a ++ notifiedNodes b := by
  simp [notifiedNodes]

/-- going from `g` to `g'` the observers were told (through `pending`) about every node and edge
that disappeared -/
def Notified (g g' : G) : Prop :=
  ∃ evs, g'.pending = g.pending ++ evs ∧
    (∀ n, g.hasNode n = true → g'.hasNode n = false → n ∈ notifiedNodes evs) ∧
    (∀ e, g.hasEdge e = true → g'.hasEdge e = false → e ∈ notifiedEdges evs)

theorem Notified.refl (g : G) : Notified g g := by
  unfold Notified
  refine ⟨[], by simp, ?_, ?_⟩
  · intro n h1 h2; simp [h1] at h2
  · intro n h1 h2; simp [h1] at h2

theorem Notified.trans {g1 g2 g3 : G} (h12 : Notified g1 g2) (h23 : Notified g2 g3) : Notified g1 g3 := by
  unfold Notified at *
  obtain ⟨e1, p1, n1, d1⟩ := h12
  obtain ⟨e2, p2, n2, d2⟩ := h23
  refine ⟨e1 ++ e2, by rw [p2, p1, List.append_assoc], ?_, ?_⟩
  · intro n h1 h3
    rw [notifiedNodes_append, List.mem_append]
    cases h2 : g2.hasNode n
    · exact Or.inl (n1 n h1 h2)
    · exact Or.inr (n2 n h2 h3)
  · intro e h1 h3
    rw [notifiedEdges_append, List.mem_append]
    cases h2 : g2.hasEdge e
    · exact Or.inl (d1 e h1 h2)
    · exact Or.inr (d2 e h2 h3)

/-- nothing disappeared and nothing was told -/
theorem Notified.of_superset {g g' : G} (hp : g'.pending = g.pending)
    (hn : ∀ n, g.hasNode n = true → g'.hasNode n = true) (he : ∀ e, g.hasEdge e = true → g'.hasEdge e = true) :
    Notified g g' := by
  unfold Notified
  refine ⟨[], by simp [hp], ?_, ?_⟩
  · intro n h1 h2; rw [hn n h1] at h2; cases h2
  · intro e h1 h2; rw [he e h1] at h2; cases h2

namespace G

def _root_.Bpp.Graph.GOut.AllN {α : Type} (g : G) (o : GOut α) : Prop := Notified g o.state

theorem hasEdge_set_superset {es : List (Nat × (Nat × Nat))} (e : Nat) (v : Nat × Nat) (e' : Nat)
    (h : AL.has e' es = true) : AL.has e' (AL.set e v es) = true := by
  simp only [has, find_set] at h ⊢
  split <;> simp_all

theorem linkWrite_notified (a b e : Nat) (g : G) : Notified g (linkWrite a b e g) := by
  apply Notified.of_superset (linkWrite_rest a b e g).2.2.2.2
  · intro n h; rw [hasNode_linkWrite]; exact h
  · intro e' h
    simp only [G.hasEdge, edges_linkWrite] at h ⊢
    exact hasEdge_set_superset _ _ _ h

theorem bump_notified (g : G) (k : Nat) : Notified g { g with nextEdge := k } :=
  Notified.of_superset rfl (fun _ h => h) (fun _ h => h)

theorem link_notified (a b : Nat) (g : G) : Notified g (link a b g).state := by
  unfold link
  split
  · exact Notified.refl g
  · exact (bump_notified g _).trans (linkWrite_notified _ _ _ _)

theorem linkE_notified (a b e : Nat) (g : G) : Notified g (linkE a b e g).state := by
  unfold linkE
  split
  · exact Notified.refl g
  · split
    · exact Notified.refl g
    · simp only [GOut.state]
      split
      · exact (bump_notified g _).trans (linkWrite_notified _ _ _ _)
      · exact linkWrite_notified _ _ _ _

theorem createNode_notified (g : G) : Notified g (createNode g).state := by
  unfold createNode
  simp only [GOut.state]
  refine Notified.of_superset ?_ ?_ ?_
  · rfl
  · intro n h
    simp only [G.hasNode, has, find_set] at h ⊢
    split <;> simp_all
  · intro e h; exact h

theorem setRoot_notified (n : Nat) (g : G) : Notified g (setRoot n g).state := by
  unfold setRoot; split
  · exact Notified.of_superset rfl (fun _ h => h) (fun _ h => h)
  · exact Notified.refl g

theorem unlink_notified {g : G} (hc : Consistent g) (a b : Nat) : Notified g (unlink a b g).state := by
  rcases hO : g.outE a b with _ | e
  · rw [unlink_none hO]; exact Notified.refl g
  · obtain ⟨g', h, u⟩ := unlink_some hc hO
    rw [h]
    unfold Notified
    simp only [GOut.state]
    refine ⟨[.edges [e]], u.pending, ?_, ?_⟩
    · intro n h1 h2; rw [u.hasNode] at h2; rw [h1] at h2; cases h2
    · intro e' h1 h2
      simp only [G.hasEdge, has, u.edges, find_erase] at h1 h2
      by_cases hee : e = e'
      · subst hee; simp [notifiedEdges]
      · simp only [hee, if_false] at h2; rw [h1] at h2; cases h2

theorem switchNodes_notified (a b : Nat) (g : G) : Notified g (switchNodes a b g).state := by
  rcases hr : switchNodes a b g with ⟨u, g'⟩ | g'
  · -- success: only the rows of the two nodes and the direction of one edge changed
    simp only [GOut.state]
    unfold switchNodes at hr
    have hfrom : ∀ f s e, switchFrom f s e g = .ok u g' → Notified g g' := by
      intro f s e hs
      unfold switchFrom at hs
      split at hs; · cases hs
      split at hs; · cases hs
      injection hs with _ hs; subst hs
      refine Notified.of_superset ?_ ?_ ?_
      · rfl
      · intro n h
        simp only [G.hasNode, has, row_switchedNodes] at h ⊢
        rcases find_cases n g.nodes with hf | ⟨r, hf⟩ <;> simp_all
      · intro e' h; simp only [G.hasEdge] at h ⊢; exact hasEdge_set_superset _ _ _ h
    split at hr; · cases hr
    split at hr; · cases hr
    split at hr
    · exact hfrom _ _ _ hr
    · split at hr
      · exact hfrom _ _ _ hr
      · cases hr
  · rw [switchNodes_exc hr]; exact Notified.refl g

theorem unlinkMany_notified {g : G} (hc : Consistent g) (ps : List (Nat × Nat)) : Notified g (unlinkMany ps g).state := by
  induction ps generalizing g with
  | nil => exact Notified.refl g
  | cons p r ih =>
    simp only [unlinkMany]
    have h1 := unlink_notified hc p.1 p.2
    have hc1 := unlink_consistent hc p.1 p.2
    rcases hr : unlink p.1 p.2 g with ⟨l, g1⟩ | g1 <;> rw [hr] at h1 hc1
    · exact h1.trans (ih hc1)
    · exact h1

theorem deleteNode_notified {g : G} (hc : Consistent g) (n : Nat) : Notified g (deleteNode n g).state := by
  unfold deleteNode
  split
  · exact Notified.refl g
  · rw [isolateOut_eq]
    have h1 := unlinkMany_notified hc ((g.outKeys n).map (fun y => (n, y)))
    have hc1 := unlinkMany_consistent hc ((g.outKeys n).map (fun y => (n, y)))
    rcases hr1 : unlinkMany ((g.outKeys n).map (fun y => (n, y))) g with ⟨u, g1⟩ | g1 <;> rw [hr1] at h1 hc1
    · simp only [GOut.state] at h1
      simp only
      split
      · exact h1
      · rw [isolateIn_eq]
        have h2 := unlinkMany_notified hc1 ((g1.inKeys n).map (fun y => (y, n)))
        rcases hr2 : unlinkMany ((g1.inKeys n).map (fun y => (y, n))) g1 with ⟨u2, g2⟩ | g2 <;> rw [hr2] at h2
        · simp only [GOut.state] at h2
          simp only
          split
          · exact h1.trans h2
          · refine (h1.trans h2).trans ?_
            unfold Notified
            simp only [GOut.state]
            refine ⟨[.nodes [n]], rfl, ?_, ?_⟩
            · intro x h3 h4
              simp only [G.hasNode, has, find_erase] at h3 h4
              by_cases hx : n = x
              · subst hx; simp [notifiedNodes]
              · simp only [hx, if_false] at h4; rw [h3] at h4; cases h4
            · intro e h3 h4; simp only [G.hasEdge] at h3 h4; rw [h3] at h4; cases h4
        · exact h1.trans h2
    · exact h1

theorem makeUndirected_notified {g : G} (hc : Consistent g) : Notified g (makeUndirected g).state := by
  cases hd : g.directed
  · rw [makeUndirected_already hd]; exact Notified.refl g
  · cases hr : recipLoop (outTriples g.nodes) []
    · obtain ⟨g', h, _, u⟩ := makeUndirected_spec hc hd hr
      rw [h]
      apply Notified.of_superset u.rest.2.2.2.2.2
      · intro n h; rw [u.hasNode]; exact h
      · intro e h; simp only [G.hasEdge, u.rest.1] at h ⊢; exact h
    · rw [makeUndirected_recip hd hr]; exact Notified.refl g

theorem makeDirected_notified {g : G} (hc : Consistent g) : Notified g (makeDirected g) := by
  cases hd : g.directed
  · obtain ⟨hc', d⟩ := makeDirected_spec hc hd
    apply Notified.of_superset d.rest.2.2.2.2
    · intro n h; rw [d.hasNode]; exact h
    · intro e h
      simp only [G.hasEdge, has] at h ⊢
      rcases find_cases e g.edges with hf | ⟨⟨a, b⟩, hf⟩
      · simp [hf] at h
      · have ho := (hc.views.edge_listed e a b hf).1
        rcases d.kept_all a b e ho with hk | hk
        · rw [(d.edges e a b).mpr hk]; rfl
        · rw [(d.edges e b a).mpr hk]; rfl
  · rw [makeDirected_already hd]; exact Notified.refl g

theorem createNodeFromNode_notified {g : G} (hc : Consistent g) (o : Nat) : Notified g (createNodeFromNode o g).state := by
  unfold createNodeFromNode
  split
  · exact Notified.refl g
  · have h1 := createNode_notified g
    rcases hr1 : createNode g with ⟨n, g1⟩ | g1 <;> rw [hr1] at h1
    · simp only
      have h2 := link_notified o n g1
      rcases hr2 : link o n g1 with ⟨e, g2⟩ | g2 <;> rw [hr2] at h2 <;> exact h1.trans h2
    · exact h1

theorem createNodeOnEdge_notified {g : G} (hc : Consistent g) (e : Nat) : Notified g (createNodeOnEdge e g).state := by
  unfold createNodeOnEdge
  split
  · exact Notified.refl g
  · split
    · exact Notified.refl g
    · rename_i a b _ _
      have h1 := createNode_notified g
      have hc1 := createNode_consistent hc
      rcases hr1 : createNode g with ⟨n, g1⟩ | g1 <;> rw [hr1] at h1 hc1
      · simp only
        have h2 := unlink_notified hc1 a b
        rcases hr2 : unlink a b g1 with ⟨l, g2⟩ | g2 <;> rw [hr2] at h2
        · simp only
          have h3 := link_notified a n g2
          rcases hr3 : link a n g2 with ⟨e1, g3⟩ | g3 <;> rw [hr3] at h3
          · simp only
            have h4 := link_notified n b g3
            rcases hr4 : link n b g3 with ⟨e2, g4⟩ | g4 <;> rw [hr4] at h4 <;> exact ((h1.trans h2).trans h3).trans h4
          · exact (h1.trans h2).trans h3
        · exact h1.trans h2
      · exact h1

theorem createNodeFromEdge_notified {g : G} (hc : Consistent g) (e : Nat) : Notified g (createNodeFromEdge e g).state := by
  unfold createNodeFromEdge
  split
  · exact Notified.refl g
  · have h1 := createNodeOnEdge_notified hc e
    have hc1 := createNodeOnEdge_consistent hc e
    rcases hr1 : createNodeOnEdge e g with ⟨n, g1⟩ | g1 <;> rw [hr1] at h1 hc1
    · exact h1.trans (createNodeFromNode_notified hc1 n)
    · exact h1

/-- one operation keeps the graph consistent (in terms of `applyR`) -/
theorem consistent_step_applyR {g : G} (hc : Consistent g) (op : Op) : Consistent (g.applyR op).state := by
  have h := applyR_refines hc op
  unfold Refines at h
  rcases hs : g.abs.applyR op with _ | ⟨v, s'⟩ <;> rw [hs] at h
  · rw [h]; exact hc
  · obtain ⟨g', h1, _, h3⟩ := h
    rw [h1]; exact h3

theorem state_mapVal {α β : Type} (f : α → β) (o : GOut α) : (o.mapVal f).state = o.state := by cases o <;> rfl

/-- every operation tells the observers about everything it deletes -/
theorem applyR_notified {g : G} (hc : Consistent g) (op : Op) : Notified g (g.applyR op).state := by
  cases op <;> simp only [G.applyR, state_mapVal]
  · exact createNode_notified g
  · exact createNodeFromNode_notified hc _
  · exact createNodeOnEdge_notified hc _
  · exact createNodeFromEdge_notified hc _
  · exact link_notified _ _ g
  · exact linkE_notified _ _ _ g
  · exact unlink_notified hc _ _
  · exact switchNodes_notified _ _ g
  · exact deleteNode_notified hc _
  · exact makeDirected_notified hc
  · exact makeUndirected_notified hc
  · exact setRoot_notified _ g

end G
end Graph
end Bpp
