import BppModel.Tree
/-! Helper lemmas for `Props/C15NoUb.lean`: the climbs and the joining ranks of the path / MRCA queries on an
arbitrary graph. -/
namespace Bpp.Graph
namespace T

/-- the last node of a successful climb is a father-less node: the line is never empty -/
theorem climb_ne_nil (g : G) : ∀ (fuel n : Nat) (acc l : List Nat), climb g fuel n acc = .ok l → l ≠ [] := by
  intro fuel
  induction fuel with
  | zero => intro n acc l h; simp [climb] at h
  | succ f ih =>
    intro n acc l h
    simp only [climb] at h
    split at h
    · cases h
    · injection h with h; subst h; simp
    · split at h
      · cases h
      · exact ih _ _ _ h

theorem climb_no_ub (g : G) : ∀ (fuel n : Nat) (acc : List Nat), climb g fuel n acc ≠ .ub := by
  intro fuel
  induction fuel with
  | zero => intro n acc; simp [climb]
  | succ f ih =>
    intro n acc
    simp only [climb]
    split
    · simp
    · simp
    · split
      · simp
      · exact ih _ _

theorem joinRank_lt (g : G) (line : List Nat) : ∀ (fuel n k : Nat), joinRank g line fuel n = .ok k → k < line.length := by
  intro fuel
  induction fuel with
  | zero => intro n k h; simp [joinRank] at h
  | succ f ih =>
    intro n k h
    simp only [joinRank] at h
    split at h
    · rename_i hc
      injection h with h; subst h
      exact List.idxOf_lt_length_of_mem (by simpa using hc)
    · split at h
      · cases h
      · cases h
      · split at h
        · cases h
        · exact ih _ _ h

theorem mrcaFold_lt (g : G) (line : List Nat) (fuel : Nat) : ∀ (rest : List Nat) (acc : TRes Nat) (m : Nat),
    (∀ k, acc = .ok k → k < line.length) → rest.foldl (mrcaStep g line fuel) acc = .ok m → m < line.length := by
  intro rest
  induction rest with
  | nil => intro acc m hacc h; exact hacc m h
  | cons x r ih =>
    intro acc m hacc h
    rw [List.foldl_cons] at h
    refine ih _ m ?_ h
    intro k hk
    unfold mrcaStep at hk
    cases acc with
    | ok j =>
      simp only at hk
      cases hj : joinRank g line fuel x with
      | ok q =>
        rw [hj] at hk; injection hk with hk; subst hk
        have := joinRank_lt g line fuel x q hj
        have := hacc j rfl
        omega
      | exc => rw [hj] at hk; cases hk
      | fuel => rw [hj] at hk; cases hk
      | ub => rw [hj] at hk; cases hk
    | exc => cases hk
    | fuel => cases hk
    | ub => cases hk

end T
end Bpp.Graph
