import Mathlib.Algebra.Order.Floor.Ring
import Mathlib.Data.Rat.Floor
import Mathlib.Tactic.NormNum
import BppProofs.Lemmas.NumFmt
/-! Arithmetic behind `NumFmt.roundSig`: the rounding to `P` significant digits has exactly `P`
digits, and leaves a number with at most `P` digits alone. -/
namespace Bpp.Text.NumFmt
open Bpp.Text Bpp.Text.Number

/-! ### `roundHalfEven` -/

theorem rhe_cases (s : ℚ) (hs : 0 ≤ s) :
    (roundHalfEven s = ⌊s⌋.toNat ∨ roundHalfEven s = ⌊s⌋.toNat + 1) ∧ ((⌊s⌋.toNat : ℤ) = ⌊s⌋) := by
  have hf : (0 : ℤ) ≤ ⌊s⌋ := Int.floor_nonneg.mpr hs
  refine ⟨?_, Int.toNat_of_nonneg hf⟩
  unfold roundHalfEven
  simp only []
  have : s.floor = ⌊s⌋ := rfl
  rw [this]
  split
  · left; rfl
  · split
    · right; rfl
    · split
      · left; rfl
      · right; rfl

theorem rhe_ge (s : ℚ) (hs : 0 ≤ s) (m : ℕ) (h : (m : ℚ) ≤ s) : m ≤ roundHalfEven s := by
  obtain ⟨hc, hf⟩ := rhe_cases s hs
  have : (m : ℤ) ≤ ⌊s⌋ := Int.le_floor.mpr (by exact_mod_cast h)
  have : m ≤ ⌊s⌋.toNat := by omega
  rcases hc with h | h <;> omega

theorem rhe_le (s : ℚ) (hs : 0 ≤ s) (M : ℕ) (h : s < (M : ℚ)) : roundHalfEven s ≤ M := by
  obtain ⟨hc, hf⟩ := rhe_cases s hs
  have : ⌊s⌋ < (M : ℤ) := Int.floor_lt.mpr (by exact_mod_cast h)
  have : ⌊s⌋.toNat < M := by omega
  rcases hc with h | h <;> omega

theorem rhe_nat (k : ℕ) : roundHalfEven (k : ℚ) = k := by
  unfold roundHalfEven
  simp only []
  have : (k : ℚ).floor = (k : ℤ) := by
    have h := Rat.floor_intCast (k : ℤ)
    simpa using h
  rw [this]
  simp

/-! ### the number of digits -/

theorem natDigits_bounds (n : ℕ) (hn : 0 < n) :
    10 ^ ((natDigits n).length - 1) ≤ n ∧ n < 10 ^ (natDigits n).length := by
  induction n using Nat.strongRecOn with
  | _ n ih =>
    rw [natDigits]
    by_cases h : n < 10
    · simp only [h, dite_true, List.length_singleton]
      omega
    · simp only [h, dite_false, List.length_append, List.length_singleton, Nat.add_sub_cancel]
      have hlt : n / 10 < n := by omega
      have hpos : 0 < n / 10 := by omega
      obtain ⟨h1, h2⟩ := ih (n / 10) hlt hpos
      have hl : 1 ≤ (natDigits (n / 10)).length := by
        have := (natDigits_spec (n / 10)).2.1
        cases hh : natDigits (n / 10) with
        | nil => exact absurd hh this
        | cons _ _ => simp
      constructor
      · have : 10 ^ (natDigits (n / 10)).length = 10 * 10 ^ ((natDigits (n / 10)).length - 1) := by
          conv => lhs; rw [show (natDigits (n / 10)).length = ((natDigits (n / 10)).length - 1) + 1 by omega]
          rw [pow_succ]; ring
        rw [this]
        omega
      · rw [pow_succ]
        omega

theorem natDigits_length_eq (N P : ℕ) (hP : 1 ≤ P) (h1 : 10 ^ (P - 1) ≤ N) (h2 : N < 10 ^ P) :
    (natDigits N).length = P := by
  have hN : 0 < N := lt_of_lt_of_le (by positivity) h1
  obtain ⟨b1, b2⟩ := natDigits_bounds N hN
  by_contra hne
  rcases Nat.lt_or_gt_of_ne hne with hlt | hgt
  · have : 10 ^ (natDigits N).length ≤ 10 ^ (P - 1) := Nat.pow_le_pow_right (by norm_num) (by omega)
    omega
  · have : 10 ^ P ≤ 10 ^ ((natDigits N).length - 1) := Nat.pow_le_pow_right (by norm_num) (by omega)
    omega


/-! ### the decimal exponent -/

theorem decExp_spec (a : ℚ) (ha : 0 < a) :
    (10 : ℚ) ^ (decExp a) ≤ a ∧ a < (10 : ℚ) ^ (decExp a + 1) := by
  have hnum : 0 < a.num := Rat.num_pos.mpr ha
  set n := a.num.toNat with hn
  set d := a.den with hd
  have hnpos : 0 < n := by omega
  have hdpos : 0 < d := a.den_pos
  have ha' : a = (n : ℚ) / (d : ℚ) := by
    have := (Rat.num_div_den a).symm
    rw [this]
    congr 1
    have : (a.num : ℚ) = ((a.num.toNat : ℤ) : ℚ) := by rw [Int.toNat_of_nonneg (le_of_lt hnum)]
    rw [this]; norm_cast
  obtain ⟨n1, n2⟩ := natDigits_bounds n hnpos
  obtain ⟨d1, d2⟩ := natDigits_bounds d hdpos
  set dn := (natDigits n).length with hdn
  set dd := (natDigits d).length with hdd
  have hdn1 : 1 ≤ dn := by
    cases h : natDigits n with
    | nil => exact absurd h (natDigits_ne n)
    | cons _ _ => simp [hdn, h]
  have hdd1 : 1 ≤ dd := by
    cases h : natDigits d with
    | nil => exact absurd h (natDigits_ne d)
    | cons _ _ => simp [hdd, h]
  have h10 : (10 : ℚ) ≠ 0 := by norm_num
  have hdq : (0 : ℚ) < d := by exact_mod_cast hdpos
  -- bounds in ℚ
  have N1 : (10 : ℚ) ^ (dn - 1) ≤ n := by exact_mod_cast n1
  have N2 : (n : ℚ) < (10 : ℚ) ^ dn := by exact_mod_cast n2
  have D1 : (10 : ℚ) ^ (dd - 1) ≤ d := by exact_mod_cast d1
  have D2 : (d : ℚ) < (10 : ℚ) ^ dd := by exact_mod_cast d2
  -- a > 10^(dn-dd-1), a < 10^(dn-dd+1)
  have lower : (10 : ℚ) ^ ((dn : ℤ) - dd - 1) < a := by
    rw [ha', lt_div_iff₀ hdq]
    have e : ((dn : ℤ) - dd - 1) = ((dn - 1 : ℕ) : ℤ) - (dd : ℕ) := by omega
    rw [e, zpow_sub₀ h10, zpow_natCast, zpow_natCast]
    have hp : (0 : ℚ) < (10 : ℚ) ^ dd := by positivity
    calc (10 : ℚ) ^ (dn - 1) / 10 ^ dd * d < (10 : ℚ) ^ (dn - 1) / 10 ^ dd * 10 ^ dd := by
          apply mul_lt_mul_of_pos_left D2; positivity
      _ = (10 : ℚ) ^ (dn - 1) := by field_simp
      _ ≤ n := N1
  have upper : a < (10 : ℚ) ^ ((dn : ℤ) - dd + 1) := by
    rw [ha', div_lt_iff₀ hdq]
    have e : ((dn : ℤ) - dd + 1) = ((dn : ℕ) : ℤ) - ((dd - 1 : ℕ) : ℤ) := by omega
    rw [e, zpow_sub₀ h10, zpow_natCast, zpow_natCast]
    have hp : (0 : ℚ) < (10 : ℚ) ^ (dd - 1) := by positivity
    calc (n : ℚ) < (10 : ℚ) ^ dn := N2
      _ = (10 : ℚ) ^ dn / 10 ^ (dd - 1) * 10 ^ (dd - 1) := by field_simp
      _ ≤ (10 : ℚ) ^ dn / 10 ^ (dd - 1) * d := by
          apply mul_le_mul_of_nonneg_left D1; positivity
  unfold decExp
  simp only []
  rw [pow10_eq_zpow]
  split
  · rename_i h
    exact ⟨h, upper⟩
  · rename_i h
    refine ⟨le_of_lt lower, ?_⟩
    have : (dn : ℤ) - dd - 1 + 1 = dn - dd := by omega
    rw [this]
    exact lt_of_not_ge h

/-- the number scaled to `P` digits before the point -/
theorem scaled_bounds (P : ℕ) (hP : 1 ≤ P) (a : ℚ) (ha : 0 < a) :
    ((10 ^ (P - 1) : ℕ) : ℚ) ≤ a / pow10 (decExp a - ((P : ℤ) - 1)) ∧
    a / pow10 (decExp a - ((P : ℤ) - 1)) < ((10 ^ P : ℕ) : ℚ) := by
  obtain ⟨h1, h2⟩ := decExp_spec a ha
  have h10 : (10 : ℚ) ≠ 0 := by norm_num
  rw [pow10_eq_zpow]
  have hpos : (0 : ℚ) < (10 : ℚ) ^ (decExp a - ((P : ℤ) - 1)) := zpow_pos (by norm_num) _
  constructor
  · rw [le_div_iff₀ hpos]
    push_cast
    rw [← zpow_natCast, ← zpow_add₀ h10]
    have : ((P - 1 : ℕ) : ℤ) + (decExp a - ((P : ℤ) - 1)) = decExp a := by omega
    rw [this]; exact h1
  · rw [div_lt_iff₀ hpos]
    push_cast
    rw [← zpow_natCast, ← zpow_add₀ h10]
    have : ((P : ℕ) : ℤ) + (decExp a - ((P : ℤ) - 1)) = decExp a + 1 := by omega
    rw [this]; exact h2

/-- **the rounding to `P` significant digits has exactly `P` digits** -/
theorem roundSig_digits (P : ℕ) (hP : 1 ≤ P) (a : ℚ) (ha : 0 < a) :
    10 ^ (P - 1) ≤ (roundSig P a).1 ∧ (roundSig P a).1 < 10 ^ P := by
  obtain ⟨s1, s2⟩ := scaled_bounds P hP a ha
  have hs : 0 ≤ a / pow10 (decExp a - ((P : ℤ) - 1)) := le_trans (by positivity) s1
  have r1 := rhe_ge _ hs _ s1
  have r2 := rhe_le _ hs _ s2
  unfold roundSig
  simp only []
  split
  · simp only []
    refine ⟨le_refl _, ?_⟩
    exact Nat.pow_lt_pow_right (by norm_num) (by omega)
  · rename_i hne
    simp only []
    refine ⟨r1, ?_⟩
    have : roundHalfEven (a / pow10 (decExp a - ((P : ℤ) - 1))) ≠ 10 ^ P := by simpa using hne
    omega

theorem digitsOk_always (prec : ℕ) (a : ℚ) (ha : 0 ≤ a) : digitsOk prec a = true := by
  unfold digitsOk
  simp only [Bool.or_eq_true, beq_iff_eq]
  rcases eq_or_lt_of_le ha with h | h
  · left; exact h.symm
  · right
    have hP : 1 ≤ (if prec = 0 then 1 else prec) := by
      split <;> omega
    obtain ⟨b1, b2⟩ := roundSig_digits _ hP a h
    exact natDigits_length_eq _ _ hP b1 b2

/-- **a number with at most `P` significant digits is not changed** -/
theorem roundedValue_exact (prec : ℕ) (neg : Bool) (a : ℚ) (ha : 0 ≤ a) (hfit : fitsPrec prec a = true) :
    roundedValue prec neg a = if neg then -a else a := by
  unfold roundedValue fitsPrec at *
  simp only [] at *
  by_cases h0 : (a == 0) = true
  · have : a = 0 := by simpa using h0
    subst this
    cases neg <;> simp
  · simp only [h0, Bool.false_eq_true, if_false, Bool.false_or, beq_iff_eq] at hfit ⊢
    have hapos : 0 < a := lt_of_le_of_ne ha (fun e => h0 (by simp [← e]))
    generalize hP : (if prec = 0 then 1 else prec) = P at hfit ⊢
    have hP1 : 1 ≤ P := by rw [← hP]; split <;> omega
    obtain ⟨s1, s2⟩ := scaled_bounds P hP1 a hapos
    set s := a / pow10 (decExp a - ((P : ℤ) - 1)) with hs
    have hs0 : 0 ≤ s := le_trans (by positivity) s1
    -- `s` is a natural number
    have hsn : s = ((s.num.toNat : ℕ) : ℚ) := by
      have h1 : s = (s.num : ℚ) := by
        have := Rat.num_div_den s
        rw [hfit] at this
        simpa using this.symm
      have h2 : 0 ≤ s.num := Rat.num_nonneg.mpr hs0
      conv => lhs; rw [h1]
      have : (s.num : ℚ) = ((s.num.toNat : ℤ) : ℚ) := by rw [Int.toNat_of_nonneg h2]
      rw [this]; norm_cast
    have hr : roundHalfEven s = s.num.toNat := by
      conv => lhs; rw [hsn]
      exact rhe_nat _
    have hlt : s.num.toNat < 10 ^ P := by
      have : ((s.num.toNat : ℕ) : ℚ) < ((10 ^ P : ℕ) : ℚ) := by rw [← hsn]; exact s2
      exact_mod_cast this
    have hrs : roundSig P a = (s.num.toNat, decExp a) := by
      unfold roundSig
      simp only []
      rw [← hs, hr]
      have : (s.num.toNat == 10 ^ P) = false := by
        simp only [beq_eq_false_iff_ne, ne_eq]; omega
      simp [this]
    rw [hrs]
    simp only []
    have hpow : pow10 (decExp a - ((P : ℤ) - 1)) ≠ 0 := by
      rw [pow10_eq_zpow]; exact (zpow_pos (by norm_num) _).ne'
    have : ((s.num.toNat : ℕ) : ℚ) * pow10 (decExp a - ((P : ℤ) - 1)) = a := by
      rw [← hsn, hs]; field_simp
    cases neg
    · simp only [Bool.false_eq_true, if_false, one_mul]; exact this
    · simp only [if_true]; rw [mul_assoc, this]; ring


/-! ### the rounding error -/

theorem rhe_error (s : ℚ) (hs : 0 ≤ s) : |((roundHalfEven s : ℕ) : ℚ) - s| ≤ 1 / 2 := by
  have hf : (0 : ℤ) ≤ ⌊s⌋ := Int.floor_nonneg.mpr hs
  have hcast : ((⌊s⌋.toNat : ℕ) : ℚ) = ((⌊s⌋ : ℤ) : ℚ) := by
    have : ((⌊s⌋.toNat : ℕ) : ℤ) = ⌊s⌋ := Int.toNat_of_nonneg hf
    exact_mod_cast congrArg (fun z : ℤ => (z : ℚ)) this
  have h1 : ((⌊s⌋ : ℤ) : ℚ) ≤ s := Int.floor_le s
  have h2 : s < ((⌊s⌋ : ℤ) : ℚ) + 1 := Int.lt_floor_add_one s
  unfold roundHalfEven
  simp only []
  have e : s.floor = ⌊s⌋ := rfl
  rw [e]
  split
  · rename_i h
    rw [hcast] at h ⊢
    rw [abs_le]; constructor <;> linarith
  · rename_i h
    split
    · rename_i h'
      rw [hcast] at h'
      push_cast
      rw [hcast, abs_le]; constructor <;> linarith
    · rename_i h'
      rw [hcast] at h h'
      have hr : s - ((⌊s⌋ : ℤ) : ℚ) = 1 / 2 := le_antisymm (not_lt.mp h') (not_lt.mp h)
      split
      · rw [hcast, abs_le]; constructor <;> linarith
      · push_cast
        rw [hcast, abs_le]; constructor <;> linarith

/-- the rounded value is `roundHalfEven` of the scaled number, scaled back (also when the rounding
carries into one more digit) -/
theorem roundedValue_eq (P : ℕ) (hP : 1 ≤ P) (a : ℚ) :
    ((roundSig P a).1 : ℚ) * pow10 ((roundSig P a).2 - ((P : ℤ) - 1))
      = ((roundHalfEven (a / pow10 (decExp a - ((P : ℤ) - 1))) : ℕ) : ℚ) * pow10 (decExp a - ((P : ℤ) - 1)) := by
  unfold roundSig
  simp only []
  split
  · rename_i h
    have h' : roundHalfEven (a / pow10 (decExp a - ((P : ℤ) - 1))) = 10 ^ P := by simpa using h
    simp only [h']
    rw [pow10_eq_zpow, pow10_eq_zpow]
    have h10 : (10 : ℚ) ≠ 0 := by norm_num
    push_cast
    rw [← zpow_natCast, ← zpow_natCast, ← zpow_add₀ h10, ← zpow_add₀ h10]
    congr 1
    omega
  · rfl

/-- **the relative error of the formatting is at most half a unit of the `P`-th digit** -/
theorem roundedValue_error (prec : ℕ) (a : ℚ) (ha : 0 < a) :
    |roundedValue prec false a - a| ≤ a / (2 * (10 : ℚ) ^ ((if prec = 0 then 1 else prec) - 1)) := by
  unfold roundedValue
  simp only []
  have h0 : (a == 0) = false := by simpa using ha.ne'
  simp only [h0, Bool.false_eq_true, if_false, one_mul]
  have hPP : (if (prec == 0) = true then 1 else prec) = (if prec = 0 then 1 else prec) := by simp
  rw [hPP]
  generalize hPdef : (if prec = 0 then 1 else prec) = P
  have hP : 1 ≤ P := by rw [← hPdef]; split <;> omega
  have hrv := roundedValue_eq P hP a
  rw [hrv]
  set e := decExp a - ((P : ℤ) - 1) with he
  have h10 : (10 : ℚ) ≠ 0 := by norm_num
  have hpe : (0 : ℚ) < pow10 e := by rw [pow10_eq_zpow]; exact zpow_pos (by norm_num) _
  set s := a / pow10 e with hs
  have hs0 : 0 ≤ s := by positivity
  have hre := rhe_error s hs0
  have ha_eq : a = s * pow10 e := by rw [hs]; field_simp
  have hd1 := (decExp_spec a ha).1
  -- |rhe s * 10^e - s * 10^e| = |rhe s - s| * 10^e ≤ 10^e / 2 ≤ a / (2 * 10^(P-1))
  have : ((roundHalfEven s : ℕ) : ℚ) * pow10 e - a = (((roundHalfEven s : ℕ) : ℚ) - s) * pow10 e := by
    rw [ha_eq]; ring
  rw [this, abs_mul, abs_of_pos hpe]
  have hbound : pow10 e * (10 : ℚ) ^ (P - 1) ≤ a := by
    rw [pow10_eq_zpow, ← zpow_natCast, ← zpow_add₀ h10]
    have : e + ((P - 1 : ℕ) : ℤ) = decExp a := by omega
    rw [this]; exact hd1
  have hpp : (0 : ℚ) < (10 : ℚ) ^ (P - 1) := by positivity
  rw [le_div_iff₀ (by positivity)]
  calc |((roundHalfEven s : ℕ) : ℚ) - s| * pow10 e * (2 * (10 : ℚ) ^ (P - 1))
      ≤ 1 / 2 * pow10 e * (2 * (10 : ℚ) ^ (P - 1)) := by
        apply mul_le_mul_of_nonneg_right _ (by positivity)
        exact mul_le_mul_of_nonneg_right hre (le_of_lt hpe)
    _ = pow10 e * (10 : ℚ) ^ (P - 1) := by ring
    _ ≤ a := hbound


theorem decExp_one : decExp 1 = 0 := by
  unfold decExp
  simp [natDigits, pow10]


/-- the sign is carried through unchanged -/
theorem roundedValue_neg (prec : ℕ) (a : ℚ) : roundedValue prec true a = - roundedValue prec false a := by
  unfold roundedValue
  simp only []
  split
  · simp
  · rcases roundSig (if (prec == 0) = true then 1 else prec) a with ⟨N, X⟩
    simp only [if_true, Bool.false_eq_true, if_false]
    ring

theorem roundedValue_error_signed (prec : ℕ) (neg : Bool) (a : ℚ) (ha : 0 < a) :
    |roundedValue prec neg a - (if neg then -a else a)|
      ≤ a / (2 * (10 : ℚ) ^ ((if prec = 0 then 1 else prec) - 1)) := by
  cases neg with
  | false => simpa using roundedValue_error prec a ha
  | true =>
    rw [roundedValue_neg]
    have : -roundedValue prec false a - (if true = true then -a else a) = -(roundedValue prec false a - a) := by
      simp only [if_true]; ring
    rw [this, abs_neg]
    exact roundedValue_error prec a ha

end Bpp.Text.NumFmt
