import BppProofs.Lemmas.OptimLine
/-!
Helper lemmas for C10: the optimisers built on a search along a direction — `PowellMultiDimensions`,
`ConjugateGradientMultiDimensions`, `BfgsMultiDimensions` — on the objective of the harness, over `ℝ`.

* Powell: every line minimisation and the evaluation that follows it never increase `fret_`
  (`lineMinimization_spec`), so a step returns a value not above the one it began with
  (`powellDoStep_spec`); the invariant says `Off` (the function agrees with `pt0` outside the optimised
  names): before the repair of `doStep` the function could be left at the extrapolated point `ptt`; now
  every branch ends with the function at the optimiser's parameters (`powellDoStep_at`);
  `optimize` ends on an evaluation at the optimiser's parameters.
* conjugate gradient: `Coord.Inv` is kept and the value never increases (`cgDoStep_spec`).
* BFGS (repaired): `Coord.Inv` is kept and a step ends no higher than the current value — a trial that
  ends higher ("!!! Function increase !!!") is given up, the step goes back to the point it started from
  and sets the tolerance flag (`bfgsDoStep_spec`).
-/
set_option linter.unusedSectionVars false
namespace Bpp.Optim
open Bpp

variable (obj : List ℝ → ℝ) (D : Deriv ℝ) (cap : Option Nat)

/-! ### moving, then evaluating -/

theorem matchPoint_off {pt0 : List ℝ} {ns : List Nat} {fn : Fn ℝ} (hoff : Off pt0 ns fn) (pl : PList ℝ) (hn : names pl = ns) :
    matchPoint fn.point pl = matchPoint pt0 pl :=
  matchPoint_congr pl _ _ hoff.1 (fun i hi => hoff.2 i (by rw [← hn]; exact hi))

theorem off_of_matchPoint (pt0 : List ℝ) (ns : List Nat) (fn : Fn ℝ) (pl : PList ℝ) (hn : names pl = ns)
    (h : fn.point = matchPoint pt0 pl) : Off pt0 ns fn :=
  ⟨by rw [h, matchPoint_length], fun i hi => by rw [h]; exact matchPoint_frame pl pt0 i (by rw [hn]; exact hi)⟩

/-- a line minimisation followed by an evaluation at the parameters it returns, from a function that
agrees with `pt0` outside the names: the value is the objective at `pt0` with the new parameters written
into it, and is not above the objective at `pt0` with the old ones -/
theorem line_eval (pt0 : List ℝ) (ns : List Nat) (fuel : Nat) (fn fn1 fn2 : Fn ℝ) (params pl : PList ℝ) (xi xi' : List ℝ)
    (k : Nat) (fret : ℝ) (hg : Good params) (hn : names params = ns) (hoff : Off pt0 ns fn)
    (hl : lineMinimization (Fn.iface obj D cap) fuel fn params xi = .ok (fn1, pl, xi', k))
    (hf : (Fn.iface obj D cap).f fn1 pl = .ok (fn2, fret)) :
    Good pl ∧ names pl = ns ∧ Off pt0 ns fn2 ∧ fn2.point = matchPoint pt0 pl ∧ fret = obj (matchPoint pt0 pl) ∧
    fret ≤ obj (matchPoint pt0 params) := by
  obtain ⟨a, b, c⟩ := lineMinimization_spec obj D cap fuel fn fn1 params pl xi xi' k hg hl
  have hnpl : names pl = ns := a.names.trans hn
  have b' : fn1.point = matchPoint pt0 pl := b.trans (matchPoint_off hoff pl hnpl)
  have off1 : Off pt0 ns fn1 := off_of_matchPoint pt0 ns fn1 pl hnpl b'
  obtain ⟨e1, e2, e3⟩ := eval_off obj D cap pt0 ns fn1 fn2 pl fret off1 hnpl hf
  refine ⟨a.good hg, hnpl, e3, e1, e2, ?_⟩
  rw [e2, ← b', ← matchPoint_off hoff params hn]
  exact c

/-- an evaluation at a list the function has already been moved to: the function stays there -/
theorem moved_eval (len : Nat) (ns : List Nat) (hns : ns.Nodup ∧ ∀ n ∈ ns, n < len) (fn fn1 fn2 : Fn ℝ) (params pl : PList ℝ)
    (f : ℝ) (hg : Good params) (hn : names params = ns) (hlen : fn.point.length = len)
    (hlike : Like params pl) (hpt : fn1.point = matchPoint fn.point pl)
    (hf : (Fn.iface obj D cap).f fn1 pl = .ok (fn2, f)) :
    Good pl ∧ names pl = ns ∧ Sync fn2 pl ∧ fn2.point.length = len ∧ f = obj fn2.point ∧ fn2.point = fn1.point := by
  have hnpl : names pl = ns := hlike.names.trans hn
  have hl1 : fn1.point.length = len := by rw [hpt, matchPoint_length]; exact hlen
  have hnamed : Named pl fn1.point.length := ⟨by rw [hnpl]; exact hns.1, by rw [hnpl, hl1]; exact hns.2⟩
  obtain ⟨e1, e2, e3, e4⟩ := eval_sync obj D cap fn1 fn2 pl f hnamed hf
  have hs1 : Sync fn1 pl := sync_of_matchPoint fn1 fn.point pl hpt hnamed.1
    (fun q hq => by rw [hlen]; exact hns.2 _ (by rw [← hnpl]; exact mem_names hq))
  exact ⟨hlike.good hg, hnpl, e2, e3.trans hl1, e1, e4.trans (matchPoint_of_sync pl fn1.point hs1)⟩

/-! ### Powell -/

/-- what every loop of a Powell step keeps: the parameters are good and carry the names `ns`, the
function agrees with `pt0` outside `ns`, and `fret_` is the objective at `pt0` with the parameters
written into it -/
structure Powell.Base (pt0 : List ℝ) (ns : List Nat) (s : St (Fn ℝ) (Powell ℝ) ℝ) : Prop where
  good : Good s.core.params
  names : names s.core.params = ns
  off : Off pt0 ns s.fn
  fret : s.ext.fret = obj (matchPoint pt0 s.core.params)

/-- the invariant of a run: `Powell.Base`, the optimiser's current value is `fret_`, not above `B` -/
structure Powell.Inv (B : ℝ) (pt0 : List ℝ) (ns : List Nat) (s : St (Fn ℝ) (Powell ℝ) ℝ) : Prop where
  base : Powell.Base obj pt0 ns s
  cur : s.core.cur = s.ext.fret
  below : s.ext.fret ≤ B

/-- the loop over the directions -/
theorem powellDirs_spec (pt0 : List ℝ) (ns : List Nat) (fuel : Nat) :
    ∀ (is : List Nat) (s : St (Fn ℝ) (Powell ℝ) ℝ) (del : ℝ) (ibig : Nat) (s' : St (Fn ℝ) (Powell ℝ) ℝ) (del' : ℝ) (ibig' : Nat),
      Powell.Base obj pt0 ns s → powellDirs (Fn.iface obj D cap) fuel is s del ibig = .ok (s', del', ibig') →
      Powell.Base obj pt0 ns s' ∧ s'.ext.fret ≤ s.ext.fret := by
  intro is
  induction is with
  | nil =>
    intro s del ibig s' del' ibig' hb h
    rw [powellDirs] at h
    simp only [Except.ok.injEq, Prod.mk.injEq] at h
    obtain ⟨rfl, -, -⟩ := h
    exact ⟨hb, le_refl _⟩
  | cons i r ih =>
    intro s del ibig s' del' ibig' hb h
    rw [powellDirs] at h
    split at h
    · cases h
    · rename_i xit hx
      try simp only [] at h
      split at h
      · cases h
      · rename_i fn1 pl xi1 k hl
        try simp only [] at h
        split at h
        · cases h
        · rename_i fn2 fret hf
          try simp only [] at h
          obtain ⟨a, b, c, _, e, f⟩ := line_eval obj D cap pt0 ns fuel s.fn fn1 fn2 s.core.params pl xit xi1 k fret
            hb.good hb.names hb.off hl hf
          rw [← hb.fret] at f
          split at h
          · cases h
          · split at h
            · obtain ⟨b', l'⟩ := ih _ _ _ _ _ _ (by exact ⟨a, b, c, e⟩) h
              exact ⟨b', le_trans l' f⟩
            · obtain ⟨b', l'⟩ := ih _ _ _ _ _ _ (by exact ⟨a, b, c, e⟩) h
              exact ⟨b', le_trans l' f⟩

/-- the extrapolated point is the optimiser's list up to feasible values -/
theorem powellExtrapolate_like : ∀ (p pt ptt : PList ℝ) (xit : List ℝ) (pt' : PList ℝ), Good p →
    powellExtrapolate p pt = .ok (ptt, xit, pt') → Like p ptt := by
  intro p
  induction p with
  | nil =>
    intro pt ptt xit pt' _ h
    rw [powellExtrapolate] at h
    simp only [Except.ok.injEq, Prod.mk.injEq] at h
    obtain ⟨rfl, -, -⟩ := h
    exact List.Forall₂.nil
  | cons q r ih =>
    intro pt ptt xit pt' hg h
    have hgr : Good r := fun q' hq' => hg q' (List.mem_cons_of_mem _ hq')
    cases pt with
    | nil => rw [powellExtrapolate] at h; cases h
    | cons t tr =>
      rw [powellExtrapolate] at h
      split at h
      · cases h
      · rename_i q' hs
        try simp only [] at h
        split at h
        · cases h
        · split at h
          · cases h
          · rename_i r' xs tr' hr
            simp only [Except.ok.injEq, Prod.mk.injEq] at h
            obtain ⟨rfl, -, -⟩ := h
            obtain ⟨hform, hacc⟩ := setValue_ok_form hs (hg q (List.mem_cons_self ..)).2
            exact List.Forall₂.cons ⟨rfl, q'.value, hform, hacc⟩ (ih tr r' xs tr' hgr hr)

/-- **`PowellMultiDimensions::doStep`** keeps `Powell.Base`, returns `fret_`, and `fret_` has not
increased -/
theorem powellDoStep_spec (pt0 : List ℝ) (ns : List Nat) (fuel : Nat) (s s' : St (Fn ℝ) (Powell ℝ) ℝ) (v : ℝ)
    (hb : Powell.Base obj pt0 ns s) (h : powellDoStep (Fn.iface obj D cap) fuel s = .ok (s', v)) :
    Powell.Base obj pt0 ns s' ∧ v = s'.ext.fret ∧ v ≤ s.ext.fret := by
  unfold powellDoStep at h
  simp only [] at h
  split at h
  · cases h
  · rename_i sd del ibig hd
    obtain ⟨hbd, hle⟩ := powellDirs_spec obj D cap pt0 ns fuel _ _ _ _ _ _ _
      (by exact ⟨hb.good, hb.names, hb.off, hb.fret⟩) hd
    have hle : sd.ext.fret ≤ s.ext.fret := hle
    split at h
    · cases h
    · rename_i ptt xit pt' hx
      have hlk := powellExtrapolate_like _ _ _ _ _ hbd.good hx
      have hnptt : names ptt = ns := hlk.names.trans hbd.names
      try simp only [] at h
      split at h
      · cases h
      · rename_i fn3 fptt hf
        obtain ⟨-, -, off3⟩ := eval_off obj D cap pt0 ns _ fn3 ptt fptt hbd.off hnptt hf
        try simp only [] at h
        split at h
        · split at h
          · split at h
            · cases h
            · rename_i fn4 pl xit' k hl
              try simp only [] at h
              split at h
              · cases h
              · rename_i fn5 fret hf2
                try simp only [] at h
                split at h
                · cases h
                · simp only [Except.ok.injEq, Prod.mk.injEq] at h
                  obtain ⟨rfl, rfl⟩ := h
                  obtain ⟨a, b, c, _, e, f⟩ := line_eval obj D cap pt0 ns fuel fn3 fn4 fn5 sd.core.params pl xit xit' k _
                    hbd.good hbd.names off3 hl hf2
                  rw [← hbd.fret] at f
                  exact ⟨⟨a, b, c, e⟩, rfl, le_trans f hle⟩
          · split at h
            · cases h
            · rename_i fn4 hsp
              simp only [Except.ok.injEq, Prod.mk.injEq] at h
              obtain ⟨rfl, rfl⟩ := h
              have hpt := iface_set_point obj D cap _ _ _ hsp
              have off4 : Off pt0 ns fn4 :=
                off_of_matchPoint pt0 ns fn4 sd.core.params hbd.names (hpt.trans (matchPoint_off off3 _ hbd.names))
              exact ⟨⟨hbd.good, hbd.names, off4, hbd.fret⟩, rfl, hle⟩
        · split at h
          · cases h
          · rename_i fn4 hsp
            simp only [Except.ok.injEq, Prod.mk.injEq] at h
            obtain ⟨rfl, rfl⟩ := h
            have hpt := iface_set_point obj D cap _ _ _ hsp
            have off4 : Off pt0 ns fn4 :=
              off_of_matchPoint pt0 ns fn4 sd.core.params hbd.names (hpt.trans (matchPoint_off off3 _ hbd.names))
            exact ⟨⟨hbd.good, hbd.names, off4, hbd.fret⟩, rfl, hle⟩

/-- **`PowellMultiDimensions::doStep`, repaired**: every branch leaves the function at the optimiser's
parameters (the last thing a step does is an evaluation at them, or `setParameters` with them) -/
theorem powellDoStep_at (pt0 : List ℝ) (ns : List Nat) (fuel : Nat) (s s' : St (Fn ℝ) (Powell ℝ) ℝ) (v : ℝ)
    (hb : Powell.Base obj pt0 ns s) (h : powellDoStep (Fn.iface obj D cap) fuel s = .ok (s', v)) :
    s'.fn.point = matchPoint pt0 s'.core.params := by
  unfold powellDoStep at h
  simp only [] at h
  split at h
  · cases h
  · rename_i sd del ibig hd
    obtain ⟨hbd, -⟩ := powellDirs_spec obj D cap pt0 ns fuel _ _ _ _ _ _ _
      (by exact ⟨hb.good, hb.names, hb.off, hb.fret⟩) hd
    split at h
    · cases h
    · rename_i ptt xit pt' hx
      have hlk := powellExtrapolate_like _ _ _ _ _ hbd.good hx
      have hnptt : names ptt = ns := hlk.names.trans hbd.names
      try simp only [] at h
      split at h
      · cases h
      · rename_i fn3 fptt hf
        obtain ⟨-, -, off3⟩ := eval_off obj D cap pt0 ns _ fn3 ptt fptt hbd.off hnptt hf
        try simp only [] at h
        split at h
        · split at h
          · split at h
            · cases h
            · rename_i fn4 pl xit' k hl
              try simp only [] at h
              split at h
              · cases h
              · rename_i fn5 fret hf2
                try simp only [] at h
                split at h
                · cases h
                · simp only [Except.ok.injEq, Prod.mk.injEq] at h
                  obtain ⟨rfl, rfl⟩ := h
                  obtain ⟨_, _, _, d, _, _⟩ := line_eval obj D cap pt0 ns fuel fn3 fn4 fn5 sd.core.params pl xit xit' k _
                    hbd.good hbd.names off3 hl hf2
                  exact d
          · split at h
            · cases h
            · rename_i fn4 hsp
              simp only [Except.ok.injEq, Prod.mk.injEq] at h
              obtain ⟨rfl, rfl⟩ := h
              exact (iface_set_point obj D cap _ _ _ hsp).trans (matchPoint_off off3 _ hbd.names)
        · split at h
          · cases h
          · rename_i fn4 hsp
            simp only [Except.ok.injEq, Prod.mk.injEq] at h
            obtain ⟨rfl, rfl⟩ := h
            exact (iface_set_point obj D cap _ _ _ hsp).trans (matchPoint_off off3 _ hbd.names)

theorem powellStop_same {F : Type} (s : St F (Powell ℝ) ℝ) :
    (powellStop s).1.fn = s.fn ∧ (powellStop s).1.core.params = s.core.params ∧ (powellStop s).1.core.cur = s.core.cur ∧
    (powellStop s).1.ext = s.ext := by
  unfold powellStop; simp only []; split <;> exact ⟨rfl, rfl, rfl, rfl⟩

theorem Powell.Inv.congr {B : ℝ} {pt0 : List ℝ} {ns : List Nat} {s t : St (Fn ℝ) (Powell ℝ) ℝ} (h : Powell.Inv obj B pt0 ns s)
    (hf : t.fn = s.fn) (hp : t.core.params = s.core.params) (hc : t.core.cur = s.core.cur) (he : t.ext = s.ext) :
    Powell.Inv obj B pt0 ns t :=
  ⟨⟨by rw [hp]; exact h.base.good, by rw [hp]; exact h.base.names, by rw [hf]; exact h.base.off,
    by rw [he, hp]; exact h.base.fret⟩, by rw [hc, he]; exact h.cur, by rw [he]; exact h.below⟩

/-- a step of the template -/
theorem powell_step_inv (B : ℝ) (pt0 : List ℝ) (ns : List Nat) (fuel : Nat) (s s' : St (Fn ℝ) (Powell ℝ) ℝ) (v : ℝ)
    (hi : Powell.Inv obj B pt0 ns s) (h : (powellAlgo (Fn.iface obj D cap) fuel).step s = .ok (s', v)) :
    Powell.Inv obj B pt0 ns s' := by
  obtain ⟨s1, hd1, hc⟩ := step_cases _ s h
  obtain ⟨a, b, c⟩ := powellDoStep_spec obj D cap pt0 ns fuel s s1 v hi.base hd1
  have h1 : Powell.Inv obj B pt0 ns ({ s1 with core := { s1.core with cur := v } } : St (Fn ℝ) (Powell ℝ) ℝ) :=
    ⟨⟨a.good, a.names, a.off, a.fret⟩, b, by rw [← b]; exact le_trans c hi.below⟩
  rcases hc with ⟨_, rfl⟩ | ⟨_, rfl⟩
  · exact h1
  · have hs := powellStop_same ({ s1 with core := { s1.core with cur := v } } : St (Fn ℝ) (Powell ℝ) ℝ)
    exact h1.congr obj hs.1 hs.2.1 hs.2.2.1 hs.2.2.2

/-- `AbstractOptimizer::init` for Powell's method -/
theorem powell_init_spec (fuel : Nat) (s s1 : St (Fn ℝ) (Powell ℝ) ℝ) (params : PList ℝ) (hgood : Good params)
    (h : (powellAlgo (Fn.iface obj D cap) fuel).init s params = .ok s1) :
    Powell.Inv obj (obj (matchPoint s.fn.point params)) s.fn.point (names params) s1 := by
  unfold Algo.init at h
  simp only [] at h
  split at h
  · cases h
  · rename_i sa hdi
    simp only [Except.ok.injEq] at h
    change powellDoInit (Fn.iface obj D cap) _ params = .ok sa at hdi
    unfold powellDoInit at hdi
    simp only [] at hdi
    split at hdi
    · cases hdi
    · rename_i fn1 fret hf
      simp only [Except.ok.injEq] at hdi
      subst hdi
      subst h
      obtain ⟨e1, e2, e3⟩ := eval_off obj D cap s.fn.point (names params) s.fn fn1 _ fret ⟨rfl, fun _ _ => rfl⟩
        (applyPolicy_names s.core.policy params) hf
      refine ⟨⟨applyPolicy_good _ _ hgood, applyPolicy_names _ _, e3, e2⟩, ?_, ?_⟩
      · show obj fn1.point = fret
        rw [e1, e2]
      · show fret ≤ _
        rw [e2, matchPoint_applyPolicy]

/-- **`PowellMultiDimensions::optimize`** from a state that satisfies the invariant: the loop, then an
evaluation at the optimiser's parameters -/
theorem powellOptimize_spec (B : ℝ) (pt0 : List ℝ) (ns : List Nat) (fuel : Nat) (s s2 : St (Fn ℝ) (Powell ℝ) ℝ) (v : ℝ)
    (hi : Powell.Inv obj B pt0 ns s) (h : powellOptimize (Fn.iface obj D cap) fuel s = .ok (s2, v)) :
    v ≤ B ∧ v = obj s2.fn.point ∧ s2.fn.point = matchPoint pt0 s2.core.params ∧ s2.core.cur = v ∧
    names s2.core.params = ns ∧ Powell.Inv obj B pt0 ns s2 := by
  unfold powellOptimize at h
  split at h
  · cases h
  · rename_i sL vL hopt
    have hL : Powell.Inv obj B pt0 ns sL := by
      unfold Algo.optimize at hopt
      split at hopt
      · cases hopt
      · split at hopt
        · cases hopt
        · rename_i sL' hl
          simp only [Except.ok.injEq, Prod.mk.injEq] at hopt
          obtain ⟨rfl, -⟩ := hopt
          refine loop_invariant _ (Powell.Inv obj B pt0 ns)
            (fun u u' w hu _ hst => powell_step_inv obj D cap B pt0 ns fuel u u' w hu hst)
            (fun u hu => hu.congr obj rfl rfl rfl rfl) fuel _ _ ?_ hl
          exact hi.congr obj rfl rfl rfl rfl
    try simp only [] at h
    split at h
    · cases h
    · rename_i fn2 v2 hf
      simp only [Except.ok.injEq, Prod.mk.injEq] at h
      obtain ⟨rfl, rfl⟩ := h
      obtain ⟨e1, e2, e3⟩ := eval_off obj D cap pt0 ns _ fn2 _ v2 hL.base.off hL.base.names hf
      have hv : v2 = sL.ext.fret := by rw [e2, hL.base.fret]
      refine ⟨by rw [hv]; exact hL.below, by rw [e2, e1], e1, hL.cur.trans hv.symm, hL.base.names, ?_⟩
      exact ⟨⟨hL.base.good, hL.base.names, e3, hL.base.fret⟩, hL.cur, hL.below⟩

/-! ### `init` for the optimisers that set the function to the list given to `init` -/

/-- what `init` establishes when `doInit` leaves the optimiser's list alone and calls
`getFunction()->setParameters(params)` with the list *given to `init`* (conjugate gradient, BFGS), the
stop condition being `FunctionStopCondition` -/
theorem given_init_spec {τ : Type} (A : Algo (Fn ℝ) τ ℝ) (hsi : A.stopInit = fscInit)
    (hval : A.value = (Fn.iface obj D cap).value)
    (s s1 : St (Fn ℝ) τ ℝ) (params : PList ℝ)
    (hgood : Good params) (hn : Named params s.fn.point.length)
    (hdo : ∀ s0 sa, A.doInit s0 params = .ok sa → sa.core.params = s0.core.params ∧
      (Fn.iface obj D cap).setParameters s0.fn params = .ok sa.fn)
    (h : A.init s params = .ok s1) :
    Multi.Inv obj (obj (matchPoint s.fn.point params)) s.fn.point.length (names params) s1 := by
  unfold Algo.init at h
  simp only [] at h
  split at h
  · cases h
  · rename_i sa hdi
    simp only [Except.ok.injEq] at h
    obtain ⟨hp, hfn⟩ := hdo _ sa hdi
    simp only [] at hp hfn
    rw [hsi] at h
    subst h
    have hpt : sa.fn.point = matchPoint s.fn.point params := iface_set_point obj D cap _ _ _ hfn
    have hsync : Sync sa.fn (applyPolicy s.core.policy params) := by
      apply sync_of_matchPoint sa.fn s.fn.point
      · rw [hpt, matchPoint_applyPolicy]
      · rw [applyPolicy_names]; exact hn.1
      · exact (hn.of_names (applyPolicy_names _ _)).lt
    refine ⟨⟨?_, ?_, ?_, ?_⟩, ?_, ?_⟩
    · show Good sa.core.params; rw [hp]; exact applyPolicy_good _ _ hgood
    · show names sa.core.params = _; rw [hp]; exact applyPolicy_names _ _
    · show Sync sa.fn sa.core.params; rw [hp]; exact hsync
    · show sa.fn.point.length = _; rw [hpt, matchPoint_length]
    · show A.value sa.fn = obj sa.fn.point; rw [hval]; rfl
    · show A.value sa.fn ≤ _; rw [hval, ← hpt]; exact le_refl _

/-! ### conjugate gradient -/

/-- the shape of `ConjugateGradientMultiDimensions::doStep`: a line minimisation, an evaluation at the
parameters it returns; what follows touches the optimiser's own vectors only -/
theorem cgDoStep_shape {F : Type} (I : FunI F ℝ) (fuel : Nat) (s s' : St F (Cg ℝ) ℝ) (v : ℝ)
    (h : cgDoStep I fuel s = .ok (s', v)) :
    ∃ fn1 pl xi' k, lineMinimization I fuel s.fn s.core.params s.ext.xi = .ok (fn1, pl, xi', k) ∧
      I.f fn1 pl = .ok (s'.fn, v) ∧ s'.core.params = pl := by
  unfold cgDoStep at h
  split at h
  · cases h
  · rename_i fn1 pl xi' k hl
    try simp only [] at h
    split at h
    · cases h
    · rename_i fn2 f hf
      refine ⟨fn1, pl, xi', k, hl, ?_⟩
      try simp only [] at h
      repeat' (split at h)
      all_goals first
        | (simp only [Except.ok.injEq, Prod.mk.injEq] at h; obtain ⟨rfl, rfl⟩ := h; exact ⟨hf, rfl⟩)
        | cases h

/-- **`ConjugateGradientMultiDimensions::doStep`** keeps `Coord.Inv`, returns the objective at the point
the function is left at, not above the objective at the point it found it at -/
theorem cgDoStep_spec (len : Nat) (ns : List Nat) (hns : ns.Nodup ∧ ∀ n ∈ ns, n < len) (fuel : Nat)
    (s s' : St (Fn ℝ) (Cg ℝ) ℝ) (v : ℝ) (hi : Coord.Inv len ns s)
    (h : cgDoStep (Fn.iface obj D cap) fuel s = .ok (s', v)) :
    Coord.Inv len ns s' ∧ v = obj s'.fn.point ∧ v ≤ obj s.fn.point := by
  obtain ⟨fn1, pl, xi', k, hl, hf, hp⟩ := cgDoStep_shape _ fuel s s' v h
  obtain ⟨a, b, c⟩ := lineMinimization_spec obj D cap fuel s.fn fn1 s.core.params pl _ xi' k hi.good hl
  obtain ⟨m1, m2, m3, m4, m5, m6⟩ := moved_eval obj D cap len ns hns s.fn fn1 s'.fn s.core.params pl v
    hi.good hi.names hi.len a b hf
  refine ⟨⟨by rw [hp]; exact m1, by rw [hp]; exact m2, by rw [hp]; exact m3, m4⟩, m5, ?_⟩
  rw [m5, m6]
  rw [matchPoint_of_sync _ _ hi.sync] at c
  exact c

/-! ### BFGS -/

/-- the shape of `BfgsMultiDimensions::doStep`: a line search, an evaluation at the parameters it
returns; then either the value is not above the current value and what follows touches the optimiser's
own vectors only, or ("!!! Function increase !!!", repaired) the parameters are set back to the values
the step started from, the function is evaluated there and the tolerance flag is set -/
theorem bfgsDoStep_shape {F : Type} (I : FunI F ℝ) (fuel : Nat) (s s' : St F (Bfgs ℝ) ℝ) (v : ℝ)
    (h : bfgsDoStep I fuel s = .ok (s', v)) :
    ∃ xi gr fn1 pl xi' k fn2 f, lineSearch I fuel s.fn s.core.params xi gr = .ok (fn1, pl, xi', k) ∧
      I.f fn1 pl = .ok (fn2, f) ∧
      ((f ≤ s.core.cur ∧ s'.fn = fn2 ∧ s'.core.params = pl ∧ v = f) ∨
       (s.core.cur < f ∧ ∃ pl0, setAll pl (values s.core.params) = .ok pl0 ∧ I.f fn2 pl0 = .ok (s'.fn, v) ∧
          s'.core.params = pl0 ∧ s'.core.tol = true)) := by
  unfold bfgsDoStep at h
  simp only [] at h
  split at h
  · cases h
  · rename_i fn1 pl xi' k hl
    try simp only [] at h
    split at h
    · cases h
    · rename_i fn2 f hf
      refine ⟨_, _, fn1, pl, xi', k, fn2, f, hl, hf, ?_⟩
      try simp only [] at h
      split at h
      · rename_i hgt
        right
        refine ⟨(ScalarReal.gtb_iff _ _).1 hgt, ?_⟩
        split at h
        · cases h
        · rename_i pl0 hsa
          try simp only [] at h
          split at h
          · cases h
          · rename_i fn3 f0 hf0
            simp only [Except.ok.injEq, Prod.mk.injEq] at h
            obtain ⟨rfl, rfl⟩ := h
            exact ⟨pl0, hsa, hf0, rfl, rfl⟩
      · rename_i hgt
        have hle : f ≤ s.core.cur := by
          by_contra hc
          exact hgt ((ScalarReal.gtb_iff _ _).2 (not_le.1 hc))
        left
        repeat' (split at h)
        all_goals first
          | (simp only [Except.ok.injEq, Prod.mk.injEq] at h; obtain ⟨rfl, rfl⟩ := h; exact ⟨hle, rfl, rfl, rfl⟩)
          | cases h

/-- **`BfgsMultiDimensions::doStep`** (repaired) from a state in which the function holds the optimiser's
parameters and the current value is the objective there: `Coord.Inv` is kept, the value returned is the
objective at the point the function is left at, and it is not above the current value — a trial that
ends higher is given up: the step goes back to the values it started from (which the parameters accept
as they are), evaluates there, and sets the tolerance flag -/
theorem bfgsDoStep_spec (len : Nat) (ns : List Nat) (hns : ns.Nodup ∧ ∀ n ∈ ns, n < len) (fuel : Nat)
    (s s' : St (Fn ℝ) (Bfgs ℝ) ℝ) (v : ℝ) (hi : Coord.Inv len ns s) (hcur : s.core.cur = obj s.fn.point)
    (h : bfgsDoStep (Fn.iface obj D cap) fuel s = .ok (s', v)) :
    Coord.Inv len ns s' ∧ v = obj s'.fn.point ∧ v ≤ s.core.cur := by
  obtain ⟨xi, gr, fn1, pl, xi', k, fn2, f, hl, hf, hor⟩ := bfgsDoStep_shape _ fuel s s' v h
  obtain ⟨a, b⟩ := lineSearch_spec obj D cap fuel s.fn fn1 s.core.params pl xi gr xi' k hi.good hl
  obtain ⟨m1, m2, m3, m4, m5, m6⟩ := moved_eval obj D cap len ns hns s.fn fn1 fn2 s.core.params pl f
    hi.good hi.names hi.len a b hf
  rcases hor with ⟨hle, e1, e2, e3⟩ | ⟨_, pl0, hsa, hf0, e2, _⟩
  · subst e3
    exact ⟨⟨by rw [e2]; exact m1, by rw [e2]; exact m2, by rw [e1, e2]; exact m3, by rw [e1]; exact m4⟩,
      by rw [e1]; exact m5, hle⟩
  · -- back to the start of the step
    have hlk0 : Like pl pl0 := setAll_like pl _ pl0 m1 hsa
    have hn0 : names pl0 = ns := (setAll_names pl _ pl0 hsa).trans m2
    have hv0 : values pl0 = values s.core.params :=
      setAll_values (Like.accepts_values a (Like.refl hi.good)) pl0 m1 hsa
    have hnamed : Named pl0 fn2.point.length := ⟨by rw [hn0]; exact hns.1, by rw [hn0, m4]; exact hns.2⟩
    obtain ⟨e1, e2', e3, e4⟩ := eval_sync obj D cap fn2 s'.fn pl0 v hnamed hf0
    have hpt : s'.fn.point = s.fn.point := by
      rw [e4, matchPoint_nv fn2.point pl0 s.core.params (hn0.trans hi.names.symm) hv0, m6, b]
      rw [matchPoint_congr s.core.params (matchPoint s.fn.point pl) s.fn.point (matchPoint_length _ _)
        (fun i hi' => matchPoint_frame pl s.fn.point i (by rw [m2, ← hi.names]; exact hi'))]
      exact matchPoint_of_sync _ _ hi.sync
    refine ⟨⟨by rw [e2]; exact hlk0.good m1, by rw [e2]; exact hn0, by rw [e2]; exact e2', e3.trans m4⟩, e1, ?_⟩
    rw [e1, hpt, hcur]

/-- **`BfgsMultiDimensions`: `optimize`** (repaired) from a state that satisfies `Multi.Inv` keeps it and
returns the current value (`multi_optimize_spec` does not apply as it stands: the descent of a BFGS step
is relative to the optimiser's current value, which the invariant of the run ties to the function) -/
theorem bfgs_optimize_spec (B : ℝ) (len : Nat) (ns : List Nat) (hns : ns.Nodup ∧ ∀ n ∈ ns, n < len) (fuel fuel' : Nat)
    (s s2 : St (Fn ℝ) (Bfgs ℝ) ℝ) (v : ℝ) (hi : Multi.Inv obj B len ns s)
    (h : (bfgsAlgo (Fn.iface obj D cap) fuel).optimize fuel' s = .ok (s2, v)) :
    Multi.Inv obj B len ns s2 ∧ s2.core.cur = v := by
  unfold Algo.optimize at h
  split at h
  · cases h
  · split at h
    · cases h
    · rename_i sL hl
      simp only [Except.ok.injEq, Prod.mk.injEq] at h
      obtain ⟨rfl, rfl⟩ := h
      refine ⟨?_, rfl⟩
      refine loop_invariant _ (Multi.Inv obj B len ns) ?_ (fun u hu => hu.congr obj rfl rfl rfl) fuel' _ _ ?_ hl
      · intro u u' w hu _ hst
        obtain ⟨u1, hd1, hc⟩ := step_cases _ u hst
        obtain ⟨a, b, c⟩ := bfgsDoStep_spec obj D cap len ns hns fuel u u1 w hu.coord hu.cur hd1
        have h1 : Multi.Inv obj B len ns ({ u1 with core := { u1.core with cur := w } } : St (Fn ℝ) (Bfgs ℝ) ℝ) :=
          ⟨⟨a.good, a.names, a.sync, a.len⟩, b, le_trans c hu.below⟩
        rcases hc with ⟨_, rfl⟩ | ⟨_, rfl⟩
        · exact h1
        · have hs := fscStop_same ({ u1 with core := { u1.core with cur := w } } : St (Fn ℝ) (Bfgs ℝ) ℝ)
          exact h1.congr obj hs.1 hs.2.1 hs.2.2.1
      · exact hi.congr obj rfl rfl rfl

/-! ### the input on which BFGS used to end above its starting value

The same program text at `Rat` (exact arithmetic; the transcendental functions of that instance are
never reached on this run): two parameters, `x0 ∈ [0, 10]` at its upper bound and `x1` free at 0, the
objective `-10⁶ (x0 - 10) + 5·10⁻⁴ x1 - 2.9998 x1²` with its true derivatives.  `setDirection` replaces
the component `+10⁶` of the Newton direction by `Up - p = -TINY` (the parameter is within `TINY` of its
bound), the slope handed to the line search is `10⁶ · TINY - 2.5·10⁻⁷ > 0`, the first trial has the value
`≈ 5·10⁻¹¹ > 0`, which the acceptance test `f ≤ fold + 10⁻⁴ λ slope` lets through.  Before the repair
(findings/C10.json, corpus/C10/bfgs_increase.txt) `doStep` set the tolerance flag and returned that
higher value; now it goes back to the point the step started from. -/
namespace BfgsExample

def objective (pt : List Rat) : Rat :=
  (0 - 1000000) * (pt.getD 0 0 - 10) + (5 / 10000) * pt.getD 1 0 - (29998 / 10000) * pt.getD 1 0 * pt.getD 1 0

def deriv : Deriv Rat :=
  { d1 := fun k pt => if k == 0 then 0 - 1000000 else (5 / 10000) - 2 * (29998 / 10000) * pt.getD 1 0,
    d2 := fun k _ => if k == 0 then 0 else 0 - 2 * (29998 / 10000) }

def params : PList Rat :=
  [⟨0, ⟨10, 0, some ⟨.fin 0, .fin 10, true, true, 0⟩, false⟩⟩, ⟨1, ⟨0, 0, none, false⟩⟩]

def start : St (Fn Rat) (Bfgs Rat) Rat :=
  { core := freshCore 100 (1 / 1000000) 0, fn := ⟨[10, 0], []⟩, ext := Bfgs.fresh }

/-- the list is feasible, `init` and `optimize` return, the increase has been seen (the tolerance flag is
set), the value returned is not above the value at the start, and the function is back at the start -/
def backAtStart : Bool :=
  feasibleList params &&
  match (bfgsAlgo (Fn.iface objective deriv none) 1000).init start params with
  | .error _ => false
  | .ok s1 =>
    match (bfgsAlgo (Fn.iface objective deriv none) 1000).optimize 1000 s1 with
    | .error _ => false
    | .ok (s2, v) =>
      decide (s1.core.cur = objective [10, 0]) && decide (v ≤ objective [10, 0]) && s2.core.tol &&
      decide (s2.fn.point = [10, 0])

theorem backAtStart_true : backAtStart = true := by decide +kernel

end BfgsExample

end Bpp.Optim
