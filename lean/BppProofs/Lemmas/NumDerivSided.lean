import BppProofs.Lemmas.NumDerivCross
/-!
C12 helper lemmas, part 10: a probe refused by the constraint of the list that was passed, and
the one-sided fall-back of the three-point scheme.
-/
namespace Bpp.NumDeriv
open Bpp Bpp.Scalar

/-- the wrapped function's side is unconstrained (the caller's list may carry constraints); that `f`
stays below `VERY_BIG` at the accepted probes is the separate, local hypothesis `BoundedNear` -/
structure FreeFn (f : List ℝ → ℝ) (params B : PList ℝ) : Prop where
  ctx : Ctx params B
  nocon : ∀ b ∈ B, b.con = none

/-- a probe accepted by the constraint of the probed parameter -/
theorem attempt_ok (f : List ℝ → ℝ) {params B : PList ℝ} (hF : FreeFn f params B) {var : Name} {fn : Fn ℝ}
    (q0 : Param ℝ) (rest : PList ℝ) (h : RI f params B var fn (q0 :: rest)) (hprec : q0.prec = 0) (x : ℝ)
    (hacc : q0.violates x = false) (hbx : tooBig (f (values (upd1 B var x))) = false) :
    attempt f fn (q0 :: rest) x =
      ⟨(attempt f fn (q0 :: rest) x).fn, [{ q0 with value := x }], some (f (values (upd1 B var x))), true⟩ ∧
    (attempt f fn (q0 :: rest) x).fn.params = upd1 B var x ∧ (attempt f fn (q0 :: rest) x).fn.OK f := by
  obtain ⟨hok, q0', rest', hp, hq0, hnd, hrest, hlen, hD⟩ := h
  injection hp with hp1 hp2
  subst hp1; subst hp2
  have hc := hF.ctx
  unfold attempt
  simp only []
  rw [setValue_ok q0 x hprec hacc]
  simp only []
  have hnd' : (names ({ q0 with value := x } :: rest)).Nodup := by
    rw [names_cons]; rw [names_cons] at hnd; exact hnd
  have hav : anyViolation fn.params ({ q0 with value := x } :: rest) = false :=
    anyViolation_nocon _ _ (hD.nocon hF.nocon)
  obtain ⟨fired, heq, hnf⟩ := setParameters_eq f fn ({ q0 with value := x } :: rest) (hc.own hD) hnd' hav
  have hupd : updL ({ q0 with value := x } :: rest) fn.params = upd1 B var x :=
    updL_dev_eq hc var { q0 with value := x } rest hq0 hrest hD
  rw [heq, hupd]
  cases fired with
  | true =>
    simp only [if_true]
    have hOK : ((fn.withParams (upd1 B var x)).fire f).OK f := fire_OK f _
    have hb : tooBig ((fn.withParams (upd1 B var x)).fire f).fval = false := by rw [hOK]; exact hbx
    rw [hb]
    simp only [Bool.false_eq_true, if_false]
    exact ⟨rfl, rfl, hOK⟩
  | false =>
    simp only [Bool.false_eq_true, if_false]
    have hsame := hnf rfl
    rw [hupd] at hsame
    have hOK : (fn.withParams (upd1 B var x)).OK f := by
      unfold Fn.OK; rw [withParams_params, hsame]; exact hok
    have hb : tooBig (fn.withParams (upd1 B var x)).fval = false := by rw [hOK]; exact hbx
    rw [hb]
    simp only [Bool.false_eq_true, if_false]
    refine ⟨?_, rfl, hOK⟩
    have : (fn.withParams (upd1 B var x)).fval = f (values (upd1 B var x)) := hOK
    rw [this]

/-- a probe refused by the constraint of the probed parameter: nothing happens -/
theorem attempt_refused (f : List ℝ → ℝ) (fn : Fn ℝ) (q0 : Param ℝ) (rest : PList ℝ) (x : ℝ)
    (hprec : q0.prec = 0) (hne : x ≠ q0.value) (hrej : q0.violates x = true) :
    attempt f fn (q0 :: rest) x = ⟨fn, q0 :: rest, none, false⟩ := by
  unfold attempt
  simp only []
  have : q0.setValue x = .error .constraint := by
    unfold Param.setValue
    have hg : gtb (Scalar.abs (x - q0.value)) (q0.prec / ofInt 2) = true := by
      rw [ScalarReal.gtb_iff, hprec]; simp; exact sub_ne_zero.mpr hne
    rw [if_pos hg, hrej]; rfl
  rw [this]


/-- a retry loop whose first try is accepted -/
theorem retry_ok (f : List ℝ → ℝ) {params B : PList ℝ} (hF : FreeFn f params B) {var : Name} (rp : Bool) (value : ℝ)
    (n : Nat) (fn : Fn ℝ) (q0 : Param ℝ) (rest : PList ℝ) (h : ℝ) (fv : Option ℝ)
    (hri : RI f params B var fn (q0 :: rest)) (hprec : q0.prec = 0) (hacc : q0.violates (value + h) = false) (hh : h ≠ 0)
    (hbx : tooBig (f (values (upd1 B var (value + h)))) = false) :
    (retry f rp (n + 1) fn (q0 :: rest) value h fv).exc = none ∧
    (retry f rp (n + 1) fn (q0 :: rest) value h fv).hf = some h ∧
    (retry f rp (n + 1) fn (q0 :: rest) value h fv).h = h ∧
    (retry f rp (n + 1) fn (q0 :: rest) value h fv).fv = some (f (values (upd1 B var (value + h)))) ∧
    (retry f rp (n + 1) fn (q0 :: rest) value h fv).p = [{ q0 with value := value + h }] ∧
    (retry f rp (n + 1) fn (q0 :: rest) value h fv).fn.params = upd1 B var (value + h) ∧
    (retry f rp (n + 1) fn (q0 :: rest) value h fv).fn.OK f := by
  obtain ⟨a1, a2, a3⟩ := attempt_ok f hF q0 rest hri hprec (value + h) hacc hbx
  have hz : eqb h zero = false := by
    cases hb : eqb h zero with
    | false => rfl
    | true => exact absurd ((ScalarReal.eqb_iff _ _).mp hb) (by simpa using hh)
  unfold retry
  simp only []
  rw [a1]
  simp only [if_true, hz, Bool.false_eq_true, if_false]
  exact ⟨trivial, trivial, trivial, trivial, trivial, a2, a3⟩

/-- the first try (on the left) is refused by the constraint, the second one (on the right) accepted -/
theorem retry_flip (f : List ℝ → ℝ) {params B : PList ℝ} (hF : FreeFn f params B) {var : Name} (rp : Bool) (value : ℝ)
    (n : Nat) (fn : Fn ℝ) (q0 : Param ℝ) (rest : PList ℝ) (h : ℝ) (fv : Option ℝ)
    (hri : RI f params B var fn (q0 :: rest)) (hprec : q0.prec = 0) (hval : q0.value = value) (hneg : h < 0)
    (hrej : q0.violates (value + h) = true) (hacc : q0.violates (value + -h) = false)
    (hbx : tooBig (f (values (upd1 B var (value + -h)))) = false) :
    (retry f rp (n + 2) fn (q0 :: rest) value h fv).exc = none ∧
    (retry f rp (n + 2) fn (q0 :: rest) value h fv).hf = some (-h) ∧
    (retry f rp (n + 2) fn (q0 :: rest) value h fv).h = -h ∧
    (retry f rp (n + 2) fn (q0 :: rest) value h fv).fv = some (f (values (upd1 B var (value + -h)))) ∧
    (retry f rp (n + 2) fn (q0 :: rest) value h fv).p = [{ q0 with value := value + -h }] ∧
    (retry f rp (n + 2) fn (q0 :: rest) value h fv).fn.params = upd1 B var (value + -h) ∧
    (retry f rp (n + 2) fn (q0 :: rest) value h fv).fn.OK f := by
  have hne : value + h ≠ q0.value := by rw [hval]; intro e; linarith
  have href := attempt_refused f fn q0 rest (value + h) hprec hne hrej
  have hlt : ltb h zero = true := by rw [ScalarReal.ltb_iff]; simpa using hneg
  have hstep : retry f rp (n + 2) fn (q0 :: rest) value h fv = retry f rp (n + 1) fn (q0 :: rest) value (-h) fv := by
    conv_lhs => unfold retry
    simp only [href, Bool.false_eq_true, if_false, Nat.add_one_ne_zero, hlt, if_true]
  rw [hstep]
  exact retry_ok f hF rp value n fn q0 rest (-h) fv hri hprec hacc (neg_ne_zero.mpr (ne_of_lt hneg)) hbx


theorem dev_upd1 (B : PList ℝ) (var : Name) (y : ℝ) : Dev B (upd1 B var y) (fun n => n = var) := by
  unfold Dev upd1
  induction B with
  | nil => exact List.Forall₂.nil
  | cons a r ih =>
    rw [List.map_cons]
    refine List.Forall₂.cons ?_ ih
    by_cases e : a.name = var
    · rw [if_pos e]
      exact ⟨⟨rfl, rfl, rfl⟩, fun hn => absurd e hn⟩
    · rw [if_neg e]
      exact ⟨SameSkel.rfl' a, fun _ => rfl⟩

theorem violates_value_irrel (q : Param ℝ) (v x : ℝ) : ({ q with value := v } : Param ℝ).violates x = q.violates x := rfl

/-- one iteration of the three-point loop next to a lower bound: the probe on the left is refused
by the constraint of the passed parameter, the scheme probes at `x + H` and `x + H/2` -/
theorem step3_right (f : List ℝ → ℝ) {params B : PList ℝ} (hF : FreeFn f params B) {w0 : W ℝ} (lp : Loop ℝ)
    (hLI : LI f params B w0 (fun w => w.f2) lp) (i : Nat) (var : Name) (b qv : Param ℝ)
    (hqv : find? params var = some qv) (hb : find? B var = some b) (hlast : lp.lastVar ≠ some var) (hh : 0 < lp.w.h)
    (hprec : qv.prec = 0) (hB : BoundedNear f B lp.w.h)
    (hrej : qv.violates (b.value + -(one + Scalar.abs b.value) * lp.w.h) = true)
    (hacc1 : qv.violates (b.value + -(-(one + Scalar.abs b.value) * lp.w.h)) = false)
    (hacc2 : qv.violates (b.value + -(-(one + Scalar.abs b.value) * lp.w.h) / ofInt 2) = false) :
    (step3 f params lp i var).2 = none ∧ (step3 f params lp i var).1.lastVar = some var ∧
    (step3 f params lp i var).1.w.der1 = setAt lp.w.der1 i (some (d1Three
        (f (values (upd1 B var (b.value + -(-(one + Scalar.abs b.value) * lp.w.h)))))
        (f (values (upd1 B var (b.value + -(-(one + Scalar.abs b.value) * lp.w.h) / ofInt 2))))
        (-(-(one + Scalar.abs b.value) * lp.w.h)) (-(-(one + Scalar.abs b.value) * lp.w.h) / ofInt 2))) ∧
    (step3 f params lp i var).1.w.der2 = setAt lp.w.der2 i (some (d2Three
        (f (values (upd1 B var (b.value + -(-(one + Scalar.abs b.value) * lp.w.h))))) lp.w.f2
        (f (values (upd1 B var (b.value + -(-(one + Scalar.abs b.value) * lp.w.h) / ofInt 2))))
        (-(-(one + Scalar.abs b.value) * lp.w.h)) (-(-(one + Scalar.abs b.value) * lp.w.h) / ofInt 2))) := by
  have hLI' := hLI
  obtain ⟨hok, hD, hl, hfr, hslot⟩ := hLI
  have hc := hF.ctx
  have hhas : has params var = true := (has_iff params var).mpr (by
    have := find?_some hqv; rw [← this.2]; exact List.mem_map_of_mem this.1)
  have hval := valueOf_base hLI' var b hb hlast
  have hqval : qv.value = b.value :=
    (hc.sync qv (find?_some hqv).1 b (find?_some hb).1 (by rw [(find?_some hb).2, (find?_some hqv).2])).symm
  -- prepare
  have hprep : ∃ rest, prepare params lp.w.h lp var = .ok (qv :: rest, b.value, -(one + Scalar.abs b.value) * lp.w.h) := by
    have hadj : ltb (Scalar.abs (-(one + Scalar.abs b.value) * lp.w.h)) qv.prec = false := by
      rw [hprec, ScalarReal.ltb_false_iff, ScalarReal.abs_eq]; exact abs_nonneg _
    unfold prepare
    simp only []
    cases hlv : lp.lastVar with
    | none =>
      simp only []
      rw [subNames_one params var qv hqv, hval]
      simp only []
      rw [hadj]
      exact ⟨[], by simp⟩
    | some l =>
      simp only []
      obtain ⟨ql, hql⟩ : ∃ ql, find? params l = some ql := by
        cases hf : find? params l with
        | none => exact absurd ((has_iff params l).mp (hl l hlv)) (find?_none hf)
        | some q => exact ⟨q, rfl⟩
      rw [subNames_two params var l qv ql hqv hql (fun e => hlast (by rw [hlv, e])), hval]
      simp only []
      rw [hadj]
      exact ⟨[ql], by simp⟩
  obtain ⟨rest, hprep⟩ := hprep
  have hri := prepare_RI f hLI' var lp.w.h (qv :: rest) b.value _ hprep
  have hpos : (0 : ℝ) < (one + Scalar.abs b.value) * lp.w.h := by
    have : (0 : ℝ) < one + Scalar.abs b.value := by
      simp only [ScalarReal.one_eq, ScalarReal.abs_eq]; positivity
    exact mul_pos this hh
  have hneg : -(one + Scalar.abs b.value) * lp.w.h < 0 := by
    have : -(one + Scalar.abs b.value) * lp.w.h = -((one + Scalar.abs b.value) * lp.w.h) := by ring
    rw [this]; linarith
  obtain ⟨a1, a2, a3, a4, a5, a6, a7⟩ := retry_flip f hF true b.value 8 lp.w.fn qv rest _ none hri hprec hqval hneg hrej hacc1
    (hB.at' var b hb _ 1 (by simp) (by ring))
  -- second loop
  have hnl : ltb (-(-(one + Scalar.abs b.value) * lp.w.h)) zero = false := by
    rw [ScalarReal.ltb_false_iff]; simp only [ScalarReal.zero_eq]; linarith
  have hri3 : RI f params B var (retry f true 10 lp.w.fn (qv :: rest) b.value (-(one + Scalar.abs b.value) * lp.w.h) none).fn
      [{ qv with value := b.value + -(-(one + Scalar.abs b.value) * lp.w.h) }] := by
    refine ⟨a7, _, [], rfl, (find?_some hqv).2, by simp [names], by simp, by simp, ?_⟩
    rw [a6]
    exact (dev_upd1 B var _).mono (fun n hn => Or.inl hn)
  have hh3 : -(-(one + Scalar.abs b.value) * lp.w.h) / ofInt 2 ≠ 0 := by
    simp only [ScalarReal.ofInt_eq]
    exact div_ne_zero (neg_ne_zero.mpr (ne_of_lt hneg)) (by norm_num)
  obtain ⟨c1, c2, _, c4, _, _, _⟩ := retry_ok f hF false b.value 9 _ { qv with value := b.value + -(-(one + Scalar.abs b.value) * lp.w.h) } []
    (-(-(one + Scalar.abs b.value) * lp.w.h) / ofInt 2) none hri3 hprec
    (by rw [violates_value_irrel]; exact hacc2) hh3
    (hB.at' var b hb _ (1 / 2) (by rw [abs_le]; constructor <;> norm_num)
      (by simp only [ScalarReal.ofInt_eq]; push_cast; ring))
  -- assemble
  unfold step3
  have hnh : (!has params var) = false := by rw [hhas]; rfl
  rw [hnh]
  simp only [Bool.false_eq_true, if_false, hprep]
  simp only [a1, a2, a3, a4, a5, Option.isSome_none, Bool.false_eq_true, if_false, hnl, c1, c2, c4]
  exact ⟨trivial, trivial, trivial, trivial⟩


/-- `updateDerivatives` of the three-point scheme for one selected variable sitting next to the
lower bound of the constraint it is passed with -/
theorem update3_right (f : List ℝ → ℝ) (w : W ℝ) (params : PList ℝ) (v : Name) (hown : Own w.fn) (hok : w.fn.OK f)
    (hF : FreeFn f params w.fn.params) (hB : BoundedNear f w.fn.params w.h)
    (hpnd : (names params).Nodup) (hc1 : w.c1 = true) (hcx : w.cx = false)
    (hvars : w.vars = [v]) (hh : 0 < w.h) (b qv : Param ℝ)
    (hqv : find? params v = some qv) (hb : find? w.fn.params v = some b) (hprec : qv.prec = 0)
    (hrej : qv.violates (b.value + -(one + Scalar.abs b.value) * w.h) = true)
    (hacc1 : qv.violates (b.value + -(-(one + Scalar.abs b.value) * w.h)) = false)
    (hacc2 : qv.violates (b.value + -(-(one + Scalar.abs b.value) * w.h) / ofInt 2) = false) :
    (update3 f w params).2 = none ∧
    (update3 f w params).1.der1 = setAt w.der1 0 (some (d1Three
        (f (values (upd1 w.fn.params v (b.value + -(-(one + Scalar.abs b.value) * w.h)))))
        (f (values (upd1 w.fn.params v (b.value + -(-(one + Scalar.abs b.value) * w.h) / ofInt 2))))
        (-(-(one + Scalar.abs b.value) * w.h)) (-(-(one + Scalar.abs b.value) * w.h) / ofInt 2))) ∧
    (update3 f w params).1.der2 = setAt w.der2 0 (some (d2Three
        (f (values (upd1 w.fn.params v (b.value + -(-(one + Scalar.abs b.value) * w.h))))) (f (values w.fn.params))
        (f (values (upd1 w.fn.params v (b.value + -(-(one + Scalar.abs b.value) * w.h) / ofInt 2))))
        (-(-(one + Scalar.abs b.value) * w.h)) (-(-(one + Scalar.abs b.value) * w.h) / ofInt 2))) := by
  have hc := hF.ctx
  unfold update3
  have hcond : (w.c1 && decide (w.vars.length > 0)) = true := by simp [hc1, hvars]
  rw [if_pos hcond]
  simp only []
  have hown0 : Own ((w.fn.enable1 false).enable2 false) := by unfold Own; simp; exact hown
  have hok0 : ((w.fn.enable1 false).enable2 false).OK f := enable2_OK f _ _ (enable1_OK f _ _ hok)
  have hnc0 : ∀ p ∈ ((w.fn.enable1 false).enable2 false).params, p.con = none := by simpa using hF.nocon
  have h0 := first_set f ((w.fn.enable1 false).enable2 false) hown0 hok0 (by simpa using hc.sync) hpnd
  have hn0 := setParameters_nocon f ((w.fn.enable1 false).enable2 false) params hnc0
  rcases hs1 : ((w.fn.enable1 false).enable2 false).setParameters f params with ⟨fn1, e1⟩
  rw [hs1] at h0 hn0
  simp only [] at hn0
  subst hn0
  obtain ⟨g1, g2, g3, _, _⟩ := h0
  simp only [] at g1 g2 g3
  have hp1 : fn1.params = w.fn.params := by have := g1 trivial; simpa using this
  have hval : fn1.fval = f (values w.fn.params) := by rw [← hp1]; exact g2
  simp only []
  have htb : tooBig fn1.fval = false := by rw [hval]; exact hB.base
  rw [htb]
  simp only [Bool.false_eq_true, if_false]
  have hLI0 : LI f params w.fn.params { w with fn := fn1, f2 := fn1.fval } (fun w => w.f2)
      { w := { w with fn := fn1, f2 := fn1.fval }, p := [], lastVar := none } :=
    ⟨g2, (by rw [hp1]; exact Dev.refl _ _), (fun l h => by cases h), Frame.refl _, rfl⟩
  obtain ⟨s1, s2, s3, s4⟩ := step3_right f hF _ hLI0 0 v b qv hqv hb (by simp) hh hprec hB hrej hacc1 hacc2
  have hLI1 := step3_LI f hc _ hLI0 0 v _ rfl s1
  rcases hs : step3 f params { w := { w with fn := fn1, f2 := fn1.fval }, p := [], lastVar := none } 0 v with ⟨lp1, e1⟩
  rw [hs] at s1 s2 s3 s4 hLI1
  simp only [] at s1 s2 s3 s4 hLI1
  subst s1
  have hloop : loopGo (step3 f params) w.vars 0 { w := { w with fn := fn1, f2 := fn1.fval }, p := [], lastVar := none }
      = (lp1, none) := by
    have : ∀ (vs : List Name) (X : Loop ℝ), vs = [v] → step3 f params X 0 v = (lp1, none) →
        loopGo (step3 f params) vs 0 X = (lp1, none) := by
      intro vs X hv hX; subst hv; unfold loopGo; rw [hX]; simp only []; unfold loopGo; rfl
    exact this _ _ hvars hs
  rw [hloop]
  simp only []
  have hcx' : lp1.w.cx = false := by rw [hLI1.2.2.2.1.cx]; exact hcx
  rw [hcx']
  simp only [Bool.false_eq_true, if_false]
  have hnl : ∀ p ∈ lp1.w.fn.params, p.con = none := hLI1.2.1.nocon hF.nocon
  obtain ⟨q1, q2, q3, _⟩ := finish_free f params lp1.lastVar lp1.w hnl hLI1.2.2.1
  refine ⟨q1, ?_, ?_⟩
  · rw [q2, s3]
  · rw [q3, s4, hval]

end Bpp.NumDeriv
