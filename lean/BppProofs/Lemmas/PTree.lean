/-
Rooted trees given by a parent function (`PTree`): ancestors, descendants, re-rooting at a son of the
root.  Pure theory, independent of the graph model; used by the C15 proofs.
-/
namespace Bpp.Graph

/-- `a` is an ancestor of `n` (a node is an ancestor of itself) for the parent function `par` -/
inductive IsAnc (par : Nat → Option Nat) : Nat → Nat → Prop
  | refl (n : Nat) : IsAnc par n n
  | step {a n p : Nat} : par n = some p → IsAnc par a p → IsAnc par a n

namespace IsAnc
variable {par : Nat → Option Nat}

theorem trans {a b c : Nat} (h1 : IsAnc par a b) (h2 : IsAnc par b c) : IsAnc par a c := by
  induction h2 with
  | refl => exact h1
  | step hp _ ih => exact .step hp ih

theorem of_par {n p : Nat} (h : par n = some p) : IsAnc par p n := .step h (.refl p)

/-- the ancestors of a node are linearly ordered -/
theorem linear {a b n : Nat} (h1 : IsAnc par a n) (h2 : IsAnc par b n) : IsAnc par a b ∨ IsAnc par b a := by
  induction h1 with
  | refl => exact .inr h2
  | step hp h1' ih =>
    cases h2 with
    | refl => exact .inl (.step hp h1')
    | step hp' h2' =>
      rw [hp] at hp'; cases hp'
      exact ih h2'

/-- a proper descendant is under a son -/
theorem under_son {n x : Nat} (h : IsAnc par n x) (hne : x ≠ n) : ∃ c, par c = some n ∧ IsAnc par c x := by
  induction h with
  | refl => exact absurd rfl hne
  | @step x p hp h' ih =>
    by_cases hpn : p = n
    · subst hpn; exact ⟨x, hp, .refl x⟩
    · obtain ⟨c, hc, hcx⟩ := ih hpn
      exact ⟨c, hc, .step hp hcx⟩

theorem cases_son {c n x : Nat} (hc : par c = some n) (h : IsAnc par x c) : x = c ∨ IsAnc par x n := by
  cases h with
  | refl => exact .inl rfl
  | step hp h' => rw [hc] at hp; cases hp; exact .inr h'

/-- a parent function that agrees with `par` on the proper descendants of `a` has the same ancestor
relation below `a` -/
theorem congr {par' : Nat → Option Nat} {a n : Nat} (h : IsAnc par a n)
    (hagree : ∀ x, IsAnc par a x → x ≠ a → par' x = par x) : IsAnc par' a n := by
  induction h with
  | refl => exact .refl _
  | @step x p hp h' ih =>
    by_cases hxa : x = a
    · subst hxa; exact .refl _
    · exact .step (by rw [hagree x (.step hp h') hxa]; exact hp) ih

end IsAnc

/-- a rooted tree on the nodes `nodes`: `par` is defined exactly on the nodes other than the root,
and `rank` is the depth -/
structure PTree where
  root : Nat
  nodes : List Nat
  par : Nat → Option Nat
  rank : Nat → Nat

namespace PTree

structure WF (P : PTree) : Prop where
  root_mem : P.root ∈ P.nodes
  par_root : P.par P.root = none
  rank_root : P.rank P.root = 0
  par_some : ∀ n ∈ P.nodes, n ≠ P.root → ∃ p, P.par n = some p ∧ p ∈ P.nodes ∧ P.rank n = P.rank p + 1
  par_out : ∀ n, n ∉ P.nodes → P.par n = none

variable {P : PTree}

theorem WF.par_mem (h : P.WF) {n p : Nat} (hp : P.par n = some p) : n ∈ P.nodes ∧ n ≠ P.root ∧ p ∈ P.nodes ∧ P.rank n = P.rank p + 1 := by
  have hn : n ∈ P.nodes := by
    refine Classical.byContradiction fun hn => ?_
    rw [h.par_out n hn] at hp; cases hp
  have hr : n ≠ P.root := by
    intro hr; subst hr; rw [h.par_root] at hp; cases hp
  obtain ⟨p', hp', hm, hk⟩ := h.par_some n hn hr
  rw [hp] at hp'; cases hp'
  exact ⟨hn, hr, hm, hk⟩

theorem WF.anc_rank (h : P.WF) {a n : Nat} (ha : IsAnc P.par a n) : P.rank a ≤ P.rank n := by
  induction ha with
  | refl => exact Nat.le_refl _
  | step hp _ ih => have := (h.par_mem hp).2.2.2; omega

theorem WF.anc_mem (h : P.WF) {a n : Nat} (ha : IsAnc P.par a n) (hn : n ∈ P.nodes) : a ∈ P.nodes := by
  induction ha with
  | refl => exact hn
  | step hp _ ih => exact ih (h.par_mem hp).2.2.1

theorem WF.anc_antisymm (h : P.WF) {a n : Nat} (h1 : IsAnc P.par a n) (h2 : IsAnc P.par n a) : a = n := by
  cases h1 with
  | refl => rfl
  | step hp h1' =>
    have := h.anc_rank h1'
    have := h.anc_rank h2
    have := (h.par_mem hp).2.2.2
    omega

/-- a son is not an ancestor of its father -/
theorem WF.son_not_anc (h : P.WF) {c n : Nat} (hc : P.par c = some n) : ¬ IsAnc P.par c n := by
  intro ha
  have := h.anc_rank ha
  have := (h.par_mem hc).2.2.2
  omega

/-- the subtrees of two different sons are disjoint -/
theorem WF.sons_disjoint (h : P.WF) {c1 c2 n x : Nat} (h1 : P.par c1 = some n) (h2 : P.par c2 = some n) (hne : c1 ≠ c2)
    (hx1 : IsAnc P.par c1 x) : ¬ IsAnc P.par c2 x := by
  intro hx2
  rcases IsAnc.linear hx1 hx2 with hl | hl
  · rcases IsAnc.cases_son h2 hl with he | hl'
    · exact hne he
    · exact h.son_not_anc h1 hl'
  · rcases IsAnc.cases_son h1 hl with he | hl'
    · exact hne he.symm
    · exact h.son_not_anc h2 hl'

/-- every node descends from the root -/
theorem WF.anc_root (h : P.WF) : ∀ (k n : Nat), P.rank n = k → n ∈ P.nodes → IsAnc P.par P.root n := by
  intro k
  induction k with
  | zero =>
    intro n hk hn
    by_cases hr : n = P.root
    · subst hr; exact .refl _
    · obtain ⟨p, _, _, hrk⟩ := h.par_some n hn hr; omega
  | succ k ih =>
    intro n hk hn
    by_cases hr : n = P.root
    · subst hr; exact .refl _
    · obtain ⟨p, hp, hm, hrk⟩ := h.par_some n hn hr
      exact .step hp (ih p (by omega) hm)

theorem WF.root_anc (h : P.WF) {n : Nat} (hn : n ∈ P.nodes) : IsAnc P.par P.root n := h.anc_root _ n rfl hn

/-- only the root is an ancestor of the root -/
theorem WF.anc_of_root (h : P.WF) {a : Nat} (ha : IsAnc P.par a P.root) : a = P.root := by
  cases ha with
  | refl => rfl
  | step hp _ => rw [h.par_root] at hp; cases hp

/-- the rank of a descendant exceeds the rank of the ancestor by the number of steps: in particular
an ancestor of the same rank is the node itself -/
theorem WF.anc_eq_of_rank (h : P.WF) {a n : Nat} (ha : IsAnc P.par a n) (hr : P.rank n ≤ P.rank a) : a = n := by
  cases ha with
  | refl => rfl
  | step hp ha' =>
    have := h.anc_rank ha'
    have := (h.par_mem hp).2.2.2
    omega

/-! ### re-rooting at a son of the root -/

open Classical in
/-- the same tree seen from `c`, a son of the root: the relation root - c is turned round -/
noncomputable def reroot (P : PTree) (c : Nat) : PTree :=
  { root := c
    nodes := P.nodes
    par := fun v => if v = P.root then some c else if v = c then none else P.par v
    rank := fun v => if IsAnc P.par c v then P.rank v - 1 else P.rank v + 1 }

theorem reroot_wf (h : P.WF) {c : Nat} (hc : P.par c = some P.root) : (P.reroot c).WF := by
  have hcm := h.par_mem hc
  have hcr : c ≠ P.root := hcm.2.1
  have hrank_c : P.rank c = 1 := by have := hcm.2.2.2; rw [h.rank_root] at this; omega
  have hroot_notdesc : ¬ IsAnc P.par c P.root := h.son_not_anc hc
  refine ⟨hcm.1, ?_, ?_, ?_, ?_⟩
  · simp [reroot, hcr]
  · simp [reroot, IsAnc.refl, hrank_c]
  · intro n hn hnc
    simp only [reroot] at hn hnc ⊢
    by_cases hnr : n = P.root
    · subst hnr
      refine ⟨c, by simp, hcm.1, ?_⟩
      simp [hroot_notdesc, IsAnc.refl, h.rank_root, hrank_c]
    · obtain ⟨p, hp, hpm, hrk⟩ := h.par_some n hn hnr
      refine ⟨p, by simp [hnr, hnc, hp], hpm, ?_⟩
      by_cases hd : IsAnc P.par c n
      · -- n is a proper descendant of c: so is its father, or the father is c
        have hdp : IsAnc P.par c p := by
          rcases IsAnc.cases_son hp (IsAnc.refl n) with _ | _
          · cases hd with
            | refl => exact absurd rfl hnc
            | step hp' hd' => rw [hp] at hp'; cases hp'; exact hd'
          · cases hd with
            | refl => exact absurd rfl hnc
            | step hp' hd' => rw [hp] at hp'; cases hp'; exact hd'
        have := h.anc_rank hdp
        simp only [hd, hdp, if_true]
        omega
      · have hdp : ¬ IsAnc P.par c p := fun hdp => hd (.step hp hdp)
        simp only [hd, hdp, if_false]
        omega
  · intro n hn
    simp only [reroot] at hn ⊢
    have hnr : n ≠ P.root := fun e => hn (e ▸ h.root_mem)
    have hnc : n ≠ c := fun e => hn (e ▸ hcm.1)
    simp [hnr, hnc, h.par_out n hn]

theorem reroot_par_other (c v : Nat) (h1 : v ≠ P.root) (h2 : v ≠ c) : (P.reroot c).par v = P.par v := by
  simp [reroot, h1, h2]

theorem reroot_par_root (c : Nat) : (P.reroot c).par P.root = some c := by simp [reroot]

theorem reroot_par_new (h : P.WF) {c : Nat} (hc : P.par c = some P.root) : (P.reroot c).par c = none := by
  have hcr : c ≠ P.root := (h.par_mem hc).2.1
  simp [reroot, hcr]

/-- father-and-son pairs, whichever way round: unchanged by re-rooting -/
def ULinked (P : PTree) (a b : Nat) : Prop := P.par a = some b ∨ P.par b = some a

theorem reroot_ulinked (h : P.WF) {c : Nat} (hc : P.par c = some P.root) (a b : Nat) :
    (P.reroot c).ULinked a b ↔ P.ULinked a b := by
  have hcr : c ≠ P.root := (h.par_mem hc).2.1
  unfold ULinked
  simp only [reroot]
  by_cases har : a = P.root <;> by_cases hbr : b = P.root <;> by_cases hac : a = c <;> by_cases hbc : b = c <;>
    simp_all [h.par_root] <;> (try omega)
  all_goals (first | (constructor <;> intro hh <;> simp_all) | skip)

end PTree
end Bpp.Graph
