import BppProofs.Lemmas.TextU
import BppModel.Text.AttrU
/-! Helper lemmas for C16: TextTools, FileTools path helpers, IntervalConstraint::readDescription. -/
namespace Bpp.Text.U
open Bpp.Text

/-- equality of outcomes is decidable (for the concrete instances proved by `decide`) -/
instance ttDecEqR {α : Type} [DecidableEq α] : DecidableEq (R α) := fun a b =>
  match a, b with
  | .ok x, .ok y =>
    if h : x = y then isTrue (by rw [h]) else isFalse (by intro h'; cases h'; exact h rfl)
  | .error x, .error y =>
    if h : x = y then isTrue (by rw [h]) else isFalse (by intro h'; cases h'; exact h rfl)
  | .ok _, .error _ => isFalse (by intro h; cases h)
  | .error _, .ok _ => isFalse (by intro h; cases h)

/-! ### pure functions: output sizes -/

theorem dropWhile_length_le {α : Type} (p : α → Bool) (l : List α) : (l.dropWhile p).length ≤ l.length := by
  induction l with
  | nil => simp
  | cons a l ih =>
    simp only [List.dropWhile]
    split
    · simp only [List.length_cons]; omega
    · simp

theorem removeFirstWS_le (s : Str) : (removeFirstWS s).length ≤ s.length := dropWhile_length_le _ _

theorem removeLastWS_le (s : Str) : (removeLastWS s).length ≤ s.length := by
  unfold removeLastWS
  have := dropWhile_length_le isSpace s.reverse
  simpa using this

theorem trim_le (s : Str) : (trim s).length ≤ s.length := by
  unfold trim
  exact Nat.le_trans (removeLastWS_le _) (removeFirstWS_le _)

theorem replaceGo_le (q r : Str) (k : Nat) (s : Str) :
    (replaceGo q r k s).length ≤ s.length + s.length * r.length := by
  induction s generalizing k with
  | nil => simp [replaceGo]
  | cons c s ih =>
    cases k with
    | succ k =>
      simp only [replaceGo, List.length_cons]
      have := ih k
      have h2 : s.length * r.length ≤ (s.length + 1) * r.length := Nat.mul_le_mul_right _ (by omega)
      omega
    | zero =>
      simp only [replaceGo]
      split
      · simp only [List.length_append, List.length_cons]
        have := ih (q.length - 1)
        have h2 : (s.length + 1) * r.length = s.length * r.length + r.length := by
          rw [Nat.add_mul]; simp
        omega
      · simp only [List.length_cons]
        have := ih 0
        have h2 : s.length * r.length ≤ (s.length + 1) * r.length := Nat.mul_le_mul_right _ (by omega)
        omega

/-! ### removeSubstrings (3 arguments) -/

theorem removeSubstrings3_safe' (b e : Char) (s : Str) (d : Nat) : safe (removeSubstrings3 b e d s) = true := by
  induction s generalizing d with
  | nil => simp [removeSubstrings3]
  | cons c s ih =>
    simp only [removeSubstrings3]
    split
    · exact ih _
    · split
      · split
        · rfl
        · exact ih _
      · split
        · exact safe_exmap (ih _)
        · exact ih _

theorem removeSubstrings3_le (b e : Char) (s : Str) (d : Nat) (r : Str)
    (h : removeSubstrings3 b e d s = .ok r) : r.length ≤ s.length := by
  induction s generalizing d r with
  | nil => simp [removeSubstrings3] at h; subst h; simp
  | cons c s ih =>
    simp only [removeSubstrings3] at h
    split at h
    · have := ih _ _ h; simp only [List.length_cons]; omega
    · split at h
      · split at h
        · cases h
        · have := ih _ _ h; simp only [List.length_cons]; omega
      · split at h
        · cases h' : removeSubstrings3 b e d s with
          | error err => simp [h', Except.map] at h
          | ok r' =>
            simp only [h', Except.map, Except.ok.injEq] at h
            subst h
            have := ih _ _ h'
            simp only [List.length_cons]; omega
        · have := ih _ _ h; simp only [List.length_cons]; omega


/-! ### split -/

theorem splitLoop_ok (s : Str) (n : Nat) (hs : StrOk s) (k i : Nat) (h : (i + k) * n ≤ s.length) :
    ∃ v, splitLoop s n k i = .ok v ∧ v.length = k ∧ sumLen v = k * n := by
  induction k generalizing i with
  | zero => exact ⟨[], rfl, rfl, by simp⟩
  | succ k ih =>
    have e1 : (i + 1) * n = i * n + n := Nat.succ_mul i n
    have h1 : (i + 1) * n ≤ (i + (k + 1)) * n := Nat.mul_le_mul_right _ (by omega)
    have h2 : (i + 1 + k) * n ≤ s.length := by
      have : i + 1 + k = i + (k + 1) := by omega
      rw [this]; exact h
    obtain ⟨v, hv, hl, hsum⟩ := ih (i + 1) h2
    have hm := maxStr_lt
    unfold StrOk at hs
    have hsz : SZ = 18446744073709551616 := rfl
    simp only [splitLoop]
    rw [wmul_eq (by omega), wmul_eq (by omega), toPtrdiff_eq (by omega), toPtrdiff_eq (by omega)]
    rw [range_ok (by omega) (by omega) (by omega), hv]
    refine ⟨_, rfl, by simp [hl], ?_⟩
    simp only [sumLen_cons, hsum, Int.toNat_natCast, List.length_take, List.length_drop]
    have e2 : (k + 1) * n = k * n + n := Nat.succ_mul k n
    omega

theorem split_eq (s : Str) (n : Nat) (hn : ¬ n = 0) : split s n = (splitLoop s n (s.length / n) 0 >>= fun v =>
    if v.length < wsub (wadd s.length n) 1 / n then
      (range s (toPtrdiff (wmul v.length n)) s.length >>= fun last => pure (v ++ [last])) else pure v) := by
  unfold split
  rw [if_neg hn]

theorem split_safe' (s : Str) (n : Nat) (hs : StrOk s) : safe (split s n) = true := by
  by_cases hn : n = 0
  · simp [split, hn]
  · have hdiv : (0 + s.length / n) * n ≤ s.length := by simpa using Nat.div_mul_le_self s.length n
    obtain ⟨v, hv, hl, _⟩ := splitLoop_ok s n hs (s.length / n) 0 hdiv
    have hm := maxStr_lt
    have hs' := hs
    unfold StrOk at hs'
    have hsz : SZ = 18446744073709551616 := rfl
    have hd : s.length / n * n ≤ s.length := Nat.div_mul_le_self s.length n
    rw [split_eq s n hn, hv, bind_ok]
    split
    · rw [hl, wmul_eq (by omega), toPtrdiff_eq (by omega), range_ok (by omega) (by omega) (by omega)]; rfl
    · rfl

theorem split_alloc' (s : Str) (n : Nat) (hs : StrOk s) (v : List Str) (h : split s n = .ok v) :
    sumLen v ≤ s.length ∧ v.length ≤ s.length + 1 := by
  by_cases hn : n = 0
  · simp [split, hn] at h
  · have hdiv : (0 + s.length / n) * n ≤ s.length := by simpa using Nat.div_mul_le_self s.length n
    obtain ⟨v0, hv, hl, hsum⟩ := splitLoop_ok s n hs (s.length / n) 0 hdiv
    have hm := maxStr_lt
    have hs' := hs
    unfold StrOk at hs'
    have hsz : SZ = 18446744073709551616 := rfl
    have hd : s.length / n * n ≤ s.length := Nat.div_mul_le_self s.length n
    have hle : s.length / n ≤ s.length := Nat.div_le_self _ _
    rw [split_eq s n hn, hv, bind_ok] at h
    split at h
    · rw [hl, wmul_eq (by omega), toPtrdiff_eq (by omega), range_ok (by omega) (by omega) (by omega), bind_ok] at h
      cases h
      simp only [sumLen_append, sumLen_cons, sumLen_nil, hsum, List.length_append, hl, List.length_cons,
        List.length_nil, Int.toNat_natCast, List.length_take, List.length_drop]
      omega
    · cases h
      simp only [hsum, hl]; omega

/-! ### removeSubstrings (5 arguments) -/

theorem foldlM_inv {σ α : Type} (f : σ → α → R σ) (l : List α) (Inv : Nat → σ → Prop) (st : σ) (h0 : Inv 0 st)
    (hstep : ∀ k (hk : k < l.length) st, Inv k st → safe (f st l[k]) = true ∧ ∀ st', f st l[k] = .ok st' → Inv (k + 1) st') :
    safe (l.foldlM f st) = true ∧ ∀ st', l.foldlM f st = .ok st' → Inv l.length st' := by
  induction l generalizing Inv st with
  | nil => simp only [List.foldlM_nil, List.length_nil]; exact ⟨rfl, fun st' h => by cases h; exact h0⟩
  | cons a l ih =>
    simp only [List.foldlM_cons, List.length_cons]
    obtain ⟨hs, hn⟩ := hstep 0 (by simp) st h0
    simp only [List.getElem_cons_zero] at hs hn
    have key : ∀ st1, f st a = .ok st1 →
        safe (l.foldlM f st1) = true ∧ ∀ st', l.foldlM f st1 = .ok st' → Inv (l.length + 1) st' := by
      intro st1 h1
      exact ih (fun k => Inv (k + 1)) st1 (hn st1 h1) (fun k hk st hi => by
        have := hstep (k + 1) (by simp; omega) st hi
        simpa using this)
    refine ⟨safe_bind hs (fun st1 h1 => (key st1 h1).1), ?_⟩
    intro st' h
    obtain ⟨st1, h1, h2⟩ := bind_eq_ok h
    exact (key st1 h1).2 st' h2

theorem exceptHit_ok (s : Str) (mark : Char) (i : Nat) (hi : i < s.length) (hs : s.length < SZ) (xs : List Str) :
    ∃ b, exceptHit true s mark i xs = .ok b := by
  induction xs with
  | nil => exact ⟨false, rfl⟩
  | cons x xs ih =>
    simp only [exceptHit]
    split
    · exact ih
    · rename_i pos hpos
      split
      · exact ih
      · rename_i hg
        simp only [Bool.true_and, Bool.not_eq_true', decide_eq_false_iff_not, Decidable.not_not] at hg
        split
        · rw [wsub_eq hg (by omega), substr_ok _ (by omega), bind_ok]
          split
          · exact ⟨true, rfl⟩
          · exact ih
        · exact ih



def Rm5Inv (L : Nat) (i : Nat) (st : Rm5) : Prop :=
  st.begPos ≤ i ∧ 0 ≤ st.blockCount ∧ st.blockCount ≤ (i : Int) ∧ st.t.length ≤ i * L

theorem rm5Step_inv (s : Str) (b e : Char) (xb xe : List Str) (hL : s.length < 2147483648) (i : Nat) (hi : i < s.length)
    (st : Rm5) (hinv : Rm5Inv s.length i st) :
    safe (rm5Step true s b e xb xe st i) = true ∧
      ∀ st', rm5Step true s b e xb xe st i = .ok st' → Rm5Inv s.length (i + 1) st' := by
  obtain ⟨h1, h2, h3, h4⟩ := hinv
  have hsz : SZ = 18446744073709551616 := rfl
  have hmul : (i + 1) * s.length = i * s.length + s.length := Nat.succ_mul _ _
  have himax : intMax = 2147483647 := rfl
  have himin : intMin = -2147483648 := rfl
  unfold rm5Step
  rw [strAt_ok hi, bind_ok]
  split
  · obtain ⟨ex, hex⟩ := exceptHit_ok s b i hi (by omega) xb
    rw [hex, bind_ok]
    split
    · rw [intRes_ok (by omega) (by omega), bind_ok, wsub_eq h1 (by omega), substr_ok _ (by omega), bind_ok]
      refine ⟨rfl, ?_⟩
      intro st' h; cases h
      refine ⟨by simp; omega, by simp; omega, by simp; omega, ?_⟩
      simp only [List.length_append, List.length_take, List.length_drop]
      omega
    · refine ⟨rfl, ?_⟩
      intro st' h; cases h
      exact ⟨by omega, h2, by omega, by omega⟩
  · split
    · rename_i hcond
      simp only [Bool.and_eq_true, decide_eq_true_eq] at hcond
      obtain ⟨ex, hex⟩ := exceptHit_ok s e i hi (by omega) xe
      rw [hex, bind_ok, intRes_ok (by omega) (by omega), bind_ok]
      split
      · refine ⟨rfl, ?_⟩
        intro st' h; cases h
        rename_i hz
        simp only [beq_iff_eq] at hz
        exact ⟨by simp, by simp [hz], by simp [hz]; omega, by simp; omega⟩
      · split
        · exact ⟨rfl, fun st' h => by cases h⟩
        · refine ⟨rfl, ?_⟩
          intro st' h; cases h
          exact ⟨by simp; omega, by simp; omega, by simp; omega, by simp; omega⟩
    · refine ⟨rfl, ?_⟩
      intro st' h; cases h
      exact ⟨by omega, h2, by omega, by omega⟩

theorem removeSubstrings5_spec (s : Str) (b e : Char) (xb xe : List Str) (hL : s.length < 2147483648) :
    safe (removeSubstrings5 s b e xb xe) = true ∧
      ∀ r, removeSubstrings5 s b e xb xe = .ok r → r.length ≤ (s.length + 1) * (s.length + 1) := by
  have key := foldlM_inv (rm5Step true s b e xb xe) (List.range s.length) (Rm5Inv s.length)
    { t := [], blockCount := 0, begPos := 0 } ⟨by simp, by simp, by simp, by simp⟩
    (fun k hk st hinv => by
      simp only [List.length_range] at hk
      simpa using rm5Step_inv s b e xb xe hL k hk st hinv)
  simp only [List.length_range] at key
  obtain ⟨ks, kinv⟩ := key
  unfold removeSubstrings5 removeSubstrings5G
  constructor
  · refine safe_bind ks (fun st hst => ?_)
    obtain ⟨h1, _, _, _⟩ := kinv st hst
    rw [substrFrom_ok h1]; rfl
  · intro r hr
    obtain ⟨st, hst, h2⟩ := bind_eq_ok hr
    obtain ⟨h1, _, _, h4⟩ := kinv st hst
    rw [substrFrom_ok h1, bind_ok] at h2
    cases h2
    simp only [List.length_append, List.length_drop]
    have : (s.length + 1) * (s.length + 1) = s.length * s.length + s.length + s.length + 1 := by
      rw [Nat.add_mul, Nat.mul_add]; omega
    omega

/-! ### fixed width, path helpers, interval description -/

theorem toPtrdiff_npos : toPtrdiff npos = -1 := by decide
theorem wadd_npos_one : wadd npos 1 = 0 := by decide

theorem resizeRight_spec (s : Str) (n : Nat) (f : Char) (hn : n ≤ maxStr) :
    ∃ r, resizeRight s n f = .ok r ∧ r.length = n := by
  unfold resizeRight
  rw [if_neg (by omega)]
  split
  · exact ⟨_, rfl, by simp; omega⟩
  · exact ⟨_, rfl, by simp; omega⟩

theorem resizeLeft_spec (s : Str) (n : Nat) (f : Char) (hs : StrOk s) (hn : n ≤ maxStr) :
    ∃ r, resizeLeft s n f = .ok r ∧ r.length = n := by
  unfold resizeLeft
  rw [if_neg (by omega)]
  have hm := maxStr_lt
  unfold StrOk at hs
  have hsz : SZ = 18446744073709551616 := rfl
  split
  · exact ⟨_, rfl, by simp; omega⟩
  · rw [wsub_eq (by omega) (by omega), toPtrdiff_eq (by omega), range_ok (by omega) (by omega) (by omega)]
    exact ⟨_, rfl, by simp; omega⟩

theorem getFileName_spec (p : Str) (c : Char) (hp : StrOk p) :
    ∃ r, getFileName p c = .ok r ∧ r.length ≤ p.length := by
  have hm := maxStr_lt
  unfold StrOk at hp
  have hsz : SZ = 18446744073709551616 := rfl
  have hbg : ∃ bg : Nat, toPtrdiff (wadd (toSz (findLastOf [c] p)) 1) = (bg : Int) ∧ bg ≤ p.length := by
    cases hb : findLastOf [c] p with
    | none => exact ⟨0, by simp [toSz, wadd_npos_one, toPtrdiff], by omega⟩
    | some k =>
      have := findLastOf_lt hb
      simp only [toSz]
      rw [wadd_eq (by omega), toPtrdiff_eq (by omega)]
      exact ⟨k + 1, rfl, by omega⟩
  obtain ⟨bg, hbg, hbl⟩ := hbg
  unfold getFileName
  cases he : findLastOf ['.'] p with
  | none =>
    have hnone : toPtrdiff (toSz (none : Option Nat)) = -1 := toPtrdiff_npos
    simp only [hnone, hbg]
    rw [if_pos (by omega)]
    exact ⟨[], rfl, by simp⟩
  | some e =>
    have hel := findLastOf_lt he
    have hen : toPtrdiff (toSz (some e)) = (e : Int) := by
      simp only [toSz]; exact toPtrdiff_eq (by omega)
    simp only [hen, hbg]
    split
    · exact ⟨[], rfl, by simp⟩
    · rename_i hgt
      rw [eraseRange_ok (by omega) (by omega) (by omega), bind_ok]
      rw [eraseRange_ok (by omega) (by omega) (by simp; omega)]
      exact ⟨_, rfl, by simp; omega⟩

theorem getParent_spec (p : Str) (c : Char) (hp : StrOk p) :
    ∃ r, getParent p c = .ok r ∧ r.length ≤ p.length := by
  unfold getParent getParentG
  cases h : findLastOf [c] p with
  | none => exact ⟨[], by simp, by simp⟩
  | some k =>
    have := findLastOf_lt h
    have hm := maxStr_lt
    unfold StrOk at hp
    simp only [Option.isNone_some, Bool.and_false, toSz]
    rw [toPtrdiff_eq (by omega), eraseRange_ok (by omega) (by omega) (by omega)]
    exact ⟨_, rfl, by simp; omega⟩

theorem getExtension_spec (p : Str) : ∃ r, getExtension p = .ok r ∧ r.length ≤ p.length := by
  unfold getExtension
  cases h : findLastOf ['.'] p with
  | none =>
    simp only [toSz, wadd_npos_one]
    exact ⟨_, substrFrom_ok (by omega), by simp⟩
  | some k =>
    have := findLastOf_lt h
    have h2 := wadd_le k 1
    simp only [toSz]
    exact ⟨_, substrFrom_ok (by omega), by simp⟩

theorem boundOk_safe (l : Bool) (t : Str) : safe (boundOk l t) = true := by
  unfold boundOk toDoubleClass
  split <;> split <;> (try rfl) <;> split <;> rfl

theorem readDescription_safe' (desc : Str) : safe (readDescription desc) = true := by
  unfold readDescription
  simp only
  cases hdc : findFirstOf ['[', ']'] desc 1 with
  | none => rfl
  | some dc =>
    cases hp : findFrom [';'] desc 0 with
    | none => rfl
    | some pdp =>
      obtain ⟨hd1, hd2⟩ := findFirstOf_bounds hdc
      simp only
      rw [strAt_ok (by omega), bind_ok]
      split
      · rfl
      · rename_i hcond
        simp only [Bool.or_eq_true, decide_eq_true_eq, not_or, Nat.not_le] at hcond
        have h1 := wadd_le pdp 1
        rw [substr_ok _ (by omega), bind_ok, substr_ok _ (by omega), bind_ok, strAt_ok (by omega), bind_ok]
        refine safe_bind (boundOk_safe _ _) (fun _ _ => ?_)
        refine safe_bind (boundOk_safe _ _) (fun _ _ => ?_)
        rfl

end Bpp.Text.U
