import BppModel.ParamShared
import BppProofs.Lemmas.Param
/-!
Helper lemmas for the pointer model of `Parameter` (BppModel/ParamShared.lean): well-formedness of
the heap, the simulation of the by-value model, what an in-place mutation does to the views.
-/
namespace Bpp
open ScalarReal

namespace SWorld

/-- cells at or above `size` are free, and every pointer held by a parameter is live -/
def WF (w : SWorld ℝ) : Prop :=
  (∀ i, w.size ≤ i → w.heap i = none) ∧ (∀ k p, w.ps k = some p → w.validRef p.cref = true)

theorem wf_empty : (SWorld.empty : SWorld ℝ).WF := by
  refine ⟨fun _ _ => rfl, ?_⟩
  intro k p h; cases h

@[simp] theorem view_setP (w : SWorld ℝ) (k : Nat) (p q : SParam ℝ) : (w.setP k p).view q = w.view q := rfl

theorem viewStore_setP (w : SWorld ℝ) (k : Nat) (p : SParam ℝ) :
    (w.setP k p).viewStore = w.viewStore.set k (w.view p) := by
  funext i
  have hv : (w.setP k p).view = w.view := rfl
  unfold viewStore PStore.set
  rw [hv]
  by_cases h : i = k
  · simp [setP, h]
  · simp [setP, h]

theorem viewStore_apply (w : SWorld ℝ) (k : Nat) : w.viewStore k = (w.ps k).map w.view := rfl

/-- two worlds whose heaps agree on the cell a parameter points to give the same view -/
theorem view_congr {w w' : SWorld ℝ} (p : SParam ℝ) (h : ∀ a, p.cref = some a → w'.heap a = w.heap a) :
    w'.view p = w.view p := by
  unfold view deref
  cases hc : p.cref with
  | none => rfl
  | some a => simp [Option.bind, h a hc]

theorem wf_setP {w : SWorld ℝ} (hw : w.WF) (k : Nat) (p : SParam ℝ) (hp : w.validRef p.cref = true) : (w.setP k p).WF := by
  refine ⟨hw.1, ?_⟩
  intro i q hq
  unfold setP at hq
  simp only at hq
  split_ifs at hq
  · cases hq; exact hp
  · exact hw.2 i q hq

end SWorld

namespace SOp
open SWorld

/-- **simulation**: a call on a parameter does to the views exactly what the by-value call does to
them (same outcome, same new store), and leaves the heap alone -/
theorem sim_step (w : SWorld ℝ) (op : SOp ℝ) (e : POp ℝ) (he : op.erase w = some e) (hr : op.refsOk w = true) :
    (SOp.step w op).1.viewStore = (POp.step w.viewStore e).1 ∧ (SOp.step w op).2 = (POp.step w.viewStore e).2 ∧
    (SOp.step w op).1.heap = w.heap ∧ (SOp.step w op).1.size = w.size := by
  cases op with
  | alloc c => cases he
  | mutate a m => cases he
  | construct k a v r prec =>
    cases he
    simp only [refsOk] at hr
    simp only [SOp.step, hr, Bool.not_true, Bool.false_eq_true, if_false, POp.step]
    cases hres : Param.construct v (w.deref r) prec a with
    | error e' => exact ⟨rfl, rfl, rfl, rfl⟩
    | ok q =>
      obtain ⟨_, _, _, hc, _⟩ := Param.construct_ok hres
      refine ⟨?_, rfl, rfl, rfl⟩
      rw [viewStore_setP]
      congr 1
      show (⟨q.value, q.precision, w.deref r, q.auto⟩ : Param ℝ) = q
      rw [← hc]
  | copy s d =>
    cases he
    simp only [SOp.step, POp.step, viewStore_apply]
    cases hs : w.ps s with
    | none => exact ⟨rfl, rfl, rfl, rfl⟩
    | some p => exact ⟨by rw [viewStore_setP]; rfl, rfl, rfl, rfl⟩
  | toAuto s d =>
    cases he
    simp only [SOp.step, POp.step, viewStore_apply]
    cases hs : w.ps s with
    | none => exact ⟨rfl, rfl, rfl, rfl⟩
    | some p => exact ⟨by rw [viewStore_setP]; rfl, rfl, rfl, rfl⟩
  | toPlain s d =>
    cases he
    simp only [SOp.step, POp.step, viewStore_apply]
    cases hs : w.ps s with
    | none => exact ⟨rfl, rfl, rfl, rfl⟩
    | some p => exact ⟨by rw [viewStore_setP]; rfl, rfl, rfl, rfl⟩
  | assign s d =>
    cases he
    simp only [SOp.step, POp.step, viewStore_apply]
    cases hs : w.ps s with
    | none => exact ⟨rfl, rfl, rfl, rfl⟩
    | some p =>
      cases hd : w.ps d with
      | none => exact ⟨rfl, rfl, rfl, rfl⟩
      | some q => exact ⟨by rw [viewStore_setP]; rfl, rfl, rfl, rfl⟩
  | setValue k v =>
    cases he
    simp only [SOp.step, POp.step, viewStore_apply]
    cases hs : w.ps k with
    | none => exact ⟨rfl, rfl, rfl, rfl⟩
    | some p =>
      simp only [Option.map]
      cases hres : (w.view p).setValue v with
      | error e' => exact ⟨rfl, rfl, rfl, rfl⟩
      | ok q =>
        refine ⟨?_, rfl, rfl, rfl⟩
        rw [viewStore_setP]
        congr 1
        have hc : q.constraint = (w.view p).constraint := by
          unfold Param.setValue at hres
          split_ifs at hres
          · exact (Param.sva_fields hres).1
          · exact (Param.svb_fields hres).1
        show (⟨q.value, q.precision, w.deref p.cref, q.auto⟩ : Param ℝ) = q
        have : w.deref p.cref = q.constraint := hc.symm
        rw [this]
  | setPrecision k x =>
    cases he
    simp only [SOp.step, POp.step, viewStore_apply]
    cases hs : w.ps k with
    | none => exact ⟨rfl, rfl, rfl, rfl⟩
    | some p => exact ⟨by rw [viewStore_setP]; rfl, rfl, rfl, rfl⟩
  | setConstraint k r =>
    cases he
    simp only [refsOk] at hr
    simp only [SOp.step, hr, Bool.not_true, Bool.false_eq_true, if_false, POp.step, viewStore_apply]
    cases hs : w.ps k with
    | none => exact ⟨rfl, rfl, rfl, rfl⟩
    | some p =>
      simp only [Option.map]
      cases hres : (w.view p).setConstraint (w.deref r) with
      | error e' => exact ⟨rfl, rfl, rfl, rfl⟩
      | ok q =>
        obtain ⟨hq, _⟩ := Param.setConstraint_ok hres
        refine ⟨?_, rfl, rfl, rfl⟩
        rw [viewStore_setP, hq]
        rfl
  | removeConstraint k =>
    cases he
    simp only [SOp.step, POp.step, viewStore_apply]
    cases hs : w.ps k with
    | none => exact ⟨rfl, rfl, rfl, rfl⟩
    | some p => exact ⟨by rw [viewStore_setP]; rfl, rfl, rfl, rfl⟩

/-- a new constraint object changes no parameter's view -/
theorem alloc_viewStore (w : SWorld ℝ) (hw : w.WF) (c : Interval ℝ) :
    (SOp.step w (.alloc c)).1.viewStore = w.viewStore := by
  funext k
  simp only [SOp.step, viewStore_apply]
  cases hs : w.ps k with
  | none => rfl
  | some p =>
    simp only [Option.map]
    congr 1
    apply view_congr
    intro a ha
    have hv := hw.2 k p hs
    rw [ha] at hv
    simp only [validRef] at hv
    have : a ≠ w.size := by
      intro h; rw [h, hw.1 w.size (le_refl _)] at hv; cases hv
    simp [this]

/-- well-formedness is kept by every call -/
theorem wf_step (w : SWorld ℝ) (hw : w.WF) (op : SOp ℝ) : (SOp.step w op).1.WF := by
  cases op with
  | alloc c =>
    simp only [SOp.step]
    refine ⟨?_, ?_⟩
    · intro i hi
      have h1 : i ≠ w.size := by simp only at hi; omega
      simp only [h1, if_false]
      exact hw.1 i (by simp only at hi; omega)
    · intro k p hp
      have hv := hw.2 k p hp
      unfold validRef at hv ⊢
      cases hc : p.cref with
      | none => rfl
      | some a =>
        rw [hc] at hv
        simp only at hv ⊢
        by_cases h : a = w.size
        · simp [h]
        · simp [h, hv]
  | mutate a m =>
    simp only [SOp.step]
    cases ha : w.heap a with
    | none => exact hw
    | some c =>
      refine ⟨?_, ?_⟩
      · intro i hi
        have : i ≠ a := by
          intro h; rw [h] at hi; rw [hw.1 a hi] at ha; cases ha
        simp only [this, if_false]
        exact hw.1 i hi
      · intro k p hp
        have hv := hw.2 k p hp
        unfold validRef at hv ⊢
        cases hc : p.cref with
        | none => rfl
        | some b =>
          rw [hc] at hv
          simp only at hv ⊢
          by_cases h : b = a
          · simp [h]
          · simp [h, hv]
  | construct k a v r prec =>
    simp only [SOp.step]
    cases hr : w.validRef r with
    | false => exact hw
    | true =>
      simp only [Bool.not_true, Bool.false_eq_true, if_false]
      cases Param.construct v (w.deref r) prec a with
      | error e => exact hw
      | ok q => exact wf_setP hw k _ hr
  | copy s d =>
    simp only [SOp.step]
    cases hs : w.ps s with
    | none => exact hw
    | some p => exact wf_setP hw d p (hw.2 s p hs)
  | toAuto s d =>
    simp only [SOp.step]
    cases hs : w.ps s with
    | none => exact hw
    | some p => exact wf_setP hw d _ (hw.2 s p hs)
  | toPlain s d =>
    simp only [SOp.step]
    cases hs : w.ps s with
    | none => exact hw
    | some p => exact wf_setP hw d _ (hw.2 s p hs)
  | assign s d =>
    simp only [SOp.step]
    cases hs : w.ps s with
    | none => exact hw
    | some p =>
      cases hd : w.ps d with
      | none => exact hw
      | some q => exact wf_setP hw d _ (hw.2 s p hs)
  | setValue k v =>
    simp only [SOp.step]
    cases hs : w.ps k with
    | none => exact hw
    | some p =>
      simp only
      cases (w.view p).setValue v with
      | error e => exact hw
      | ok q => exact wf_setP hw k _ (hw.2 k p hs)
  | setPrecision k x =>
    simp only [SOp.step]
    cases hs : w.ps k with
    | none => exact hw
    | some p => exact wf_setP hw k _ (hw.2 k p hs)
  | setConstraint k r =>
    simp only [SOp.step]
    cases hr : w.validRef r with
    | false => exact hw
    | true =>
      simp only [Bool.not_true, Bool.false_eq_true, if_false]
      cases hs : w.ps k with
      | none => exact hw
      | some p =>
        simp only
        cases (w.view p).setConstraint (w.deref r) with
        | error e => exact hw
        | ok q => exact wf_setP hw k _ hr
  | removeConstraint k =>
    simp only [SOp.step]
    cases hs : w.ps k with
    | none => exact hw
    | some p => exact wf_setP hw k _ rfl

/-- what an in-place mutation of the object at `a` does to a parameter's view: nothing if the
parameter points elsewhere, the new interval if it points to `a` -/
theorem mutate_view (w : SWorld ℝ) (a : CRef) (m : CMut ℝ) (c : Interval ℝ) (hc : w.heap a = some c) (p : SParam ℝ) :
    (SOp.step w (.mutate a m)).1.view p =
      if p.cref = some a then { w.view p with constraint := some (m.apply c) } else w.view p := by
  simp only [SOp.step, hc]
  unfold view deref
  cases hp : p.cref with
  | none => simp
  | some b =>
    by_cases h : b = a
    · subst h; simp [Option.bind]
    · simp [Option.bind, h]

theorem mutate_ps (w : SWorld ℝ) (a : CRef) (m : CMut ℝ) : (SOp.step w (.mutate a m)).1.ps = w.ps := by
  simp only [SOp.step]
  cases w.heap a <;> rfl

end SOp
end Bpp
