import BppProofs.Lemmas.NumDerivEntry
/-!
C12 helper lemmas, part 4: invariants of the wrapped function that hold whatever the wrapper does
with it (any list, duplicates or not, any precision, exceptions or not): the skeleton (names,
precisions, constraints) never changes, the cached value is the value at the current point, the
current point and every point at which `f` was evaluated satisfy the constraints.
-/
namespace Bpp.NumDeriv
open Bpp Bpp.Scalar

def Skel (l ref : PList ℝ) : Prop := List.Forall₂ SameSkel l ref
/-- every parameter satisfies its own constraint -/
def Feas (l : PList ℝ) : Prop := ∀ p ∈ l, p.violates p.value = false
/-- the point `pt` satisfies the constraints of `ref`, coordinate by coordinate -/
def PtOK (ref : PList ℝ) (pt : List ℝ) : Prop := List.Forall₂ (fun b x => b.violates x = false) ref pt

theorem Skel.refl (l : PList ℝ) : Skel l l := by
  unfold Skel
  induction l with
  | nil => exact List.Forall₂.nil
  | cons a r ih => exact List.Forall₂.cons (SameSkel.rfl' a) ih

theorem Skel.trans {a b c : PList ℝ} (h1 : Skel a b) (h2 : Skel b c) : Skel a c := by
  unfold Skel at *
  induction h1 generalizing c with
  | nil => cases h2; exact List.Forall₂.nil
  | @cons x y l1 l2 hxy _ ih =>
    cases h2 with
    | @cons _ z _ l3 hyz h2' =>
      exact List.Forall₂.cons ⟨hxy.1.trans hyz.1, hxy.2.1.trans hyz.2.1, hxy.2.2.trans hyz.2.2⟩ (ih h2')

theorem violates_skel {p b : Param ℝ} (h : SameSkel p b) (x : ℝ) : p.violates x = b.violates x := by
  unfold Param.violates; rw [h.2.2]

theorem Skel.names {l ref : PList ℝ} (h : Skel l ref) : names l = names ref := by
  unfold Skel at h
  induction h with
  | nil => rfl
  | @cons a b l' B' hab _ ih =>
    show (a :: l').map (·.name) = (b :: B').map (·.name)
    rw [List.map_cons, List.map_cons, hab.1]
    exact congrArg _ ih

theorem Skel.Z {l ref : PList ℝ} (h : Skel l ref) (hz : Z ref) : Z l := by
  unfold Skel at h
  induction h with
  | nil => intro p hp; cases hp
  | @cons a b l' B' hab _ ih =>
    intro p hp
    rcases List.mem_cons.mp hp with rfl | hp'
    · rw [hab.2.1]; exact hz b (List.mem_cons_self ..)
    · exact ih (fun q hq => hz q (List.mem_cons_of_mem _ hq)) p hp'

theorem ptOK_values {l ref : PList ℝ} (hs : Skel l ref) (hf : Feas l) : PtOK ref (values l) := by
  unfold Skel at hs
  unfold PtOK values
  induction hs with
  | nil => exact List.Forall₂.nil
  | @cons a b l' B' hab _ ih =>
    rw [List.map_cons]
    refine List.Forall₂.cons ?_ (ih (fun p hp => hf p (List.mem_cons_of_mem _ hp)))
    rw [← violates_skel hab]; exact hf a (List.mem_cons_self ..)

/-- `find?` through a skeleton-preserving change -/
theorem find?_skel {l ref : PList ℝ} (h : Skel l ref) (n : Name) :
    (find? l n = none ∧ find? ref n = none) ∨ (∃ p b, find? l n = some p ∧ find? ref n = some b ∧ SameSkel p b) := by
  unfold Skel at h
  induction h with
  | nil => left; exact ⟨rfl, rfl⟩
  | @cons a b l' B' hab _ ih =>
    by_cases e : a.name = n
    · right
      exact ⟨a, b, find?_cons_eq a l' n e, find?_cons_eq b B' n (hab.1 ▸ e), hab⟩
    · rw [find?_cons_ne a l' n e, find?_cons_ne b B' n (hab.1 ▸ e)]
      exact ih

theorem setValueOf_gen : ∀ (l l' : PList ℝ) (n : Name) (v : ℝ), setValueOf l n v = .ok l' →
    (∀ p, find? l n = some p → p.violates v = false) → Skel l' l ∧ (Feas l → Feas l') := by
  intro l
  induction l with
  | nil => intro l' n v h; simp [setValueOf] at h
  | cons p r ih =>
    intro l' n v h hv
    unfold setValueOf at h
    split at h
    · rename_i hn
      have hn' : p.name = n := by simpa using hn
      split at h
      · rename_i p' hp'
        injection h with h; subst h
        obtain ⟨a, b, c, d⟩ := setValue_name p p' v hp'
        refine ⟨List.Forall₂.cons ⟨a, b, c⟩ (Skel.refl r), ?_⟩
        intro hf x hx
        rcases List.mem_cons.mp hx with rfl | hx
        · rcases d with d | d
          · rw [d, violates_skel (⟨a, b, c⟩ : SameSkel x p)]
            exact hv p (find?_cons_eq p r n hn')
          · rw [d]; exact hf p (List.mem_cons_self ..)
        · exact hf x (List.mem_cons_of_mem _ hx)
      · cases h
    · rename_i hn
      have hn' : p.name ≠ n := by simpa using hn
      split at h
      · rename_i r' hr'
        injection h with h; subst h
        obtain ⟨a, b⟩ := ih r' n v hr' (fun q hq => hv q (by rw [find?_cons_ne p r n hn']; exact hq))
        refine ⟨List.Forall₂.cons (SameSkel.rfl' p) a, ?_⟩
        intro hf x hx
        rcases List.mem_cons.mp hx with rfl | hx
        · exact hf x (List.mem_cons_self ..)
        · exact b (fun y hy => hf y (List.mem_cons_of_mem _ hy)) x hx
      · cases h

/-- no value of `pl` is refused by the parameter of `own` it is meant for -/
def NoViol (own pl : PList ℝ) : Prop := ∀ q ∈ pl, ∀ p, find? own q.name = some p → p.violates q.value = false

theorem noViol_of_any {own pl : PList ℝ} (h : anyViolation own pl = false) : NoViol own pl := by
  intro q hq p hp
  unfold anyViolation at h
  rw [List.any_eq_false] at h
  have := h q hq
  rw [hp] at this
  simpa using this

theorem NoViol.skel {own own' pl : PList ℝ} (h : NoViol own pl) (hs : Skel own' own) : NoViol own' pl := by
  intro q hq p hp
  rcases find?_skel hs q.name with ⟨h1, _⟩ | ⟨p1, b, h1, h2, h3⟩
  · rw [h1] at hp; cases hp
  · rw [h1] at hp; injection hp with hp; subst hp
    rw [violates_skel h3]; exact h q hq b h2

theorem matchLoop_mono (pl : PList ℝ) : ∀ (own own' : PList ℝ) (ch : Bool),
    matchLoop own pl true = .ok (own', ch) → ch = true := by
  induction pl with
  | nil => intro own own' ch h; simp [matchLoop] at h; exact h.2
  | cons q qs ih =>
    intro own own' ch h
    unfold matchLoop at h
    split at h
    · exact ih _ _ _ h
    · split at h
      · split at h
        · exact ih _ _ _ h
        · cases h
      · exact ih _ _ _ h

theorem matchLoop_gen (pl : PList ℝ) : ∀ (own own' : PList ℝ) (ch0 ch : Bool),
    matchLoop own pl ch0 = .ok (own', ch) → NoViol own pl →
    Skel own' own ∧ (Feas own → Feas own') ∧ (ch = false → own' = own) := by
  induction pl with
  | nil =>
    intro own own' ch0 ch h _
    simp [matchLoop] at h
    obtain ⟨rfl, rfl⟩ := h
    exact ⟨Skel.refl _, id, fun _ => rfl⟩
  | cons q qs ih =>
    intro own own' ch0 ch h hnv
    have hnv' : NoViol own qs := fun x hx => hnv x (List.mem_cons_of_mem _ hx)
    unfold matchLoop at h
    split at h
    · exact ih _ _ _ _ h hnv'
    · rename_i p hp
      split at h
      · split at h
        · rename_i own1 hs1
          obtain ⟨a, b⟩ := setValueOf_gen own own1 q.name q.value hs1 (fun x hx => hnv q (List.mem_cons_self ..) x hx)
          obtain ⟨c, d, _⟩ := ih _ _ _ _ h (hnv'.skel a)
          refine ⟨c.trans a, fun hf => d (b hf), ?_⟩
          intro hch
          have := matchLoop_mono qs _ _ _ h
          rw [this] at hch; cases hch
        · cases h
      · exact ih _ _ _ _ h hnv'

/-- the invariant: relative to a fixed skeleton `ref` -/
structure Inv (f : List ℝ → ℝ) (ref : PList ℝ) (fn : Fn ℝ) : Prop where
  skel : Skel fn.params ref
  ok : fn.OK f
  feas : Feas fn.params
  log : ∀ pt ∈ fn.log, PtOK ref pt

theorem Inv.fire {f : List ℝ → ℝ} {ref : PList ℝ} {fn : Fn ℝ} (hs : Skel fn.params ref) (hf : Feas fn.params)
    (hl : ∀ pt ∈ fn.log, PtOK ref pt) : Inv f ref (fn.fire f) :=
  ⟨hs, fire_OK f fn, hf, by
    intro pt hpt
    simp only [Fn.fire, List.mem_cons] at hpt
    rcases hpt with rfl | hpt
    · exact ptOK_values hs hf
    · exact hl pt hpt⟩

/-- `function_->setParameters(pl)` for any list keeps the invariant, and never touches the kind of
the wrapped function -/
theorem Inv.setParameters {f : List ℝ → ℝ} {ref : PList ℝ} {fn : Fn ℝ} (h : Inv f ref fn) (pl : PList ℝ) :
    Inv f ref (fn.setParameters f pl).1 ∧ (fn.setParameters f pl).1.kind = fn.kind := by
  simp only [Fn.setParameters, Fn.matchPV]
  cases hv : anyViolation fn.params pl with
  | true => simp; exact h
  | false =>
    simp only [Bool.false_eq_true, if_false]
    cases hm : matchLoop fn.params pl false with
    | error e => simp; exact h
    | ok r =>
      rcases r with ⟨own, ch⟩
      obtain ⟨a, b, c⟩ := matchLoop_gen pl fn.params own false ch hm (noViol_of_any hv)
      cases ch with
      | true =>
        simp only [if_true]
        exact ⟨Inv.fire (a.trans h.skel) (b h.feas) h.log, rfl⟩
      | false =>
        simp only [Bool.false_eq_true, if_false]
        have := c rfl; subst this
        exact ⟨h, trivial⟩


/-! ### everything the wrapper does to the wrapped function -/

/-- `b` is obtained from `a` by calls of `setParameters` (with any lists, raising or not) and by
switching analytical derivatives on or off: the only things `updateDerivatives` does -/
inductive Reach (f : List ℝ → ℝ) : Fn ℝ → Fn ℝ → Prop
  | refl (a : Fn ℝ) : Reach f a a
  | setp {a b : Fn ℝ} (pl : PList ℝ) : Reach f a b → Reach f a (b.setParameters f pl).1
  | en1 {a b : Fn ℝ} (x : Bool) : Reach f a b → Reach f a (b.enable1 x)
  | en2 {a b : Fn ℝ} (x : Bool) : Reach f a b → Reach f a (b.enable2 x)

theorem Reach.trans {f : List ℝ → ℝ} {a b c : Fn ℝ} (h1 : Reach f a b) (h2 : Reach f b c) : Reach f a c := by
  induction h2 with
  | refl => exact h1
  | setp pl _ ih => exact Reach.setp pl ih
  | en1 x _ ih => exact Reach.en1 x ih
  | en2 x _ ih => exact Reach.en2 x ih

theorem Reach.of_set {f : List ℝ → ℝ} {a b b' : Fn ℝ} {pl : PList ℝ} {e : Option Exc}
    (h : Reach f a b) (he : b.setParameters f pl = (b', e)) : Reach f a b' := by
  have : b' = (b.setParameters f pl).1 := by rw [he]
  rw [this]; exact Reach.setp pl h

theorem Inv.enable1 {f : List ℝ → ℝ} {ref : PList ℝ} {fn : Fn ℝ} (h : Inv f ref fn) (x : Bool) : Inv f ref (fn.enable1 x) := by
  unfold Fn.enable1; split
  · exact ⟨h.skel, h.ok, h.feas, h.log⟩
  · exact h
theorem Inv.enable2 {f : List ℝ → ℝ} {ref : PList ℝ} {fn : Fn ℝ} (h : Inv f ref fn) (x : Bool) : Inv f ref (fn.enable2 x) := by
  unfold Fn.enable2; split
  · exact ⟨h.skel, h.ok, h.feas, h.log⟩
  · exact h

/-- the invariant holds for everything reachable -/
theorem Inv.reach {f : List ℝ → ℝ} {ref : PList ℝ} {a b : Fn ℝ} (h : Inv f ref a) (hr : Reach f a b) :
    Inv f ref b ∧ b.kind = a.kind := by
  induction hr with
  | refl => exact ⟨h, rfl⟩
  | setp pl _ ih => exact ⟨(ih.1.setParameters pl).1, (ih.1.setParameters pl).2.trans ih.2⟩
  | en1 x _ ih => exact ⟨ih.1.enable1 x, by rw [enable1_kind]; exact ih.2⟩
  | en2 x _ ih => exact ⟨ih.1.enable2 x, by rw [enable2_kind]; exact ih.2⟩

/-- the same with `setParameters` only: what the probing loops do (they never touch the switches
of the analytical derivatives) -/
inductive ReachS (f : List ℝ → ℝ) : Fn ℝ → Fn ℝ → Prop
  | refl (a : Fn ℝ) : ReachS f a a
  | setp {a b : Fn ℝ} (pl : PList ℝ) : ReachS f a b → ReachS f a (b.setParameters f pl).1

theorem ReachS.trans {f : List ℝ → ℝ} {a b c : Fn ℝ} (h1 : ReachS f a b) (h2 : ReachS f b c) : ReachS f a c := by
  induction h2 with
  | refl => exact h1
  | setp pl _ ih => exact ReachS.setp pl ih

theorem ReachS.of_set {f : List ℝ → ℝ} {a b b' : Fn ℝ} {pl : PList ℝ} {e : Option Exc}
    (h : ReachS f a b) (he : b.setParameters f pl = (b', e)) : ReachS f a b' := by
  have : b' = (b.setParameters f pl).1 := by rw [he]
  rw [this]; exact ReachS.setp pl h

theorem ReachS.toReach {f : List ℝ → ℝ} {a b : Fn ℝ} (h : ReachS f a b) : Reach f a b := by
  induction h with
  | refl => exact Reach.refl _
  | setp pl _ ih => exact Reach.setp pl ih

theorem attempt_reach (f : List ℝ → ℝ) (fn : Fn ℝ) (p : PList ℝ) (x : ℝ) : ReachS f fn (attempt f fn p x).fn := by
  unfold attempt
  split
  · exact ReachS.refl _
  · split
    · exact ReachS.refl _
    · simp only []
      split
      · rename_i h; exact (ReachS.refl fn).of_set h
      · rename_i h
        split <;> exact (ReachS.refl fn).of_set h

theorem retry_reach (f : List ℝ → ℝ) (rp : Bool) (value : ℝ) : ∀ (n : Nat) (fn : Fn ℝ) (p : PList ℝ) (h : ℝ) (fv : Option ℝ),
    ReachS f fn (retry f rp n fn p value h fv).fn := by
  intro n
  induction n with
  | zero => intro fn p h fv; unfold retry; exact ReachS.refl _
  | succ n ih =>
    intro fn p h fv
    unfold retry
    simp only []
    split
    · split <;> exact attempt_reach f fn p _
    · split
      · split
        · exact ReachS.setp _ (attempt_reach f fn p _)
        · exact attempt_reach f fn p _
      · exact (attempt_reach f fn p _).trans (ih _ _ _ _)

theorem step2_reach (f : List ℝ → ℝ) (params : PList ℝ) (lp : Loop ℝ) (i : Nat) (var : Name) :
    ReachS f lp.w.fn (step2 f params lp i var).1.w.fn := by
  unfold step2
  split
  · exact ReachS.refl _
  · split
    · exact ReachS.refl _
    · simp only []
      split <;> exact retry_reach f _ _ _ _ _ _ _

theorem step3_reach (f : List ℝ → ℝ) (params : PList ℝ) (lp : Loop ℝ) (i : Nat) (var : Name) :
    ReachS f lp.w.fn (step3 f params lp i var).1.w.fn := by
  unfold step3
  split
  · exact ReachS.refl _
  · split
    · exact ReachS.refl _
    · simp only []
      repeat' split
      all_goals first
        | exact retry_reach f _ _ _ _ _ _ _
        | exact (retry_reach f _ _ _ _ _ _ _).trans (retry_reach f _ _ _ _ _ _ _)

theorem probe5_reach (f : List ℝ → ℝ) (fn : Fn ℝ) (p : PList ℝ) (x : ℝ) : ReachS f fn (probe5 f fn p x).1 := by
  unfold probe5
  split
  · exact ReachS.refl _
  · split
    · exact ReachS.refl _
    · simp only []
      split <;> (rename_i h; exact (ReachS.refl fn).of_set h)


theorem central5_reach (f : List ℝ → ℝ) (fn : Fn ℝ) (p : PList ℝ) (value h f1 f3 : ℝ) :
    ReachS f fn (central5 f fn p value h f1 f3).1 := by
  unfold central5
  simp only []
  have h1 := probe5_reach f fn p (value + ofInt 2 * h)
  generalize probe5 f fn p (value + ofInt 2 * h) = r1 at h1
  rcases r1 with ⟨fn1, p1, o1⟩
  cases o1 with
  | none => exact h1
  | some v1 =>
    simp only []
    have h2 := probe5_reach f fn1 p1 (value - h)
    generalize probe5 f fn1 p1 (value - h) = r2 at h2
    rcases r2 with ⟨fn2, p2, o2⟩
    cases o2 with
    | none => exact h1.trans h2
    | some v2 =>
      simp only []
      have h3 := probe5_reach f fn2 p2 (value + h)
      generalize probe5 f fn2 p2 (value + h) = r3 at h3
      rcases r3 with ⟨fn3, p3, o3⟩
      cases o3 <;> exact (h1.trans h2).trans h3

theorem backward5_reach (f : List ℝ → ℝ) (fn : Fn ℝ) (p : PList ℝ) (value h f3 : ℝ) :
    ReachS f fn (backward5 f fn p value h f3).1 := by
  unfold backward5
  simp only []
  have h1 := probe5_reach f fn p (value - h)
  generalize probe5 f fn p (value - h) = r1 at h1
  rcases r1 with ⟨fn1, p1, o1⟩
  cases o1 with
  | none => exact h1
  | some v1 =>
    simp only []
    have h2 := probe5_reach f fn1 p1 (value - ofInt 2 * h)
    generalize probe5 f fn1 p1 (value - ofInt 2 * h) = r2 at h2
    rcases r2 with ⟨fn2, p2, o2⟩
    cases o2 <;> exact h1.trans h2

theorem forward5_reach (f : List ℝ → ℝ) (fn : Fn ℝ) (p : PList ℝ) (value h f3 : ℝ) :
    ReachS f fn (forward5 f fn p value h f3).1 := by
  unfold forward5
  simp only []
  have h1 := probe5_reach f fn p (value + h)
  generalize probe5 f fn p (value + h) = r1 at h1
  rcases r1 with ⟨fn1, p1, o1⟩
  cases o1 with
  | none => exact h1
  | some v1 =>
    simp only []
    have h2 := probe5_reach f fn1 p1 (value + ofInt 2 * h)
    generalize probe5 f fn1 p1 (value + ofInt 2 * h) = r2 at h2
    rcases r2 with ⟨fn2, p2, o2⟩
    cases o2 <;> exact h1.trans h2

theorem probes5_reach (f : List ℝ → ℝ) (fn : Fn ℝ) (p : PList ℝ) (value h f3 : ℝ) :
    ReachS f fn (probes5 f fn p value h f3).1 := by
  unfold probes5
  simp only []
  have h1 := probe5_reach f fn p (value - ofInt 2 * h)
  generalize probe5 f fn p (value - ofInt 2 * h) = r1 at h1
  rcases r1 with ⟨fn1, p1, o1⟩
  cases o1 with
  | none => exact h1.trans (forward5_reach f fn1 p1 value h f3)
  | some v1 =>
    simp only []
    have h2 := central5_reach f fn1 p1 value h v1 f3
    generalize central5 f fn1 p1 value h v1 f3 = r2 at h2
    rcases r2 with ⟨fn2, p2, o2⟩
    cases o2 with
    | some d => exact h1.trans h2
    | none =>
      simp only []
      have h3 := backward5_reach f fn2 p2 value h f3
      generalize backward5 f fn2 p2 value h f3 = r3 at h3
      rcases r3 with ⟨fn3, p3, o3⟩
      cases o3 with
      | some d => exact (h1.trans h2).trans h3
      | none => exact ((h1.trans h2).trans h3).trans (forward5_reach f fn3 p3 value h f3)

theorem step5_reach (f : List ℝ → ℝ) (params : PList ℝ) (lp : Loop ℝ) (i : Nat) (var : Name) :
    ReachS f lp.w.fn (step5 f params lp i var).1.w.fn := by
  unfold step5
  split
  · exact ReachS.refl _
  · simp only []
    split
    next => exact ReachS.refl _
    next p _ =>
      split
      next => exact ReachS.refl _
      next value _ =>
        have h5 := probes5_reach f lp.w.fn p value ((one + Scalar.abs value) * lp.w.h) lp.w.f3
        rcases hs : probes5 f lp.w.fn p value ((one + Scalar.abs value) * lp.w.h) lp.w.f3 with ⟨fn5, p5, o5⟩
        rw [hs] at h5
        cases o5 with
        | none =>
          simp only [] at h5 ⊢
          have hg : ReachS f lp.w.fn (if decide (p5.length > 1) then fn5.setParameters f (subIdx p5 1) else (fn5, none)).1 := by
            split
            · exact ReachS.setp _ h5
            · exact h5
          split <;> exact hg
        | some d => rcases d with ⟨d1, d2⟩; exact h5

theorem loopGo_reach (f : List ℝ → ℝ) (step : Loop ℝ → Nat → Name → Loop ℝ × Option Exc)
    (hstep : ∀ lp i var, ReachS f lp.w.fn (step lp i var).1.w.fn) :
    ∀ (vs : List Name) (i : Nat) (lp : Loop ℝ), ReachS f lp.w.fn (loopGo step vs i lp).1.w.fn := by
  intro vs
  induction vs with
  | nil => intro i lp; exact ReachS.refl _
  | cons v vs ih =>
    intro i lp
    unfold loopGo
    have h := hstep lp i v
    rcases hs : step lp i v with ⟨lp', e⟩
    rw [hs] at h
    cases e with
    | some e => exact h
    | none => exact h.trans (ih (i + 1) lp')

theorem setEval_reach (f : List ℝ → ℝ) (fn : Fn ℝ) (q : Param ℝ) (x : ℝ) : ReachS f fn (setEval f fn q x).1 := by
  unfold setEval
  split
  · exact ReachS.refl _
  · split <;> (rename_i h; exact (ReachS.refl fn).of_set h)

theorem ReachS.of_setEval {f : List ℝ → ℝ} {a b b' : Fn ℝ} {q : Param ℝ} {x : ℝ} {o : Option (Param ℝ × ℝ)}
    (h : ReachS f a b) (he : setEval f b q x = (b', o)) : ReachS f a b' := by
  have : b' = (setEval f b q x).1 := by rw [he]
  rw [this]; exact h.trans (setEval_reach f b q x)

theorem crossFail_reach (f : List ℝ → ℝ) (params : PList ℝ) (cl : CLoop ℝ) {a : Fn ℝ} (fn : Fn ℝ) (h : Reach f a fn) :
    Reach f a (crossFail f params cl fn).1.w.fn := by
  unfold crossFail
  exact Reach.setp _ (Reach.en2 _ (Reach.en1 _ h))

/-- every outcome of a pair: `setParameters` calls and, on the failing path, the switches -/
theorem crossPair_reach (f : List ℝ → ℝ) (params : PList ℝ) (cl : CLoop ℝ) (i j : Nat) (var1 var2 : Name) :
    Reach f cl.w.fn (crossPair f params cl i j var1 var2).1.w.fn ∧
    ((crossPair f params cl i j var1 var2).2 = none → ReachS f cl.w.fn (crossPair f params cl i j var1 var2).1.w.fn) := by
  unfold crossPair
  simp only []
  split
  next => exact ⟨Reach.refl _, fun _ => ReachS.refl _⟩
  next p _ =>
    split
    next p0 p1 rest =>
      split
      next => exact ⟨crossFail_reach f params cl _ (Reach.refl _), fun h => by simp at h⟩
      next p0a _ =>
        split
        next => exact ⟨crossFail_reach f params cl _ (Reach.refl _), fun h => by simp at h⟩
        next p1a _ =>
          split
          next fn1 _ h => exact ⟨crossFail_reach f params cl _ ((Reach.refl _).of_set h), fun h => by simp at h⟩
          next fn1 h =>
            have r1 : ReachS f cl.w.fn fn1 := (ReachS.refl _).of_set h
            split
            next fn2 h2 => exact ⟨crossFail_reach f params cl _ (r1.of_setEval h2).toReach, fun h => by simp at h⟩
            next fn2 p1b f12 h2 =>
              have r2 : ReachS f cl.w.fn fn2 := r1.of_setEval h2
              split
              next fn3 h3 => exact ⟨crossFail_reach f params cl _ (r2.of_setEval h3).toReach, fun h => by simp at h⟩
              next fn3 _ f22 h3 =>
                have r3 : ReachS f cl.w.fn fn3 := r2.of_setEval h3
                split
                next fn4 h4 => exact ⟨crossFail_reach f params cl _ (r3.of_setEval h4).toReach, fun h => by simp at h⟩
                next fn4 _ f21 h4 => exact ⟨(r3.of_setEval h4).toReach, fun _ => r3.of_setEval h4⟩
    next => exact ⟨Reach.refl _, fun _ => ReachS.refl _⟩

theorem crossRow_reach (f : List ℝ → ℝ) (params : PList ℝ) (i : Nat) (var1 : Name) :
    ∀ (vs : List Name) (j : Nat) (cl : CLoop ℝ), Reach f cl.w.fn (crossRow f params i var1 vs j cl).1.w.fn ∧
      ((crossRow f params i var1 vs j cl).2 = none → ReachS f cl.w.fn (crossRow f params i var1 vs j cl).1.w.fn) := by
  intro vs
  induction vs with
  | nil => intro j cl; exact ⟨Reach.refl _, fun _ => ReachS.refl _⟩
  | cons v vs ih =>
    intro j cl
    unfold crossRow
    split
    · split
      · exact ⟨Reach.refl _, fun _ => ReachS.refl _⟩
      · exact (ih (j + 1) { cl with w := { cl.w with cross := setAt2 cl.w.cross i j _ } })
    · split
      · exact ih _ _
      · have h := crossPair_reach f params cl i j var1 v
        rcases hs : crossPair f params cl i j var1 v with ⟨cl', e⟩
        rw [hs] at h
        cases e with
        | some e => exact ⟨h.1, fun h' => by simp at h'⟩
        | none => exact ⟨h.1.trans (ih _ _).1, fun h' => (h.2 rfl).trans ((ih _ _).2 h')⟩

theorem crossGo_reach (f : List ℝ → ℝ) (params : PList ℝ) (all : List Name) :
    ∀ (vs : List Name) (i : Nat) (cl : CLoop ℝ), Reach f cl.w.fn (crossGo f params all vs i cl).1.w.fn ∧
      ((crossGo f params all vs i cl).2 = none → ReachS f cl.w.fn (crossGo f params all vs i cl).1.w.fn) := by
  intro vs
  induction vs with
  | nil => intro i cl; exact ⟨Reach.refl _, fun _ => ReachS.refl _⟩
  | cons v vs ih =>
    intro i cl
    unfold crossGo
    split
    · exact ih _ _
    · have h := crossRow_reach f params i v all 0 cl
      rcases hs : crossRow f params i v all 0 cl with ⟨cl', e⟩
      rw [hs] at h
      cases e with
      | some e => exact ⟨h.1, fun h' => by simp at h'⟩
      | none => exact ⟨h.1.trans (ih _ _).1, fun h' => (h.2 rfl).trans ((ih _ _).2 h')⟩

theorem Wenable2_reach (f : List ℝ → ℝ) (w : W ℝ) (b : Bool) : Reach f w.fn (w.enable2 b) := by
  unfold W.enable2; split
  · exact Reach.refl _
  · exact Reach.en2 b (Reach.refl _)

theorem finish_reach (f : List ℝ → ℝ) (params : PList ℝ) (lastVar : Option Name) (all : Bool) (w : W ℝ) :
    Reach f w.fn (finish f params lastVar all w).1.fn := by
  have h0 : Reach f w.fn (({ w with fn := w.fn.enable1 w.c1 } : W ℝ).enable2 w.c2) :=
    (Reach.en1 w.c1 (Reach.refl w.fn)).trans (Wenable2_reach f ({ w with fn := w.fn.enable1 w.c1 } : W ℝ) w.c2)
  unfold finish
  simp only []
  split
  · exact h0
  · split
    · exact Reach.setp _ h0
    · split
      · exact h0
      · exact Reach.setp _ h0


theorem update2_reach (f : List ℝ → ℝ) (w : W ℝ) (params : PList ℝ) : Reach f w.fn (update2 f w params).1.fn := by
  unfold update2
  split
  · simp only []
    split
    next fn1 _ h => exact (Reach.en1 false (Reach.refl w.fn)).of_set h
    next fn1 h =>
      have r1 : Reach f w.fn fn1 := (Reach.en1 false (Reach.refl w.fn)).of_set h
      split
      · exact Reach.en1 _ r1
      · have hl := loopGo_reach f (step2 f params) (step2_reach f params) w.vars 0
          { w := { w with fn := fn1, f1 := fn1.fval }, p := [], lastVar := none }
        rcases hs : loopGo (step2 f params) w.vars 0 { w := { w with fn := fn1, f1 := fn1.fval }, p := [], lastVar := none } with ⟨lp, e⟩
        rw [hs] at hl
        cases e with
        | some e => exact r1.trans hl.toReach
        | none => exact (r1.trans hl.toReach).trans (finish_reach f params lp.lastVar false lp.w)
  · simp only []
    have r0 : Reach f w.fn (({ w with fn := w.fn.enable1 w.c1 } : W ℝ).enable2 w.c2) :=
      (Reach.en1 w.c1 (Reach.refl w.fn)).trans (Wenable2_reach f ({ w with fn := w.fn.enable1 w.c1 } : W ℝ) w.c2)
    split
    next fn1 _ h => exact r0.of_set h
    next fn1 h => exact r0.of_set h

theorem update3_reach (f : List ℝ → ℝ) (w : W ℝ) (params : PList ℝ) : Reach f w.fn (update3 f w params).1.fn := by
  unfold update3
  split
  · simp only []
    have r0 : Reach f w.fn ((w.fn.enable1 false).enable2 false) := Reach.en2 false (Reach.en1 false (Reach.refl w.fn))
    split
    next fn1 _ h => exact r0.of_set h
    next fn1 h =>
      have r1 : Reach f w.fn fn1 := r0.of_set h
      split
      · exact Reach.en2 _ (Reach.en1 _ r1)
      · have hl := loopGo_reach f (step3 f params) (step3_reach f params) w.vars 0
          { w := { w with fn := fn1, f2 := fn1.fval }, p := [], lastVar := none }
        rcases hs : loopGo (step3 f params) w.vars 0 { w := { w with fn := fn1, f2 := fn1.fval }, p := [], lastVar := none } with ⟨lp, e⟩
        rw [hs] at hl
        cases e with
        | some e => exact r1.trans hl.toReach
        | none =>
          simp only []
          split
          · split
            · exact (r1.trans hl.toReach).trans (finish_reach f params lp.lastVar true lp.w)
            · rename_i l _
              have hc := (crossGo_reach f params lp.w.vars lp.w.vars 0 { w := lp.w, l1 := l, l2 := l }).1
              rcases hcs : crossGo f params lp.w.vars lp.w.vars 0 { w := lp.w, l1 := l, l2 := l } with ⟨cl, e⟩
              rw [hcs] at hc
              cases e with
              | some e => exact (r1.trans hl.toReach).trans hc
              | none => exact ((r1.trans hl.toReach).trans hc).trans (finish_reach f params lp.lastVar true cl.w)
          · exact (r1.trans hl.toReach).trans (finish_reach f params lp.lastVar false lp.w)
  · simp only []
    have r0 : Reach f w.fn ((w.fn.enable1 w.c1).enable2 w.c2) := Reach.en2 _ (Reach.en1 _ (Reach.refl w.fn))
    split
    next fn1 _ h => exact r0.of_set h
    next fn1 h => exact r0.of_set h

theorem update5_reach (f : List ℝ → ℝ) (w : W ℝ) (params : PList ℝ) : Reach f w.fn (update5 f w params).1.fn := by
  unfold update5
  split
  · simp only []
    have r0 : Reach f w.fn ((w.fn.enable1 false).enable2 false) := Reach.en2 false (Reach.en1 false (Reach.refl w.fn))
    split
    next fn1 _ h => exact r0.of_set h
    next fn1 h =>
      have r1 : Reach f w.fn fn1 := r0.of_set h
      have hl := loopGo_reach f (step5 f params) (step5_reach f params) w.vars 0
        { w := { w with fn := fn1, f3 := fn1.fval }, p := [], lastVar := none }
      rcases hs : loopGo (step5 f params) w.vars 0 { w := { w with fn := fn1, f3 := fn1.fval }, p := [], lastVar := none } with ⟨lp, e⟩
      rw [hs] at hl
      cases e with
      | some e => exact r1.trans hl.toReach
      | none => exact (r1.trans hl.toReach).trans (finish_reach f params lp.lastVar false lp.w)
  · simp only []
    have r0 : Reach f w.fn ((w.fn.enable1 w.c1).enable2 w.c2) := Reach.en2 _ (Reach.en1 _ (Reach.refl w.fn))
    split
    next fn1 _ h => exact r0.of_set h
    next fn1 h => exact r0.of_set h

theorem update_reach (f : List ℝ → ℝ) (w : W ℝ) (params : PList ℝ) : Reach f w.fn (w.update f params).1.fn := by
  unfold W.update
  split
  · exact update2_reach f w params
  · exact update3_reach f w params
  · exact update5_reach f w params


/-! ### the forwarded calls keep the invariant -/

theorem setValue_cases (p p' : Param ℝ) (v : ℝ) (h : p.setValue v = .ok p') :
    SameSkel p' p ∧ (p' = p ∨ (p'.value = v ∧ p.violates v = false)) := by
  unfold Param.setValue at h
  split at h
  · split at h
    · cases h
    · rename_i hv
      injection h with h; subst h
      exact ⟨⟨rfl, rfl, rfl⟩, Or.inr ⟨rfl, by simpa using hv⟩⟩
  · injection h with h; subst h
    exact ⟨SameSkel.rfl' _, Or.inl rfl⟩

theorem feas_of_setValue (p p' : Param ℝ) (v : ℝ) (h : p.setValue v = .ok p') (hp : p.violates p.value = false) :
    p'.violates p'.value = false := by
  obtain ⟨a, b⟩ := setValue_cases p p' v h
  rcases b with b | ⟨b1, b2⟩
  · rw [b]; exact hp
  · rw [b1, violates_skel a]; exact b2

/-- `setParameterValue`: the value is checked by `Parameter::setValue` itself -/
theorem setValueOf_gen' : ∀ (l l' : PList ℝ) (n : Name) (v : ℝ), setValueOf l n v = .ok l' →
    Skel l' l ∧ (Feas l → Feas l') := by
  intro l
  induction l with
  | nil => intro l' n v h; simp [setValueOf] at h
  | cons p r ih =>
    intro l' n v h
    unfold setValueOf at h
    split at h
    · split at h
      · rename_i p' hp'
        injection h with h; subst h
        refine ⟨List.Forall₂.cons (setValue_cases p p' v hp').1 (Skel.refl r), ?_⟩
        intro hf x hx
        rcases List.mem_cons.mp hx with rfl | hx
        · exact feas_of_setValue p x v hp' (hf p (List.mem_cons_self ..))
        · exact hf x (List.mem_cons_of_mem _ hx)
      · cases h
    · split at h
      · rename_i r' hr'
        injection h with h; subst h
        obtain ⟨a, b⟩ := ih r' n v hr'
        refine ⟨List.Forall₂.cons (SameSkel.rfl' p) a, ?_⟩
        intro hf x hx
        rcases List.mem_cons.mp hx with rfl | hx
        · exact hf x (List.mem_cons_self ..)
        · exact b (fun y hy => hf y (List.mem_cons_of_mem _ hy)) x hx
      · cases h

theorem setLoop_gen (pl : PList ℝ) : ∀ (own own' : PList ℝ), setLoop own pl = .ok own' →
    Skel own' own ∧ (Feas own → Feas own') := by
  induction pl with
  | nil => intro own own' h; simp [setLoop] at h; subst h; exact ⟨Skel.refl _, id⟩
  | cons q qs ih =>
    intro own own' h
    unfold setLoop at h
    split at h
    · split at h
      · rename_i own1 hs1
        obtain ⟨a, b⟩ := setValueOf_gen' own own1 q.name q.value hs1
        obtain ⟨c, d⟩ := ih _ _ h
        exact ⟨c.trans a, fun hf => d (b hf)⟩
      · cases h
    · exact ih _ _ h

theorem allSet_gen (pl : PList ℝ) : ∀ (own own' : PList ℝ), allSet own pl = .ok own' →
    Skel own' own ∧ (Feas own → Feas own') := by
  intro own
  induction own with
  | nil => intro own' h; simp [allSet] at h; subst h; exact ⟨Skel.refl _, id⟩
  | cons p r ih =>
    intro own' h
    unfold allSet at h
    split at h
    · cases h
    · split at h
      · cases h
      · rename_i q _ p' hp'
        split at h
        · cases h
        · rename_i r' hr'
          injection h with h; subst h
          obtain ⟨a, b⟩ := ih r' hr'
          refine ⟨List.Forall₂.cons (setValue_cases p p' _ hp').1 a, ?_⟩
          intro hf x hx
          rcases List.mem_cons.mp hx with rfl | hx
          · exact feas_of_setValue p x _ hp' (hf p (List.mem_cons_self ..))
          · exact b (fun y hy => hf y (List.mem_cons_of_mem _ hy)) x hx

theorem Inv.replace {f : List ℝ → ℝ} {ref : PList ℝ} {fn : Fn ℝ} (h : Inv f ref fn) (own : PList ℝ)
    (hs : Skel own fn.params) (hf : Feas fn.params → Feas own) :
    Inv f ref (({ fn with params := own } : Fn ℝ).fire f) :=
  Inv.fire (hs.trans h.skel) (hf h.feas) h.log

theorem Inv.forward {f : List ℝ → ℝ} {ref : PList ℝ} {fn : Fn ℝ} (h : Inv f ref fn) (e : Entry ℝ) :
    Inv f ref (fn.forward f e).1 ∧ (fn.forward f e).1.kind = fn.kind := by
  cases e with
  | setParameters pl => exact h.setParameters pl
  | f pl => exact h.setParameters pl
  | matchPV pl => exact h.setParameters pl
  | setVals pl =>
    simp only [Fn.forward, Fn.setParametersValues]
    split
    · exact ⟨h, rfl⟩
    · split
      · exact ⟨h, rfl⟩
      · rename_i own hs
        obtain ⟨a, b⟩ := setLoop_gen pl _ _ hs
        exact ⟨h.replace own a b, rfl⟩
  | setAll pl =>
    simp only [Fn.forward, Fn.setAllParametersValues]
    split
    · exact ⟨h, rfl⟩
    · split
      · exact ⟨h, rfl⟩
      · rename_i own hs
        obtain ⟨a, b⟩ := allSet_gen pl _ _ hs
        exact ⟨h.replace own a b, rfl⟩
  | setOne n v =>
    simp only [Fn.forward, Fn.setParameterValue]
    split
    · exact ⟨h, rfl⟩
    · rename_i own hs
      obtain ⟨a, b⟩ := setValueOf_gen' _ _ n v hs
      exact ⟨h.replace own a b, rfl⟩

/-- any entry point, returning or raising, keeps the invariant of the wrapped function -/
theorem Inv.call {f : List ℝ → ℝ} {ref : PList ℝ} {w : W ℝ} (h : Inv f ref w.fn) (e : Entry ℝ) :
    Inv f ref (w.call f e).1.fn ∧ (w.call f e).1.fn.kind = w.fn.kind := by
  unfold W.call
  have hf := h.forward (f := f) e
  rcases hfw : w.fn.forward f e with ⟨fn1, x, b⟩
  rw [hfw] at hf
  cases x with
  | some x => exact hf
  | none =>
    simp only []
    split
    · exact hf
    · rename_i pl _
      have hr := update_reach f ({ w with fn := fn1 } : W ℝ) pl
      obtain ⟨a, b'⟩ := hf.1.reach hr
      exact ⟨a, b'.trans hf.2⟩

theorem Inv.own {f : List ℝ → ℝ} {ref : PList ℝ} {fn : Fn ℝ} (h : Inv f ref fn) (hnd : (names ref).Nodup) (hz : Z ref) :
    Own fn := ⟨by rw [h.skel.names]; exact hnd, h.skel.Z hz⟩

end Bpp.NumDeriv
