import BppModel.Graph
/-! Helper lemmas for C14 (GlobalGraph).  Property theorems are in `Props/C14.lean`. -/
namespace Bpp
namespace AL
variable {β : Type}

theorem find_insertSorted (k k' : Nat) (v : β) (l : List (Nat × β)) (h : find k l = none) :
    find k' (insertSorted k v l) = if k = k' then some v else find k' l := by
  induction l with
  | nil => simp [insertSorted, find]
  | cons p r ih =>
    obtain ⟨k1, v1⟩ := p
    simp only [find] at h
    split at h
    · simp at h
    · rename_i hne
      simp only [insertSorted]
      split
      · simp [find]
      · simp only [find]
        split
        · rename_i h1; subst h1
          have : ¬ k = k1 := fun h => hne h.symm
          simp [this]
        · exact ih h

end AL
end Bpp
