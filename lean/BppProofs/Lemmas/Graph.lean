import BppModel.Graph
/-! Helper lemmas for C14 (GlobalGraph).  Property theorems are in `Props/C14.lean`. -/
set_option linter.unusedSimpArgs false
set_option linter.unusedVariables false
namespace Bpp
namespace AL
variable {β : Type}

/-! ### `find` after each map operation (no ordering hypothesis needed) -/

theorem find_insertSorted (k k' : Nat) (v : β) (l : List (Nat × β)) (h : find k l = none) :
    find k' (insertSorted k v l) = if k = k' then some v else find k' l := by
  induction l with
  | nil => simp [insertSorted, find]
  | cons p r ih =>
    obtain ⟨k1, v1⟩ := p
    simp only [find] at h
    split at h
    · simp at h
    · rename_i hne
      simp only [insertSorted]
      split
      · simp [find]
      · simp only [find]
        split
        · rename_i h1; subst h1
          have : ¬ k = k1 := fun h => hne h.symm
          simp [this]
        · exact ih h

theorem find_map_set (k k' : Nat) (v : β) (l : List (Nat × β)) :
    find k' (l.map (fun p => if p.1 = k then (p.1, v) else p)) = if k = k' then (find k l).map (fun _ => v) else find k' l := by
  induction l with
  | nil => simp [find]
  | cons p r ih =>
    obtain ⟨k1, v1⟩ := p
    simp only [List.map_cons, find]
    by_cases h1 : k1 = k
    · subst h1
      by_cases h2 : k1 = k'
      · subst h2; simp [find]
      · simp [find, h2, ih]
    · by_cases h2 : k1 = k'
      · subst h2
        have : ¬ k = k1 := fun h => h1 h.symm
        simp [find, h1, this]
      · simp [find, h1, h2, ih]

theorem find_insertNew (k k' : Nat) (v : β) (l : List (Nat × β)) :
    find k' (insertNew k v l) = if k = k' then some ((find k l).getD v) else find k' l := by
  unfold insertNew has
  cases h : find k l with
  | none => simp [find_insertSorted k k' v l h]
  | some w =>
    simp only [Option.isSome_some, if_true, Option.getD_some]
    split
    · rename_i h1; subst h1; exact h
    · rfl

theorem find_set (k k' : Nat) (v : β) (l : List (Nat × β)) :
    find k' (set k v l) = if k = k' then some v else find k' l := by
  unfold set has
  cases h : find k l with
  | none => simp [find_insertSorted k k' v l h]
  | some w => simp [find_map_set, h]

theorem find_erase (k k' : Nat) (l : List (Nat × β)) :
    find k' (erase k l) = if k = k' then none else find k' l := by
  unfold erase
  induction l with
  | nil => simp [find]
  | cons p r ih =>
    obtain ⟨k1, v1⟩ := p
    simp only [List.filter_cons]
    by_cases h1 : k1 = k
    · subst h1
      simp only [ne_eq, not_true_eq_false, decide_false, Bool.false_eq_true, if_false, ih, find]
      by_cases h2 : k1 = k' <;> simp [h2]
    · simp only [ne_eq, h1, not_false_eq_true, decide_true, if_true, find, ih]
      by_cases h2 : k1 = k'
      · subst h2
        have : ¬ k = k1 := fun h => h1 h.symm
        simp [this]
      · simp [h2]

theorem find_modify (k k' : Nat) (f : β → β) (l : List (Nat × β)) :
    find k' (modify k f l) = if k = k' then (find k l).map f else find k' l := by
  unfold modify
  induction l with
  | nil => simp [find]
  | cons p r ih =>
    obtain ⟨k1, v1⟩ := p
    simp only [List.map_cons, find]
    by_cases h1 : k1 = k
    · subst h1
      by_cases h2 : k1 = k'
      · subst h2; simp [find]
      · simp [find, h2, ih]
    · by_cases h2 : k1 = k'
      · subst h2
        have : ¬ k = k1 := fun h => h1 h.symm
        simp [find, h1, this]
      · simp [find, h1, h2, ih]

theorem find_map_val {γ : Type} (k : Nat) (f : β → γ) (l : List (Nat × β)) :
    find k (l.map (fun p => (p.1, f p.2))) = (find k l).map f := by
  induction l with
  | nil => simp [find]
  | cons p r ih =>
    obtain ⟨k1, v1⟩ := p
    simp only [List.map_cons, find]
    split <;> simp [ih]

theorem mem_keys_iff (k : Nat) (l : List (Nat × β)) : k ∈ keys l ↔ (find k l).isSome := by
  unfold keys
  induction l with
  | nil => simp [find]
  | cons p r ih =>
    obtain ⟨k1, v1⟩ := p
    simp only [List.map_cons, List.mem_cons, find]
    by_cases h : k1 = k
    · simp [h]
    · have : ¬ k = k1 := fun h' => h h'.symm
      simp [h, this, ih]

theorem find_some_mem {k : Nat} {v : β} {l : List (Nat × β)} (h : find k l = some v) : (k, v) ∈ l := by
  induction l with
  | nil => simp [find] at h
  | cons p r ih =>
    obtain ⟨k1, v1⟩ := p
    simp only [find] at h
    split at h
    · rename_i h1; subst h1; simp at h; subst h; simp
    · exact List.mem_cons_of_mem _ (ih h)

/-! ### ascending keys -/

/-- strictly ascending keys: the iteration order of a `std::map` -/
def Asc (l : List (Nat × β)) : Prop := List.Pairwise (· < ·) (keys l)

theorem asc_nil : Asc ([] : List (Nat × β)) := by simp [Asc, keys]

theorem keys_insertSorted (k : Nat) (v : β) (l : List (Nat × β)) :
    ∀ x, x ∈ keys (insertSorted k v l) ↔ x = k ∨ x ∈ keys l := by
  intro x
  induction l with
  | nil => simp [insertSorted, keys]
  | cons p r ih =>
    simp only [insertSorted]
    split
    · simp [keys]
    · simp only [keys, List.map_cons, List.mem_cons] at ih ⊢
      rw [ih]; constructor <;> (intro h; rcases h with h | h | h <;> simp [h])

theorem asc_insertSorted (k : Nat) (v : β) (l : List (Nat × β)) (h : Asc l) (hk : find k l = none) :
    Asc (insertSorted k v l) := by
  induction l with
  | nil => simp [insertSorted, Asc, keys]
  | cons p r ih =>
    obtain ⟨k1, v1⟩ := p
    simp only [find] at hk
    split at hk
    · simp at hk
    · rename_i hne
      simp only [insertSorted]
      simp only [Asc, keys, List.map_cons, List.pairwise_cons] at h
      split
      · rename_i hlt
        simp only [Asc, keys, List.map_cons, List.pairwise_cons, List.mem_cons]
        refine ⟨?_, h.1, h.2⟩
        intro x hx
        rcases hx with hx | hx
        · omega
        · have := h.1 x hx; omega
      · rename_i hge
        have ihr := ih h.2 hk
        simp only [Asc, keys, List.map_cons, List.pairwise_cons]
        refine ⟨?_, ihr⟩
        intro x hx
        have := (keys_insertSorted k v r x).mp hx
        rcases this with hx | hx
        · subst hx; omega
        · exact h.1 x hx

theorem asc_insertNew (k : Nat) (v : β) (l : List (Nat × β)) (h : Asc l) : Asc (insertNew k v l) := by
  unfold insertNew has
  cases hf : find k l with
  | none => simpa using asc_insertSorted k v l h hf
  | some w => simpa using h

theorem keys_map_same (f : Nat × β → Nat × β) (hf : ∀ p, (f p).1 = p.1) (l : List (Nat × β)) :
    keys (l.map f) = keys l := by
  unfold keys
  induction l with
  | nil => rfl
  | cons p r ih => simp [hf, ih]

theorem keys_modify (k : Nat) (f : β → β) (l : List (Nat × β)) : keys (modify k f l) = keys l := by
  unfold modify
  apply keys_map_same
  intro p; split <;> rfl

theorem asc_modify (k : Nat) (f : β → β) (l : List (Nat × β)) (h : Asc l) : Asc (modify k f l) := by
  unfold Asc; rw [keys_modify]; exact h

theorem asc_set (k : Nat) (v : β) (l : List (Nat × β)) (h : Asc l) : Asc (set k v l) := by
  unfold set has
  cases hf : find k l with
  | none => simpa using asc_insertSorted k v l h hf
  | some w =>
    simp only [Option.isSome_some, if_true]
    unfold Asc
    rw [keys_map_same]
    · exact h
    · intro p; split <;> rfl

theorem asc_erase (k : Nat) (l : List (Nat × β)) (h : Asc l) : Asc (erase k l) := by
  unfold Asc keys erase at *
  exact List.Pairwise.sublist (List.Sublist.map _ List.filter_sublist) h

theorem find_eq_none_of_lt {k : Nat} {l : List (Nat × β)} (h : ∀ x ∈ keys l, k < x) : find k l = none := by
  cases hf : find k l with
  | none => rfl
  | some v =>
    have : k ∈ keys l := (mem_keys_iff k l).mpr (by simp [hf])
    have := h k this; omega

/-- two maps with ascending keys and the same look-ups are equal -/
theorem asc_ext {l₁ l₂ : List (Nat × β)} (h₁ : Asc l₁) (h₂ : Asc l₂) (h : ∀ k, find k l₁ = find k l₂) : l₁ = l₂ := by
  induction l₁ generalizing l₂ with
  | nil =>
    cases l₂ with
    | nil => rfl
    | cons p r => have := h p.1; simp [find] at this
  | cons p r ih =>
    obtain ⟨k1, v1⟩ := p
    cases l₂ with
    | nil => have := h k1; simp [find] at this
    | cons q s =>
      obtain ⟨k2, v2⟩ := q
      simp only [Asc, keys, List.map_cons, List.pairwise_cons] at h₁ h₂
      have hk : k1 = k2 := by
        rcases Nat.lt_trichotomy k1 k2 with hlt | heq | hgt
        · have e := h k1
          simp only [find, if_true] at e
          have hne : ¬ k2 = k1 := by omega
          simp only [hne, if_false] at e
          have : find k1 s = none := find_eq_none_of_lt (fun x hx => by have := h₂.1 x hx; omega)
          rw [this] at e; cases e
        · exact heq
        · have e := h k2
          simp only [find, if_true] at e
          have hne : ¬ k1 = k2 := by omega
          simp only [hne, if_false] at e
          have : find k2 r = none := find_eq_none_of_lt (fun x hx => by have := h₁.1 x hx; omega)
          rw [this] at e; cases e
      subst hk
      have hv : v1 = v2 := by have e := h k1; simpa [find] using e
      subst hv
      congr 1
      apply ih h₁.2 h₂.2
      intro k
      have e := h k
      simp only [find] at e
      by_cases hk : k1 = k
      · subst hk
        rw [find_eq_none_of_lt (fun x hx => h₁.1 x hx), find_eq_none_of_lt (fun x hx => h₂.1 x hx)]
      · simpa [hk] using e

theorem asc_tail {p : Nat × β} {l : List (Nat × β)} (h : Asc (p :: l)) : Asc l := by
  simp only [Asc, keys, List.map_cons, List.pairwise_cons] at h; exact h.2

theorem asc_head_lt {p : Nat × β} {l : List (Nat × β)} (h : Asc (p :: l)) : ∀ x ∈ keys l, p.1 < x := by
  simp only [Asc, keys, List.map_cons, List.pairwise_cons] at h; exact h.1

/-- with ascending (hence distinct) keys, membership is look-up -/
theorem mem_iff_find {l : List (Nat × β)} (h : Asc l) (k : Nat) (v : β) : (k, v) ∈ l ↔ find k l = some v := by
  constructor
  · intro hm
    induction l with
    | nil => cases hm
    | cons p r ih =>
      obtain ⟨k1, v1⟩ := p
      simp only [List.mem_cons, Prod.mk.injEq] at hm
      simp only [find]
      rcases hm with ⟨rfl, rfl⟩ | hm
      · simp
      · have hlt := asc_head_lt h k ((mem_keys_iff k r).mpr (by rw [ih (asc_tail h) hm]; rfl))
        have : ¬ k1 = k := by simp only at hlt; omega
        simp [this, ih (asc_tail h) hm]
  · exact find_some_mem

end AL

namespace Graph
open AL

/-! ## the invariant -/

/-- the three redundant views as functions: node set, outgoing / incoming entries, edge table -/
structure ConsV (d : Bool) (N : Nat → Bool) (O I : Nat → Nat → Option Nat) (E : Nat → Option (Nat × Nat)) : Prop where
  /-- every edge is listed by both end points (in both directions when undirected) -/
  edge_listed : ∀ e a b, E e = some (a, b) → O a b = some e ∧ I b a = some e ∧ (d = false → O b a = some e ∧ I a b = some e)
  /-- every outgoing entry has its edge-table entry -/
  out_edge : ∀ a b e, O a b = some e → E e = some (a, b) ∨ (d = false ∧ E e = some (b, a))
  /-- every incoming entry has its edge-table entry -/
  in_edge : ∀ a b e, I b a = some e → E e = some (a, b) ∨ (d = false ∧ E e = some (b, a))
  /-- entries live in rows of existing nodes -/
  out_node : ∀ a b e, O a b = some e → N a = true
  in_node : ∀ a b e, I b a = some e → N b = true

/-- ascending keys everywhere: iteration order of the `std::map`s -/
structure Sorted (g : G) : Prop where
  nodes : Asc g.nodes
  edges : Asc g.edges
  rows : ∀ n r, find n g.nodes = some r → Asc r.out ∧ Asc r.inn

/-- **the invariant**: every edge has two existing end points and is listed in out(top) / in(bottom)
(both directions when undirected), every node-table entry has its edge-table entry, ids are
below the counters, maps are ascending -/
structure Consistent (g : G) : Prop where
  views : ConsV g.directed g.hasNode g.outE g.inE (fun e => find e g.edges)
  node_lt : ∀ n, g.hasNode n = true → n < g.nextNode
  edge_lt : ∀ e, g.hasEdge e = true → e < g.nextEdge
  sorted : Sorted g

namespace G

theorem hasNode_iff (g : G) (n : Nat) : g.hasNode n = true ↔ ∃ r, find n g.nodes = some r := by
  unfold hasNode has; cases find n g.nodes <;> simp

theorem outE_some_hasNode {g : G} {a b e : Nat} (h : g.outE a b = some e) : g.hasNode a = true := by
  unfold outE at h; unfold hasNode has
  cases hf : find a g.nodes <;> simp_all

theorem inE_some_hasNode {g : G} {a b e : Nat} (h : g.inE b a = some e) : g.hasNode b = true := by
  unfold inE at h; unfold hasNode has
  cases hf : find b g.nodes <;> simp_all

/-! ### effect of the primitives on the views -/

theorem find_cases {β : Type} (k : Nat) (l : List (Nat × β)) : find k l = none ∨ ∃ r, find k l = some r := by
  cases find k l <;> simp

theorem row_linkInNode (a b e x : Nat) (g : G) :
    find x (linkInNode a b e g).nodes = (find x g.nodes).map (fun r =>
      { out := if x = a then insertNew b e r.out else r.out, inn := if x = b then insertNew a e r.inn else r.inn }) := by
  simp only [linkInNode, find_modify]
  by_cases h1 : b = x <;> by_cases h2 : a = x
  · subst h1; subst h2
    rcases find_cases a g.nodes with hf | ⟨r, hf⟩ <;> simp [hf]
  · subst h1; have : ¬ b = a := fun h => h2 h.symm
    rcases find_cases b g.nodes with hf | ⟨r, hf⟩ <;> simp [hf, h2, this]
  · subst h2; have : ¬ a = b := fun h => h1 h.symm
    rcases find_cases a g.nodes with hf | ⟨r, hf⟩ <;> simp [hf, h1, this]
  · have h1' : ¬ x = b := fun h => h1 h.symm
    have h2' : ¬ x = a := fun h => h2 h.symm
    rcases find_cases x g.nodes with hf | ⟨r, hf⟩ <;> simp [hf, h1, h2, h1', h2']

theorem hasNode_linkInNode (a b e n : Nat) (g : G) : (linkInNode a b e g).hasNode n = g.hasNode n := by
  simp only [hasNode, has, row_linkInNode]; cases find n g.nodes <;> simp

theorem outE_linkInNode (a b e x y : Nat) (g : G) :
    (linkInNode a b e g).outE x y =
      if x = a ∧ y = b ∧ g.hasNode a = true then some ((g.outE a b).getD e) else g.outE x y := by
  simp only [outE, row_linkInNode, hasNode, has]
  by_cases h2 : x = a
  · subst h2
    rcases find_cases x g.nodes with hf | ⟨r, hf⟩
    · simp [hf]
    · by_cases h3 : y = b
      · subst h3; simp [hf, find_insertNew]
      · have : ¬ b = y := fun h => h3 h.symm
        simp [hf, find_insertNew, h3, this]
  · rcases find_cases x g.nodes with hf | ⟨r, hf⟩ <;> simp [hf, h2]

theorem inE_linkInNode (a b e x y : Nat) (g : G) :
    (linkInNode a b e g).inE y x =
      if y = b ∧ x = a ∧ g.hasNode b = true then some ((g.inE b a).getD e) else g.inE y x := by
  simp only [inE, row_linkInNode, hasNode, has]
  by_cases h2 : y = b
  · subst h2
    rcases find_cases y g.nodes with hf | ⟨r, hf⟩
    · simp [hf]
    · by_cases h3 : x = a
      · subst h3; simp [hf, find_insertNew]
      · have : ¬ a = x := fun h => h3 h.symm
        simp [hf, find_insertNew, h3, this]
  · rcases find_cases y g.nodes with hf | ⟨r, hf⟩ <;> simp [hf, h2]

/-! #### linkInNode: the rest -/

theorem sorted_linkInNode (a b e : Nat) (g : G) (h : Sorted g) : Sorted (linkInNode a b e g) := by
  refine ⟨?_, h.edges, ?_⟩
  · unfold linkInNode; dsimp only
    exact asc_modify _ _ _ (asc_modify _ _ _ h.nodes)
  · intro n r hr
    rw [row_linkInNode] at hr
    rcases find_cases n g.nodes with hf | ⟨r0, hf⟩
    · simp [hf] at hr
    · simp only [hf, Option.map_some, Option.some.injEq] at hr
      subst hr
      have := h.rows n r0 hf
      constructor
      · dsimp only; split
        · exact asc_insertNew _ _ _ this.1
        · exact this.1
      · dsimp only; split
        · exact asc_insertNew _ _ _ this.2
        · exact this.2

/-! #### linkInEdge -/

theorem find_linkInEdge (a b e e' : Nat) (g : G) :
    find e' (linkInEdge a b e g).edges = if e = e' then some (a, b) else find e' g.edges := by
  simp [linkInEdge, find_set]

theorem sorted_linkInEdge (a b e : Nat) (g : G) (h : Sorted g) : Sorted (linkInEdge a b e g) :=
  ⟨h.nodes, asc_set _ _ _ h.edges, h.rows⟩

/-! #### unlinkInNode -/

theorem unlinkInNode_exc {a b : Nat} {g g' : G} (h : unlinkInNode a b g = .exc g') : g' = g := by
  unfold unlinkInNode at h
  split at h
  · injection h with h; exact h.symm
  · split at h
    · injection h with h; exact h.symm
    · split at h
      · injection h with h; exact h.symm
      · split at h
        · injection h with h; exact h.symm
        · cases h

/-- what a successful `unlinkInNodeStructure_` found and did -/
structure UnlinkedIn (a b e : Nat) (g g' : G) : Prop where
  fwd : g.outE a b = some e
  bwd : (g.inE b a).isSome = true
  row : ∀ x, find x g'.nodes = (find x g.nodes).map (fun r =>
      { out := if x = a then erase b r.out else r.out, inn := if x = b then erase a r.inn else r.inn })
  keys : AL.keys g'.nodes = AL.keys g.nodes
  rest : g'.edges = g.edges ∧ g'.directed = g.directed ∧ g'.nextNode = g.nextNode ∧ g'.nextEdge = g.nextEdge
    ∧ g'.root = g.root ∧ g'.pending = g.pending

theorem unlinkInNode_ok {a b e : Nat} {g g' : G} (h : unlinkInNode a b g = .ok e g') : UnlinkedIn a b e g g' := by
  unfold unlinkInNode at h
  split at h
  · cases h
  · rename_i ra hra
    split at h
    · cases h
    · rename_i e0 he0
      split at h
      · cases h
      · rename_i rb hrb
        split at h
        · cases h
        · rename_i e1 he1
          injection h with h1 h2
          subst h1; subst h2
          refine ⟨by simp [outE, hra, he0], by simp [inE, hrb, he1], ?_, by simp [keys_modify], by simp⟩
          intro x
          simp only [find_modify]
          by_cases h1 : b = x <;> by_cases h2 : a = x
          · subst h1; subst h2; simp [hra]
          · subst h1; have : ¬ b = a := fun h => h2 h.symm
            simp [hrb, h2, this]
          · subst h2; have : ¬ a = b := fun h => h1 h.symm
            simp [hra, h1, this]
          · have h1' : ¬ x = b := fun h => h1 h.symm
            have h2' : ¬ x = a := fun h => h2 h.symm
            rcases find_cases x g.nodes with hf | ⟨r, hf⟩ <;> simp [hf, h1, h2, h1', h2']

/-- `unlinkInNodeStructure_` succeeds as soon as both entries are there -/
theorem unlinkInNode_succeeds {a b e e' : Nat} {g : G} (h1 : g.outE a b = some e) (h2 : g.inE b a = some e') :
    ∃ g', unlinkInNode a b g = .ok e g' := by
  unfold outE at h1; unfold inE at h2
  rcases find_cases a g.nodes with hf | ⟨ra, hf⟩
  · simp [hf] at h1
  · rcases find_cases b g.nodes with hb | ⟨rb, hb⟩
    · simp [hb] at h2
    · simp only [hf, Option.bind_some] at h1
      simp only [hb, Option.bind_some] at h2
      unfold unlinkInNode
      simp only [hf, h1, hb, h2]
      exact ⟨_, rfl⟩

theorem UnlinkedIn.hasNode {a b e : Nat} {g g' : G} (h : UnlinkedIn a b e g g') (n : Nat) : g'.hasNode n = g.hasNode n := by
  simp only [G.hasNode, has, h.row]; rcases find_cases n g.nodes with hf | ⟨r, hf⟩ <;> simp [hf]

theorem UnlinkedIn.outE {a b e : Nat} {g g' : G} (h : UnlinkedIn a b e g g') (x y : Nat) :
    g'.outE x y = if x = a ∧ y = b then none else g.outE x y := by
  simp only [G.outE, h.row]
  rcases find_cases x g.nodes with hf | ⟨r, hf⟩
  · simp [hf]
  · by_cases h1 : x = a
    · subst h1
      by_cases h2 : y = b
      · subst h2; simp [hf, find_erase]
      · have : ¬ b = y := fun h => h2 h.symm
        simp [hf, find_erase, h2, this]
    · simp [hf, h1]

theorem UnlinkedIn.inE {a b e : Nat} {g g' : G} (h : UnlinkedIn a b e g g') (x y : Nat) :
    g'.inE y x = if y = b ∧ x = a then none else g.inE y x := by
  simp only [G.inE, h.row]
  rcases find_cases y g.nodes with hf | ⟨r, hf⟩
  · simp [hf]
  · by_cases h1 : y = b
    · subst h1
      by_cases h2 : x = a
      · subst h2; simp [hf, find_erase]
      · have : ¬ a = x := fun h => h2 h.symm
        simp [hf, find_erase, h2, this]
    · simp [hf, h1]

theorem UnlinkedIn.sorted {a b e : Nat} {g g' : G} (h : UnlinkedIn a b e g g') (hs : Sorted g) : Sorted g' := by
  refine ⟨?_, by rw [h.rest.1]; exact hs.edges, ?_⟩
  · unfold Asc; rw [h.keys]; exact hs.nodes
  · intro n r hr
    rw [h.row] at hr
    rcases find_cases n g.nodes with hf | ⟨r0, hf⟩
    · simp [hf] at hr
    · simp only [hf, Option.map_some, Option.some.injEq] at hr
      subst hr
      have := hs.rows n r0 hf
      constructor
      · dsimp only; split
        · exact asc_erase _ _ this.1
        · exact this.1
      · dsimp only; split
        · exact asc_erase _ _ this.2
        · exact this.2

/-! ### view-level preservation (pure case analysis, `grind`) -/
end G

section views
variable {d : Bool} {N N' : Nat → Bool} {O I O' I' : Nat → Nat → Option Nat} {E E' : Nat → Option (Nat × Nat)}

/-- in a consistent graph an absent outgoing entry means the whole relation is absent -/
theorem ConsV.absent (hc : ConsV d N O I E) {a b : Nat} (hO : O a b = none) :
    I b a = none ∧ (d = false → O b a = none ∧ I a b = none) := by
  obtain ⟨h1, h2, h3, h4, h5⟩ := hc
  refine ⟨?_, fun hd => ⟨?_, ?_⟩⟩
  · cases hi : I b a with
    | none => rfl
    | some e0 => grind
  · cases hi : O b a with
    | none => rfl
    | some e0 => grind
  · cases hi : I a b with
    | none => rfl
    | some e0 => grind

theorem ConsV.link (hc : ConsV d N O I E) (a b e : Nat) (ha : N a = true) (hb : N b = true)
    (hO : O a b = none) (hE : E e = none)
    (hN : ∀ x, N' x = N x)
    (hO' : ∀ x y, O' x y = if x = a ∧ y = b then some e else if d = false ∧ x = b ∧ y = a then some e else O x y)
    (hI' : ∀ x y, I' y x = if y = b ∧ x = a then some e else if d = false ∧ y = a ∧ x = b then some e else I y x)
    (hE' : ∀ e', E' e' = if e = e' then some (a, b) else E e') :
    ConsV d N' O' I' E' := by
  have habs := hc.absent hO
  obtain ⟨h1, h2, h3, h4, h5⟩ := hc
  constructor <;> grind (splits := 40)

theorem ConsV.unlink (hc : ConsV d N O I E) (a b e : Nat) (hO : O a b = some e)
    (hN : ∀ x, N' x = N x)
    (hO' : ∀ x y, O' x y = if (x = a ∧ y = b) ∨ (d = false ∧ x = b ∧ y = a) then none else O x y)
    (hI' : ∀ x y, I' y x = if (y = b ∧ x = a) ∨ (d = false ∧ y = a ∧ x = b) then none else I y x)
    (hE' : ∀ e', E' e' = if e = e' then none else E e') :
    ConsV d N' O' I' E' := by
  obtain ⟨h1, h2, h3, h4, h5⟩ := hc
  constructor <;> grind (splits := 40)

theorem ConsV.createNode (hc : ConsV d N O I E) (n : Nat) (hn : N n = false)
    (hN : ∀ x, N' x = (decide (x = n) || N x))
    (hO' : ∀ x y, O' x y = if x = n then none else O x y)
    (hI' : ∀ x y, I' y x = if y = n then none else I y x) :
    ConsV d N' O' I' E := by
  obtain ⟨h1, h2, h3, h4, h5⟩ := hc
  constructor <;> grind (splits := 40)

/-- erasing the row of an isolated node -/
theorem ConsV.eraseNode (hc : ConsV d N O I E) (n : Nat) (hout : ∀ y, O n y = none) (hin : ∀ y, I n y = none)
    (hN : ∀ x, N' x = (!decide (x = n) && N x))
    (hO' : ∀ x y, O' x y = if x = n then none else O x y)
    (hI' : ∀ x y, I' y x = if y = n then none else I y x) :
    ConsV d N' O' I' E := by
  obtain ⟨h1, h2, h3, h4, h5⟩ := hc
  constructor <;> grind (splits := 40)

/-- `switchNodes` on a directed graph: the relation father->son (edge e) becomes son->father -/
theorem ConsV.switch (hc : ConsV true N O I E) (f s e : Nat) (hO : O f s = some e)
    (hrec : f ≠ s → O s f = none)
    (hN : ∀ x, N' x = N x)
    (hO' : ∀ x y, O' x y = if x = s ∧ y = f then some e else if x = f ∧ y = s then none else O x y)
    (hI' : ∀ x y, I' y x = if y = f ∧ x = s then some e else if y = s ∧ x = f then none else I y x)
    (hE' : ∀ e', E' e' = if e = e' then some (s, f) else E e') :
    ConsV true N' O' I' E' := by
  obtain ⟨h1, h2, h3, h4, h5⟩ := hc
  constructor <;> grind (splits := 40)

/-- `makeUndirected`: the node rows become the symmetric closure of the outgoing relation -/
theorem ConsV.undirect (hc : ConsV true N O I E)
    (hnr : ∀ x y e e', O x y = some e → O y x = some e' → x = y)
    (hN : ∀ x, N' x = N x)
    (hO' : ∀ x y, O' x y = (O x y).orElse (fun _ => O y x))
    (hI' : ∀ x y, I' y x = (O x y).orElse (fun _ => O y x)) :
    ConsV false N' O' I' E := by
  obtain ⟨h1, h2, h3, h4, h5⟩ := hc
  have key : ∀ x y e, O' x y = some e ↔ (O x y = some e ∨ (O x y = none ∧ O y x = some e)) := by
    intro x y e; rw [hO']; cases hx : O x y <;> simp
  have keyI : ∀ x y e, I' y x = some e ↔ (O x y = some e ∨ (O x y = none ∧ O y x = some e)) := by
    intro x y e; rw [hI']; cases hx : O x y <;> simp
  constructor
  · intro e a b hE
    have := h1 e a b hE
    refine ⟨(key a b e).mpr (Or.inl this.1), (keyI a b e).mpr (Or.inl this.1), fun _ => ⟨?_, ?_⟩⟩
    · apply (key b a e).mpr
      cases hba : O b a with
      | none => exact Or.inr ⟨rfl, this.1⟩
      | some e' =>
        have hab := hnr a b e e' this.1 hba
        subst hab; rw [this.1] at hba; injection hba with hba; subst hba; exact Or.inl rfl
    · apply (keyI b a e).mpr
      cases hba : O b a with
      | none => exact Or.inr ⟨rfl, this.1⟩
      | some e' =>
        have hab := hnr a b e e' this.1 hba
        subst hab; rw [this.1] at hba; injection hba with hba; subst hba; exact Or.inl rfl
  · intro a b e h
    rcases (key a b e).mp h with h | ⟨_, h⟩
    · rcases h2 a b e h with h | ⟨hd, _⟩
      · exact Or.inl h
      · cases hd
    · rcases h2 b a e h with h | ⟨hd, _⟩
      · exact Or.inr ⟨rfl, h⟩
      · cases hd
  · intro a b e h
    rcases (keyI a b e).mp h with h | ⟨_, h⟩
    · rcases h2 a b e h with h | ⟨hd, _⟩
      · exact Or.inl h
      · cases hd
    · rcases h2 b a e h with h | ⟨hd, _⟩
      · exact Or.inr ⟨rfl, h⟩
      · cases hd
  · intro a b e h
    rw [hN]
    rcases (key a b e).mp h with h | ⟨_, h⟩
    · exact h4 a b e h
    · rcases h2 b a e h with hE | ⟨hd, _⟩
      · exact h5 b a e (h1 e b a hE).2.1
      · cases hd
  · intro a b e h
    rw [hN]
    rcases (keyI a b e).mp h with h | ⟨_, h⟩
    · rcases h2 a b e h with hE | ⟨hd, _⟩
      · exact h5 a b e (h1 e a b hE).2.1
      · cases hd
    · exact h4 b a e h

end views

namespace G
/-! ### graph-level: what each mutator does to a consistent graph -/

/-- the property holds of the state left by the operation, whether it succeeded or raised -/
def _root_.Bpp.Graph.GOut.All {α : Type} (P : G → Prop) : GOut α → Prop
  | .ok _ g => P g
  | .exc g => P g

theorem cons_absent {g : G} (hc : Consistent g) {a b : Nat} (hO : g.outE a b = none) :
    g.inE b a = none ∧ (g.directed = false → g.outE b a = none ∧ g.inE a b = none) :=
  hc.views.absent hO

theorem outE_linkInEdge (a b e x y : Nat) (g : G) : (linkInEdge a b e g).outE x y = g.outE x y := rfl
theorem inE_linkInEdge (a b e x y : Nat) (g : G) : (linkInEdge a b e g).inE y x = g.inE y x := rfl
theorem hasNode_linkInEdge (a b e x : Nat) (g : G) : (linkInEdge a b e g).hasNode x = g.hasNode x := rfl

section linkWrite
variable {g : G} {a b : Nat} (e : Nat) (ha : g.hasNode a = true) (hb : g.hasNode b = true)
  (hO : g.outE a b = none) (hI : g.inE b a = none) (hU : g.directed = false → g.outE b a = none ∧ g.inE a b = none)
include ha hb hO hI hU

theorem outE_linkWrite (x y : Nat) : (linkWrite a b e g).outE x y =
    if x = a ∧ y = b then some e else if g.directed = false ∧ x = b ∧ y = a then some e else g.outE x y := by
  unfold linkWrite
  cases hd : g.directed
  · have := hU hd
    simp only [outE_linkInEdge, outE_linkInNode, hasNode_linkInNode, Bool.false_eq_true, if_false]
    grind
  · simp only [outE_linkInEdge, outE_linkInNode, if_true]
    grind

theorem inE_linkWrite (x y : Nat) : (linkWrite a b e g).inE y x =
    if y = b ∧ x = a then some e else if g.directed = false ∧ y = a ∧ x = b then some e else g.inE y x := by
  unfold linkWrite
  cases hd : g.directed
  · have := hU hd
    simp only [inE_linkInEdge, inE_linkInNode, hasNode_linkInNode, Bool.false_eq_true, if_false]
    grind
  · simp only [inE_linkInEdge, inE_linkInNode, if_true]
    grind

end linkWrite

theorem hasNode_linkWrite (a b e x : Nat) (g : G) : (linkWrite a b e g).hasNode x = g.hasNode x := by
  unfold linkWrite
  cases g.directed <;> simp [hasNode_linkInEdge, hasNode_linkInNode]

theorem find_linkWrite (a b e e' : Nat) (g : G) :
    find e' (linkWrite a b e g).edges = if e = e' then some (a, b) else find e' g.edges := by
  unfold linkWrite
  rw [find_linkInEdge]
  cases g.directed <;> rfl

theorem linkWrite_rest (a b e : Nat) (g : G) : (linkWrite a b e g).directed = g.directed ∧
    (linkWrite a b e g).nextNode = g.nextNode ∧ (linkWrite a b e g).nextEdge = g.nextEdge ∧
    (linkWrite a b e g).root = g.root ∧ (linkWrite a b e g).pending = g.pending := by
  unfold linkWrite; cases hd : g.directed <;> simp [linkInEdge, linkInNode, hd]

theorem sorted_linkWrite (a b e : Nat) (g : G) (h : Sorted g) : Sorted (linkWrite a b e g) := by
  unfold linkWrite
  cases g.directed
  · exact sorted_linkInEdge _ _ _ _ (sorted_linkInNode _ _ _ _ (sorted_linkInNode _ _ _ _ h))
  · exact sorted_linkInEdge _ _ _ _ (sorted_linkInNode _ _ _ _ h)

/-- writing a fresh edge between two existing, unrelated nodes keeps the graph consistent -/
theorem consistent_linkWrite {g : G} (hc : Consistent g) {a b e : Nat} (ha : g.hasNode a = true) (hb : g.hasNode b = true)
    (hO : g.outE a b = none) (hE : find e g.edges = none) (hlt : e < g.nextEdge) :
    Consistent (linkWrite a b e g) := by
  have habs := cons_absent hc hO
  have r := linkWrite_rest a b e g
  refine ⟨?_, ?_, ?_, sorted_linkWrite _ _ _ _ hc.sorted⟩
  · rw [r.1]
    exact hc.views.link a b e ha hb hO hE (hasNode_linkWrite a b e · g)
      (outE_linkWrite e ha hb hO habs.1 habs.2) (fun x y => inE_linkWrite e ha hb hO habs.1 habs.2 x y)
      (fun e' => find_linkWrite a b e e' g)
  · intro n hn; rw [hasNode_linkWrite] at hn; rw [r.2.1]; exact hc.node_lt n hn
  · intro e' he'
    rw [r.2.2.1]
    simp only [hasEdge, has, find_linkWrite] at he'
    by_cases h : e = e'
    · subst h; exact hlt
    · simp only [h, if_false] at he'; exact hc.edge_lt e' he'

theorem fresh_node {g : G} (hc : Consistent g) : g.hasNode g.nextNode = false := by
  cases h : g.hasNode g.nextNode with
  | false => rfl
  | true => have := hc.node_lt _ h; omega

theorem fresh_edge {g : G} (hc : Consistent g) {e : Nat} (he : g.nextEdge ≤ e) : find e g.edges = none := by
  rcases find_cases e g.edges with hf | ⟨r, hf⟩
  · exact hf
  · have : g.hasEdge e = true := by simp [hasEdge, has, hf]
    have := hc.edge_lt _ this; omega

theorem linkRefused_false {g : G} {a b : Nat} (h : linkRefused g a b = false) :
    g.hasNode a = true ∧ g.hasNode b = true ∧ g.outE a b = none := by
  unfold linkRefused at h
  cases h1 : g.hasNode a <;> cases h2 : g.hasNode b <;> cases h3 : g.outE a b <;> simp_all

/-- `link` -/
theorem link_consistent {g : G} (hc : Consistent g) (a b : Nat) : (link a b g).All Consistent := by
  unfold link
  cases hr : linkRefused g a b
  · obtain ⟨ha, hb, hO⟩ := linkRefused_false hr
    simp only [Bool.false_eq_true, if_false, GOut.All]
    have hc0 : Consistent { g with nextEdge := g.nextEdge + 1 } :=
      ⟨hc.views, hc.node_lt, fun e he => Nat.lt_succ_of_lt (hc.edge_lt e he), ⟨hc.sorted.nodes, hc.sorted.edges, hc.sorted.rows⟩⟩
    exact consistent_linkWrite hc0 ha hb hO (fresh_edge hc (Nat.le_refl _)) (Nat.lt_succ_self _)
  · simpa [GOut.All] using hc

/-- `link` with a given edge id -/
theorem linkE_consistent {g : G} (hc : Consistent g) (a b e : Nat) : (linkE a b e g).All Consistent := by
  unfold linkE
  cases he : g.hasEdge e
  · cases hr : linkRefused g a b
    · obtain ⟨ha, hb, hO⟩ := linkRefused_false hr
      simp only [Bool.false_eq_true, if_false, GOut.All]
      have hE : find e g.edges = none := by
        simp only [hasEdge, has] at he
        rcases find_cases e g.edges with hf | ⟨r, hf⟩
        · exact hf
        · simp [hf] at he
      by_cases hge : e ≥ g.nextEdge
      · simp only [hge, if_true]
        have hc0 : Consistent { g with nextEdge := e + 1 } :=
          ⟨hc.views, hc.node_lt, fun e' he' => by have := hc.edge_lt e' he'; show e' < e + 1; omega, ⟨hc.sorted.nodes, hc.sorted.edges, hc.sorted.rows⟩⟩
        exact consistent_linkWrite hc0 ha hb hO hE (Nat.lt_succ_self _)
      · simp only [hge, if_false]
        exact consistent_linkWrite hc ha hb hO hE (by omega)
    · simpa [GOut.All] using hc
  · simpa [GOut.All] using hc

/-- `createNode` -/
theorem createNode_consistent {g : G} (hc : Consistent g) : (createNode g).All Consistent := by
  unfold createNode
  simp only [GOut.All]
  have hn := fresh_node hc
  have hrow : ∀ x, find x (AL.set g.nextNode ({} : Row) g.nodes) = if g.nextNode = x then some {} else find x g.nodes :=
    fun x => find_set _ _ _ _
  refine ⟨?_, ?_, hc.edge_lt, ?_⟩
  · refine hc.views.createNode g.nextNode hn ?_ ?_ ?_
    · intro x
      simp only [hasNode, has, hrow]
      by_cases h : g.nextNode = x
      · subst h; simp
      · have : ¬ x = g.nextNode := fun h' => h h'.symm
        simp [h, this]
    · intro x y
      simp only [outE, hrow]
      by_cases h : g.nextNode = x
      · subst h; simp [find]
      · have : ¬ x = g.nextNode := fun h' => h h'.symm
        simp [h, this]
    · intro x y
      simp only [inE, hrow]
      by_cases h : g.nextNode = y
      · subst h; simp [find]
      · have : ¬ y = g.nextNode := fun h' => h h'.symm
        simp [h, this]
  · intro n hn'
    simp only [hasNode, has, hrow] at hn'
    show n < g.nextNode + 1
    by_cases h : g.nextNode = n
    · omega
    · simp only [h, if_false] at hn'
      have := hc.node_lt n hn'; omega
  · refine ⟨asc_set _ _ _ hc.sorted.nodes, hc.sorted.edges, ?_⟩
    intro n r hr
    simp only [hrow] at hr
    by_cases h : g.nextNode = n
    · simp only [h, if_true, Option.some.injEq] at hr
      subst hr; exact ⟨asc_nil, asc_nil⟩
    · simp only [h, if_false] at hr
      exact hc.sorted.rows n r hr

theorem setRoot_consistent {g : G} (hc : Consistent g) (n : Nat) : (setRoot n g).All Consistent := by
  unfold setRoot
  split
  · exact ⟨hc.views, hc.node_lt, hc.edge_lt, ⟨hc.sorted.nodes, hc.sorted.edges, hc.sorted.rows⟩⟩
  · exact hc

/-! #### unlink -/

theorem unlinkInNode_none {g : G} {a b : Nat} (h : g.outE a b = none) : unlinkInNode a b g = .exc g := by
  unfold outE at h
  unfold unlinkInNode
  rcases find_cases a g.nodes with hf | ⟨ra, hf⟩
  · simp [hf]
  · simp only [hf, Option.bind_some] at h
    simp [hf, h]

theorem unlink_none {g : G} {a b : Nat} (h : g.outE a b = none) : unlink a b g = .exc g := by
  unfold unlink; rw [unlinkInNode_none h]

/-- what a successful `unlink(a,b)` did: the relation a->b (edge e) is gone from all three views -/
structure Unlinked (a b e : Nat) (g g' : G) : Prop where
  hasNode : ∀ n, g'.hasNode n = g.hasNode n
  keys : AL.keys g'.nodes = AL.keys g.nodes
  outE : ∀ x y, g'.outE x y = if (x = a ∧ y = b) ∨ (g.directed = false ∧ x = b ∧ y = a) then none else g.outE x y
  inE : ∀ x y, g'.inE y x = if (y = b ∧ x = a) ∨ (g.directed = false ∧ y = a ∧ x = b) then none else g.inE y x
  edges : g'.edges = erase e g.edges
  rest : g'.directed = g.directed ∧ g'.nextNode = g.nextNode ∧ g'.nextEdge = g.nextEdge ∧ g'.root = g.root
  pending : g'.pending = g.pending ++ [.edges [e]]
  sorted : Sorted g → Sorted g'

theorem cons_out_some {g : G} (hc : Consistent g) {a b e : Nat} (h : g.outE a b = some e) :
    g.inE b a = some e ∧ g.hasEdge e = true ∧ (g.directed = false → g.outE b a = some e ∧ g.inE a b = some e) := by
  obtain ⟨h1, h2, h3, h4, h5⟩ := hc.views
  have := h2 a b e h
  simp only [G.hasEdge, has]
  rcases this with h | ⟨hd, h⟩
  · have := h1 e a b h
    refine ⟨this.2.1, by simp [h], this.2.2⟩
  · have := h1 e b a h
    have h' := this.2.2 hd
    refine ⟨h'.2, by simp [h], fun _ => ⟨this.1, this.2.1⟩⟩

theorem unlink_some {g : G} (hc : Consistent g) {a b e : Nat} (h : g.outE a b = some e) :
    ∃ g', unlink a b g = .ok [e] g' ∧ Unlinked a b e g g' := by
  obtain ⟨hI, hEd, hU⟩ := cons_out_some hc h
  obtain ⟨g1, h1⟩ := unlinkInNode_succeeds h hI
  have u1 := unlinkInNode_ok h1
  unfold unlink
  rw [h1]
  by_cases hcase : (!g.directed && decide (a ≠ b)) = true
  · -- undirected, a ≠ b: the reverse relation is removed too
    have hd : g.directed = false := by cases hd : g.directed <;> simp_all
    have hab : a ≠ b := by simpa [hd] using hcase
    obtain ⟨hO2, hI2⟩ := hU hd
    have hO2' : g1.outE b a = some e := by rw [u1.outE]; simp [hO2, hab, Ne.symm hab]
    have hI2' : g1.inE a b = some e := by rw [u1.inE]; simp [hI2, hab, Ne.symm hab]
    obtain ⟨g2, h2⟩ := unlinkInNode_succeeds hO2' hI2'
    have u2 := unlinkInNode_ok h2
    simp only [hcase, if_true, h2]
    have hE2 : g2.hasEdge e = true := by
      simp only [hasEdge, u2.rest.1, u1.rest.1]; exact hEd
    simp only [unlinkInEdge, hE2, if_true]
    refine ⟨_, rfl, ?_⟩
    refine ⟨fun n => by rw [← u1.hasNode n, ← u2.hasNode n]; rfl, by rw [← u1.keys, ← u2.keys], ?_, ?_,
      by simp [u2.rest.1, u1.rest.1], by simp [u2.rest, u1.rest], by simp [u2.rest, u1.rest], ?_⟩
    · intro x y
      have := u2.outE x y; have := u1.outE x y
      simp only [G.outE] at *
      grind
    · intro x y
      have := u2.inE x y; have := u1.inE x y
      simp only [G.inE] at *
      grind
    · intro hs
      have s2 := u2.sorted (u1.sorted hs)
      exact ⟨s2.nodes, asc_erase _ _ s2.edges, s2.rows⟩
  · have hcase' : (!g.directed && decide (a ≠ b)) = false := by simpa using hcase
    simp only [hcase', Bool.false_eq_true, if_false]
    have hE1 : g1.hasEdge e = true := by simp only [hasEdge, u1.rest.1]; exact hEd
    simp only [unlinkInEdge, hE1, if_true]
    refine ⟨_, rfl, ?_⟩
    refine ⟨fun n => u1.hasNode n, u1.keys, ?_, ?_, by simp [u1.rest.1], by simp [u1.rest], by simp [u1.rest], ?_⟩
    · intro x y
      have := u1.outE x y
      simp only [G.outE] at *
      grind
    · intro x y
      have := u1.inE x y
      simp only [G.inE] at *
      grind
    · intro hs
      have s1 := u1.sorted hs
      exact ⟨s1.nodes, asc_erase _ _ s1.edges, s1.rows⟩

theorem Unlinked.consistent {a b e : Nat} {g g' : G} (u : Unlinked a b e g g') (hc : Consistent g)
    (h : g.outE a b = some e) : Consistent g' := by
  refine ⟨?_, ?_, ?_, u.sorted hc.sorted⟩
  · rw [u.rest.1]
    exact hc.views.unlink a b e h u.hasNode u.outE u.inE (fun e' => by rw [u.edges, find_erase])
  · intro n hn; rw [u.hasNode] at hn; rw [u.rest.2.1]; exact hc.node_lt n hn
  · intro e' he'
    rw [u.rest.2.2.1]
    simp only [hasEdge, has, u.edges, find_erase] at he'
    by_cases h : e = e'
    · simp [h] at he'
    · simp only [h, if_false] at he'; exact hc.edge_lt e' he'

theorem unlink_consistent {g : G} (hc : Consistent g) (a b : Nat) : (unlink a b g).All Consistent := by
  rcases hO : g.outE a b with _ | e
  · rw [unlink_none hO]; exact hc
  · obtain ⟨g', h, u⟩ := unlink_some hc hO
    rw [h]; exact u.consistent hc hO

/-! #### switchNodes -/

theorem row_switchedNodes (f s e x : Nat) (nodes : List (Nat × Row)) :
    find x (switchedNodes f s e nodes) = (find x nodes).map (fun r =>
      { out := (fun o => if x = s then AL.set f e o else o) (if x = f then erase s r.out else r.out),
        inn := (fun i => if x = f then AL.set s e i else i) (if x = s then erase f r.inn else r.inn) }) := by
  simp only [switchedNodes, find_modify]
  rcases find_cases x nodes with hf | ⟨r, hf⟩
  · by_cases h1 : f = x <;> by_cases h2 : s = x <;> simp_all
  · by_cases h1 : f = x <;> by_cases h2 : s = x
    · subst h1; subst h2; simp [hf]
    · subst h1; have : ¬ f = s := fun h => h2 h.symm
      simp [hf, h2, this]
    · subst h2; have : ¬ s = f := fun h => h1 h.symm
      simp [hf, h1, this]
    · have h1' : ¬ x = f := fun h => h1 h.symm
      have h2' : ¬ x = s := fun h => h2 h.symm
      simp [hf, h1, h2, h1', h2']

theorem outE_switched (f s e x y : Nat) (nodes : List (Nat × Row)) :
    (find x (switchedNodes f s e nodes)).bind (fun r => find y r.out) =
      if x = s ∧ y = f ∧ (find s nodes).isSome = true then some e
      else if x = f ∧ y = s then none else (find x nodes).bind (fun r => find y r.out) := by
  rw [row_switchedNodes]
  rcases find_cases x nodes with hf | ⟨r, hf⟩
  · by_cases h1 : x = s
    · subst h1; simp [hf]
    · simp [hf, h1]
  · by_cases h1 : x = s
    · subst h1
      by_cases h2 : x = f
      · subst h2
        by_cases h3 : y = x
        · subst h3; simp [hf, find_set]
        · have : ¬ x = y := fun h => h3 h.symm
          simp [hf, find_set, find_erase, h3, this]
      · by_cases h3 : y = f
        · subst h3; simp [hf, find_set, h2]
        · have : ¬ f = y := fun h => h3 h.symm
          simp [hf, find_set, h2, h3, this]
    · by_cases h2 : x = f
      · subst h2
        by_cases h3 : y = s
        · subst h3; simp [hf, find_erase, h1]
        · have : ¬ s = y := fun h => h3 h.symm
          simp [hf, find_erase, h1, h3, this]
      · simp [hf, h1, h2]

theorem inE_switched (f s e x y : Nat) (nodes : List (Nat × Row)) :
    (find y (switchedNodes f s e nodes)).bind (fun r => find x r.inn) =
      if y = f ∧ x = s ∧ (find f nodes).isSome = true then some e
      else if y = s ∧ x = f then none else (find y nodes).bind (fun r => find x r.inn) := by
  rw [row_switchedNodes]
  rcases find_cases y nodes with hf | ⟨r, hf⟩
  · by_cases h1 : y = f
    · subst h1; simp [hf]
    · simp [hf, h1]
  · by_cases h1 : y = f
    · subst h1
      by_cases h2 : y = s
      · subst h2
        by_cases h3 : x = y
        · subst h3; simp [hf, find_set]
        · have : ¬ y = x := fun h => h3 h.symm
          simp [hf, find_set, find_erase, h3, this]
      · by_cases h3 : x = s
        · subst h3; simp [hf, find_set, h2]
        · have : ¬ s = x := fun h => h3 h.symm
          simp [hf, find_set, h2, h3, this]
    · by_cases h2 : y = s
      · subst h2
        by_cases h3 : x = f
        · subst h3; simp [hf, find_erase, h1]
        · have : ¬ f = x := fun h => h3 h.symm
          simp [hf, find_erase, h1, h3, this]
      · simp [hf, h1, h2]

theorem switchFrom_exc {g g' : G} {f s e : Nat} (h : switchFrom f s e g = .exc g') : g' = g := by
  unfold switchFrom at h
  split at h
  · injection h with h; exact h.symm
  · split at h
    · injection h with h; exact h.symm
    · cases h

theorem switchNodes_exc {g g' : G} {a b : Nat} (h : switchNodes a b g = .exc g') : g' = g := by
  unfold switchNodes at h
  split at h
  · injection h with h; exact h.symm
  · split at h
    · injection h with h; exact h.symm
    · split at h
      · exact switchFrom_exc h
      · split at h
        · exact switchFrom_exc h
        · injection h with h; exact h.symm

theorem switchFrom_consistent {g : G} (hc : Consistent g) (hd : g.directed = true) {f s e : Nat}
    (hO : g.outE f s = some e) : (switchFrom f s e g).All Consistent := by
  unfold switchFrom
  split
  · exact hc
  · split
    · exact hc
    · rename_i hin hrec
      have hrec' : f ≠ s → g.outE s f = none := by
        intro hne
        cases h1 : g.outE s f with
        | none => rfl
        | some e0 => simp [hne, h1] at hrec
      have hnf : g.hasNode f = true := outE_some_hasNode hO
      have hns : g.hasNode s = true := inE_some_hasNode (cons_out_some hc hO).1
      simp only [GOut.All]
      have hrow := row_switchedNodes f s e
      have hv := hc.views
      rw [hd] at hv
      refine ⟨?_, ?_, ?_, ?_⟩
      · show ConsV g.directed _ _ _ _
        rw [hd]
        refine hv.switch f s e hO hrec' (N' := fun n => AL.has n (switchedNodes f s e g.nodes)) ?_ ?_ ?_ ?_
        · intro x
          simp only [hasNode, has, hrow]
          rcases find_cases x g.nodes with hf | ⟨r, hf⟩ <;> simp [hf]
        · intro x y
          simp only [outE, outE_switched]
          simp only [hasNode, has] at hns
          simp [hns]
        · intro x y
          simp only [inE, inE_switched]
          simp only [hasNode, has] at hnf
          simp [hnf]
        · intro e'; simp [find_set]
      · intro n hn
        simp only [hasNode, has, hrow] at hn
        apply hc.node_lt n
        simp only [hasNode, has]
        rcases find_cases n g.nodes with hf | ⟨r, hf⟩ <;> simp_all
      · intro e' he'
        simp only [hasEdge, has, find_set] at he'
        by_cases h : e = e'
        · subst h
          exact hc.edge_lt e (cons_out_some hc hO).2.1
        · simp only [h, if_false] at he'; exact hc.edge_lt e' he'
      · refine ⟨?_, asc_set _ _ _ hc.sorted.edges, ?_⟩
        · simp only [switchedNodes]
          exact asc_modify _ _ _ (asc_modify _ _ _ (asc_modify _ _ _ (asc_modify _ _ _ hc.sorted.nodes)))
        · intro n r hr
          simp only [hrow] at hr
          rcases find_cases n g.nodes with hf | ⟨r0, hf⟩
          · simp [hf] at hr
          · simp only [hf, Option.map_some, Option.some.injEq] at hr
            subst hr
            have := hc.sorted.rows n r0 hf
            constructor
            · dsimp only
              split <;> split <;> first | exact asc_set _ _ _ (asc_erase _ _ this.1) | exact asc_set _ _ _ this.1 | exact asc_erase _ _ this.1 | exact this.1
            · dsimp only
              split <;> split <;> first | exact asc_set _ _ _ (asc_erase _ _ this.2) | exact asc_set _ _ _ this.2 | exact asc_erase _ _ this.2 | exact this.2

theorem switchNodes_consistent {g : G} (hc : Consistent g) (a b : Nat) : (switchNodes a b g).All Consistent := by
  unfold switchNodes
  split
  · exact hc
  · rename_i hd
    have hd' : g.directed = true := by simpa using hd
    split
    · exact hc
    · split
      · rename_i e he; exact switchFrom_consistent hc hd' he
      · split
        · rename_i e he; exact switchFrom_consistent hc hd' he
        · exact hc

/-! #### composite creators -/

theorem createNodeFromNode_consistent {g : G} (hc : Consistent g) (o : Nat) : (createNodeFromNode o g).All Consistent := by
  unfold createNodeFromNode
  split
  · exact hc
  · have h1 := createNode_consistent hc
    rcases hr1 : createNode g with ⟨n, g1⟩ | g1 <;> rw [hr1] at h1 <;> simp only [GOut.All] at h1 ⊢
    · have h2 := link_consistent h1 o n
      rcases hr2 : link o n g1 with ⟨e, g2⟩ | g2 <;> rw [hr2] at h2 <;> simpa [GOut.All] using h2
    · exact h1

theorem createNodeOnEdge_consistent {g : G} (hc : Consistent g) (e : Nat) : (createNodeOnEdge e g).All Consistent := by
  unfold createNodeOnEdge
  split
  · exact hc
  · rename_i a b hab
    split
    · exact hc
    · have h1 := createNode_consistent hc
      rcases hr1 : createNode g with ⟨n, g1⟩ | g1 <;> rw [hr1] at h1 <;> simp only [GOut.All] at h1 ⊢
      · have h2 := unlink_consistent h1 a b
        rcases hr2 : unlink a b g1 with ⟨l, g2⟩ | g2 <;> rw [hr2] at h2 <;> simp only [GOut.All] at h2 ⊢
        · have h3 := link_consistent h2 a n
          rcases hr3 : link a n g2 with ⟨e1, g3⟩ | g3 <;> rw [hr3] at h3 <;> simp only [GOut.All] at h3 ⊢
          · have h4 := link_consistent h3 n b
            rcases hr4 : link n b g3 with ⟨e2, g4⟩ | g4 <;> rw [hr4] at h4 <;> simpa [GOut.All] using h4
          · exact h3
        · exact h2
      · exact h1

theorem createNodeFromEdge_consistent {g : G} (hc : Consistent g) (e : Nat) : (createNodeFromEdge e g).All Consistent := by
  unfold createNodeFromEdge
  split
  · exact hc
  · have h1 := createNodeOnEdge_consistent hc e
    rcases hr1 : createNodeOnEdge e g with ⟨n, g1⟩ | g1 <;> rw [hr1] at h1 <;> simp only [GOut.All] at h1 ⊢
    · exact createNodeFromNode_consistent h1 n
    · exact h1

/-! #### deleteNode: the loops of `isolate_` -/

/-- `unlink` over a list of pairs, stopping at the first one that raises -/
def unlinkMany : List (Nat × Nat) → G → GOut Unit
  | [], g => .ok () g
  | p :: rest, g =>
    match unlink p.1 p.2 g with
    | .exc g' => .exc g'
    | .ok _ g' => unlinkMany rest g'

theorem isolateOut_eq (n : Nat) (l : List Nat) (g : G) : isolateOut n l g = unlinkMany (l.map (fun y => (n, y))) g := by
  induction l generalizing g with
  | nil => rfl
  | cons y r ih =>
    simp only [isolateOut, List.map_cons, unlinkMany]
    cases unlink n y g <;> simp [ih]

theorem isolateIn_eq (n : Nat) (l : List Nat) (g : G) : isolateIn n l g = unlinkMany (l.map (fun y => (y, n))) g := by
  induction l generalizing g with
  | nil => rfl
  | cons y r ih =>
    simp only [isolateIn, List.map_cons, unlinkMany]
    cases unlink y n g <;> simp [ih]

theorem unlinkMany_consistent {g : G} (hc : Consistent g) (ps : List (Nat × Nat)) : (unlinkMany ps g).All Consistent := by
  induction ps generalizing g with
  | nil => exact hc
  | cons p r ih =>
    simp only [unlinkMany]
    have h := unlink_consistent hc p.1 p.2
    rcases hr : unlink p.1 p.2 g with ⟨l, g1⟩ | g1 <;> rw [hr] at h <;> simp only [GOut.All] at h ⊢
    · exact ih h
    · exact h

/-- the relation x -> y is one of the removed ones (either orientation when undirected) -/
def Rel (d : Bool) (ps : List (Nat × Nat)) (x y : Nat) : Prop := (x, y) ∈ ps ∨ (d = false ∧ (y, x) ∈ ps)

instance (d : Bool) (ps : List (Nat × Nat)) (x y : Nat) : Decidable (Rel d ps x y) := by unfold Rel; infer_instance

structure UnlinkedMany (ps : List (Nat × Nat)) (g g' : G) : Prop where
  hasNode : ∀ n, g'.hasNode n = g.hasNode n
  keys : AL.keys g'.nodes = AL.keys g.nodes
  outE : ∀ x y, g'.outE x y = if Rel g.directed ps x y then none else g.outE x y
  inE : ∀ x y, g'.inE y x = if Rel g.directed ps x y then none else g.inE y x
  edges : ∀ e, find e g'.edges =
    match find e g.edges with
    | some (a, b) => if Rel g.directed ps a b then none else some (a, b)
    | none => none
  rest : g'.directed = g.directed ∧ g'.nextNode = g.nextNode ∧ g'.nextEdge = g.nextEdge ∧ g'.root = g.root

/-- the pairs are distinct relations: a later pair is neither an earlier one nor (undirected) its reverse -/
def DistinctRel (d : Bool) : List (Nat × Nat) → Prop
  | [] => True
  | p :: rest => ¬ Rel d rest p.1 p.2 ∧ DistinctRel d rest

theorem unlinkMany_spec {g : G} (hc : Consistent g) (ps : List (Nat × Nat))
    (hpres : ∀ p ∈ ps, (g.outE p.1 p.2).isSome = true) (hdist : DistinctRel g.directed ps) :
    ∃ g', unlinkMany ps g = .ok () g' ∧ Consistent g' ∧ UnlinkedMany ps g g' := by
  induction ps generalizing g with
  | nil =>
    refine ⟨g, rfl, hc, ⟨fun _ => rfl, rfl, ?_, ?_, ?_, by simp⟩⟩
    · intro x y; simp [Rel]
    · intro x y; simp [Rel]
    · intro e; rcases find_cases e g.edges with hf | ⟨⟨a, b⟩, hf⟩ <;> simp [hf, Rel]
  | cons p r ih =>
    obtain ⟨a, b⟩ := p
    have hab := hpres (a, b) (by simp)
    rcases hO : g.outE a b with _ | e
    · simp [hO] at hab
    · obtain ⟨g1, h1, u1⟩ := unlink_some hc hO
      have hc1 := u1.consistent hc hO
      have hd1 : g1.directed = g.directed := u1.rest.1
      obtain ⟨hnr, hdr⟩ := hdist
      have hpres1 : ∀ p ∈ r, (g1.outE p.1 p.2).isSome = true := by
        intro q hq
        rw [u1.outE]
        have hq' := hpres q (by simp [hq])
        have : ¬ ((q.1 = a ∧ q.2 = b) ∨ (g.directed = false ∧ q.1 = b ∧ q.2 = a)) := by
          intro hh
          apply hnr
          rcases hh with ⟨h1, h2⟩ | ⟨hd, h1, h2⟩
          · left; show (a, b) ∈ r; rw [← h1, ← h2]; exact hq
          · right; refine ⟨hd, ?_⟩; show (b, a) ∈ r; rw [← h1, ← h2]; exact hq
        simp [this, hq']
      obtain ⟨g', h2, hc', u2⟩ := ih hc1 hpres1 (by rw [hd1]; exact hdr)
      refine ⟨g', by simp [unlinkMany, h1, h2], hc', ?_⟩
      refine ⟨fun n => by rw [u2.hasNode, u1.hasNode], by rw [u2.keys, u1.keys], ?_, ?_, ?_, by simp [u2.rest, u1.rest]⟩
      · intro x y
        rw [u2.outE, u1.outE, hd1]
        simp only [Rel, List.mem_cons, Prod.mk.injEq]
        grind
      · intro x y
        rw [u2.inE, u1.inE, hd1]
        simp only [Rel, List.mem_cons, Prod.mk.injEq]
        grind
      · intro e'
        rw [u2.edges, u1.edges, find_erase, hd1]
        by_cases hee : e = e'
        · subst hee
          -- the erased edge is the one between a and b
          have hE := hc.views.out_edge a b e hO
          rcases hE with hE | ⟨hd, hE⟩
          · simp [hE, Rel]
          · simp [hE, Rel, hd]
        · simp only [hee, if_false]
          rcases find_cases e' g.edges with hf | ⟨⟨x, y⟩, hf⟩
          · simp [hf]
          · simp only [hf]
            -- an edge other than e is not between a and b
            have hne : ¬ ((x = a ∧ y = b) ∨ (g.directed = false ∧ x = b ∧ y = a)) := by
              intro hh
              have hl := hc.views.edge_listed e' x y hf
              rcases hh with ⟨h1, h2⟩ | ⟨hd, h1, h2⟩
              · subst h1; subst h2; rw [hl.1] at hO; injection hO with hO; exact hee hO.symm
              · subst h1; subst h2; rw [(hl.2.2 hd).1] at hO; injection hO with hO; exact hee hO.symm
            simp only [Rel, List.mem_cons, Prod.mk.injEq]
            grind

theorem distinct_out (d : Bool) (n : Nat) (l : List Nat) (h : List.Pairwise (· < ·) l) :
    DistinctRel d (l.map (fun y => (n, y))) := by
  induction l with
  | nil => trivial
  | cons y r ih =>
    rw [List.pairwise_cons] at h
    refine ⟨?_, ih h.2⟩
    simp only [Rel, List.mem_map, Prod.mk.injEq]
    rintro (⟨y', hy', _, rfl⟩ | ⟨_, y', hy', rfl, rfl⟩)
    · have := h.1 _ hy'; omega
    · have := h.1 _ hy'; omega

theorem distinct_in (d : Bool) (n : Nat) (l : List Nat) (h : List.Pairwise (· < ·) l) :
    DistinctRel d (l.map (fun y => (y, n))) := by
  induction l with
  | nil => trivial
  | cons y r ih =>
    rw [List.pairwise_cons] at h
    refine ⟨?_, ih h.2⟩
    simp only [Rel, List.mem_map, Prod.mk.injEq]
    rintro (⟨y', hy', rfl, _⟩ | ⟨_, y', hy', rfl, rfl⟩)
    · have := h.1 _ hy'; omega
    · have := h.1 _ hy'; omega

theorem mem_outKeys {g : G} {n y : Nat} : y ∈ g.outKeys n ↔ (g.outE n y).isSome = true := by
  unfold outKeys G.outE
  rcases find_cases n g.nodes with hf | ⟨r, hf⟩
  · simp [hf]
  · simp [hf, mem_keys_iff]

theorem mem_inKeys {g : G} {n y : Nat} : y ∈ g.inKeys n ↔ (g.inE n y).isSome = true := by
  unfold inKeys G.inE
  rcases find_cases n g.nodes with hf | ⟨r, hf⟩
  · simp [hf]
  · simp [hf, mem_keys_iff]

theorem asc_outKeys {g : G} (hs : Sorted g) (n : Nat) : List.Pairwise (· < ·) (g.outKeys n) := by
  unfold outKeys
  rcases find_cases n g.nodes with hf | ⟨r, hf⟩
  · simp [hf]
  · simp only [hf]; exact (hs.rows n r hf).1

theorem asc_inKeys {g : G} (hs : Sorted g) (n : Nat) : List.Pairwise (· < ·) (g.inKeys n) := by
  unfold inKeys
  rcases find_cases n g.nodes with hf | ⟨r, hf⟩
  · simp [hf]
  · simp only [hf]; exact (hs.rows n r hf).2

/-- what `deleteNode n` did: `n` and every relation touching it are gone from all views -/
structure Deleted (n : Nat) (g g' : G) : Prop where
  hasNode : ∀ x, g'.hasNode x = (!decide (x = n) && g.hasNode x)
  keys : AL.keys g'.nodes = (AL.keys g.nodes).filter (· ≠ n)
  outE : ∀ x y, g'.outE x y = if x = n ∨ y = n then none else g.outE x y
  inE : ∀ x y, g'.inE y x = if x = n ∨ y = n then none else g.inE y x
  edges : ∀ e, find e g'.edges =
    match find e g.edges with
    | some (a, b) => if a = n ∨ b = n then none else some (a, b)
    | none => none
  rest : g'.directed = g.directed ∧ g'.nextNode = g.nextNode ∧ g'.nextEdge = g.nextEdge ∧ g'.root = g.root

theorem deleteNode_absent {g : G} {n : Nat} (h : g.hasNode n = false) : deleteNode n g = .exc g := by
  simp [deleteNode, h]

theorem deleteNode_spec {g : G} (hc : Consistent g) {n : Nat} (hn : g.hasNode n = true) :
    ∃ g', deleteNode n g = .ok () g' ∧ Consistent g' ∧ Deleted n g g' := by
  -- first loop
  have hp1 : ∀ p ∈ (g.outKeys n).map (fun y => (n, y)), (g.outE p.1 p.2).isSome = true := by
    intro p hp
    simp only [List.mem_map] at hp
    obtain ⟨y, hy, rfl⟩ := hp
    exact mem_outKeys.mp hy
  obtain ⟨g1, h1, hc1, u1⟩ := unlinkMany_spec hc _ hp1 (distinct_out _ n _ (asc_outKeys hc.sorted n))
  have hd1 : g1.directed = g.directed := u1.rest.1
  have hO1 : ∀ y, g1.outE n y = none := by
    intro y
    rw [u1.outE]
    by_cases hy : y ∈ g.outKeys n
    · have : Rel g.directed ((g.outKeys n).map (fun y => (n, y))) n y := Or.inl (List.mem_map.mpr ⟨y, hy, rfl⟩)
      simp [this]
    · have : g.outE n y = none := by
        have := mt mem_outKeys.mpr hy
        cases h : g.outE n y <;> simp_all
      split <;> simp [this]
  -- second loop
  have hp2 : ∀ p ∈ (g1.inKeys n).map (fun y => (y, n)), (g1.outE p.1 p.2).isSome = true := by
    intro p hp
    simp only [List.mem_map] at hp
    obtain ⟨y, hy, rfl⟩ := hp
    have hI := mem_inKeys.mp hy
    rcases hIe : g1.inE n y with _ | e
    · simp [hIe] at hI
    · have := hc1.views.in_edge y n e hIe
      rcases this with hE | ⟨hd, hE⟩
      · simp [(hc1.views.edge_listed e y n hE).1]
      · have := (hc1.views.edge_listed e n y hE).1
        rw [hO1] at this; cases this
  obtain ⟨g2, h2, hc2, u2⟩ := unlinkMany_spec hc1 _ hp2 (distinct_in _ n _ (asc_inKeys hc1.sorted n))
  have hO2 : ∀ y, g2.outE n y = none := by
    intro y; rw [u2.outE, hO1]; split <;> rfl
  have hI2 : ∀ y, g2.inE n y = none := by
    intro y
    rw [u2.inE]
    by_cases hy : y ∈ g1.inKeys n
    · have : Rel g1.directed ((g1.inKeys n).map (fun y => (y, n))) y n := Or.inl (List.mem_map.mpr ⟨y, hy, rfl⟩)
      simp [this]
    · have : g1.inE n y = none := by
        have := mt mem_inKeys.mpr hy
        cases h : g1.inE n y <;> simp_all
      split <;> simp [this]
  have hn1 : g1.hasNode n = true := by rw [u1.hasNode]; exact hn
  have hn2 : g2.hasNode n = true := by rw [u2.hasNode]; exact hn1
  have hrun : deleteNode n g = .ok () { g2 with nodes := AL.erase n g2.nodes, pending := g2.pending ++ [.nodes [n]] } := by
    simp only [deleteNode, hn, isolateOut_eq, h1, hn1, isolateIn_eq, h2, hn2]
    simp
  -- views of the final state
  have hrow : ∀ x, find x (AL.erase n g2.nodes) = if n = x then none else find x g2.nodes := fun x => find_erase _ _ _
  have hN' : ∀ x, AL.has x (AL.erase n g2.nodes) = (!decide (x = n) && g2.hasNode x) := by
    intro x
    simp only [has, hrow, G.hasNode]
    by_cases h : n = x
    · subst h; simp
    · have : ¬ x = n := fun h' => h h'.symm
      simp [h, this]
  have hOf : ∀ x y, (find x (AL.erase n g2.nodes)).bind (fun r => find y r.out) = if x = n then none else g2.outE x y := by
    intro x y
    simp only [hrow, G.outE]
    by_cases h : n = x
    · subst h; simp
    · have : ¬ x = n := fun h' => h h'.symm
      simp [h, this]
  have hIf : ∀ x y, (find y (AL.erase n g2.nodes)).bind (fun r => find x r.inn) = if y = n then none else g2.inE y x := by
    intro x y
    simp only [hrow, G.inE]
    by_cases h : n = y
    · subst h; simp
    · have : ¬ y = n := fun h' => h h'.symm
      simp [h, this]
  refine ⟨_, hrun, ?_, ?_⟩
  · refine ⟨?_, ?_, hc2.edge_lt, ?_⟩
    · exact hc2.views.eraseNode n hO2 hI2 hN' hOf hIf
    · intro x hx
      have : g2.hasNode x = true := by
        have := hN' x
        simp only [G.hasNode] at hx
        rw [this] at hx
        simp at hx; exact hx.2
      exact hc2.node_lt x this
    · refine ⟨asc_erase _ _ hc2.sorted.nodes, hc2.sorted.edges, ?_⟩
      intro x r hr
      rw [hrow] at hr
      split at hr
      · cases hr
      · exact hc2.sorted.rows x r hr
  · -- Deleted n g (final)
    have hrel1 : ∀ x y, x ≠ n → y ≠ n → ¬ Rel g.directed ((g.outKeys n).map (fun y => (n, y))) x y := by
      intro x y hx hy h
      simp only [Rel, List.mem_map, Prod.mk.injEq] at h
      rcases h with ⟨_, _, h, _⟩ | ⟨_, _, _, h, _⟩
      · exact hx h.symm
      · exact hy h.symm
    have hrel2 : ∀ x y, x ≠ n → y ≠ n → ¬ Rel g1.directed ((g1.inKeys n).map (fun y => (y, n))) x y := by
      intro x y hx hy h
      simp only [Rel, List.mem_map, Prod.mk.injEq] at h
      rcases h with ⟨_, _, _, h⟩ | ⟨_, _, _, _, h⟩
      · exact hy h.symm
      · exact hx h.symm
    refine ⟨?_, ?_, ?_, ?_, ?_, by simp [u2.rest, u1.rest]⟩
    · intro x
      show AL.has x (AL.erase n g2.nodes) = _
      rw [hN', u2.hasNode, u1.hasNode]
    · show AL.keys (AL.erase n g2.nodes) = _
      rw [← u1.keys, ← u2.keys]
      simp [AL.keys, AL.erase, List.filter_map, Function.comp_def]
    · intro x y
      show (find x (AL.erase n g2.nodes)).bind (fun r => find y r.out) = _
      rw [hOf]
      by_cases hx : x = n
      · simp [hx]
      · by_cases hy : y = n
        · subst hy
          simp only [hx, if_false, or_true, if_true]
          rcases hOe : g2.outE x y with _ | e
          · rfl
          · have := hc2.views.out_edge x y e hOe
            rcases this with hE | ⟨hd, hE⟩
            · have := (hc2.views.edge_listed e x y hE).2.1
              rw [hI2] at this; cases this
            · have := (hc2.views.edge_listed e y x hE).1
              rw [hO2] at this; cases this
        · simp only [hx, hy, if_false, or_self]
          rw [u2.outE, u1.outE]
          simp [hrel1 x y hx hy, hrel2 x y hx hy]
    · intro x y
      show (find y (AL.erase n g2.nodes)).bind (fun r => find x r.inn) = _
      rw [hIf]
      by_cases hy : y = n
      · simp [hy]
      · by_cases hx : x = n
        · subst hx
          simp only [hy, if_false, true_or, if_true]
          rcases hIe : g2.inE y x with _ | e
          · rfl
          · have := hc2.views.in_edge x y e hIe
            rcases this with hE | ⟨hd, hE⟩
            · have := (hc2.views.edge_listed e x y hE).1
              rw [hO2] at this; cases this
            · have := (hc2.views.edge_listed e y x hE).2.1
              rw [hI2] at this; cases this
        · simp only [hx, hy, if_false, or_self]
          rw [u2.inE, u1.inE]
          simp [hrel1 x y hx hy, hrel2 x y hx hy]
    · intro e
      show find e g2.edges = _
      rcases find_cases e g.edges with hf | ⟨⟨a, b⟩, hf⟩
      · rw [u2.edges, u1.edges, hf]
      · simp only [hf]
        by_cases hab : a = n ∨ b = n
        · simp only [hab, if_true]
          rcases hf2 : find e g2.edges with _ | ⟨a', b'⟩
          · rfl
          · have hsub : (a', b') = (a, b) := by
              have := u2.edges e
              rw [u1.edges, hf, hf2] at this
              by_cases r1 : Rel g.directed ((g.outKeys n).map (fun y => (n, y))) a b
              · simp [r1] at this
              · simp only [r1, if_false] at this
                by_cases r2 : Rel g1.directed ((g1.inKeys n).map (fun y => (y, n))) a b
                · simp [r2] at this
                · simp only [r2, if_false] at this
                  injection this
            injection hsub with ha hb; subst ha; subst hb
            have hl := hc2.views.edge_listed e a' b' hf2
            rcases hab with rfl | rfl
            · rw [hO2] at hl; cases hl.1
            · rw [hI2] at hl; cases hl.2.1
        · have ha : a ≠ n := fun h => hab (Or.inl h)
          have hb : b ≠ n := fun h => hab (Or.inr h)
          rw [u2.edges, u1.edges, hf]
          simp [hrel1 a b ha hb, hrel2 a b ha hb, hab]

theorem deleteNode_consistent {g : G} (hc : Consistent g) (n : Nat) : (deleteNode n g).All Consistent := by
  cases hn : g.hasNode n
  · rw [deleteNode_absent hn]; exact hc
  · obtain ⟨g', h, hc', _⟩ := deleteNode_spec hc hn
    rw [h]; exact hc'

/-! #### rebuilding the node table (`makeDirected`, `makeUndirected`) -/

/-- the first edge recorded for the relation x -> y in a list of triples -/
def first : List (Nat × Nat × Nat) → Nat → Nat → Option Nat
  | [], _, _ => none
  | (a, b, e) :: r, x, y => if a = x ∧ b = y then some e else first r x y

/-- folding `linkInNodeStructure_` over a list of triples -/
def rebuild (L : List (Nat × Nat × Nat)) (g : G) : G := L.foldl (fun acc t => linkInNode t.1 t.2.1 t.2.2 acc) g

theorem rebuild_rest (L : List (Nat × Nat × Nat)) (g : G) :
    (∀ n, (rebuild L g).hasNode n = g.hasNode n) ∧ (rebuild L g).edges = g.edges ∧ (rebuild L g).directed = g.directed ∧
    (rebuild L g).nextNode = g.nextNode ∧ (rebuild L g).nextEdge = g.nextEdge ∧ (rebuild L g).root = g.root ∧
    (rebuild L g).pending = g.pending ∧ (Sorted g → Sorted (rebuild L g)) := by
  induction L generalizing g with
  | nil => simp [rebuild]
  | cons t r ih =>
    have := ih (linkInNode t.1 t.2.1 t.2.2 g)
    simp only [rebuild, List.foldl_cons] at this ⊢
    refine ⟨fun n => by rw [this.1, hasNode_linkInNode], by rw [this.2.1]; rfl, by rw [this.2.2.1]; rfl,
      by rw [this.2.2.2.1]; rfl, by rw [this.2.2.2.2.1]; rfl, by rw [this.2.2.2.2.2.1]; rfl, by rw [this.2.2.2.2.2.2.1]; rfl,
      fun hs => this.2.2.2.2.2.2.2 (sorted_linkInNode _ _ _ _ hs)⟩

theorem outE_rebuild (L : List (Nat × Nat × Nat)) (g : G) (x y : Nat) :
    (rebuild L g).outE x y = (g.outE x y).orElse (fun _ => if g.hasNode x = true then first L x y else none) := by
  induction L generalizing g with
  | nil => simp [rebuild, first]
  | cons t r ih =>
    obtain ⟨a, b, e⟩ := t
    have := ih (linkInNode a b e g)
    simp only [rebuild, List.foldl_cons] at this ⊢
    rw [this, outE_linkInNode, hasNode_linkInNode]
    simp only [first]
    by_cases h1 : x = a <;> by_cases h2 : y = b
    · subst h1; subst h2
      cases hn : g.hasNode x <;> cases ho : g.outE x y <;> simp [hn, ho]
    · have : ¬ b = y := fun h => h2 h.symm
      simp [h1, h2, this]
    · have : ¬ a = x := fun h => h1 h.symm
      simp [h1, h2, this]
    · have : ¬ a = x := fun h => h1 h.symm
      simp [h1, h2, this]

theorem inE_rebuild (L : List (Nat × Nat × Nat)) (g : G) (x y : Nat) :
    (rebuild L g).inE y x = (g.inE y x).orElse (fun _ => if g.hasNode y = true then first L x y else none) := by
  induction L generalizing g with
  | nil => simp [rebuild, first]
  | cons t r ih =>
    obtain ⟨a, b, e⟩ := t
    have := ih (linkInNode a b e g)
    simp only [rebuild, List.foldl_cons] at this ⊢
    rw [this, inE_linkInNode, hasNode_linkInNode]
    simp only [first]
    by_cases h1 : x = a <;> by_cases h2 : y = b
    · subst h1; subst h2
      cases hn : g.hasNode y <;> cases ho : g.inE y x <;> simp [hn, ho]
    · have : ¬ b = y := fun h => h2 h.symm
      simp [h1, h2, this]
    · have : ¬ a = x := fun h => h1 h.symm
      simp [h1, h2, this]
    · have : ¬ a = x := fun h => h1 h.symm
      simp [h1, h2, this]

/-- the node table with every row emptied -/
theorem cleared_views (g : G) :
    let g0 := { g with nodes := g.clearedNodes }
    (∀ n, g0.hasNode n = g.hasNode n) ∧ (∀ x y, g0.outE x y = none) ∧ (∀ x y, g0.inE y x = none) ∧
    AL.keys g0.nodes = AL.keys g.nodes ∧ (Sorted g → Sorted g0) := by
  have hrow : ∀ x, find x g.clearedNodes = (find x g.nodes).map (fun _ => ({} : Row)) := by
    intro x; unfold clearedNodes; exact find_map_val x (fun _ => ({} : Row)) g.nodes
  have hk : AL.keys g.clearedNodes = AL.keys g.nodes := by
    unfold clearedNodes; exact keys_map_same (fun p => (p.1, ({} : Row))) (fun _ => rfl) _
  refine ⟨?_, ?_, ?_, hk, ?_⟩
  · intro n; simp only [G.hasNode, has, hrow]; rcases find_cases n g.nodes with hf | ⟨r, hf⟩ <;> simp [hf]
  · intro x y; simp only [G.outE, hrow]; rcases find_cases x g.nodes with hf | ⟨r, hf⟩ <;> simp [hf, find]
  · intro x y; simp only [G.inE, hrow]; rcases find_cases y g.nodes with hf | ⟨r, hf⟩ <;> simp [hf, find]
  · intro hs
    refine ⟨by show Asc g.clearedNodes; unfold Asc; rw [hk]; exact hs.nodes, hs.edges, ?_⟩
    intro n r hr
    simp only [hrow] at hr
    rcases find_cases n g.nodes with hf | ⟨r0, hf⟩
    · simp [hf] at hr
    · simp only [hf, Option.map_some, Option.some.injEq] at hr
      subst hr; exact ⟨asc_nil, asc_nil⟩

theorem mem_outTriples {g : G} (hs : Sorted g) (a b e : Nat) :
    (a, b, e) ∈ outTriples g.nodes ↔ g.outE a b = some e := by
  simp only [outTriples, List.mem_flatMap, List.mem_map, Prod.mk.injEq, G.outE]
  constructor
  · rintro ⟨⟨a', r⟩, hm, ⟨b', e'⟩, hq, rfl, rfl, rfl⟩
    have hf := (mem_iff_find hs.nodes a' r).mp hm
    have := (mem_iff_find (hs.rows a' r hf).1 b' e').mp hq
    simp [hf, this]
  · intro h
    rcases find_cases a g.nodes with hf | ⟨r, hf⟩
    · simp [hf] at h
    · simp only [hf, Option.bind_some] at h
      exact ⟨(a, r), find_some_mem hf, (b, e), find_some_mem h, rfl, rfl, rfl⟩

theorem first_mem {L : List (Nat × Nat × Nat)} {x y e : Nat} (h : first L x y = some e) : (x, y, e) ∈ L := by
  induction L with
  | nil => simp [first] at h
  | cons t r ih =>
    obtain ⟨a, b, e'⟩ := t
    simp only [first] at h
    split at h
    · rename_i hab; obtain ⟨rfl, rfl⟩ := hab; injection h with h; subst h; simp
    · exact List.mem_cons_of_mem _ (ih h)

theorem first_of_mem {L : List (Nat × Nat × Nat)} {x y e : Nat}
    (hfun : ∀ e1 e2, (x, y, e1) ∈ L → (x, y, e2) ∈ L → e1 = e2) (h : (x, y, e) ∈ L) : first L x y = some e := by
  induction L with
  | nil => cases h
  | cons t r ih =>
    obtain ⟨a, b, e'⟩ := t
    simp only [first]
    split
    · rename_i hab; obtain ⟨rfl, rfl⟩ := hab
      congr 1
      exact hfun e' e (by simp) h
    · rename_i hab
      simp only [List.mem_cons, Prod.mk.injEq] at h
      rcases h with ⟨rfl, rfl, rfl⟩ | h
      · exact absurd ⟨rfl, rfl⟩ hab
      · exact ih (fun e1 e2 h1 h2 => hfun e1 e2 (List.mem_cons_of_mem _ h1) (List.mem_cons_of_mem _ h2)) h

theorem first_none {L : List (Nat × Nat × Nat)} {x y : Nat} (h : ∀ e, (x, y, e) ∉ L) : first L x y = none := by
  cases hf : first L x y with
  | none => rfl
  | some e => exact absurd (first_mem hf) (h e)

/-- the unordered pair of end points, as `containsReciprocalRelations` / `makeDirected` key it -/
def upair (t : Nat × Nat × Nat) : Nat × Nat := (min t.1 t.2.1, max t.1 t.2.1)

theorem recipLoop_false (T : List (Nat × Nat × Nat)) (seen : List (Nat × Nat)) :
    recipLoop T seen = false ↔ (∀ t ∈ T, upair t ∉ seen) ∧ List.Pairwise (fun t u => upair t ≠ upair u) T := by
  induction T generalizing seen with
  | nil => simp [recipLoop]
  | cons t r ih =>
    obtain ⟨a, b, e⟩ := t
    simp only [recipLoop]
    by_cases hs : (min a b, max a b) ∈ seen
    · simp [hs, upair]
    · simp only [List.contains_iff_mem, hs, if_false, Bool.false_eq_true]
      rw [ih]
      simp only [List.mem_cons, List.pairwise_cons, upair]
      constructor
      · rintro ⟨h1, h2⟩
        refine ⟨?_, ?_, h2⟩
        · rintro t (rfl | ht)
          · exact hs
          · have := h1 t ht; intro hh; exact this (Or.inr hh)
        · intro u hu heq
          exact h1 u hu (Or.inl heq.symm)
      · rintro ⟨h1, h2, h3⟩
        refine ⟨?_, h3⟩
        intro u hu hh
        rcases hh with hh | hh
        · exact h2 u hu hh.symm
        · exact h1 u (Or.inr hu) hh

theorem pairwise_ne_of_mem {α : Type} {R : α → α → Prop} (hsym : ∀ a b, R a b → R b a) {l : List α}
    (h : List.Pairwise R l) {a b : α} (ha : a ∈ l) (hb : b ∈ l) (hne : a ≠ b) : R a b := by
  induction l with
  | nil => cases ha
  | cons c r ih =>
    rw [List.pairwise_cons] at h
    simp only [List.mem_cons] at ha hb
    rcases ha with rfl | ha <;> rcases hb with rfl | hb
    · exact absurd rfl hne
    · exact h.1 b hb
    · exact hsym _ _ (h.1 a ha)
    · exact ih h.2 ha hb

/-- no reciprocal relation A->B, B->A when the scan of `containsReciprocalRelations` finds none -/
theorem no_recip {g : G} (hs : Sorted g) (h : recipLoop (outTriples g.nodes) [] = false) {x y e e' : Nat}
    (h1 : g.outE x y = some e) (h2 : g.outE y x = some e') : x = y := by
  have hp := ((recipLoop_false _ _).mp h).2
  have m1 := (mem_outTriples hs x y e).mpr h1
  have m2 := (mem_outTriples hs y x e').mpr h2
  by_cases hxy : x = y
  · exact hxy
  · have hne : (x, y, e) ≠ (y, x, e') := by
      intro hh; injection hh with hh; exact hxy hh
    have := pairwise_ne_of_mem (R := fun t u => upair t ≠ upair u) (fun a b h => fun hh => h hh.symm) hp m1 m2 hne
    exfalso; apply this
    simp only [upair, Prod.mk.injEq]
    omega

/-! #### makeUndirected -/

/-- both directions of every relation, in the order `makeUndirected` writes them -/
def bothWays (T : List (Nat × Nat × Nat)) : List (Nat × Nat × Nat) := T.flatMap (fun t => [t, (t.2.1, t.1, t.2.2)])

theorem undirect_fold (T : List (Nat × Nat × Nat)) (g0 : G) :
    T.foldl (fun acc t => linkInNode t.2.1 t.1 t.2.2 (linkInNode t.1 t.2.1 t.2.2 acc)) g0 = rebuild (bothWays T) g0 := by
  induction T generalizing g0 with
  | nil => rfl
  | cons t r ih => simp only [List.foldl_cons, ih, bothWays, List.flatMap_cons, rebuild, List.foldl_append, List.foldl_nil]

theorem mem_bothWays (T : List (Nat × Nat × Nat)) (x y e : Nat) :
    (x, y, e) ∈ bothWays T ↔ (x, y, e) ∈ T ∨ (y, x, e) ∈ T := by
  simp only [bothWays, List.mem_flatMap, List.mem_cons, List.not_mem_nil, or_false]
  constructor
  · rintro ⟨t, ht, rfl | h⟩
    · exact Or.inl ht
    · obtain ⟨a, b, e'⟩ := t; injection h with h1 h; injection h with h2 h3; subst h1; subst h2; subst h3; exact Or.inr ht
  · rintro (h | h)
    · exact ⟨_, h, Or.inl rfl⟩
    · exact ⟨_, h, Or.inr rfl⟩

theorem makeUndirected_already {g : G} (h : g.directed = false) : makeUndirected g = .ok () g := by simp [makeUndirected, h]

theorem makeUndirected_recip {g : G} (h : g.directed = true) (hr : recipLoop (outTriples g.nodes) [] = true) :
    makeUndirected g = .exc g := by simp [makeUndirected, h, hr]

/-- what `makeUndirected` did to a directed graph without reciprocal relations -/
structure Undirected (g g' : G) : Prop where
  hasNode : ∀ n, g'.hasNode n = g.hasNode n
  keys : AL.keys g'.nodes = AL.keys g.nodes
  outE : ∀ x y, g'.outE x y = (g.outE x y).orElse (fun _ => g.outE y x)
  inE : ∀ x y, g'.inE y x = (g.outE x y).orElse (fun _ => g.outE y x)
  rest : g'.edges = g.edges ∧ g'.directed = false ∧ g'.nextNode = g.nextNode ∧ g'.nextEdge = g.nextEdge ∧ g'.root = g.root
    ∧ g'.pending = g.pending

theorem makeUndirected_spec {g : G} (hc : Consistent g) (hd : g.directed = true)
    (hr : recipLoop (outTriples g.nodes) [] = false) :
    ∃ g', makeUndirected g = .ok () g' ∧ Consistent g' ∧ Undirected g g' := by
  let g0 : G := { g with nodes := g.clearedNodes }
  let T := outTriples g.nodes
  have hrun : makeUndirected g = .ok () { rebuild (bothWays T) g0 with directed := false } := by
    unfold makeUndirected
    rw [if_neg (by simp [hd]), if_neg (by simp [hr])]
    dsimp only
    rw [undirect_fold]
  obtain ⟨c1, c2, c3, c4, c5⟩ := cleared_views g
  obtain ⟨r1, r2, r3, r4, r5, r6, r7, r8⟩ := rebuild_rest (bothWays T) g0
  have hnr : ∀ x y e e', g.outE x y = some e → g.outE y x = some e' → x = y :=
    fun x y e e' h1 h2 => no_recip hc.sorted hr h1 h2
  -- the first recorded edge for x -> y is the edge of x -> y or of y -> x
  have hfirst : ∀ x y, first (bothWays T) x y = (g.outE x y).orElse (fun _ => g.outE y x) := by
    intro x y
    have hmem : ∀ e, (x, y, e) ∈ bothWays T ↔ (g.outE x y = some e ∨ g.outE y x = some e) := by
      intro e; rw [mem_bothWays, mem_outTriples hc.sorted, mem_outTriples hc.sorted]
    have hfun : ∀ e1 e2, (x, y, e1) ∈ bothWays T → (x, y, e2) ∈ bothWays T → e1 = e2 := by
      intro e1 e2 h1 h2
      rw [hmem] at h1 h2
      rcases h1 with h1 | h1 <;> rcases h2 with h2 | h2
      · rw [h1] at h2; injection h2
      · have := hnr x y e1 e2 h1 h2; subst this; rw [h1] at h2; injection h2
      · have := hnr x y e2 e1 h2 h1; subst this; rw [h1] at h2; injection h2
      · rw [h1] at h2; injection h2
    cases hxy : g.outE x y with
    | some e => simpa using first_of_mem hfun ((hmem e).mpr (Or.inl hxy))
    | none =>
      cases hyx : g.outE y x with
      | some e => simpa using first_of_mem hfun ((hmem e).mpr (Or.inr hyx))
      | none =>
        simp only [Option.orElse_none]
        apply first_none
        intro e hm; rw [hmem] at hm; rcases hm with h | h <;> simp_all
  have hN : ∀ x, (rebuild (bothWays T) g0).hasNode x = g.hasNode x := fun x => by rw [r1, c1]
  have hO : ∀ x y, (rebuild (bothWays T) g0).outE x y = (g.outE x y).orElse (fun _ => g.outE y x) := by
    intro x y
    rw [outE_rebuild, c2, c1, hfirst]
    simp only [Option.orElse_none]
    cases hn : g.hasNode x
    · simp only [Bool.false_eq_true, if_false]
      cases hxy : g.outE x y with
      | some e => exact absurd (outE_some_hasNode hxy) (by simp [hn])
      | none =>
        cases hyx : g.outE y x with
        | some e =>
          have := inE_some_hasNode (cons_out_some hc hyx).1
          simp [hn] at this
        | none => rfl
    · simp
  have hI : ∀ x y, (rebuild (bothWays T) g0).inE y x = (g.outE x y).orElse (fun _ => g.outE y x) := by
    intro x y
    rw [inE_rebuild, c3, c1, hfirst]
    simp only [Option.orElse_none]
    cases hn : g.hasNode y
    · simp only [Bool.false_eq_true, if_false]
      cases hxy : g.outE x y with
      | some e =>
        have := inE_some_hasNode (cons_out_some hc hxy).1
        simp [hn] at this
      | none =>
        cases hyx : g.outE y x with
        | some e => exact absurd (outE_some_hasNode hyx) (by simp [hn])
        | none => rfl
    · simp
  have hv := hc.views
  rw [hd] at hv
  refine ⟨_, hrun, ⟨?_, ?_, ?_, ?_⟩, ⟨hN, ?_, hO, hI, ?_⟩⟩
  · show ConsV false _ _ _ _
    have hE : (fun e => find e (rebuild (bothWays T) g0).edges) = (fun e => find e g.edges) := by rw [r2]
    show ConsV false (rebuild (bothWays T) g0).hasNode (rebuild (bothWays T) g0).outE (rebuild (bothWays T) g0).inE
      (fun e => find e (rebuild (bothWays T) g0).edges)
    rw [hE]
    exact hv.undirect hnr hN hO hI
  · intro n hn; show n < (rebuild (bothWays T) g0).nextNode; rw [r4]; exact hc.node_lt n (by rw [← hN]; exact hn)
  · intro e he; show e < (rebuild (bothWays T) g0).nextEdge; rw [r5]
    apply hc.edge_lt e; simp only [G.hasEdge] at he ⊢; rw [← r2]; exact he
  · have := r8 (c5 hc.sorted)
    exact ⟨this.nodes, this.edges, this.rows⟩
  · show AL.keys (rebuild (bothWays T) g0).nodes = _
    have : ∀ (L : List (Nat × Nat × Nat)) (g1 : G), AL.keys (rebuild L g1).nodes = AL.keys g1.nodes := by
      intro L
      induction L with
      | nil => intro g1; rfl
      | cons t r ih =>
        intro g1
        simp only [rebuild, List.foldl_cons] at ih ⊢
        rw [ih]; simp [linkInNode, keys_modify]
    rw [this, c4]
  · exact ⟨r2, rfl, r4, r5, r6, r7⟩

theorem makeUndirected_consistent {g : G} (hc : Consistent g) : (makeUndirected g).All Consistent := by
  cases hd : g.directed
  · rw [makeUndirected_already hd]; exact hc
  · cases hr : recipLoop (outTriples g.nodes) []
    · obtain ⟨g', h, hc', _⟩ := makeUndirected_spec hc hd hr
      rw [h]; exact hc'
    · rw [makeUndirected_recip hd hr]; exact hc

end G
end Graph
end Bpp
