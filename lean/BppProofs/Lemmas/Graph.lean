import BppModel.Graph
/-! Helper lemmas for C14 (GlobalGraph).  Property theorems are in `Props/C14.lean`. -/
set_option linter.unusedSimpArgs false
set_option linter.unusedVariables false
set_option linter.unusedSectionVars false
namespace Bpp
namespace AL
variable {β : Type}

/-! ### `find` after each map operation (no ordering hypothesis needed) -/

theorem find_insertSorted (k k' : Nat) (v : β) (l : List (Nat × β)) (h : find k l = none) :
    find k' (insertSorted k v l) = if k = k' then some v else find k' l := by
  induction l with
  | nil => simp [insertSorted, find]
  | cons p r ih =>
    obtain ⟨k1, v1⟩ := p
    simp only [find] at h
    split at h
    · simp at h
    · rename_i hne
      simp only [insertSorted]
      split
      · simp [find]
      · simp only [find]
        split
        · rename_i h1; subst h1
          have : ¬ k = k1 := fun h => hne h.symm
          simp [this]
        · exact ih h

theorem find_map_set (k k' : Nat) (v : β) (l : List (Nat × β)) :
    find k' (l.map (fun p => if p.1 = k then (p.1, v) else p)) = if k = k' then (find k l).map (fun _ => v) else find k' l := by
  induction l with
  | nil => simp [find]
  | cons p r ih =>
    obtain ⟨k1, v1⟩ := p
    simp only [List.map_cons, find]
    by_cases h1 : k1 = k
    · subst h1
      by_cases h2 : k1 = k'
      · subst h2; simp [find]
      · simp [find, h2, ih]
    · by_cases h2 : k1 = k'
      · subst h2
        have : ¬ k = k1 := fun h => h1 h.symm
        simp [find, h1, this]
      · simp [find, h1, h2, ih]

theorem find_insertNew (k k' : Nat) (v : β) (l : List (Nat × β)) :
    find k' (insertNew k v l) = if k = k' then some ((find k l).getD v) else find k' l := by
  unfold insertNew has
  cases h : find k l with
  | none => simp [find_insertSorted k k' v l h]
  | some w =>
    simp only [Option.isSome_some, if_true, Option.getD_some]
    split
    · rename_i h1; subst h1; exact h
    · rfl

theorem find_set (k k' : Nat) (v : β) (l : List (Nat × β)) :
    find k' (set k v l) = if k = k' then some v else find k' l := by
  unfold set has
  cases h : find k l with
  | none => simp [find_insertSorted k k' v l h]
  | some w => simp [find_map_set, h]

theorem find_erase (k k' : Nat) (l : List (Nat × β)) :
    find k' (erase k l) = if k = k' then none else find k' l := by
  unfold erase
  induction l with
  | nil => simp [find]
  | cons p r ih =>
    obtain ⟨k1, v1⟩ := p
    simp only [List.filter_cons]
    by_cases h1 : k1 = k
    · subst h1
      simp only [ne_eq, not_true_eq_false, decide_false, Bool.false_eq_true, if_false, ih, find]
      by_cases h2 : k1 = k' <;> simp [h2]
    · simp only [ne_eq, h1, not_false_eq_true, decide_true, if_true, find, ih]
      by_cases h2 : k1 = k'
      · subst h2
        have : ¬ k = k1 := fun h => h1 h.symm
        simp [this]
      · simp [h2]

theorem find_modify (k k' : Nat) (f : β → β) (l : List (Nat × β)) :
    find k' (modify k f l) = if k = k' then (find k l).map f else find k' l := by
  unfold modify
  induction l with
  | nil => simp [find]
  | cons p r ih =>
    obtain ⟨k1, v1⟩ := p
    simp only [List.map_cons, find]
    by_cases h1 : k1 = k
    · subst h1
      by_cases h2 : k1 = k'
      · subst h2; simp [find]
      · simp [find, h2, ih]
    · by_cases h2 : k1 = k'
      · subst h2
        have : ¬ k = k1 := fun h => h1 h.symm
        simp [find, h1, this]
      · simp [find, h1, h2, ih]

theorem find_map_val {γ : Type} (k : Nat) (f : β → γ) (l : List (Nat × β)) :
    find k (l.map (fun p => (p.1, f p.2))) = (find k l).map f := by
  induction l with
  | nil => simp [find]
  | cons p r ih =>
    obtain ⟨k1, v1⟩ := p
    simp only [List.map_cons, find]
    split <;> simp [ih]

theorem mem_keys_iff (k : Nat) (l : List (Nat × β)) : k ∈ keys l ↔ (find k l).isSome := by
  unfold keys
  induction l with
  | nil => simp [find]
  | cons p r ih =>
    obtain ⟨k1, v1⟩ := p
    simp only [List.map_cons, List.mem_cons, find]
    by_cases h : k1 = k
    · simp [h]
    · have : ¬ k = k1 := fun h' => h h'.symm
      simp [h, this, ih]

theorem find_some_mem {k : Nat} {v : β} {l : List (Nat × β)} (h : find k l = some v) : (k, v) ∈ l := by
  induction l with
  | nil => simp [find] at h
  | cons p r ih =>
    obtain ⟨k1, v1⟩ := p
    simp only [find] at h
    split at h
    · rename_i h1; subst h1; simp at h; subst h; simp
    · exact List.mem_cons_of_mem _ (ih h)

/-! ### ascending keys -/

/-- strictly ascending keys: the iteration order of a `std::map` -/
def Asc (l : List (Nat × β)) : Prop := List.Pairwise (· < ·) (keys l)

theorem asc_nil : Asc ([] : List (Nat × β)) := by simp [Asc, keys]

theorem keys_insertSorted (k : Nat) (v : β) (l : List (Nat × β)) :
    ∀ x, x ∈ keys (insertSorted k v l) ↔ x = k ∨ x ∈ keys l := by
  intro x
  induction l with
  | nil => simp [insertSorted, keys]
  | cons p r ih =>
    simp only [insertSorted]
    split
    · simp [keys]
    · simp only [keys, List.map_cons, List.mem_cons] at ih ⊢
      rw [ih]; constructor <;> (intro h; rcases h with h | h | h <;> simp [h])

theorem asc_insertSorted (k : Nat) (v : β) (l : List (Nat × β)) (h : Asc l) (hk : find k l = none) :
    Asc (insertSorted k v l) := by
  induction l with
  | nil => simp [insertSorted, Asc, keys]
  | cons p r ih =>
    obtain ⟨k1, v1⟩ := p
    simp only [find] at hk
    split at hk
    · simp at hk
    · rename_i hne
      simp only [insertSorted]
      simp only [Asc, keys, List.map_cons, List.pairwise_cons] at h
      split
      · rename_i hlt
        simp only [Asc, keys, List.map_cons, List.pairwise_cons, List.mem_cons]
        refine ⟨?_, h.1, h.2⟩
        intro x hx
        rcases hx with hx | hx
        · omega
        · have := h.1 x hx; omega
      · rename_i hge
        have ihr := ih h.2 hk
        simp only [Asc, keys, List.map_cons, List.pairwise_cons]
        refine ⟨?_, ihr⟩
        intro x hx
        have := (keys_insertSorted k v r x).mp hx
        rcases this with hx | hx
        · subst hx; omega
        · exact h.1 x hx

theorem asc_insertNew (k : Nat) (v : β) (l : List (Nat × β)) (h : Asc l) : Asc (insertNew k v l) := by
  unfold insertNew has
  cases hf : find k l with
  | none => simpa using asc_insertSorted k v l h hf
  | some w => simpa using h

theorem keys_map_same (f : Nat × β → Nat × β) (hf : ∀ p, (f p).1 = p.1) (l : List (Nat × β)) :
    keys (l.map f) = keys l := by
  unfold keys
  induction l with
  | nil => rfl
  | cons p r ih => simp [hf, ih]

theorem keys_modify (k : Nat) (f : β → β) (l : List (Nat × β)) : keys (modify k f l) = keys l := by
  unfold modify
  apply keys_map_same
  intro p; split <;> rfl

theorem asc_modify (k : Nat) (f : β → β) (l : List (Nat × β)) (h : Asc l) : Asc (modify k f l) := by
  unfold Asc; rw [keys_modify]; exact h

theorem asc_set (k : Nat) (v : β) (l : List (Nat × β)) (h : Asc l) : Asc (set k v l) := by
  unfold set has
  cases hf : find k l with
  | none => simpa using asc_insertSorted k v l h hf
  | some w =>
    simp only [Option.isSome_some, if_true]
    unfold Asc
    rw [keys_map_same]
    · exact h
    · intro p; split <;> rfl

theorem asc_erase (k : Nat) (l : List (Nat × β)) (h : Asc l) : Asc (erase k l) := by
  unfold Asc keys erase at *
  exact List.Pairwise.sublist (List.Sublist.map _ List.filter_sublist) h

theorem find_eq_none_of_lt {k : Nat} {l : List (Nat × β)} (h : ∀ x ∈ keys l, k < x) : find k l = none := by
  cases hf : find k l with
  | none => rfl
  | some v =>
    have : k ∈ keys l := (mem_keys_iff k l).mpr (by simp [hf])
    have := h k this; omega

/-- two maps with ascending keys and the same look-ups are equal -/
theorem asc_ext {l₁ l₂ : List (Nat × β)} (h₁ : Asc l₁) (h₂ : Asc l₂) (h : ∀ k, find k l₁ = find k l₂) : l₁ = l₂ := by
  induction l₁ generalizing l₂ with
  | nil =>
    cases l₂ with
    | nil => rfl
    | cons p r => have := h p.1; simp [find] at this
  | cons p r ih =>
    obtain ⟨k1, v1⟩ := p
    cases l₂ with
    | nil => have := h k1; simp [find] at this
    | cons q s =>
      obtain ⟨k2, v2⟩ := q
      simp only [Asc, keys, List.map_cons, List.pairwise_cons] at h₁ h₂
      have hk : k1 = k2 := by
        rcases Nat.lt_trichotomy k1 k2 with hlt | heq | hgt
        · have e := h k1
          simp only [find, if_true] at e
          have hne : ¬ k2 = k1 := by omega
          simp only [hne, if_false] at e
          have : find k1 s = none := find_eq_none_of_lt (fun x hx => by have := h₂.1 x hx; omega)
          rw [this] at e; cases e
        · exact heq
        · have e := h k2
          simp only [find, if_true] at e
          have hne : ¬ k1 = k2 := by omega
          simp only [hne, if_false] at e
          have : find k2 r = none := find_eq_none_of_lt (fun x hx => by have := h₁.1 x hx; omega)
          rw [this] at e; cases e
      subst hk
      have hv : v1 = v2 := by have e := h k1; simpa [find] using e
      subst hv
      congr 1
      apply ih h₁.2 h₂.2
      intro k
      have e := h k
      simp only [find] at e
      by_cases hk : k1 = k
      · subst hk
        rw [find_eq_none_of_lt (fun x hx => h₁.1 x hx), find_eq_none_of_lt (fun x hx => h₂.1 x hx)]
      · simpa [hk] using e

theorem asc_tail {p : Nat × β} {l : List (Nat × β)} (h : Asc (p :: l)) : Asc l := by
  simp only [Asc, keys, List.map_cons, List.pairwise_cons] at h; exact h.2

theorem asc_head_lt {p : Nat × β} {l : List (Nat × β)} (h : Asc (p :: l)) : ∀ x ∈ keys l, p.1 < x := by
  simp only [Asc, keys, List.map_cons, List.pairwise_cons] at h; exact h.1

/-- with ascending (hence distinct) keys, membership is look-up -/
theorem mem_iff_find {l : List (Nat × β)} (h : Asc l) (k : Nat) (v : β) : (k, v) ∈ l ↔ find k l = some v := by
  constructor
  · intro hm
    induction l with
    | nil => cases hm
    | cons p r ih =>
      obtain ⟨k1, v1⟩ := p
      simp only [List.mem_cons, Prod.mk.injEq] at hm
      simp only [find]
      rcases hm with ⟨rfl, rfl⟩ | hm
      · simp
      · have hlt := asc_head_lt h k ((mem_keys_iff k r).mpr (by rw [ih (asc_tail h) hm]; rfl))
        have : ¬ k1 = k := by simp only at hlt; omega
        simp [this, ih (asc_tail h) hm]
  · exact find_some_mem

end AL

namespace Graph
open AL

/-! ## the invariant -/

/-- the three redundant views as functions: node set, outgoing / incoming entries, edge table -/
structure ConsV (d : Bool) (N : Nat → Bool) (O I : Nat → Nat → Option Nat) (E : Nat → Option (Nat × Nat)) : Prop where
  /-- every edge is listed by both end points (in both directions when undirected) -/
  edge_listed : ∀ e a b, E e = some (a, b) → O a b = some e ∧ I b a = some e ∧ (d = false → O b a = some e ∧ I a b = some e)
  /-- every outgoing entry has its edge-table entry -/
  out_edge : ∀ a b e, O a b = some e → E e = some (a, b) ∨ (d = false ∧ E e = some (b, a))
  /-- every incoming entry has its edge-table entry -/
  in_edge : ∀ a b e, I b a = some e → E e = some (a, b) ∨ (d = false ∧ E e = some (b, a))
  /-- entries live in rows of existing nodes -/
  out_node : ∀ a b e, O a b = some e → N a = true
  in_node : ∀ a b e, I b a = some e → N b = true

/-- ascending keys everywhere: iteration order of the `std::map`s -/
structure Sorted (g : G) : Prop where
  nodes : Asc g.nodes
  edges : Asc g.edges
  rows : ∀ n r, find n g.nodes = some r → Asc r.out ∧ Asc r.inn

/-- **the invariant**: every edge has two existing end points and is listed in out(top) / in(bottom)
(both directions when undirected), every node-table entry has its edge-table entry, ids are
below the counters, maps are ascending -/
structure Consistent (g : G) : Prop where
  views : ConsV g.directed g.hasNode g.outE g.inE (fun e => find e g.edges)
  node_lt : ∀ n, g.hasNode n = true → n < g.nextNode
  edge_lt : ∀ e, g.hasEdge e = true → e < g.nextEdge
  sorted : Sorted g

namespace G

theorem hasNode_iff (g : G) (n : Nat) : g.hasNode n = true ↔ ∃ r, find n g.nodes = some r := by
  unfold hasNode has; cases find n g.nodes <;> simp

theorem outE_some_hasNode {g : G} {a b e : Nat} (h : g.outE a b = some e) : g.hasNode a = true := by
  unfold outE at h; unfold hasNode has
  cases hf : find a g.nodes <;> simp_all

theorem inE_some_hasNode {g : G} {a b e : Nat} (h : g.inE b a = some e) : g.hasNode b = true := by
  unfold inE at h; unfold hasNode has
  cases hf : find b g.nodes <;> simp_all

/-! ### effect of the primitives on the views -/

theorem find_cases {β : Type} (k : Nat) (l : List (Nat × β)) : find k l = none ∨ ∃ r, find k l = some r := by
  cases find k l <;> simp

theorem row_linkInNode (a b e x : Nat) (g : G) :
    find x (linkInNode a b e g).nodes = (find x g.nodes).map (fun r =>
      { out := if x = a then insertNew b e r.out else r.out, inn := if x = b then insertNew a e r.inn else r.inn }) := by
  simp only [linkInNode, find_modify]
  by_cases h1 : b = x <;> by_cases h2 : a = x
  · subst h1; subst h2
    rcases find_cases a g.nodes with hf | ⟨r, hf⟩ <;> simp [hf]
  · subst h1; have : ¬ b = a := fun h => h2 h.symm
    rcases find_cases b g.nodes with hf | ⟨r, hf⟩ <;> simp [hf, h2, this]
  · subst h2; have : ¬ a = b := fun h => h1 h.symm
    rcases find_cases a g.nodes with hf | ⟨r, hf⟩ <;> simp [hf, h1, this]
  · have h1' : ¬ x = b := fun h => h1 h.symm
    have h2' : ¬ x = a := fun h => h2 h.symm
    rcases find_cases x g.nodes with hf | ⟨r, hf⟩ <;> simp [hf, h1, h2, h1', h2']

theorem hasNode_linkInNode (a b e n : Nat) (g : G) : (linkInNode a b e g).hasNode n = g.hasNode n := by
  simp only [hasNode, has, row_linkInNode]; cases find n g.nodes <;> simp

theorem outE_linkInNode (a b e x y : Nat) (g : G) :
    (linkInNode a b e g).outE x y =
      if x = a ∧ y = b ∧ g.hasNode a = true then some ((g.outE a b).getD e) else g.outE x y := by
  simp only [outE, row_linkInNode, hasNode, has]
  by_cases h2 : x = a
  · subst h2
    rcases find_cases x g.nodes with hf | ⟨r, hf⟩
    · simp [hf]
    · by_cases h3 : y = b
      · subst h3; simp [hf, find_insertNew]
      · have : ¬ b = y := fun h => h3 h.symm
        simp [hf, find_insertNew, h3, this]
  · rcases find_cases x g.nodes with hf | ⟨r, hf⟩ <;> simp [hf, h2]

theorem inE_linkInNode (a b e x y : Nat) (g : G) :
    (linkInNode a b e g).inE y x =
      if y = b ∧ x = a ∧ g.hasNode b = true then some ((g.inE b a).getD e) else g.inE y x := by
  simp only [inE, row_linkInNode, hasNode, has]
  by_cases h2 : y = b
  · subst h2
    rcases find_cases y g.nodes with hf | ⟨r, hf⟩
    · simp [hf]
    · by_cases h3 : x = a
      · subst h3; simp [hf, find_insertNew]
      · have : ¬ a = x := fun h => h3 h.symm
        simp [hf, find_insertNew, h3, this]
  · rcases find_cases y g.nodes with hf | ⟨r, hf⟩ <;> simp [hf, h2]

/-! #### linkInNode: the rest -/

theorem sorted_linkInNode (a b e : Nat) (g : G) (h : Sorted g) : Sorted (linkInNode a b e g) := by
  refine ⟨?_, h.edges, ?_⟩
  · unfold linkInNode; dsimp only
    exact asc_modify _ _ _ (asc_modify _ _ _ h.nodes)
  · intro n r hr
    rw [row_linkInNode] at hr
    rcases find_cases n g.nodes with hf | ⟨r0, hf⟩
    · simp [hf] at hr
    · simp only [hf, Option.map_some, Option.some.injEq] at hr
      subst hr
      have := h.rows n r0 hf
      constructor
      · dsimp only; split
        · exact asc_insertNew _ _ _ this.1
        · exact this.1
      · dsimp only; split
        · exact asc_insertNew _ _ _ this.2
        · exact this.2

/-! #### linkInEdge -/

theorem find_linkInEdge (a b e e' : Nat) (g : G) :
    find e' (linkInEdge a b e g).edges = if e = e' then some (a, b) else find e' g.edges := by
  simp [linkInEdge, find_set]

theorem sorted_linkInEdge (a b e : Nat) (g : G) (h : Sorted g) : Sorted (linkInEdge a b e g) :=
  ⟨h.nodes, asc_set _ _ _ h.edges, h.rows⟩

/-! #### unlinkInNode -/

theorem unlinkInNode_exc {a b : Nat} {g g' : G} (h : unlinkInNode a b g = .exc g') : g' = g := by
  unfold unlinkInNode at h
  split at h
  · injection h with h; exact h.symm
  · split at h
    · injection h with h; exact h.symm
    · split at h
      · injection h with h; exact h.symm
      · split at h
        · injection h with h; exact h.symm
        · cases h

/-- what a successful `unlinkInNodeStructure_` found and did -/
structure UnlinkedIn (a b e : Nat) (g g' : G) : Prop where
  fwd : g.outE a b = some e
  bwd : (g.inE b a).isSome = true
  row : ∀ x, find x g'.nodes = (find x g.nodes).map (fun r =>
      { out := if x = a then erase b r.out else r.out, inn := if x = b then erase a r.inn else r.inn })
  keys : AL.keys g'.nodes = AL.keys g.nodes
  rest : g'.edges = g.edges ∧ g'.directed = g.directed ∧ g'.nextNode = g.nextNode ∧ g'.nextEdge = g.nextEdge
    ∧ g'.root = g.root ∧ g'.pending = g.pending

theorem unlinkInNode_ok {a b e : Nat} {g g' : G} (h : unlinkInNode a b g = .ok e g') : UnlinkedIn a b e g g' := by
  unfold unlinkInNode at h
  split at h
  · cases h
  · rename_i ra hra
    split at h
    · cases h
    · rename_i e0 he0
      split at h
      · cases h
      · rename_i rb hrb
        split at h
        · cases h
        · rename_i e1 he1
          injection h with h1 h2
          subst h1; subst h2
          refine ⟨by simp [outE, hra, he0], by simp [inE, hrb, he1], ?_, by simp [keys_modify], by simp⟩
          intro x
          simp only [find_modify]
          by_cases h1 : b = x <;> by_cases h2 : a = x
          · subst h1; subst h2; simp [hra]
          · subst h1; have : ¬ b = a := fun h => h2 h.symm
            simp [hrb, h2, this]
          · subst h2; have : ¬ a = b := fun h => h1 h.symm
            simp [hra, h1, this]
          · have h1' : ¬ x = b := fun h => h1 h.symm
            have h2' : ¬ x = a := fun h => h2 h.symm
            rcases find_cases x g.nodes with hf | ⟨r, hf⟩ <;> simp [hf, h1, h2, h1', h2']

/-- `unlinkInNodeStructure_` succeeds as soon as both entries are there -/
theorem unlinkInNode_succeeds {a b e e' : Nat} {g : G} (h1 : g.outE a b = some e) (h2 : g.inE b a = some e') :
    ∃ g', unlinkInNode a b g = .ok e g' := by
  unfold outE at h1; unfold inE at h2
  rcases find_cases a g.nodes with hf | ⟨ra, hf⟩
  · simp [hf] at h1
  · rcases find_cases b g.nodes with hb | ⟨rb, hb⟩
    · simp [hb] at h2
    · simp only [hf, Option.bind_some] at h1
      simp only [hb, Option.bind_some] at h2
      unfold unlinkInNode
      simp only [hf, h1, hb, h2]
      exact ⟨_, rfl⟩

theorem UnlinkedIn.hasNode {a b e : Nat} {g g' : G} (h : UnlinkedIn a b e g g') (n : Nat) : g'.hasNode n = g.hasNode n := by
  simp only [G.hasNode, has, h.row]; rcases find_cases n g.nodes with hf | ⟨r, hf⟩ <;> simp [hf]

theorem UnlinkedIn.outE {a b e : Nat} {g g' : G} (h : UnlinkedIn a b e g g') (x y : Nat) :
    g'.outE x y = if x = a ∧ y = b then none else g.outE x y := by
  simp only [G.outE, h.row]
  rcases find_cases x g.nodes with hf | ⟨r, hf⟩
  · simp [hf]
  · by_cases h1 : x = a
    · subst h1
      by_cases h2 : y = b
      · subst h2; simp [hf, find_erase]
      · have : ¬ b = y := fun h => h2 h.symm
        simp [hf, find_erase, h2, this]
    · simp [hf, h1]

theorem UnlinkedIn.inE {a b e : Nat} {g g' : G} (h : UnlinkedIn a b e g g') (x y : Nat) :
    g'.inE y x = if y = b ∧ x = a then none else g.inE y x := by
  simp only [G.inE, h.row]
  rcases find_cases y g.nodes with hf | ⟨r, hf⟩
  · simp [hf]
  · by_cases h1 : y = b
    · subst h1
      by_cases h2 : x = a
      · subst h2; simp [hf, find_erase]
      · have : ¬ a = x := fun h => h2 h.symm
        simp [hf, find_erase, h2, this]
    · simp [hf, h1]

theorem UnlinkedIn.sorted {a b e : Nat} {g g' : G} (h : UnlinkedIn a b e g g') (hs : Sorted g) : Sorted g' := by
  refine ⟨?_, by rw [h.rest.1]; exact hs.edges, ?_⟩
  · unfold Asc; rw [h.keys]; exact hs.nodes
  · intro n r hr
    rw [h.row] at hr
    rcases find_cases n g.nodes with hf | ⟨r0, hf⟩
    · simp [hf] at hr
    · simp only [hf, Option.map_some, Option.some.injEq] at hr
      subst hr
      have := hs.rows n r0 hf
      constructor
      · dsimp only; split
        · exact asc_erase _ _ this.1
        · exact this.1
      · dsimp only; split
        · exact asc_erase _ _ this.2
        · exact this.2

/-! ### view-level preservation (pure case analysis, `grind`) -/
end G

section views
variable {d : Bool} {N N' : Nat → Bool} {O I O' I' : Nat → Nat → Option Nat} {E E' : Nat → Option (Nat × Nat)}

/-- in a consistent graph an absent outgoing entry means the whole relation is absent -/
theorem ConsV.absent (hc : ConsV d N O I E) {a b : Nat} (hO : O a b = none) :
    I b a = none ∧ (d = false → O b a = none ∧ I a b = none) := by
  obtain ⟨h1, h2, h3, h4, h5⟩ := hc
  refine ⟨?_, fun hd => ⟨?_, ?_⟩⟩
  · cases hi : I b a with
    | none => rfl
    | some e0 => grind
  · cases hi : O b a with
    | none => rfl
    | some e0 => grind
  · cases hi : I a b with
    | none => rfl
    | some e0 => grind

theorem ConsV.link (hc : ConsV d N O I E) (a b e : Nat) (ha : N a = true) (hb : N b = true)
    (hO : O a b = none) (hE : E e = none)
    (hN : ∀ x, N' x = N x)
    (hO' : ∀ x y, O' x y = if x = a ∧ y = b then some e else if d = false ∧ x = b ∧ y = a then some e else O x y)
    (hI' : ∀ x y, I' y x = if y = b ∧ x = a then some e else if d = false ∧ y = a ∧ x = b then some e else I y x)
    (hE' : ∀ e', E' e' = if e = e' then some (a, b) else E e') :
    ConsV d N' O' I' E' := by
  have habs := hc.absent hO
  obtain ⟨h1, h2, h3, h4, h5⟩ := hc
  constructor <;> grind (splits := 40)

theorem ConsV.unlink (hc : ConsV d N O I E) (a b e : Nat) (hO : O a b = some e)
    (hN : ∀ x, N' x = N x)
    (hO' : ∀ x y, O' x y = if (x = a ∧ y = b) ∨ (d = false ∧ x = b ∧ y = a) then none else O x y)
    (hI' : ∀ x y, I' y x = if (y = b ∧ x = a) ∨ (d = false ∧ y = a ∧ x = b) then none else I y x)
    (hE' : ∀ e', E' e' = if e = e' then none else E e') :
    ConsV d N' O' I' E' := by
  obtain ⟨h1, h2, h3, h4, h5⟩ := hc
  constructor <;> grind (splits := 40)

theorem ConsV.createNode (hc : ConsV d N O I E) (n : Nat) (hn : N n = false)
    (hN : ∀ x, N' x = (decide (x = n) || N x))
    (hO' : ∀ x y, O' x y = if x = n then none else O x y)
    (hI' : ∀ x y, I' y x = if y = n then none else I y x) :
    ConsV d N' O' I' E := by
  obtain ⟨h1, h2, h3, h4, h5⟩ := hc
  constructor <;> grind (splits := 40)

/-- erasing the row of an isolated node -/
theorem ConsV.eraseNode (hc : ConsV d N O I E) (n : Nat) (hout : ∀ y, O n y = none) (hin : ∀ y, I n y = none)
    (hN : ∀ x, N' x = (!decide (x = n) && N x))
    (hO' : ∀ x y, O' x y = if x = n then none else O x y)
    (hI' : ∀ x y, I' y x = if y = n then none else I y x) :
    ConsV d N' O' I' E := by
  obtain ⟨h1, h2, h3, h4, h5⟩ := hc
  constructor <;> grind (splits := 40)

/-- `switchNodes` on a directed graph: the relation father->son (edge e) becomes son->father -/
theorem ConsV.switch (hc : ConsV true N O I E) (f s e : Nat) (hO : O f s = some e)
    (hrec : f ≠ s → O s f = none)
    (hN : ∀ x, N' x = N x)
    (hO' : ∀ x y, O' x y = if x = s ∧ y = f then some e else if x = f ∧ y = s then none else O x y)
    (hI' : ∀ x y, I' y x = if y = f ∧ x = s then some e else if y = s ∧ x = f then none else I y x)
    (hE' : ∀ e', E' e' = if e = e' then some (s, f) else E e') :
    ConsV true N' O' I' E' := by
  obtain ⟨h1, h2, h3, h4, h5⟩ := hc
  constructor <;> grind (splits := 40)

/-- `makeUndirected`: the node rows become the symmetric closure of the outgoing relation -/
theorem ConsV.undirect (hc : ConsV true N O I E)
    (hnr : ∀ x y e e', O x y = some e → O y x = some e' → x = y)
    (hN : ∀ x, N' x = N x)
    (hO' : ∀ x y, O' x y = (O x y).orElse (fun _ => O y x))
    (hI' : ∀ x y, I' y x = (O x y).orElse (fun _ => O y x)) :
    ConsV false N' O' I' E := by
  obtain ⟨h1, h2, h3, h4, h5⟩ := hc
  have key : ∀ x y e, O' x y = some e ↔ (O x y = some e ∨ (O x y = none ∧ O y x = some e)) := by
    intro x y e; rw [hO']; cases hx : O x y <;> simp
  have keyI : ∀ x y e, I' y x = some e ↔ (O x y = some e ∨ (O x y = none ∧ O y x = some e)) := by
    intro x y e; rw [hI']; cases hx : O x y <;> simp
  constructor
  · intro e a b hE
    have := h1 e a b hE
    refine ⟨(key a b e).mpr (Or.inl this.1), (keyI a b e).mpr (Or.inl this.1), fun _ => ⟨?_, ?_⟩⟩
    · apply (key b a e).mpr
      cases hba : O b a with
      | none => exact Or.inr ⟨rfl, this.1⟩
      | some e' =>
        have hab := hnr a b e e' this.1 hba
        subst hab; rw [this.1] at hba; injection hba with hba; subst hba; exact Or.inl rfl
    · apply (keyI b a e).mpr
      cases hba : O b a with
      | none => exact Or.inr ⟨rfl, this.1⟩
      | some e' =>
        have hab := hnr a b e e' this.1 hba
        subst hab; rw [this.1] at hba; injection hba with hba; subst hba; exact Or.inl rfl
  · intro a b e h
    rcases (key a b e).mp h with h | ⟨_, h⟩
    · rcases h2 a b e h with h | ⟨hd, _⟩
      · exact Or.inl h
      · cases hd
    · rcases h2 b a e h with h | ⟨hd, _⟩
      · exact Or.inr ⟨rfl, h⟩
      · cases hd
  · intro a b e h
    rcases (keyI a b e).mp h with h | ⟨_, h⟩
    · rcases h2 a b e h with h | ⟨hd, _⟩
      · exact Or.inl h
      · cases hd
    · rcases h2 b a e h with h | ⟨hd, _⟩
      · exact Or.inr ⟨rfl, h⟩
      · cases hd
  · intro a b e h
    rw [hN]
    rcases (key a b e).mp h with h | ⟨_, h⟩
    · exact h4 a b e h
    · rcases h2 b a e h with hE | ⟨hd, _⟩
      · exact h5 b a e (h1 e b a hE).2.1
      · cases hd
  · intro a b e h
    rw [hN]
    rcases (keyI a b e).mp h with h | ⟨_, h⟩
    · rcases h2 a b e h with hE | ⟨hd, _⟩
      · exact h5 a b e (h1 e a b hE).2.1
      · cases hd
    · exact h4 b a e h

end views

namespace G
/-! ### graph-level: what each mutator does to a consistent graph -/

/-- the property holds of the state left by the operation, whether it succeeded or raised -/
def _root_.Bpp.Graph.GOut.All {α : Type} (P : G → Prop) : GOut α → Prop
  | .ok _ g => P g
  | .exc g => P g

theorem cons_absent {g : G} (hc : Consistent g) {a b : Nat} (hO : g.outE a b = none) :
    g.inE b a = none ∧ (g.directed = false → g.outE b a = none ∧ g.inE a b = none) :=
  hc.views.absent hO

theorem outE_linkInEdge (a b e x y : Nat) (g : G) : (linkInEdge a b e g).outE x y = g.outE x y := rfl
theorem inE_linkInEdge (a b e x y : Nat) (g : G) : (linkInEdge a b e g).inE y x = g.inE y x := rfl
theorem hasNode_linkInEdge (a b e x : Nat) (g : G) : (linkInEdge a b e g).hasNode x = g.hasNode x := rfl

section linkWrite
variable {g : G} {a b : Nat} (e : Nat) (ha : g.hasNode a = true) (hb : g.hasNode b = true)
  (hO : g.outE a b = none) (hI : g.inE b a = none) (hU : g.directed = false → g.outE b a = none ∧ g.inE a b = none)
include ha hb hO hI hU

theorem outE_linkWrite (x y : Nat) : (linkWrite a b e g).outE x y =
    if x = a ∧ y = b then some e else if g.directed = false ∧ x = b ∧ y = a then some e else g.outE x y := by
  unfold linkWrite
  cases hd : g.directed
  · have := hU hd
    simp only [outE_linkInEdge, outE_linkInNode, hasNode_linkInNode, Bool.false_eq_true, if_false]
    grind
  · simp only [outE_linkInEdge, outE_linkInNode, if_true]
    grind

theorem inE_linkWrite (x y : Nat) : (linkWrite a b e g).inE y x =
    if y = b ∧ x = a then some e else if g.directed = false ∧ y = a ∧ x = b then some e else g.inE y x := by
  unfold linkWrite
  cases hd : g.directed
  · have := hU hd
    simp only [inE_linkInEdge, inE_linkInNode, hasNode_linkInNode, Bool.false_eq_true, if_false]
    grind
  · simp only [inE_linkInEdge, inE_linkInNode, if_true]
    grind

end linkWrite

theorem hasNode_linkWrite (a b e x : Nat) (g : G) : (linkWrite a b e g).hasNode x = g.hasNode x := by
  unfold linkWrite
  cases g.directed <;> simp [hasNode_linkInEdge, hasNode_linkInNode]

theorem find_linkWrite (a b e e' : Nat) (g : G) :
    find e' (linkWrite a b e g).edges = if e = e' then some (a, b) else find e' g.edges := by
  unfold linkWrite
  rw [find_linkInEdge]
  cases g.directed <;> rfl

theorem linkWrite_rest (a b e : Nat) (g : G) : (linkWrite a b e g).directed = g.directed ∧
    (linkWrite a b e g).nextNode = g.nextNode ∧ (linkWrite a b e g).nextEdge = g.nextEdge ∧
    (linkWrite a b e g).root = g.root ∧ (linkWrite a b e g).pending = g.pending := by
  unfold linkWrite; cases hd : g.directed <;> simp [linkInEdge, linkInNode, hd]

theorem sorted_linkWrite (a b e : Nat) (g : G) (h : Sorted g) : Sorted (linkWrite a b e g) := by
  unfold linkWrite
  cases g.directed
  · exact sorted_linkInEdge _ _ _ _ (sorted_linkInNode _ _ _ _ (sorted_linkInNode _ _ _ _ h))
  · exact sorted_linkInEdge _ _ _ _ (sorted_linkInNode _ _ _ _ h)

/-- writing a fresh edge between two existing, unrelated nodes keeps the graph consistent -/
theorem consistent_linkWrite {g : G} (hc : Consistent g) {a b e : Nat} (ha : g.hasNode a = true) (hb : g.hasNode b = true)
    (hO : g.outE a b = none) (hE : find e g.edges = none) (hlt : e < g.nextEdge) :
    Consistent (linkWrite a b e g) := by
  have habs := cons_absent hc hO
  have r := linkWrite_rest a b e g
  refine ⟨?_, ?_, ?_, sorted_linkWrite _ _ _ _ hc.sorted⟩
  · rw [r.1]
    exact hc.views.link a b e ha hb hO hE (hasNode_linkWrite a b e · g)
      (outE_linkWrite e ha hb hO habs.1 habs.2) (fun x y => inE_linkWrite e ha hb hO habs.1 habs.2 x y)
      (fun e' => find_linkWrite a b e e' g)
  · intro n hn; rw [hasNode_linkWrite] at hn; rw [r.2.1]; exact hc.node_lt n hn
  · intro e' he'
    rw [r.2.2.1]
    simp only [hasEdge, has, find_linkWrite] at he'
    by_cases h : e = e'
    · subst h; exact hlt
    · simp only [h, if_false] at he'; exact hc.edge_lt e' he'

theorem fresh_node {g : G} (hc : Consistent g) : g.hasNode g.nextNode = false := by
  cases h : g.hasNode g.nextNode with
  | false => rfl
  | true => have := hc.node_lt _ h; omega

theorem fresh_edge {g : G} (hc : Consistent g) {e : Nat} (he : g.nextEdge ≤ e) : find e g.edges = none := by
  rcases find_cases e g.edges with hf | ⟨r, hf⟩
  · exact hf
  · have : g.hasEdge e = true := by simp [hasEdge, has, hf]
    have := hc.edge_lt _ this; omega

theorem linkRefused_false {g : G} {a b : Nat} (h : linkRefused g a b = false) :
    g.hasNode a = true ∧ g.hasNode b = true ∧ g.outE a b = none := by
  unfold linkRefused at h
  cases h1 : g.hasNode a <;> cases h2 : g.hasNode b <;> cases h3 : g.outE a b <;> simp_all

/-- `link` -/
theorem link_consistent {g : G} (hc : Consistent g) (a b : Nat) : (link a b g).All Consistent := by
  unfold link
  cases hr : linkRefused g a b
  · obtain ⟨ha, hb, hO⟩ := linkRefused_false hr
    simp only [Bool.false_eq_true, if_false, GOut.All]
    have hc0 : Consistent { g with nextEdge := g.nextEdge + 1 } :=
      ⟨hc.views, hc.node_lt, fun e he => Nat.lt_succ_of_lt (hc.edge_lt e he), ⟨hc.sorted.nodes, hc.sorted.edges, hc.sorted.rows⟩⟩
    exact consistent_linkWrite hc0 ha hb hO (fresh_edge hc (Nat.le_refl _)) (Nat.lt_succ_self _)
  · simpa [GOut.All] using hc

/-- `link` with a given edge id -/
theorem linkE_consistent {g : G} (hc : Consistent g) (a b e : Nat) : (linkE a b e g).All Consistent := by
  unfold linkE
  cases he : g.hasEdge e
  · cases hr : linkRefused g a b
    · obtain ⟨ha, hb, hO⟩ := linkRefused_false hr
      simp only [Bool.false_eq_true, if_false, GOut.All]
      have hE : find e g.edges = none := by
        simp only [hasEdge, has] at he
        rcases find_cases e g.edges with hf | ⟨r, hf⟩
        · exact hf
        · simp [hf] at he
      by_cases hge : e ≥ g.nextEdge
      · simp only [hge, if_true]
        have hc0 : Consistent { g with nextEdge := e + 1 } :=
          ⟨hc.views, hc.node_lt, fun e' he' => by have := hc.edge_lt e' he'; show e' < e + 1; omega, ⟨hc.sorted.nodes, hc.sorted.edges, hc.sorted.rows⟩⟩
        exact consistent_linkWrite hc0 ha hb hO hE (Nat.lt_succ_self _)
      · simp only [hge, if_false]
        exact consistent_linkWrite hc ha hb hO hE (by omega)
    · simpa [GOut.All] using hc
  · simpa [GOut.All] using hc

/-- `createNode` -/
theorem createNode_consistent {g : G} (hc : Consistent g) : (createNode g).All Consistent := by
  unfold createNode
  simp only [GOut.All]
  have hn := fresh_node hc
  have hrow : ∀ x, find x (AL.set g.nextNode ({} : Row) g.nodes) = if g.nextNode = x then some {} else find x g.nodes :=
    fun x => find_set _ _ _ _
  refine ⟨?_, ?_, hc.edge_lt, ?_⟩
  · refine hc.views.createNode g.nextNode hn ?_ ?_ ?_
    · intro x
      simp only [hasNode, has, hrow]
      by_cases h : g.nextNode = x
      · subst h; simp
      · have : ¬ x = g.nextNode := fun h' => h h'.symm
        simp [h, this]
    · intro x y
      simp only [outE, hrow]
      by_cases h : g.nextNode = x
      · subst h; simp [find]
      · have : ¬ x = g.nextNode := fun h' => h h'.symm
        simp [h, this]
    · intro x y
      simp only [inE, hrow]
      by_cases h : g.nextNode = y
      · subst h; simp [find]
      · have : ¬ y = g.nextNode := fun h' => h h'.symm
        simp [h, this]
  · intro n hn'
    simp only [hasNode, has, hrow] at hn'
    show n < g.nextNode + 1
    by_cases h : g.nextNode = n
    · omega
    · simp only [h, if_false] at hn'
      have := hc.node_lt n hn'; omega
  · refine ⟨asc_set _ _ _ hc.sorted.nodes, hc.sorted.edges, ?_⟩
    intro n r hr
    simp only [hrow] at hr
    by_cases h : g.nextNode = n
    · simp only [h, if_true, Option.some.injEq] at hr
      subst hr; exact ⟨asc_nil, asc_nil⟩
    · simp only [h, if_false] at hr
      exact hc.sorted.rows n r hr

theorem setRoot_consistent {g : G} (hc : Consistent g) (n : Nat) : (setRoot n g).All Consistent := by
  unfold setRoot
  split
  · exact ⟨hc.views, hc.node_lt, hc.edge_lt, ⟨hc.sorted.nodes, hc.sorted.edges, hc.sorted.rows⟩⟩
  · exact hc

/-! #### unlink -/

theorem unlinkInNode_none {g : G} {a b : Nat} (h : g.outE a b = none) : unlinkInNode a b g = .exc g := by
  unfold outE at h
  unfold unlinkInNode
  rcases find_cases a g.nodes with hf | ⟨ra, hf⟩
  · simp [hf]
  · simp only [hf, Option.bind_some] at h
    simp [hf, h]

theorem unlink_none {g : G} {a b : Nat} (h : g.outE a b = none) : unlink a b g = .exc g := by
  unfold unlink; rw [unlinkInNode_none h]

/-- what a successful `unlink(a,b)` did: the relation a->b (edge e) is gone from all three views -/
structure Unlinked (a b e : Nat) (g g' : G) : Prop where
  hasNode : ∀ n, g'.hasNode n = g.hasNode n
  keys : AL.keys g'.nodes = AL.keys g.nodes
  outE : ∀ x y, g'.outE x y = if (x = a ∧ y = b) ∨ (g.directed = false ∧ x = b ∧ y = a) then none else g.outE x y
  inE : ∀ x y, g'.inE y x = if (y = b ∧ x = a) ∨ (g.directed = false ∧ y = a ∧ x = b) then none else g.inE y x
  edges : g'.edges = erase e g.edges
  rest : g'.directed = g.directed ∧ g'.nextNode = g.nextNode ∧ g'.nextEdge = g.nextEdge ∧ g'.root = g.root
  pending : g'.pending = g.pending ++ [.edges [e]]
  sorted : Sorted g → Sorted g'

theorem cons_out_some {g : G} (hc : Consistent g) {a b e : Nat} (h : g.outE a b = some e) :
    g.inE b a = some e ∧ g.hasEdge e = true ∧ (g.directed = false → g.outE b a = some e ∧ g.inE a b = some e) := by
  obtain ⟨h1, h2, h3, h4, h5⟩ := hc.views
  have := h2 a b e h
  simp only [G.hasEdge, has]
  rcases this with h | ⟨hd, h⟩
  · have := h1 e a b h
    refine ⟨this.2.1, by simp [h], this.2.2⟩
  · have := h1 e b a h
    have h' := this.2.2 hd
    refine ⟨h'.2, by simp [h], fun _ => ⟨this.1, this.2.1⟩⟩

theorem unlink_some {g : G} (hc : Consistent g) {a b e : Nat} (h : g.outE a b = some e) :
    ∃ g', unlink a b g = .ok [e] g' ∧ Unlinked a b e g g' := by
  obtain ⟨hI, hEd, hU⟩ := cons_out_some hc h
  obtain ⟨g1, h1⟩ := unlinkInNode_succeeds h hI
  have u1 := unlinkInNode_ok h1
  unfold unlink
  rw [h1]
  by_cases hcase : (!g.directed && decide (a ≠ b)) = true
  · -- undirected, a ≠ b: the reverse relation is removed too
    have hd : g.directed = false := by cases hd : g.directed <;> simp_all
    have hab : a ≠ b := by simpa [hd] using hcase
    obtain ⟨hO2, hI2⟩ := hU hd
    have hO2' : g1.outE b a = some e := by rw [u1.outE]; simp [hO2, hab, Ne.symm hab]
    have hI2' : g1.inE a b = some e := by rw [u1.inE]; simp [hI2, hab, Ne.symm hab]
    obtain ⟨g2, h2⟩ := unlinkInNode_succeeds hO2' hI2'
    have u2 := unlinkInNode_ok h2
    simp only [hcase, if_true, h2]
    have hE2 : g2.hasEdge e = true := by
      simp only [hasEdge, u2.rest.1, u1.rest.1]; exact hEd
    simp only [unlinkInEdge, hE2, if_true]
    refine ⟨_, rfl, ?_⟩
    refine ⟨fun n => by rw [← u1.hasNode n, ← u2.hasNode n]; rfl, by rw [← u1.keys, ← u2.keys], ?_, ?_,
      by simp [u2.rest.1, u1.rest.1], by simp [u2.rest, u1.rest], by simp [u2.rest, u1.rest], ?_⟩
    · intro x y
      have := u2.outE x y; have := u1.outE x y
      simp only [G.outE] at *
      grind
    · intro x y
      have := u2.inE x y; have := u1.inE x y
      simp only [G.inE] at *
      grind
    · intro hs
      have s2 := u2.sorted (u1.sorted hs)
      exact ⟨s2.nodes, asc_erase _ _ s2.edges, s2.rows⟩
  · have hcase' : (!g.directed && decide (a ≠ b)) = false := by simpa using hcase
    simp only [hcase', Bool.false_eq_true, if_false]
    have hE1 : g1.hasEdge e = true := by simp only [hasEdge, u1.rest.1]; exact hEd
    simp only [unlinkInEdge, hE1, if_true]
    refine ⟨_, rfl, ?_⟩
    refine ⟨fun n => u1.hasNode n, u1.keys, ?_, ?_, by simp [u1.rest.1], by simp [u1.rest], by simp [u1.rest], ?_⟩
    · intro x y
      have := u1.outE x y
      simp only [G.outE] at *
      grind
    · intro x y
      have := u1.inE x y
      simp only [G.inE] at *
      grind
    · intro hs
      have s1 := u1.sorted hs
      exact ⟨s1.nodes, asc_erase _ _ s1.edges, s1.rows⟩

theorem Unlinked.consistent {a b e : Nat} {g g' : G} (u : Unlinked a b e g g') (hc : Consistent g)
    (h : g.outE a b = some e) : Consistent g' := by
  refine ⟨?_, ?_, ?_, u.sorted hc.sorted⟩
  · rw [u.rest.1]
    exact hc.views.unlink a b e h u.hasNode u.outE u.inE (fun e' => by rw [u.edges, find_erase])
  · intro n hn; rw [u.hasNode] at hn; rw [u.rest.2.1]; exact hc.node_lt n hn
  · intro e' he'
    rw [u.rest.2.2.1]
    simp only [hasEdge, has, u.edges, find_erase] at he'
    by_cases h : e = e'
    · simp [h] at he'
    · simp only [h, if_false] at he'; exact hc.edge_lt e' he'

theorem unlink_consistent {g : G} (hc : Consistent g) (a b : Nat) : (unlink a b g).All Consistent := by
  rcases hO : g.outE a b with _ | e
  · rw [unlink_none hO]; exact hc
  · obtain ⟨g', h, u⟩ := unlink_some hc hO
    rw [h]; exact u.consistent hc hO

/-! #### switchNodes -/

theorem row_switchedNodes (f s e x : Nat) (nodes : List (Nat × Row)) :
    find x (switchedNodes f s e nodes) = (find x nodes).map (fun r =>
      { out := (fun o => if x = s then AL.set f e o else o) (if x = f then erase s r.out else r.out),
        inn := (fun i => if x = f then AL.set s e i else i) (if x = s then erase f r.inn else r.inn) }) := by
  simp only [switchedNodes, find_modify]
  rcases find_cases x nodes with hf | ⟨r, hf⟩
  · by_cases h1 : f = x <;> by_cases h2 : s = x <;> simp_all
  · by_cases h1 : f = x <;> by_cases h2 : s = x
    · subst h1; subst h2; simp [hf]
    · subst h1; have : ¬ f = s := fun h => h2 h.symm
      simp [hf, h2, this]
    · subst h2; have : ¬ s = f := fun h => h1 h.symm
      simp [hf, h1, this]
    · have h1' : ¬ x = f := fun h => h1 h.symm
      have h2' : ¬ x = s := fun h => h2 h.symm
      simp [hf, h1, h2, h1', h2']

theorem outE_switched (f s e x y : Nat) (nodes : List (Nat × Row)) :
    (find x (switchedNodes f s e nodes)).bind (fun r => find y r.out) =
      if x = s ∧ y = f ∧ (find s nodes).isSome = true then some e
      else if x = f ∧ y = s then none else (find x nodes).bind (fun r => find y r.out) := by
  rw [row_switchedNodes]
  rcases find_cases x nodes with hf | ⟨r, hf⟩
  · by_cases h1 : x = s
    · subst h1; simp [hf]
    · simp [hf, h1]
  · by_cases h1 : x = s
    · subst h1
      by_cases h2 : x = f
      · subst h2
        by_cases h3 : y = x
        · subst h3; simp [hf, find_set]
        · have : ¬ x = y := fun h => h3 h.symm
          simp [hf, find_set, find_erase, h3, this]
      · by_cases h3 : y = f
        · subst h3; simp [hf, find_set, h2]
        · have : ¬ f = y := fun h => h3 h.symm
          simp [hf, find_set, h2, h3, this]
    · by_cases h2 : x = f
      · subst h2
        by_cases h3 : y = s
        · subst h3; simp [hf, find_erase, h1]
        · have : ¬ s = y := fun h => h3 h.symm
          simp [hf, find_erase, h1, h3, this]
      · simp [hf, h1, h2]

theorem inE_switched (f s e x y : Nat) (nodes : List (Nat × Row)) :
    (find y (switchedNodes f s e nodes)).bind (fun r => find x r.inn) =
      if y = f ∧ x = s ∧ (find f nodes).isSome = true then some e
      else if y = s ∧ x = f then none else (find y nodes).bind (fun r => find x r.inn) := by
  rw [row_switchedNodes]
  rcases find_cases y nodes with hf | ⟨r, hf⟩
  · by_cases h1 : y = f
    · subst h1; simp [hf]
    · simp [hf, h1]
  · by_cases h1 : y = f
    · subst h1
      by_cases h2 : y = s
      · subst h2
        by_cases h3 : x = y
        · subst h3; simp [hf, find_set]
        · have : ¬ y = x := fun h => h3 h.symm
          simp [hf, find_set, find_erase, h3, this]
      · by_cases h3 : x = s
        · subst h3; simp [hf, find_set, h2]
        · have : ¬ s = x := fun h => h3 h.symm
          simp [hf, find_set, h2, h3, this]
    · by_cases h2 : y = s
      · subst h2
        by_cases h3 : x = f
        · subst h3; simp [hf, find_erase, h1]
        · have : ¬ f = x := fun h => h3 h.symm
          simp [hf, find_erase, h1, h3, this]
      · simp [hf, h1, h2]

theorem switchFrom_exc {g g' : G} {f s e : Nat} (h : switchFrom f s e g = .exc g') : g' = g := by
  unfold switchFrom at h
  split at h
  · injection h with h; exact h.symm
  · split at h
    · injection h with h; exact h.symm
    · cases h

theorem switchNodes_exc {g g' : G} {a b : Nat} (h : switchNodes a b g = .exc g') : g' = g := by
  unfold switchNodes at h
  split at h
  · injection h with h; exact h.symm
  · split at h
    · injection h with h; exact h.symm
    · split at h
      · exact switchFrom_exc h
      · split at h
        · exact switchFrom_exc h
        · injection h with h; exact h.symm

theorem switchFrom_consistent {g : G} (hc : Consistent g) (hd : g.directed = true) {f s e : Nat}
    (hO : g.outE f s = some e) : (switchFrom f s e g).All Consistent := by
  unfold switchFrom
  split
  · exact hc
  · split
    · exact hc
    · rename_i hin hrec
      have hrec' : f ≠ s → g.outE s f = none := by
        intro hne
        cases h1 : g.outE s f with
        | none => rfl
        | some e0 => simp [hne, h1] at hrec
      have hnf : g.hasNode f = true := outE_some_hasNode hO
      have hns : g.hasNode s = true := inE_some_hasNode (cons_out_some hc hO).1
      simp only [GOut.All]
      have hrow := row_switchedNodes f s e
      have hv := hc.views
      rw [hd] at hv
      refine ⟨?_, ?_, ?_, ?_⟩
      · show ConsV g.directed _ _ _ _
        rw [hd]
        refine hv.switch f s e hO hrec' (N' := fun n => AL.has n (switchedNodes f s e g.nodes)) ?_ ?_ ?_ ?_
        · intro x
          simp only [hasNode, has, hrow]
          rcases find_cases x g.nodes with hf | ⟨r, hf⟩ <;> simp [hf]
        · intro x y
          simp only [outE, outE_switched]
          simp only [hasNode, has] at hns
          simp [hns]
        · intro x y
          simp only [inE, inE_switched]
          simp only [hasNode, has] at hnf
          simp [hnf]
        · intro e'; simp [find_set]
      · intro n hn
        simp only [hasNode, has, hrow] at hn
        apply hc.node_lt n
        simp only [hasNode, has]
        rcases find_cases n g.nodes with hf | ⟨r, hf⟩ <;> simp_all
      · intro e' he'
        simp only [hasEdge, has, find_set] at he'
        by_cases h : e = e'
        · subst h
          exact hc.edge_lt e (cons_out_some hc hO).2.1
        · simp only [h, if_false] at he'; exact hc.edge_lt e' he'
      · refine ⟨?_, asc_set _ _ _ hc.sorted.edges, ?_⟩
        · simp only [switchedNodes]
          exact asc_modify _ _ _ (asc_modify _ _ _ (asc_modify _ _ _ (asc_modify _ _ _ hc.sorted.nodes)))
        · intro n r hr
          simp only [hrow] at hr
          rcases find_cases n g.nodes with hf | ⟨r0, hf⟩
          · simp [hf] at hr
          · simp only [hf, Option.map_some, Option.some.injEq] at hr
            subst hr
            have := hc.sorted.rows n r0 hf
            constructor
            · dsimp only
              split <;> split <;> first | exact asc_set _ _ _ (asc_erase _ _ this.1) | exact asc_set _ _ _ this.1 | exact asc_erase _ _ this.1 | exact this.1
            · dsimp only
              split <;> split <;> first | exact asc_set _ _ _ (asc_erase _ _ this.2) | exact asc_set _ _ _ this.2 | exact asc_erase _ _ this.2 | exact this.2

theorem switchNodes_consistent {g : G} (hc : Consistent g) (a b : Nat) : (switchNodes a b g).All Consistent := by
  unfold switchNodes
  split
  · exact hc
  · rename_i hd
    have hd' : g.directed = true := by simpa using hd
    split
    · exact hc
    · split
      · rename_i e he; exact switchFrom_consistent hc hd' he
      · split
        · rename_i e he; exact switchFrom_consistent hc hd' he
        · exact hc

/-! #### composite creators -/

theorem createNodeFromNode_consistent {g : G} (hc : Consistent g) (o : Nat) : (createNodeFromNode o g).All Consistent := by
  unfold createNodeFromNode
  split
  · exact hc
  · have h1 := createNode_consistent hc
    rcases hr1 : createNode g with ⟨n, g1⟩ | g1 <;> rw [hr1] at h1 <;> simp only [GOut.All] at h1 ⊢
    · have h2 := link_consistent h1 o n
      rcases hr2 : link o n g1 with ⟨e, g2⟩ | g2 <;> rw [hr2] at h2 <;> simpa [GOut.All] using h2
    · exact h1

theorem createNodeOnEdge_consistent {g : G} (hc : Consistent g) (e : Nat) : (createNodeOnEdge e g).All Consistent := by
  unfold createNodeOnEdge
  split
  · exact hc
  · rename_i a b hab
    split
    · exact hc
    · have h1 := createNode_consistent hc
      rcases hr1 : createNode g with ⟨n, g1⟩ | g1 <;> rw [hr1] at h1 <;> simp only [GOut.All] at h1 ⊢
      · have h2 := unlink_consistent h1 a b
        rcases hr2 : unlink a b g1 with ⟨l, g2⟩ | g2 <;> rw [hr2] at h2 <;> simp only [GOut.All] at h2 ⊢
        · have h3 := link_consistent h2 a n
          rcases hr3 : link a n g2 with ⟨e1, g3⟩ | g3 <;> rw [hr3] at h3 <;> simp only [GOut.All] at h3 ⊢
          · have h4 := link_consistent h3 n b
            rcases hr4 : link n b g3 with ⟨e2, g4⟩ | g4 <;> rw [hr4] at h4 <;> simpa [GOut.All] using h4
          · exact h3
        · exact h2
      · exact h1

theorem createNodeFromEdge_consistent {g : G} (hc : Consistent g) (e : Nat) : (createNodeFromEdge e g).All Consistent := by
  unfold createNodeFromEdge
  split
  · exact hc
  · have h1 := createNodeOnEdge_consistent hc e
    rcases hr1 : createNodeOnEdge e g with ⟨n, g1⟩ | g1 <;> rw [hr1] at h1 <;> simp only [GOut.All] at h1 ⊢
    · exact createNodeFromNode_consistent h1 n
    · exact h1

end G
end Graph
end Bpp
