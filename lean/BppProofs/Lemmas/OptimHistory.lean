import BppModel.OptimLine
import BppModel.OptimSpec
/-!
Helper lemmas for C10: an optimiser object used again.

`DirectionFunction::init` rebuilds every member of the object but `params_`, and `params_` is written
by `setParameters` before anything reads it: a search that starts on an object left by earlier searches
runs exactly like the search on a fresh object.  The lemmas follow the first access of Brent's method
(outward bracketing: `bracketMinimum`, `eval0`) and of the Newton backtracking search to the function
they are given.  Generic in the scalar type (nothing about the reals is used).
-/
namespace Bpp.Optim
open Bpp Scalar

variable {α : Type} [Scalar α] {F : Type}

/-- `f(pl)` of a `DirectionFunction` does not depend on what `params_` holds -/
theorem DirFn.f_params_dead (I : FunI F α) (df : DirFn F α) (q pl : PList α) :
    (DirFn.iface I).f { df with params := q } pl = (DirFn.iface I).f df pl := rfl

theorem eval0_params_dead (I : FunI F α) (df : DirFn F α) (q pl : PList α) (x : α) :
    eval0 (DirFn.iface I) { df with params := q } pl x =
      match setValueAt pl 0 x with
      | .error e => .error (e, { df with params := q })
      | .ok _ => eval0 (DirFn.iface I) df pl x := by
  unfold eval0
  cases setValueAt pl 0 x with
  | error e => rfl
  | ok pl' => simp only [DirFn.f_params_dead]

theorem bracketMinimum_params_dead (I : FunI F α) (fuel : Nat) (a b : α) (df : DirFn F α) (q pl : PList α) :
    bracketMinimum (DirFn.iface I) fuel a b { df with params := q } pl =
      match setValueAt pl 0 a with
      | .error e => .error (e, { df with params := q })
      | .ok _ => bracketMinimum (DirFn.iface I) fuel a b df pl := by
  unfold bracketMinimum
  rw [eval0_params_dead]
  cases h : setValueAt pl 0 a with
  | error e => rfl
  | ok pl' => rfl

/-- Brent's `init` (outward bracketing) on a `DirectionFunction` whose `params_` holds `q`: either the
very first `setValue` of the bracketing raises (before the function is touched: the exception carries
the untouched object), or everything is as on the object whose `params_` holds anything else -/
theorem lineBrent_init_params_dead (I : FunI F α) (fuel : Nat) (df : DirFn F α) (q : PList α) :
    (∃ e, (brentAlgo (DirFn.iface I) fuel).init (lineBrent { df with params := q }) xParam = .error (e, { df with params := q }) ∧
          (brentAlgo (DirFn.iface I) fuel).init (lineBrent df) xParam = .error (e, df)) ∨
    (brentAlgo (DirFn.iface I) fuel).init (lineBrent { df with params := q }) xParam =
      (brentAlgo (DirFn.iface I) fuel).init (lineBrent df) xParam := by
  have hlen : ((xParam : PList α).length != 1) = false := rfl
  simp only [Algo.init, brentAlgo, brentDoInit, lineBrent, hlen, Bool.false_eq_true, if_false, freshCore, applyPolicy]
  rw [bracketMinimum_params_dead]
  cases h : setValueAt (xParam : PList α) 0 (orderedInterval (zero : α) OptimConstants.LM_XX).1 with
  | error e =>
    left
    refine ⟨e, ?_, ?_⟩
    · rfl
    · simp only [bracketMinimum, eval0, h]
  | ok pl' => right; rfl

theorem lineMinimizationFrom_params_dead (I : FunI F α) (fuel : Nat) (df : DirFn F α) (q : PList α)
    (parameters : PList α) (xi : List α) :
    lineMinimizationFrom I fuel { df with params := q } parameters xi = lineMinimizationFrom I fuel df parameters xi := by
  unfold lineMinimizationFrom
  rcases lineBrent_init_params_dead I fuel df q with ⟨e, h1, h2⟩ | h
  · simp only [h1, h2]
  · simp only [h]

/-- the Newton backtracking search's `init` evaluates the function first thing -/
theorem lineNBack_init_params_dead (I : FunI F α) (df : DirFn F α) (q : PList α) (slope test : α) :
    (nbackAlgo (DirFn.iface I)).init (lineNBack { df with params := q } slope test) xParam =
      (nbackAlgo (DirFn.iface I)).init (lineNBack df slope test) xParam := by
  have hlen : ((xParam : PList α).length != 1) = false := rfl
  simp only [Algo.init, nbackAlgo, nbackDoInit, lineNBack, hlen, Bool.false_eq_true, if_false, freshCore, applyPolicy,
    DirFn.f_params_dead]

theorem lineSearchFrom_params_dead (I : FunI F α) (fuel : Nat) (df : DirFn F α) (q : PList α)
    (parameters : PList α) (xi gradient : List α) :
    lineSearchFrom I fuel { df with params := q } parameters xi gradient = lineSearchFrom I fuel df parameters xi gradient := by
  unfold lineSearchFrom
  simp only [lineNBack_init_params_dead]

/-- `init` on a used object: what `init` on a fresh one builds, with the old `params_` -/
theorem DirFn.reinit_eq (old : DirFn F α) (fn : F) (pol : Policy) (p : PList α) (xi : List α) :
    DirFn.reinit old fn pol p xi = { DirFn.init fn pol p xi with params := old.params } := rfl

theorem lineMinimization_eq_from (I : FunI F α) (fuel : Nat) (fn : F) (parameters : PList α) (xi : List α) :
    lineMinimization I fuel fn parameters xi =
      (lineMinimizationFrom I fuel (DirFn.init fn .auto parameters xi) parameters xi).map Prod.fst := by
  unfold lineMinimization lineMinimizationFrom
  simp only []
  cases (brentAlgo (DirFn.iface I) fuel).init (lineBrent (DirFn.init fn .auto parameters xi)) xParam with
  | error e => rfl
  | ok bod =>
    simp only []
    cases brentOptimize (DirFn.iface I) fuel bod with
    | error e => rfl
    | ok r =>
      simp only []
      cases value0 r.1.fn.params with
      | none => rfl
      | some xmin =>
        simp only []
        cases moveAlong xmin parameters xi with
        | error e => rfl
        | ok r2 => rfl

theorem lineSearch_eq_from (I : FunI F α) (fuel : Nat) (fn : F) (parameters : PList α) (xi gradient : List α) :
    lineSearch I fuel fn parameters xi gradient =
      (lineSearchFrom I fuel (DirFn.init fn .auto parameters xi) parameters xi gradient).map Prod.fst := by
  unfold lineSearch lineSearchFrom
  simp only []
  cases (nbackAlgo (DirFn.iface I)).init (lineNBack (DirFn.init fn .auto parameters xi) (dotFrom zero xi gradient)
      (lsTest zero parameters xi)) xParam with
  | error e => rfl
  | ok nb =>
    simp only []
    cases (nbackAlgo (DirFn.iface I)).optimize fuel nb with
    | error e => rfl
    | ok r =>
      simp only []
      cases value0 r.1.fn.params with
      | none => rfl
      | some xmin =>
        simp only []
        cases moveAlong xmin parameters xi with
        | error e => rfl
        | ok r2 => rfl

end Bpp.Optim
