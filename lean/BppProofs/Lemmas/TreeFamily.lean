import BppProofs.Lemmas.TreeRefCheck
/-
Sons and branches of a node of a valid rooted tree against the reference read off the edge table:
`getSons` / `getBranches` list, in matching order, the children of the node and the edges to them.
-/
namespace Bpp.Graph
open AL

namespace DTree
variable {g : G} {P : PTree}

theorem find_of_out' (h : DTree g P) {a b e : Nat} (ho : g.outE a b = some e) : find e g.edges = some (a, b) := by
  rcases h.cons.views.out_edge a b e ho with h1 | ⟨h2, _⟩
  · exact h1
  · rw [h.dir] at h2; cases h2

/-- the entries of the edge table with top `n`, as (bottom, edge) pairs, are the outgoing row of `n` up to order -/
theorem mem_children (h : DTree g P) (n c : Nat) : c ∈ (refRaw g).children n ↔ P.par c = some n := by
  unfold Ref.children
  simp only [List.mem_map, List.mem_filter]
  constructor
  · rintro ⟨⟨c', a, e⟩, ⟨hm, ha⟩, rfl⟩
    have ha' : a = n := by simpa using ha
    subst ha'
    exact (h.arc a c').1 (by unfold Arc; rw [(h.mem_up c' a e).1 hm]; rfl)
  · intro hp
    have : Arc g n c := (h.arc n c).2 hp
    unfold Arc at this
    cases ho : g.outE n c with
    | none => rw [ho] at this; cases this
    | some e => exact ⟨(c, n, e), ⟨(h.mem_up c n e).2 ho, by simp⟩, rfl⟩

theorem mem_branches (h : DTree g P) (n e : Nat) : e ∈ (refRaw g).branches n ↔ ∃ c, g.outE n c = some e := by
  unfold Ref.branches
  simp only [List.mem_map, List.mem_filter]
  constructor
  · rintro ⟨⟨c', a, e'⟩, ⟨hm, ha⟩, rfl⟩
    have ha' : a = n := by simpa using ha
    subst ha'
    exact ⟨c', (h.mem_up c' a e').1 hm⟩
  · rintro ⟨c, ho⟩
    exact ⟨(c, n, e), ⟨(h.mem_up c n e).2 ho, by simp⟩, rfl⟩

/-- the triples of the reference are pairwise different in their edge id, hence in their child
(a child has one incoming edge) -/
theorem up_pairwise (h : DTree g P) :
    List.Pairwise (fun t u : Nat × Nat × Nat => t.1 ≠ u.1 ∧ t.2.2 ≠ u.2.2) (refRaw g).up := by
  have hasc : List.Pairwise (· < ·) (AL.keys g.edges) := h.cons.sorted.edges
  have hp : List.Pairwise (fun p q : Nat × (Nat × Nat) => p.1 < q.1) g.edges := by
    have := hasc; unfold AL.keys at this; exact List.pairwise_map.1 this
  have hp' := List.Pairwise.and_mem.1 hp
  simp only [refRaw]
  refine List.Pairwise.map _ ?_ hp'
  rintro ⟨e1, a1, c1⟩ ⟨e2, a2, c2⟩ ⟨hm1, hm2, hlt⟩
  simp only at hlt ⊢
  refine ⟨?_, by omega⟩
  intro hc
  subst hc
  have f1 := (mem_iff_find h.cons.sorted.edges e1 (a1, c1)).1 hm1
  have f2 := (mem_iff_find h.cons.sorted.edges e2 (a2, c1)).1 hm2
  have o1 := (h.cons.views.edge_listed e1 a1 c1 f1).1
  have o2 := (h.cons.views.edge_listed e2 a2 c1 f2).1
  have p1 := (h.arc a1 c1).1 (by unfold Arc; rw [o1]; rfl)
  have p2 := (h.arc a2 c1).1 (by unfold Arc; rw [o2]; rfl)
  rw [p1] at p2; cases p2
  rw [o1] at o2; cases o2
  omega

theorem children_nodup (h : DTree g P) (n : Nat) : ((refRaw g).children n).Nodup := by
  unfold Ref.children
  rw [List.nodup_iff_pairwise_ne]
  exact List.Pairwise.map (R := fun t u : Nat × Nat × Nat => t.1 ≠ u.1 ∧ t.2.2 ≠ u.2.2) _ (fun a b hab => hab.1)
    (List.Pairwise.sublist List.filter_sublist h.up_pairwise)

theorem branches_nodup (h : DTree g P) (n : Nat) : ((refRaw g).branches n).Nodup := by
  unfold Ref.branches
  rw [List.nodup_iff_pairwise_ne]
  exact List.Pairwise.map (R := fun t u : Nat × Nat × Nat => t.1 ≠ u.1 ∧ t.2.2 ≠ u.2.2) _ (fun a b hab => hab.2)
    (List.Pairwise.sublist List.filter_sublist h.up_pairwise)

/-- `getSons`: the children of the reference, up to order -/
theorem sons_perm (h : DTree g P) (n : Nat) : (g.outKeys n).Perm ((refRaw g).children n) := by
  rw [List.perm_ext_iff_of_nodup (G.nodup_of_asc (G.asc_outKeys h.cons.sorted n)) (h.children_nodup n)]
  intro c
  rw [h.mem_outKeys, h.mem_children]

theorem outEdges_of_row {n : Nat} {r : Row} (hr : find n g.nodes = some r) : g.outEdges n = some (AL.vals r.out) := by
  simp [G.outEdges, G.rowOf, RowQ.outEdges, hr]

theorem outKeys_of_row {n : Nat} {r : Row} (hr : find n g.nodes = some r) : g.outKeys n = AL.keys r.out := by
  simp [G.outKeys, hr]

/-- `getBranches`: the edges to the children, up to order; and in the order of `getSons` each
branch is the edge to the son at the same place -/
theorem branches_spec (h : DTree g P) {n : Nat} (hn : g.hasNode n = true) :
    ∃ row : List (Nat × Nat), g.outNeighbors n = some (row.map (·.1)) ∧ g.outEdges n = some (row.map (·.2)) ∧
      (row.map (·.2)).Perm ((refRaw g).branches n) ∧ ∀ q ∈ row, (refRaw g).edgeUp q.1 = some q.2 := by
  obtain ⟨r, hr⟩ := (G.hasNode_iff g n).1 hn
  have hasc := (h.cons.sorted.rows n r hr).1
  have hout : ∀ q, q ∈ r.out ↔ g.outE n q.1 = some q.2 := by
    intro q
    rw [mem_iff_find hasc q.1 q.2]
    simp [G.outE, hr]
  refine ⟨r.out, ?_, outEdges_of_row hr, ?_, ?_⟩
  · rw [G.outNeighbors_of_hasNode hn, outKeys_of_row hr]; rfl
  · have hnd : (r.out.map (·.2)).Nodup := by
      rw [List.nodup_iff_pairwise_ne]
      have hp : List.Pairwise (fun p q : Nat × Nat => p.1 < q.1) r.out := by
        have := hasc; unfold Asc AL.keys at this; exact List.pairwise_map.1 this
      refine List.Pairwise.map _ ?_ (List.Pairwise.and_mem.1 hp)
      rintro ⟨c1, e1⟩ ⟨c2, e2⟩ ⟨hm1, hm2, hlt⟩ he
      simp only at hlt he
      subst he
      have o1 := (hout (c1, e1)).1 hm1
      have o2 := (hout (c2, e1)).1 hm2
      have f1 := h.find_of_out' o1
      have f2 := h.find_of_out' o2
      rw [f1] at f2; cases f2; omega
    rw [List.perm_ext_iff_of_nodup hnd (h.branches_nodup n)]
    intro e
    rw [h.mem_branches]
    simp only [List.mem_map]
    constructor
    · rintro ⟨q, hq, rfl⟩; exact ⟨q.1, (hout q).1 hq⟩
    · rintro ⟨c, ho⟩; exact ⟨(c, e), (hout (c, e)).2 ho, rfl⟩
  · intro q hq
    have ho := (hout q).1 hq
    have hpc : P.par q.1 = some n := (h.arc n q.1).1 (by unfold Arc; rw [ho]; rfl)
    have hqn : g.hasNode q.1 = true := (G.arc_nodes h.cons (a := n) (b := q.1) (by unfold Arc; rw [ho]; rfl)).2
    rw [h.ref_edgeUp hqn]
    unfold T.edgeToFather
    rw [h.father hqn, hpc]
    exact ho

end DTree
end Bpp.Graph
