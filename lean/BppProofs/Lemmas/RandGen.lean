import BppModel.RandGen
import BppProofs.Lemmas.RandRcont
import BppProofs.Lemmas.ScalarReal
/-! Lemmas for C18 (reproducibility): histories of the generator state machine. -/
namespace Bpp.C18
open Bpp Bpp.Rand Bpp.RandGen

variable {σ α : Type} [Scalar α]

/-- the outputs of a concatenated history -/
theorem run_append (P : Prims σ α) (h1 h2 : List (Call α)) (g : σ) :
    run P (h1 ++ h2) g = ((run P h1 g).1 ++ (run P h2 (run P h1 g).2).1, (run P h2 (run P h1 g).2).2) := by
  induction h1 generalizing g with
  | nil => simp [run]
  | cons c cs ih => simp only [List.cons_append, run, ih]


theorem run_length (P : Prims σ α) : ∀ (l : List (Call α)) (g : σ), (run P l g).1.length = l.length
  | [], _ => rfl
  | c :: cs, g => by simp [run, run_length P cs]

end Bpp.C18
