import BppModel.Text.Number
/-! Helper lemmas for C17 (numbers): the recogniser loops computed phase by phase, and the
executable grammar `parseDecimal` against the declarative grammar `DecParts.WF / render`. -/
namespace Bpp.Text.Number
open Bpp.Text

theorem isDigit_ne {c d : Char} (hc : isDigit c = true) (hd : isDigit d = false) : (c == d) = false := by
  cases h : c == d
  · rfl
  · have : c = d := by simpa using h
    subst this; rw [hc] at hd; cases hd

/-! ### the loop of `isDecimalNumber` -/

section Loop
variable {dec sci : Char} (hs : SaneChars dec sci)
include hs

theorem decLoop_digits (sep sciN : Nat) (h1 : sep ≤ 1) (h2 : sciN ≤ 1) (l : Str) (dig : Nat) :
    decLoop dec sci sep sciN dig l
      = decLoop dec sci sep sciN (dig + (l.takeWhile isDigit).length) (l.dropWhile isDigit) := by
  induction l generalizing dig with
  | nil => simp
  | cons c rest ih =>
    by_cases hc : isDigit c = true
    · have e1 := isDigit_ne hc hs.2.1
      have e2 := isDigit_ne hc hs.2.2.1
      rw [decLoop.eq_def]
      simp only [e1, e2, hc, List.takeWhile_cons, List.dropWhile_cons, List.length_cons]
      have : ¬ (1 < sep) := by omega
      have : ¬ (1 < sciN) := by omega
      simp [*]
      rw [Nat.add_assoc, Nat.add_comm 1]
    · simp [List.takeWhile_cons, List.dropWhile_cons, hc]

/-- in the exponent (one separator counted, one exponent mark seen) only digits may follow -/
theorem decLoop_exp (l : Str) (dig : Nat) (hd : 0 < dig) :
    decLoop dec sci 1 1 dig l = l.all isDigit := by
  induction l generalizing dig with
  | nil => simp [decLoop, hd]
  | cons c rest ih =>
    rw [decLoop.eq_def]
    by_cases h1 : (c == dec) = true
    · have : c = dec := by simpa using h1
      subst this
      simp [hs.2.1]
    · by_cases h2 : (c == sci) = true
      · have : c = sci := by simpa using h2
        subst this
        have hne : ¬ dig = 0 := by omega
        simp [h1, hs.2.2.1, hne]
        cases rest <;> simp
      · by_cases hc : isDigit c = true
        · simp [h1, h2, hc]; exact ih (dig + 1) (by omega)
        · simp [h1, h2, hc]

/-- what must follow the exponent mark: an optional sign, then digits to the end, at least one -/
def expOk (r : Str) : Bool :=
  match r with
  | [] => false
  | c2 :: rest2 =>
    if c2 == '-' || c2 == '+' then !rest2.isEmpty && rest2.all isDigit
    else (c2 :: rest2).all isDigit

theorem decLoop_sci (sep : Nat) (h1 : sep ≤ 1) (dig : Nat) (r : Str) :
    decLoop dec sci sep 0 dig (sci :: r) = (decide (0 < dig) && expOk r) := by
  have hne : (sci == dec) = false := by
    cases h : sci == dec
    · rfl
    · have : sci = dec := by simpa using h
      exact absurd this.symm hs.1
  have hsep : sep = 0 ∨ sep = 1 := by omega
  rw [decLoop.eq_def]
  simp only [hne, beq_self_eq_true, Bool.false_eq_true, if_false, if_true]
  by_cases hd : dig = 0
  · simp [hd]
  · have hpos : 0 < dig := by omega
    cases r with
    | nil => simp [hd, expOk]
    | cons c2 rest2 =>
      by_cases hsg : (c2 == '-' || c2 == '+') = true
      · cases rest2 with
        | nil => simp [hd, expOk, hsg]
        | cons c3 rest3 =>
          have := decLoop_exp hs (c3 :: rest3) dig hpos
          rcases hsep with rfl | rfl <;> simp [hd, expOk, hsg, this, hpos]
      · have := decLoop_exp hs (c2 :: rest2) dig hpos
        rcases hsep with rfl | rfl <;> simp [hd, expOk, hsg, this, hpos]

end Loop

/-! ### recogniser = executable grammar -/

theorem dropWhile_head_false {p : Char → Bool} {l r : Str} {c : Char} (h : l.dropWhile p = c :: r) :
    p c = false := by
  induction l with
  | nil => simp at h
  | cons a t ih =>
    by_cases ha : p a = true
    · simp [List.dropWhile_cons, ha] at h; exact ih h
    · simp [List.dropWhile_cons, ha] at h
      rcases h with ⟨rfl, _⟩; simpa using ha

theorem isSpace_not_digit {c : Char} (h : isSpace c = true) : isDigit c = false := by
  simp [isSpace] at h
  rcases h with ((((rfl | rfl) | rfl) | rfl) | rfl) | rfl <;> decide

theorem parseExp_isSome (r : Str) : (parseExp r).isSome = expOk r := by
  cases r with
  | nil => simp [parseExp, expOk]
  | cons c2 rest2 =>
    by_cases h1 : c2 = '-'
    · subst h1; cases h : (!rest2.isEmpty && rest2.all isDigit) <;> simp [parseExp, expOk, h]
    · by_cases h2 : c2 = '+'
      · subst h2; cases h : (!rest2.isEmpty && rest2.all isDigit) <;> simp [parseExp, expOk, h]
      · unfold parseExp
        split
        · rename_i heq; simp at heq; exact absurd heq.1 h1
        · rename_i heq; simp at heq; exact absurd heq.1 h2
        · cases h : (isDigit c2 && rest2.all isDigit) <;> simp [expOk, h1, h2, h]

section Accept
variable {dec sci : Char} (hs : SaneChars dec sci)
include hs

theorem sci_ne_dec : (sci == dec) = false := by
  cases h : sci == dec
  · rfl
  · have : sci = dec := by simpa using h
    exact absurd this.symm hs.1

theorem decLoop_eq_parse (neg : Bool) (l : Str) :
    decLoop dec sci 0 0 0 l = (parseUnsigned dec sci neg l).isSome := by
  have hsd := sci_ne_dec hs
  rw [decLoop_digits hs 0 0 (by omega) (by omega) l 0]
  unfold parseUnsigned
  generalize l.takeWhile isDigit = ip
  cases hdw : l.dropWhile isDigit with
  | nil => cases ip <;> simp [decLoop, parseTail]
  | cons c r =>
    have hc := dropWhile_head_false hdw
    by_cases h1 : (c == dec) = true
    · have : c = dec := by simpa using h1
      subst this
      rw [decLoop.eq_def]
      simp only [beq_self_eq_true, if_true]
      rw [show (decide (1 < 0 + 1) || decide (1 < 0)) = false by decide]
      simp only [Bool.false_eq_true, if_false]
      rw [decLoop_digits hs 1 0 (by omega) (by omega) r]
      generalize r.takeWhile isDigit = fp
      cases hdw2 : r.dropWhile isDigit with
      | nil => (cases ip <;> cases fp <;> simp [decLoop, parseTail]) <;> omega
      | cons c' r' =>
        have hc' := dropWhile_head_false hdw2
        by_cases h3 : (c' == c) = true
        · have : c' = c := by simpa using h3
          subst this
          rw [decLoop.eq_def]
          have : (c' == sci) = false := by
            cases h : c' == sci
            · rfl
            · have : c' = sci := by simpa using h
              exact absurd this hs.1
          cases ip <;> cases fp <;> simp [parseTail, this]
        · by_cases h4 : (c' == sci) = true
          · have : c' = sci := by simpa using h4
            subst this
            rw [decLoop_sci hs 1 (by omega)]
            (cases ip <;> cases fp <;> simp [parseTail, parseExp_isSome]) <;> (intros; omega)
          · rw [decLoop.eq_def]
            cases ip <;> cases fp <;> simp [parseTail, h3, h4, hc']
    · by_cases h2 : (c == sci) = true
      · have : c = sci := by simpa using h2
        subst this
        rw [decLoop_sci hs 0 (by omega)]
        cases ip <;> simp [parseTail, hsd, parseExp_isSome]
      · rw [decLoop.eq_def]
        cases ip <;> simp [parseTail, h1, h2, hc]

theorem parseDecimal_none_of_empty (s : Str) (h : isEmptyStr s = true) : parseDecimal dec sci s = none := by
  cases s with
  | nil => simp [parseDecimal, parseUnsigned, parseTail]
  | cons c r =>
    have hsp : isSpace c = true := by simp [isEmptyStr] at h; exact h.1
    have hd := isSpace_not_digit hsp
    have hcd : (c == dec) = false := by
      cases hh : c == dec
      · rfl
      · have : c = dec := by simpa using hh
        subst this; rw [hs.2.2.2.2.2.2.2.1] at hsp; cases hsp
    unfold parseDecimal
    split
    · rename_i heq; simp at heq; rw [heq.1] at hsp; exact absurd hsp (by decide)
    · simp [parseUnsigned, List.dropWhile_cons, List.takeWhile_cons, hd, hcd, parseTail]

/-- the recogniser computes exactly the executable grammar -/
theorem isDecimalNumber_eq_parse (s : Str) :
    isDecimalNumber dec sci s = (parseDecimal dec sci s).isSome := by
  by_cases he : isEmptyStr s = true
  · simp [isDecimalNumber, he, parseDecimal_none_of_empty hs s he]
  · unfold isDecimalNumber parseDecimal
    simp only [he, Bool.false_eq_true, if_false]
    split
    · exact decLoop_eq_parse hs true _
    · exact decLoop_eq_parse hs false _

end Accept

end Bpp.Text.Number
