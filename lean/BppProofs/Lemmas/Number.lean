import BppModel.Text.Number
/-! Helper lemmas for C17 (numbers): the recogniser loops computed phase by phase, and the
executable grammar `parseDecimal` against the declarative grammar `DecParts.WF / render`. -/
namespace Bpp.Text.Number
open Bpp.Text

theorem isDigit_ne {c d : Char} (hc : isDigit c = true) (hd : isDigit d = false) : (c == d) = false := by
  cases h : c == d
  · rfl
  · have : c = d := by simpa using h
    subst this; rw [hc] at hd; cases hd

/-! ### the loop of `isDecimalNumber` -/

section Loop
variable {dec sci : Char} (hs : SaneChars dec sci)
include hs

theorem decLoop_digits (sep sciN : Nat) (h1 : sep ≤ 1) (h2 : sciN ≤ 1) (l : Str) (dig : Nat) :
    decLoop dec sci sep sciN dig l
      = decLoop dec sci sep sciN (dig + (l.takeWhile isDigit).length) (l.dropWhile isDigit) := by
  induction l generalizing dig with
  | nil => simp
  | cons c rest ih =>
    by_cases hc : isDigit c = true
    · have e1 := isDigit_ne hc hs.2.1
      have e2 := isDigit_ne hc hs.2.2.1
      rw [decLoop.eq_def]
      simp only [e1, e2, hc, List.takeWhile_cons, List.dropWhile_cons, List.length_cons]
      have : ¬ (1 < sep) := by omega
      have : ¬ (1 < sciN) := by omega
      simp [*]
      rw [Nat.add_assoc, Nat.add_comm 1]
    · simp [List.takeWhile_cons, List.dropWhile_cons, hc]

/-- in the exponent (one separator counted, one exponent mark seen) only digits may follow -/
theorem decLoop_exp (l : Str) (dig : Nat) (hd : 0 < dig) :
    decLoop dec sci 1 1 dig l = l.all isDigit := by
  induction l generalizing dig with
  | nil => simp [decLoop, hd]
  | cons c rest ih =>
    rw [decLoop.eq_def]
    by_cases h1 : (c == dec) = true
    · have : c = dec := by simpa using h1
      subst this
      simp [hs.2.1]
    · by_cases h2 : (c == sci) = true
      · have : c = sci := by simpa using h2
        subst this
        have hne : ¬ dig = 0 := by omega
        simp [h1, hs.2.2.1, hne]
        cases rest <;> simp
      · by_cases hc : isDigit c = true
        · simp [h1, h2, hc]; exact ih (dig + 1) (by omega)
        · simp [h1, h2, hc]

/-- what must follow the exponent mark: an optional sign, then digits to the end, at least one -/
def expOk (r : Str) : Bool :=
  match r with
  | [] => false
  | c2 :: rest2 =>
    if c2 == '-' || c2 == '+' then !rest2.isEmpty && rest2.all isDigit
    else (c2 :: rest2).all isDigit

theorem decLoop_sci (sep : Nat) (h1 : sep ≤ 1) (dig : Nat) (r : Str) :
    decLoop dec sci sep 0 dig (sci :: r) = (decide (0 < dig) && expOk r) := by
  have hne : (sci == dec) = false := by
    cases h : sci == dec
    · rfl
    · have : sci = dec := by simpa using h
      exact absurd this.symm hs.1
  have hsep : sep = 0 ∨ sep = 1 := by omega
  rw [decLoop.eq_def]
  simp only [hne, beq_self_eq_true, Bool.false_eq_true, if_false, if_true]
  by_cases hd : dig = 0
  · simp [hd]
  · have hpos : 0 < dig := by omega
    cases r with
    | nil => simp [hd, expOk]
    | cons c2 rest2 =>
      by_cases hsg : (c2 == '-' || c2 == '+') = true
      · cases rest2 with
        | nil => simp [hd, expOk, hsg]
        | cons c3 rest3 =>
          have := decLoop_exp hs (c3 :: rest3) dig hpos
          rcases hsep with rfl | rfl <;> simp [hd, expOk, hsg, this, hpos]
      · have := decLoop_exp hs (c2 :: rest2) dig hpos
        rcases hsep with rfl | rfl <;> simp [hd, expOk, hsg, this, hpos]

end Loop

/-! ### recogniser = executable grammar -/

theorem dropWhile_head_false {p : Char → Bool} {l r : Str} {c : Char} (h : l.dropWhile p = c :: r) :
    p c = false := by
  induction l with
  | nil => simp at h
  | cons a t ih =>
    by_cases ha : p a = true
    · simp [List.dropWhile_cons, ha] at h; exact ih h
    · simp [List.dropWhile_cons, ha] at h
      rcases h with ⟨rfl, _⟩; simpa using ha

theorem isSpace_not_digit {c : Char} (h : isSpace c = true) : isDigit c = false := by
  simp [isSpace] at h
  rcases h with ((((rfl | rfl) | rfl) | rfl) | rfl) | rfl <;> decide

theorem parseExp_isSome (r : Str) : (parseExp r).isSome = expOk r := by
  cases r with
  | nil => simp [parseExp, expOk]
  | cons c2 rest2 =>
    by_cases h1 : c2 = '-'
    · subst h1; cases h : (!rest2.isEmpty && rest2.all isDigit) <;> simp [parseExp, expOk, h]
    · by_cases h2 : c2 = '+'
      · subst h2; cases h : (!rest2.isEmpty && rest2.all isDigit) <;> simp [parseExp, expOk, h]
      · unfold parseExp
        split
        · rename_i heq; simp at heq; exact absurd heq.1 h1
        · rename_i heq; simp at heq; exact absurd heq.1 h2
        · cases h : (isDigit c2 && rest2.all isDigit) <;> simp [expOk, h1, h2, h]

section Accept
variable {dec sci : Char} (hs : SaneChars dec sci)
include hs

theorem sci_ne_dec : (sci == dec) = false := by
  cases h : sci == dec
  · rfl
  · have : sci = dec := by simpa using h
    exact absurd this.symm hs.1

theorem decLoop_eq_parse (neg : Bool) (l : Str) :
    decLoop dec sci 0 0 0 l = (parseUnsigned dec sci neg l).isSome := by
  have hsd := sci_ne_dec hs
  rw [decLoop_digits hs 0 0 (by omega) (by omega) l 0]
  unfold parseUnsigned
  generalize l.takeWhile isDigit = ip
  cases hdw : l.dropWhile isDigit with
  | nil => cases ip <;> simp [decLoop, parseTail]
  | cons c r =>
    have hc := dropWhile_head_false hdw
    by_cases h1 : (c == dec) = true
    · have : c = dec := by simpa using h1
      subst this
      rw [decLoop.eq_def]
      simp only [beq_self_eq_true, if_true]
      rw [show (decide (1 < 0 + 1) || decide (1 < 0)) = false by decide]
      simp only [Bool.false_eq_true, if_false]
      rw [decLoop_digits hs 1 0 (by omega) (by omega) r]
      generalize r.takeWhile isDigit = fp
      cases hdw2 : r.dropWhile isDigit with
      | nil => (cases ip <;> cases fp <;> simp [decLoop, parseTail]) <;> omega
      | cons c' r' =>
        have hc' := dropWhile_head_false hdw2
        by_cases h3 : (c' == c) = true
        · have : c' = c := by simpa using h3
          subst this
          rw [decLoop.eq_def]
          have : (c' == sci) = false := by
            cases h : c' == sci
            · rfl
            · have : c' = sci := by simpa using h
              exact absurd this hs.1
          cases ip <;> cases fp <;> simp [parseTail, this]
        · by_cases h4 : (c' == sci) = true
          · have : c' = sci := by simpa using h4
            subst this
            rw [decLoop_sci hs 1 (by omega)]
            (cases ip <;> cases fp <;> simp [parseTail, parseExp_isSome]) <;> (intros; omega)
          · rw [decLoop.eq_def]
            cases ip <;> cases fp <;> simp [parseTail, h3, h4, hc']
    · by_cases h2 : (c == sci) = true
      · have : c = sci := by simpa using h2
        subst this
        rw [decLoop_sci hs 0 (by omega)]
        cases ip <;> simp [parseTail, hsd, parseExp_isSome]
      · rw [decLoop.eq_def]
        cases ip <;> simp [parseTail, h1, h2, hc]

theorem parseDecimal_none_of_empty (s : Str) (h : isEmptyStr s = true) : parseDecimal dec sci s = none := by
  cases s with
  | nil => simp [parseDecimal, parseUnsigned, parseTail]
  | cons c r =>
    have hsp : isSpace c = true := by simp [isEmptyStr] at h; exact h.1
    have hd := isSpace_not_digit hsp
    have hcd : (c == dec) = false := by
      cases hh : c == dec
      · rfl
      · have : c = dec := by simpa using hh
        subst this; rw [hs.2.2.2.2.2.2.2.1] at hsp; cases hsp
    unfold parseDecimal
    split
    · rename_i heq; simp at heq; rw [heq.1] at hsp; exact absurd hsp (by decide)
    · simp [parseUnsigned, List.dropWhile_cons, List.takeWhile_cons, hd, hcd, parseTail]

/-- the recogniser computes exactly the executable grammar -/
theorem isDecimalNumber_eq_parse (s : Str) :
    isDecimalNumber dec sci s = (parseDecimal dec sci s).isSome := by
  by_cases he : isEmptyStr s = true
  · simp [isDecimalNumber, he, parseDecimal_none_of_empty hs s he]
  · unfold isDecimalNumber parseDecimal
    simp only [he, Bool.false_eq_true, if_false]
    split
    · exact decLoop_eq_parse hs true _
    · exact decLoop_eq_parse hs false _

end Accept

/-! ### executable grammar = declarative grammar -/

theorem allDigits_takeWhile (l : Str) : AllDigits (l.takeWhile isDigit) := by
  induction l with
  | nil => intro c hc; simp at hc
  | cons a t ih =>
    by_cases ha : isDigit a = true
    · simp only [List.takeWhile_cons, ha, if_true]
      intro c hc
      rcases List.mem_cons.mp hc with rfl | h
      · exact ha
      · exact ih c h
    · simp only [List.takeWhile_cons, ha]; intro c hc; simp at hc

theorem allDigits_of_all {l : Str} (h : l.all isDigit = true) : AllDigits l := by
  intro c hc; exact (List.all_eq_true.mp h) c hc

theorem all_of_allDigits {l : Str} (h : AllDigits l) : l.all isDigit = true :=
  List.all_eq_true.mpr h

/-- digits followed by nothing or by a non-digit: `takeWhile`/`dropWhile` split exactly there -/
theorem span_digits {ip rest : Str} (hip : AllDigits ip)
    (hrest : ∀ c r, rest = c :: r → isDigit c = false) :
    (ip ++ rest).takeWhile isDigit = ip ∧ (ip ++ rest).dropWhile isDigit = rest := by
  induction ip with
  | nil =>
    cases rest with
    | nil => simp
    | cons c r => simp [List.takeWhile_cons, List.dropWhile_cons, hrest c r rfl]
  | cons a t ih =>
    have ha : isDigit a = true := hip a (List.mem_cons_self ..)
    have ht : AllDigits t := fun c hc => hip c (List.mem_cons_of_mem _ hc)
    simp [List.takeWhile_cons, List.dropWhile_cons, ha, ih ht]

theorem parseExp_some {r : Str} {sg : Option Char} {ds : Str} (h : parseExp r = some (sg, ds)) :
    r = sg.toList ++ ds ∧ (sg = none ∨ sg = some '-' ∨ sg = some '+') ∧ AllDigits ds ∧ ds ≠ [] := by
  unfold parseExp at h
  split at h
  · split at h
    · rename_i hh; simp at h; rcases h with ⟨rfl, rfl⟩
      simp at hh; refine ⟨by simp, by simp, allDigits_of_all (by simpa using hh.2), hh.1⟩
    · cases h
  · split at h
    · rename_i hh; simp at h; rcases h with ⟨rfl, rfl⟩
      simp at hh; refine ⟨by simp, by simp, allDigits_of_all (by simpa using hh.2), hh.1⟩
    · cases h
  · split at h
    · rename_i hh; simp at h; rcases h with ⟨rfl, rfl⟩
      simp at hh; refine ⟨by simp, by simp, allDigits_of_all (by simpa using hh.2), hh.1⟩
    · cases h

theorem parseExp_render {sg : Option Char} {ds : Str}
    (hsg : sg = none ∨ sg = some '-' ∨ sg = some '+') (hds : AllDigits ds) (hne : ds ≠ []) :
    parseExp (sg.toList ++ ds) = some (sg, ds) := by
  have hall := all_of_allDigits hds
  have hemp : ds.isEmpty = false := by cases ds <;> simp at hne ⊢
  rcases hsg with rfl | rfl | rfl
  · cases ds with
    | nil => exact absurd rfl hne
    | cons c t =>
      have hc : isDigit c = true := hds c (List.mem_cons_self ..)
      have h1 : c ≠ '-' := by intro h; subst h; revert hc; decide
      have h2 : c ≠ '+' := by intro h; subst h; revert hc; decide
      simp only [Option.toList, List.nil_append]
      unfold parseExp
      split
      · rename_i heq; simp at heq; exact absurd heq.1 h1
      · rename_i heq; simp at heq; exact absurd heq.1 h2
      · simp [hall] at *
  · simp [parseExp, hall, hemp]
  · simp [parseExp, hall, hemp]

/-- the string of an exponent part -/
def exStr (sci : Char) : Option (Option Char × Str) → Str
  | none => []
  | some (sg, ds) => sci :: (sg.toList ++ ds)

theorem render_eq (dec sci : Char) (p : DecParts) :
    p.render dec sci = (if p.neg then ['-'] else []) ++ (p.ip ++ ((if p.hasDec then dec :: p.fp else []) ++ exStr sci p.ex)) := by
  unfold DecParts.render exStr
  rcases p with ⟨neg, ip, hasDec, fp, ex⟩
  cases ex with
  | none => simp
  | some e => rcases e with ⟨sg, ds⟩; simp

theorem parseTail_some {sci : Char} {neg hasDec : Bool} {ip fp s3 : Str} {p : DecParts}
    (h : parseTail sci neg ip hasDec fp s3 = some p) :
    (ip ≠ [] ∨ fp ≠ []) ∧ p.neg = neg ∧ p.ip = ip ∧ p.hasDec = hasDec ∧ p.fp = fp ∧ s3 = exStr sci p.ex ∧
    (match p.ex with
     | none => True
     | some (sg, ds) => (sg = none ∨ sg = some '-' ∨ sg = some '+') ∧ AllDigits ds ∧ ds ≠ []) := by
  unfold parseTail at h
  split at h
  · cases h
  · rename_i hne
    have hne' : ip ≠ [] ∨ fp ≠ [] := by
      cases ip <;> cases fp <;> simp at hne ⊢
    split at h
    · simp at h; subst h; simp [exStr, hne']
    · rename_i c r
      split at h
      · rename_i hc
        have : c = sci := by simpa using hc
        subst this
        cases he : parseExp r with
        | none => simp [he] at h
        | some e =>
          rcases e with ⟨sg, ds⟩
          simp [he] at h; subst h
          have := parseExp_some he
          simp [exStr, hne', this.1, this.2]
      · cases h

section Grammar
variable {dec sci : Char} (hs : SaneChars dec sci)
include hs

theorem exStr_head (ex : Option (Option Char × Str)) : ∀ c r, exStr sci ex = c :: r → isDigit c = false := by
  intro c r h
  cases ex with
  | none => simp [exStr] at h
  | some e => rcases e with ⟨sg, ds⟩; simp [exStr] at h; rw [← h.1]; exact hs.2.2.1

theorem parseUnsigned_sound {neg : Bool} {l : Str} {p : DecParts}
    (h : parseUnsigned dec sci neg l = some p) :
    p.WF ∧ p.neg = neg ∧ l = p.ip ++ ((if p.hasDec then dec :: p.fp else []) ++ exStr sci p.ex) := by
  unfold parseUnsigned at h
  have hl := (List.takeWhile_append_dropWhile (p := isDigit) (l := l)).symm
  have hip := allDigits_takeWhile l
  split at h
  · rename_i hdw
    have := parseTail_some h
    rcases this with ⟨hne, h1, h2, h3, h4, h5, h6⟩
    refine ⟨⟨by rw [h2]; exact hip, by rw [h4]; intro c hc; simp at hc, by rw [h2, h4]; exact hne, fun _ => h4, h6⟩, h1, ?_⟩
    rw [hdw] at hl
    rw [h3, ← h5, h2]; simpa using hl
  · rename_i c r hdw
    split at h
    · rename_i hc
      have : c = dec := by simpa using hc
      subst this
      have := parseTail_some h
      rcases this with ⟨hne, h1, h2, h3, h4, h5, h6⟩
      have hr := (List.takeWhile_append_dropWhile (p := isDigit) (l := r)).symm
      refine ⟨⟨by rw [h2]; exact hip, by rw [h4]; exact allDigits_takeWhile r, by rw [h2, h4]; exact hne, (fun hh => by rw [h3] at hh; cases hh), h6⟩, h1, ?_⟩
      rw [hdw] at hl
      rw [h3, ← h5, h2, h4]; simp only [if_true]
      rw [List.cons_append, ← hr]; exact hl
    · have := parseTail_some h
      rcases this with ⟨hne, h1, h2, h3, h4, h5, h6⟩
      refine ⟨⟨by rw [h2]; exact hip, by rw [h4]; intro c hc; simp at hc, by rw [h2, h4]; exact hne, fun _ => h4, h6⟩, h1, ?_⟩
      rw [hdw] at hl
      rw [h3, ← h5, h2]; simpa using hl

theorem parseUnsigned_complete (p : DecParts) (hwf : p.WF) :
    parseUnsigned dec sci p.neg (p.ip ++ ((if p.hasDec then dec :: p.fp else []) ++ exStr sci p.ex)) = some p := by
  rcases p with ⟨neg, ip, hasDec, fp, ex⟩
  rcases hwf with ⟨hip, hfp, hne, hfd, hex⟩
  simp only at hip hfp hne hfd hex ⊢
  have hsd := sci_ne_dec hs
  have hexs := exStr_head hs ex
  have hemp : (ip.isEmpty && fp.isEmpty) = false := by
    cases ip <;> cases fp <;> simp at hne ⊢
  have htail : ∀ hd, parseTail sci neg ip hd fp (exStr sci ex) = some ⟨neg, ip, hd, fp, ex⟩ := by
    intro hd
    unfold parseTail
    simp only [hemp, Bool.false_eq_true, if_false]
    cases ex with
    | none => simp [exStr]
    | some e =>
      rcases e with ⟨sg, ds⟩
      simp only at hex
      simp [exStr, parseExp_render hex.1 hex.2.1 hex.2.2]
  cases hasDec with
  | true =>
    have h1 := span_digits (ip := ip) (rest := dec :: (fp ++ exStr sci ex)) hip
      (by intro c r h; simp at h; rw [← h.1]; exact hs.2.1)
    have h2 := span_digits (ip := fp) (rest := exStr sci ex) hfp hexs
    unfold parseUnsigned
    simp only [if_true, List.cons_append, h1.1, h1.2, beq_self_eq_true, h2.1, h2.2]
    exact htail true
  | false =>
    have hfp0 : fp = [] := hfd rfl
    subst hfp0
    have h1 := span_digits (ip := ip) (rest := exStr sci ex) hip hexs
    unfold parseUnsigned
    simp only [Bool.false_eq_true, if_false, List.nil_append, h1.1, h1.2]
    have := htail false
    cases hx : exStr sci ex with
    | nil => rw [hx] at this; exact this
    | cons c r =>
      rw [hx] at this
      have hc : c = sci := by
        cases ex with
        | none => simp [exStr] at hx
        | some e => rcases e with ⟨sg, ds⟩; simp [exStr] at hx; exact hx.1.symm
      subst hc
      simp only [hsd, Bool.false_eq_true, if_false]; exact this

/-- soundness of the executable grammar -/
theorem parseDecimal_sound {s : Str} {p : DecParts} (h : parseDecimal dec sci s = some p) :
    p.WF ∧ s = p.render dec sci := by
  unfold parseDecimal at h
  rw [render_eq]
  split at h
  · have := parseUnsigned_sound hs h
    refine ⟨this.1, ?_⟩
    rw [this.2.1]; simp only [if_true]; rw [List.singleton_append, ← this.2.2]
  · have := parseUnsigned_sound hs h
    refine ⟨this.1, ?_⟩
    rw [this.2.1]; simp only [Bool.false_eq_true, if_false, List.nil_append]; exact this.2.2

/-- completeness (and unambiguity) of the executable grammar -/
theorem parseDecimal_complete (p : DecParts) (hwf : p.WF) :
    parseDecimal dec sci (p.render dec sci) = some p := by
  have hc := parseUnsigned_complete hs p hwf
  rw [render_eq]
  cases hneg : p.neg with
  | true =>
    rw [hneg] at hc
    simp only [if_true, List.singleton_append]
    unfold parseDecimal
    exact hc
  | false =>
    rw [hneg] at hc
    simp only [Bool.false_eq_true, if_false, List.nil_append]
    unfold parseDecimal
    split
    · rename_i r heq
      -- the unsigned numeral starts with a digit or the separator, never with '-'
      exfalso
      rcases hwf with ⟨hip, hfp, hne, hfd, _⟩
      cases hipc : p.ip with
      | cons a t =>
        rw [hipc] at heq; simp at heq
        have : isDigit a = true := hip a (by rw [hipc]; exact List.mem_cons_self ..)
        rw [heq.1] at this; revert this; decide
      | nil =>
        rw [hipc] at heq hne
        have hfpne : p.fp ≠ [] := by rcases hne with h | h; exact absurd rfl h; exact h
        have hd : p.hasDec = true := by
          cases hh : p.hasDec with
          | true => rfl
          | false => exact absurd (hfd hh) hfpne
        rw [hd] at heq; simp at heq
        exact hs.2.2.2.1 heq.1
    · exact hc

end Grammar

/-! ### the value read by the stream on grammatical input -/

theorem takeWhile_all {l : Str} (h : l.all isDigit = true) : l.takeWhile isDigit = l := by
  induction l with
  | nil => rfl
  | cons a t ih =>
    simp at h
    simp [List.takeWhile_cons, h.1]
    exact ih (by simpa using h.2)

theorem streamExpVal_of_parse {neg : Bool} {ip fp r : Str} {sg : Option Char} {ds : Str}
    (h : parseExp r = some (sg, ds)) :
    streamExpVal neg ip fp r = mkValue neg ip fp (sg == some '-') ds := by
  unfold parseExp at h
  unfold streamExpVal
  split at h
  · split at h
    · rename_i t hh; simp at h; rcases h with ⟨rfl, rfl⟩
      simp at hh
      have := takeWhile_all (l := t) (by simpa using hh.2)
      cases t with
      | nil => exact absurd rfl hh.1
      | cons a t' => rw [this]; simp
    · cases h
  · split at h
    · rename_i t hh; simp at h; rcases h with ⟨rfl, rfl⟩
      simp at hh
      have := takeWhile_all (l := t) (by simpa using hh.2)
      cases t with
      | nil => exact absurd rfl hh.1
      | cons a t' => rw [this]; simp
    · cases h
  · rename_i hn1 hn2
    split at h
    · rename_i hh; simp at h; rcases h with ⟨rfl, rfl⟩
      simp at hh
      have := takeWhile_all (l := r) (by simpa using hh.2)
      cases r with
      | nil => exact absurd rfl hh.1
      | cons a t' => rw [this]; simp
    · cases h

theorem streamTail_of_parse {sci : Char} (hsci : sci = 'e' ∨ sci = 'E') {neg hasDec : Bool}
    {ip fp s3 : Str} {p : DecParts} (h : parseTail sci neg ip hasDec fp s3 = some p) :
    streamTail neg ip fp s3 = p.value := by
  unfold parseTail at h
  unfold streamTail
  split at h
  · cases h
  · rename_i hne
    simp only [hne, if_false]
    split at h
    · simp at h; subst h; simp [DecParts.value]
    · rename_i c r
      split at h
      · rename_i hc
        have hc' : c = sci := by simpa using hc
        have : (c == 'e' || c == 'E') = true := by
          rcases hsci with rfl | rfl <;> simp [hc']
        simp only [this, if_true]
        cases he : parseExp r with
        | none => simp [he] at h
        | some e =>
          rcases e with ⟨sg, ds⟩
          simp [he] at h; subst h
          simp [DecParts.value, streamExpVal_of_parse he]
      · cases h

theorem streamUnsigned_of_parse {sci : Char} (hsci : sci = 'e' ∨ sci = 'E') {neg : Bool} {l : Str}
    {p : DecParts} (h : parseUnsigned '.' sci neg l = some p) : streamUnsigned neg l = p.value := by
  unfold parseUnsigned at h
  unfold streamUnsigned
  split at h
  · exact streamTail_of_parse hsci h
  · rename_i c r hdw
    by_cases hc : (c == '.') = true
    · simp only [hc, if_true] at h ⊢; exact streamTail_of_parse hsci h
    · have hc' : (c == '.') = false := by simpa using hc
      simp only [hc', Bool.false_eq_true, if_false] at h ⊢; exact streamTail_of_parse hsci h

theorem streamDouble_of_parse {sci : Char} (hsci : sci = 'e' ∨ sci = 'E') {s : Str} {p : DecParts}
    (h : parseDecimal '.' sci s = some p) : streamDouble s = p.value := by
  unfold parseDecimal at h
  unfold streamDouble
  split at h
  · exact streamUnsigned_of_parse hsci h
  · rename_i hn
    split
    · rename_i r; exact absurd rfl (hn r)
    · rename_i r
      -- a leading '+' is not grammatical
      exfalso
      have : parseUnsigned '.' sci false ('+' :: r) = none := by
        have hd : isDigit '+' = false := by decide
        simp [parseUnsigned, List.dropWhile_cons, List.takeWhile_cons, hd, parseTail]
      rw [this] at h; cases h
    · exact streamUnsigned_of_parse hsci h

/-! ### the translation of custom characters -/

theorem trChar_digits {dec sci : Char} (hd : isDigit dec = false) (hs : isDigit sci = false) {l : Str}
    (h : AllDigits l) : l.map (trChar dec sci) = l := by
  induction l with
  | nil => rfl
  | cons c r ih =>
    have hc := h c (by simp)
    have e1 : (c == dec) = false := isDigit_ne hc hd
    have e2 : (c == sci) = false := isDigit_ne hc hs
    simp only [List.map_cons, trChar, e1, e2, Bool.false_eq_true, if_false]
    rw [ih (fun x hx => h x (by simp [hx]))]

/-- the numeral written with the caller's characters, translated, is the numeral written with the
stream's characters -/
theorem map_trChar_render {dec sci : Char} (hs : SaneChars dec sci) (p : DecParts) (hwf : p.WF) :
    (p.render dec sci).map (trChar dec sci) = p.render '.' 'e' := by
  obtain ⟨hne, hdd, hds, hdm, hdp, hsm, hsp, _, _⟩ := hs
  obtain ⟨h1, h2, _, _, h5⟩ := hwf
  have tdec : trChar dec sci dec = '.' := by simp [trChar]
  have tsci : trChar dec sci sci = 'e' := by
    have : (sci == dec) = false := by simpa using fun e => hne e.symm
    simp [trChar, this]
  have tminus : trChar dec sci '-' = '-' := by
    have a : ('-' == dec) = false := by simpa using fun e => hdm e.symm
    have b : ('-' == sci) = false := by simpa using fun e => hsm e.symm
    simp [trChar, a, b]
  have tplus : trChar dec sci '+' = '+' := by
    have a : ('+' == dec) = false := by simpa using fun e => hdp e.symm
    have b : ('+' == sci) = false := by simpa using fun e => hsp e.symm
    simp [trChar, a, b]
  unfold DecParts.render
  simp only [List.map_append]
  rw [trChar_digits hdd hds h1]
  congr 1
  · congr 1
    · congr 1
      cases p.neg <;> simp [tminus]
    · cases p.hasDec
      · rfl
      · simp only [if_true, List.map_cons, tdec, trChar_digits hdd hds h2]
  · cases hex : p.ex with
    | none => rfl
    | some e =>
      obtain ⟨sg, ds⟩ := e
      rw [hex] at h5
      simp only at h5
      obtain ⟨hsg, hdsd, _⟩ := h5
      simp only [List.map_cons, List.map_append, tsci, trChar_digits hdd hds hdsd]
      rcases hsg with rfl | rfl | rfl <;> simp [tminus, tplus]

/-! ### integers: the loop of `isDecimalInteger`, its grammar and values -/

section IntLoop
variable {sci : Char} (hs : isDigit sci = false)
include hs

theorem intLoop_digits (sciN : Nat) (h2 : sciN ≤ 1) (l : Str) (dig : Nat) :
    intLoop sci sciN dig l
      = intLoop sci sciN (dig + (l.takeWhile isDigit).length) (l.dropWhile isDigit) := by
  induction l generalizing dig with
  | nil => simp
  | cons c rest ih =>
    by_cases hc : isDigit c = true
    · have e2 := isDigit_ne hc hs
      rw [intLoop.eq_def]
      simp only [e2, hc, List.takeWhile_cons, List.dropWhile_cons, List.length_cons]
      have : ¬ (1 < sciN) := by omega
      simp [*]
      rw [Nat.add_assoc, Nat.add_comm 1]
    · simp [List.takeWhile_cons, List.dropWhile_cons, hc]

theorem intLoop_exp (l : Str) (dig : Nat) (hd : 0 < dig) :
    intLoop sci 1 dig l = l.all isDigit := by
  induction l generalizing dig with
  | nil => simp [intLoop, hd]
  | cons c rest ih =>
    rw [intLoop.eq_def]
    by_cases h2 : (c == sci) = true
    · have : c = sci := by simpa using h2
      subst this
      have hne : ¬ dig = 0 := by omega
      simp [hs, hne]
      cases rest <;> simp
    · by_cases hc : isDigit c = true
      · simp [h2, hc]; exact ih (dig + 1) (by omega)
      · simp [h2, hc]

def intExpOk (r : Str) : Bool :=
  match r with
  | [] => false
  | c2 :: rest2 =>
    if c2 == '-' then false
    else if c2 == '+' then !rest2.isEmpty && rest2.all isDigit
    else (c2 :: rest2).all isDigit

theorem intLoop_sci (dig : Nat) (r : Str) :
    intLoop sci 0 dig (sci :: r) = (decide (0 < dig) && intExpOk r) := by
  rw [intLoop.eq_def]
  simp only [beq_self_eq_true, if_true]
  by_cases hd : dig = 0
  · simp [hd]
  · have hpos : 0 < dig := by omega
    cases r with
    | nil => simp [hd, intExpOk]
    | cons c2 rest2 =>
      by_cases hm : (c2 == '-') = true
      · simp [hd, intExpOk, hm]
      · by_cases hsg : (c2 == '+') = true
        · cases rest2 with
          | nil => simp [hd, intExpOk, hsg, hm]
          | cons c3 rest3 =>
            have := intLoop_exp hs (c3 :: rest3) dig hpos
            simp [hd, intExpOk, hsg, hm, this, hpos]
        · have := intLoop_exp hs (c2 :: rest2) dig hpos
          simp [hd, intExpOk, hsg, hm, this, hpos]

omit hs in
theorem parseIntExp_isSome (r : Str) : (parseIntExp r).isSome = intExpOk r := by
  cases r with
  | nil => simp [parseIntExp, intExpOk]
  | cons c2 rest2 =>
    by_cases h2 : c2 = '+'
    · subst h2; cases h : (!rest2.isEmpty && rest2.all isDigit) <;> simp [parseIntExp, intExpOk, h]
    · by_cases h1 : c2 = '-'
      · subst h1
        have : isDigit '-' = false := by decide
        simp [parseIntExp, intExpOk, this]
      · unfold parseIntExp
        split
        · rename_i heq; simp at heq; exact absurd heq.1 h2
        · cases h : (isDigit c2 && rest2.all isDigit) <;> simp [intExpOk, h1, h2, h]

theorem intLoop_eq_parse (neg : Bool) (l : Str) :
    intLoop sci 0 0 l = (parseIntUnsigned sci neg l).isSome := by
  rw [intLoop_digits hs 0 (by omega) l 0]
  unfold parseIntUnsigned
  generalize l.takeWhile isDigit = ip
  cases hdw : l.dropWhile isDigit with
  | nil => cases ip <;> simp [intLoop]
  | cons c r =>
    have hc := dropWhile_head_false hdw
    by_cases h2 : (c == sci) = true
    · have : c = sci := by simpa using h2
      subst this
      rw [intLoop_sci hs]
      cases ip <;> simp [parseIntExp_isSome]
    · rw [intLoop.eq_def]
      cases ip <;> simp [h2, hc]

theorem isDecimalInteger_eq_parse (s : Str) :
    isDecimalInteger sci s = (parseInteger sci s).isSome := by
  by_cases he : isEmptyStr s = true
  · have : parseInteger sci s = none := by
      cases s with
      | nil => simp [parseInteger, parseIntUnsigned]
      | cons c r =>
        have hsp : isSpace c = true := by simp [isEmptyStr] at he; exact he.1
        have hd := isSpace_not_digit hsp
        unfold parseInteger
        split
        · rename_i heq; simp at heq; rw [heq.1] at hsp; exact absurd hsp (by decide)
        · simp [parseIntUnsigned, List.takeWhile_cons, hd]
    simp [isDecimalInteger, he, this]
  · unfold isDecimalInteger parseInteger
    simp only [he, Bool.false_eq_true, if_false]
    split
    · exact intLoop_eq_parse hs true _
    · exact intLoop_eq_parse hs false _

end IntLoop

def intExStr (sci : Char) : Option (Bool × Str) → Str
  | none => []
  | some (plus, ds) => sci :: ((if plus then ['+'] else []) ++ ds)

theorem intRender_eq (sci : Char) (p : IntParts) :
    p.render sci = (if p.neg then ['-'] else []) ++ (p.ip ++ intExStr sci p.ex) := by
  unfold IntParts.render intExStr
  rcases p with ⟨neg, ip, ex⟩
  cases ex with
  | none => simp
  | some e => rcases e with ⟨pl, ds⟩; simp

theorem parseIntExp_some {r : Str} {pl : Bool} {ds : Str} (h : parseIntExp r = some (pl, ds)) :
    r = (if pl then ['+'] else []) ++ ds ∧ AllDigits ds ∧ ds ≠ [] := by
  unfold parseIntExp at h
  split at h
  · split at h
    · rename_i hh; simp at h; rcases h with ⟨rfl, rfl⟩
      simp at hh; exact ⟨by simp, allDigits_of_all (by simpa using hh.2), hh.1⟩
    · cases h
  · split at h
    · rename_i hh; simp at h; rcases h with ⟨rfl, rfl⟩
      simp at hh; exact ⟨by simp, allDigits_of_all (by simpa using hh.2), hh.1⟩
    · cases h

theorem parseIntExp_render {pl : Bool} {ds : Str} (hds : AllDigits ds) (hne : ds ≠ []) :
    parseIntExp ((if pl then ['+'] else []) ++ ds) = some (pl, ds) := by
  have hall := all_of_allDigits hds
  have hemp : ds.isEmpty = false := by cases ds <;> simp at hne ⊢
  cases pl with
  | true => simp [parseIntExp, hall, hemp]
  | false =>
    cases ds with
    | nil => exact absurd rfl hne
    | cons c t =>
      have hc : isDigit c = true := hds c (List.mem_cons_self ..)
      have h2 : c ≠ '+' := by intro h; subst h; revert hc; decide
      simp only [Bool.false_eq_true, if_false, List.nil_append]
      unfold parseIntExp
      split
      · rename_i heq; simp at heq; exact absurd heq.1 h2
      · simp [hall] at *

section IntGrammar
variable {sci : Char} (hs : isDigit sci = false)
include hs

theorem parseIntUnsigned_sound {neg : Bool} {l : Str} {p : IntParts}
    (h : parseIntUnsigned sci neg l = some p) :
    p.WF ∧ p.neg = neg ∧ l = p.ip ++ intExStr sci p.ex ∧ p.ip = l.takeWhile isDigit := by
  unfold parseIntUnsigned at h
  have hl := (List.takeWhile_append_dropWhile (p := isDigit) (l := l)).symm
  have hip := allDigits_takeWhile l
  split at h
  · cases h
  · rename_i hne
    have hne' : l.takeWhile isDigit ≠ [] := by
      intro hh; rw [hh] at hne; simp at hne
    split at h
    · rename_i hdw
      simp at h; subst h
      rw [hdw] at hl
      exact ⟨⟨hip, hne', trivial⟩, rfl, by simpa [intExStr] using hl, rfl⟩
    · rename_i c r hdw
      split at h
      · rename_i hc
        have : c = sci := by simpa using hc
        subst this
        cases he : parseIntExp r with
        | none => simp [he] at h
        | some e =>
          rcases e with ⟨pl, ds⟩
          simp [he] at h; subst h
          have := parseIntExp_some he
          rw [hdw] at hl
          refine ⟨⟨hip, hne', this.2.1, this.2.2⟩, rfl, ?_, rfl⟩
          simp only [intExStr]; rw [← this.1]; exact hl
      · cases h

theorem parseIntUnsigned_complete (p : IntParts) (hwf : p.WF) :
    parseIntUnsigned sci p.neg (p.ip ++ intExStr sci p.ex) = some p := by
  rcases p with ⟨neg, ip, ex⟩
  rcases hwf with ⟨hip, hne, hex⟩
  simp only at hip hne hex ⊢
  have hexs : ∀ c r, intExStr sci ex = c :: r → isDigit c = false := by
    intro c r h
    cases ex with
    | none => simp [intExStr] at h
    | some e => rcases e with ⟨pl, ds⟩; simp [intExStr] at h; rw [← h.1]; exact hs
  have h1 := span_digits (ip := ip) (rest := intExStr sci ex) hip hexs
  have hemp : ip.isEmpty = false := by cases ip <;> simp at hne ⊢
  unfold parseIntUnsigned
  simp only [h1.1, h1.2, hemp, Bool.false_eq_true, if_false]
  cases ex with
  | none => simp [intExStr]
  | some e =>
    rcases e with ⟨pl, ds⟩
    simp only at hex
    simp [intExStr, parseIntExp_render hex.1 hex.2]

theorem parseInteger_sound {s : Str} {p : IntParts} (h : parseInteger sci s = some p) :
    p.WF ∧ s = p.render sci := by
  unfold parseInteger at h
  rw [intRender_eq]
  split at h
  · have := parseIntUnsigned_sound hs h
    refine ⟨this.1, ?_⟩
    rw [this.2.1]; simp only [if_true]; rw [List.singleton_append, ← this.2.2.1]
  · have := parseIntUnsigned_sound hs h
    refine ⟨this.1, ?_⟩
    rw [this.2.1]; simp only [Bool.false_eq_true, if_false, List.nil_append]; exact this.2.2.1

theorem parseInteger_complete (p : IntParts) (hwf : p.WF) :
    parseInteger sci (p.render sci) = some p := by
  have hc := parseIntUnsigned_complete hs p hwf
  rw [intRender_eq]
  cases hneg : p.neg with
  | true =>
    rw [hneg] at hc
    simp only [if_true, List.singleton_append]
    unfold parseInteger
    exact hc
  | false =>
    rw [hneg] at hc
    simp only [Bool.false_eq_true, if_false, List.nil_append]
    unfold parseInteger
    split
    · rename_i r heq
      exfalso
      rcases hwf with ⟨hip, hne, _⟩
      cases hipc : p.ip with
      | cons a t =>
        rw [hipc] at heq; simp at heq
        have : isDigit a = true := hip a (by rw [hipc]; exact List.mem_cons_self ..)
        rw [heq.1] at this; revert this; decide
      | nil => exact hne hipc
    · exact hc

theorem streamIntUnsigned_of_parse {neg : Bool} {l : Str} {p : IntParts}
    (h : parseIntUnsigned sci neg l = some p) :
    streamIntUnsigned neg l = clampInt (if p.neg then - (digitsVal p.ip : Int) else (digitsVal p.ip : Int)) := by
  have := parseIntUnsigned_sound hs h
  have hne : p.ip ≠ [] := this.1.2.1
  unfold streamIntUnsigned
  rw [← this.2.2.2, this.2.1]
  cases hh : p.ip with
  | nil => exact absurd hh hne
  | cons a t => simp

/-- what the stream reads from a grammatical integer: the (clamped) mantissa, whatever the exponent -/
theorem streamInt_of_parse {s : Str} {p : IntParts} (h : parseInteger sci s = some p) :
    streamInt s = clampInt (if p.neg then - (digitsVal p.ip : Int) else (digitsVal p.ip : Int)) := by
  unfold parseInteger at h
  unfold streamInt
  split at h
  · exact streamIntUnsigned_of_parse hs h
  · rename_i hn
    split
    · rename_i r; exact absurd rfl (hn r)
    · rename_i r
      exfalso
      have hd : isDigit '+' = false := by decide
      have : parseIntUnsigned sci false ('+' :: r) = none := by
        simp [parseIntUnsigned, List.takeWhile_cons, hd]
      rw [this] at h; cases h
    · exact streamIntUnsigned_of_parse hs h

end IntGrammar

/-! ### `toString(int)` then `toInt` -/

theorem digitChar_isDigit {d : Nat} (h : d < 10) : isDigit (digitChar d) = true := by
  have : d = 0 ∨ d = 1 ∨ d = 2 ∨ d = 3 ∨ d = 4 ∨ d = 5 ∨ d = 6 ∨ d = 7 ∨ d = 8 ∨ d = 9 := by omega
  rcases this with rfl | rfl | rfl | rfl | rfl | rfl | rfl | rfl | rfl | rfl <;> decide

theorem digitVal_digitChar {d : Nat} (h : d < 10) : digitVal (digitChar d) = d := by
  have : d = 0 ∨ d = 1 ∨ d = 2 ∨ d = 3 ∨ d = 4 ∨ d = 5 ∨ d = 6 ∨ d = 7 ∨ d = 8 ∨ d = 9 := by omega
  rcases this with rfl | rfl | rfl | rfl | rfl | rfl | rfl | rfl | rfl | rfl <;> decide

theorem digitsVal_append_single (l : Str) (c : Char) : digitsVal (l ++ [c]) = 10 * digitsVal l + digitVal c := by
  simp [digitsVal, List.foldl_append]

theorem natDigits_spec (n : Nat) :
    AllDigits (natDigits n) ∧ natDigits n ≠ [] ∧ digitsVal (natDigits n) = n := by
  induction n using Nat.strongRecOn with
  | _ n ih =>
    rw [natDigits]
    by_cases h : n < 10
    · simp only [h, dite_true]
      refine ⟨?_, by simp, ?_⟩
      · intro c hc; simp at hc; subst hc; exact digitChar_isDigit h
      · simp [digitsVal, digitVal_digitChar h]
    · simp only [h, dite_false]
      have hlt : n / 10 < n := by omega
      obtain ⟨h1, h2, h3⟩ := ih (n / 10) hlt
      have hm : n % 10 < 10 := by omega
      refine ⟨?_, by simp, ?_⟩
      · intro c hc
        rcases List.mem_append.mp hc with hc | hc
        · exact h1 c hc
        · simp at hc; subst hc; exact digitChar_isDigit hm
      · rw [digitsVal_append_single, h3, digitVal_digitChar hm]; omega

end Bpp.Text.Number
