import BppProofs.Lemmas.AliasSync2
/-! Frame (other slots look the same after an operation), absence of undefined behaviour and
termination of the structural operations of C03. -/
namespace Bpp.Alias
open Bpp.ParamList (Bnd Con Par Store ObjId nameOf find? hasParameter names startsWith)

/-! ## The heap frame of an operation on slot `k` -/

/-- an operation on slot `k` whose former parameters are `P`: old cells outside `P`, old listeners of
other slots and the other slots themselves are as before -/
structure Fr (k : Nat) (P : List ObjId) (w W : World) : Prop where
  next : w.heap.next ≤ W.heap.next
  lnext : w.lnext ≤ W.lnext
  cell : ∀ i, i < w.heap.next → i ∉ P → W.heap.get i = w.heap.get i ∧ W.lsn i = w.lsn i
  lis : ∀ l, l < w.lnext → (w.lis l).pl ≠ k → W.lis l = w.lis l
  objs : ∀ j, j ≠ k → W.objs j = w.objs j

theorem Fr.refl (k : Nat) (P : List ObjId) (w : World) : Fr k P w w :=
  ⟨Nat.le_refl _, Nat.le_refl _, fun _ _ _ => ⟨rfl, rfl⟩, fun _ _ _ => rfl, fun _ _ => rfl⟩

theorem Fr.trans {k : Nat} {P : List ObjId} {a b c : World} (x : Fr k P a b) (y : Fr k P b c) : Fr k P a c where
  next := Nat.le_trans x.next y.next
  lnext := Nat.le_trans x.lnext y.lnext
  cell i hi hp := by
    obtain ⟨a1, a2⟩ := x.cell i hi hp
    obtain ⟨b1, b2⟩ := y.cell i (Nat.lt_of_lt_of_le hi x.next) hp
    exact ⟨b1.trans a1, b2.trans a2⟩
  lis l hl hp := by
    have a1 := x.lis l hl hp
    have b1 := y.lis l (Nat.lt_of_lt_of_le hl x.lnext) (by rw [a1]; exact hp)
    exact b1.trans a1
  objs j hj := (y.objs j hj).trans (x.objs j hj)

theorem par_ext {p q : Par} (h1 : p.name = q.name) (h2 : p.value = q.value) (h3 : p.con = q.con) : p = q := by
  cases p; cases q; simp only at h1 h2 h3; subst h1 h2 h3; rfl

theorem fr_of_sameBut {k : Nat} {P : List ObjId} {w W : World} (s : SameBut w W)
    (hv : ∀ j, j ∉ P → val W j = val w j) : Fr k P w W where
  next := by rw [s.next]
  lnext := by rw [s.lnext]
  cell i _ hp := ⟨par_ext (s.name i) (hv i hp) (s.con i), by rw [s.lsn]⟩
  lis l _ _ := by rw [s.lis]
  objs j _ := by rw [s.objs]

theorem fr_of_sameShape {k : Nat} {P : List ObjId} {w W : World} (s : SameShape w W)
    (hv : ∀ j, j ∉ P → W.heap.get j = w.heap.get j) : Fr k P w W where
  next := by rw [s.next]
  lnext := by rw [s.lnext]
  cell i _ hp := ⟨hv i hp, by rw [s.lsn]⟩
  lis l _ _ := by rw [s.lis]
  objs j _ := by rw [s.objs]

/-- **other slots look the same** after an operation that is framed on slot `k` -/
theorem Fr.view {k : Nat} {w W : World} (h : Inv w) (f : Fr k (oldParams w k) w W) {j : Nat} (hj : j ≠ k) :
    (W.objs j).map (svOf W) = (w.objs j).map (svOf w) := by
  rw [f.objs j hj]
  cases ho : w.objs j with
  | none => rfl
  | some o =>
    simp only [Option.map_some, Option.some.injEq]
    have hi := h.obj j o ho
    have hnot : ∀ i ∈ o.params, i ∉ oldParams w k := by
      intro i him hiP
      cases hk : w.objs k with
      | none => rw [oldParams_none hk] at hiP; cases hiP
      | some ok => rw [oldParams_some ok hk] at hiP; exact h.disj j k o ok hj ho hk i him hiP
    refine svOf_congr hi.indepSub (fun i him => (f.cell i (hi.valid i him) (hnot i him)).1) (fun i him id => ?_)
    simp only [hasListener, (f.cell i (hi.valid i him) (hnot i him)).2]
    rw [Bool.eq_iff_iff, List.any_eq_true, List.any_eq_true]
    have key : ∀ l ∈ w.lsn i, W.lis l = w.lis l := by
      intro l hl
      have hreg := (hi.lsnOk i him l hl).1
      have r := hi.regOk _ hreg
      exact f.lis l r.lt (by rw [r.pl]; exact hj)
    constructor
    · rintro ⟨l, hl, hid⟩; exact ⟨l, hl, by rw [← key l hl]; exact hid⟩
    · rintro ⟨l, hl, hid⟩; exact ⟨l, hl, by rw [key l hl]; exact hid⟩

/-! ## Per operation -/

theorem aliasConstraintsL_get (w : World) (i1 i2 j : ObjId) (h1 : j ≠ i1) (h2 : j ≠ i2) :
    (aliasConstraintsL w i1 i2).w.heap.get j = w.heap.get j := by
  simp only [aliasConstraintsL]
  split
  · rfl
  · split
    · rfl
    · simp [h1]
  · rfl
  · split
    · split
      · rfl
      · split
        · simp [h2]
        · simp [h1, h2]
    · rfl


theorem aliasConstraints_get (w : World) (i1 i2 j : ObjId) (h1 : j ≠ i1) (h2 : j ≠ i2) :
    (aliasConstraints w i1 i2).w.heap.get j = w.heap.get j := by
  rcases aliasConstraints_cases w i1 i2 with h | h <;> rw [h]
  exact aliasConstraintsL_get w i1 i2 j h1 h2

theorem aliasPair_fr {w : World} (h : Inv w) {k : Nat} {o : Obj} (ho : w.objs k = some o) (p1 p2 : String) :
    Fr k o.params w (aliasPair w k p1 p2).w ∧
      ∃ o', (aliasPair w k p1 p2).w.objs k = some o' ∧ o'.params = o.params := by
  have hi := h.obj k o ho
  have hrefl : Fr k o.params w w ∧ ∃ o', w.objs k = some o' ∧ o'.params = o.params := ⟨Fr.refl _ _ _, o, ho, rfl⟩
  obtain ⟨s1, s2⟩ := aliasPair_spec hi ho p1 p2
  cases h1 : find? w.heap o.params (o.pre ++ p1) with
  | none => rw [(s1 (Or.inl h1)).2]; exact hrefl
  | some i1 =>
    cases h2 : find? w.heap o.params (o.pre ++ p2) with
    | none => rw [(s1 (Or.inr h2)).2]; exact hrefl
    | some i2 =>
      obtain ⟨a, b, c, d⟩ := s2 i1 i2 h1 h2
      have hm1 := (ParamList.find?_some h1).1
      have hm2 := (ParamList.find?_some h2).1
      have hss := aliasConstraints_sameShape w i1 i2
      have hc : Fr k o.params w (aliasConstraints w i1 i2).w :=
        fr_of_sameShape hss (fun j hj => aliasConstraints_get w i1 i2 j (fun e => hj (e ▸ hm1)) (fun e => hj (e ▸ hm2)))
      by_cases hind : i2 ∈ o.indep
      swap
      · rw [(a hind).2]; exact hrefl
      cases hf : followsLoop w o p2 (o.reg.length + 2) p1 with
      | none => rw [(b hind hf).2]; exact hrefl
      | some bb =>
        cases bb with
        | true => rw [(c hind hf).2]; exact hrefl
        | false =>
          obtain ⟨d1, d2⟩ := d hind hf
          cases hce : (aliasConstraints w i1 i2).err with
          | some e' => rw [(d1 e' hce).2]; exact ⟨hc, o, by rw [hss.objs]; exact ho, rfl⟩
          | none =>
            obtain ⟨pos2, _, _, heq⟩ := d2 hce
            rw [heq]
            refine ⟨hc.trans ?_, aliasedObj o p1 p2 i2 (aliasConstraints w i1 i2).w.lnext, by simp [aliased], rfl⟩
            refine ⟨by simp [aliased], by simp [aliased], fun i _ hn => ⟨rfl, ?_⟩, fun l hl _ => ?_, fun j hj => by simp [aliased, hj]⟩
            · have : i ≠ i1 := fun e => hn (e ▸ hm1)
              simp [aliased, this]
            · have : l ≠ (aliasConstraints w i1 i2).w.lnext := Nat.ne_of_lt hl
              simp [aliased, this]

theorem unalias_fr {w : World} (h : Inv w) {k : Nat} {o : Obj} (ho : w.objs k = some o) (p1 p2 : String) :
    Fr k o.params w (unalias w k p1 p2).w := by
  have hi := h.obj k o ho
  obtain ⟨s1, s2⟩ := unalias_spec hi ho p1 p2
  cases he : (unalias w k p1 p2).err with
  | some e => rw [s1 (by rw [he]; simp)]; exact Fr.refl _ _ _
  | none =>
    obtain ⟨i1, i2, l0, h1, h2, _, _, heq⟩ := s2 he
    rw [heq]
    have hm1 := (ParamList.find?_some h1).1
    refine ⟨by simp [unaliased], by simp [unaliased], fun i _ hn => ⟨rfl, ?_⟩, fun l _ _ => rfl, fun j hj => by simp [unaliased, hj]⟩
    have : i ≠ i1 := fun e => hn (e ▸ hm1)
    simp [unaliased, this]

theorem setNamespace_fr {w : World} (h : Inv w) {k : Nat} {o : Obj} (ho : w.objs k = some o) (new : String) :
    Fr k o.params w (setNamespace w k new).w := by
  have hi := h.obj k o ho
  rw [setNamespace_eq ho]
  obtain ⟨f1, f2, f3, f4, f5, f6⟩ := nsWorld_facts hi new
  show Fr k o.params w (nsWorld w k o new)
  refine ⟨by rw [f1], by rw [f2], fun i _ hn => ⟨by rw [f5 i, if_neg hn], by rw [f3]⟩, fun l _ hp => ?_,
    fun j hj => by rw [f4]; simp [hj]⟩
  rw [f6 l]
  split
  · rename_i hm
    obtain ⟨e, he, hs⟩ := List.mem_map.1 hm
    exact absurd (hs ▸ (hi.regOk e he).pl) hp
  · rfl

theorem Rebuilt.fr {w W : World} {s d : Nat} {o : Obj} (r : Rebuilt w s d o W) (P : List ObjId) : Fr d P w W :=
  ⟨r.next, r.lnext, fun i hi _ => r.old i hi, fun l hl _ => r.lisOld l hl, fun j hj => by rw [r.objs]; simp [hj]⟩

theorem addParam_fr {w : World} (h : Inv w) {k : Nat} {o : Obj} {p : Par} {x : String} (ho : w.objs k = some o)
    (hx : p.name = o.pre ++ x) : Fr k o.params w (addParam w k p).w := by
  have hi := h.obj k o ho
  by_cases hok : p.ok = true
  swap
  · have : addParam w k p = { w := w, err := some .constraint } := by simp [addParam, ho, hok]
    rw [this]; exact Fr.refl _ _ _
  by_cases hnew : hasParameter w.heap o.params p.name = true
  · have : addParam w k p = { w := w, err := some .bpp } := by simp [addParam, ho, hok, hnew]
    rw [this]; exact Fr.refl _ _ _
  have hnew : hasParameter w.heap o.params p.name = false := by simpa using hnew
  rw [addParam_eq hi ho hok hx hnew]
  refine ⟨by simp, by simp, fun i hlt _ => ?_, fun l _ _ => rfl, fun j hj => by simp [hj]⟩
  have : i ≠ w.heap.next := Nat.ne_of_lt hlt
  simp [this]

theorem matchParametersValues_frame {S : ObjId → Prop} (w : World) (l : List ObjId) (src : List (String × Rat))
    (hl : ∀ i ∈ l, S i) (hc : Closed w S) : ∀ j, ¬ S j → val (matchParametersValues w l src).1.w j = val w j := by
  intro j hj
  simp only [matchParametersValues]
  split
  · rfl
  · exact matchSome_frame l hl src w hc j hj

theorem syncLinks_frame {S : ObjId → Prop} (l : List ObjId) (hl : ∀ i ∈ l, S i) :
    ∀ (ls : List (String × String)) (w : World), Closed w S → ∀ j, ¬ S j → val (syncLinks l w ls).w j = val w j
  | [], _, _, _, _ => rfl
  | (key, v) :: rest, w, hc, j, hj => by
    simp only [syncLinks]
    split
    · rfl
    · rename_i s _
      have sb := matchParametersValues_sameBut w l [(key, (w.heap.get s).value)]
      have fr := matchParametersValues_frame w l [(key, (w.heap.get s).value)] hl hc j hj
      split
      · exact fr
      · rw [syncLinks_frame l hl rest _ (hc.sameBut sb) j hj]; exact fr

theorem bulkPass_fr (k : Nat) : ∀ (todo : List (String × String)) (w : World) (pl : List Par) (kept : List (String × String))
    (o : Obj), Inv w → w.objs k = some o →
      Fr k o.params w (bulkPass true k w pl kept todo).w ∧
        ∃ o', (bulkPass true k w pl kept todo).w.objs k = some o' ∧ o'.params = o.params
  | [], w, pl, kept, o, _, ho => ⟨Fr.refl _ _ _, o, ho, rfl⟩
  | (key, val) :: todo, w, pl, kept, o, h, ho => by
    have hrefl : Fr k o.params w w ∧ ∃ o', w.objs k = some o' ∧ o'.params = o.params := ⟨Fr.refl _ _ _, o, ho, rfl⟩
    simp only [bulkPass]
    split
    · split
      · split
        · exact hrefl
        · exact bulkPass_fr k todo w pl _ o h ho
      · split
        · exact hrefl
        · exact bulkPass_fr k todo w pl _ o h ho
    · split
      · exact hrefl
      · have hi : Inv (aliasPairG true w k val key).w := inv_aliasPair h k val key
        obtain ⟨f1, o1, ho1, hp1⟩ := aliasPair_fr h ho val key
        split
        · exact ⟨f1, o1, ho1, hp1⟩
        · obtain ⟨f2, o2, ho2, hp2⟩ := bulkPass_fr k todo _ (pl ++ [{ (‹Par› : Par) with name := key }]) kept o1 hi ho1
          rw [hp1] at f2
          exact ⟨f1.trans f2, o2, ho2, hp2.trans hp1⟩

theorem bulkLoop_fr (k : Nat) : ∀ (f : Nat) (w : World) (pl : List Par) (m : List (String × String)) (o : Obj),
    Inv w → w.objs k = some o →
      Fr k o.params w (bulkLoop k f w pl m).w ∧ ∃ o', (bulkLoop k f w pl m).w.objs k = some o' ∧ o'.params = o.params
  | 0, w, pl, m, o, _, ho => ⟨Fr.refl _ _ _, o, ho, rfl⟩
  | f + 1, w, pl, m, o, h, ho => by
    simp only [bulkLoop]
    split
    · exact ⟨Fr.refl _ _ _, o, ho, rfl⟩
    · have hp := inv_bulkPass k m w pl [] h
      obtain ⟨f1, o1, ho1, hp1⟩ := bulkPass_fr k m w pl [] o h ho
      split
      · exact ⟨f1, o1, ho1, hp1⟩
      · split
        · exact ⟨f1, o1, ho1, hp1⟩
        · obtain ⟨f2, o2, ho2, hp2⟩ := bulkLoop_fr k f _ _ _ o1 hp ho1
          rw [hp1] at f2
          exact ⟨f1.trans f2, o2, ho2, hp2.trans hp1⟩

theorem bulkAlias_fr {w : World} (h : Inv w) {k : Nat} {o : Obj} (ho : w.objs k = some o) (es : List (String × String)) :
    Fr k o.params w (bulkAlias w k es).w := by
  simp only [bulkAlias, bulkAliasG, ho]
  have hl := inv_bulkLoop k ((mkMap es).length + 1) w
    ((o.params.filter (fun i => (mapFind? (nameOf w.heap i) (mkMap es)).isNone)).map w.heap.get) (mkMap es) h
  obtain ⟨f1, o1, ho1, hp1⟩ := bulkLoop_fr k ((mkMap es).length + 1) w
    ((o.params.filter (fun i => (mapFind? (nameOf w.heap i) (mkMap es)).isNone)).map w.heap.get) (mkMap es) o h ho
  split
  · exact f1
  · split
    · exact f1
    · rename_i o' ho'
      rw [ho1] at ho'; cases ho'
      refine f1.trans (fr_of_sameBut (syncLinks_sameBut _ _ _) (fun j hj => ?_))
      rw [← hp1] at hj
      exact syncLinks_frame (S := fun i => i ∈ o1.params) o1.params (fun i hi => hi) _ _ ((hl.obj k o1 ho1).closed ho1) j hj

/-- every operation is framed on its slot -/
theorem step_fr {w : World} (h : Inv w) (op : Op) (hwf : op.wf w) :
    Fr op.slot (oldParams w op.slot) w (step w op).1 := by
  cases op with
  | new k pre =>
    show Fr k (oldParams w k) w (newObj w k pre)
    exact ⟨Nat.le_refl _, Nat.le_refl _, fun _ _ _ => ⟨rfl, rfl⟩, fun _ _ _ => rfl,
      fun j hj => by simp [newObj, hj]⟩
  | add k p =>
    show Fr k (oldParams w k) w (addParam w k p).w
    cases ho : w.objs k with
    | none =>
      have : addParam w k p = { w := w, err := some .ub } := by simp [addParam, ho]
      rw [this]; exact Fr.refl _ _ _
    | some o =>
      obtain ⟨x, hx, _⟩ := hwf o ho
      rw [oldParams_some o ho]; exact addParam_fr h ho hx
  | «alias» k p1 p2 =>
    show Fr k (oldParams w k) w (aliasPair w k p1 p2).w
    cases ho : w.objs k with
    | none =>
      have : aliasPair w k p1 p2 = { w := w, err := some .ub } := by simp [aliasPair, aliasPairG, ho]
      rw [this]; exact Fr.refl _ _ _
    | some o => rw [oldParams_some o ho]; exact (aliasPair_fr h ho p1 p2).1
  | unalias k p1 p2 =>
    show Fr k (oldParams w k) w (unalias w k p1 p2).w
    cases ho : w.objs k with
    | none =>
      have : unalias w k p1 p2 = { w := w, err := some .ub } := by simp [unalias, ho]
      rw [this]; exact Fr.refl _ _ _
    | some o => rw [oldParams_some o ho]; exact unalias_fr h ho p1 p2
  | bulk k es =>
    show Fr k (oldParams w k) w (bulkAlias w k es).w
    cases ho : w.objs k with
    | none =>
      have : bulkAlias w k es = { w := w, err := some .ub } := by simp [bulkAlias, bulkAliasG, ho]
      rw [this]; exact Fr.refl _ _ _
    | some o => rw [oldParams_some o ho]; exact bulkAlias_fr h ho es
  | setv k n v =>
    show Fr k (oldParams w k) w (apSetParameterValue w k n v).w
    cases ho : w.objs k with
    | none => exact fr_of_sameBut ((update_sameBut w k).1 n v) (fun j _ => by simp [apSetParameterValue, ho])
    | some o =>
      rw [oldParams_some o ho]
      exact fr_of_sameBut ((update_sameBut w k).1 n v) (fun j hj => (update_frame h ho j hj).1 n v)
  | setvs k src =>
    show Fr k (oldParams w k) w (apSetParametersValues w k src).w
    cases ho : w.objs k with
    | none => exact fr_of_sameBut ((update_sameBut w k).2.1 src) (fun j _ => by simp [apSetParametersValues, ho])
    | some o =>
      rw [oldParams_some o ho]
      exact fr_of_sameBut ((update_sameBut w k).2.1 src) (fun j hj => (update_frame h ho j hj).2.1 src)
  | matchvs k src =>
    show Fr k (oldParams w k) w (apMatchParametersValues w k src).1.w
    cases ho : w.objs k with
    | none => exact fr_of_sameBut ((update_sameBut w k).2.2.1 src) (fun j _ => by simp [apMatchParametersValues, ho])
    | some o =>
      rw [oldParams_some o ho]
      exact fr_of_sameBut ((update_sameBut w k).2.2.1 src) (fun j hj => (update_frame h ho j hj).2.2.1 src)
  | setallv k src =>
    show Fr k (oldParams w k) w (apSetAllParametersValues w k src).w
    cases ho : w.objs k with
    | none => exact fr_of_sameBut ((update_sameBut w k).2.2.2 src) (fun j _ => by simp [apSetAllParametersValues, ho])
    | some o =>
      rw [oldParams_some o ho]
      exact fr_of_sameBut ((update_sameBut w k).2.2.2 src) (fun j hj => (update_frame h ho j hj).2.2.2 src)
  | copy s d =>
    show Fr d (oldParams w d) w (copyConstruct w s d).w
    cases ho : w.objs s with
    | none =>
      have : copyConstruct w s d = { w := w, err := some .ub } := by simp [copyConstruct, ho]
      rw [this]; exact Fr.refl _ _ _
    | some o =>
      obtain ⟨_, ⟨r⟩⟩ := copyConstruct_rebuilt h (d := d) ho
      exact r.fr _
  | assign s d =>
    show Fr d (oldParams w d) w (assign w s d).w
    cases ho : w.objs s with
    | none =>
      have : assign w s d = { w := w, err := some .ub } := by simp [assign, ho]
      rw [this]; exact Fr.refl _ _ _
    | some o =>
      cases hd : w.objs d with
      | none =>
        have : assign w s d = { w := w, err := some .ub } := by simp [assign, ho, hd]
        rw [this]; exact Fr.refl _ _ _
      | some od =>
        by_cases hsd : s = d
        · have : assign w s d = { w := w } := by simp [assign, hd, hsd]
          rw [this]; exact Fr.refl _ _ _
        · obtain ⟨_, ⟨r⟩⟩ := assign_rebuilt h ho hd hsd
          exact r.fr _
  | ns k pre =>
    show Fr k (oldParams w k) w (setNamespace w k pre).w
    cases ho : w.objs k with
    | none =>
      have : setNamespace w k pre = { w := w, err := some .ub } := by simp [setNamespace, ho]
      rw [this]; exact Fr.refl _ _ _
    | some o => rw [oldParams_some o ho]; exact setNamespace_fr h ho pre
  | aliases k =>
    show Fr k (oldParams w k) w (match w.objs k with | none => (w, Out.err .ub) | some o => (w, _)).1
    split <;> exact Fr.refl _ _ _
  | aliasOf k n =>
    show Fr k (oldParams w k) w (match w.objs k with | none => (w, Out.err .ub) | some o => (w, _)).1
    split <;> exact Fr.refl _ _ _
  | «from» k n =>
    show Fr k (oldParams w k) w (match w.objs k with | none => (w, Out.err .ub) | some o => (w, _)).1
    split <;> exact Fr.refl _ _ _

/-- **(A1) the view of every other slot is untouched by an operation** -/
theorem step_view_frame {w : World} (h : Inv w) (op : Op) (hwf : op.wf w) (j : Nat) (hj : j ≠ op.slot) :
    ((step w op).1.objs j).map (svOf (step w op).1) = (w.objs j).map (svOf w) :=
  (step_fr h op hwf).view h hj

/-! ## No undefined behaviour -/

/-- every listener attached to a parameter in `S` has a target, in `S` -/
def TgtOk (w : World) (S : ObjId → Prop) : Prop := ∀ x, S x → ∀ l ∈ w.lsn x, ∃ t, tgt w l = some t ∧ S t

theorem TgtOk.sameBut {w w' : World} {S : ObjId → Prop} (c : TgtOk w S) (s : SameBut w w') : TgtOk w' S := by
  intro x hx l hl
  rw [s.lsn] at hl; rw [s.tgt]
  exact c x hx l hl

theorem fireList_no_ub {k : World → ObjId → Rat → WR} {S : ObjId → Prop}
    (hs : ∀ w t u, SameBut w (k w t u).w)
    (hk : ∀ w t u, S t → TgtOk w S → (k w t u).err ≠ some .ub) (src : ObjId) :
    ∀ (ls : List Nat) (w : World), TgtOk w S → (∀ l ∈ ls, ∃ t, tgt w l = some t ∧ S t) →
      (fireList k src w ls).err ≠ some .ub
  | [], w, _, _ => by simp [fireList]
  | l :: rest, w, hc, hl => by
    obtain ⟨t, htg, htS⟩ := hl l (List.mem_cons_self ..)
    simp only [fireList]
    simp only [tgt] at htg
    cases ho : w.objs (w.lis l).pl with
    | none => rw [ho] at htg; cases htg
    | some o =>
      rw [ho] at htg
      simp only [] at htg ⊢
      cases ht : o.params[(w.lis l).alias]? with
      | none => rw [ht] at htg; cases htg
      | some t' =>
        rw [ht] at htg; cases htg
        simp only []
        split
        · simp
        · split
          · rename_i e he
            intro hh; simp only [Option.some.injEq] at hh; subst hh
            exact hk w t _ htS hc he
          · have sb := hs w t (w.heap.get src).value
            exact fireList_no_ub hs hk src rest _ (hc.sameBut sb)
              (fun l' hl' => by rw [sb.tgt]; exact hl l' (List.mem_cons_of_mem _ hl'))

theorem setV_no_ub {S : ObjId → Prop} : ∀ (f : Nat) (w : World) (i : ObjId) (v : Rat), S i → TgtOk w S →
    (setV f w i v).err ≠ some .ub
  | 0, _, _, _, _, _ => by simp [setV]
  | f + 1, w, i, v, hi, hc => by
    simp only [setV]
    split
    · simp
    · split
      · simp
      · have sb := sameBut_putValue w i v
        exact fireList_no_ub (setV_sameBut f) (fun w t u => setV_no_ub f w t u) i (w.lsn i) _ (hc.sameBut sb)
          (fun l hl => by rw [sb.tgt]; exact hc i hi l hl)

theorem ObjInv.tgtOk {w : World} {k : Nat} {o : Obj} (h : ObjInv w k o) (ho : w.objs k = some o) :
    TgtOk w (fun i => i ∈ o.params) := by
  intro x hx l hl
  obtain ⟨hreg, _⟩ := h.lsnOk x hx l hl
  have r := h.regOk _ hreg
  obtain ⟨t, y, ht, _⟩ := r.tgt
  have hpl := r.pl
  simp only at hpl ht
  exact ⟨t, by simp only [tgt, hpl, ho]; exact ht, List.mem_of_getElem? ht⟩

theorem setValue_no_ub {S : ObjId → Prop} (w : World) (i : ObjId) (v : Rat) (hi : S i) (hc : TgtOk w S) :
    (setValue w i v).err ≠ some .ub := setV_no_ub _ w i v hi hc

theorem setParameterValue_no_ub {S : ObjId → Prop} {w : World} {l : List ObjId} (hl : ∀ i ∈ l, S i) (hc : TgtOk w S)
    (n : String) (v : Rat) : (setParameterValue w l n v).err ≠ some .ub := by
  simp only [setParameterValue]
  split
  · simp
  · rename_i i hi
    exact setValue_no_ub w i v (hl i (ParamList.find?_some hi).1) hc

theorem applySome_no_ub {S : ObjId → Prop} (l : List ObjId) (hl : ∀ i ∈ l, S i) :
    ∀ (src : List (String × Rat)) (w : World), TgtOk w S → (applySome l w src).err ≠ some .ub
  | [], w, _ => by simp [applySome]
  | (n, v) :: rest, w, hc => by
    simp only [applySome]
    split
    · exact applySome_no_ub l hl rest w hc
    · rename_i t ht
      have hs := setValue_sameBut w t v
      split
      · rename_i e he
        intro hh; simp only [Option.some.injEq] at hh; subst hh
        exact setValue_no_ub w t v (hl t (ParamList.find?_some ht).1) hc he
      · exact applySome_no_ub l hl rest _ (hc.sameBut hs)

theorem matchSome_no_ub {S : ObjId → Prop} (l : List ObjId) (hl : ∀ i ∈ l, S i) :
    ∀ (src : List (String × Rat)) (w : World), TgtOk w S → (matchSome l w src).1.err ≠ some .ub
  | [], w, _ => by simp [matchSome]
  | (n, v) :: rest, w, hc => by
    simp only [matchSome]
    split
    · exact matchSome_no_ub l hl rest w hc
    · rename_i t ht
      have hs := setValue_sameBut w t v
      split
      · split
        · rename_i e he
          intro hh; simp only [Option.some.injEq] at hh; subst hh
          exact setValue_no_ub w t v (hl t (ParamList.find?_some ht).1) hc he
        · exact matchSome_no_ub l hl rest _ (hc.sameBut hs)
      · exact matchSome_no_ub l hl rest w hc

theorem applyAll_no_ub {S : ObjId → Prop} (src : List (String × Rat)) :
    ∀ (l : List ObjId) (w : World), (∀ i ∈ l, S i) → TgtOk w S → (applyAll src w l).err ≠ some .ub
  | [], w, _, _ => by simp [applyAll]
  | i :: rest, w, hl, hc => by
    simp only [applyAll]
    split
    · simp
    · rename_i v _
      have hs := setValue_sameBut w i v
      split
      · rename_i e he
        intro hh; simp only [Option.some.injEq] at hh; subst hh
        exact setValue_no_ub w i v (hl i (List.mem_cons_self ..)) hc he
      · exact applyAll_no_ub src rest _ (fun j hj => hl j (List.mem_cons_of_mem _ hj)) (hc.sameBut hs)

theorem checkSome_ne_ub (w : World) (l : List ObjId) : ∀ (src : List (String × Rat)), checkSome w l src ≠ some .ub
  | [] => by simp [checkSome]
  | (n, v) :: rest => by
    simp only [checkSome]
    split
    · exact checkSome_ne_ub w l rest
    · split
      · simp
      · exact checkSome_ne_ub w l rest

theorem checkAll_ne_ub (w : World) (src : List (String × Rat)) : ∀ (l : List ObjId), checkAll w src l ≠ some .ub
  | [] => by simp [checkAll]
  | i :: rest => by
    simp only [checkAll]
    split
    · simp
    · split
      · simp
      · exact checkAll_ne_ub w src rest

theorem matchParametersValues_no_ub {S : ObjId → Prop} {w : World} {l : List ObjId} (hl : ∀ i ∈ l, S i) (hc : TgtOk w S)
    (src : List (String × Rat)) : (matchParametersValues w l src).1.err ≠ some .ub := by
  simp only [matchParametersValues]
  split
  · rename_i e he
    intro hh; simp only [Option.some.injEq] at hh; subst hh
    exact checkSome_ne_ub w l src he
  · exact matchSome_no_ub l hl src w hc

theorem syncLinks_no_ub {S : ObjId → Prop} (l : List ObjId) (hl : ∀ i ∈ l, S i) :
    ∀ (ls : List (String × String)) (w : World), TgtOk w S → (syncLinks l w ls).err ≠ some .ub
  | [], w, _ => by simp [syncLinks]
  | (key, v) :: rest, w, hc => by
    simp only [syncLinks]
    split
    · simp
    · rename_i s _
      have sb := matchParametersValues_sameBut w l [(key, (w.heap.get s).value)]
      have hn := matchParametersValues_no_ub hl hc [(key, (w.heap.get s).value)]
      split
      · rename_i e he
        intro hh; simp only [Option.some.injEq] at hh; subst hh; exact hn he
      · exact syncLinks_no_ub l hl rest _ (hc.sameBut sb)

/-- none of the four update routes leaves the defined behaviour when the object exists -/
theorem update_no_ub {w : World} (h : Inv w) {k : Nat} {o : Obj} (ho : w.objs k = some o) :
    (∀ n v, (apSetParameterValue w k n v).err ≠ some .ub) ∧
    (∀ src, (apSetParametersValues w k src).err ≠ some .ub) ∧
    (∀ src, (apMatchParametersValues w k src).1.err ≠ some .ub) ∧
    (∀ src, (apSetAllParametersValues w k src).err ≠ some .ub) := by
  have hc := (h.obj k o ho).tgtOk ho
  have hl : ∀ i ∈ o.params, (fun i => i ∈ o.params) i := fun i hi => hi
  refine ⟨fun n v => ?_, fun src => ?_, fun src => ?_, fun src => ?_⟩
  · simp only [apSetParameterValue, ho]
    exact setParameterValue_no_ub hl hc _ v
  · simp only [apSetParametersValues, ho, setParametersValues]
    split
    · rename_i e he
      intro hh; simp only [Option.some.injEq] at hh; subst hh
      exact checkSome_ne_ub w _ src he
    · exact applySome_no_ub _ hl src w hc
  · simp only [apMatchParametersValues, ho]
    exact matchParametersValues_no_ub hl hc src
  · simp only [apSetAllParametersValues, ho, setAllParametersValues]
    split
    · rename_i e he
      intro hh; simp only [Option.some.injEq] at hh; subst hh
      exact checkAll_ne_ub w src _ he
    · exact applyAll_no_ub src _ w hl hc

theorem aliasPair_no_ub {w : World} (h : Inv w) {k : Nat} {o : Obj} (ho : w.objs k = some o) (p1 p2 : String) :
    (aliasPair w k p1 p2).err ≠ some .ub := by
  have hi := h.obj k o ho
  obtain ⟨s1, s2⟩ := aliasPair_spec hi ho p1 p2
  cases h1 : find? w.heap o.params (o.pre ++ p1) with
  | none => rw [(s1 (Or.inl h1)).1]; simp
  | some i1 =>
    cases h2 : find? w.heap o.params (o.pre ++ p2) with
    | none => rw [(s1 (Or.inr h2)).1]; simp
    | some i2 =>
      obtain ⟨a, b, c, d⟩ := s2 i1 i2 h1 h2
      by_cases hind : i2 ∈ o.indep
      swap
      · rw [(a hind).1]; simp
      cases hf : followsLoop w o p2 (o.reg.length + 2) p1 with
      | none => rw [(b hind hf).1]; simp
      | some bb =>
        cases bb with
        | true => rw [(c hind hf).1]; simp
        | false =>
          obtain ⟨d1, d2⟩ := d hind hf
          cases hc : (aliasConstraints w i1 i2).err with
          | some e =>
            rw [(d1 e hc).1]
            have := aliasConstraints_err hc
            subst this
            simp
          | none => obtain ⟨_, _, hnone, _⟩ := d2 hc; rw [hnone]; simp

/-- `unaliasParameters` raises ParameterNotFoundException or Exception only -/
theorem unalias_err {w : World} {k : Nat} {o : Obj} (h : ObjInv w k o) (ho : w.objs k = some o) (p1 p2 : String) :
    (unalias w k p1 p2).err = none ∨ (unalias w k p1 p2).err = some .notfound ∨ (unalias w k p1 p2).err = some .bpp := by
  generalize hr : unalias w k p1 p2 = r
  simp only [unalias, ho] at hr
  cases h1 : find? w.heap o.params (o.pre ++ p1) with
  | none => rw [h1] at hr; rw [← hr]; exact Or.inr (Or.inl rfl)
  | some i1 =>
    cases h2 : find? w.heap o.params (o.pre ++ p2) with
    | none => rw [h1, h2] at hr; rw [← hr]; exact Or.inr (Or.inl rfl)
    | some i2 =>
      rw [h1, h2] at hr
      simp only at hr
      cases hf : mapFind? (aliasId p1 p2) o.reg with
      | none => rw [hf] at hr; rw [← hr]; exact Or.inr (Or.inr rfl)
      | some l0 =>
        have he : (aliasId p1 p2, l0) ∈ o.reg := (mapFind?_eq_some h.regKeys).1 hf
        obtain ⟨hm2, hn2⟩ := ParamList.find?_some h2
        obtain ⟨hsrc, htgt, hnm⟩ := reg_entry_of_id h hm2 hn2 he
        rw [hf] at hr
        simp only [Option.filter, hsrc, hnm, beq_self_eq_true, Bool.and_self, if_true] at hr
        have hnot : i2 ∉ o.indep := fun hin => (h.indepIff i2 hm2).1 hin ⟨_, he, htgt⟩
        have hhas : hasParameter w.heap o.indep (nameOf w.heap i2) = false := by
          cases hb : hasParameter w.heap o.indep (nameOf w.heap i2)
          · rfl
          · rw [hn2] at hb
            exact absurd ((hasParameter_indep h h2).1 hb) hnot
        simp only [shareParameter, setObj_heap, setLsn_heap, hhas, Bool.false_eq_true, if_false, setObj_setObj] at hr
        rw [← hr]
        exact Or.inl rfl

theorem bulkPass_no_ub (k : Nat) : ∀ (todo : List (String × String)) (w : World) (pl : List Par) (kept : List (String × String))
    (o : Obj), Inv w → w.objs k = some o → (bulkPass true k w pl kept todo).err ≠ some .ub
  | [], w, pl, kept, o, _, _ => by simp [bulkPass]
  | (key, val) :: todo, w, pl, kept, o, h, ho => by
    simp only [bulkPass]
    split
    · split
      · split
        · simp
        · exact bulkPass_no_ub k todo w pl _ o h ho
      · split
        · simp
        · exact bulkPass_no_ub k todo w pl _ o h ho
    · split
      · simp
      · have hi : Inv (aliasPairG true w k val key).w := inv_aliasPair h k val key
        have hn : (aliasPairG true w k val key).err ≠ some .ub := aliasPair_no_ub h ho val key
        obtain ⟨_, o1, ho1, _⟩ := aliasPair_fr h ho val key
        split
        · rename_i e he
          intro hh; simp only [Option.some.injEq] at hh; subst hh; exact hn he
        · exact bulkPass_no_ub k todo _ (pl ++ [{ (‹Par› : Par) with name := key }]) kept o1 hi ho1

theorem bulkLoop_no_ub (k : Nat) : ∀ (f : Nat) (w : World) (pl : List Par) (m : List (String × String)) (o : Obj),
    Inv w → w.objs k = some o → (bulkLoop k f w pl m).err ≠ some .ub
  | 0, _, _, _, _, _, _ => by simp [bulkLoop]
  | f + 1, w, pl, m, o, h, ho => by
    simp only [bulkLoop]
    split
    · simp
    · have a := bulkPass_no_ub k m w pl [] o h ho
      have hp := inv_bulkPass k m w pl [] h
      obtain ⟨_, o1, ho1, _⟩ := bulkPass_fr k m w pl [] o h ho
      split
      · exact a
      · split
        · simp
        · exact bulkLoop_no_ub k f _ _ _ o1 hp ho1

theorem bulkAlias_no_ub {w : World} (h : Inv w) {k : Nat} {o : Obj} (ho : w.objs k = some o) (es : List (String × String)) :
    (bulkAlias w k es).err ≠ some .ub := by
  simp only [bulkAlias, bulkAliasG, ho]
  have hl := bulkLoop_no_ub k ((mkMap es).length + 1) w
    ((o.params.filter (fun i => (mapFind? (nameOf w.heap i) (mkMap es)).isNone)).map w.heap.get) (mkMap es) o h ho
  have hi := inv_bulkLoop k ((mkMap es).length + 1) w
    ((o.params.filter (fun i => (mapFind? (nameOf w.heap i) (mkMap es)).isNone)).map w.heap.get) (mkMap es) h
  obtain ⟨_, o1, ho1, _⟩ := bulkLoop_fr k ((mkMap es).length + 1) w
    ((o.params.filter (fun i => (mapFind? (nameOf w.heap i) (mkMap es)).isNone)).map w.heap.get) (mkMap es) o h ho
  split
  · rename_i e he
    intro hh; simp only [Option.some.injEq] at hh; subst hh; exact hl he
  · split
    · rename_i hnone; rw [ho1] at hnone; cases hnone
    · rename_i o' ho'
      exact syncLinks_no_ub (S := fun i => i ∈ o'.params) _ (fun i hi => hi) _ _ ((hi.obj k o' ho').tgtOk ho')

theorem addParam_err {w : World} {k : Nat} {o : Obj} {p : Par} {x : String} (hi : ObjInv w k o) (ho : w.objs k = some o)
    (hx : p.name = o.pre ++ x) :
    (addParam w k p).err = none ∨ (addParam w k p).err = some .constraint ∨ (addParam w k p).err = some .bpp := by
  by_cases hok : p.ok = true
  swap
  · have : addParam w k p = { w := w, err := some .constraint } := by simp [addParam, ho, hok]
    rw [this]; exact Or.inr (Or.inl rfl)
  by_cases hnew : hasParameter w.heap o.params p.name = true
  · have : addParam w k p = { w := w, err := some .bpp } := by simp [addParam, ho, hok, hnew]
    rw [this]; exact Or.inr (Or.inr rfl)
  have hnew : hasParameter w.heap o.params p.name = false := by simpa using hnew
  rw [addParam_eq hi ho hok hx hnew]
  exact Or.inl rfl

/-! ### the queries -/

theorem lisAlias_ok {w : World} {k : Nat} {o : Obj} (h : ObjInv w k o) (ho : w.objs k = some o) {e : String × Nat}
    (he : e ∈ o.reg) : ∃ s, lisAlias w (w.lis e.2) = .ok s := by
  have r := h.regOk e he
  obtain ⟨t, y, ht, _⟩ := r.tgt
  exact ⟨nameOf w.heap t, by simp only [lisAlias, r.pl, ho, ht]⟩

theorem foldl_no_ub {α β : Type} (step : Except Err β → α → Except Err β) (P : α → Prop)
    (hstep : ∀ acc a, P a → acc ≠ .error .ub → step acc a ≠ .error .ub) :
    ∀ (l : List α), (∀ a ∈ l, P a) → ∀ acc, acc ≠ .error .ub → l.foldl step acc ≠ .error .ub
  | [], _, _, hacc => hacc
  | a :: rest, hl, acc, hacc => by
    simp only [List.foldl_cons]
    exact foldl_no_ub step P hstep rest (fun b hb => hl b (List.mem_cons_of_mem _ hb)) _
      (hstep acc a (hl a (List.mem_cons_self ..)) hacc)

theorem getAliasG_no_ub {w : World} {k : Nat} {o : Obj} (h : ObjInv w k o) (ho : w.objs k = some o) (b : Bool) :
    ∀ (f : Nat) (name : String), getAliasG b f w o name ≠ .error .ub
  | 0, _ => by simp [getAliasG]
  | f + 1, name => by
    rw [getAliasG]
    refine foldl_no_ub _ (fun e => e ∈ o.reg) ?_ o.reg (fun e he => he) _ (by simp)
    intro acc e he hacc
    cases acc with
    | error x => exact hacc
    | ok aliases =>
      have key : ∀ (nx al : String), (match getAliasG b f w o nx with
          | .error x => .error x
          | .ok chain => .ok (aliases ++ [al] ++ chain) : Except Err (List String)) ≠ .error .ub := by
        intro nx al
        have ih := getAliasG_no_ub h ho b f nx
        cases hg : getAliasG b f w o nx with
        | error x =>
          simp only [ne_eq, Except.error.injEq]
          intro hx; exact ih (by rw [hg, hx])
        | ok c => simp
      simp only []
      split
      · obtain ⟨s, hs⟩ := lisAlias_ok h ho he
        rw [hs]
        simp only []
        cases b <;> simp only [Bool.false_eq_true, if_false, if_true] <;> split <;> first | exact key _ _ | simp
      · simp

theorem getAliases_no_ub {w : World} {k : Nat} {o : Obj} (h : ObjInv w k o) (ho : w.objs k = some o) :
    getAliases w o ≠ .error .ub := by
  rw [getAliases]
  refine foldl_no_ub _ (fun e => e ∈ o.reg) ?_ o.reg (fun e he => he) _ (by simp)
  intro acc e he hacc
  cases acc with
  | error x => exact hacc
  | ok m =>
    simp only []
    have ih := getAliasG_no_ub h ho true (o.reg.length + 1) (w.lis e.2).src
    split
    · rename_i x hx
      intro hh
      simp only [Except.error.injEq] at hh
      exact ih (by rw [← hh]; exact hx)
    · simp

theorem Out.ofErr_ne {e : Err} {x : Option Err} (h : x ≠ some e) : Out.ofErr x ≠ .err e := by
  cases x with
  | none => simp [Out.ofErr]
  | some y =>
    simp only [Out.ofErr, ne_eq, Out.err.injEq]
    intro hh; exact h (by rw [hh])

theorem needs_some {w : World} {op : Op} (hneeds : ∀ k ∈ op.needs, (w.objs k).isSome = true) {k : Nat} (hk : k ∈ op.needs) :
    ∃ o, w.objs k = some o := Option.isSome_iff_exists.1 (hneeds k hk)

/-- **(A2) no operation on existing objects leaves the defined behaviour** -/
theorem step_no_ub {w : World} (h : Inv w) (op : Op) (hwf : op.wf w)
    (hneeds : ∀ k ∈ op.needs, (w.objs k).isSome = true) : (step w op).2 ≠ .err .ub := by
  cases op with
  | new k pre => simp [step]
  | add k p =>
    obtain ⟨o, ho⟩ := needs_some hneeds (k := k) (by simp [Op.needs, Op.slot])
    obtain ⟨x, hx, _⟩ := hwf o ho
    show Out.ofErr (addParam w k p).err ≠ _
    apply Out.ofErr_ne
    rcases addParam_err (h.obj k o ho) ho hx with e | e | e <;> rw [e] <;> simp
  | «alias» k p1 p2 =>
    obtain ⟨o, ho⟩ := needs_some hneeds (k := k) (by simp [Op.needs, Op.slot])
    show Out.ofErr (aliasPair w k p1 p2).err ≠ _
    exact Out.ofErr_ne (aliasPair_no_ub h ho p1 p2)
  | unalias k p1 p2 =>
    obtain ⟨o, ho⟩ := needs_some hneeds (k := k) (by simp [Op.needs, Op.slot])
    show Out.ofErr (unalias w k p1 p2).err ≠ _
    apply Out.ofErr_ne
    rcases unalias_err (h.obj k o ho) ho p1 p2 with e | e | e <;> rw [e] <;> simp
  | bulk k es =>
    obtain ⟨o, ho⟩ := needs_some hneeds (k := k) (by simp [Op.needs, Op.slot])
    show Out.ofErr (bulkAlias w k es).err ≠ _
    exact Out.ofErr_ne (bulkAlias_no_ub h ho es)
  | setv k n v =>
    obtain ⟨o, ho⟩ := needs_some hneeds (k := k) (by simp [Op.needs, Op.slot])
    show Out.ofErr (apSetParameterValue w k n v).err ≠ _
    exact Out.ofErr_ne ((update_no_ub h ho).1 n v)
  | setvs k src =>
    obtain ⟨o, ho⟩ := needs_some hneeds (k := k) (by simp [Op.needs, Op.slot])
    show Out.ofErr (apSetParametersValues w k src).err ≠ _
    exact Out.ofErr_ne ((update_no_ub h ho).2.1 src)
  | matchvs k src =>
    obtain ⟨o, ho⟩ := needs_some hneeds (k := k) (by simp [Op.needs, Op.slot])
    show (match (apMatchParametersValues w k src).1.err with
      | some e => Out.err e | none => Out.flag (apMatchParametersValues w k src).2) ≠ _
    have := (update_no_ub h ho).2.2.1 src
    cases he : (apMatchParametersValues w k src).1.err with
    | none => simp
    | some e =>
      simp only [ne_eq, Out.err.injEq]
      intro hh; exact this (by rw [he, hh])
  | setallv k src =>
    obtain ⟨o, ho⟩ := needs_some hneeds (k := k) (by simp [Op.needs, Op.slot])
    show Out.ofErr (apSetAllParametersValues w k src).err ≠ _
    exact Out.ofErr_ne ((update_no_ub h ho).2.2.2 src)
  | copy s d =>
    obtain ⟨o, ho⟩ := needs_some hneeds (k := s) (by simp [Op.needs])
    show Out.ofErr (copyConstruct w s d).err ≠ _
    rw [(copyConstruct_rebuilt h (d := d) ho).1]; simp [Out.ofErr]
  | assign s d =>
    obtain ⟨o, ho⟩ := needs_some hneeds (k := s) (by simp [Op.needs])
    obtain ⟨od, hd⟩ := needs_some hneeds (k := d) (by simp [Op.needs])
    show Out.ofErr (assign w s d).err ≠ _
    by_cases hsd : s = d
    · have : assign w s d = { w := w } := by simp [assign, hd, hsd]
      rw [this]; simp [Out.ofErr]
    · rw [(assign_rebuilt h ho hd hsd).1]; simp [Out.ofErr]
  | ns k pre =>
    obtain ⟨o, ho⟩ := needs_some hneeds (k := k) (by simp [Op.needs, Op.slot])
    show Out.ofErr (setNamespace w k pre).err ≠ _
    rw [setNamespace_eq ho]; simp [Out.ofErr]
  | aliases k =>
    obtain ⟨o, ho⟩ := needs_some hneeds (k := k) (by simp [Op.needs, Op.slot])
    simp only [step, ho]
    have := getAliases_no_ub (h.obj k o ho) ho
    cases hg : getAliases w o with
    | ok m => simp
    | error e =>
      simp only [ne_eq, Out.err.injEq]
      intro hh; exact this (by rw [hg, hh])
  | aliasOf k n =>
    obtain ⟨o, ho⟩ := needs_some hneeds (k := k) (by simp [Op.needs, Op.slot])
    simp only [step, ho]
    have : getAlias (o.reg.length + 1) w o n ≠ .error .ub := getAliasG_no_ub (h.obj k o ho) ho true _ n
    cases hg : getAlias (o.reg.length + 1) w o n with
    | ok m => simp
    | error e =>
      simp only [ne_eq, Out.err.injEq]
      intro hh; exact this (by rw [hg, hh])
  | «from» k n =>
    obtain ⟨o, ho⟩ := needs_some hneeds (k := k) (by simp [Op.needs, Op.slot])
    simp [step, ho]

/-- **(A3) the structural operations terminate** (every operation but the two recursive queries) -/
theorem step_no_hang_struct {w : World} (h : Inv w) (op : Op) (hwf : op.wf w) :
    (match op with | .aliases _ | .aliasOf _ _ => True | _ => (step w op).2 ≠ .err .hang) := by
  cases op with
  | aliases k => trivial
  | aliasOf k n => trivial
  | new k pre => simp [step]
  | add k p =>
    show Out.ofErr (addParam w k p).err ≠ _
    apply Out.ofErr_ne
    cases ho : w.objs k with
    | none =>
      have : addParam w k p = { w := w, err := some .ub } := by simp [addParam, ho]
      rw [this]; simp
    | some o =>
      obtain ⟨x, hx, _⟩ := hwf o ho
      rcases addParam_err (h.obj k o ho) ho hx with e | e | e <;> rw [e] <;> simp
  | «alias» k p1 p2 =>
    show Out.ofErr (aliasPair w k p1 p2).err ≠ _
    exact Out.ofErr_ne (aliasPair_no_hang h k p1 p2)
  | unalias k p1 p2 =>
    show Out.ofErr (unalias w k p1 p2).err ≠ _
    apply Out.ofErr_ne
    cases ho : w.objs k with
    | none =>
      have : unalias w k p1 p2 = { w := w, err := some .ub } := by simp [unalias, ho]
      rw [this]; simp
    | some o => rcases unalias_err (h.obj k o ho) ho p1 p2 with e | e | e <;> rw [e] <;> simp
  | bulk k es =>
    show Out.ofErr (bulkAlias w k es).err ≠ _
    exact Out.ofErr_ne (bulkAlias_no_hang h k es)
  | setv k n v =>
    show Out.ofErr (apSetParameterValue w k n v).err ≠ _
    exact Out.ofErr_ne ((update_no_hang h k).1 n v)
  | setvs k src =>
    show Out.ofErr (apSetParametersValues w k src).err ≠ _
    exact Out.ofErr_ne ((update_no_hang h k).2.1 src)
  | matchvs k src =>
    show (match (apMatchParametersValues w k src).1.err with
      | some e => Out.err e | none => Out.flag (apMatchParametersValues w k src).2) ≠ _
    have := (update_no_hang h k).2.2.1 src
    cases he : (apMatchParametersValues w k src).1.err with
    | none => simp
    | some e =>
      simp only [ne_eq, Out.err.injEq]
      intro hh; exact this (by rw [he, hh])
  | setallv k src =>
    show Out.ofErr (apSetAllParametersValues w k src).err ≠ _
    exact Out.ofErr_ne ((update_no_hang h k).2.2.2 src)
  | copy s d =>
    show Out.ofErr (copyConstruct w s d).err ≠ _
    cases ho : w.objs s with
    | none =>
      have : copyConstruct w s d = { w := w, err := some .ub } := by simp [copyConstruct, ho]
      rw [this]; simp [Out.ofErr]
    | some o => rw [(copyConstruct_rebuilt h (d := d) ho).1]; simp [Out.ofErr]
  | assign s d =>
    show Out.ofErr (assign w s d).err ≠ _
    cases ho : w.objs s with
    | none =>
      have : assign w s d = { w := w, err := some .ub } := by simp [assign, ho]
      rw [this]; simp [Out.ofErr]
    | some o =>
      cases hd : w.objs d with
      | none =>
        have : assign w s d = { w := w, err := some .ub } := by simp [assign, ho, hd]
        rw [this]; simp [Out.ofErr]
      | some od =>
        by_cases hsd : s = d
        · have : assign w s d = { w := w } := by simp [assign, hd, hsd]
          rw [this]; simp [Out.ofErr]
        · rw [(assign_rebuilt h ho hd hsd).1]; simp [Out.ofErr]
  | ns k pre =>
    show Out.ofErr (setNamespace w k pre).err ≠ _
    cases ho : w.objs k with
    | none =>
      have : setNamespace w k pre = { w := w, err := some .ub } := by simp [setNamespace, ho]
      rw [this]; simp [Out.ofErr]
    | some o => rw [setNamespace_eq ho]; simp [Out.ofErr]
  | «from» k n =>
    show (match w.objs k with | none => (w, Out.err .ub) | some o => (w, Out.str (getFrom w o n))).2 ≠ _
    split <;> simp

end Bpp.Alias
