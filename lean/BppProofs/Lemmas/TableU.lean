import BppProofs.Lemmas.TokenizerU
import BppModel.Text.TableU
/-! Helper lemmas for `Props/C16Table.lean`: `getNextLine` returns within its fuel and makes
progress on a measure of the stream, the non-solid StringTokenizer constructor returns, the
table operations keep "every row has `nCol` cells", the line loop of `DataTable::read` ends within
its fuel. -/
namespace Bpp.Text.U
open Bpp.Text

/-! ### the stream -/

/-- progress measure of a stream: the characters left, plus one while `eofbit` is not set -/
def Stream.mu (st : Stream) : Nat := st.rest.length + (if st.eof then 0 else 1)

theorem Stream.mu_le (st : Stream) : st.mu ≤ st.rest.length + 1 := by
  unfold Stream.mu; split <;> omega

theorem Stream.le_mu (st : Stream) : st.rest.length ≤ st.mu := by
  unfold Stream.mu; omega

/-- `getline` hands out a piece of what is left, and either consumes the newline or sets `eofbit` -/
theorem getline_spec (st : Stream) :
    (getline st).1.length + (getline st).2.rest.length ≤ st.rest.length ∧
    ((getline st).2.rest.length < st.rest.length ∧ (getline st).2.eof = st.eof ∨
      (getline st).2.eof = true ∧ (getline st).2.rest = []) := by
  unfold getline
  cases h : findChar '\n' st.rest with
  | none => simp
  | some k =>
    have := findChar_lt h
    simp only [List.length_take, List.length_drop]
    refine ⟨by omega, Or.inl ⟨by omega, trivial⟩⟩

theorem getline_mu (st : Stream) (he : st.eof = false) : (getline st).2.mu < st.mu := by
  obtain ⟨_, h | h⟩ := getline_spec st
  · unfold Stream.mu; rw [h.2]; omega
  · unfold Stream.mu; rw [h.1, h.2, he]; simp

/-- the loop of `getNextLine` ends when the fuel exceeds the measure; it leaves with `eofbit` set
or a line that is not blank -/
theorem nextLineLoop_spec (fuel : Nat) (st : Stream) (temp : Str) (hf : st.mu + 1 ≤ fuel) :
    ∃ l st', nextLineLoop fuel st temp = .ok (l, st') ∧ st'.rest.length ≤ st.rest.length ∧
      (l = temp ∧ st' = st ∨ l.length + st'.rest.length ≤ st.rest.length ∧ st'.mu < st.mu) ∧
      (st'.eof = true ∨ isEmptyStr l = false) := by
  induction fuel generalizing st temp with
  | zero => omega
  | succ fuel ih =>
    unfold nextLineLoop
    by_cases hc : (!st.eof && isEmptyStr temp) = true
    · rw [if_pos hc]
      have he : st.eof = false := by
        cases h : st.eof with
        | false => rfl
        | true => rw [h] at hc; simp at hc
      have hm := getline_mu st he
      have hg := (getline_spec st).1
      generalize getline st = p at hm hg
      obtain ⟨t, s1⟩ := p
      simp only at hm hg ⊢
      obtain ⟨l, st', e, h1, h2, h3⟩ := ih s1 t (by omega)
      refine ⟨l, st', e, by omega, Or.inr ?_, h3⟩
      rcases h2 with ⟨rfl, rfl⟩ | ⟨h2, h4⟩
      · exact ⟨by omega, hm⟩
      · exact ⟨by omega, by omega⟩
    · rw [if_neg hc]
      refine ⟨temp, st, rfl, Nat.le_refl _, Or.inl ⟨rfl, rfl⟩, ?_⟩
      cases h : st.eof with
      | true => exact Or.inl rfl
      | false =>
        right
        rw [h] at hc
        simpa using hc

/-- `getNextLine` returns: the line is a piece of what was left, the measure does not increase and
strictly decreases unless `eofbit` was already set (then the line is empty); a blank line is only
returned with `eofbit` set -/
theorem getNextLine_spec (st : Stream) :
    ∃ l st', getNextLine st = .ok (l, st') ∧ st'.rest.length ≤ st.rest.length ∧
      l.length ≤ st.rest.length ∧ st'.mu ≤ st.mu ∧ (st.eof = false → st'.mu < st.mu) ∧
      (isEmptyStr l = false → st'.mu < st.mu) ∧ (isEmptyStr l = true → st'.eof = true) ∧
      l.length + st'.rest.length ≤ st.rest.length ∧ (st.eof = true → l = [] ∧ st' = st) := by
  unfold getNextLine
  cases he : st.eof with
  | true =>
    simp only [if_true]
    exact ⟨[], st, rfl, Nat.le_refl _, Nat.zero_le _, Nat.le_refl _, by simp,
      by simp [isEmptyStr], fun _ => he, by simp, fun _ => ⟨rfl, rfl⟩⟩
  | false =>
    simp only [Bool.false_eq_true, if_false]
    obtain ⟨l, st', e, h1, h2, h3⟩ := nextLineLoop_spec (st.rest.length + 2) st []
      (by have := st.mu_le; omega)
    have hlt : l.length + st'.rest.length ≤ st.rest.length ∧ st'.mu < st.mu := by
      rcases h2 with ⟨rfl, rfl⟩ | h2
      · rw [he] at h3; simp [isEmptyStr] at h3
      · exact h2
    refine ⟨l, st', e, h1, by omega, by omega, fun _ => hlt.2, fun _ => hlt.2, fun hb => ?_, hlt.1,
      fun h => by cases h⟩
    rcases h3 with h3 | h3
    · exact h3
    · rw [hb] at h3; cases h3

/-! ### the tokenizer of a line -/

/-- the non-solid constructor always returns (only the solid one can throw) -/
theorem mkTokenizer_ns_ok (line sep : Str) (allowEmpty : Bool) (hs : StrOk line) :
    ∃ t, mkTokenizer line sep false allowEmpty = .ok t ∧ t.tokens.length ≤ line.length + 1 := by
  unfold mkTokenizer mkTokenizerG
  simp only [Bool.not_false, if_true]
  cases h : findFirstNotOf sep line 0 with
  | none => exact ⟨_, rfl, by simp⟩
  | some index =>
    have hb := findFirstNotOf_bounds h
    obtain ⟨ts, ss, e, _, _, _, h4⟩ := nsLoop_spec line sep allowEmpty hs (loopFuel line) index (by omega)
      (by unfold loopFuel; omega)
    simp only [e, bind_ok, pure_eq_ok]
    refine ⟨_, rfl, ?_⟩
    show ts.length ≤ line.length + 1
    omega

/-! ### the table -/

/-- every row has `nCol` cells -/
def RowsOk (t : Tbl) : Prop := ∀ r ∈ t.rows, r.length = t.nCol

theorem setColumnNames_spec (t : Tbl) (names : List Str) (h : RowsOk t) :
    setColumnNames t names = .error .bpp ∨
    ∃ t', setColumnNames t names = .ok t' ∧ RowsOk t' ∧ t'.nCol = t.nCol ∧ t'.rows = t.rows := by
  unfold setColumnNames
  split
  · exact Or.inl rfl
  · split
    · exact Or.inl rfl
    · exact Or.inr ⟨_, rfl, h, rfl, rfl⟩

theorem addRow_spec (t : Tbl) (row : List Str) (h : RowsOk t) :
    addRow t row = .error .bpp ∨
    ∃ t', addRow t row = .ok t' ∧ RowsOk t' ∧ t'.nCol = t.nCol ∧
      t'.rows.length = t.rows.length + 1 := by
  unfold addRow
  split
  · exact Or.inl rfl
  · split
    · exact Or.inl rfl
    · rename_i hl
      refine Or.inr ⟨_, rfl, ?_, rfl, by simp⟩
      intro r hr
      simp only [List.mem_append, List.mem_singleton] at hr
      rcases hr with hr | rfl
      · exact h r hr
      · simpa using hl

theorem addRowNamed_spec (t : Tbl) (name : Str) (row : List Str) (h : RowsOk t) :
    addRowNamed t name row = .error .bpp ∨
    ∃ t', addRowNamed t name row = .ok t' ∧ RowsOk t' ∧ t'.nCol = t.nCol ∧
      t'.rows.length = t.rows.length + 1 := by
  unfold addRowNamed
  split
  · exact Or.inl rfl
  · split
    · exact Or.inl rfl
    · rename_i hl
      split
      · exact Or.inl rfl
      · refine Or.inr ⟨_, rfl, ?_, rfl, by simp⟩
        intro r hr
        simp only [List.mem_append, List.mem_singleton] at hr
        rcases hr with hr | rfl
        · exact h r hr
        · simpa using hl

/-- reading a column that exists, in a table whose rows all have `nCol` cells -/
theorem column_ok (rows : List (List Str)) (k n : Nat) (hk : k < n) (h : ∀ r ∈ rows, r.length = n) :
    ∃ c, column rows k = .ok c := by
  unfold column
  induction rows with
  | nil => exact ⟨[], rfl⟩
  | cons r rows ih =>
    obtain ⟨c, e⟩ := ih (fun r' hr' => h r' (List.mem_cons_of_mem _ hr'))
    have hr := h r (List.mem_cons_self)
    rw [List.mapM_cons, vecAt_ok (by omega), bind_ok, e, bind_ok]
    exact ⟨_, rfl⟩

/-- the line loop of `read`: with fuel beyond the measure of the stream it returns or throws the
library's exception, keeps the row invariant, and adds at most one row per unit of measure -/
theorem readRows_spec (hrn : Bool) (sep : Str) (fuel : Nat) (st : Stream) (t : Tbl)
    (hf : st.mu + 1 ≤ fuel) (hst : st.rest.length ≤ maxStr) (ht : RowsOk t) :
    readRows true hrn sep fuel st t = .error .bpp ∨
    ∃ t', readRows true hrn sep fuel st t = .ok t' ∧ RowsOk t' ∧ t'.nCol = t.nCol ∧
      t'.rows.length ≤ t.rows.length + st.rest.length ∧ (st.eof = true → t' = t) := by
  induction fuel generalizing st t with
  | zero => omega
  | succ fuel ih =>
    obtain ⟨l, st', e, h1, h2, h3, _, h5, _, h7, h8⟩ := getNextLine_spec st
    unfold readRows
    rw [e, bind_ok]
    simp only []
    by_cases hb : isEmptyStr l = true
    · rw [if_pos hb]
      exact Or.inr ⟨t, rfl, ht, rfl, by omega, fun _ => rfl⟩
    · rw [if_neg hb]
      have hlt := h5 (by simpa using hb)
      have hne : st.eof = true → False := fun h => by
        rw [(h8 h).1] at hb; simp [isEmptyStr] at hb
      have hl1 : 1 ≤ l.length := by
        cases l with
        | nil => simp [isEmptyStr] at hb
        | cons a r => simp
      obtain ⟨tk, etk, _⟩ := mkTokenizer_ns_ok l sep true (show StrOk l by unfold StrOk; omega)
      rw [etk, bind_ok]
      cases hrn with
      | false =>
        simp only [Bool.false_eq_true, if_false]
        rcases addRow_spec t tk.tokens ht with e2 | ⟨t2, e2, k1, k2, k3⟩
        · rw [e2, bind_err]; exact Or.inl rfl
        · rw [e2, bind_ok]
          rcases ih st' t2 (by omega) (by omega) k1 with e3 | ⟨t3, e3, j1, j2, j3, _⟩
          · exact Or.inl e3
          · exact Or.inr ⟨t3, e3, j1, by omega, by omega, fun h => (hne h).elim⟩
      | true =>
        simp only [if_true, Bool.true_and]
        cases htk : tk.tokens with
        | nil => simp only [List.isEmpty_nil, if_true]; exact Or.inl trivial
        | cons a r =>
          simp only [List.isEmpty_cons, Bool.false_eq_true, if_false]
          have ea : vecAt (a :: r) 0 = .ok a := by simp [vecAt]
          have er : vecTail (a :: r) = .ok r := rfl
          rw [ea, bind_ok, er, bind_ok]
          rcases addRowNamed_spec t a r ht with e2 | ⟨t2, e2, k1, k2, k3⟩
          · rw [e2, bind_err]; exact Or.inl rfl
          · rw [e2, bind_ok]
            rcases ih st' t2 (by omega) (by omega) k1 with e3 | ⟨t3, e3, j1, j2, j3, _⟩
            · exact Or.inl e3
            · exact Or.inr ⟨t3, e3, j1, by omega, by omega, fun h => (hne h).elim⟩

/-! ### `DataTable::read` in three pieces -/

/-- the dispatch :565-588 on the token lists of the first two lines -/
def tblInit (header : Bool) (row1 row2 : List Str) : R (Tbl × Bool) :=
  let t0 : Tbl := ⟨row1.length, [], [], []⟩
  if row1.length == row2.length then do
    let t ← if header then setColumnNames t0 row1 else addRow t0 row1
    let t ← addRow t row2
    pure (t, false)
  else if row1.length == wsub row2.length 1 then do
    let t ← setColumnNames t0 row1
    let name ← vecAt row2 0
    let row ← vecTail row2
    let t ← addRowNamed t name row
    pure (t, true)
  else .error .bpp

/-- the end of `read` :616-627 -/
def tblFinish (rowNames : Int) (t : Tbl) : R (Nat × Nat) :=
  if rowNames > -1 then
    if rowNames.toNat ≥ t.nCol then .error .bpp
    else do
      let col ← column t.rows rowNames.toNat
      if !uniq col then .error .bpp
      else pure (t.rows.length, t.nCol - 1)
  else pure (t.rows.length, t.nCol)

/-- the model, cut at these two pieces (definitional) -/
theorem readTableG_eq (fixed : Bool) (text sep : Str) (header : Bool) (rowNames : Int) :
    readTableG fixed text sep header rowNames = (do
      let (firstLine, st) ← getNextLine ⟨text, false⟩
      let st1 ← mkTokenizer firstLine sep false true
      let (secondLine, st) ← getNextLine st
      let st2 ← mkTokenizer secondLine sep false true
      let (t, hasRowNames) ← tblInit header st1.tokens st2.tokens
      let t ← readRows fixed hasRowNames sep (text.length + 2) st t
      tblFinish rowNames t) := by
  unfold readTableG tblInit tblFinish
  simp only []
  cases getNextLine ⟨text, false⟩ with
  | error e => rfl
  | ok p =>
    obtain ⟨l1, s1⟩ := p
    simp only [bind_ok]
    cases mkTokenizer l1 sep false true with
    | error e => rfl
    | ok tk1 =>
      simp only [bind_ok]
      cases getNextLine s1 with
      | error e => rfl
      | ok p =>
        obtain ⟨l2, s2⟩ := p
        simp only [bind_ok]
        cases mkTokenizer l2 sep false true with
        | error e => rfl
        | ok tk2 =>
          simp only [bind_ok]
          split
          · cases header <;> simp only [bind_assoc, pure_bind, if_true, if_false, Bool.false_eq_true]
          · split
            · simp only [bind_assoc, pure_bind]
            · rfl

/-- the dispatch never dereferences `begin()` of an empty token list: the branch with row names
is taken when `row1.size() == row2.size() - 1` in `size_t`, which an empty `row2` cannot satisfy
(`row1` has fewer than `2^64 - 1` tokens) -/
theorem tblInit_spec (header : Bool) (row1 row2 : List Str) (h1 : row1.length + 1 < SZ) :
    tblInit header row1 row2 = .error .bpp ∨
    ∃ t h, tblInit header row1 row2 = .ok (t, h) ∧ RowsOk t ∧ t.nCol = row1.length ∧
      t.rows.length ≤ 2 ∧ (header = true → t.rows.length ≤ 1) := by
  have ht0 : RowsOk ⟨row1.length, [], [], []⟩ := fun r hr => by cases hr
  unfold tblInit
  simp only []
  by_cases hc : (row1.length == row2.length) = true
  · rw [if_pos hc]
    have first : (if header = true then setColumnNames ⟨row1.length, [], [], []⟩ row1
          else addRow ⟨row1.length, [], [], []⟩ row1) = .error .bpp ∨
        ∃ t', (if header = true then setColumnNames ⟨row1.length, [], [], []⟩ row1
          else addRow ⟨row1.length, [], [], []⟩ row1) = .ok t' ∧ RowsOk t' ∧ t'.nCol = row1.length ∧
          t'.rows.length ≤ 1 ∧ (header = true → t'.rows.length = 0) := by
      cases header with
      | true =>
        simp only [if_true]
        rcases setColumnNames_spec _ row1 ht0 with e | ⟨t', e, k1, k2, k3⟩
        · exact Or.inl e
        · exact Or.inr ⟨t', e, k1, k2, by rw [k3]; simp, fun _ => by rw [k3]; rfl⟩
      | false =>
        simp only [Bool.false_eq_true, if_false]
        rcases addRow_spec _ row1 ht0 with e | ⟨t', e, k1, k2, k3⟩
        · exact Or.inl e
        · exact Or.inr ⟨t', e, k1, k2, by rw [k3]; simp, fun h => by cases h⟩
    have push : ∀ (k : Tbl → R (Tbl × Bool)),
        (if header = true then setColumnNames ⟨row1.length, [], [], []⟩ row1 >>= k
          else addRow ⟨row1.length, [], [], []⟩ row1 >>= k) =
        (if header = true then setColumnNames ⟨row1.length, [], [], []⟩ row1
          else addRow ⟨row1.length, [], [], []⟩ row1) >>= k := by
      intro k; cases header <;> rfl
    rw [push]
    rcases first with e | ⟨t1, e, k1, k2, k3, k4⟩
    · rw [e, bind_err]; exact Or.inl rfl
    · rw [e, bind_ok]
      rcases addRow_spec t1 row2 k1 with e2 | ⟨t2, e2, j1, j2, j3⟩
      · rw [e2, bind_err]; exact Or.inl rfl
      · rw [e2, bind_ok]
        exact Or.inr ⟨t2, false, rfl, j1, by omega, by omega, fun h => by have := k4 h; omega⟩
  · rw [if_neg hc]
    by_cases hc2 : (row1.length == wsub row2.length 1) = true
    · rw [if_pos hc2]
      cases row2 with
      | nil =>
        exfalso
        have hw : wsub 0 1 = SZ - 1 := by decide
        simp only [List.length_nil, beq_iff_eq] at hc2
        rw [hw] at hc2
        omega
      | cons a r =>
        rcases setColumnNames_spec _ row1 ht0 with e | ⟨t1, e, k1, k2, k3⟩
        · rw [e, bind_err]; exact Or.inl rfl
        · have ea : vecAt (a :: r) 0 = .ok a := by simp [vecAt]
          have er : vecTail (a :: r) = .ok r := rfl
          rw [e, bind_ok, ea, bind_ok, er, bind_ok]
          rcases addRowNamed_spec t1 a r k1 with e2 | ⟨t2, e2, j1, j2, j3⟩
          · rw [e2, bind_err]; exact Or.inl rfl
          · rw [e2, bind_ok]
            have hr : t2.rows.length = 1 := by rw [j3, k3]; rfl
            exact Or.inr ⟨t2, true, rfl, j1, by rw [j2, k2], by omega, fun _ => by omega⟩
    · rw [if_neg hc2]; exact Or.inl rfl

theorem tblFinish_spec (rowNames : Int) (t : Tbl) (ht : RowsOk t) :
    tblFinish rowNames t = .error .bpp ∨
    ∃ c, tblFinish rowNames t = .ok (t.rows.length, c) ∧ c ≤ t.nCol := by
  unfold tblFinish
  split
  · split
    · exact Or.inl rfl
    · rename_i hk
      obtain ⟨col, e⟩ := column_ok t.rows rowNames.toNat t.nCol (by omega) ht
      rw [e, bind_ok]
      split
      · exact Or.inl rfl
      · exact Or.inr ⟨_, rfl, by omega⟩
  · exact Or.inr ⟨_, rfl, Nat.le_refl _⟩

/-- `DataTable::read` returns or throws the library's exception; the dimensions it returns are
bounded by the input (`size + 2` rows are only reached by the empty text read without header) -/
theorem readTable_spec (text sep : Str) (header : Bool) (rowNames : Int) (hs : StrOk text) :
    readTable text sep header rowNames = .error .bpp ∨
    ∃ r c, readTable text sep header rowNames = .ok (r, c) ∧ r ≤ text.length + 2 ∧
      (header = true ∨ text ≠ [] → r ≤ text.length + 1) ∧ c ≤ text.length + 1 := by
  have hsz := hs.lt_SZ
  unfold StrOk at hs
  unfold readTable
  rw [readTableG_eq]
  obtain ⟨l1, s1, e1, a1, a2, a3, a4, _, a6, a7, _⟩ := getNextLine_spec ⟨text, false⟩
  have a5 := a4 rfl
  have hmu0 : (Stream.mk text false).mu = text.length + 1 := rfl
  simp only [] at a1 a2 a7
  obtain ⟨tk1, f1, g1⟩ := mkTokenizer_ns_ok l1 sep true (show StrOk l1 by unfold StrOk; omega)
  obtain ⟨l2, s2, e2, b1, b2, b3, _, _, _, _, b8⟩ := getNextLine_spec s1
  obtain ⟨tk2, f2, _⟩ := mkTokenizer_ns_ok l2 sep true (show StrOk l2 by unfold StrOk; omega)
  rw [e1, bind_ok]
  simp only []
  rw [f1, bind_ok, e2, bind_ok]
  simp only []
  rw [f2, bind_ok]
  rcases tblInit_spec header tk1.tokens tk2.tokens (by omega) with e3 | ⟨t, h, e3, c1, c2, c3, c4⟩
  · rw [e3, bind_err]; exact Or.inl rfl
  · rw [e3, bind_ok]
    simp only []
    rcases readRows_spec h sep (text.length + 2) s2 t (by omega) (by omega) c1 with
      e4 | ⟨t', e4, d1, d2, d3, d5⟩
    · rw [e4, bind_err]; exact Or.inl rfl
    · rw [e4, bind_ok]
      rcases tblFinish_spec rowNames t' d1 with e5 | ⟨c, e5, d4⟩
      · exact Or.inl e5
      · refine Or.inr ⟨_, c, e5, by omega, fun hh => ?_, by omega⟩
        by_cases hb : isEmptyStr l1 = true
        · -- a blank first line: `eofbit` is set, nothing more is read
          have s1e := a6 hb
          have hs2 : s2 = s1 := (b8 s1e).2
          have ht : t' = t := d5 (by rw [hs2]; exact s1e)
          rw [ht]
          rcases hh with hh | hh
          · have := c4 hh; omega
          · have : 1 ≤ text.length := by
              cases text with
              | nil => exact absurd rfl hh
              | cons a r => simp
            omega
        · -- a first line that is not blank took at least one character
          have hl1 : 1 ≤ l1.length := by
            cases l1 with
            | nil => simp [isEmptyStr] at hb
            | cons a r => simp
          omega

end Bpp.Text.U
