import Mathlib.Logic.Relation
import BppProofs.Lemmas.Alias
/-! Invariant of the reachable worlds of C03 and its preservation.  Property theorems are in
`Props/C03.lean`. -/
namespace Bpp.Alias
open Bpp.ParamList (Bnd Con Par Store ObjId nameOf find? hasParameter names startsWith)

/-! ## Strings -/

theorem startsWith_append (pre s : String) : startsWith (pre ++ s) pre = true := by
  simp [startsWith]

theorem drop_pre (pre s : String) : String.ofList ((pre ++ s).toList.drop pre.length) = s := by
  have : pre.length = pre.toList.length := String.length_toList.symm
  rw [String.toList_append, this, List.drop_left]; simp

theorem stripNs_append (pre s : String) : stripNs pre (pre ++ s) = s := by
  simp only [stripNs, startsWith_append, if_true, drop_pre]

theorem renamed_append (pre new s : String) : renamed pre new (pre ++ s) = new ++ s := by
  simp only [renamed, startsWith_append, if_true, drop_pre]

theorem append_left_cancel' {a b c : String} (h : a ++ b = a ++ c) : b = c := by
  have := congrArg String.toList h
  simp at this
  exact String.toList_inj.1 this

/-- a short parameter name: not empty, no underscore (the listener ids `__alias_<y>_to_<x>` are then
injective in (x, y), and the empty string can stand for "no source" as it does in `getFrom`) -/
def Plain (s : String) : Prop := s ≠ "" ∧ '_' ∉ s.toList

theorem list_split_unique {a c : List Char} : ∀ {b d : List Char}, '_' ∉ a → '_' ∉ c →
    a ++ '_' :: b = c ++ '_' :: d → a = c ∧ b = d := by
  induction a generalizing c with
  | nil =>
    intro b d _ hc h
    cases c with
    | nil => simpa using h
    | cons x c' =>
      simp at h
      exact absurd h.1.symm (by intro e; exact hc (by simp [e]))
  | cons x a' ih =>
    intro b d ha hc h
    cases c with
    | nil =>
      simp at h
      exact absurd h.1 (by intro e; exact ha (by simp [e]))
    | cons y c' =>
      simp at h
      obtain ⟨rfl, h2⟩ := h
      have := ih (fun m => ha (List.mem_cons_of_mem _ m)) (fun m => hc (List.mem_cons_of_mem _ m)) h2
      exact ⟨by rw [this.1], this.2⟩

theorem aliasId_inj {p1 p2 q1 q2 : String} (hp : Plain p2) (hq : Plain q2)
    (h : aliasId p1 p2 = aliasId q1 q2) : p1 = q1 ∧ p2 = q2 := by
  have h' := congrArg String.toList h
  simp only [aliasId, String.toList_append] at h'
  have e1 : ("__alias_" : String).toList = ['_','_','a','l','i','a','s','_'] := by decide
  have e2 : ("_to_" : String).toList = ['_','t','o','_'] := by decide
  rw [e1, e2] at h'
  simp only [List.append_assoc, List.cons_append, List.nil_append, List.cons.injEq, true_and] at h'
  obtain ⟨a, b⟩ := list_split_unique hp.2 hq.2 h'
  simp only [List.cons.injEq, true_and] at b
  exact ⟨String.toList_inj.1 b, String.toList_inj.1 a⟩

/-! ## The key-sorted registry -/

theorem mapInsert_perm {β : Type} (k : String) (v : β) : ∀ (m : List (String × β)), k ∉ m.map Prod.fst →
    (mapInsert k v m).Perm ((k, v) :: m)
  | [], _ => by simp [mapInsert]
  | (k', v') :: t, h => by
    simp only [mapInsert]
    have hne : k ≠ k' := fun e => h (by simp [e])
    have ht : k ∉ t.map Prod.fst := fun m => h (by simp only [List.map_cons, List.mem_cons]; exact Or.inr m)
    split
    · exact List.Perm.refl _
    · exact ((mapInsert_perm k v t ht).cons (k', v')).trans (List.Perm.swap _ _ _)

theorem mem_mapInsert {β : Type} {k : String} {v : β} {m : List (String × β)} (h : k ∉ m.map Prod.fst)
    (e : String × β) : e ∈ mapInsert k v m ↔ e = (k, v) ∨ e ∈ m := by
  rw [(mapInsert_perm k v m h).mem_iff]; simp

theorem keys_mapInsert {β : Type} {k : String} {v : β} {m : List (String × β)} (h : k ∉ m.map Prod.fst)
    (nd : (m.map Prod.fst).Nodup) : ((mapInsert k v m).map Prod.fst).Nodup := by
  have := ((mapInsert_perm k v m h).map Prod.fst)
  rw [this.nodup_iff]; simp [h, nd]

theorem length_mapInsert {β : Type} {k : String} {v : β} {m : List (String × β)} (h : k ∉ m.map Prod.fst) :
    (mapInsert k v m).length = m.length + 1 := by
  rw [(mapInsert_perm k v m h).length_eq]; simp

theorem mem_mapErase {β : Type} (k : String) (m : List (String × β)) (e : String × β) :
    e ∈ mapErase k m ↔ e ∈ m ∧ e.1 ≠ k := by
  simp [mapErase]

theorem keys_mapErase {β : Type} (k : String) {m : List (String × β)} (nd : (m.map Prod.fst).Nodup) :
    ((mapErase k m).map Prod.fst).Nodup :=
  (List.Sublist.map _ List.filter_sublist).nodup nd

theorem mapFind?_eq_some {β : Type} {k : String} {m : List (String × β)} {v : β}
    (nd : (m.map Prod.fst).Nodup) : mapFind? k m = some v ↔ (k, v) ∈ m := by
  induction m with
  | nil => simp [mapFind?]
  | cons e t ih =>
    simp only [List.map_cons, List.nodup_cons] at nd
    simp only [mapFind?, List.find?_cons]
    by_cases h : e.1 = k
    · simp only [h, beq_self_eq_true, Option.map_some, Option.some.injEq, List.mem_cons]
      constructor
      · intro hv; left; rw [← hv, ← h]
      · rintro (hv | hv)
        · rw [← hv]
        · exact absurd (List.mem_map.2 ⟨(k, v), hv, rfl⟩) (h ▸ nd.1)
    · have hb : (e.1 == k) = false := by simpa using h
      simp only [hb, List.mem_cons]
      have := ih nd.2
      simp only [mapFind?] at this
      rw [this]
      constructor
      · exact Or.inr
      · rintro (hv | hv)
        · exact absurd (by rw [← hv]) h
        · exact hv

theorem mapFind?_eq_none {β : Type} {k : String} {m : List (String × β)} :
    mapFind? k m = none ↔ k ∉ m.map Prod.fst := by
  simp only [mapFind?, Option.map_eq_none_iff, List.find?_eq_none, beq_iff_eq, List.mem_map, not_exists, not_and]

/-! ## The invariant of one object -/

/-- position `c` follows position `p`: a registered listener writes to `params[c]` and is named
after `params[p]` -/
def Follows (w : World) (o : Obj) (c p : Nat) : Prop :=
  ∃ e ∈ o.reg, (w.lis e.2).alias = c ∧ ∃ s, o.params[p]? = some s ∧ nameOf w.heap s = o.pre ++ (w.lis e.2).src

/-- a registry entry `(id, l)` of the object in slot `k` -/
structure RegOk (w : World) (k : Nat) (o : Obj) (e : String × Nat) : Prop where
  lt : e.2 < w.lnext
  id : (w.lis e.2).id = e.1
  pl : (w.lis e.2).pl = k
  src : ∃ s ∈ o.params, nameOf w.heap s = o.pre ++ (w.lis e.2).src ∧ e.2 ∈ w.lsn s
  tgt : ∃ t y, o.params[(w.lis e.2).alias]? = some t ∧ nameOf w.heap t = o.pre ++ y ∧
    (w.lis e.2).name = o.pre ++ y ∧ e.1 = aliasId (w.lis e.2).src y

structure ObjInv (w : World) (k : Nat) (o : Obj) : Prop where
  valid : ∀ i ∈ o.params, i < w.heap.next
  nodup : (names w.heap o.params).Nodup
  plain : ∀ i ∈ o.params, ∃ x, nameOf w.heap i = o.pre ++ x ∧ Plain x
  indepSub : ∀ i ∈ o.indep, i ∈ o.params
  indepNodup : o.indep.Nodup
  /-- the independent parameters are the parameters nobody writes to -/
  indepIff : ∀ i ∈ o.params, (i ∈ o.indep ↔ ¬ ∃ e ∈ o.reg, o.params[(w.lis e.2).alias]? = some i)
  regKeys : (o.reg.map Prod.fst).Nodup
  regOk : ∀ e ∈ o.reg, RegOk w k o e
  /-- every listener attached to a parameter is registered and attached where its `from_` says -/
  lsnOk : ∀ i ∈ o.params, ∀ l ∈ w.lsn i, ((w.lis l).id, l) ∈ o.reg ∧ nameOf w.heap i = o.pre ++ (w.lis l).src
  /-- a parameter follows at most one parameter -/
  once : ∀ e ∈ o.reg, ∀ e' ∈ o.reg, (w.lis e.2).alias = (w.lis e'.2).alias → e = e'
  acyclic : ∀ p, ¬ Relation.TransGen (Follows w o) p p
  /-- some parameter is independent ("the first time we call this method" never comes again) -/
  hasRoot : o.params ≠ [] → o.indep ≠ []

/-- same objects, listeners, names; values and constraints may differ -/
structure SameShape (w w' : World) : Prop where
  lsn : w'.lsn = w.lsn
  lis : w'.lis = w.lis
  lnext : w'.lnext = w.lnext
  objs : w'.objs = w.objs
  next : w'.heap.next = w.heap.next
  name : ∀ i, nameOf w'.heap i = nameOf w.heap i

theorem SameBut.sameShape {w w' : World} (s : SameBut w w') : SameShape w w' :=
  ⟨s.lsn, s.lis, s.lnext, s.objs, s.next, s.name⟩

theorem SameShape.refl (w : World) : SameShape w w := ⟨rfl, rfl, rfl, rfl, rfl, fun _ => rfl⟩
theorem SameShape.trans {a b c : World} (x : SameShape a b) (y : SameShape b c) : SameShape a c :=
  ⟨y.lsn.trans x.lsn, y.lis.trans x.lis, y.lnext.trans x.lnext, y.objs.trans x.objs, y.next.trans x.next,
   fun i => (y.name i).trans (x.name i)⟩

theorem SameShape.names {w w' : World} (s : SameShape w w') (l : List ObjId) : names w'.heap l = names w.heap l :=
  ParamList.names_congr (fun i _ => s.name i)

theorem SameShape.follows {w w' : World} (s : SameShape w w') (o : Obj) : Follows w' o = Follows w o := by
  funext c p
  simp only [Follows, s.lis, s.name]

theorem RegOk.sameShape {w w' : World} {k : Nat} {o : Obj} {e : String × Nat} (r : RegOk w k o e)
    (s : SameShape w w') : RegOk w' k o e := by
  obtain ⟨a, b, c, d, f⟩ := r
  refine ⟨?_, ?_, ?_, ?_, ?_⟩
  · rw [s.lnext]; exact a
  · rw [s.lis]; exact b
  · rw [s.lis]; exact c
  · simpa only [s.lis, s.name, s.lsn] using d
  · simpa only [s.lis, s.name] using f

theorem ObjInv.sameShape {w w' : World} {k : Nat} {o : Obj} (h : ObjInv w k o) (s : SameShape w w') :
    ObjInv w' k o where
  valid i hi := by rw [s.next]; exact h.valid i hi
  nodup := by rw [s.names]; exact h.nodup
  plain i hi := by rw [s.name]; exact h.plain i hi
  indepSub := h.indepSub
  indepNodup := h.indepNodup
  indepIff i hi := by rw [s.lis]; exact h.indepIff i hi
  regKeys := h.regKeys
  regOk e he := (h.regOk e he).sameShape s
  lsnOk i hi l hl := by
    rw [s.lsn] at hl; rw [s.lis, s.name]; exact h.lsnOk i hi l hl
  once e he e' he' := by rw [s.lis]; exact h.once e he e' he'
  acyclic p := by rw [s.follows]; exact h.acyclic p
  hasRoot := h.hasRoot

/-! ## Frame: an object is not concerned by what happens to other objects -/

/-- `w'` agrees with `w` on everything object `o` is made of -/
structure Agree (w w' : World) (o : Obj) : Prop where
  next : w.heap.next ≤ w'.heap.next
  lnext : w.lnext ≤ w'.lnext
  name : ∀ i ∈ o.params, nameOf w'.heap i = nameOf w.heap i
  lsn : ∀ i ∈ o.params, w'.lsn i = w.lsn i
  lis : ∀ e ∈ o.reg, w'.lis e.2 = w.lis e.2

theorem ObjInv.agree {w w' : World} {k : Nat} {o : Obj} (h : ObjInv w k o) (a : Agree w w' o) : ObjInv w' k o where
  valid i hi := Nat.lt_of_lt_of_le (h.valid i hi) a.next
  nodup := by rw [ParamList.names_congr (fun i hi => a.name i hi)]; exact h.nodup
  plain i hi := by rw [a.name i hi]; exact h.plain i hi
  indepSub := h.indepSub
  indepNodup := h.indepNodup
  indepIff i hi := by
    rw [h.indepIff i hi]
    constructor
    · rintro hn ⟨e, he, ht⟩; exact hn ⟨e, he, by rw [← a.lis e he]; exact ht⟩
    · rintro hn ⟨e, he, ht⟩; exact hn ⟨e, he, by rw [a.lis e he]; exact ht⟩
  regKeys := h.regKeys
  regOk e he := by
    obtain ⟨r1, r2, r3, ⟨s, hs, hsn, hsl⟩, ⟨t, y, ht, htn, hn, hid⟩⟩ := h.regOk e he
    refine ⟨Nat.lt_of_lt_of_le r1 a.lnext, by rw [a.lis e he]; exact r2, by rw [a.lis e he]; exact r3,
      ⟨s, hs, by rw [a.name s hs, a.lis e he]; exact hsn, by rw [a.lsn s hs]; exact hsl⟩,
      ⟨t, y, by rw [a.lis e he]; exact ht, by rw [a.name t (List.mem_of_getElem? ht)]; exact htn,
        by rw [a.lis e he]; exact hn, by rw [a.lis e he]; exact hid⟩⟩
  lsnOk i hi l hl := by
    rw [a.lsn i hi] at hl
    obtain ⟨h1, h2⟩ := h.lsnOk i hi l hl
    have := a.lis _ h1
    simp only at this
    rw [this, a.name i hi]; exact ⟨h1, h2⟩
  once e he e' he' := by rw [a.lis e he, a.lis e' he']; exact h.once e he e' he'
  acyclic p := by
    have : Follows w' o = Follows w o := by
      funext c q
      simp only [Follows]
      apply propext
      constructor
      · rintro ⟨e, he, h1, s, hs, hn⟩
        refine ⟨e, he, by rw [← a.lis e he]; exact h1, s, hs, ?_⟩
        rw [← a.name s (List.mem_of_getElem? hs), ← a.lis e he]; exact hn
      · rintro ⟨e, he, h1, s, hs, hn⟩
        refine ⟨e, he, by rw [a.lis e he]; exact h1, s, hs, ?_⟩
        rw [a.name s (List.mem_of_getElem? hs), a.lis e he]; exact hn
    rw [this]; exact h.acyclic p
  hasRoot := h.hasRoot

/-! ## The invariant of a world -/

structure Inv (w : World) : Prop where
  obj : ∀ k o, w.objs k = some o → ObjInv w k o
  disj : ∀ k j o o', k ≠ j → w.objs k = some o → w.objs j = some o' → ∀ i ∈ o.params, i ∉ o'.params

theorem Inv.paramsValid {w : World} (h : Inv w) : ParamsValid w := fun k o ho t ht => (h.obj k o ho).valid t ht

/-- what an operation on slot `k` may write: parameter objects among `P` (the slot's former
parameters) or fresh ones, listener objects pointing at slot `k` or fresh ones -/
structure Touches (w w' : World) (k : Nat) (P : List ObjId) : Prop where
  next : w.heap.next ≤ w'.heap.next
  lnext : w.lnext ≤ w'.lnext
  cell : ∀ i, i < w.heap.next → i ∉ P → nameOf w'.heap i = nameOf w.heap i ∧ w'.lsn i = w.lsn i
  lis : ∀ l, l < w.lnext → (w.lis l).pl ≠ k → w'.lis l = w.lis l

theorem Touches.agree {w w' : World} {k : Nat} {P : List ObjId} (t : Touches w w' k P) {j : Nat} {o : Obj}
    (hj : ObjInv w j o) (hjk : j ≠ k) (hd : ∀ i ∈ o.params, i ∉ P) : Agree w w' o where
  next := t.next
  lnext := t.lnext
  name i hi := (t.cell i (hj.valid i hi) (hd i hi)).1
  lsn i hi := (t.cell i (hj.valid i hi) (hd i hi)).2
  lis e he := t.lis e.2 (hj.regOk e he).lt (by rw [(hj.regOk e he).pl]; exact hjk)

/-- the generic step: slot `k` gets the object `o'` -/
theorem Inv.update {w w' : World} (h : Inv w) {k : Nat} {o' : Obj} {P : List ObjId}
    (hobjs : w'.objs = fun j => if j = k then some o' else w.objs j)
    (hP : ∀ o, w.objs k = some o → P = o.params)
    (hP' : w.objs k = none → P = [])
    (t : Touches w w' k P)
    (hnew : ObjInv w' k o')
    (hfresh : ∀ i ∈ o'.params, i ∈ P ∨ w.heap.next ≤ i) : Inv w' := by
  have hdP : ∀ j o, j ≠ k → w.objs j = some o → ∀ i ∈ o.params, i ∉ P := by
    intro j o hjk ho i hi hiP
    cases hk : w.objs k with
    | none => rw [hP' hk] at hiP; cases hiP
    | some ok => rw [hP ok hk] at hiP; exact h.disj j k o ok hjk ho hk i hi hiP
  constructor
  · intro j o ho
    rw [hobjs] at ho
    by_cases hjk : j = k
    · subst hjk; simp only [if_true, Option.some.injEq] at ho; subst ho; exact hnew
    · simp only [hjk, if_false] at ho
      exact (h.obj j o ho).agree (t.agree (h.obj j o ho) hjk (hdP j o hjk ho))
  · intro a b oa ob hab hoa hob i hi hi'
    rw [hobjs] at hoa hob
    by_cases hak : a = k
    · subst hak
      have hbk : b ≠ a := fun e => hab e.symm
      simp only [if_true, Option.some.injEq, hbk, if_false] at hoa hob
      subst hoa
      rcases hfresh i hi with hp | hp
      · exact hdP b ob hbk hob i hi' hp
      · exact absurd ((h.obj b ob hob).valid i hi') (Nat.not_lt.2 hp)
    · simp only [hak, if_false] at hoa
      by_cases hbk : b = k
      · subst hbk
        simp only [if_true, Option.some.injEq] at hob
        subst hob
        rcases hfresh i hi' with hp | hp
        · exact hdP a oa hak hoa i hi hp
        · exact absurd ((h.obj a oa hoa).valid i hi) (Nat.not_lt.2 hp)
      · simp only [hbk, if_false] at hob
        exact h.disj a b oa ob hab hoa hob i hi hi'

theorem inv_init : Inv World.init where
  obj k o ho := by cases ho
  disj k j o o' _ ho := by cases ho

/-- value updates (and constraint updates) preserve the invariant -/
theorem Inv.sameShape {w w' : World} (h : Inv w) (s : SameShape w w') : Inv w' where
  obj k o ho := by rw [s.objs] at ho; exact (h.obj k o ho).sameShape s
  disj k j o o' hkj ho ho' := by rw [s.objs] at ho ho'; exact h.disj k j o o' hkj ho ho'

/-! ## World updates -/

@[simp] theorem setObj_heap (w : World) (k : Nat) (o : Obj) : (w.setObj k o).heap = w.heap := rfl
@[simp] theorem setObj_lsn (w : World) (k : Nat) (o : Obj) : (w.setObj k o).lsn = w.lsn := rfl
@[simp] theorem setObj_lis (w : World) (k : Nat) (o : Obj) : (w.setObj k o).lis = w.lis := rfl
@[simp] theorem setObj_lnext (w : World) (k : Nat) (o : Obj) : (w.setObj k o).lnext = w.lnext := rfl
@[simp] theorem setObj_objs (w : World) (k : Nat) (o : Obj) :
    (w.setObj k o).objs = fun j => if j = k then some o else w.objs j := rfl
theorem setObj_setObj (w : World) (k : Nat) (o o' : Obj) : (w.setObj k o).setObj k o' = w.setObj k o' := by
  simp only [World.setObj]; congr; funext j; split <;> rfl

@[simp] theorem setLsn_heap (w : World) (i : ObjId) (l : List Nat) : (w.setLsn i l).heap = w.heap := rfl
@[simp] theorem setLsn_lis (w : World) (i : ObjId) (l : List Nat) : (w.setLsn i l).lis = w.lis := rfl
@[simp] theorem setLsn_lnext (w : World) (i : ObjId) (l : List Nat) : (w.setLsn i l).lnext = w.lnext := rfl
@[simp] theorem setLsn_objs (w : World) (i : ObjId) (l : List Nat) : (w.setLsn i l).objs = w.objs := rfl
@[simp] theorem setLsn_lsn (w : World) (i : ObjId) (l : List Nat) (j : ObjId) :
    (w.setLsn i l).lsn j = if j = i then l else w.lsn j := rfl

@[simp] theorem allocLis_heap (w : World) (x : Lis) : (w.allocLis x).1.heap = w.heap := rfl
@[simp] theorem allocLis_lsn (w : World) (x : Lis) : (w.allocLis x).1.lsn = w.lsn := rfl
@[simp] theorem allocLis_objs (w : World) (x : Lis) : (w.allocLis x).1.objs = w.objs := rfl
@[simp] theorem allocLis_lnext (w : World) (x : Lis) : (w.allocLis x).1.lnext = w.lnext + 1 := rfl
@[simp] theorem allocLis_snd (w : World) (x : Lis) : (w.allocLis x).2 = w.lnext := rfl
@[simp] theorem allocLis_lis (w : World) (x : Lis) (j : Nat) :
    (w.allocLis x).1.lis j = if j = w.lnext then x else w.lis j := rfl

@[simp] theorem allocPar_snd (w : World) (p : Par) (ls : List Nat) : (w.allocPar p ls).2 = w.heap.next := rfl
@[simp] theorem allocPar_next (w : World) (p : Par) (ls : List Nat) : (w.allocPar p ls).1.heap.next = w.heap.next + 1 := rfl
@[simp] theorem allocPar_get (w : World) (p : Par) (ls : List Nat) (j : ObjId) :
    (w.allocPar p ls).1.heap.get j = if j = w.heap.next then p else w.heap.get j := rfl
@[simp] theorem allocPar_lsn (w : World) (p : Par) (ls : List Nat) (j : ObjId) :
    (w.allocPar p ls).1.lsn j = if j = w.heap.next then ls else w.lsn j := rfl
@[simp] theorem allocPar_lis (w : World) (p : Par) (ls : List Nat) : (w.allocPar p ls).1.lis = w.lis := rfl
@[simp] theorem allocPar_lnext (w : World) (p : Par) (ls : List Nat) : (w.allocPar p ls).1.lnext = w.lnext := rfl
@[simp] theorem allocPar_objs (w : World) (p : Par) (ls : List Nat) : (w.allocPar p ls).1.objs = w.objs := rfl

@[simp] theorem putPar_get (w : World) (i : ObjId) (p : Par) (j : ObjId) :
    (w.putPar i p).heap.get j = if j = i then p else w.heap.get j := rfl
@[simp] theorem putPar_next (w : World) (i : ObjId) (p : Par) : (w.putPar i p).heap.next = w.heap.next := rfl
@[simp] theorem putPar_lsn (w : World) (i : ObjId) (p : Par) : (w.putPar i p).lsn = w.lsn := rfl
@[simp] theorem putPar_lis (w : World) (i : ObjId) (p : Par) : (w.putPar i p).lis = w.lis := rfl
@[simp] theorem putPar_lnext (w : World) (i : ObjId) (p : Par) : (w.putPar i p).lnext = w.lnext := rfl
@[simp] theorem putPar_objs (w : World) (i : ObjId) (p : Par) : (w.putPar i p).objs = w.objs := rfl

/-! ## Value updates -/

theorem setParameterValue_sameBut (w : World) (l : List ObjId) (n : String) (v : Rat) :
    SameBut w (setParameterValue w l n v).w := by
  simp only [setParameterValue]; split
  · exact SameBut.refl w
  · exact setValue_sameBut w _ v

theorem applySome_sameBut (l : List ObjId) : ∀ (src : List (String × Rat)) (w : World), SameBut w (applySome l w src).w
  | [], w => SameBut.refl w
  | (n, v) :: rest, w => by
    simp only [applySome]; split
    · exact applySome_sameBut l rest w
    · split
      · exact setValue_sameBut w _ v
      · exact (setValue_sameBut w _ v).trans (applySome_sameBut l rest _)

theorem setParametersValues_sameBut (w : World) (l : List ObjId) (src : List (String × Rat)) :
    SameBut w (setParametersValues w l src).w := by
  simp only [setParametersValues]; split
  · exact SameBut.refl w
  · exact applySome_sameBut l src w

theorem matchSome_sameBut (l : List ObjId) : ∀ (src : List (String × Rat)) (w : World), SameBut w (matchSome l w src).1.w
  | [], w => SameBut.refl w
  | (n, v) :: rest, w => by
    simp only [matchSome]; split
    · exact matchSome_sameBut l rest w
    · split
      · split
        · exact setValue_sameBut w _ v
        · exact (setValue_sameBut w _ v).trans (matchSome_sameBut l rest _)
      · exact matchSome_sameBut l rest w

theorem matchParametersValues_sameBut (w : World) (l : List ObjId) (src : List (String × Rat)) :
    SameBut w (matchParametersValues w l src).1.w := by
  simp only [matchParametersValues]; split
  · exact SameBut.refl w
  · exact matchSome_sameBut l src w

theorem applyAll_sameBut (src : List (String × Rat)) : ∀ (l : List ObjId) (w : World), SameBut w (applyAll src w l).w
  | [], w => SameBut.refl w
  | i :: rest, w => by
    simp only [applyAll]; split
    · exact SameBut.refl w
    · split
      · exact setValue_sameBut w _ _
      · exact (setValue_sameBut w _ _).trans (applyAll_sameBut src rest _)

theorem setAllParametersValues_sameBut (w : World) (l : List ObjId) (src : List (String × Rat)) :
    SameBut w (setAllParametersValues w l src).w := by
  simp only [setAllParametersValues]; split
  · exact SameBut.refl w
  · exact applyAll_sameBut src l w

/-- the four value-update routes of `AbstractParametrizable` change values only -/
theorem update_sameBut (w : World) (k : Nat) :
    (∀ n v, SameBut w (apSetParameterValue w k n v).w) ∧
    (∀ src, SameBut w (apSetParametersValues w k src).w) ∧
    (∀ src, SameBut w (apMatchParametersValues w k src).1.w) ∧
    (∀ src, SameBut w (apSetAllParametersValues w k src).w) := by
  refine ⟨fun n v => ?_, fun src => ?_, fun src => ?_, fun src => ?_⟩
  · simp only [apSetParameterValue]; split
    · exact SameBut.refl w
    · exact setParameterValue_sameBut w _ _ v
  · simp only [apSetParametersValues]; split
    · exact SameBut.refl w
    · exact setParametersValues_sameBut w _ src
  · simp only [apMatchParametersValues]; split
    · exact SameBut.refl w
    · exact matchParametersValues_sameBut w _ src
  · simp only [apSetAllParametersValues]; split
    · exact SameBut.refl w
    · exact setAllParametersValues_sameBut w _ src

/-! ## `new T(pre)` -/

theorem objInv_empty (w : World) (k : Nat) (pre : String) : ObjInv w k { params := [], indep := [], reg := [], pre := pre } where
  valid i hi := by cases hi
  nodup := List.nodup_nil
  plain i hi := by cases hi
  indepSub i hi := by cases hi
  indepNodup := List.nodup_nil
  indepIff i hi := by cases hi
  regKeys := List.nodup_nil
  regOk e he := by cases he
  lsnOk i hi := by cases hi
  once e he := by cases he
  acyclic p h := by
    cases h with
    | single h => obtain ⟨e, he, _⟩ := h; cases he
    | tail _ h => obtain ⟨e, he, _⟩ := h; cases he
  hasRoot h := absurd rfl h

/-- the former parameters of slot `k` -/
def oldParams (w : World) (k : Nat) : List ObjId :=
  match w.objs k with
  | some o => o.params
  | none => []

theorem oldParams_some {w : World} {k : Nat} (o : Obj) (h : w.objs k = some o) : oldParams w k = o.params := by
  simp [oldParams, h]
theorem oldParams_none {w : World} {k : Nat} (h : w.objs k = none) : oldParams w k = [] := by
  simp [oldParams, h]

theorem inv_newObj {w : World} (h : Inv w) (k : Nat) (pre : String) : Inv (newObj w k pre) := by
  refine h.update (k := k) (P := oldParams w k) rfl (fun o ho => oldParams_some o ho) oldParams_none
    ⟨Nat.le_refl _, Nat.le_refl _, fun i _ _ => ⟨rfl, rfl⟩, fun l _ _ => rfl⟩ (objInv_empty _ k pre) (fun i hi => by cases hi)

/-! ## `addParameter_` -/

theorem names_alloc_old {w : World} {p : Par} {ls : List Nat} {l : List ObjId} (v : ∀ i ∈ l, i < w.heap.next) :
    names (w.allocPar p ls).1.heap l = names w.heap l :=
  ParamList.names_congr (fun i hi => by
    have : i ≠ w.heap.next := Nat.ne_of_lt (v i hi)
    simp [nameOf, this])

/-- the object after `addParameter_`: the new parameter object `n` is a parameter and independent -/
abbrev addedObj (o : Obj) (n : ObjId) : Obj := { o with params := o.params ++ [n], indep := o.indep ++ [n] }

theorem addParam_eq {w : World} {k : Nat} {o : Obj} {p : Par} {x : String} (hi : ObjInv w k o)
    (ho : w.objs k = some o) (hok : p.ok = true) (hx : p.name = o.pre ++ x)
    (hnew : hasParameter w.heap o.params p.name = false) :
    addParam w k p = ({ w := (w.allocPar p []).1.setObj k (addedObj o w.heap.next) } : WR) := by
  have hn : p.name ∉ names w.heap o.params := (ParamList.hasParameter_false_iff _ _ _).1 hnew
  have hnames : names (w.allocPar p []).1.heap o.params = names w.heap o.params := names_alloc_old hi.valid
  have hfind : find? (w.allocPar p []).1.heap (o.params ++ [w.heap.next]) p.name = some w.heap.next := by
    unfold find?
    rw [List.find?_append]
    have h1 : List.find? (fun i => nameOf (w.allocPar p []).1.heap i == p.name) o.params = none := by
      have := (ParamList.find?_none (h := (w.allocPar p []).1.heap) (l := o.params) (n := p.name)).2 (by rw [hnames]; exact hn)
      exact this
    rw [h1]
    simp [nameOf]
  have hind : hasParameter (w.allocPar p []).1.heap o.indep p.name = false := by
    rw [ParamList.hasParameter_false_iff, names_alloc_old (fun i hi' => hi.valid i (hi.indepSub i hi'))]
    intro hm
    obtain ⟨i, hi1, hi2⟩ := List.mem_map.1 hm
    exact hn (List.mem_map.2 ⟨i, hi.indepSub i hi1, hi2⟩)
  have hnm : nameOf (w.allocPar p []).1.heap w.heap.next = p.name := by simp [nameOf]
  simp only [addParam, ho, hok, hnew, Bool.not_true, Bool.false_eq_true, if_false, hx, stripNs_append]
  rw [← hx]
  simp only [setObj_heap, allocPar_snd, hfind, shareParameter, hnm, hind, Bool.false_eq_true, if_false,
    setObj_setObj, addedObj, hnew]

theorem getElem?_append_of_some {α : Type} {l : List α} {n : Nat} {a : α} (h : l[n]? = some a) (t : List α) :
    (l ++ t)[n]? = some a := by
  rw [List.getElem?_append_left (List.getElem?_eq_some_iff.1 h).1]; exact h

theorem inv_addParam {w : World} (h : Inv w) {k : Nat} {o : Obj} {p : Par} {x : String}
    (ho : w.objs k = some o) (hx : p.name = o.pre ++ x) (px : Plain x) : Inv (addParam w k p).w := by
  have hi := h.obj k o ho
  by_cases hok : p.ok = true
  swap
  · have : addParam w k p = { w := w, err := some .constraint } := by simp [addParam, ho, hok]
    rw [this]; exact h
  by_cases hnew : hasParameter w.heap o.params p.name = true
  · have : addParam w k p = { w := w, err := some .bpp } := by simp [addParam, ho, hok, hnew]
    rw [this]; exact h
  have hnew : hasParameter w.heap o.params p.name = false := by simpa using hnew
  have hn : p.name ∉ names w.heap o.params := (ParamList.hasParameter_false_iff _ _ _).1 hnew
  rw [addParam_eq hi ho hok hx hnew]
  show Inv ((w.allocPar p []).1.setObj k (addedObj o w.heap.next))
  set n := w.heap.next with hnd
  set w' := (w.allocPar p []).1.setObj k (addedObj o n) with hw'
  have hname : ∀ i, i < n → nameOf w'.heap i = nameOf w.heap i := by
    intro i hlt
    have : i ≠ w.heap.next := Nat.ne_of_lt hlt
    simp [hw', nameOf, this]
  have hnameN : nameOf w'.heap n = p.name := by simp [hw', nameOf, hnd]
  have hlsn : ∀ i, i < n → w'.lsn i = w.lsn i := by
    intro i hlt
    have : i ≠ w.heap.next := Nat.ne_of_lt hlt
    simp [hw', this]
  have hlsnN : w'.lsn n = [] := by simp [hw', hnd]
  have hlis : w'.lis = w.lis := rfl
  have hnotin : n ∉ o.params := fun m => Nat.lt_irrefl _ (hi.valid n m)
  -- no registered listener is named after the new parameter
  have hsrcne : ∀ e ∈ o.reg, o.pre ++ (w.lis e.2).src ≠ p.name := by
    intro e he heq
    obtain ⟨s, hs, hsn, _⟩ := (hi.regOk e he).src
    exact hn (List.mem_map.2 ⟨s, hs, hsn.trans heq⟩)
  refine h.update (k := k) (P := o.params) rfl (fun o' ho' => by rw [ho] at ho'; cases ho'; rfl)
    (fun hnone => by rw [ho] at hnone; cases hnone) ?_ ?_ ?_
  · refine ⟨by simp [hw'], Nat.le_refl _, fun i hlt _ => ⟨hname i hlt, hlsn i hlt⟩, fun l _ _ => rfl⟩
  · -- the object with one more parameter
    show ObjInv w' k { params := o.params ++ [n], indep := o.indep ++ [n], reg := o.reg, pre := o.pre }
    refine
      { valid := ?_, nodup := ?_, plain := ?_, indepSub := ?_, indepNodup := ?_, indepIff := ?_, regKeys := hi.regKeys,
        regOk := ?_, lsnOk := ?_, once := fun e he e' he' => hi.once e he e' he', acyclic := ?_,
        hasRoot := fun _ hnil => by simp at hnil }
    · intro i hm
      rcases List.mem_append.1 hm with hm | hm
      · exact Nat.lt_succ_of_lt (hi.valid i hm)
      · simp only [List.mem_singleton] at hm; subst hm; show n < w.heap.next + 1; omega
    · show (names w'.heap (o.params ++ [n])).Nodup
      rw [ParamList.names_append, ParamList.names_congr (fun i hm => hname i (hi.valid i hm))]
      simp only [names, List.map_cons, List.map_nil]
      rw [hnameN]
      exact List.Nodup.append hi.nodup (List.nodup_singleton _) (by
        intro a ha hb; simp only [List.mem_singleton] at hb; subst hb; exact hn ha)
    · intro i hm
      rcases List.mem_append.1 hm with hm | hm
      · rw [hname i (hi.valid i hm)]; exact hi.plain i hm
      · simp only [List.mem_singleton] at hm; subst hm; exact ⟨x, by rw [hnameN]; exact hx, px⟩
    · intro i hm
      rcases List.mem_append.1 hm with hm | hm
      · exact List.mem_append_left _ (hi.indepSub i hm)
      · exact List.mem_append_right _ hm
    · exact List.Nodup.append hi.indepNodup (List.nodup_singleton _) (by
        intro a ha hb; simp only [List.mem_singleton] at hb; subst hb; exact hnotin (hi.indepSub _ ha))
    · intro i hm
      have key : ∀ e ∈ o.reg, ∀ j, (o.params ++ [n])[(w.lis e.2).alias]? = some j ↔ o.params[(w.lis e.2).alias]? = some j := by
        intro e he j
        obtain ⟨t, y, ht, _⟩ := (hi.regOk e he).tgt
        rw [getElem?_append_of_some ht, ht]
      rcases List.mem_append.1 hm with hm | hm
      · have hne : i ≠ n := fun e => hnotin (e ▸ hm)
        constructor
        · intro hin
          have : i ∈ o.indep := by
            rcases List.mem_append.1 hin with a | a
            · exact a
            · simp only [List.mem_singleton] at a; exact absurd a hne
          rintro ⟨e, he, ht⟩
          exact (hi.indepIff i hm).1 this ⟨e, he, (key e he i).1 ht⟩
        · intro hno
          exact List.mem_append_left _ ((hi.indepIff i hm).2 (fun ⟨e, he, ht⟩ => hno ⟨e, he, (key e he i).2 ht⟩))
      · simp only [List.mem_singleton] at hm; subst hm
        constructor
        · rintro _ ⟨e, he, ht⟩
          exact hnotin (List.mem_of_getElem? ((key e he _).1 ht))
        · intro _; exact List.mem_append_right _ (List.mem_singleton.2 rfl)
    · intro e he
      obtain ⟨r1, r2, r3, ⟨s, hs, hsn, hsl⟩, ⟨t, y, ht, htn, hnm, hid⟩⟩ := hi.regOk e he
      refine ⟨r1, r2, r3, ⟨s, List.mem_append_left _ hs, by rw [hname s (hi.valid s hs)]; exact hsn,
        by rw [hlsn s (hi.valid s hs)]; exact hsl⟩,
        ⟨t, y, getElem?_append_of_some ht _, ?_, hnm, hid⟩⟩
      rw [hname t (hi.valid t (List.mem_of_getElem? ht))]; exact htn
    · intro i hm l hl
      rcases List.mem_append.1 hm with hm | hm
      · rw [hlsn i (hi.valid i hm)] at hl
        rw [hname i (hi.valid i hm)]
        exact hi.lsnOk i hm l hl
      · simp only [List.mem_singleton] at hm; subst hm; rw [hlsnN] at hl; cases hl
    · -- following is unchanged: no listener is named after the new parameter
      have hsub : ∀ c q, Follows w' { params := o.params ++ [n], indep := o.indep ++ [n], reg := o.reg, pre := o.pre } c q →
          Follows w o c q := by
        rintro c q ⟨e, he, hc, s, hs, hsn⟩
        refine ⟨e, he, hc, s, ?_, ?_⟩
        · by_cases hq : q < o.params.length
          · rw [List.getElem?_append_left hq] at hs; exact hs
          · exfalso
            have hq' : o.params.length ≤ q := Nat.le_of_not_lt hq
            rw [List.getElem?_append_right hq'] at hs
            have : s = n := by
              cases hqq : q - o.params.length with
              | zero => rw [hqq] at hs; simpa using hs.symm
              | succ m => rw [hqq] at hs; simp at hs
            subst this
            rw [hnameN] at hsn
            exact hsrcne e he hsn.symm
        · have hsm : s ∈ o.params ∨ s = n := by
            have := List.mem_of_getElem? hs
            rcases List.mem_append.1 this with a | a
            · exact Or.inl a
            · exact Or.inr (List.mem_singleton.1 a)
          rcases hsm with a | a
          · rw [← hname s (hi.valid s a)]; exact hsn
          · subst a; rw [hnameN] at hsn; exact absurd hsn.symm (hsrcne e he)
      intro q hq
      exact hi.acyclic q (Relation.TransGen.mono hsub q q hq)
  · intro i hm
    have hm' : i ∈ o.params ++ [n] := hm
    rcases List.mem_append.1 hm' with hm | hm
    · exact Or.inl hm
    · simp only [List.mem_singleton] at hm; exact Or.inr (by rw [hm])

/-! ## Lookups under the invariant -/

theorem find?_iff {h : Store} {l : List ObjId} (nd : (names h l).Nodup) {n : String} {i : ObjId} :
    find? h l n = some i ↔ i ∈ l ∧ nameOf h i = n :=
  ⟨ParamList.find?_some, fun ⟨hi, hn⟩ => hn ▸ ParamList.find?_self nd hi⟩

theorem ObjInv.idsNodup {w : World} {k : Nat} {o : Obj} (h : ObjInv w k o) : o.params.Nodup :=
  List.Nodup.of_map _ h.nodup

theorem ObjInv.name_inj {w : World} {k : Nat} {o : Obj} (h : ObjInv w k o) {i j : ObjId} (hi : i ∈ o.params)
    (hj : j ∈ o.params) (e : nameOf w.heap i = nameOf w.heap j) : i = j :=
  List.inj_on_of_nodup_map h.nodup hi hj e

theorem ObjInv.pos_inj {w : World} {k : Nat} {o : Obj} (h : ObjInv w k o) {a c : Nat} {t : ObjId}
    (ha : o.params[a]? = some t) (hc : o.params[c]? = some t) : a = c :=
  (List.getElem?_inj (List.getElem?_eq_some_iff.1 ha).1 h.idsNodup).1 (ha.trans hc.symm)

/-- relation lemma: one more edge `x → y` closes a cycle only through `y →* x` -/
theorem transGen_insert {α : Type} {R : α → α → Prop} {x y : α} {a b : α}
    (h : Relation.TransGen (fun c d => R c d ∨ (c = x ∧ d = y)) a b) :
    Relation.TransGen R a b ∨ (Relation.ReflTransGen R a x ∧ Relation.ReflTransGen R y b) := by
  induction h with
  | single h =>
    rcases h with h | ⟨rfl, rfl⟩
    · exact Or.inl (Relation.TransGen.single h)
    · exact Or.inr ⟨Relation.ReflTransGen.refl, Relation.ReflTransGen.refl⟩
  | tail _ h ih =>
    rcases h with h | ⟨rfl, rfl⟩
    · rcases ih with ih | ⟨i1, i2⟩
      · exact Or.inl (Relation.TransGen.tail ih h)
      · exact Or.inr ⟨i1, Relation.ReflTransGen.tail i2 h⟩
    · rcases ih with ih | ⟨i1, _⟩
      · exact Or.inr ⟨ih.to_reflTransGen, Relation.ReflTransGen.refl⟩
      · exact Or.inr ⟨i1, Relation.ReflTransGen.refl⟩

/-- the registered listener that writes to position `c`, if any -/
theorem getFrom_spec {w : World} {k : Nat} {o : Obj} (h : ObjInv w k o) {c : Nat} {t : ObjId} {x : String}
    (hc : o.params[c]? = some t) (hx : nameOf w.heap t = o.pre ++ x) :
    (∀ e ∈ o.reg, (w.lis e.2).alias = c → getFrom w o (o.pre ++ x) = (w.lis e.2).src) ∧
    ((∀ e ∈ o.reg, (w.lis e.2).alias ≠ c) → getFrom w o (o.pre ++ x) = "") := by
  have hmatch : ∀ e ∈ o.reg, ((w.lis e.2).name == o.pre ++ x) = true ↔ (w.lis e.2).alias = c := by
    intro e he
    obtain ⟨t', y, ht', htn, hnm, _⟩ := (h.regOk e he).tgt
    rw [beq_iff_eq, hnm]
    constructor
    · intro heq
      have : t' = t := h.name_inj (List.mem_of_getElem? ht') (List.mem_of_getElem? hc) (by rw [htn, hx, heq])
      subst this
      exact h.pos_inj ht' hc
    · intro ha
      rw [ha, hc] at ht'
      cases ht'
      rw [← htn, hx]
  constructor
  · intro e he ha
    simp only [getFrom]
    cases hf : o.reg.find? (fun e => (w.lis e.2).name == o.pre ++ x) with
    | none =>
      have := List.find?_eq_none.1 hf e he
      exact absurd ((hmatch e he).2 ha) this
    | some e' =>
      have he' := List.mem_of_find?_eq_some hf
      have hm := List.find?_some (p := fun (e : String × Nat) => (w.lis e.2).name == o.pre ++ x) hf
      have := h.once e he e' he' (by rw [ha, (hmatch e' he').1 hm])
      rw [this]
  · intro hno
    simp only [getFrom]
    cases hf : o.reg.find? (fun e => (w.lis e.2).name == o.pre ++ x) with
    | none => rfl
    | some e' =>
      have he' := List.mem_of_find?_eq_some hf
      exact absurd ((hmatch e' he').1 (List.find?_some (p := fun (e : String × Nat) => (w.lis e.2).name == o.pre ++ x) hf)) (hno e' he')

/-- the position of a parameter object -/
theorem ObjInv.exists_pos {w : World} {k : Nat} {o : Obj} (_h : ObjInv w k o) {i : ObjId} (hi : i ∈ o.params) :
    ∃ c : Nat, o.params[c]? = some i := by
  obtain ⟨c, hc, e⟩ := List.mem_iff_getElem.1 hi
  exact ⟨c, by rw [List.getElem?_eq_getElem hc, e]⟩

/-- **the repaired cycle test is exact in the refusing direction**: if the loop over `getFrom`
ends without meeting `p2`, then no parameter named `p2` is above `p1`'s position (itself
included), and the chain ends on a parameter that follows nobody and is not `p2` -/
theorem followsLoop_false {w : World} {k : Nat} {o : Obj} (h : ObjInv w k o) (p2 : String) :
    ∀ (f : Nat) (x : String) (c : Nat) (t : ObjId), o.params[c]? = some t → nameOf w.heap t = o.pre ++ x → Plain x →
      followsLoop w o p2 f x = some false →
      (∀ q tq, Relation.ReflTransGen (Follows w o) c q → o.params[q]? = some tq → nameOf w.heap tq ≠ o.pre ++ p2) ∧
      (∃ r ∈ o.params, nameOf w.heap r ≠ o.pre ++ p2 ∧ ∀ e ∈ o.reg, o.params[(w.lis e.2).alias]? ≠ some r)
  | 0, _, _, _, _, _, _, hf => by simp [followsLoop] at hf
  | f + 1, x, c, t, hc, hx, px, hf => by
    simp only [followsLoop] at hf
    have hne : x ≠ "" := px.1
    simp only [hne, if_false] at hf
    by_cases hxp : x = p2
    · simp [hxp] at hf
    simp only [hxp, if_false] at hf
    obtain ⟨hyes, hno⟩ := getFrom_spec h hc hx
    by_cases hpar : ∃ e ∈ o.reg, (w.lis e.2).alias = c
    · obtain ⟨e, he, ha⟩ := hpar
      rw [hyes e he ha] at hf
      obtain ⟨s, hs, hsn, _⟩ := (h.regOk e he).src
      obtain ⟨ps, hps⟩ := h.exists_pos hs
      obtain ⟨y, hy, py⟩ := h.plain s hs
      have hsrc : (w.lis e.2).src = y := append_left_cancel' (hsn.symm.trans hy)
      rw [hsrc] at hf
      obtain ⟨ih1, ih2⟩ := followsLoop_false h p2 f y ps s hps hy py hf
      refine ⟨?_, ih2⟩
      intro q tq hq htq
      rcases Relation.ReflTransGen.cases_head hq with rfl | ⟨m, hm, hrest⟩
      · rw [hc] at htq; cases htq
        rw [hx]; intro heq; exact hxp (append_left_cancel' heq)
      · -- the parent of `c` is unique
        obtain ⟨e', he', ha', s', hs', hsn'⟩ := hm
        have := h.once e he e' he' (by rw [ha, ha'])
        subst this
        have : s' = s := h.name_inj (List.mem_of_getElem? hs') hs (by rw [hsn', hsn])
        subst this
        have : m = ps := h.pos_inj hs' hps
        subst this
        exact ih1 q tq hrest htq
    · have hno' : ∀ e ∈ o.reg, (w.lis e.2).alias ≠ c := fun e he ha => hpar ⟨e, he, ha⟩
      refine ⟨?_, ⟨t, List.mem_of_getElem? hc, ?_, ?_⟩⟩
      · intro q tq hq htq
        rcases Relation.ReflTransGen.cases_head hq with rfl | ⟨m, hm, _⟩
        · rw [hc] at htq; cases htq
          rw [hx]; intro heq; exact hxp (append_left_cancel' heq)
        · obtain ⟨e', he', ha', _⟩ := hm
          exact absurd ha' (hno' e' he')
      · rw [hx]; intro heq; exact hxp (append_left_cancel' heq)
      · intro e he ht
        exact hno' e he (h.pos_inj ht hc)

/-! ## `aliasParameters(p1, p2)` -/

theorem setObj_self {w : World} {k : Nat} {o : Obj} (h : w.objs k = some o) : w.setObj k o = w := by
  cases w with
  | mk heap lsn lis lnext objs =>
    simp only [World.setObj, World.mk.injEq, true_and]
    funext j
    split
    · rename_i e; subst e; exact h.symm
    · rfl

theorem aliasConstraints_cases (w : World) (i1 i2 : ObjId) :
    aliasConstraints w i1 i2 = { w := w, err := some .constraint } ∨ aliasConstraints w i1 i2 = aliasConstraintsL w i1 i2 := by
  simp only [aliasConstraints]; split
  · exact Or.inl rfl
  · exact Or.inr rfl

theorem aliasConstraintsL_sameShape (w : World) (i1 i2 : ObjId) : SameShape w (aliasConstraintsL w i1 i2).w := by
  have put : ∀ (w : World) (i : ObjId) (q : Par) (c : Con), parSetConstraint (w.heap.get i) c = .ok q →
      SameShape w (w.putPar i q) := by
    intro w i q c hq
    refine ⟨rfl, rfl, rfl, rfl, rfl, fun j => ?_⟩
    simp only [nameOf, putPar_get]
    split
    · rename_i e; subst e
      simp only [parSetConstraint] at hq
      split at hq
      · cases hq
      · cases hq; rfl
    · rfl
  simp only [aliasConstraintsL]
  split
  · exact SameShape.refl w
  · split
    · exact SameShape.refl w
    · rename_i q hq; exact put w i1 q _ hq
  · exact SameShape.refl w
  · split
    · split
      · exact SameShape.refl w
      · rename_i q2 hq2
        split
        · exact put w i2 q2 _ hq2
        · rename_i q1 hq1
          exact (put w i2 q2 _ hq2).trans (put _ i1 q1 _ hq1)
    · exact SameShape.refl w


theorem aliasConstraints_sameShape (w : World) (i1 i2 : ObjId) : SameShape w (aliasConstraints w i1 i2).w := by
  rcases aliasConstraints_cases w i1 i2 with h | h <;> rw [h]
  · exact SameShape.refl w
  · exact aliasConstraintsL_sameShape w i1 i2

/-- a registered link `p2 follows p1`: where it is attached and what it writes to -/
theorem reg_entry_of_id {w : World} {k : Nat} {o : Obj} (h : ObjInv w k o) {p1 p2 : String} {i2 : ObjId} {l0 : Nat}
    (hm2 : i2 ∈ o.params) (hn2 : nameOf w.heap i2 = o.pre ++ p2) (he : (aliasId p1 p2, l0) ∈ o.reg) :
    (w.lis l0).src = p1 ∧ o.params[(w.lis l0).alias]? = some i2 ∧ (w.lis l0).name = o.pre ++ p2 := by
  obtain ⟨t, y, ht, htn, hnm, hid⟩ := (h.regOk _ he).tgt
  have py : Plain y := by
    obtain ⟨x, hx, px⟩ := h.plain t (List.mem_of_getElem? ht)
    have : x = y := append_left_cancel' (hx.symm.trans htn)
    exact this ▸ px
  have pp2 : Plain p2 := by
    obtain ⟨x, hx, px⟩ := h.plain i2 hm2
    have : x = p2 := append_left_cancel' (hx.symm.trans hn2)
    exact this ▸ px
  obtain ⟨e1, e2⟩ := aliasId_inj pp2 py hid
  subst e2
  have : t = i2 := h.name_inj (List.mem_of_getElem? ht) hm2 (htn.trans hn2.symm)
  subst this
  exact ⟨e1.symm, ht, hnm⟩

/-- the id of a new link to an independent parameter is not in use -/
theorem cycleTest_eq {w : World} {k : Nat} {o : Obj} (h : ObjInv w k o) {p1 p2 : String} {i2 : ObjId}
    (h2 : find? w.heap o.params (o.pre ++ p2) = some i2) (hy : i2 ∈ o.indep) :
    cycleTest true w o p1 p2 = followsLoop w o p2 (o.reg.length + 2) p1 := by
  obtain ⟨hm2, hn2⟩ := ParamList.find?_some h2
  have : mapFind? (aliasId p1 p2) o.reg = none := by
    cases hf : mapFind? (aliasId p1 p2) o.reg with
    | none => rfl
    | some l0 =>
      have he : (aliasId p1 p2, l0) ∈ o.reg := (mapFind?_eq_some h.regKeys).1 hf
      obtain ⟨_, htgt, _⟩ := reg_entry_of_id h hm2 hn2 he
      exact absurd ⟨_, he, htgt⟩ ((h.indepIff i2 hm2).1 hy)
  simp [cycleTest, this]

theorem aliasPair_unfold {w : World} {k : Nat} {o : Obj} (h : ObjInv w k o) (ho : w.objs k = some o) (p1 p2 : String) :
    aliasPair w k p1 p2 =
      match find? w.heap o.params (o.pre ++ p1), find? w.heap o.params (o.pre ++ p2) with
      | none, _ => { w := w, err := some .notfound }
      | some _, none => { w := w, err := some .notfound }
      | some i1, some i2 =>
        if !hasParameter w.heap o.indep (o.pre ++ p2) then { w := w, err := some .bpp }
        else
          match cycleTest true w o p1 p2 with
          | none => { w := w, err := some .hang }
          | some true => { w := w, err := some .bpp }
          | some false =>
            let rc := aliasConstraints w i1 i2
            match rc.err with
            | some e => { w := rc.w, err := some e }
            | none =>
              let w1 := rc.w
              match o.params.findIdx? (fun i => nameOf w1.heap i == o.pre ++ p2) with
              | none => { w := w1, err := some .notfound }
              | some pos =>
                let nm := match o.params[pos]? with
                  | some t => nameOf w1.heap t
                  | none => ""
                let a := w1.allocLis ⟨aliasId p1 p2, pos, k, nm, p1⟩
                let w2 := a.1
                let o' : Obj := { o with reg := mapInsert (aliasId p1 p2) a.2 o.reg }
                let w3 := w2.setLsn i1 (w2.lsn i1 ++ [a.2])
                match ParamList.deleteParameter w3.heap o'.indep (o.pre ++ p2) with
                | .error _ => { w := w3.setObj k o', err := some .notfound }
                | .ok ind => { w := w3.setObj k { o' with indep := ind } } := by
  have hdead : (o.params.length > 0 && o.indep.length == 0) = false := by
    by_cases hp : o.params = []
    · simp [hp]
    · have := h.hasRoot hp
      have : o.indep.length ≠ 0 := fun e => this (List.eq_nil_of_length_eq_zero e)
      simp [this]
  simp only [aliasPair, aliasPairG, ho, hdead, Bool.false_eq_true, if_false, setObj_self ho]
  rfl

theorem findIdx?_of_find? {h : Store} : ∀ {l : List ObjId} {n : String} {i : ObjId}, find? h l n = some i →
    ∃ pos : Nat, l.findIdx? (fun j => nameOf h j == n) = some pos ∧ l[pos]? = some i
  | [], _, _, e => by simp [find?] at e
  | a :: t, n, i, e => by
    unfold find? at e
    rw [List.find?_cons] at e
    by_cases hn : (nameOf h a == n) = true
    · rw [hn] at e; cases e
      exact ⟨0, by simp [List.findIdx?_cons, hn], rfl⟩
    · have hn' : (nameOf h a == n) = false := by simpa using hn
      rw [hn'] at e
      obtain ⟨pos, h1, h2⟩ := findIdx?_of_find? (l := t) (by unfold find?; exact e)
      exact ⟨pos + 1, by simp [List.findIdx?_cons, hn', h1], by simpa using h2⟩

theorem deleteParameter_erase {h : Store} : ∀ {l : List ObjId}, (names h l).Nodup → ∀ {i : ObjId}, i ∈ l →
    ParamList.deleteParameter h l (nameOf h i) = .ok (l.erase i)
  | [], _, _, hi => by cases hi
  | a :: t, nd, i, hi => by
    simp only [names, List.map_cons, List.nodup_cons, List.mem_map, not_exists, not_and] at nd
    by_cases hai : a = i
    · subst hai
      simp [ParamList.deleteParameter, List.findIdx?_cons]
    · have hit : i ∈ t := by
        rcases List.mem_cons.1 hi with e | e
        · exact absurd e.symm hai
        · exact e
      have hne : (nameOf h a == nameOf h i) = false := by
        rw [beq_eq_false_iff_ne]; intro c; exact nd.1 i hit c.symm
      have ih := deleteParameter_erase (l := t) nd.2 hit
      simp only [ParamList.deleteParameter] at ih ⊢
      rw [List.findIdx?_cons, hne]
      cases hf : List.findIdx? (fun j => nameOf h j == nameOf h i) t with
      | none => rw [hf] at ih; cases ih
      | some m =>
        rw [hf] at ih
        have : t.eraseIdx m = t.erase i := by
          simp only [Except.ok.injEq] at ih; exact ih
        simp only [Option.map_some, Bool.false_eq_true, if_false, List.eraseIdx_cons_succ]
        rw [this, List.erase_cons_tail (by simpa using hai)]

theorem ObjInv.indepNames {w : World} {k : Nat} {o : Obj} (h : ObjInv w k o) : (names w.heap o.indep).Nodup :=
  List.Nodup.map_on (fun x hx y hy e => h.name_inj (h.indepSub x hx) (h.indepSub y hy) e) h.indepNodup

theorem hasParameter_indep {w : World} {k : Nat} {o : Obj} (h : ObjInv w k o) {n : String} {i : ObjId}
    (hf : find? w.heap o.params n = some i) : hasParameter w.heap o.indep n = true ↔ i ∈ o.indep := by
  rw [ParamList.hasParameter_iff]
  obtain ⟨hi, hn⟩ := ParamList.find?_some hf
  constructor
  · intro hm
    obtain ⟨j, hj, hjn⟩ := List.mem_map.1 hm
    have : j = i := h.name_inj (h.indepSub j hj) hi (hjn.trans hn.symm)
    exact this ▸ hj
  · intro hm
    exact List.mem_map.2 ⟨i, hm, hn⟩

/-- the object after a successful `aliasParameters(p1, p2)`; `n` is the new listener object -/
abbrev aliasedObj (o : Obj) (p1 p2 : String) (i2 : ObjId) (n : Nat) : Obj :=
  { params := o.params, indep := o.indep.erase i2, reg := mapInsert (aliasId p1 p2) n o.reg, pre := o.pre }

/-- the world a successful `aliasParameters(p1, p2)` ends in (`w1`: after the constraint part) -/
def aliased (w1 : World) (k : Nat) (o : Obj) (p1 p2 : String) (i1 i2 : ObjId) (pos2 : Nat) : World :=
  (((w1.allocLis ⟨aliasId p1 p2, pos2, k, o.pre ++ p2, p1⟩).1.setLsn i1 (w1.lsn i1 ++ [w1.lnext])).setObj k
    (aliasedObj o p1 p2 i2 w1.lnext))

/-- the outcomes of `aliasParameters(p1, p2)` on an object satisfying the invariant -/
theorem aliasPair_spec {w : World} {k : Nat} {o : Obj} (h : ObjInv w k o) (ho : w.objs k = some o) (p1 p2 : String) :
    let r := aliasPair w k p1 p2
    -- refusals leave the world as it is
    ((find? w.heap o.params (o.pre ++ p1) = none ∨ find? w.heap o.params (o.pre ++ p2) = none) →
        r.err = some .notfound ∧ r.w = w) ∧
    (∀ i1 i2, find? w.heap o.params (o.pre ++ p1) = some i1 → find? w.heap o.params (o.pre ++ p2) = some i2 →
      (i2 ∉ o.indep → r.err = some .bpp ∧ r.w = w) ∧
      (i2 ∈ o.indep → followsLoop w o p2 (o.reg.length + 2) p1 = none → r.err = some .hang ∧ r.w = w) ∧
      (i2 ∈ o.indep → followsLoop w o p2 (o.reg.length + 2) p1 = some true → r.err = some .bpp ∧ r.w = w) ∧
      (i2 ∈ o.indep → followsLoop w o p2 (o.reg.length + 2) p1 = some false →
        (∀ e, (aliasConstraints w i1 i2).err = some e → r.err = some e ∧ r.w = (aliasConstraints w i1 i2).w) ∧
        ((aliasConstraints w i1 i2).err = none → ∃ pos2, o.params[pos2]? = some i2 ∧
          r.err = none ∧ r.w = aliased (aliasConstraints w i1 i2).w k o p1 p2 i1 i2 pos2))) := by
  intro r
  have hr : r = aliasPair w k p1 p2 := rfl
  rw [aliasPair_unfold h ho] at hr
  refine ⟨?_, ?_⟩
  · rintro (h1 | h2)
    · rw [h1] at hr; rw [hr]; exact ⟨rfl, rfl⟩
    · rw [h2] at hr
      cases h1 : find? w.heap o.params (o.pre ++ p1) <;> rw [h1] at hr <;> rw [hr] <;> exact ⟨rfl, rfl⟩
  · intro i1 i2 h1 h2
    rw [h1, h2] at hr
    simp only at hr
    have hind := hasParameter_indep h h2
    refine ⟨?_, ?_, ?_, ?_⟩
    · intro hn
      have : hasParameter w.heap o.indep (o.pre ++ p2) = false := by
        cases hb : hasParameter w.heap o.indep (o.pre ++ p2)
        · rfl
        · exact absurd (hind.1 hb) hn
      rw [this] at hr; simp only [Bool.not_false, if_true] at hr
      rw [hr]; exact ⟨rfl, rfl⟩
    all_goals
      intro hy hf
      have hb : hasParameter w.heap o.indep (o.pre ++ p2) = true := hind.2 hy
      rw [hb, cycleTest_eq h h2 hy, hf] at hr
      simp only [Bool.not_true, Bool.false_eq_true, if_false] at hr
    · rw [hr]; exact ⟨rfl, rfl⟩
    · rw [hr]; exact ⟨rfl, rfl⟩
    · have hss := aliasConstraints_sameShape w i1 i2
      refine ⟨?_, ?_⟩
      · intro e he
        rw [he] at hr; rw [hr]; exact ⟨rfl, rfl⟩
      · intro hnone
        rw [hnone] at hr
        simp only at hr
        have h2' : find? (aliasConstraints w i1 i2).w.heap o.params (o.pre ++ p2) = some i2 := by
          rw [ParamList.find?_congr (fun i _ => hss.name i)]; exact h2
        obtain ⟨pos2, hp1, hp2⟩ := findIdx?_of_find? h2'
        rw [hp1] at hr
        simp only [hp2] at hr
        have hnm : nameOf (aliasConstraints w i1 i2).w.heap i2 = o.pre ++ p2 := by
          rw [hss.name]; exact (ParamList.find?_some h2).2
        rw [hnm] at hr
        have hdel : ParamList.deleteParameter (aliasConstraints w i1 i2).w.heap o.indep (o.pre ++ p2) = .ok (o.indep.erase i2) := by
          rw [← hnm]
          refine deleteParameter_erase ?_ hy
          rw [ParamList.names_congr (fun i _ => hss.name i)]
          exact h.indepNames
        have hdel' : ParamList.deleteParameter
            (((aliasConstraints w i1 i2).w.allocLis ⟨aliasId p1 p2, pos2, k, o.pre ++ p2, p1⟩).1.setLsn i1
              (((aliasConstraints w i1 i2).w.allocLis ⟨aliasId p1 p2, pos2, k, o.pre ++ p2, p1⟩).1.lsn i1 ++
                [((aliasConstraints w i1 i2).w.allocLis ⟨aliasId p1 p2, pos2, k, o.pre ++ p2, p1⟩).2])).heap
            o.indep (o.pre ++ p2) = .ok (o.indep.erase i2) := hdel
        rw [hdel'] at hr
        exact ⟨pos2, hp2, by rw [hr], by rw [hr]; rfl⟩

theorem objInv_aliased {w : World} {k : Nat} {o : Obj} (h : ObjInv w k o) {p1 p2 : String} {i1 i2 : ObjId}
    {pos1 pos2 : Nat} (hi1 : o.params[pos1]? = some i1) (hi2 : o.params[pos2]? = some i2)
    (hn1 : nameOf w.heap i1 = o.pre ++ p1) (hn2 : nameOf w.heap i2 = o.pre ++ p2)
    (hind : i2 ∈ o.indep)
    (hnoanc : ∀ q tq, Relation.ReflTransGen (Follows w o) pos1 q → o.params[q]? = some tq → nameOf w.heap tq ≠ o.pre ++ p2)
    (hroot : ∃ r ∈ o.params, nameOf w.heap r ≠ o.pre ++ p2 ∧ ∀ e ∈ o.reg, o.params[(w.lis e.2).alias]? ≠ some r) :
    ObjInv (aliased w k o p1 p2 i1 i2 pos2) k (aliasedObj o p1 p2 i2 w.lnext) := by
  have hm1 : i1 ∈ o.params := List.mem_of_getElem? hi1
  have hm2 : i2 ∈ o.params := List.mem_of_getElem? hi2
  have pp2 : Plain p2 := by
    obtain ⟨x, hx, px⟩ := h.plain i2 hm2
    have : x = p2 := append_left_cancel' (hx.symm.trans hn2)
    exact this ▸ px
  -- `i2` is nobody's target
  have hnot : ∀ e ∈ o.reg, o.params[(w.lis e.2).alias]? ≠ some i2 := fun e he ht =>
    (h.indepIff i2 hm2).1 hind ⟨e, he, ht⟩
  -- the id is new
  have hfresh : aliasId p1 p2 ∉ o.reg.map Prod.fst := by
    intro hm
    obtain ⟨e, he, hk⟩ := List.mem_map.1 hm
    obtain ⟨t, y, ht, htn, _, hid⟩ := (h.regOk e he).tgt
    obtain ⟨py, _⟩ : ∃ _ : Plain y, True := by
      obtain ⟨x, hx, px⟩ := h.plain t (List.mem_of_getElem? ht)
      have : x = y := append_left_cancel' (hx.symm.trans htn)
      exact ⟨this ▸ px, trivial⟩
    have := (aliasId_inj py pp2 (hid.symm.trans hk)).2
    subst this
    have : t = i2 := h.name_inj (List.mem_of_getElem? ht) hm2 (htn.trans hn2.symm)
    subst this
    exact hnot e he ht
  set n := w.lnext with hn
  set W := aliased w k o p1 p2 i1 i2 pos2 with hW
  have hheap : W.heap = w.heap := rfl
  have hlisOld : ∀ l, l < n → W.lis l = w.lis l := by
    intro l hl
    have : l ≠ w.lnext := Nat.ne_of_lt hl
    simp [hW, aliased, this]
  have hlisNew : W.lis n = ⟨aliasId p1 p2, pos2, k, o.pre ++ p2, p1⟩ := by simp [hW, aliased, hn]
  have hlsn : ∀ j, W.lsn j = if j = i1 then w.lsn i1 ++ [n] else w.lsn j := by
    intro j; simp [hW, aliased, hn]
  have hregOld : ∀ e ∈ o.reg, W.lis e.2 = w.lis e.2 := fun e he => hlisOld e.2 (h.regOk e he).lt
  have hmem : ∀ e, e ∈ mapInsert (aliasId p1 p2) n o.reg ↔ e = (aliasId p1 p2, n) ∨ e ∈ o.reg := mem_mapInsert hfresh
  -- following: the old relation plus pos2 -> pos1
  have hfol : ∀ c q, Follows W (aliasedObj o p1 p2 i2 n) c q → Follows w o c q ∨ (c = pos2 ∧ q = pos1) := by
    rintro c q ⟨e, he, hc, s, hs, hsn⟩
    rcases (hmem e).1 he with rfl | he
    · right
      rw [hlisNew] at hc hsn
      refine ⟨hc.symm, ?_⟩
      have : s = i1 := h.name_inj (List.mem_of_getElem? hs) hm1 (hsn.trans hn1.symm)
      subst this
      exact h.pos_inj hs hi1
    · left
      rw [hregOld e he] at hc hsn
      exact ⟨e, he, hc, s, hs, hsn⟩
  refine
    { valid := h.valid, nodup := h.nodup, plain := h.plain, indepSub := ?_, indepNodup := h.indepNodup.erase _,
      indepIff := ?_, regKeys := keys_mapInsert hfresh h.regKeys, regOk := ?_, lsnOk := ?_, once := ?_,
      acyclic := ?_, hasRoot := ?_ }
  · intro i hi; exact h.indepSub i (List.mem_of_mem_erase hi)
  · intro i hi
    show i ∈ o.indep.erase i2 ↔ _
    rw [h.indepNodup.mem_erase_iff]
    constructor
    · rintro ⟨hne, hin⟩ ⟨e, he, ht⟩
      rcases (hmem e).1 he with rfl | he
      · rw [hlisNew] at ht
        simp only at ht
        rw [hi2] at ht
        exact hne (Option.some.inj ht).symm
      · rw [hregOld e he] at ht
        exact (h.indepIff i hi).1 hin ⟨e, he, ht⟩
    · intro hno
      refine ⟨?_, (h.indepIff i hi).2 (fun ⟨e, he, ht⟩ => hno ⟨e, (hmem e).2 (Or.inr he), by rw [hregOld e he]; exact ht⟩)⟩
      rintro rfl
      exact hno ⟨(aliasId p1 p2, n), (hmem _).2 (Or.inl rfl), by rw [hlisNew]; exact hi2⟩
  · intro e he
    rcases (hmem e).1 he with rfl | he
    · refine ⟨by show n < W.lnext; simp [hW, aliased, hn], by rw [hlisNew], by rw [hlisNew],
        ⟨i1, hm1, by rw [hlisNew]; exact hn1, by rw [hlsn]; simp⟩,
        ⟨i2, p2, by rw [hlisNew]; exact hi2, hn2, by rw [hlisNew], by rw [hlisNew]⟩⟩
    · obtain ⟨r1, r2, r3, ⟨s, hs, hsn, hsl⟩, ⟨t, y, ht, htn, hnm, hid⟩⟩ := h.regOk e he
      refine ⟨by show e.2 < W.lnext; simp only [hW, aliased, setObj_lnext, setLsn_lnext, allocLis_lnext]; omega,
        by rw [hregOld e he]; exact r2, by rw [hregOld e he]; exact r3,
        ⟨s, hs, by rw [hregOld e he]; exact hsn, ?_⟩,
        ⟨t, y, by rw [hregOld e he]; exact ht, htn, by rw [hregOld e he]; exact hnm, by rw [hregOld e he]; exact hid⟩⟩
      rw [hlsn]; split
      · rename_i hs1; subst hs1; exact List.mem_append_left _ hsl
      · exact hsl
  · intro i hi l hl
    rw [hlsn] at hl
    by_cases hl' : l ∈ w.lsn i
    · obtain ⟨a, b⟩ := h.lsnOk i hi l hl'
      have hlt : l < n := (h.regOk _ a).lt
      rw [hlisOld l hlt]
      exact ⟨(hmem _).2 (Or.inr a), b⟩
    · have : i = i1 ∧ l = n := by
        split at hl
        · rename_i e; subst e
          rcases List.mem_append.1 hl with a | a
          · exact absurd a hl'
          · exact ⟨rfl, List.mem_singleton.1 a⟩
        · exact absurd hl hl'
      obtain ⟨rfl, rfl⟩ := this
      rw [hlisNew]
      exact ⟨(hmem _).2 (Or.inl rfl), hn1⟩
  · intro e he e' he' ha
    rcases (hmem e).1 he with rfl | he <;> rcases (hmem e').1 he' with rfl | he'
    · rfl
    · rw [hlisNew, hregOld e' he'] at ha
      obtain ⟨t, y, ht, _⟩ := (h.regOk e' he').tgt
      rw [← ha] at ht
      simp only at ht
      rw [hi2] at ht
      exact absurd (by rw [← ha]; exact hi2) (hnot e' he')
    · rw [hlisNew, hregOld e he] at ha
      exact absurd (by rw [ha]; exact hi2) (hnot e he)
    · rw [hregOld e he, hregOld e' he'] at ha
      exact h.once e he e' he' ha
  · intro q hq
    have hq' : Relation.TransGen (fun c d => Follows w o c d ∨ (c = pos2 ∧ d = pos1)) q q :=
      Relation.TransGen.mono hfol q q hq
    rcases transGen_insert hq' with hc | ⟨_, hc⟩
    · exact h.acyclic q hc
    · -- pos1 ->* q ->* pos2 in the old relation: pos2 would be above pos1
      rename_i hc1
      exact hnoanc pos2 i2 (hc.trans hc1) hi2 hn2
  · intro _ hnil
    obtain ⟨r, hr, hrn, hrt⟩ := hroot
    have hrin : r ∈ o.indep := (h.indepIff r hr).2 (fun ⟨e, he, ht⟩ => hrt e he ht)
    have : r ∈ o.indep.erase i2 := (h.indepNodup.mem_erase_iff).2 ⟨fun e => hrn (e ▸ hn2), hrin⟩
    have hnil' : o.indep.erase i2 = [] := hnil
    rw [hnil'] at this; cases this

/-- what the pair form did when it returned normally, on an object satisfying the invariant -/
structure AliasDone (w : World) (k : Nat) (o : Obj) (p1 p2 : String) (w' : World) where
  i1 : ObjId
  i2 : ObjId
  pos1 : Nat
  pos2 : Nat
  hi1 : o.params[pos1]? = some i1
  hi2 : o.params[pos2]? = some i2
  hn1 : nameOf w.heap i1 = o.pre ++ p1
  hn2 : nameOf w.heap i2 = o.pre ++ p2
  hind : i2 ∈ o.indep
  cons : (aliasConstraints w i1 i2).err = none
  eq : w' = aliased (aliasConstraints w i1 i2).w k o p1 p2 i1 i2 pos2
  noanc : ∀ q tq, Relation.ReflTransGen (Follows w o) pos1 q → o.params[q]? = some tq → nameOf w.heap tq ≠ o.pre ++ p2
  root : ∃ r ∈ o.params, nameOf w.heap r ≠ o.pre ++ p2 ∧ ∀ e ∈ o.reg, o.params[(w.lis e.2).alias]? ≠ some r

theorem aliasPair_done {w : World} {k : Nat} {o : Obj} (h : ObjInv w k o) (ho : w.objs k = some o) {p1 p2 : String}
    (ok : (aliasPair w k p1 p2).err = none) : Nonempty (AliasDone w k o p1 p2 (aliasPair w k p1 p2).w) := by
  obtain ⟨s1, s2⟩ := aliasPair_spec h ho p1 p2
  cases h1 : find? w.heap o.params (o.pre ++ p1) with
  | none => rw [(s1 (Or.inl h1)).1] at ok; cases ok
  | some i1 =>
    cases h2 : find? w.heap o.params (o.pre ++ p2) with
    | none => rw [(s1 (Or.inr h2)).1] at ok; cases ok
    | some i2 =>
      obtain ⟨a, b, c, d⟩ := s2 i1 i2 h1 h2
      by_cases hind : i2 ∈ o.indep
      swap
      · rw [(a hind).1] at ok; cases ok
      cases hf : followsLoop w o p2 (o.reg.length + 2) p1 with
      | none => rw [(b hind hf).1] at ok; cases ok
      | some bb =>
        cases bb with
        | true => rw [(c hind hf).1] at ok; cases ok
        | false =>
          obtain ⟨d1, d2⟩ := d hind hf
          cases hc : (aliasConstraints w i1 i2).err with
          | some e => rw [(d1 e hc).1] at ok; cases ok
          | none =>
            obtain ⟨pos2, hp2, _, heq⟩ := d2 hc
            obtain ⟨hm1, hn1⟩ := ParamList.find?_some h1
            obtain ⟨hm2, hn2⟩ := ParamList.find?_some h2
            obtain ⟨pos1, hp1⟩ := h.exists_pos hm1
            have pp1 : Plain p1 := by
              obtain ⟨x, hx, px⟩ := h.plain i1 hm1
              have : x = p1 := append_left_cancel' (hx.symm.trans hn1)
              exact this ▸ px
            obtain ⟨f1, f2⟩ := followsLoop_false h p2 _ p1 pos1 i1 hp1 hn1 pp1 hf
            exact ⟨⟨i1, i2, pos1, pos2, hp1, hp2, hn1, hn2, hind, hc, heq, f1, f2⟩⟩

theorem inv_aliasPair {w : World} (h : Inv w) (k : Nat) (p1 p2 : String) : Inv (aliasPair w k p1 p2).w := by
  cases ho : w.objs k with
  | none =>
    have : aliasPair w k p1 p2 = { w := w, err := some .ub } := by simp [aliasPair, aliasPairG, ho]
    rw [this]; exact h
  | some o =>
    have hi := h.obj k o ho
    obtain ⟨s1, s2⟩ := aliasPair_spec hi ho p1 p2
    cases hok : (aliasPair w k p1 p2).err with
    | some e =>
      -- every raising path leaves the world as it was, up to constraints
      cases h1 : find? w.heap o.params (o.pre ++ p1) with
      | none => rw [(s1 (Or.inl h1)).2]; exact h
      | some i1 =>
        cases h2 : find? w.heap o.params (o.pre ++ p2) with
        | none => rw [(s1 (Or.inr h2)).2]; exact h
        | some i2 =>
          obtain ⟨a, b, c, d⟩ := s2 i1 i2 h1 h2
          by_cases hind : i2 ∈ o.indep
          swap
          · rw [(a hind).2]; exact h
          cases hf : followsLoop w o p2 (o.reg.length + 2) p1 with
          | none => rw [(b hind hf).2]; exact h
          | some bb =>
            cases bb with
            | true => rw [(c hind hf).2]; exact h
            | false =>
              obtain ⟨d1, d2⟩ := d hind hf
              cases hc : (aliasConstraints w i1 i2).err with
              | some e' => rw [(d1 e' hc).2]; exact h.sameShape (aliasConstraints_sameShape w i1 i2)
              | none => obtain ⟨_, _, hnone, _⟩ := d2 hc; rw [hnone] at hok; cases hok
    | none =>
      obtain ⟨dn⟩ := aliasPair_done hi ho hok
      have hss := aliasConstraints_sameShape w dn.i1 dn.i2
      have h1 := h.sameShape hss
      have ho1 : (aliasConstraints w dn.i1 dn.i2).w.objs k = some o := by rw [hss.objs]; exact ho
      have hi1 := hi.sameShape hss
      rw [dn.eq]
      refine h1.update (k := k) (P := o.params) rfl (fun o' ho' => by rw [ho1] at ho'; cases ho'; rfl)
        (fun hnone => by rw [ho1] at hnone; cases hnone) ?_ ?_ (fun i hi' => Or.inl hi')
      · refine ⟨Nat.le_refl _, Nat.le_succ _, fun i _ hnot => ⟨rfl, ?_⟩, fun l hl _ => ?_⟩
        · have : i ≠ dn.i1 := fun e => hnot (e ▸ List.mem_of_getElem? dn.hi1)
          simp [aliased, this]
        · have : l ≠ (aliasConstraints w dn.i1 dn.i2).w.lnext := Nat.ne_of_lt hl
          simp [aliased, this]
      · refine objInv_aliased hi1 dn.hi1 dn.hi2 (by rw [hss.name]; exact dn.hn1) (by rw [hss.name]; exact dn.hn2)
          dn.hind ?_ ?_
        · intro q tq hq htq
          rw [hss.follows] at hq; rw [hss.name]; exact dn.noanc q tq hq htq
        · obtain ⟨r, hr, hrn, hrt⟩ := dn.root
          exact ⟨r, hr, by rw [hss.name]; exact hrn, by rw [hss.lis]; exact hrt⟩

/-! ## `unaliasParameters(p1, p2)` -/

/-- the world a successful `unaliasParameters(p1, p2)` ends in -/
def unaliased (w : World) (k : Nat) (o : Obj) (p1 p2 : String) (i1 i2 : ObjId) : World :=
  (w.setLsn i1 ((w.lsn i1).filter (fun l => (w.lis l).id != aliasId p1 p2))).setObj k
    { params := o.params, indep := o.indep ++ [i2], reg := mapErase (aliasId p1 p2) o.reg, pre := o.pre }

theorem unalias_spec {w : World} {k : Nat} {o : Obj} (h : ObjInv w k o) (ho : w.objs k = some o) (p1 p2 : String) :
    let r := unalias w k p1 p2
    (r.err ≠ none → r.w = w) ∧
    (r.err = none → ∃ i1 i2 l0, find? w.heap o.params (o.pre ++ p1) = some i1 ∧
        find? w.heap o.params (o.pre ++ p2) = some i2 ∧ (aliasId p1 p2, l0) ∈ o.reg ∧ i2 ∉ o.indep ∧
        r.w = unaliased w k o p1 p2 i1 i2) := by
  intro r
  have hr : r = unalias w k p1 p2 := rfl
  simp only [unalias, ho] at hr
  cases h1 : find? w.heap o.params (o.pre ++ p1) with
  | none => rw [h1] at hr; rw [hr]; exact ⟨fun _ => rfl, fun x => by cases x⟩
  | some i1 =>
    cases h2 : find? w.heap o.params (o.pre ++ p2) with
    | none => rw [h1, h2] at hr; rw [hr]; exact ⟨fun _ => rfl, fun x => by cases x⟩
    | some i2 =>
      rw [h1, h2] at hr
      simp only at hr
      cases hf : mapFind? (aliasId p1 p2) o.reg with
      | none => rw [hf] at hr; rw [hr]; exact ⟨fun _ => rfl, fun x => by cases x⟩
      | some l0 =>
        have he : (aliasId p1 p2, l0) ∈ o.reg := (mapFind?_eq_some h.regKeys).1 hf
        obtain ⟨hm2, hn2⟩ := ParamList.find?_some h2
        obtain ⟨hsrc, htgt, hnm⟩ := reg_entry_of_id h hm2 hn2 he
        rw [hf] at hr
        simp only [Option.filter, hsrc, hnm, beq_self_eq_true, Bool.and_self, if_true] at hr
        have hnot : i2 ∉ o.indep := fun hin => (h.indepIff i2 hm2).1 hin ⟨_, he, htgt⟩
        have hhas : hasParameter w.heap o.indep (nameOf w.heap i2) = false := by
          cases hb : hasParameter w.heap o.indep (nameOf w.heap i2)
          · rfl
          · rw [hn2] at hb
            exact absurd ((hasParameter_indep h h2).1 hb) hnot
        simp only [shareParameter, setObj_heap, setLsn_heap, hhas, Bool.false_eq_true, if_false, setObj_setObj] at hr
        rw [hr]
        exact ⟨fun x => absurd rfl x, fun _ => ⟨i1, i2, l0, rfl, rfl, he, hnot, rfl⟩⟩

theorem objInv_unaliased {w : World} {k : Nat} {o : Obj} (h : ObjInv w k o) {p1 p2 : String} {i1 i2 : ObjId} {l0 : Nat}
    (h1 : find? w.heap o.params (o.pre ++ p1) = some i1) (h2 : find? w.heap o.params (o.pre ++ p2) = some i2)
    (he : (aliasId p1 p2, l0) ∈ o.reg) (hnot : i2 ∉ o.indep) :
    ObjInv (unaliased w k o p1 p2 i1 i2) k
      { params := o.params, indep := o.indep ++ [i2], reg := mapErase (aliasId p1 p2) o.reg, pre := o.pre } := by
  obtain ⟨hm1, hn1⟩ := ParamList.find?_some h1
  obtain ⟨hm2, hn2⟩ := ParamList.find?_some h2
  obtain ⟨hsrc, htgt, _⟩ := reg_entry_of_id h hm2 hn2 he
  set W := unaliased w k o p1 p2 i1 i2 with hW
  have hlsn : ∀ j, W.lsn j = if j = i1 then (w.lsn i1).filter (fun l => (w.lis l).id != aliasId p1 p2) else w.lsn j := by
    intro j; simp [hW, unaliased]
  have hsub : ∀ e, e ∈ mapErase (aliasId p1 p2) o.reg ↔ e ∈ o.reg ∧ e.1 ≠ aliasId p1 p2 := mem_mapErase _ _
  -- the only entry that targets `i2` is the erased one
  have honly : ∀ e ∈ o.reg, o.params[(w.lis e.2).alias]? = some i2 → e = (aliasId p1 p2, l0) := by
    intro e hin ht
    refine h.once e hin _ he ?_
    exact h.pos_inj ht (by simpa using htgt) |> fun x => x
  refine
    { valid := h.valid, nodup := h.nodup, plain := h.plain, indepSub := ?_, indepNodup := ?_, indepIff := ?_,
      regKeys := keys_mapErase _ h.regKeys, regOk := ?_, lsnOk := ?_, once := ?_, acyclic := ?_, hasRoot := ?_ }
  · intro i hi
    rcases List.mem_append.1 hi with a | a
    · exact h.indepSub i a
    · rw [List.mem_singleton.1 a]; exact hm2
  · exact List.Nodup.append h.indepNodup (List.nodup_singleton _) (by
      intro a ha hb; rw [List.mem_singleton.1 hb] at ha; exact hnot ha)
  · intro i hi
    show i ∈ o.indep ++ [i2] ↔ _
    by_cases hii : i = i2
    · subst hii
      constructor
      · rintro _ ⟨e, hin, ht⟩
        obtain ⟨hin1, hne⟩ := (hsub e).1 hin
        have := honly e hin1 ht
        exact hne (by rw [this])
      · intro _; simp
    · constructor
      · intro hin ⟨e, hre, ht⟩
        have hin' : i ∈ o.indep := by
          rcases List.mem_append.1 hin with a | a
          · exact a
          · exact absurd (List.mem_singleton.1 a) hii
        exact (h.indepIff i hi).1 hin' ⟨e, ((hsub e).1 hre).1, ht⟩
      · intro hno
        refine List.mem_append_left _ ((h.indepIff i hi).2 ?_)
        rintro ⟨e, hre, ht⟩
        by_cases hk : e.1 = aliasId p1 p2
        · have : e = (aliasId p1 p2, l0) := by
            have hnd := h.regKeys
            have h1' : (aliasId p1 p2, e.2) ∈ o.reg := by rw [← hk]; exact hre
            have := (mapFind?_eq_some hnd).2 h1'
            have := ((mapFind?_eq_some hnd).2 he).symm.trans this
            cases e; simp only at hk; subst hk; simp only [Option.some.injEq] at this; rw [this]
          subst this
          simp only at ht
          rw [htgt] at ht
          exact hii (Option.some.inj ht).symm
        · exact hno ⟨e, (hsub e).2 ⟨hre, hk⟩, ht⟩
  · intro e hin
    obtain ⟨hre, hne⟩ := (hsub e).1 hin
    obtain ⟨r1, r2, r3, ⟨s, hs, hsn, hsl⟩, r5⟩ := h.regOk e hre
    refine ⟨r1, r2, r3, ⟨s, hs, hsn, ?_⟩, r5⟩
    rw [hlsn]; split
    · rename_i e1; subst e1
      exact List.mem_filter.2 ⟨hsl, by rw [r2]; simpa using hne⟩
    · exact hsl
  · intro i hi l hl
    rw [hlsn] at hl
    have hl' : l ∈ w.lsn i := by
      split at hl
      · rename_i e1; subst e1; exact (List.mem_filter.1 hl).1
      · exact hl
    obtain ⟨a, b⟩ := h.lsnOk i hi l hl'
    refine ⟨(hsub _).2 ⟨a, ?_⟩, b⟩
    intro hk
    -- the listener with the erased id is attached to `i1` only, and was filtered out there
    have hl0 : l = l0 := by
      have h1' := (mapFind?_eq_some h.regKeys).2 (show (aliasId p1 p2, l) ∈ o.reg by rw [← hk]; exact a)
      have h2' := (mapFind?_eq_some h.regKeys).2 he
      rw [h1'] at h2'; exact Option.some.inj h2'
    subst hl0
    have : i = i1 := h.name_inj hi hm1 (by rw [b, hsrc, hn1])
    subst this
    simp only [if_true] at hl
    have := (List.mem_filter.1 hl).2
    have hk' : (w.lis l).id = aliasId p1 p2 := hk
    rw [hk'] at this; simp at this
  · intro e hin e' hin' ha
    exact h.once e ((hsub e).1 hin).1 e' ((hsub e').1 hin').1 ha
  · intro q hq
    refine h.acyclic q (Relation.TransGen.mono ?_ q q hq)
    rintro c d ⟨e, hin, hc, s, hs, hsn⟩
    exact ⟨e, ((hsub e).1 hin).1, hc, s, hs, hsn⟩
  · intro _ hnil
    have : i2 ∈ o.indep ++ [i2] := by simp
    have hnil' : o.indep ++ [i2] = [] := hnil
    rw [hnil'] at this; cases this

theorem inv_unalias {w : World} (h : Inv w) (k : Nat) (p1 p2 : String) : Inv (unalias w k p1 p2).w := by
  cases ho : w.objs k with
  | none =>
    have : unalias w k p1 p2 = { w := w, err := some .ub } := by simp [unalias, ho]
    rw [this]; exact h
  | some o =>
    have hi := h.obj k o ho
    obtain ⟨s1, s2⟩ := unalias_spec hi ho p1 p2
    cases hok : (unalias w k p1 p2).err with
    | some e => rw [s1 (by rw [hok]; simp)]; exact h
    | none =>
      obtain ⟨i1, i2, l0, h1, h2, he, hnot, heq⟩ := s2 hok
      rw [heq]
      refine h.update (k := k) (P := o.params) rfl (fun o' ho' => by rw [ho] at ho'; cases ho'; rfl)
        (fun hnone => by rw [ho] at hnone; cases hnone) ?_ (objInv_unaliased hi h1 h2 he hnot) (fun i hi' => Or.inl hi')
      refine ⟨Nat.le_refl _, Nat.le_refl _, fun i _ hn => ⟨rfl, ?_⟩, fun l _ _ => rfl⟩
      have : i ≠ i1 := fun e => hn (e ▸ (ParamList.find?_some h1).1)
      simp [unaliased, this]

/-! ## `aliasParameters(map)` -/

theorem inv_bulkPass (k : Nat) : ∀ (todo : List (String × String)) (w : World) (pl : List Par) (kept : List (String × String)),
    Inv w → Inv (bulkPass true k w pl kept todo).w
  | [], w, pl, kept, h => h
  | (key, val) :: todo, w, pl, kept, h => by
    simp only [bulkPass]
    split
    · split
      · split
        · exact h
        · exact inv_bulkPass k todo w pl _ h
      · split
        · exact h
        · exact inv_bulkPass k todo w pl _ h
    · split
      · exact h
      · have hi : Inv (aliasPairG true w k val key).w := inv_aliasPair h k val key
        split
        · exact hi
        · exact inv_bulkPass k todo _ _ kept hi

theorem inv_bulkLoop (k : Nat) : ∀ (f : Nat) (w : World) (pl : List Par) (m : List (String × String)),
    Inv w → Inv (bulkLoop k f w pl m).w
  | 0, w, pl, m, h => h
  | f + 1, w, pl, m, h => by
    simp only [bulkLoop]
    split
    · exact h
    · have hp := inv_bulkPass k m w pl [] h
      split
      · exact hp
      · split
        · exact hp
        · exact inv_bulkLoop k f _ _ _ hp

theorem syncLinks_sameBut (l : List ObjId) : ∀ (ls : List (String × String)) (w : World), SameBut w (syncLinks l w ls).w
  | [], w => SameBut.refl w
  | (key, val) :: rest, w => by
    simp only [syncLinks]
    split
    · exact SameBut.refl w
    · have sb := matchParametersValues_sameBut w l [(key, (w.heap.get ‹ObjId›).value)]
      split
      · exact sb
      · exact sb.trans (syncLinks_sameBut l rest _)

theorem inv_bulkAlias {w : World} (h : Inv w) (k : Nat) (es : List (String × String)) : Inv (bulkAlias w k es).w := by
  simp only [bulkAlias, bulkAliasG]
  split
  · exact h
  · rename_i o _
    have hl := inv_bulkLoop k ((mkMap es).length + 1) w
      ((o.params.filter (fun i => (mapFind? (nameOf w.heap i) (mkMap es)).isNone)).map w.heap.get) (mkMap es) h
    split
    · exact hl
    · split
      · exact hl
      · exact hl.sameShape (syncLinks_sameBut _ _ _).sameShape

/-! ## `setNamespace(prefix)` -/

theorem renameListeners_spec (old new : String) : ∀ (reg : List (String × Nat)) (w : World), (reg.map Prod.snd).Nodup →
    let W := renameListeners old new w reg
    W.heap = w.heap ∧ W.lsn = w.lsn ∧ W.objs = w.objs ∧ W.lnext = w.lnext ∧
    ∀ l, W.lis l = if l ∈ reg.map Prod.snd then { w.lis l with name := renamed old new (w.lis l).name } else w.lis l
  | [], w, _ => ⟨rfl, rfl, rfl, rfl, fun l => by simp [renameListeners]⟩
  | e :: rest, w, nd => by
    simp only [List.map_cons, List.nodup_cons] at nd
    obtain ⟨a, b, c, d, f⟩ := renameListeners_spec old new rest
      (w.setLis e.2 { w.lis e.2 with name := renamed old new (w.lis e.2).name }) nd.2
    refine ⟨a, b, c, d, fun l => ?_⟩
    simp only [renameListeners]
    rw [f l]
    simp only [List.map_cons, List.mem_cons, World.setLis]
    by_cases hl : l = e.2
    · subst hl
      simp only [nd.1, if_false, true_or, if_true]
    · simp only [hl, false_or, if_false]

theorem setNamespace_spec (old new : String) : ∀ (l : List ObjId) (h : Store), l.Nodup →
    (ParamList.setNamespace h old new l).next = h.next ∧
    ∀ i, (ParamList.setNamespace h old new l).get i =
      if i ∈ l then { h.get i with name := renamed old new (nameOf h i) } else h.get i
  | [], h, _ => ⟨rfl, fun i => by simp [ParamList.setNamespace]⟩
  | a :: rest, h, nd => by
    simp only [List.nodup_cons] at nd
    have key := setNamespace_spec old new rest
      (h.put a { h.get a with name := renamed old new (nameOf h a) }) nd.2
    obtain ⟨n1, n2⟩ := key
    have hdef : ParamList.setNamespace h old new (a :: rest) =
        ParamList.setNamespace (h.put a { h.get a with name := renamed old new (nameOf h a) }) old new rest := rfl
    rw [hdef]
    refine ⟨n1, fun i => ?_⟩
    rw [n2 i]
    by_cases hi : i = a
    · subst hi
      simp [nd.1]
    · by_cases hr : i ∈ rest
      · simp [hr, hi, nameOf]
      · simp [hr, hi]

theorem ObjInv.lisNodup {w : World} {k : Nat} {o : Obj} (h : ObjInv w k o) : (o.reg.map Prod.snd).Nodup := by
  refine List.Nodup.map_on ?_ (List.Nodup.of_map _ h.regKeys)
  intro e he e' he' hs
  have h1 := (h.regOk e he).id
  have h2 := (h.regOk e' he').id
  rw [hs] at h1
  cases e; cases e'; simp only at hs h1 h2; subst hs; rw [← h1, ← h2]

/-- the world after `setNamespace(new)` -/
def nsWorld (w : World) (k : Nat) (o : Obj) (new : String) : World :=
  ({ renameListeners o.pre new w o.reg with
      heap := ParamList.setNamespace (renameListeners o.pre new w o.reg).heap o.pre new o.params }).setObj k
    { params := o.params, indep := o.indep, reg := o.reg, pre := new }

theorem setNamespace_eq {w : World} {k : Nat} {o : Obj} (ho : w.objs k = some o) (new : String) :
    setNamespace w k new = ({ w := nsWorld w k o new } : WR) := by
  simp only [setNamespace, ho, nsWorld]

theorem nsWorld_facts {w : World} {k : Nat} {o : Obj} (hi : ObjInv w k o) (new : String) :
    (nsWorld w k o new).heap.next = w.heap.next ∧ (nsWorld w k o new).lnext = w.lnext ∧
    (nsWorld w k o new).lsn = w.lsn ∧
    (nsWorld w k o new).objs = (fun j => if j = k then some { params := o.params, indep := o.indep, reg := o.reg, pre := new }
      else w.objs j) ∧
    (∀ i, (nsWorld w k o new).heap.get i =
      if i ∈ o.params then { w.heap.get i with name := renamed o.pre new (nameOf w.heap i) } else w.heap.get i) ∧
    (∀ l, (nsWorld w k o new).lis l =
      if l ∈ o.reg.map Prod.snd then { w.lis l with name := renamed o.pre new (w.lis l).name } else w.lis l) := by
  obtain ⟨a, b, c, d, f⟩ := renameListeners_spec o.pre new o.reg w hi.lisNodup
  obtain ⟨n1, n2⟩ := setNamespace_spec o.pre new o.params (renameListeners o.pre new w o.reg).heap hi.idsNodup
  refine ⟨?_, ?_, ?_, ?_, ?_, ?_⟩
  · show (ParamList.setNamespace (renameListeners o.pre new w o.reg).heap o.pre new o.params).next = _
    rw [n1, a]
  · exact d
  · exact b
  · show (fun j => if j = k then _ else (renameListeners o.pre new w o.reg).objs j) = _
    rw [c]
  · intro i
    show (ParamList.setNamespace (renameListeners o.pre new w o.reg).heap o.pre new o.params).get i = _
    rw [n2 i, a]
  · intro l; exact f l

theorem objInv_setNamespace {w : World} {k : Nat} {o : Obj} (h : ObjInv w k o) (new : String) {W : World}
    (hnext : W.heap.next = w.heap.next) (hlnext : W.lnext = w.lnext) (hlsn : W.lsn = w.lsn)
    (hname : ∀ i ∈ o.params, nameOf W.heap i = renamed o.pre new (nameOf w.heap i))
    (hlis : ∀ e ∈ o.reg, W.lis e.2 = { w.lis e.2 with name := renamed o.pre new (w.lis e.2).name }) :
    ObjInv W k { o with pre := new } := by
  -- the name of a parameter: `pre ++ x` becomes `new ++ x`
  have hnm : ∀ i ∈ o.params, ∀ x, nameOf w.heap i = o.pre ++ x → nameOf W.heap i = new ++ x := by
    intro i hi x hx; rw [hname i hi, hx, renamed_append]
  have hback : ∀ i ∈ o.params, ∀ x, nameOf W.heap i = new ++ x → nameOf w.heap i = o.pre ++ x := by
    intro i hi x hx
    obtain ⟨y, hy, _⟩ := h.plain i hi
    rw [hnm i hi y hy] at hx
    rw [hy, append_left_cancel' hx]
  have hfol : Follows W { o with pre := new } = Follows w o := by
    funext c q
    apply propext
    constructor
    · rintro ⟨e, he, hc, s, hs, hsn⟩
      rw [hlis e he] at hc hsn
      exact ⟨e, he, hc, s, hs, hback s (List.mem_of_getElem? hs) _ hsn⟩
    · rintro ⟨e, he, hc, s, hs, hsn⟩
      refine ⟨e, he, by rw [hlis e he]; exact hc, s, hs, ?_⟩
      rw [hlis e he]; exact hnm s (List.mem_of_getElem? hs) _ hsn
  refine
    { valid := fun i hi => by rw [hnext]; exact h.valid i hi, nodup := ?_, plain := ?_, indepSub := h.indepSub,
      indepNodup := h.indepNodup, indepIff := ?_, regKeys := h.regKeys, regOk := ?_, lsnOk := ?_, once := ?_,
      acyclic := fun p => by rw [hfol]; exact h.acyclic p, hasRoot := h.hasRoot }
  · show (names W.heap o.params).Nodup
    refine List.Nodup.map_on ?_ h.idsNodup
    intro i hi j hj e
    obtain ⟨x, hx, _⟩ := h.plain i hi
    obtain ⟨y, hy, _⟩ := h.plain j hj
    rw [hnm i hi x hx, hnm j hj y hy] at e
    have := append_left_cancel' e
    exact h.name_inj hi hj (by rw [hx, hy, this])
  · intro i hi
    obtain ⟨x, hx, px⟩ := h.plain i hi
    exact ⟨x, hnm i hi x hx, px⟩
  · intro i hi
    rw [h.indepIff i hi]
    constructor
    · rintro hn ⟨e, he, ht⟩; exact hn ⟨e, he, by rw [hlis e he] at ht; exact ht⟩
    · rintro hn ⟨e, he, ht⟩; exact hn ⟨e, he, by rw [hlis e he]; exact ht⟩
  · intro e he
    obtain ⟨r1, r2, r3, ⟨s, hs, hsn, hsl⟩, ⟨t, y, ht, htn, hnm', hid⟩⟩ := h.regOk e he
    refine ⟨by rw [hlnext]; exact r1, by rw [hlis e he]; exact r2, by rw [hlis e he]; exact r3,
      ⟨s, hs, by rw [hlis e he]; exact hnm s hs _ hsn, by rw [hlsn]; exact hsl⟩,
      ⟨t, y, by rw [hlis e he]; exact ht, hnm t (List.mem_of_getElem? ht) y htn, ?_, by rw [hlis e he]; exact hid⟩⟩
    rw [hlis e he]
    show renamed o.pre new (w.lis e.2).name = new ++ y
    rw [hnm', renamed_append]
  · intro i hi l hl
    rw [hlsn] at hl
    obtain ⟨a, b⟩ := h.lsnOk i hi l hl
    have := hlis _ a
    simp only at this
    rw [this]
    exact ⟨a, hnm i hi _ b⟩
  · intro e he e' he' ha
    rw [hlis e he, hlis e' he'] at ha
    exact h.once e he e' he' ha

theorem inv_setNamespace {w : World} (h : Inv w) (k : Nat) (new : String) : Inv (setNamespace w k new).w := by
  cases ho : w.objs k with
  | none =>
    have : setNamespace w k new = { w := w, err := some .ub } := by simp [setNamespace, ho]
    rw [this]; exact h
  | some o =>
    have hi := h.obj k o ho
    rw [setNamespace_eq ho]
    obtain ⟨f1, f2, f3, f4, f5, f6⟩ := nsWorld_facts hi new
    show Inv (nsWorld w k o new)
    refine h.update (k := k) (P := o.params) (o' := { params := o.params, indep := o.indep, reg := o.reg, pre := new })
      f4 (fun o' ho' => by rw [ho] at ho'; cases ho'; rfl)
      (fun hnone => by rw [ho] at hnone; cases hnone) ?_ ?_ (fun i hi' => Or.inl hi')
    · refine ⟨by rw [f1], by rw [f2], fun i _ hn => ⟨?_, by rw [f3]⟩, fun l _ hp => ?_⟩
      · simp only [nameOf, f5 i, hn, if_false]
      · rw [f6 l]
        split
        · rename_i hm
          obtain ⟨e, he, hs⟩ := List.mem_map.1 hm
          exact absurd (hs ▸ (hi.regOk e he).pl) hp
        · rfl
    · refine objInv_setNamespace hi new f1 f2 f3 ?_ ?_
      · intro i him
        simp only [nameOf, f5 i, him, if_true]
      · intro e he
        rw [f6 e.2, if_pos (List.mem_map.2 ⟨e, he, rfl⟩)]

end Bpp.Alias
