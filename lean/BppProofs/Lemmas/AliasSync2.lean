import BppProofs.Lemmas.AliasSync
/-! C03, round 2: `setAllParametersValues` under a source consistent with the links, and the bulk
alias form after its repair (every new link in sync, links in sync before stay in sync). -/
namespace Bpp.Alias
open Bpp.ParamList (Bnd Con Par Store ObjId nameOf find? hasParameter names startsWith)

/-! ## `setAllParametersValues` -/

/-- the source gives both ends of every link of the object the same value (or names neither) -/
def SrcCons (w : World) (o : Obj) (src : List (String × Rat)) : Prop :=
  ∀ s t, Lk w o s t → srcFind? src (nameOf w.heap t) = srcFind? src (nameOf w.heap s)

/-- parameter `i` holds the value the source gives it -/
def Agrees (src : List (String × Rat)) (w : World) (i : ObjId) : Prop := srcFind? src (nameOf w.heap i) = some (val w i)

theorem agrees_setValue {w : World} {k : Nat} {o : Obj} (h : ObjInv w k o) (ho : w.objs k = some o)
    {src : List (String × Rat)} (hc : SrcCons w o src) {r : ObjId} (hrp : r ∈ o.params) {v : Rat}
    (hv : srcFind? src (nameOf w.heap r) = some v) (ok : (setValue w r v).err = none) :
    Agrees src (setValue w r v).w r ∧ ∀ i, Agrees src w i → Agrees src (setValue w r v).w i := by
  obtain ⟨st, hr⟩ := setValue_step w r v ok
  have sb := setValue_sameBut w r v
  refine ⟨by simp only [Agrees, sb.nameOf, hr, hv], fun i hi => ?_⟩
  simp only [Agrees, sb.nameOf] at hi ⊢
  -- the parameters the source gives the value of `r` are closed under the listeners
  have hclosed : Closed w (fun j => j ∈ o.params ∧ srcFind? src (nameOf w.heap j) = some v) := by
    intro x hx' l hl t ht
    obtain ⟨hx, hxv⟩ : x ∈ o.params ∧ srcFind? src (nameOf w.heap x) = some v := hx'
    have lk : Lk w o x t := ⟨hx, l, hl, ht⟩
    have : t ∈ o.params ∧ srcFind? src (nameOf w.heap t) = some v := ⟨lk.target_mem h ho, by rw [hc x t lk]; exact hxv⟩
    exact this
  by_cases hS : i ∈ o.params ∧ srcFind? src (nameOf w.heap i) = some v
  · rcases st.onlyV i with e | e
    · rw [e]; exact hi
    · rw [e]; exact hS.2
  · rw [setValue_frame (S := fun j => j ∈ o.params ∧ srcFind? src (nameOf w.heap j) = some v) w r v ⟨hrp, hv⟩ hclosed i hS]
    exact hi

theorem agrees_applyAll {k : Nat} {o : Obj} {src : List (String × Rat)} : ∀ (l : List ObjId) (w : World), ObjInv w k o →
    w.objs k = some o → SrcCons w o src → (∀ i ∈ l, i ∈ o.params) → (applyAll src w l).err = none →
    (∀ i ∈ l, Agrees src (applyAll src w l).w i) ∧ ∀ i, Agrees src w i → Agrees src (applyAll src w l).w i
  | [], _, _, _, _, _, _ => by simp [applyAll]
  | r :: rest, w, h, ho, hc, hl, ok => by
    simp only [applyAll] at ok ⊢
    cases hv : srcFind? src (nameOf w.heap r) with
    | none => simp [hv] at ok
    | some v =>
      simp only [hv] at ok ⊢
      cases hok : (setValue w r v).err with
      | some e => simp [hok] at ok
      | none =>
        simp only [hok] at ok ⊢
        have sb := setValue_sameBut w r v
        obtain ⟨a1, a2⟩ := agrees_setValue h ho hc (hl r (List.mem_cons_self ..)) hv hok
        have hc' : SrcCons (setValue w r v).w o src := by
          intro s t lk; rw [sb.nameOf, sb.nameOf]; exact hc s t ((Lk.sameBut sb).1 lk)
        obtain ⟨b1, b2⟩ := agrees_applyAll rest _ (h.transport sb) (by rw [sb.objs]; exact ho) hc'
          (fun i hi => hl i (List.mem_cons_of_mem _ hi)) ok
        refine ⟨fun i hi => ?_, fun i hi => b2 i (a2 i hi)⟩
        rcases List.mem_cons.1 hi with rfl | hi
        · exact b2 _ a1
        · exact b1 i hi

/-- **`setAllParametersValues` with a source consistent with the links**: when it returns, every
parameter holds the value the source gives it, and every link is in sync — whatever the order of the
parameters and whatever the values before (in sync or not). -/
theorem setAll_consistent {w : World} {k : Nat} {o : Obj} (h : ObjInv w k o) (ho : w.objs k = some o)
    {src : List (String × Rat)} (hc : SrcCons w o src) (ok : (apSetAllParametersValues w k src).err = none) :
    (∀ i ∈ o.params, Agrees src (apSetAllParametersValues w k src).w i) ∧ AllSynced (apSetAllParametersValues w k src).w o := by
  have sb := (update_sameBut w k).2.2.2 src
  simp only [apSetAllParametersValues, ho, setAllParametersValues] at ok sb ⊢
  cases hchk : checkAll w src o.params with
  | some e => simp [hchk] at ok
  | none =>
    simp only [hchk] at ok sb ⊢
    obtain ⟨a, _⟩ := agrees_applyAll o.params w h ho hc (fun i hi => hi) ok
    refine ⟨a, (allSynced_iff (h.transport sb) (by rw [sb.objs]; exact ho)).2 fun s t lk => ?_⟩
    have lk' := (Lk.sameBut sb).1 lk
    have hs := a s lk'.1
    have ht := a t (lk'.target_mem h ho)
    simp only [Agrees, sb.nameOf] at hs ht
    rw [hc s t lk', hs] at ht
    exact (Option.some.inj ht).symm

/-- … and conversely: if afterwards every parameter holds the value the source gives it and all links
are in sync, the source was consistent with the links.  (`SrcCons` is *the* condition under which
"set every parameter to the value of the list" and "every alias equals its source" can both hold.) -/
theorem setAll_consistent_conv {w W : World} {k : Nat} {o : Obj} (h : ObjInv w k o) (ho : w.objs k = some o)
    (sb : SameBut w W) {src : List (String × Rat)} (hag : ∀ i ∈ o.params, Agrees src W i) (hsy : AllSynced W o) :
    SrcCons w o src := by
  intro s t lk
  have lk' := (Lk.sameBut sb).2 lk
  have e := (allSynced_iff (h.transport sb) (by rw [sb.objs]; exact ho)).1 hsy s t lk'
  have hs := hag s lk.1
  have ht := hag t (lk.target_mem h ho)
  simp only [Agrees, sb.nameOf] at hs ht
  rw [hs, ht, e]

/-- `Tr` with no entry point to exclude: a consistent `setAllParametersValues` -/
theorem tr_setAll {w : World} {k : Nat} {o : Obj} (h : ObjInv w k o) (ho : w.objs k = some o)
    {src : List (String × Rat)} (hc : SrcCons w o src) (ok : (apSetAllParametersValues w k src).err = none) :
    Tr (fun _ => False) o w (apSetAllParametersValues w k src).w := by
  have sb := (update_sameBut w k).2.2.2 src
  obtain ⟨_, hsy⟩ := setAll_consistent h ho hc ok
  exact ⟨sb, fun s t lk _ _ => (allSynced_iff (h.transport sb) (by rw [sb.objs]; exact ho)).1 hsy s t ((Lk.sameBut sb).2 lk)⟩

/-! ## The bulk alias form -/

/-- what a successful pair alias leaves alone: values, names, the object's parameters and its links -/
structure Grow (k : Nat) (w W : World) : Prop where
  val : ∀ j, val W j = val w j
  name : ∀ j, nameOf W.heap j = nameOf w.heap j
  obj : ∀ o, w.objs k = some o → ∃ o', W.objs k = some o' ∧ o'.params = o.params ∧ o'.pre = o.pre ∧
    ∀ s t, Lk w o s t → Lk W o' s t

theorem Grow.refl (k : Nat) (w : World) : Grow k w w := ⟨fun _ => rfl, fun _ => rfl, fun o ho => ⟨o, ho, rfl, rfl, fun _ _ h => h⟩⟩

theorem Grow.trans {k : Nat} {a b c : World} (x : Grow k a b) (y : Grow k b c) : Grow k a c where
  val j := (y.val j).trans (x.val j)
  name j := (y.name j).trans (x.name j)
  obj o ho := by
    obtain ⟨o1, h1, p1, q1, l1⟩ := x.obj o ho
    obtain ⟨o2, h2, p2, q2, l2⟩ := y.obj o1 h1
    exact ⟨o2, h2, p2.trans p1, q2.trans q1, fun s t h => l2 s t (l1 s t h)⟩

/-- the link "`key` follows `val`" is wired in the object of slot `k` -/
def NewLk (k : Nat) (W : World) (e : String × String) : Prop :=
  ∃ o' s t, W.objs k = some o' ∧ Lk W o' s t ∧ nameOf W.heap s = o'.pre ++ e.2 ∧ nameOf W.heap t = o'.pre ++ e.1

theorem NewLk.grow {k : Nat} {w W : World} (g : Grow k w W) {e : String × String} (n : NewLk k w e) : NewLk k W e := by
  obtain ⟨o, s, t, ho, lk, hs, ht⟩ := n
  obtain ⟨o', ho', _, hp, hl⟩ := g.obj o ho
  exact ⟨o', s, t, ho', hl s t lk, by rw [g.name, hp]; exact hs, by rw [g.name, hp]; exact ht⟩

theorem aliasPair_grow {w : World} (h : Inv w) (k : Nat) (p1 p2 : String) (ok : (aliasPair w k p1 p2).err = none) :
    Grow k w (aliasPair w k p1 p2).w ∧ NewLk k (aliasPair w k p1 p2).w (p2, p1) := by
  cases ho : w.objs k with
  | none => simp [aliasPair, aliasPairG, ho] at ok
  | some o =>
    have hi := h.obj k o ho
    obtain ⟨⟨i1, i2, pos1, pos2, hi1, hi2, hn1, hn2, hind, _, heq, _, _⟩⟩ := aliasPair_done hi ho ok
    have hss := aliasConstraints_sameShape w i1 i2
    have hm1 := List.mem_of_getElem? hi1
    have hobj : (aliasPair w k p1 p2).w.objs k = some (aliasedObj o p1 p2 i2 w.lnext) := by
      rw [heq]; simp [aliased, hss.lnext]
    have hname : ∀ j, nameOf (aliasPair w k p1 p2).w.heap j = nameOf w.heap j := by
      intro j; rw [heq]; exact hss.name j
    have hlsn : ∀ j, (aliasPair w k p1 p2).w.lsn j = if j = i1 then w.lsn i1 ++ [w.lnext] else w.lsn j := by
      intro j; rw [heq]; simp [aliased, hss.lsn, hss.lnext]
    have htgt_old : ∀ l, l < w.lnext → tgt (aliasPair w k p1 p2).w l = tgt w l := by
      intro l hl
      have hne : l ≠ (aliasConstraints w i1 i2).w.lnext := by rw [hss.lnext]; exact Nat.ne_of_lt hl
      rw [heq]
      simp only [tgt, aliased, setObj_lis, setLsn_lis, allocLis_lis, hne, if_false, hss.lis, setObj_objs]
      by_cases hk : (w.lis l).pl = k
      · simp [hk, ho]
      · simp only [hk, if_false, setLsn_objs, allocLis_objs, hss.objs]
    have htgt_new : tgt (aliasPair w k p1 p2).w w.lnext = some i2 := by
      rw [heq]
      simp only [tgt, aliased, setObj_lis, setLsn_lis, allocLis_lis, hss.lnext, if_true, setObj_objs]
      exact hi2
    refine ⟨⟨fun j => ?_, hname, fun o0 ho0 => ?_⟩, ?_⟩
    · rw [heq]; exact aliasConstraints_val w i1 i2 j
    · rw [ho] at ho0; cases ho0
      refine ⟨_, hobj, rfl, rfl, fun s t ⟨hs, l, hl, ht⟩ => ⟨hs, l, ?_, ?_⟩⟩
      · rw [hlsn]; split
        · rename_i e; subst e; exact List.mem_append_left _ hl
        · exact hl
      · have hlt : l < w.lnext := (hi.regOk _ (hi.lsnOk s hs l hl).1).lt
        rw [htgt_old l hlt]; exact ht
    · refine ⟨_, i1, i2, hobj, ⟨hm1, w.lnext, ?_, htgt_new⟩, by rw [hname]; exact hn1, by rw [hname]; exact hn2⟩
      rw [hlsn]; simp

theorem bulkPass_done (k : Nat) : ∀ (todo : List (String × String)) (w : World) (pl : List Par) (kept : List (String × String)),
    Inv w → (bulkPass true k w pl kept todo).err = none →
      Grow k w (bulkPass true k w pl kept todo).w ∧
      (∀ e ∈ (bulkPass true k w pl kept todo).done, NewLk k (bulkPass true k w pl kept todo).w e) ∧
      (∀ e ∈ todo, e ∈ (bulkPass true k w pl kept todo).left ∨ e ∈ (bulkPass true k w pl kept todo).done)
  | [], w, pl, kept, _, _ => ⟨Grow.refl k w, fun e he => (by cases he), fun e he => (by cases he)⟩
  | (key, val) :: todo, w, pl, kept, h, ok => by
    simp only [bulkPass] at ok ⊢
    cases hf : plFind? pl val with
    | none =>
      simp only [hf] at ok ⊢
      cases ho : w.objs k with
      | none => simp [ho] at ok
      | some o =>
      simp only [ho] at ok ⊢
      by_cases hh : hasParameter w.heap o.params val = true
      swap
      · have hh' : hasParameter w.heap o.params val = false := by simpa using hh
        simp [hh'] at ok
      · simp only [hh, Bool.not_true, Bool.false_eq_true, if_false] at ok ⊢
        obtain ⟨a, b, c⟩ := bulkPass_done k todo w pl (kept ++ [(key, val)]) h ok
        obtain ⟨_, _, c'⟩ := bulkPass_linked k todo w pl (kept ++ [(key, val)]) h ok
        refine ⟨a, b, fun e he => ?_⟩
        rcases List.mem_cons.1 he with rfl | he
        · exact Or.inl (c' _ (by simp))
        · exact c e he
    | some pp =>
      simp only [hf] at ok ⊢
      generalize (plFind? pl key).isSome = bb at ok ⊢
      cases bb
      swap
      · simp at ok
      · simp only [Bool.false_eq_true, if_false] at ok ⊢
        cases hok : (aliasPairG true w k val key).err with
        | some e => simp [hok] at ok
        | none =>
          simp only [hok] at ok ⊢
          have hi : Inv (aliasPairG true w k val key).w := inv_aliasPair h k val key
          obtain ⟨g1, n1⟩ := aliasPair_grow h k val key hok
          obtain ⟨a, b, c⟩ := bulkPass_done k todo _ (pl ++ [{ pp with name := key }]) kept hi ok
          refine ⟨g1.trans a, fun e he => ?_, fun e he => ?_⟩
          · rcases List.mem_cons.1 he with rfl | he
            · exact n1.grow a
            · exact b e he
          · rcases List.mem_cons.1 he with rfl | he
            · exact Or.inr (List.mem_cons_self ..)
            · exact (c e he).imp id (List.mem_cons_of_mem _)

theorem bulkLoop_done (k : Nat) : ∀ (f : Nat) (w : World) (pl : List Par) (m : List (String × String)),
    Inv w → (bulkLoop k f w pl m).err = none →
      Grow k w (bulkLoop k f w pl m).w ∧ (∀ e ∈ (bulkLoop k f w pl m).done, NewLk k (bulkLoop k f w pl m).w e) ∧
      (∀ e ∈ m, e ∈ (bulkLoop k f w pl m).done)
  | 0, w, pl, m, _, ok => by simp [bulkLoop] at ok
  | f + 1, w, pl, m, h, ok => by
    simp only [bulkLoop] at ok ⊢
    by_cases hm : m.length = 0
    · simp only [hm, if_true]
      have : m = [] := List.eq_nil_of_length_eq_zero hm
      subst this
      exact ⟨Grow.refl k w, by simp [bulkLoop], by simp⟩
    · simp only [hm, if_false] at ok ⊢
      cases hp : (bulkPass true k w pl [] m).err with
      | some e => simp [hp] at ok
      | none =>
        simp only [hp] at ok ⊢
        obtain ⟨a, b, c⟩ := bulkPass_done k m w pl [] h hp
        have hi := inv_bulkPass k m w pl [] h
        split at ok
        · cases ok
        · rename_i hne
          simp only [hne, if_false]
          obtain ⟨a', b', c'⟩ := bulkLoop_done k f _ _ _ hi ok
          refine ⟨a.trans a', fun e he => ?_, fun e he => ?_⟩
          · rcases List.mem_append.1 he with he | he
            · exact (b e he).grow a'
            · exact b' e he
          · rcases c e he with hleft | hd
            · exact List.mem_append_right _ (c' e hleft)
            · exact List.mem_append_left _ hd

/-- one round of the final loop: the alias named `key` takes the value its source (named `val`) holds -/
theorem tr_syncStep {w : World} {k : Nat} {o : Obj} (h : ObjInv w k o) (ho : w.objs k = some o) {s t : ObjId}
    (lk : Lk w o s t) {key : String} (hk : nameOf w.heap t = key)
    (ok : (matchParametersValues w o.params [(key, val w s)]).1.err = none) :
    Tr (fun _ => False) o w (matchParametersValues w o.params [(key, val w s)]).1.w ∧
    val (matchParametersValues w o.params [(key, val w s)]).1.w t = val (matchParametersValues w o.params [(key, val w s)]).1.w s := by
  have htp := lk.target_mem h ho
  have hft : find? w.heap o.params key = some t := (find?_iff h.nodup).2 ⟨htp, hk⟩
  simp only [matchParametersValues, checkSome, hft] at ok ⊢
  split at ok
  · cases ok
  · simp only [matchSome, hft] at ok ⊢
    by_cases hne : (w.heap.get t).value ≠ val w s
    · rw [if_pos hne] at ok ⊢
      cases hok : (setValue w t (val w s)).err with
      | some e => simp [hok] at ok
      | none =>
        simp only [hok]
        obtain ⟨st, hr⟩ := setValue_step w t (val w s) hok
        have t1 := tr_setValue h ho htp hok
        have hsv : val (setValue w t (val w s)).w s = val w s := by
          rcases st.onlyV s with e | e <;> exact e
        have hsync : val (setValue w t (val w s)).w t = val (setValue w t (val w s)).w s := by rw [hr, hsv]
        refine ⟨⟨t1.sb, fun s' t' lk' _ hpre => ?_⟩, hsync⟩
        by_cases htt : t' = t
        · subst htt
          have := Lk.src_unique h ho lk' lk
          subst this
          exact hsync
        · exact t1.keep s' t' lk' htt hpre
    · rw [if_neg hne]
      have : val w t = val w s := by simpa [val] using hne
      exact ⟨Tr.refl _ _ _, this⟩

theorem tr_syncLinks {k : Nat} {o : Obj} : ∀ (ls : List (String × String)) (w : World), ObjInv w k o → w.objs k = some o →
    o.pre = "" → (∀ e ∈ ls, NewLk k w e) → (syncLinks o.params w ls).err = none →
    Tr (fun _ => False) o w (syncLinks o.params w ls).w ∧
    ∀ e ∈ ls, ∀ s t, Lk w o s t → nameOf w.heap s = e.2 → nameOf w.heap t = e.1 →
      val (syncLinks o.params w ls).w t = val (syncLinks o.params w ls).w s
  | [], w, _, _, _, _, _ => ⟨Tr.refl _ _ _, fun e he => by cases he⟩
  | (key, vl) :: rest, w, h, ho, hpre, hnew, ok => by
    obtain ⟨o', s, t, ho', lk, hs, ht⟩ := hnew (key, vl) (List.mem_cons_self ..)
    rw [ho] at ho'; cases ho'
    simp only [hpre, String.empty_append] at hs ht
    have hfs : find? w.heap o.params vl = some s := (find?_iff h.nodup).2 ⟨lk.1, hs⟩
    simp only [syncLinks, hfs] at ok ⊢
    cases hm : (matchParametersValues w o.params [(key, (w.heap.get s).value)]).1.err with
    | some e => simp [hm] at ok
    | none =>
      simp only [hm] at ok ⊢
      obtain ⟨t1, hsync⟩ := tr_syncStep h ho lk ht hm
      have sb : SameBut w (matchParametersValues w o.params [(key, (w.heap.get s).value)]).1.w := t1.sb
      have hnew' : ∀ e ∈ rest, NewLk k (matchParametersValues w o.params [(key, (w.heap.get s).value)]).1.w e := by
        intro e he
        obtain ⟨o', s', t', ho', lk', hs', ht'⟩ := hnew e (List.mem_cons_of_mem _ he)
        exact ⟨o', s', t', by rw [sb.objs]; exact ho', (Lk.sameBut sb).2 lk', by rw [sb.nameOf]; exact hs', by rw [sb.nameOf]; exact ht'⟩
      obtain ⟨t2, hrest⟩ := tr_syncLinks rest _ (h.transport sb) (by rw [sb.objs]; exact ho) hpre hnew' ok
      refine ⟨t1.trans t2, fun e he s' t' lk' hs' ht' => ?_⟩
      rcases List.mem_cons.1 he with rfl | he
      · -- the link synchronised first stays in sync
        have e1 : t' = t := h.name_inj (lk'.target_mem h ho) (lk.target_mem h ho) (ht'.trans ht.symm)
        subst e1
        have e2 := Lk.src_unique h ho lk' lk
        subst e2
        exact t2.keep s' t' ((Lk.sameBut sb).2 lk) (fun x => x) (Or.inr hsync)
      · exact hrest e he s' t' ((Lk.sameBut sb).2 lk') (by rw [sb.nameOf]; exact hs') (by rw [sb.nameOf]; exact ht')

/-- **the bulk form after its repair** (empty namespace, where the map's names are the names the pair
form takes): when it returns normally,
* every entry `key -> val` of the map is a wired link whose two ends hold the same value;
* every link the object had before is still there, and it is in sync if it was in sync before or if
  its source changed during the call (**alias_tracks** across the call). -/
theorem bulkAlias_synced {w : World} (h : Inv w) {k : Nat} {o : Obj} (ho : w.objs k = some o) (hpre : o.pre = "")
    (es : List (String × String)) (ok : (bulkAlias w k es).err = none) :
    ∃ o', (bulkAlias w k es).w.objs k = some o' ∧ o'.params = o.params ∧ o'.pre = o.pre ∧
      (∀ e ∈ mkMap es, ∃ s t, Lk (bulkAlias w k es).w o' s t ∧ nameOf w.heap s = e.2 ∧ nameOf w.heap t = e.1 ∧
        val (bulkAlias w k es).w t = val (bulkAlias w k es).w s) ∧
      (∀ s t, Lk w o s t → Lk (bulkAlias w k es).w o' s t ∧
        ((val (bulkAlias w k es).w s ≠ val w s ∨ val w t = val w s) → val (bulkAlias w k es).w t = val (bulkAlias w k es).w s)) := by
  simp only [bulkAlias, bulkAliasG, ho] at ok ⊢
  cases hl : (bulkLoop k ((mkMap es).length + 1) w
      ((o.params.filter (fun i => (mapFind? (nameOf w.heap i) (mkMap es)).isNone)).map w.heap.get) (mkMap es)).err with
  | some e => simp [hl] at ok
  | none =>
    simp only [hl] at ok ⊢
    obtain ⟨g, hdone, hall⟩ := bulkLoop_done k _ w _ (mkMap es) h hl
    have hI := inv_bulkLoop k ((mkMap es).length + 1) w
      ((o.params.filter (fun i => (mapFind? (nameOf w.heap i) (mkMap es)).isNone)).map w.heap.get) (mkMap es) h
    obtain ⟨o', ho', hp, hq, hlk⟩ := g.obj o ho
    simp only [ho', if_true] at ok ⊢
    have hi' := hI.obj k o' ho'
    obtain ⟨tr, hsy⟩ := tr_syncLinks _ _ hi' ho' (hq.trans hpre) hdone ok
    have sb := tr.sb
    refine ⟨o', by rw [sb.objs]; exact ho', hp, hq, fun e he => ?_, fun s t lk => ?_⟩
    · obtain ⟨o'', s, t, ho'', lk, hs, ht⟩ := hdone e (hall e he)
      rw [ho'] at ho''; cases ho''
      simp only [hq.trans hpre, String.empty_append] at hs ht
      exact ⟨s, t, (Lk.sameBut sb).2 lk, by rw [← g.name]; exact hs, by rw [← g.name]; exact ht, hsy e (hall e he) s t lk hs ht⟩
    · have lk' := hlk s t lk
      refine ⟨(Lk.sameBut sb).2 lk', fun hpre' => tr.keep s t lk' (fun x => x) ?_⟩
      rw [g.val, g.val]; exact hpre'

end Bpp.Alias
