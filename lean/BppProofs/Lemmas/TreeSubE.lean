import BppProofs.Lemmas.TreeSub
import BppProofs.Lemmas.TreeRootAtU
/-
`getSubtreeEdges` on a valid rooted tree: the edges to the father of the proper descendants of the
node, each once.
-/
namespace Bpp.Graph
open AL

/-- `e` is the edge from the father of `x` to `x` -/
def UpEdge (g : G) (P : PTree) (x e : Nat) : Prop := ∃ p, P.par x = some p ∧ g.outE p x = some e

namespace DTree
variable {g : G} {P : PTree}

theorem find_of_out (h : DTree g P) {a b e : Nat} (ho : g.outE a b = some e) : find e g.edges = some (a, b) := by
  rcases h.cons.views.out_edge a b e ho with h1 | ⟨h2, _⟩
  · exact h1
  · rw [h.dir] at h2; cases h2

/-- an edge leads to one node only -/
theorem upEdge_inj (h : DTree g P) {x y e : Nat} (hx : UpEdge g P x e) (hy : UpEdge g P y e) : x = y := by
  obtain ⟨p, _, hp⟩ := hx
  obtain ⟨q, _, hq⟩ := hy
  have := (h.find_of_out hp).symm.trans (h.find_of_out hq)
  cases this; rfl

theorem outEdges_eq (g : G) (n : Nat) : g.outEdges n = (find n g.nodes).map (fun r => AL.vals r.out) := rfl

/-- `fillSubtreeMetEdges_` -/
theorem subtreeEdges (h : DTree g P) : ∀ (fuel n : Nat) (met : List Nat), n ∈ P.nodes → g.nodes.length + 1 ≤ fuel + P.rank n →
    ∃ L, T.subtreeEdges g fuel n met = .ok (met ++ L) ∧ L.Nodup ∧
      ∀ e, e ∈ L ↔ ∃ x, IsAnc P.par n x ∧ x ≠ n ∧ UpEdge g P x e := by
  intro fuel
  induction fuel with
  | zero => intro n met hn hf; have := h.rank_lt hn; omega
  | succ f ih =>
    intro n met hn hf
    have hnode := (h.nodes n).1 hn
    obtain ⟨r, hr⟩ := (G.hasNode_iff g n).1 hnode
    simp only [T.subtreeEdges]
    rw [outEdges_eq, hr]
    simp only [Option.map_some]
    have hout : ∀ q ∈ r.out, g.outE n q.1 = some q.2 := by
      intro q hq
      have := (mem_iff_find (h.cons.sorted.rows n r hr).1 q.1 q.2).1 hq
      simp [G.outE, hr, this]
    have hasc := (h.cons.sorted.rows n r hr).1
    -- the loop over the (son, edge) entries of the row
    have key : ∀ (ps : List (Nat × Nat)) (m : List Nat), (AL.keys ps).Nodup → (∀ q ∈ ps, g.outE n q.1 = some q.2) →
        ∃ L, (AL.vals ps).foldl (fun (acc : TRes (List Nat)) e =>
            match acc with
            | .ok m => (match g.getNodes e with
                        | some (_, bottom) => T.subtreeEdges g f bottom (m ++ [e])
                        | none => .exc)
            | r => r) (.ok m) = .ok (m ++ L) ∧ L.Nodup ∧
          ∀ e, e ∈ L ↔ ∃ q ∈ ps, ∃ x, IsAnc P.par q.1 x ∧ UpEdge g P x e := by
      intro ps
      induction ps with
      | nil => intro m _ _; exact ⟨[], by simp [AL.vals], List.nodup_nil, by simp⟩
      | cons q rest ihl =>
        intro m hnd hq
        obtain ⟨c, e⟩ := q
        have hce : g.outE n c = some e := hq (c, e) (List.mem_cons_self ..)
        have hpc : P.par c = some n := (h.arc n c).1 (arc_of_out hce)
        have hm := h.wf.par_mem hpc
        have hnd' : c ∉ AL.keys rest ∧ (AL.keys rest).Nodup := by simpa [AL.keys] using hnd
        simp only [AL.vals, List.map_cons, List.foldl]
        have hgn : g.getNodes e = some (n, c) := h.find_of_out hce
        rw [hgn]
        simp only
        obtain ⟨L1, h1, hn1, hm1⟩ := ih c (m ++ [e]) hm.1 (by omega)
        rw [h1]
        obtain ⟨L2, h2, hn2, hm2⟩ := ihl (m ++ [e] ++ L1) hnd'.2 (fun q' hq' => hq q' (List.mem_cons_of_mem _ hq'))
        have hup_c : UpEdge g P c e := ⟨n, hpc, hce⟩
        refine ⟨[e] ++ L1 ++ L2, ?_, ?_, ?_⟩
        · simp only [AL.vals] at h2; rw [h2]; simp
        · rw [List.nodup_append]
          refine ⟨?_, hn2, ?_⟩
          · rw [List.nodup_append]
            refine ⟨by simp, hn1, ?_⟩
            intro a ha b hb hab
            simp at ha; subst ha; subst hab
            obtain ⟨x, _, hxc, hux⟩ := (hm1 a).1 hb
            exact hxc (h.upEdge_inj hux hup_c)
          · intro a ha b hb hab
            subst hab
            obtain ⟨q', hq', x', hax', hux'⟩ := (hm2 a).1 hb
            have hq'e := hq q' (List.mem_cons_of_mem _ hq')
            have hpq' : P.par q'.1 = some n := (h.arc n q'.1).1 (arc_of_out hq'e)
            have hne : c ≠ q'.1 := by
              intro e'; apply hnd'.1; rw [e']; exact List.mem_map_of_mem (f := (·.1)) hq'
            -- `a` is the up-edge of a node under `c`
            have hunder_c : ∃ x, IsAnc P.par c x ∧ UpEdge g P x a := by
              simp only [List.mem_append, List.mem_singleton] at ha
              rcases ha with rfl | ha
              · exact ⟨c, .refl _, hup_c⟩
              · obtain ⟨x, hcx, _, hux⟩ := (hm1 a).1 ha; exact ⟨x, hcx, hux⟩
            obtain ⟨x, hcx, hux⟩ := hunder_c
            have := h.upEdge_inj hux hux'
            subst this
            exact h.wf.sons_disjoint hpc hpq' hne hcx hax'
        · intro a
          simp only [List.mem_append, List.mem_singleton]
          rw [hm1 a, hm2 a]
          constructor
          · rintro ((rfl | ⟨x, hcx, _, hux⟩) | ⟨q', hq', hx⟩)
            · exact ⟨(c, a), List.mem_cons_self .., c, .refl _, hup_c⟩
            · exact ⟨(c, e), List.mem_cons_self .., x, hcx, hux⟩
            · exact ⟨q', List.mem_cons_of_mem _ hq', hx⟩
          · rintro ⟨q', hq', x, hqx, hux⟩
            rcases List.mem_cons.1 hq' with e' | hq''
            · subst e'
              by_cases hxc : x = c
              · subst hxc
                obtain ⟨p1, hp1, ho1⟩ := hux
                rw [hpc] at hp1; cases hp1
                rw [hce] at ho1; cases ho1
                exact .inl (.inl rfl)
              · exact .inl (.inr ⟨x, hqx, hxc, hux⟩)
            · exact .inr ⟨q', hq'', x, hqx, hux⟩
    obtain ⟨L, h1, h2, h3⟩ := key r.out met (G.nodup_of_asc hasc) hout
    refine ⟨L, h1, h2, fun e => ?_⟩
    rw [h3 e]
    constructor
    · rintro ⟨q, hq, x, hqx, hux⟩
      have hpq : P.par q.1 = some n := (h.arc n q.1).1 (arc_of_out (hout q hq))
      refine ⟨x, IsAnc.trans (IsAnc.of_par hpq) hqx, ?_, hux⟩
      intro e'; subst e'; exact h.wf.son_not_anc hpq hqx
    · rintro ⟨x, hnx, hxn, hux⟩
      obtain ⟨c, hpc, hcx⟩ := IsAnc.under_son hnx hxn
      obtain ⟨ec, hec⟩ := h.arc_out hpc
      have hmem : (c, ec) ∈ r.out := by
        have : find c r.out = some ec := by simpa [G.outE, hr] using hec
        exact (mem_iff_find hasc c ec).2 this
      exact ⟨(c, ec), hmem, x, hcx, hux⟩

end DTree
end Bpp.Graph
