import BppProofs.Lemmas.TreeDfsSound
import BppProofs.Lemmas.TreeDfsComplete
/-
`isTree` decides "the graph is a rooted tree spanning all nodes from the root" (`IsTreeFrom`).
-/
namespace Bpp.Graph
open AL

/-- the graph is a tree spanning all its nodes from its root: there is a parent function, defined
on the nodes other than the root, strictly decreasing a depth towards the root, whose father-son
pairs are exactly the relations of the graph (either way round when the graph is undirected) -/
def IsTreeFrom (g : G) : Prop := ∃ P : PTree, P.WF ∧ Matches g P ∧ P.root = g.root

namespace T

theorem isTree_unfold (g : G) : isTree g =
    match metOnce g (g.nodes.length + 2) g.root g.root [] with
    | .ok none => .ok false
    | .ok (some met) => .ok ((AL.keys g.nodes).all (fun n => met.contains n))
    | .exc => .exc
    | .fuel => .fuel
    | .ub => .ub := rfl

theorem isTree_sound {g : G} (hc : Consistent g) (h : isTree g = .ok true) : IsTreeFrom g := by
  rw [isTree_unfold] at h
  cases hm : metOnce g (g.nodes.length + 2) g.root g.root [] with
  | exc => rw [hm] at h; cases h
  | fuel => rw [hm] at h; cases h
  | ub => rw [hm] at h; cases h
  | ok o =>
    cases o with
    | none => rw [hm] at h; cases h
    | some met =>
      rw [hm] at h
      simp only [TRes.ok.injEq, List.all_eq_true] at h
      have hall : ∀ n, g.hasNode n = true → n ∈ met := by
        intro n hn
        have := h n ((G.mem_keys_hasNode g n).2 hn)
        simpa using this
      obtain ⟨vis, par, rank, hr⟩ := metOnce_sound g _ _ _ _ _ hm
      have hvis : ∀ n, g.hasNode n = true → n ∈ vis := by
        intro n hn
        rcases (hr.mem n).1 (hall n hn) with h | h
        · exact h
        · cases h
      refine ⟨{ root := g.root, nodes := AL.keys g.nodes, par := fun x => if g.hasNode x then par x else none, rank := rank }, ?_, ?_, rfl⟩
      · refine ⟨?_, ?_, hr.rank_start, ?_, ?_⟩
        · exact (G.mem_keys_hasNode g _).2 (hr.node _ hr.start)
        · simp [hr.node _ hr.start, hr.par_start]
        · intro n hn hne
          have hnn := (G.mem_keys_hasNode g n).1 hn
          obtain ⟨p, hp, hpp, hrk, _⟩ := hr.up n (hvis n hnn) hne
          exact ⟨p, by simp [hnn, hpp], (G.mem_keys_hasNode g p).2 (hr.node p hp), hrk⟩
        · intro n hn
          have : g.hasNode n = false := by
            cases hh : g.hasNode n with
            | false => rfl
            | true => exact absurd ((G.mem_keys_hasNode g n).2 hh) hn
          simp [this]
      · refine ⟨fun n => G.mem_keys_hasNode g n, ?_⟩
        intro a b
        simp only
        constructor
        · intro hab
          have hn := G.arc_nodes hc hab
          rcases hr.closed a (hvis a hn.1) b hab with ⟨_, hpb⟩ | ⟨hd, hh⟩
          · exact .inl (by simp [hn.2, hpb])
          · rcases hh with ⟨_, hne, _⟩ | ⟨_, hpa⟩
            · exact absurd rfl hne
            · exact .inr ⟨hd, by simp [hn.1, hpa]⟩
        · rintro (hpb | ⟨hd, hpa⟩)
          · by_cases hb : g.hasNode b = true
            · simp only [hb, if_true] at hpb
              have hbr : b ≠ g.root := by intro e; rw [e, hr.par_start] at hpb; cases hpb
              obtain ⟨p, _, hpp, _, ha⟩ := hr.up b (hvis b hb) hbr
              rw [hpb] at hpp; cases hpp; exact ha
            · simp [hb] at hpb
          · by_cases ha : g.hasNode a = true
            · simp only [ha, if_true] at hpa
              have har : a ≠ g.root := by intro e; rw [e, hr.par_start] at hpa; cases hpa
              obtain ⟨p, _, hpp, _, hab⟩ := hr.up a (hvis a ha) har
              rw [hpa] at hpp; cases hpp
              exact G.arc_symm hc hd hab
            · simp [ha] at hpa

theorem isTree_complete {g : G} (hc : Consistent g) (h : IsTreeFrom g) : isTree g = .ok true := by
  obtain ⟨P, hw, hm, hroot⟩ := h
  rw [isTree_unfold]
  have hnf := (metOnce_ne_fuel g (g.nodes.length + 2) g.root g.root [] ⟨List.nodup_nil, by simp⟩ (by simp)).1
  have hrm : g.root ∈ P.nodes := hroot ▸ hw.root_mem
  obtain ⟨m', h1, h2⟩ := metOnce_complete hc hw hm (g.nodes.length + 2) g.root g.root [] hrm
    (fun _ => .inl ⟨hroot.symm, rfl⟩) (by simp) hnf
  rw [h1]
  simp only [TRes.ok.injEq, List.all_eq_true]
  intro n hn
  have hnn : n ∈ P.nodes := (hm.nodes n).2 ((G.mem_keys_hasNode g n).1 hn)
  have : n ∈ m' := (h2 n).2 (.inr (hroot ▸ hw.root_anc hnn))
  simpa using this

theorem isTree_iff {g : G} (hc : Consistent g) : isTree g = .ok true ↔ IsTreeFrom g :=
  ⟨isTree_sound hc, isTree_complete hc⟩

/-! ### on a consistent graph whose root is a node the traversal raises nothing -/

theorem metOnce_no_exc {g : G} (hc : Consistent g) : ∀ (fuel node origin : Nat) (met : List Nat),
    g.hasNode node = true → metOnce g fuel node origin met ≠ .exc ∧ metOnce g fuel node origin met ≠ .ub := by
  intro fuel
  induction fuel with
  | zero => intro node origin met _; simp [metOnce]
  | succ f ih =>
    intro node origin met hn
    rw [metOnce_succ]
    split
    · simp
    · rw [G.outNeighbors_of_hasNode hn]
      simp only
      have key : ∀ (l : List Nat) (acc : TRes (Option (List Nat))), (∀ b ∈ l, Arc g node b) → acc ≠ .exc → acc ≠ .ub →
          l.foldl (metStep g f node origin) acc ≠ .exc ∧ l.foldl (metStep g f node origin) acc ≠ .ub := by
        intro l
        induction l with
        | nil => intro acc _ h1 h2; exact ⟨h1, h2⟩
        | cons b rest ihl =>
          intro acc harc h1 h2
          simp only [List.foldl]
          apply ihl _ (fun c hc => harc c (List.mem_cons_of_mem _ hc))
          · cases acc with
            | ok o =>
              cases o with
              | none => simp [metStep]
              | some m =>
                rw [metStep_some]; split
                · simp
                · exact (ih b node m (G.arc_nodes hc (harc b (List.mem_cons_self ..))).2).1
            | exc => exact absurd rfl h1
            | fuel => simp [metStep]
            | ub => exact absurd rfl h2
          · cases acc with
            | ok o =>
              cases o with
              | none => simp [metStep]
              | some m =>
                rw [metStep_some]; split
                · simp
                · exact (ih b node m (G.arc_nodes hc (harc b (List.mem_cons_self ..))).2).2
            | exc => exact absurd rfl h1
            | fuel => simp [metStep]
            | ub => exact absurd rfl h2
      exact key _ _ (fun b hb => G.mem_outKeys.1 hb) (by simp) (by simp)

/-- `isTree` answers (true or false) whenever the root is a node; it raises only when it is not -/
theorem isTree_total {g : G} (hc : Consistent g) (hr : g.hasNode g.root = true) : ∃ b, isTree g = .ok b := by
  rw [isTree_unfold]
  have h1 := (metOnce_ne_fuel g (g.nodes.length + 2) g.root g.root [] ⟨List.nodup_nil, by simp⟩ (by simp)).1
  have h2 := metOnce_no_exc hc (g.nodes.length + 2) g.root g.root [] hr
  cases hm : metOnce g (g.nodes.length + 2) g.root g.root [] with
  | ok o => cases o <;> exact ⟨_, rfl⟩
  | exc => exact absurd hm h2.1
  | fuel => exact absurd hm h1
  | ub => exact absurd hm h2.2

theorem isTree_root_absent {g : G} (hr : g.hasNode g.root = false) : isTree g = .exc := by
  rw [isTree_unfold, metOnce_succ]
  have : g.outNeighbors g.root = none := by rw [G.outNeighbors_eq]; simp [hr]
  simp [this]

/-- the answer of `isTree` does not depend on the fuel once it is at least the node count + 2
(in fact + 1): the fuelled model is the unbounded recursion -/
theorem isTree_fuel_suffices (g : G) (f : Nat) (hf : g.nodes.length + 2 ≤ f) :
    metOnce g f g.root g.root [] = metOnce g (g.nodes.length + 2) g.root g.root [] :=
  metOnce_mono_le g g.root g.root [] hf
    (metOnce_ne_fuel g (g.nodes.length + 2) g.root g.root [] ⟨List.nodup_nil, by simp⟩ (by simp)).1

end T
end Bpp.Graph
