import BppModel.Discretize
import BppModel.DiscretizeFamilies
/-!
C09: concrete states on exact rationals (`Scalar Rat`: the same program text, no rounding) used
as witnesses and as non-vacuity examples.
-/
namespace Bpp.Discretize.Witness
open Bpp Bpp.Discretize

/-- a piecewise-linear parent on `[0,10]`: 90% of the mass uniform on `[0,1]`, 10% uniform on
`[1,10]` (`pProb`, `qProb`, `Expectation` mutually consistent, mean 1) -/
def plParent : Parent Rat where
  P x := if x ≤ 1 then (9/10) * x else 9/10 + (x - 1) / 90
  Q u := if u ≤ 9/10 then u / (9/10) else 1 + 90 * (u - 9/10)
  E x := if x ≤ 1 then (9/20) * x * x else 9/20 + (x * x - 1) / 180

/-- 3 classes on `[0,10]`, precision 1/1000 -/
def plState (median : Bool) (scheme : Nat) : DD Rat :=
  { n := 3, dist := [], bounds := [], dom := ⟨0, 10, true, true, 0⟩, median := median, scheme := scheme, prec := 1/1000 }

/-- the uniform parent on `[0,1]` in exact rationals -/
def unif01 : Parent Rat := unifParent 0 1

def unifState (n : Nat) (median : Bool) (scheme : Nat) : DD Rat :=
  { n := n, dist := [], bounds := [], dom := ⟨0, 1, true, true, 0⟩, median := median, scheme := scheme, prec := 1/1000000 }

/-- a discretised state for the look-up examples: 4 classes with bounds 1, 2, 3 on `[0, 4]` -/
def fourClasses : DD Rat :=
  { n := 4, dist := [(1/2, 1/4), (3/2, 1/4), (5/2, 1/4), (7/2, 1/4)], bounds := [1, 2, 3],
    dom := ⟨0, 4, true, true, 0⟩, median := false, scheme := 1, prec := 1/1000000 }

/-- a gamma with the offset parameter (offset 1/2) whose domain has been restricted to `[1,2]` -/
def gammaRestricted : FamSt Rat :=
  { fam := .gamma, dd := { n := 3, dist := [], bounds := [], dom := ⟨1, 2, true, true, 0⟩, median := false, scheme := 1, prec := 1/1000 },
    p1 := 2, p2 := 2, p3 := 1/2, hasOffset := true, tpTied := false }

/-- 3 classes on the uniform parent, domain `[1/2, 1/2 + 10⁻¹³]`, precision `10⁻¹²` -/
def narrowState : DD Rat :=
  { n := 3, dist := [], bounds := [], dom := ⟨1/2, 1/2 + 1/10000000000000, true, true, 0⟩, median := false, scheme := 1, prec := 1/1000000000000 }

end Bpp.Discretize.Witness
