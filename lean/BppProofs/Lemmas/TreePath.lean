import BppProofs.Lemmas.TreeMrca
import BppProofs.Lemmas.TreeRootAtU
/-
`getNodePathBetweenTwoNodes` / `getEdgePathBetweenTwoNodes` on a valid rooted tree: the two ancestor
lines are cut at the most recent common ancestor `m`; the answer goes up from `a` to `m` and down
to `b`, through father-son links, without visiting a node twice.
-/
namespace Bpp.Graph
open AL

/-! ### the stripping of the common suffix -/

theorem strip_zero_left (p1 p2 : List Nat) (t2 : Nat) : T.nodePath.strip p1 p2 0 t2 = (0, t2) := by
  cases t2 <;> rfl

theorem strip_zero_right (p1 p2 : List Nat) (t1 : Nat) : T.nodePath.strip p1 p2 t1 0 = (t1, 0) := by
  cases t1 <;> rfl

theorem strip_succ (p1 p2 : List Nat) (t1 t2 : Nat) :
    T.nodePath.strip p1 p2 (t1 + 1) (t2 + 1) = if p1[t1]? == p2[t2]? then T.nodePath.strip p1 p2 t1 t2 else (t1 + 1, t2 + 1) := rfl

theorem strip_spec (p1 p2 : List Nat) (i j : Nat) (hdiff : i = 0 ∨ j = 0 ∨ p1[i - 1]? ≠ p2[j - 1]?) :
    ∀ d, (∀ d' < d, p1[i + d']? = p2[j + d']?) → T.nodePath.strip p1 p2 (i + d) (j + d) = (i, j) := by
  intro d
  induction d with
  | zero =>
    intro _
    simp only [Nat.add_zero]
    rcases hdiff with h | h | h
    · subst h; exact strip_zero_left ..
    · subst h; exact strip_zero_right ..
    · cases i with
      | zero => exact strip_zero_left ..
      | succ i =>
        cases j with
        | zero => exact strip_zero_right ..
        | succ j =>
          rw [strip_succ]
          simp only [Nat.add_sub_cancel] at h
          have : (p1[i]? == p2[j]?) = false := by simpa using h
          rw [this]; rfl
  | succ d ih =>
    intro hs
    have h1 := hs d (Nat.lt_succ_self d)
    show T.nodePath.strip p1 p2 (i + d + 1) (j + d + 1) = (i, j)
    rw [strip_succ, h1]
    simp only [beq_self_eq_true, if_true]
    exact ih (fun d' hd' => hs d' (Nat.lt_succ_of_lt hd'))

namespace PTree
variable {P : PTree}

/-- the line of an ancestor is the tail of the line of the node -/
theorem WF.lineOf_drop (h : P.WF) {x n : Nat} (ha : IsAnc P.par x n) :
    (lineOf P.par (P.rank n) n).drop (P.rank n - P.rank x) = lineOf P.par (P.rank x) x := by
  induction ha with
  | refl => simp
  | @step n p hp ha' ih =>
    have hk := (h.par_mem hp).2.2.2
    have hle := h.anc_rank ha'
    have h1 : lineOf P.par (P.rank n) n = n :: lineOf P.par (P.rank p) p := by
      rw [hk]; simp [lineOf, hp]
    have h2 : P.rank n - P.rank x = (P.rank p - P.rank x) + 1 := by omega
    rw [h1, h2, List.drop_succ_cons, ih]

end PTree

/-! ### chains of father-son links -/

theorem Ref.linked_symm (r : Ref) (a b : Nat) : r.linked a b = r.linked b a := by
  unfold Ref.linked; rw [Bool.or_comm]

theorem Ref.chain_cons2 (r : Ref) (a b : Nat) (l : List Nat) : r.chain (a :: b :: l) = (r.linked a b && r.chain (b :: l)) := rfl

theorem Ref.chain_append (r : Ref) : ∀ (l1 : List Nat) (x : Nat) (l2 : List Nat),
    r.chain (l1 ++ [x]) = true → r.chain (x :: l2) = true → r.chain (l1 ++ x :: l2) = true := by
  intro l1
  induction l1 with
  | nil => intro x l2 _ h; exact h
  | cons a rest ih =>
    intro x l2 h1 h2
    cases rest with
    | nil =>
      simp only [List.nil_append, List.cons_append] at h1 ⊢
      rw [Ref.chain_cons2] at h1 ⊢
      simp only [Bool.and_eq_true] at h1 ⊢
      exact ⟨h1.1, h2⟩
    | cons b rest' =>
      simp only [List.cons_append] at h1 ⊢
      rw [Ref.chain_cons2] at h1 ⊢
      simp only [Bool.and_eq_true] at h1 ⊢
      exact ⟨h1.1, ih x l2 h1.2 h2⟩

theorem Ref.chain_snoc (r : Ref) : ∀ (l : List Nat) (x y : Nat), r.chain (l ++ [x]) = true → r.linked x y = true →
    r.chain (l ++ [x, y]) = true := by
  intro l x y h1 h2
  have : r.chain (x :: [y]) = true := by rw [Ref.chain_cons2]; simp [h2, Ref.chain]
  exact Ref.chain_append r l x [y] h1 this

theorem Ref.chain_reverse (r : Ref) : ∀ (l : List Nat), r.chain l = true → r.chain l.reverse = true := by
  intro l
  induction l with
  | nil => intro h; exact h
  | cons a rest ih =>
    intro h
    cases rest with
    | nil => exact h
    | cons b rest' =>
      rw [Ref.chain_cons2] at h
      simp only [Bool.and_eq_true] at h
      have h2 := ih h.2
      -- reverse (a :: b :: rest') = reverse rest' ++ [b, a]
      have : (a :: b :: rest').reverse = rest'.reverse ++ [b, a] := by simp
      rw [this]
      have h3 : r.chain (rest'.reverse ++ [b]) = true := by simpa using h2
      exact Ref.chain_snoc r _ b a h3 (by rw [Ref.linked_symm]; exact h.1)

theorem Ref.chain_take (r : Ref) : ∀ (l : List Nat) (k : Nat), r.chain l = true → r.chain (l.take k) = true := by
  intro l
  induction l with
  | nil => intro k h; simp [Ref.chain]
  | cons a rest ih =>
    intro k h
    cases k with
    | zero => simp [Ref.chain]
    | succ k =>
      cases rest with
      | nil => simp [Ref.chain]
      | cons b rest' =>
        rw [Ref.chain_cons2] at h
        simp only [Bool.and_eq_true] at h
        cases k with
        | zero => simp [Ref.chain]
        | succ k =>
          simp only [List.take_succ_cons]
          rw [Ref.chain_cons2]
          simp only [Bool.and_eq_true]
          exact ⟨h.1, by have := ih (k + 1) h.2; simpa using this⟩

theorem Ref.chain_lineOf (r : Ref) : ∀ (fuel n : Nat), r.chain (lineOf r.parent fuel n) = true := by
  intro fuel
  induction fuel with
  | zero => intro n; rfl
  | succ f ih =>
    intro n
    simp only [lineOf]
    cases hp : r.parent n with
    | none => rfl
    | some p =>
      simp only
      have hh := lineOf_head r.parent f p
      cases hl : lineOf r.parent f p with
      | nil => exact absurd hl (lineOf_ne_nil _ _ _)
      | cons x rest =>
        rw [hl] at hh
        simp at hh; subst hh
        rw [Ref.chain_cons2]
        simp only [Bool.and_eq_true]
        refine ⟨by simp [Ref.linked, hp], ?_⟩
        rw [← hl]; exact ih x

namespace DTree
variable {g : G} {P : PTree}

/-- the node path from `a` to `b` -/
theorem nodePath (h : DTree g P) {a b : Nat} (ha : a ∈ P.nodes) (hb : b ∈ P.nodes) :
    ∃ m i j, IsMrcaP P.par [a, b] m ∧
      (lineOf P.par (P.rank a) a)[i]? = some m ∧ (lineOf P.par (P.rank b) b)[j]? = some m ∧
      T.nodePath g a b true = .ok ((lineOf P.par (P.rank a) a).take i ++ [m] ++ ((lineOf P.par (P.rank b) b).take j).reverse) ∧
      T.nodePath g a b false = .ok ((lineOf P.par (P.rank a) a).take i ++ ((lineOf P.par (P.rank b) b).take j).reverse) := by
  -- the most recent common ancestor, from the climb of `b` towards the line of `a`
  obtain ⟨m, _, _, hmb, hma, hmin⟩ := h.joinRank ha (P.rank b + 1) b hb (Nat.le_refl _)
  have hmr : IsMrcaP P.par [a, b] m := by
    refine ⟨?_, ?_⟩
    · intro s hs; simp at hs; rcases hs with rfl | rfl <;> assumption
    · intro c hc; exact hmin c (hc b (by simp)) (hc a (by simp))
  have hra := h.wf.anc_rank hma
  have hrb := h.wf.anc_rank hmb
  have hia := h.wf.lineOf_get_of_anc (P.rank a) a m (Nat.le_refl _) hma
  have hib := h.wf.lineOf_get_of_anc (P.rank b) b m (Nat.le_refl _) hmb
  have hla := h.wf.lineOf_length (P.rank a) a ha (Nat.le_refl _)
  have hlb := h.wf.lineOf_length (P.rank b) b hb (Nat.le_refl _)
  have hstrip : T.nodePath.strip (lineOf P.par (P.rank a) a) (lineOf P.par (P.rank b) b)
      (lineOf P.par (P.rank a) a).length (lineOf P.par (P.rank b) b).length = (P.rank a - P.rank m, P.rank b - P.rank m) := by
    have e1 : (lineOf P.par (P.rank a) a).length = (P.rank a - P.rank m) + (P.rank m + 1) := by omega
    have e2 : (lineOf P.par (P.rank b) b).length = (P.rank b - P.rank m) + (P.rank m + 1) := by omega
    rw [e1, e2]
    apply strip_spec
    · -- just below `m` the two lines differ
      by_cases hi0 : P.rank a - P.rank m = 0
      · exact .inl hi0
      · by_cases hj0 : P.rank b - P.rank m = 0
        · exact .inr (.inl hj0)
        · refine .inr (.inr ?_)
          intro heq
          have hlt : P.rank a - P.rank m - 1 < (lineOf P.par (P.rank a) a).length := by omega
          have hx := List.getElem?_eq_getElem hlt
          have hxa := h.wf.lineOf_get _ _ _ _ hx
          have hxb := h.wf.lineOf_get _ _ _ _ (heq ▸ hx)
          have := h.wf.anc_rank (hmin _ hxb.2 hxa.2)
          omega
    · intro d' _
      have d1 := h.wf.lineOf_drop hma
      have d2 := h.wf.lineOf_drop hmb
      have g1 : (lineOf P.par (P.rank a) a)[P.rank a - P.rank m + d']? = (lineOf P.par (P.rank m) m)[d']? := by
        rw [← d1, List.getElem?_drop]
      have g2 : (lineOf P.par (P.rank b) b)[P.rank b - P.rank m + d']? = (lineOf P.par (P.rank m) m)[d']? := by
        rw [← d2, List.getElem?_drop]
      rw [g1, g2]
  refine ⟨m, P.rank a - P.rank m, P.rank b - P.rank m, hmr, hia, hib, ?_, ?_⟩
  · unfold T.nodePath
    simp only [h.dir, (h.nodes a).1 ha, (h.nodes b).1 hb, Bool.not_true, Bool.or_self, Bool.false_eq_true, if_false]
    rw [h.climb_std ha, h.climb_std hb]
    simp only [hstrip, hia, if_true]
  · unfold T.nodePath
    simp only [h.dir, (h.nodes a).1 ha, (h.nodes b).1 hb, Bool.not_true, Bool.or_self, Bool.false_eq_true, if_false]
    rw [h.climb_std ha, h.climb_std hb]
    simp only [hstrip, hia, Bool.false_eq_true, if_false]

end DTree
end Bpp.Graph

namespace Bpp.Graph
open AL

theorem all_count_one (A B : List Nat) (hA : A.Nodup) (hB : B.Nodup) (hdis : ∀ x ∈ A, x ∉ B) :
    (A ++ B.reverse).all (fun x => (A ++ B.reverse).count x == 1) = true := by
  simp only [List.all_eq_true, List.mem_append, List.mem_reverse, beq_iff_eq, List.count_append, List.count_reverse]
  intro x hx
  rw [hA.count, hB.count]
  rcases hx with hx | hx
  · simp [hx, hdis x hx]
  · have : x ∉ A := fun h => hdis x h hx
    simp [hx, this]

theorem mapM_all_some {α β : Type} (l : List α) (f : α → Option β) (h : α → β) (hh : ∀ q ∈ l, f q = some (h q)) :
    l.mapM f = some (l.map h) := by
  induction l with
  | nil => rfl
  | cons a r ih => simp [List.mapM_cons, hh a (by simp), ih (fun q hq => hh q (by simp [hq]))]

theorem Ref.chain_zip (r : Ref) : ∀ (p : List Nat), r.chain p = true → ∀ q ∈ p.zip p.tail, r.linked q.1 q.2 = true := by
  intro p
  induction p with
  | nil => intro _ q hq; simp at hq
  | cons a rest ih =>
    intro h q hq
    cases rest with
    | nil => simp at hq
    | cons b rest' =>
      rw [Ref.chain_cons2] at h
      simp only [Bool.and_eq_true] at h
      simp only [List.tail_cons, List.zip_cons_cons, List.mem_cons] at hq
      rcases hq with rfl | hq
      · exact h.1
      · exact ih h.2 q (by simpa using hq)

namespace DTree
variable {g : G} {P : PTree}

theorem mem_take {l : List Nat} {k x : Nat} (h : x ∈ l.take k) : ∃ k' < k, l[k']? = some x := by
  obtain ⟨j, hj, hx⟩ := List.mem_take_iff_getElem.1 h
  exact ⟨j, by omega, by rw [List.getElem?_eq_getElem (by omega), hx]⟩

/-- the node path is a path of the reference tree: from `a` to `b`, through father-son links, no node twice -/
theorem isPath (h : DTree g P) {a b : Nat} (ha : a ∈ P.nodes) (hb : b ∈ P.nodes) :
    ∃ p, T.nodePath g a b true = .ok p ∧ (refRaw g).isPath a b p = true ∧ (∀ x ∈ p, x ∈ P.nodes) := by
  obtain ⟨m, i, j, hmr, hia, hib, hp, _⟩ := h.nodePath ha hb
  refine ⟨_, hp, ?_, ?_⟩
  · have hpar := h.ref_parent_eq
    have hla_nd := h.wf.lineOf_nodup (P.rank a) a
    have hlb_nd := h.wf.lineOf_nodup (P.rank b) b
    have hA : (lineOf P.par (P.rank a) a).take i ++ [m] = (lineOf P.par (P.rank a) a).take (i + 1) := by
      rw [List.take_add_one, hia]; rfl
    have hB : (lineOf P.par (P.rank b) b).take j ++ [m] = (lineOf P.par (P.rank b) b).take (j + 1) := by
      rw [List.take_add_one, hib]; rfl
    unfold Ref.isPath
    simp only [Bool.and_eq_true]
    refine ⟨⟨⟨?_, ?_⟩, ?_⟩, ?_⟩
    · -- starts at `a`
      have h0 : (lineOf P.par (P.rank a) a)[0]? = some a := by
        have := lineOf_head P.par (P.rank a) a; rwa [List.head?_eq_getElem?] at this
      cases i with
      | zero => rw [h0] at hia; cases hia; simp
      | succ i =>
        have : ((lineOf P.par (P.rank a) a).take (i + 1)).head? = some a := by
          rw [List.head?_take]; simp [lineOf_head]
        simp [List.head?_append, this]
    · -- ends at `b`
      have h0 : (lineOf P.par (P.rank b) b)[0]? = some b := by
        have := lineOf_head P.par (P.rank b) b; rwa [List.head?_eq_getElem?] at this
      cases j with
      | zero => rw [h0] at hib; cases hib; simp
      | succ j =>
        have : ((lineOf P.par (P.rank b) b).take (j + 1)).head? = some b := by
          rw [List.head?_take]; simp [lineOf_head]
        rw [List.getLast?_append]
        simp [List.getLast?_reverse, this]
    · -- father-son links
      have hre : (lineOf P.par (P.rank a) a).take i ++ [m] ++ ((lineOf P.par (P.rank b) b).take j).reverse =
          (lineOf P.par (P.rank a) a).take i ++ m :: ((lineOf P.par (P.rank b) b).take j).reverse := by simp
      rw [hre]
      apply Ref.chain_append
      · rw [hA, ← hpar]; exact Ref.chain_take _ _ _ (Ref.chain_lineOf _ _ _)
      · have : m :: ((lineOf P.par (P.rank b) b).take j).reverse = ((lineOf P.par (P.rank b) b).take j ++ [m]).reverse := by simp
        rw [this, hB, ← hpar]
        exact Ref.chain_reverse _ _ (Ref.chain_take _ _ _ (Ref.chain_lineOf _ _ _))
    · -- no node twice
      rw [hA]
      apply all_count_one
      · exact (List.take_sublist _ _).nodup hla_nd
      · exact (List.take_sublist _ _).nodup hlb_nd
      · intro x hx1 hx2
        obtain ⟨k1, hk1, hg1⟩ := mem_take hx1
        obtain ⟨k2, hk2, hg2⟩ := mem_take hx2
        have r1 := h.wf.lineOf_get _ _ _ _ hg1
        have r2 := h.wf.lineOf_get _ _ _ _ hg2
        have rm := h.wf.lineOf_get _ _ _ _ hib
        have := h.wf.anc_rank (hmr.2 x (by intro s hs; simp at hs; rcases hs with rfl | rfl; exact r1.2; exact r2.2))
        omega
  · intro x hx
    simp only [List.mem_append, List.mem_singleton, List.mem_reverse] at hx
    rcases hx with (hx | hx) | hx
    · exact h.wf.anc_mem (lineOf_mem_anc _ _ _ (List.mem_of_mem_take hx)) ha
    · subst hx; exact h.wf.anc_mem (hmr.1 a (by simp)) ha
    · exact h.wf.anc_mem (lineOf_mem_anc _ _ _ (List.mem_of_mem_take hx)) hb

/-- the edge between a node and its father, as the implementation finds it (`getAnyEdge`) and as the
reference reads it off the edge table -/
theorem anyEdge_linked (h : DTree g P) {x y : Nat} (hx : x ∈ P.nodes) (hy : y ∈ P.nodes)
    (hl : (refRaw g).linked x y = true) : ∃ e, g.getAnyEdge x y = some e ∧ (refRaw g).edgeBetween x y = some e := by
  have hpar := h.ref_parent_eq
  unfold Ref.linked at hl
  unfold Ref.edgeBetween G.getAnyEdge G.getEdge
  rw [hpar] at hl ⊢
  by_cases h1 : P.par x = some y
  · -- `y` is the father of `x`
    have hno : g.outE x y = none := by
      cases ho : g.outE x y with
      | none => rfl
      | some e' =>
        have := (h.arc x y).1 (arc_of_out ho)
        exact absurd h1 (fun hh => T.no_two_cycle h.wf hh this)
    obtain ⟨e, he⟩ := h.arc_out h1
    refine ⟨e, by simp [hno, he], ?_⟩
    simp only [h1, beq_self_eq_true, if_true]
    rw [h.ref_edgeUp ((h.nodes x).1 hx)]
    unfold T.edgeToFather
    rw [h.father ((h.nodes x).1 hx), h1]
    exact he
  · have h2 : P.par y = some x := by
      simp only [Bool.or_eq_true, beq_iff_eq] at hl
      rcases hl with hl | hl
      · exact absurd hl h1
      · exact hl
    obtain ⟨e, he⟩ := h.arc_out h2
    refine ⟨e, by simp [he], ?_⟩
    have : (P.par x == some y) = false := by simpa using h1
    simp only [this, Bool.false_eq_true, if_false, h2, beq_self_eq_true, if_true]
    rw [h.ref_edgeUp ((h.nodes y).1 hy)]
    unfold T.edgeToFather
    rw [h.father ((h.nodes y).1 hy), h2]
    exact he

/-- the edge path lists the edges along the node path -/
theorem edgePath (h : DTree g P) {a b : Nat} (ha : a ∈ P.nodes) (hb : b ∈ P.nodes) :
    ∃ p es, T.nodePath g a b true = .ok p ∧ (refRaw g).isPath a b p = true ∧
      T.edgePath g a b = .ok es ∧ (refRaw g).isEdgePath p es = true := by
  obtain ⟨p, hp, hpath, hmem⟩ := h.isPath ha hb
  have hchain : (refRaw g).chain p = true := by
    unfold Ref.isPath at hpath
    simp only [Bool.and_eq_true] at hpath
    exact hpath.1.2
  have hlinked := Ref.chain_zip _ p hchain
  -- every consecutive pair has its edge
  have hpairs : ∀ q ∈ p.zip p.tail, ∃ e, g.getAnyEdge q.1 q.2 = some e ∧ (refRaw g).edgeBetween q.1 q.2 = some e := by
    intro q hq
    have hm := List.of_mem_zip hq
    exact h.anyEdge_linked (hmem _ hm.1) (hmem _ (List.mem_of_mem_tail hm.2)) (hlinked q hq)
  let f : Nat × Nat → Nat := fun q => (g.getAnyEdge q.1 q.2).getD 0
  have hf : ∀ q ∈ p.zip p.tail, g.getAnyEdge q.1 q.2 = some (f q) := by
    intro q hq; obtain ⟨e, he, _⟩ := hpairs q hq; simp [f, he]
  refine ⟨p, (p.zip p.tail).map f, hp, hpath, ?_, ?_⟩
  · unfold T.edgePath
    rw [hp]
    simp only
    rw [mapM_all_some _ _ f hf]
  · unfold Ref.isEdgePath
    simp only [List.map_map, beq_iff_eq]
    apply List.map_congr_left
    intro q hq
    obtain ⟨e, he, he'⟩ := hpairs q hq
    simp [f, he, he']

end DTree
end Bpp.Graph
