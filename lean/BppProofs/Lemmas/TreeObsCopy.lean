import BppModel.TreeObsCopy
import BppProofs.Lemmas.TreeObs
import BppProofs.Lemmas.ObserverExt
/-! Helper lemmas for C15, object level, round 2: observer copies (`copyObs`, `cloneObs`, `assignObs`),
removal of sons through an observer, and the object-level queries answered by a copy
(`BppModel/TreeObsCopy.lean`).  Property theorems are in `Props/C15ObsCopy.lean`. -/
set_option linter.unusedSimpArgs false
set_option linter.unusedVariables false
namespace Bpp
namespace Graph
open AL

/-! ### two slot vectors inverse of the same map answer the same -/

theorem Inverse.get_unique {v v' : Vec} {m : List (Nat × Nat)} (h : Inverse v m) (h' : Inverse v' m) (i : Nat) :
    Vec.get v i = Vec.get v' i := by
  rcases hg : Vec.get v i with _ | a
  · rcases hg' : Vec.get v' i with _ | b
    · rfl
    · have := h.bwd b i (h'.fwd i b hg')
      rw [hg] at this; cases this
  · exact (h'.bwd a i (h.fwd i a hg)).symm

theorem nodeFromGid_eq_get (o : Obs) (id : Nat) : o.nodeFromGid id = Vec.get o.gN id := by
  unfold Obs.nodeFromGid
  split
  · rename_i h; exact (Vec.get_of_ge h).symm
  · rfl

theorem edgeFromGid_eq_get (o : Obs) (e : Nat) : o.edgeFromGid e = Vec.get o.gE e := by
  unfold Obs.edgeFromGid
  split
  · rename_i h; exact (Vec.get_of_ge h).symm
  · rfl

/-- **the copy maps ids back to the same labels**: `graphidToN_` rebuilt by the copy constructor from
`NToGraphid_` answers like the source's, at every id -/
theorem copyObs_nodeFromGid {g : G} {o : Obs} (hi : OInv g o) (id : Nat) :
    (World.copyObs o).nodeFromGid id = o.nodeFromGid id := by
  rw [nodeFromGid_eq_get, nodeFromGid_eq_get]
  exact (Graph.copyObs_inv hi).nodes.get_unique hi.nodes id

theorem copyObs_edgeFromGid {g : G} {o : Obs} (hi : OInv g o) (e : Nat) :
    (World.copyObs o).edgeFromGid e = o.edgeFromGid e := by
  rw [edgeFromGid_eq_get, edgeFromGid_eq_get]
  exact (Graph.copyObs_inv hi).edges.get_unique hi.edges e

theorem copyObs_nodeFromGid_fun {g : G} {o : Obs} (hi : OInv g o) : (World.copyObs o).nodeFromGid = o.nodeFromGid :=
  funext (copyObs_nodeFromGid hi)

theorem copyObs_edgeFromGid_fun {g : G} {o : Obs} (hi : OInv g o) : (World.copyObs o).edgeFromGid = o.edgeFromGid :=
  funext (copyObs_edgeFromGid hi)

theorem copyObs_nodesFromGids {g : G} {o : Obs} (hi : OInv g o) : (World.copyObs o).nodesFromGids = o.nodesFromGids := by
  funext ids; unfold Obs.nodesFromGids; rw [copyObs_nodeFromGid_fun hi]

theorem copyObs_edgesFromGids {g : G} {o : Obs} (hi : OInv g o) : (World.copyObs o).edgesFromGids = o.edgesFromGids := by
  funext ids; unfold Obs.edgesFromGids; rw [copyObs_edgeFromGid_fun hi]

theorem copyObs_Ng (o : Obs) : (World.copyObs o).Ng = o.Ng := rfl
theorem copyObs_Eg (o : Obs) : (World.copyObs o).Eg = o.Eg := rfl

namespace TW

/-! ### operations of the base observer that leave the graph alone -/

/-- the world left by the operation is in order and has the same graph -/
def SameG (g : G) (w : World) : Prop := WInv w ∧ w.g = g

theorem ofObsOnly_inv {tw : TW} (hi : Inv tw) {r : OOut Unit} (h : r.All (SameG tw.w.g)) : Inv (tw.ofObsOnly r).2 := by
  have key : ∀ w', SameG tw.w.g w' → Inv ({ tw with w := w' } : TW) := by
    intro w' hs
    refine ⟨hs.1, ?_⟩
    intro hv
    have := hi.sound hv
    show T.isTree w'.g = _
    rw [hs.2]; exact this
  unfold ofObsOnly
  cases r with
  | ok u w' => exact key w' h
  | exc kd w' => exact key w' h
  | ub => exact hi

theorem world_copy_sameG {w : World} (hw : WInv w) (j k : Nat) : (w.copy j k).All (SameG w.g) := by
  have h := world_copy_inv hw j k
  unfold World.copy at h ⊢
  rcases hj : w.getObs j with _ | o
  · trivial
  · rw [hj] at h
    simp only at h ⊢
    split
    · trivial
    · rename_i hc
      rw [if_neg hc] at h
      exact ⟨h, rfl⟩

theorem world_assign_sameG {w : World} (hw : WInv w) (j k : Nat) : (w.assign j k).All (SameG w.g) := by
  have h := world_assign_inv hw j k
  unfold World.assign at h ⊢
  split
  · rename_i o o2 hj hk
    rw [hj, hk] at h
    simp only at h
    split
    · exact ⟨hw, rfl⟩
    · rename_i hjk
      rw [if_neg hjk] at h
      split
      · trivial
      · rename_i hc
        rw [if_neg hc] at h
        exact ⟨h, rfl⟩
  · trivial

theorem copyObs_inv {tw : TW} (hi : Inv tw) (j k : Nat) : Inv (tw.copyObs j k).2 :=
  ofObsOnly_inv hi (world_copy_sameG hi.winv j k)

theorem cloneObs_inv {tw : TW} (hi : Inv tw) (j k : Nat) : Inv (tw.cloneObs j k).2 :=
  ofObsOnly_inv hi (world_copy_sameG hi.winv j k)

theorem assignObs_inv {tw : TW} (hi : Inv tw) (j k : Nat) : Inv (tw.assignObs j k).2 :=
  ofObsOnly_inv hi (world_assign_sameG hi.winv j k)

/-! ### removal of sons -/

theorem removeSonG_inv {tw : TW} (hi : Inv tw) (n s : Nat) : Inv (tw.removeSonG n s).2 :=
  touch_inv (liftW_inv hi _ (unlink_state_consistent hi.winv.graph _ _) (G.unlink_notified hi.winv.graph _ _))

theorem removeSon_inv {tw : TW} (hi : Inv tw) (k : Nat) (a s : Obj) : Inv (tw.removeSon k a s).2 := by
  unfold removeSon
  split
  · exact hi
  · split
    · rw [ofG_snd]; exact removeSonG_inv hi _ _
    · exact hi

/-- the loop of `removeSons`, from any state of the accumulator -/
theorem removeSons_fold_inv (ia : Nat) (sons : List Nat) : ∀ acc : GOut Unit × TW, Inv acc.2 →
    Inv (sons.foldl (fun acc s => andThen acc (fun _ t' => t'.removeSonG ia s)) acc).2 := by
  induction sons with
  | nil => intro acc h; exact h
  | cons s rest ih =>
    intro acc h
    simp only [List.foldl_cons]
    apply ih
    exact andThen_prop Inv acc _ h (fun _ t ht => removeSonG_inv ht ia s)

theorem removeSons_inv {tw : TW} (hi : Inv tw) (k : Nat) (a : Obj) : Inv (tw.removeSons k a).2.2 := by
  unfold removeSons
  split
  · exact hi
  · split
    · exact hi
    · rename_i ia _
      split
      · exact hi
      · rename_i sons _
        have h := removeSons_fold_inv ia sons (.ok () tw.w.g, tw) hi
        simp only
        split
        · split
          · exact h
          · exact h
        · exact h

/-! ### what a successful copy / clone / assignment did -/

theorem ofObsOnly_ok {tw tw' : TW} {r : OOut Unit} (h : tw.ofObsOnly r = (.ok, tw')) :
    ∃ u w', r = .ok u w' ∧ tw' = { tw with w := w' } := by
  unfold ofObsOnly at h
  split at h
  · rename_i u w'
    injection h with _ h2
    exact ⟨u, w', rfl, h2.symm⟩
  · injection h with h1 _; cases h1
  · injection h with h1 _; cases h1

theorem world_copy_ok {w w' : World} {j k : Nat} {o : Obs} {u : Unit} (hj : w.getObs j = some o)
    (h : w.copy j k = .ok u w') : w' = w.setObs k (World.copyObs o) := by
  unfold World.copy at h
  rw [hj] at h
  simp only at h
  split at h
  · cases h
  · injection h with _ h; exact h.symm

theorem world_assign_ok {w w' : World} {j k : Nat} {o : Obs} {u : Unit} (hj : w.getObs j = some o) (hjk : j ≠ k)
    (h : w.assign j k = .ok u w') : w' = w.setObs k (World.copyObs o) ∧ k < w.obs.length := by
  unfold World.assign at h
  rw [hj] at h
  rcases hk : w.getObs k with _ | o2 <;> rw [hk] at h
  · cases h
  · simp only [hjk, if_false] at h
    split at h
    · cases h
    · injection h with _ h; exact ⟨h.symm, getObs_lt hk⟩

/-- slot `k` holds `c`, everything else is as before -/
structure Installed (tw : TW) (k : Nat) (c : Obs) (tw' : TW) : Prop where
  slot : tw'.w.getObs k = some c
  graph : tw'.w.g = tw.w.g
  valid : tw'.valid = tw.valid
  others : ∀ i, i ≠ k → tw'.w.getObs i = tw.w.getObs i

theorem installed_setObs (tw : TW) (k : Nat) (c : Obs) (hk : k < tw.w.obs.length) :
    Installed tw k c { tw with w := tw.w.setObs k c } := by
  refine ⟨?_, rfl, rfl, ?_⟩
  · show (tw.w.setObs k c).getObs k = _
    rw [getObs_setObs _ _ _ _ hk]; simp
  · intro i hik
    show (tw.w.setObs k c).getObs i = _
    rw [getObs_setObs _ _ _ _ hk, if_neg (fun hh => hik hh.symm)]

theorem copyObs_ok {tw tw' : TW} {j k : Nat} {o : Obs} (hj : tw.w.getObs j = some o) (hk : k < tw.w.obs.length)
    (h : tw.copyObs j k = (.ok, tw')) : Installed tw k (World.copyObs o) tw' := by
  obtain ⟨u, w', hr, ht⟩ := ofObsOnly_ok h
  rw [ht, world_copy_ok hj hr]
  exact installed_setObs tw k _ hk

theorem assignObs_ok {tw tw' : TW} {j k : Nat} {o : Obs} (hj : tw.w.getObs j = some o) (hjk : j ≠ k)
    (h : tw.assignObs j k = (.ok, tw')) : Installed tw k (World.copyObs o) tw' := by
  obtain ⟨u, w', hr, ht⟩ := ofObsOnly_ok h
  obtain ⟨hw', hk⟩ := world_assign_ok hj hjk hr
  rw [ht, hw']
  exact installed_setObs tw k _ hk

/-! ### the copy answers the tree queries like the source -/

theorem toT_congr {tw tw' : TW} (hg : tw'.w.g = tw.w.g) (hv : tw'.valid = tw.valid) : tw'.toT = tw.toT := by
  unfold toT; rw [hg, hv]

/-- the object-level queries through the copy, on a container with the same graph and flag -/
theorem copy_queries {tw tw' : TW} {o : Obs} (hi : OInv tw.w.g o) (hg : tw'.w.g = tw.w.g) (hv : tw'.valid = tw.valid)
    (a b : Obj) (l : List Obj) :
    tw'.fatherOf (World.copyObs o) a = tw.fatherOf o a ∧
    tw'.edgeToFather (World.copyObs o) a = tw.edgeToFather o a ∧
    tw'.leavesUnderObj (World.copyObs o) a = tw.leavesUnderObj o a ∧
    tw'.subtreeNodesObj (World.copyObs o) a = tw.subtreeNodesObj o a ∧
    tw'.subtreeEdgesObj (World.copyObs o) a = tw.subtreeEdgesObj o a ∧
    tw'.nodePathObj (World.copyObs o) a b = tw.nodePathObj o a b ∧
    tw'.edgePathObj (World.copyObs o) a b = tw.edgePathObj o a b ∧
    tw'.mrcaObj (World.copyObs o) l = tw.mrcaObj o l ∧
    tw'.hasFatherObj (World.copyObs o) a = tw.hasFatherObj o a ∧
    tw'.nbSonsObj (World.copyObs o) a = tw.nbSonsObj o a := by
  have hT := toT_congr hg hv
  have hn := copyObs_nodeFromGid_fun hi
  have he := copyObs_edgeFromGid_fun hi
  have hns := copyObs_nodesFromGids hi
  have hes := copyObs_edgesFromGids hi
  refine ⟨?_, ?_, ?_, ?_, ?_, ?_, ?_, ?_, ?_, ?_⟩
  · simp only [fatherOf, copyObs_Ng, hn, hg]
  · simp only [edgeToFather, copyObs_Ng, he, hg]
  · simp only [leavesUnderObj, listQuery, copyObs_Ng, hns, hes, hg]
  · simp only [subtreeNodesObj, listQuery, copyObs_Ng, hns, hes, hT]
  · simp only [subtreeEdgesObj, listQuery, copyObs_Ng, hns, hes, hT]
  · simp only [nodePathObj, copyObs_Ng, hns, hg]
  · simp only [edgePathObj, copyObs_Ng, hes, hg]
  · simp only [mrcaObj, copyObs_Ng, hn, hg]
  · simp only [hasFatherObj, copyObs_Ng, hg]
  · simp only [nbSonsObj, copyObs_Ng, hg]

/-! ### the number of observer slots never changes -/

theorem deliver_len (w : World) : w.deliver.obs.length = w.obs.length := by simp [World.deliver]
theorem setObs_len (w : World) (k : Nat) (o : Obs) : (w.setObs k o).obs.length = w.obs.length := by simp [World.setObs]

/-- the world left by the operation has as many observer slots -/
def SameLen (n : Nat) (w : World) : Prop := w.obs.length = n

theorem world_createNode_len (w : World) (k a : Nat) : (w.createNode k a).All (SameLen w.obs.length) := by
  unfold World.createNode
  split
  · trivial
  · split
    · exact rfl
    · split
      · exact rfl
      · split
        · exact rfl
        · exact setObs_len _ _ _

theorem world_link_len (w : World) (k a b : Nat) (x : Option Obj) : (w.link k a b x).All (SameLen w.obs.length) := by
  unfold World.link
  rcases w.getObs k with _ | o
  · trivial
  · simp only
    rcases find a o.Ng with _ | ia
    · exact rfl
    · rcases find b o.Ng with _ | ib
      · exact rfl
      · cases x with
        | none =>
          simp only [Bool.false_eq_true, if_false]
          rcases G.link ia ib w.g with ⟨e, g'⟩ | g'
          · exact setObs_len _ _ _
          · exact rfl
        | some x =>
          simp only
          by_cases hx : o.hasEdge x = true
          · rw [if_pos hx]; exact rfl
          · rw [if_neg hx]
            rcases G.link ia ib w.g with ⟨e, g'⟩ | g'
            · exact setObs_len _ _ _
            · exact rfl

theorem world_setRootObj_len (w : World) (k a : Nat) : (w.setRootObj k a).All (SameLen w.obs.length) := by
  unfold World.setRootObj
  split
  · trivial
  · split
    · exact rfl
    · split <;> exact rfl

theorem world_unlink_len (w : World) (k a b : Nat) : (w.unlink k a b).All (SameLen w.obs.length) := by
  unfold World.unlink
  split
  · trivial
  · split
    · split
      · exact deliver_len _
      · exact deliver_len _
    · exact rfl

theorem world_deleteNode_len (w : World) (k a : Nat) : (w.deleteNode k a).All (SameLen w.obs.length) := by
  unfold World.deleteNode
  split
  · trivial
  · split
    · exact rfl
    · split
      · exact deliver_len _
      · simp only
        split
        · trivial
        · split
          · split
            · exact (setObs_len _ _ _).trans (deliver_len _)
            · exact deliver_len _
          · exact deliver_len _

theorem world_copy_len (w : World) (j k : Nat) : (w.copy j k).All (SameLen w.obs.length) := by
  unfold World.copy
  split
  · trivial
  · split
    · trivial
    · exact setObs_len _ _ _

theorem world_assign_len (w : World) (j k : Nat) : (w.assign j k).All (SameLen w.obs.length) := by
  unfold World.assign
  split
  · split
    · exact rfl
    · split
      · trivial
      · exact setObs_len _ _ _
  · trivial

def Slots (n : Nat) (tw : TW) : Prop := tw.w.obs.length = n

theorem liftW_slots {α : Type} {n : Nat} {tw : TW} (h : Slots n tw) (r : GOut α) : Slots n (tw.liftW r).2 := by
  unfold Slots; rw [liftW_w, deliver_len]; exact h

theorem touch_slots {n : Nat} {r : GOut Unit × TW} (h : Slots n r.2) : Slots n (touch r).2 := by
  unfold Slots; rw [touch_w]; exact h

theorem setFatherG_slots {n : Nat} {tw : TW} (h : Slots n tw) (a f : Nat) : Slots n (tw.setFatherG a f).2 := by
  unfold setFatherG
  split
  · exact h
  · split
    · exact h
    · apply touch_slots
      apply andThen_prop (Slots n)
      · split
        · split
          · exact h
          · exact liftW_slots h _
        · exact h
      · intro _ t ht; exact liftW_slots ht _

theorem addSonG_slots {n : Nat} {tw : TW} (h : Slots n tw) (a s : Nat) : Slots n (tw.addSonG a s).2 :=
  touch_slots (liftW_slots h _)

theorem removeSonG_slots {n : Nat} {tw : TW} (h : Slots n tw) (a s : Nat) : Slots n (tw.removeSonG a s).2 :=
  touch_slots (liftW_slots h _)

theorem ofO_slots {n : Nat} {tw : TW} (h : Slots n tw) {r : OOut Unit} {b : Bool} (hr : r.All (SameLen tw.w.obs.length)) :
    Slots n (tw.ofO r b).2 := by
  unfold ofO
  cases r with
  | ok u w' => exact (show w'.obs.length = _ from hr).trans h
  | exc kd w' => exact (show w'.obs.length = _ from hr).trans h
  | ub => exact h

theorem ofObsOnly_slots {n : Nat} {tw : TW} (h : Slots n tw) {r : OOut Unit} (hr : r.All (SameLen tw.w.obs.length)) :
    Slots n (tw.ofObsOnly r).2 := by
  unfold ofObsOnly
  cases r with
  | ok u w' => exact (show w'.obs.length = _ from hr).trans h
  | exc kd w' => exact (show w'.obs.length = _ from hr).trans h
  | ub => exact h

theorem setFather_slots {n : Nat} {tw : TW} (h : Slots n tw) (k : Nat) (a f : Obj) (x : Option Obj) :
    Slots n (tw.setFather k a f x).2 := by
  unfold setFather
  split
  · exact h
  · split
    · rename_i ia ifa _ _
      cases x with
      | none => simp only; rw [ofG_snd]; exact setFatherG_slots h _ _
      | some x =>
        simp only
        split
        · exact h
        · exact h
        · have h1 := setFatherG_slots h ia ifa
          rw [← ofG_snd] at h1
          rcases hr : ofG (tw.setFatherG ia ifa) with ⟨res, tw1⟩
          rw [hr] at h1
          simp only at h1
          cases res with
          | ok =>
            simp only
            split
            · split
              · exact (setObs_len _ _ _).trans h1
              · exact h1
            · exact h1
            · exact h1
          | exc kd => exact h1
          | ub => exact h1
    · exact h

theorem addSon_slots {n : Nat} {tw : TW} (h : Slots n tw) (k : Nat) (a s : Obj) (x : Option Obj) :
    Slots n (tw.addSon k a s x).2 := by
  unfold addSon
  cases x with
  | some x => exact ofO_slots h (world_link_len _ _ _ _ _)
  | none =>
    simp only
    split
    · exact h
    · split
      · rw [ofG_snd]; exact addSonG_slots h _ _
      · exact h

theorem step_slots {n : Nat} {tw : TW} (h : Slots n tw) (op : TWOp) : Slots n (tw.step op) := by
  cases op with
  | createNode k a => exact ofO_slots h (world_createNode_len _ _ _)
  | link k a b x => exact ofO_slots h (world_link_len _ _ _ _ _)
  | unlink k a b => exact ofO_slots h (world_unlink_len _ _ _ _)
  | deleteNode k a => exact ofO_slots h (world_deleteNode_len _ _ _)
  | addSon k a s x => exact addSon_slots h k a s x
  | setFather k a f x => exact setFather_slots h k a f x
  | rootAt k a =>
    simp only [step]
    rcases hr : tw.rootAt k a with r | _ | _ | _
    · show r.2.w.obs.length = n
      rw [rootAt_obs hr]; exact h
    · exact h
    · exact h
    · exact h
  | isValid => exact h

theorem removeSon_slots {n : Nat} {tw : TW} (h : Slots n tw) (k : Nat) (a s : Obj) : Slots n (tw.removeSon k a s).2 := by
  unfold removeSon
  split
  · exact h
  · split
    · rw [ofG_snd]; exact removeSonG_slots h _ _
    · exact h

theorem removeSons_fold_slots {n : Nat} (ia : Nat) (sons : List Nat) : ∀ acc : GOut Unit × TW, Slots n acc.2 →
    Slots n (sons.foldl (fun acc s => andThen acc (fun _ t' => t'.removeSonG ia s)) acc).2 := by
  induction sons with
  | nil => intro acc h; exact h
  | cons s rest ih =>
    intro acc h
    simp only [List.foldl_cons]
    apply ih
    exact andThen_prop (Slots n) acc _ h (fun _ t ht => removeSonG_slots ht ia s)

theorem removeSons_slots {n : Nat} {tw : TW} (h : Slots n tw) (k : Nat) (a : Obj) : Slots n (tw.removeSons k a).2.2 := by
  unfold removeSons
  split
  · exact h
  · split
    · exact h
    · rename_i ia _
      split
      · exact h
      · rename_i sons _
        have h' := removeSons_fold_slots ia sons (.ok () tw.w.g, tw) h
        simp only
        split
        · split
          · exact h'
          · exact h'
        · exact h'

theorem stepX_slots {n : Nat} {tw : TW} (h : Slots n tw) (op : TWOpX) : Slots n (tw.stepX op) := by
  cases op with
  | base op => exact step_slots h op
  | copy j k => exact ofObsOnly_slots h (world_copy_len _ _ _)
  | clone j k => exact ofObsOnly_slots h (world_copy_len _ _ _)
  | assign j k => exact ofObsOnly_slots h (world_assign_len _ _ _)
  | removeSon k a s => exact removeSon_slots h k a s
  | removeSons k a => exact removeSons_slots h k a
  | setRoot k a => exact ofO_slots h (world_setRootObj_len _ _ _)

theorem runX_slots {n : Nat} (ops : List TWOpX) : ∀ tw : TW, Slots n tw → Slots n (tw.runX ops) := by
  induction ops with
  | nil => intro tw h; exact h
  | cons op r ih => intro tw h; exact ih _ (stepX_slots h op)

theorem stepX_inv {tw : TW} (hi : Inv tw) (op : TWOpX) : Inv (tw.stepX op) := by
  cases op with
  | base op => exact step_inv hi op
  | copy j k => exact copyObs_inv hi j k
  | clone j k => exact cloneObs_inv hi j k
  | assign j k => exact assignObs_inv hi j k
  | removeSon k a s => exact removeSon_inv hi k a s
  | removeSons k a => exact removeSons_inv hi k a
  | setRoot k a => exact ofO_inv hi (world_setRootObj_inv hi.winv k a)

theorem runX_inv (ops : List TWOpX) : ∀ tw : TW, Inv tw → Inv (tw.runX ops) := by
  induction ops with
  | nil => intro tw hi; exact hi
  | cons op r ih => intro tw hi; exact ih _ (stepX_inv hi op)

end TW
end Graph
end Bpp
