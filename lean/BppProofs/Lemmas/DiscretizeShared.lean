import BppModel.DiscretizeShared
import Mathlib.Data.List.Nodup
import Mathlib.Data.List.Range
/-!
C09: helper lemmas for the pointer model of distribution objects (`BppModel/DiscretizeShared.lean`).
Everything here is structural (about addresses), hence generic over the scalar type: it holds at
`ℝ` and at `Float` alike.
-/
set_option linter.unusedSectionVars false

namespace Bpp.Discretize
open Bpp

variable {α : Type} [Scalar α]

/-! ## lists -/

theorem split_at {β : Type} (l : List β) (i : Nat) (o : β) (h : l[i]? = some o) :
    l = l.take i ++ o :: l.drop (i + 1) ∧ (l.take i).length = i := by
  induction l generalizing i with
  | nil => simp at h
  | cons a t ih =>
    cases i with
    | zero => simp at h; subst h; simp
    | succ k =>
      simp only [List.getElem?_cons_succ] at h
      obtain ⟨h1, h2⟩ := ih k h
      refine ⟨?_, ?_⟩
      · simp only [List.take_succ_cons, List.drop_succ_cons, List.cons_append]
        exact congrArg (List.cons a) h1
      · simp [List.take_succ_cons, h2]

theorem set_split {β : Type} (l : List β) (i : Nat) (o x : β) (h : l[i]? = some o) :
    l.set i x = l.take i ++ x :: l.drop (i + 1) := by
  have hlt : i < l.length := by
    by_contra hh
    rw [List.getElem?_eq_none (by omega)] at h; cases h
  rw [List.set_eq_take_append_cons_drop, if_pos hlt]

/-! ## the invariant -/

/-- **Owned** for one leaf: the constraint of its tie-able parameters is the constructor's or its
*own* domain object; a compound's copies are constrained by the constructor's constraint or by the
domain object of the component they mirror, and then the component's own parameter is tied too -/
def SlotOK (s : Slot α) : Prop :=
  (s.tie = none ∨ s.tie = some s.id) ∧ (s.ctie = none ∨ (s.ctie = some s.id ∧ s.tie = some s.id))

def World.allIds (w : World α) : List Nat := w.objs.flatMap TObj.ids

/-- a well-formed world: every tie is own, every domain object belongs to exactly one leaf, and
the addresses in use lie below the allocation counter -/
structure World.WF (w : World α) : Prop where
  owned : ∀ o ∈ w.objs, ∀ s ∈ o.slots, SlotOK s
  nodup : w.allIds.Nodup
  fresh : ∀ a ∈ w.allIds, a < w.next

theorem wf_empty : (World.empty : World α).WF := by
  refine ⟨?_, ?_, ?_⟩
  · intro o ho; simp [World.empty] at ho
  · simp [World.allIds, World.empty]
  · intro a ha; simp [World.allIds, World.empty] at ha

/-! ## copies -/

theorem cloneSlot_ok (f : Nat) (s : Slot α) (h : SlotOK s) : SlotOK (cloneSlot f s) := by
  obtain ⟨h1, h2⟩ := h
  unfold cloneSlot SlotOK
  rcases h1 with ht | ht
  · -- not tied: the compound's copies are not tied either
    have hc : s.ctie = none := by
      rcases h2 with h | ⟨_, h⟩
      · exact h
      · rw [ht] at h; cases h
    simp [ht, hc]
  · rcases h2 with hc | ⟨hc, _⟩
    · simp [ht, hc]
    · simp [ht, hc]

theorem cloneSlot_id (f : Nat) (s : Slot α) : (cloneSlot f s).id = f := rfl

theorem cloneSlots_ids (f : Nat) (ss : List (Slot α)) :
    (cloneSlots f ss).map (·.id) = List.range' f ss.length := by
  induction ss generalizing f with
  | nil => rfl
  | cons s t ih => simp [cloneSlots, cloneSlot_id, ih, List.range'_succ]

theorem cloneSlots_ok (f : Nat) (ss : List (Slot α)) (h : ∀ s ∈ ss, SlotOK s) :
    ∀ s ∈ cloneSlots f ss, SlotOK s := by
  induction ss generalizing f with
  | nil => intro s hs; cases hs
  | cons a t ih =>
    intro s hs
    simp only [cloneSlots, List.mem_cons] at hs
    rcases hs with rfl | hs
    · exact cloneSlot_ok f a (h a (by simp))
    · exact ih (f + 1) (fun x hx => h x (by simp [hx])) s hs

theorem cloneSlots_length (f : Nat) (ss : List (Slot α)) : (cloneSlots f ss).length = ss.length := by
  induction ss generalizing f with
  | nil => rfl
  | cons s t ih => simp [cloneSlots, ih]

/-! ## well-formedness is kept by replacing an object by one with the same addresses, and by
appending / installing an object with fresh addresses -/

theorem allIds_put (w : World α) (i : Nat) (o o' : TObj α) (h : w.objs[i]? = some o) (hid : o'.ids = o.ids) :
    (w.put i o').allIds = w.allIds := by
  unfold World.allIds World.put
  simp only
  rw [set_split w.objs i o o' h]
  conv_rhs => rw [(split_at w.objs i o h).1]
  simp [List.flatMap_append, List.flatMap_cons, hid]

theorem mem_put (w : World α) (i : Nat) (o' x : TObj α) (hx : x ∈ (w.put i o').objs) : x = o' ∨ x ∈ w.objs := by
  unfold World.put at hx
  simp only at hx
  rcases List.mem_or_eq_of_mem_set hx with h | h
  · exact Or.inr h
  · exact Or.inl h

/-- replacing an object by one with the same addresses whose slots are fine -/
theorem wf_put (w : World α) (hw : w.WF) (i : Nat) (o o' : TObj α) (h : w.objs[i]? = some o)
    (hid : o'.ids = o.ids) (hok : ∀ s ∈ o'.slots, SlotOK s) : (w.put i o').WF := by
  refine ⟨?_, ?_, ?_⟩
  · intro x hx
    rcases mem_put w i o' x hx with rfl | hx
    · exact hok
    · exact hw.owned x hx
  · rw [allIds_put w i o o' h hid]; exact hw.nodup
  · rw [allIds_put w i o o' h hid]; exact hw.fresh

theorem fresh_range_props (next n : Nat) (ids : List Nat) (hf : ∀ a ∈ ids, a < next) :
    (List.range' next n).Nodup ∧ ∀ a ∈ ids, ∀ b ∈ List.range' next n, a ≠ b := by
  refine ⟨List.nodup_range' 1, ?_⟩
  intro a ha b hb
  have := hf a ha
  rw [List.mem_range'] at hb
  obtain ⟨k, _, rfl⟩ := hb
  omega

/-- appending an object whose addresses are `next, next+1, …` -/
theorem wf_append (w : World α) (hw : w.WF) (o : TObj α) (n : Nat)
    (hid : o.ids = List.range' w.next n) (hok : ∀ s ∈ o.slots, SlotOK s) :
    ({ objs := w.objs ++ [o], next := w.next + n } : World α).WF := by
  obtain ⟨hr1, hr2⟩ := fresh_range_props w.next n w.allIds hw.fresh
  refine ⟨?_, ?_, ?_⟩
  · intro x hx
    simp only [List.mem_append, List.mem_singleton] at hx
    rcases hx with hx | rfl
    · exact hw.owned x hx
    · exact hok
  · show (List.flatMap TObj.ids (w.objs ++ [o])).Nodup
    rw [List.flatMap_append]
    simp only [List.flatMap_cons, List.flatMap_nil, List.append_nil, hid]
    exact List.nodup_append.2 ⟨hw.nodup, hr1, hr2⟩
  · intro a ha
    change a ∈ List.flatMap TObj.ids (w.objs ++ [o]) at ha
    rw [List.flatMap_append] at ha
    simp only [List.flatMap_cons, List.flatMap_nil, List.append_nil, hid, List.mem_append] at ha
    show a < w.next + n
    rcases ha with ha | ha
    · have := hw.fresh a ha; omega
    · rw [List.mem_range'] at ha; obtain ⟨k, hk, rfl⟩ := ha; omega

/-- installing, in place of object `i`, an object whose addresses are `next, next+1, …` -/
theorem wf_install (w : World α) (hw : w.WF) (i : Nat) (old o : TObj α) (n : Nat) (h : w.objs[i]? = some old)
    (hid : o.ids = List.range' w.next n) (hok : ∀ s ∈ o.slots, SlotOK s) :
    ({ (w.put i o) with next := w.next + n } : World α).WF := by
  obtain ⟨hr1, hr2⟩ := fresh_range_props w.next n w.allIds hw.fresh
  have hsplit := (split_at w.objs i old h).1
  have hall : w.allIds = (w.objs.take i).flatMap TObj.ids ++ (old.ids ++ (w.objs.drop (i + 1)).flatMap TObj.ids) := by
    unfold World.allIds
    conv_lhs => rw [hsplit]
    simp [List.flatMap_append, List.flatMap_cons]
  have hnew : (w.put i o).allIds = (w.objs.take i).flatMap TObj.ids ++ (List.range' w.next n ++ (w.objs.drop (i + 1)).flatMap TObj.ids) := by
    unfold World.allIds World.put
    simp only
    rw [set_split w.objs i old o h]
    simp [List.flatMap_append, List.flatMap_cons, hid]
  have hnd := hw.nodup
  rw [hall] at hnd
  obtain ⟨nA, nBC, dA⟩ := List.nodup_append.1 hnd
  obtain ⟨_, nC, dBC⟩ := List.nodup_append.1 nBC
  have memA : ∀ a ∈ (w.objs.take i).flatMap TObj.ids, a ∈ w.allIds := by
    intro a ha; rw [hall]; exact List.mem_append_left _ ha
  have memC : ∀ a ∈ (w.objs.drop (i + 1)).flatMap TObj.ids, a ∈ w.allIds := by
    intro a ha; rw [hall]; exact List.mem_append_right _ (List.mem_append_right _ ha)
  refine ⟨?_, ?_, ?_⟩
  · intro x hx
    rcases mem_put w i o x hx with rfl | hx
    · exact hok
    · exact hw.owned x hx
  · show (w.put i o).allIds.Nodup
    rw [hnew]
    refine List.nodup_append.2 ⟨nA, List.nodup_append.2 ⟨hr1, nC, ?_⟩, ?_⟩
    · intro a ha b hb; exact (hr2 b (memC b hb) a ha).symm
    · intro a ha b hb
      rcases List.mem_append.1 hb with hb | hb
      · exact hr2 a (memA a ha) b hb
      · exact dA a ha b (List.mem_append_right _ hb)
  · intro a ha
    change a ∈ (w.put i o).allIds at ha
    rw [hnew] at ha
    show a < w.next + n
    rcases List.mem_append.1 ha with ha | ha
    · have := hw.fresh a (memA a ha); omega
    · rcases List.mem_append.1 ha with ha | ha
      · rw [List.mem_range'] at ha; obtain ⟨k, hk, rfl⟩ := ha; omega
      · have := hw.fresh a (memC a ha); omega

/-! ## what the operations on one object do to its slots -/

/-- the pointers of a slot -/
def Slot.ptr (s : Slot α) : Nat × Option Nat × Option Nat := (s.id, s.tie, s.ctie)

theorem slots_set_cvals (ss : List (Slot α)) (k : Nat) (s : Slot α) (cv : List (String × α)) (h : ss[k]? = some s) :
    (ss.set k { s with cvals := cv }).map Slot.ptr = ss.map Slot.ptr := by
  induction ss generalizing k with
  | nil => rfl
  | cons a t ih =>
    cases k with
    | zero => simp at h; subst h; simp [Slot.ptr]
    | succ j => simp only [List.getElem?_cons_succ] at h; simp [ih j h]

/-- `setParameterValue` changes no pointer -/
theorem setP_ptrs (w : World α) (o : TObj α) (orc : Nat → Parent α) (name : String) (v : α) :
    (o.setP w orc name v).1.slots.map Slot.ptr = o.slots.map Slot.ptr := by
  unfold TObj.setP
  split
  · rfl
  · rfl
  · unfold TObj.setDirect
    split
    · split <;> rfl
    · rfl
  · rename_i k nm _
    unfold TObj.setNested
    split
    · rename_i l s hl hs
      split
      · have hset := slots_set_cvals o.slots k s (setCval s.cvals nm v) hs
        split <;> dsimp only <;> split <;> first | rfl | exact hset
      · rfl
    · rfl

theorem ptrs_ok (ss ss' : List (Slot α)) (h : ss'.map Slot.ptr = ss.map Slot.ptr) (hok : ∀ s ∈ ss, SlotOK s) :
    ∀ s ∈ ss', SlotOK s := by
  intro s hs
  have : Slot.ptr s ∈ ss.map Slot.ptr := by rw [← h]; exact List.mem_map_of_mem hs
  obtain ⟨s0, hs0, he⟩ := List.mem_map.1 this
  have h0 := hok s0 hs0
  simp only [Slot.ptr, Prod.mk.injEq] at he
  obtain ⟨e1, e2, e3⟩ := he
  unfold SlotOK at h0 ⊢
  rw [← e1, ← e2, ← e3]; exact h0

theorem ptrs_ids (ss ss' : List (Slot α)) (h : ss'.map Slot.ptr = ss.map Slot.ptr) :
    ss'.map (·.id) = ss.map (·.id) := by
  have := congrArg (List.map Prod.fst) h
  simpa [List.map_map, Function.comp_def, Slot.ptr] using this

/-- a restriction of one leaf keeps its address and the compound's pointer; its tie stays or
becomes its own -/
theorem restrictLeaf_slot (orc : Nat → Parent α) (c : Interval α) (l : Leaf α) (s : Slot α) :
    (restrictLeaf orc c l s).1.2.id = s.id ∧ (restrictLeaf orc c l s).1.2.ctie = s.ctie ∧
    ((restrictLeaf orc c l s).1.2.tie = s.tie ∨ (restrictLeaf orc c l s).1.2.tie = some s.id) := by
  unfold restrictLeaf
  cases h : (l.restrict orc c).2 with
  | some e => simp [h]
  | none =>
    by_cases hk : l.tieableKind = true
    · simp [h, hk]
    · simp [h, hk]

theorem slotOK_retie (s s' : Slot α) (h : SlotOK s) (hid : s'.id = s.id) (hc : s'.ctie = s.ctie)
    (ht : s'.tie = s.tie ∨ s'.tie = some s.id) : SlotOK s' := by
  unfold SlotOK at h ⊢
  rw [hid, hc]
  rcases ht with ht | ht
  · rw [ht]; exact h
  · rw [ht]
    refine ⟨Or.inr rfl, ?_⟩
    rcases h.2 with h2 | ⟨h2, _⟩
    · exact Or.inl h2
    · exact Or.inr ⟨h2, rfl⟩

theorem restrictSubs_slots (orc : Nat → Parent α) (c : Interval α) (ls : List (Leaf α)) (ss : List (Slot α))
    (hok : ∀ s ∈ ss, SlotOK s) :
    (restrictSubs orc c ls ss).1.2.map (·.id) = ss.map (·.id) ∧ ∀ s ∈ (restrictSubs orc c ls ss).1.2, SlotOK s := by
  induction ls generalizing ss with
  | nil => simp [restrictSubs]; exact hok
  | cons l lt ih =>
    cases ss with
    | nil => simp [restrictSubs]
    | cons s st =>
      obtain ⟨e1, e2, e3⟩ := restrictLeaf_slot orc c l s
      have hs' : SlotOK (restrictLeaf orc c l s).1.2 := slotOK_retie s _ (hok s (by simp)) e1 e2 e3
      simp only [restrictSubs]
      split
      · simp only [List.map_cons, e1, true_and]
        intro x hx
        simp only [List.mem_cons] at hx
        rcases hx with rfl | hx
        · exact hs'
        · exact hok x (by simp [hx])
      · obtain ⟨i1, i2⟩ := ih st (fun x hx => hok x (by simp [hx]))
        simp only [List.map_cons, e1, i1, true_and]
        intro x hx
        simp only [List.mem_cons] at hx
        rcases hx with rfl | hx
        · exact hs'
        · exact i2 x hx

/-- `restrictToConstraint` keeps the addresses and the invariant -/
theorem restrict_slots (o : TObj α) (orc : Nat → Parent α) (c : Interval α) (hok : ∀ s ∈ o.slots, SlotOK s) :
    (o.restrict orc c).1.ids = o.ids ∧ ∀ s ∈ (o.restrict orc c).1.slots, SlotOK s := by
  unfold TObj.restrict TObj.ids
  split
  · rename_i l s hst hsl
    obtain ⟨e1, e2, e3⟩ := restrictLeaf_slot orc c l s
    have hs : SlotOK s := hok s (by rw [hsl]; simp)
    simp only [List.map_cons, List.map_nil, hsl, e1, true_and]
    intro x hx
    simp only [List.mem_singleton] at hx
    subst hx
    exact slotOK_retie s _ hs e1 e2 e3
  · rename_i st s hst hsl
    split
    · exact ⟨rfl, hok⟩
    · obtain ⟨e1, e2, e3⟩ := restrictLeaf_slot orc c st.sub s
      have hs : SlotOK s := hok s (by rw [hsl]; simp)
      simp only [List.map_cons, List.map_nil, hsl, e1, true_and]
      intro x hx
      simp only [List.mem_singleton] at hx
      subst hx
      exact slotOK_retie s _ hs e1 e2 e3
  · rename_i _ _ st _
    exact restrictSubs_slots orc c st.subs o.slots hok
  · exact ⟨rfl, hok⟩

/-! ## dereferencing is local in a well-formed world -/

theorem derefLocal_none (o : TObj α) (a : Nat) (h : a ∉ o.ids) : o.derefLocal a = none := by
  unfold TObj.derefLocal
  have : (o.slots.zip o.st.leaves).find? (fun sl => sl.1.id == a) = none := by
    rw [List.find?_eq_none]
    intro x hx hh
    apply h
    have hm : x.1 ∈ o.slots := (List.of_mem_zip (a := x.1) (b := x.2) (by simpa using hx)).1
    simp only [beq_iff_eq] at hh
    unfold TObj.ids
    exact List.mem_map.2 ⟨x.1, hm, hh⟩
  rw [this]; rfl

theorem ids_disjoint_of_nodup {β : Type} (f : β → List Nat) (pre post : List β) (o : β)
    (h : ((pre ++ o :: post).flatMap f).Nodup) (a : Nat) (ha : a ∈ f o) :
    (∀ x ∈ pre, a ∉ f x) ∧ (∀ x ∈ post, a ∉ f x) := by
  rw [List.flatMap_append, List.flatMap_cons] at h
  obtain ⟨_, h2, d1⟩ := List.nodup_append.1 h
  obtain ⟨_, _, d2⟩ := List.nodup_append.1 h2
  constructor
  · intro x hx hax
    exact d1 a (List.mem_flatMap.2 ⟨x, hx, hax⟩) a (List.mem_append_left _ ha) rfl
  · intro x hx hax
    exact d2 a ha a (List.mem_flatMap.2 ⟨x, hx, hax⟩) rfl

/-- in a well-formed world an address of object `o` is resolved inside `o` -/
theorem deref_local (w : World α) (hw : w.WF) (j : Nat) (o : TObj α) (h : w.objs[j]? = some o)
    (a : Nat) (ha : a ∈ o.ids) : w.deref a = o.derefLocal a := by
  obtain ⟨hsplit, _⟩ := split_at w.objs j o h
  have hnd := hw.nodup
  unfold World.allIds at hnd
  rw [hsplit] at hnd
  obtain ⟨hpre, hpost⟩ := ids_disjoint_of_nodup TObj.ids _ _ o hnd a ha
  unfold World.deref
  rw [hsplit, List.findSome?_append]
  have h1 : List.findSome? (fun o => o.derefLocal a) (List.take j w.objs) = none :=
    List.findSome?_eq_none_iff.2 (fun x hx => derefLocal_none x a (hpre x hx))
  have h2 : List.findSome? (fun o => o.derefLocal a) (List.drop (j + 1) w.objs) = none :=
    List.findSome?_eq_none_iff.2 (fun x hx => derefLocal_none x a (hpost x hx))
  rw [h1, List.findSome?_cons, h2]
  simp only [Option.none_or]
  cases o.derefLocal a <;> rfl

/-! ## the view of an object is local in a well-formed world -/

def TObj.localPeek (o : TObj α) (t : Option Nat) : Option (Interval α) := t.bind o.derefLocal

/-- the view computed from the object alone -/
def TObj.localView (o : TObj α) : View α :=
  { st := o.st,
    params := (o.slots.zip o.st.leaves).map (fun sl => leafParams (o.localPeek sl.1.tie) sl.2),
    copies := match o.st with
      | .leaf _ => []
      | _ => (o.slots.zip o.st.leaves).map (fun sl => copyParams (o.localPeek sl.1.ctie) sl.2 sl.1.cvals) }

theorem peek_local (w : World α) (hw : w.WF) (j : Nat) (o : TObj α) (h : w.objs[j]? = some o)
    (s : Slot α) (hs : s ∈ o.slots) (hok : SlotOK s) :
    w.peek s.tie = o.localPeek s.tie ∧ w.peek s.ctie = o.localPeek s.ctie := by
  have hid : s.id ∈ o.ids := List.mem_map.2 ⟨s, hs, rfl⟩
  have hd := deref_local w hw j o h s.id hid
  unfold World.peek TObj.localPeek
  constructor
  · rcases hok.1 with ht | ht <;> rw [ht]
    · rfl
    · simp [hd]
  · rcases hok.2 with ht | ⟨ht, _⟩ <;> rw [ht]
    · rfl
    · simp [hd]

theorem view_local (w : World α) (hw : w.WF) (j : Nat) (o : TObj α) (h : w.objs[j]? = some o) :
    w.view o = o.localView := by
  have hmem : o ∈ w.objs := List.mem_iff_getElem?.2 ⟨j, h⟩
  have hpk : ∀ sl ∈ o.slots.zip o.st.leaves,
      w.peek sl.1.tie = o.localPeek sl.1.tie ∧ w.peek sl.1.ctie = o.localPeek sl.1.ctie := by
    intro sl hsl
    have hm : sl.1 ∈ o.slots := (List.of_mem_zip (a := sl.1) (b := sl.2) (by simpa using hsl)).1
    exact peek_local w hw j o h sl.1 hm (hw.owned o hmem sl.1 hm)
  unfold World.view TObj.localView
  have e1 : (o.slots.zip o.st.leaves).map (fun sl => leafParams (w.peek sl.1.tie) sl.2) =
      (o.slots.zip o.st.leaves).map (fun sl => leafParams (o.localPeek sl.1.tie) sl.2) :=
    List.map_congr_left (fun sl hsl => by rw [(hpk sl hsl).1])
  have e2 : (o.slots.zip o.st.leaves).map (fun sl => copyParams (w.peek sl.1.ctie) sl.2 sl.1.cvals) =
      (o.slots.zip o.st.leaves).map (fun sl => copyParams (o.localPeek sl.1.ctie) sl.2 sl.1.cvals) :=
    List.map_congr_left (fun sl hsl => by rw [(hpk sl hsl).2])
  rw [e1]
  cases hst : o.st <;> simp only [hst] at e2 ⊢ <;> first | rfl | rw [e2]

/-! ## a copy shows the view of its source -/

theorem getElem?_cloneSlots (f : Nat) (ss : List (Slot α)) (k : Nat) :
    (cloneSlots f ss)[k]? = (ss[k]?).map (cloneSlot (f + k)) := by
  induction ss generalizing f k with
  | nil => simp [cloneSlots]
  | cons a t ih =>
    cases k with
    | zero => simp [cloneSlots]
    | succ j =>
      simp only [cloneSlots, List.getElem?_cons_succ, ih]
      have : f + 1 + j = f + (j + 1) := by omega
      rw [this]

theorem map_zip_congr {β γ δ : Type} (ss ss' : List β) (ls : List γ) (F G : β × γ → δ)
    (hlen : ss'.length = ss.length)
    (h : ∀ (k : Nat) (s s' : β) (l : γ), ss[k]? = some s → ss'[k]? = some s' → ls[k]? = some l → F (s', l) = G (s, l)) :
    (ss'.zip ls).map F = (ss.zip ls).map G := by
  apply List.ext_getElem?
  intro k
  simp only [List.getElem?_map, List.zip, List.getElem?_zipWith]
  cases h1 : ss[k]? with
  | none =>
    have : ss'[k]? = none := by
      rw [List.getElem?_eq_none_iff] at h1 ⊢; omega
    simp [this]
  | some s =>
    have hk : k < ss'.length := by
      have := (List.getElem?_eq_some_iff.1 h1).1; omega
    have h2 : ss'[k]? = some ss'[k] := List.getElem?_eq_getElem hk
    rw [h2]
    cases h3 : ls[k]? with
    | none => simp
    | some l => simp [h k s ss'[k] l h1 h2 h3]

theorem zip_find_own (ss : List (Slot α)) (ls : List (Leaf α)) (hn : (ss.map (·.id)).Nodup)
    (s : Slot α) (l : Leaf α) (k : Nat) (hs : ss[k]? = some s) (hl : ls[k]? = some l) :
    ((ss.zip ls).find? (fun sl => sl.1.id == s.id)) = some (s, l) := by
  induction ss generalizing ls k with
  | nil => simp at hs
  | cons a t ih =>
    cases ls with
    | nil => simp at hl
    | cons b u =>
      cases k with
      | zero => simp at hs hl; subst hs; subst hl; simp
      | succ j =>
        simp only [List.getElem?_cons_succ] at hs hl
        simp only [List.map_cons, List.nodup_cons] at hn
        have hne : a.id ≠ s.id := by
          intro e
          apply hn.1
          rw [e]
          exact List.mem_map.2 ⟨s, List.mem_of_getElem? hs, rfl⟩
        simp only [List.zip_cons_cons, List.find?_cons]
        have : (a.id == s.id) = false := by simpa using hne
        simp only [this]
        exact ih u hn.2 j hs hl

theorem cloneSlots_nodup (f : Nat) (ss : List (Slot α)) : ((cloneSlots f ss).map (·.id)).Nodup := by
  rw [cloneSlots_ids]; exact List.nodup_range' 1

/-- the copy (fresh addresses, ties re-tied) has the local view of its source -/
theorem localView_clone (f : Nat) (o : TObj α) (hn : o.ids.Nodup) (hok : ∀ s ∈ o.slots, SlotOK s) :
    (⟨o.st, cloneSlots f o.slots⟩ : TObj α).localView = o.localView := by
  have key : ∀ (k : Nat) (s s' : Slot α) (l : Leaf α), o.slots[k]? = some s → (cloneSlots f o.slots)[k]? = some s' → o.st.leaves[k]? = some l →
      TObj.localPeek ⟨o.st, cloneSlots f o.slots⟩ s'.tie = o.localPeek s.tie ∧
      TObj.localPeek ⟨o.st, cloneSlots f o.slots⟩ s'.ctie = o.localPeek s.ctie ∧ s'.cvals = s.cvals := by
    intro k s s' l hs hs' hl
    rw [getElem?_cloneSlots, hs] at hs'
    simp only [Option.map_some, Option.some.injEq] at hs'
    have hso : SlotOK s := hok s (List.mem_of_getElem? hs)
    have hd : o.derefLocal s.id = some l.top.dom.toInterval := by
      unfold TObj.derefLocal
      rw [zip_find_own o.slots o.st.leaves hn s l k hs hl]; rfl
    have hs'k : (cloneSlots f o.slots)[k]? = some (cloneSlot (f + k) s) := by rw [getElem?_cloneSlots, hs]; rfl
    have hd' : TObj.derefLocal ⟨o.st, cloneSlots f o.slots⟩ (f + k) = some l.top.dom.toInterval := by
      unfold TObj.derefLocal
      have := zip_find_own (cloneSlots f o.slots) o.st.leaves (cloneSlots_nodup f o.slots) (cloneSlot (f + k) s) l k hs'k hl
      simp only [cloneSlot_id] at this
      rw [this]; rfl
    subst hs'
    unfold TObj.localPeek cloneSlot
    rcases hso.1 with ht | ht
    · have hc : s.ctie = none := by
        rcases hso.2 with h | ⟨_, h⟩
        · exact h
        · rw [ht] at h; cases h
      simp [ht, hc]
    · rcases hso.2 with hc | ⟨hc, _⟩
      · simp [ht, hc, hd, hd']
      · simp [ht, hc, hd, hd']
  have hlen : (cloneSlots f o.slots).length = o.slots.length := cloneSlots_length f o.slots
  unfold TObj.localView
  have e1 := map_zip_congr o.slots (cloneSlots f o.slots) o.st.leaves
    (fun sl => leafParams (TObj.localPeek ⟨o.st, cloneSlots f o.slots⟩ sl.1.tie) sl.2)
    (fun sl => leafParams (o.localPeek sl.1.tie) sl.2) hlen
    (fun k s s' l h1 h2 h3 => by simp only; rw [(key k s s' l h1 h2 h3).1])
  have e2 := map_zip_congr o.slots (cloneSlots f o.slots) o.st.leaves
    (fun sl => copyParams (TObj.localPeek ⟨o.st, cloneSlots f o.slots⟩ sl.1.ctie) sl.2 sl.1.cvals)
    (fun sl => copyParams (o.localPeek sl.1.ctie) sl.2 sl.1.cvals) hlen
    (fun k s s' l h1 h2 h3 => by simp only; rw [(key k s s' l h1 h2 h3).2.1, (key k s s' l h1 h2 h3).2.2])
  simp only at e1 e2 ⊢
  rw [e1]
  cases hst : o.st <;> simp only [hst] at e2 ⊢ <;> first | rfl | rw [e2]

theorem ids_nodup_of_wf (w : World α) (hw : w.WF) (o : TObj α) (h : o ∈ w.objs) : o.ids.Nodup := by
  have := hw.nodup
  unfold World.allIds at this
  exact (List.nodup_flatMap.1 this).1 o h

/-! ## by-value operations with the own domain as the explicit constraint -/

/-- what the by-value model takes as the constraint of the tie-able parameters: the object's own
domain when the flag says tied -/
def ownTc (tied : Bool) (d : DD α) : Option (Interval α) := if tied then some d.dom.toInterval else none

/-- the by-value flag of a leaf: its tie-able parameters are constrained by the domain -/
def tiedFlag : Leaf α → Bool
  | .fam _ f => f.tpTied
  | .const c => c.tied
  | .simple s => s.tied

theorem rejectsC_own (f : FamSt α) (slot : Nat) (v : α) :
    rejectsC (ownTc f.tpTied f.dd) f slot v = rejects f slot v := by
  unfold rejectsC rejects paramConstraint ownTc rejectedBy
  by_cases h : (f.fam == .texp && slot == 2) = true
  · simp only [h, if_true]
    simp only [Bool.and_eq_true, beq_iff_eq] at h
    obtain ⟨h1, h2⟩ := h
    subst h2
    rw [h1]
    cases f.tpTied <;> simp
  · simp only [h]
    simp

theorem setParameterValueC_own (oracle : Parent α) (f : FamSt α) (name : String) (v : α) :
    setParameterValueC (ownTc f.tpTied f.dd) oracle f name v = setParameterValue oracle f name v := by
  unfold setParameterValueC setParameterValue
  cases paramSlot f name with
  | none => rfl
  | some slot => simp only [rejectsC_own]

theorem const_setPC_own (c : ConstSt α) (name : String) (v : α) :
    c.setPC (ownTc c.tied c.dd) name v = c.setP name v := by
  unfold ConstSt.setPC ConstSt.setP ownTc rejectedBy Dom.isCorrect
  cases c.tied <;> simp

theorem const_matchPC_own (c : ConstSt α) (name : String) (v : α) :
    c.matchPC (ownTc c.tied c.dd) name v = c.matchP name v := by
  unfold ConstSt.matchPC ConstSt.matchP ownTc rejectedBy Dom.isCorrect
  cases c.tied <;> simp

theorem simple_rejectsC_own (s : SimpleSt α) (sl : Bool × Nat) (v : α) :
    SimpleSt.rejectsC (ownTc s.tied s.dd) sl v = SimpleSt.rejects s sl v := by
  unfold SimpleSt.rejectsC SimpleSt.rejects ownTc rejectedBy Dom.isCorrect
  cases s.tied <;> simp

theorem simple_setPC_own (s : SimpleSt α) (name : String) (v : α) :
    s.setPC (ownTc s.tied s.dd) name v = s.setP name v := by
  unfold SimpleSt.setPC SimpleSt.setP
  cases SimpleSt.slotOf s name with
  | none => rfl
  | some sl => simp only [simple_rejectsC_own]; rfl

theorem simple_matchPC_own (s : SimpleSt α) (name : String) (v : α) :
    s.matchPC (ownTc s.tied s.dd) name v = s.matchP name v := by
  unfold SimpleSt.matchPC SimpleSt.matchP
  cases SimpleSt.slotOf s name with
  | none => rfl
  | some sl => simp only [simple_rejectsC_own]; rfl

/-! ## one step keeps a world well formed -/

theorem mixComponents_spec (w : World α) (hw : w.WF) (is : List Nat) (fresh : Nat) (comps : List (Leaf α × Slot α))
    (h : mixComponents w fresh is = some comps) :
    (comps.map (·.2)).map (·.id) = List.range' fresh comps.length ∧ ∀ s ∈ comps.map (·.2), SlotOK s := by
  induction is generalizing fresh comps with
  | nil => simp [mixComponents] at h; subst h; simp
  | cons i t ih =>
    simp only [mixComponents] at h
    split at h
    · rename_i o ho
      split at h
      · rename_i l s hst hsl
        cases hr : mixComponents w (fresh + 1) t with
        | none => rw [hr] at h; simp at h
        | some r =>
          rw [hr] at h
          simp only [Option.map_some, Option.some.injEq] at h
          subst h
          obtain ⟨i1, i2⟩ := ih (fresh + 1) r hr
          have hmem : o ∈ w.objs := List.mem_iff_getElem?.2 ⟨i, ho⟩
          have hs : SlotOK s := hw.owned o hmem s (by rw [hsl]; simp)
          have hc := cloneSlot_ok fresh s hs
          refine ⟨?_, ?_⟩
          · simp only [List.map_cons, List.length_cons, i1]
            rw [List.range'_succ]
            rfl
          · intro x hx
            simp only [List.map_cons, List.mem_cons] at hx
            rcases hx with rfl | hx
            · unfold SlotOK at hc ⊢
              simp only
              rcases hc.1 with ht | ht
              · exact ⟨Or.inl ht, Or.inl ht⟩
              · exact ⟨Or.inr ht, Or.inr ⟨ht, ht⟩⟩
            · exact i2 x hx
      · simp at h
    · simp at h

/-- **every operation keeps the world well formed** (whether it raises or not) -/
theorem step_wf (orc : Nat → Parent α) (w : World α) (hw : w.WF) (op : WOp α) : (WOp.step orc w op).1.WF := by
  cases op with
  | add l =>
    simp only [WOp.step]
    exact wf_append w hw ⟨.leaf l, [⟨w.next, none, none, []⟩]⟩ 1 (by simp [TObj.ids, List.range'])
      (by intro s hs; simp only [List.mem_singleton] at hs; subst hs; exact ⟨Or.inl rfl, Or.inl rfl⟩)
  | wrapInvar i p inv =>
    simp only [WOp.step]
    split
    · rename_i o ho
      split
      · rename_i l s hst hsl
        split
        · rename_i st _
          have hmem : o ∈ w.objs := List.mem_iff_getElem?.2 ⟨i, ho⟩
          have hs : SlotOK s := hw.owned o hmem s (by rw [hsl]; simp)
          refine wf_put w hw i o _ ho (by simp [TObj.ids, hsl]) ?_
          intro x hx
          simp only [List.mem_singleton] at hx
          subst hx
          unfold SlotOK at hs ⊢
          simp only
          rcases hs.1 with ht | ht
          · exact ⟨Or.inl ht, Or.inl ht⟩
          · exact ⟨Or.inr ht, Or.inr ⟨ht, ht⟩⟩
        · exact hw
      · exact hw
    · exact hw
  | mkMix is ws =>
    simp only [WOp.step]
    split
    · rename_i comps hc
      split
      · rename_i st _
        obtain ⟨h1, h2⟩ := mixComponents_spec w hw is w.next comps hc
        exact wf_append w hw ⟨.mix st, comps.map (·.2)⟩ comps.length (by simpa [TObj.ids] using h1) h2
      · exact hw
    · exact hw
  | clone i =>
    simp only [WOp.step]
    split
    · rename_i o ho
      have hmem : o ∈ w.objs := List.mem_iff_getElem?.2 ⟨i, ho⟩
      exact wf_append w hw ⟨o.st, cloneSlots w.next o.slots⟩ o.slots.length
        (by simp [TObj.ids, cloneSlots_ids]) (cloneSlots_ok w.next o.slots (hw.owned o hmem))
    · exact hw
  | assign src dst =>
    simp only [WOp.step]
    split
    · rename_i o old ho hold
      have hmem : o ∈ w.objs := List.mem_iff_getElem?.2 ⟨src, ho⟩
      exact wf_install w hw dst old ⟨o.st, cloneSlots w.next o.slots⟩ o.slots.length hold
        (by simp [TObj.ids, cloneSlots_ids]) (cloneSlots_ok w.next o.slots (hw.owned o hmem))
    · exact hw
  | setP i name v =>
    simp only [WOp.step]
    split
    · rename_i o ho
      have hmem : o ∈ w.objs := List.mem_iff_getElem?.2 ⟨i, ho⟩
      have hp := setP_ptrs w o orc name v
      exact wf_put w hw i o _ ho (ptrs_ids _ _ hp) (ptrs_ok _ _ hp (hw.owned o hmem))
    · exact hw
  | setN i n =>
    simp only [WOp.step]
    split
    · rename_i o ho
      have hmem : o ∈ w.objs := List.mem_iff_getElem?.2 ⟨i, ho⟩
      exact wf_put w hw i o _ ho rfl (hw.owned o hmem)
    · exact hw
  | setMed i b =>
    simp only [WOp.step]
    split
    · rename_i o ho
      have hmem : o ∈ w.objs := List.mem_iff_getElem?.2 ⟨i, ho⟩
      exact wf_put w hw i o _ ho rfl (hw.owned o hmem)
    · exact hw
  | rediscretize i =>
    simp only [WOp.step]
    split
    · rename_i o ho
      have hmem : o ∈ w.objs := List.mem_iff_getElem?.2 ⟨i, ho⟩
      exact wf_put w hw i o _ ho rfl (hw.owned o hmem)
    · exact hw
  | restrict i c =>
    simp only [WOp.step]
    split
    · rename_i o ho
      have hmem : o ∈ w.objs := List.mem_iff_getElem?.2 ⟨i, ho⟩
      obtain ⟨h1, h2⟩ := restrict_slots o orc c (hw.owned o hmem)
      exact wf_put w hw i o _ ho h1 h2
    · exact hw

/-- an operation changes only its targets: every other object is literally what it was -/
theorem step_frame (orc : Nat → Parent α) (w : World α) (op : WOp α) (j : Nat) (o : TObj α)
    (h : w.objs[j]? = some o) (hj : j ∉ op.targets) : (WOp.step orc w op).1.objs[j]? = some o := by
  have hlt : j < w.objs.length := by
    by_contra hh; rw [List.getElem?_eq_none (by omega)] at h; cases h
  have happ : ∀ x : TObj α, (w.objs ++ [x])[j]? = some o := fun x => by rw [List.getElem?_append_left hlt]; exact h
  have hput : ∀ (i : Nat) (x : TObj α), i ≠ j → (w.put i x).objs[j]? = some o := fun i x hne => by
    unfold World.put; simp only; rw [List.getElem?_set]; simp [hne, h]
  cases op with
  | add l => simp only [WOp.step]; exact happ _
  | wrapInvar i p inv =>
    have hne : i ≠ j := by intro e; apply hj; simp [WOp.targets, e]
    simp only [WOp.step]
    split
    · split
      · split
        · exact hput i _ hne
        · exact h
      · exact h
    · exact h
  | mkMix is ws =>
    simp only [WOp.step]
    split
    · split
      · exact happ _
      · exact h
    · exact h
  | clone i =>
    simp only [WOp.step]
    split
    · exact happ _
    · exact h
  | assign src dst =>
    have hne : dst ≠ j := by intro e; apply hj; simp [WOp.targets, e]
    simp only [WOp.step]
    split
    · exact hput dst _ hne
    · exact h
  | setP i name v =>
    have hne : i ≠ j := by intro e; apply hj; simp [WOp.targets, e]
    simp only [WOp.step]
    split
    · exact hput i _ hne
    · exact h
  | setN i n =>
    have hne : i ≠ j := by intro e; apply hj; simp [WOp.targets, e]
    simp only [WOp.step]
    split
    · exact hput i _ hne
    · exact h
  | setMed i b =>
    have hne : i ≠ j := by intro e; apply hj; simp [WOp.targets, e]
    simp only [WOp.step]
    split
    · exact hput i _ hne
    · exact h
  | rediscretize i =>
    have hne : i ≠ j := by intro e; apply hj; simp [WOp.targets, e]
    simp only [WOp.step]
    split
    · exact hput i _ hne
    · exact h
  | restrict i c =>
    have hne : i ≠ j := by intro e; apply hj; simp [WOp.targets, e]
    simp only [WOp.step]
    split
    · exact hput i _ hne
    · exact h

/-! ## a concrete world on exact rationals (witness and non-vacuity in Props/C09Shared.lean) -/
namespace SharedWitness

/-- a parent that is never consulted (constant distributions do not discretise) -/
def noParent : Nat → Parent Rat := fun _ => ⟨id, id, id⟩

/-- `ConstantDistribution d(3); d.restrictToConstraint([0,10])` -/
def wSrc : World Rat :=
  WOp.run noParent World.empty
    [.add (.const (ConstSt.make 3)), .restrict 0 (Interval.make (.fin 0) (.fin 10) true true 0)]

/-- the rest of the story on a world where object 1 is a copy of object 0: the copy moves to 8
(inside `[0,10]`), then the source is restricted to `[2,4]` -/
def afterCopy (w : World Rat) : World Rat :=
  WOp.run noParent w [.setP 1 "value" 8, .restrict 0 (Interval.make (.fin 2) (.fin 4) true true 0)]

/-- the constraint object 1's `value` has now, and whether all its parameters are accepted -/
def copyStatus (w : World Rat) : Option (Option (Bound Rat × Bound Rat) × Bool) :=
  (w.objs[1]?).map (fun o =>
    let ps := (w.view o).params.flatten
    ((ps.head?.bind (·.constraint)).map (fun i => (i.lo, i.hi)), paramsAccepted ps))

instance : DecidableEq (Bound Rat) := fun a b =>
  match a, b with
  | .negInf, .negInf => isTrue rfl
  | .posInf, .posInf => isTrue rfl
  | .fin x, .fin y => if h : x = y then isTrue (by rw [h]) else isFalse (by intro e; cases e; exact h rfl)
  | .negInf, .fin _ => isFalse (by intro e; cases e)
  | .negInf, .posInf => isFalse (by intro e; cases e)
  | .fin _, .negInf => isFalse (by intro e; cases e)
  | .fin _, .posInf => isFalse (by intro e; cases e)
  | .posInf, .negInf => isFalse (by intro e; cases e)
  | .posInf, .fin _ => isFalse (by intro e; cases e)

end SharedWitness

end Bpp.Discretize
