import BppProofs.Lemmas.TreeBasic
/-
The single-visit traversal `nodesAreMetOnlyOnce_` (`T.metOnce`): unfolding, independence of the
fuel, and the two directions of "the traversal succeeds and meets every node iff the graph is a
rooted tree `P`" (`Matches g P`).
-/
namespace Bpp.Graph
open AL
namespace T

/-- one neighbour in the loop of `nodesAreMetOnlyOnce_` -/
def metStep (g : G) (fuel node origin : Nat) (acc : TRes (Option (List Nat))) (nb : Nat) : TRes (Option (List Nat)) :=
  match acc with
  | .ok (some m) => if !g.directed && origin ≠ node && nb = origin then .ok (some m) else metOnce g fuel nb node m
  | r => r

theorem metOnce_succ (g : G) (fuel node origin : Nat) (met : List Nat) :
    metOnce g (fuel + 1) node origin met =
      if met.contains node then .ok none
      else match g.outNeighbors node with
        | none => .exc
        | some nbs => nbs.foldl (metStep g fuel node origin) (.ok (some (node :: met))) := rfl

/-- the relation we came through, in an undirected graph -/
def Skip (g : G) (node origin nb : Nat) : Prop := g.directed = false ∧ origin ≠ node ∧ nb = origin

instance (g : G) (node origin nb : Nat) : Decidable (Skip g node origin nb) := by unfold Skip; infer_instance

theorem skip_iff (g : G) (node origin nb : Nat) :
    (!g.directed && decide (origin ≠ node) && decide (nb = origin)) = true ↔ Skip g node origin nb := by
  unfold Skip; cases g.directed <;> simp

theorem metStep_some (g : G) (fuel node origin : Nat) (m : List Nat) (nb : Nat) :
    metStep g fuel node origin (.ok (some m)) nb = if Skip g node origin nb then .ok (some m) else metOnce g fuel nb node m := by
  unfold metStep
  by_cases h : Skip g node origin nb
  · rw [if_pos h]; simp only; rw [if_pos ((skip_iff g node origin nb).2 h)]
  · rw [if_neg h]; simp only; rw [if_neg (fun hh => h ((skip_iff g node origin nb).1 hh))]

theorem metFold_stuck (g : G) (fuel node origin : Nat) (r : TRes (Option (List Nat))) (hr : ∀ m, r ≠ .ok (some m)) (l : List Nat) :
    l.foldl (metStep g fuel node origin) r = r := by
  induction l with
  | nil => rfl
  | cons b rest ih =>
    simp only [List.foldl]
    have : metStep g fuel node origin r b = r := by
      unfold metStep
      split
      · rename_i m; exact absurd rfl (hr m)
      · rfl
    rw [this]; exact ih

/-! ### more fuel does not change an answer -/

theorem metOnce_mono (g : G) : ∀ (fuel node origin : Nat) (met : List Nat) (r : TRes (Option (List Nat))),
    metOnce g fuel node origin met = r → r ≠ .fuel → metOnce g (fuel + 1) node origin met = r := by
  intro fuel
  induction fuel with
  | zero => intro node origin met r h hr; simp [metOnce] at h; exact absurd h.symm hr
  | succ f ih =>
    intro node origin met r h hr
    rw [metOnce_succ] at h ⊢
    split
    · rename_i hc; rw [if_pos hc] at h; exact h
    · rename_i hc
      rw [if_neg hc] at h
      cases ho : g.outNeighbors node with
      | none => rw [ho] at h; exact h
      | some nbs =>
        rw [ho] at h
        simp only at h ⊢
        -- the loop, step by step
        have key : ∀ (l : List Nat) (acc : TRes (Option (List Nat))),
            l.foldl (metStep g f node origin) acc = r → l.foldl (metStep g (f + 1) node origin) acc = r := by
          intro l
          induction l with
          | nil => intro acc h; exact h
          | cons b rest ihl =>
            intro acc h
            simp only [List.foldl] at h ⊢
            have hstep : metStep g (f + 1) node origin acc b = metStep g f node origin acc b := by
              cases acc with
              | ok o =>
                cases o with
                | none => rfl
                | some m =>
                  rw [metStep_some, metStep_some]
                  split
                  · rfl
                  · apply ih _ _ _ _ rfl
                    intro hf
                    rw [metStep_some, if_neg (by assumption), hf] at h
                    rw [metFold_stuck _ _ _ _ _ (by intro m; simp)] at h
                    exact hr h.symm
              | exc => rfl
              | fuel => rfl
              | ub => rfl
            rw [hstep]
            exact ihl _ h
        exact key nbs _ h

theorem metOnce_mono_le (g : G) (node origin : Nat) (met : List Nat) {f1 f2 : Nat} (hle : f1 ≤ f2)
    (hr : metOnce g f1 node origin met ≠ .fuel) : metOnce g f2 node origin met = metOnce g f1 node origin met := by
  induction hle with
  | refl => rfl
  | step _ ih => exact metOnce_mono g _ node origin met _ ih hr

/-! ### the traversal never runs out of fuel -/

theorem length_le_nodes (g : G) {l : List Nat} (hn : l.Nodup) (hs : ∀ x ∈ l, g.hasNode x = true) : l.length ≤ g.nodes.length := by
  have : l ⊆ AL.keys g.nodes := fun x hx => (G.mem_keys_hasNode g x).2 (hs x hx)
  have h := List.Nodup.length_le_of_subset hn this
  simpa [AL.keys] using h

/-- the met set stays a duplicate-free list of nodes -/
def MetInv (g : G) (m : List Nat) : Prop := m.Nodup ∧ ∀ x ∈ m, g.hasNode x = true

theorem metOnce_ne_fuel (g : G) : ∀ (fuel node origin : Nat) (met : List Nat), MetInv g met →
    fuel + met.length ≥ g.nodes.length + 1 →
    metOnce g fuel node origin met ≠ .fuel ∧
    ∀ m', metOnce g fuel node origin met = .ok (some m') → MetInv g m' ∧ met.length ≤ m'.length := by
  intro fuel
  induction fuel with
  | zero =>
    intro node origin met hi hf
    have := length_le_nodes g hi.1 hi.2
    omega
  | succ f ih =>
    intro node origin met hi hf
    rw [metOnce_succ]
    split
    · exact ⟨by simp, by intro m' h; cases h⟩
    · rename_i hc
      have hnm : node ∉ met := by simpa using hc
      cases ho : g.outNeighbors node with
      | none => exact ⟨by simp, by intro m' h; cases h⟩
      | some nbs =>
        simp only
        have hnode := (G.outNeighbors_some ho).1
        have key : ∀ (l : List Nat) (m : List Nat), MetInv g m → f + m.length ≥ g.nodes.length + 1 →
            l.foldl (metStep g f node origin) (.ok (some m)) ≠ .fuel ∧
            ∀ m', l.foldl (metStep g f node origin) (.ok (some m)) = .ok (some m') → MetInv g m' ∧ m.length ≤ m'.length := by
          intro l
          induction l with
          | nil =>
            intro m hm _
            exact ⟨by simp, by intro m' h; simp at h; subst h; exact ⟨hm, Nat.le_refl _⟩⟩
          | cons b rest ihl =>
            intro m hm hfm
            simp only [List.foldl]
            rw [metStep_some]
            split
            · exact ihl m hm hfm
            · obtain ⟨h1, h2⟩ := ih b node m hm hfm
              cases hres : metOnce g f b node m with
              | ok o =>
                cases o with
                | none => rw [metFold_stuck _ _ _ _ _ (by intro m; simp)]; exact ⟨by simp, by intro m' h; cases h⟩
                | some m1 =>
                  obtain ⟨hm1, hl1⟩ := h2 m1 hres
                  obtain ⟨h3, h4⟩ := ihl m1 hm1 (by omega)
                  exact ⟨h3, fun m' h => ⟨(h4 m' h).1, by have := (h4 m' h).2; omega⟩⟩
              | exc => rw [metFold_stuck _ _ _ _ _ (by intro m; simp)]; exact ⟨by simp, by intro m' h; cases h⟩
              | fuel => exact absurd hres h1
              | ub => rw [metFold_stuck _ _ _ _ _ (by intro m; simp)]; exact ⟨by simp, by intro m' h; cases h⟩
        have hi1 : MetInv g (node :: met) := by
          refine ⟨List.nodup_cons.2 ⟨hnm, hi.1⟩, ?_⟩
          intro x hx
          rcases List.mem_cons.1 hx with h | h
          · subst h; exact hnode
          · exact hi.2 x h
        obtain ⟨h1, h2⟩ := key nbs (node :: met) hi1 (by simp; omega)
        exact ⟨h1, fun m' h => ⟨(h2 m' h).1, by have := (h2 m' h).2; simp at this; omega⟩⟩

end T
end Bpp.Graph
