import BppProofs.Lemmas.OptimCoord
/-!
Helper lemmas for C10: `DownhillSimplexMethod` on the objective of the harness, over `ℝ`.

Every list the method evaluates the function at (the optimiser's parameters, the vertices, the trial
point, the sums / midpoints) carries the names `ns` of the list given to `init`, so every evaluation
computes `obj (matchPoint pt0 ·)` where `pt0` is the point the function was at when `init` was called
(`Off`: the function never moves off `ns`).  The vertex values `y` are exact (`Exact`), the best vertex
is an argmin of `y` (`rank_argmin`), a trial replaces a vertex only by a strictly better point, the
contraction does not touch the best vertex: the value a step returns is not above any vertex value the
step began with.
-/
set_option linter.unusedSectionVars false
namespace Bpp.Optim
open Bpp

/-! ### `setAll` -/

theorem setAll_names : ∀ (pl : PList ℝ) (vs : List ℝ) (pl' : PList ℝ), setAll pl vs = .ok pl' → names pl' = names pl := by
  intro pl
  induction pl with
  | nil => intro vs pl' h; rw [setAll] at h; simp only [Except.ok.injEq] at h; subst h; rfl
  | cons q r ih =>
    intro vs pl' h
    cases vs with
    | nil => rw [setAll] at h; simp only [Except.ok.injEq] at h; subst h; rfl
    | cons v vs =>
      rw [setAll] at h
      split at h
      · cases h
      · rename_i p' hs
        split at h
        · cases h
        · rename_i r' hr
          simp only [Except.ok.injEq] at h; subst h
          rw [names_cons, names_cons, ih vs r' hr]

/-- `setAll` changes values only, and to feasible ones -/
theorem setAll_like : ∀ (pl : PList ℝ) (vs : List ℝ) (pl' : PList ℝ), Good pl → setAll pl vs = .ok pl' → Like pl pl' := by
  intro pl
  induction pl with
  | nil => intro vs pl' _ h; rw [setAll] at h; simp only [Except.ok.injEq] at h; subst h; exact List.Forall₂.nil
  | cons q r ih =>
    intro vs pl' hg h
    have hgr : Good r := fun q' hq' => hg q' (List.mem_cons_of_mem _ hq')
    cases vs with
    | nil => rw [setAll] at h; simp only [Except.ok.injEq] at h; subst h; exact Like.refl hg
    | cons v vs =>
      rw [setAll] at h
      split at h
      · cases h
      · rename_i p' hs
        split at h
        · cases h
        · rename_i r' hr
          simp only [Except.ok.injEq] at h; subst h
          obtain ⟨hform, hacc⟩ := setValue_ok_form hs (hg q (List.mem_cons_self ..)).2
          exact List.Forall₂.cons ⟨rfl, p'.value, hform, hacc⟩ (ih vs r' hgr hr)

/-- values every parameter accepts are stored as they are -/
theorem setAll_values {pl : PList ℝ} {vs : List ℝ} (hacc : List.Forall₂ (fun (q : NP ℝ) (v : ℝ) => q.p.accepts v = true) pl vs) :
    ∀ (pl' : PList ℝ), Good pl → setAll pl vs = .ok pl' → values pl' = vs := by
  induction hacc with
  | nil => intro pl' _ h; rw [setAll] at h; simp only [Except.ok.injEq] at h; subst h; rfl
  | @cons q v r vs hqv _ ih =>
    intro pl' hg h
    have hgr : Good r := fun q' hq' => hg q' (List.mem_cons_of_mem _ hq')
    rw [setAll, setValue_accepted q.p v (hg q (List.mem_cons_self ..)).1 (hg q (List.mem_cons_self ..)).2 hqv] at h
    simp only [] at h
    split at h
    · cases h
    · rename_i r' hr
      simp only [Except.ok.injEq] at h; subst h
      show (reval q.p v).value :: values r' = v :: vs
      rw [ih r' hgr hr]; rfl

/-- two lists that are both `Like` a third: each accepts the values of the other -/
theorem Like.accepts_values {P a b : PList ℝ} (ha : Like P a) (hb : Like P b) :
    List.Forall₂ (fun (q : NP ℝ) (v : ℝ) => q.p.accepts v = true) a (values b) := by
  induction ha generalizing b with
  | nil => cases hb; exact List.Forall₂.nil
  | cons hxa _ ih =>
    cases hb with
    | cons hxb hr =>
      obtain ⟨_, w1, e1, _⟩ := hxa
      obtain ⟨_, w2, e2, a2⟩ := hxb
      refine List.Forall₂.cons ?_ (ih hr)
      simp only [e1, e2, reval_accepts, reval_value]; exact a2

/-- only names and values are read by `matchPoint` -/
theorem matchPoint_nv (pt : List ℝ) : ∀ (a b : PList ℝ), names a = names b → values a = values b →
    matchPoint pt a = matchPoint pt b := by
  intro a b hn hv
  apply matchPoint_values
  induction a generalizing b with
  | nil => cases b with
    | nil => rfl
    | cons _ _ => cases hn
  | cons q r ih =>
    cases b with
    | nil => cases hn
    | cons q' r' =>
      simp only [names_cons, List.cons.injEq] at hn
      simp only [values, List.map_cons, List.cons.injEq] at hv
      simp only [List.map_cons, List.cons.injEq, Prod.mk.injEq]
      exact ⟨⟨hn.1, hv.1⟩, ih r' hn.2 hv.2⟩

theorem names_length (pl : PList ℝ) : (names pl).length = pl.length := by unfold names; rw [List.length_map]
theorem values_length (pl : PList ℝ) : (values pl).length = pl.length := by unfold values; rw [List.length_map]

/-! ### lists without constraints (the sums) -/

/-- precision 0, no constraint -/
def Free (pl : PList ℝ) : Prop := ∀ q ∈ pl, q.p.precision = 0 ∧ q.p.constraint = none

theorem Free.good {pl : PList ℝ} (h : Free pl) : Good pl := by
  intro q hq
  refine ⟨(h q hq).1, ?_⟩
  unfold Param.invOk Param.accepts; rw [(h q hq).2]

theorem Free.of_like {a b : PList ℝ} (h : Like a b) (hf : Free a) : Free b := by
  intro y hy
  obtain ⟨x, hx, _, w, e, _⟩ := h.mem_right hy
  rw [e]; exact hf x hx

theorem Free.accepts {pl : PList ℝ} (hf : Free pl) : ∀ (vs : List ℝ), vs.length = pl.length →
    List.Forall₂ (fun (q : NP ℝ) (v : ℝ) => q.p.accepts v = true) pl vs := by
  induction pl with
  | nil => intro vs hl; cases vs with
    | nil => exact List.Forall₂.nil
    | cons _ _ => cases hl
  | cons q r ih =>
    intro vs hl
    cases vs with
    | nil => cases hl
    | cons v vs =>
      refine List.Forall₂.cons ?_ (ih (fun q' hq' => hf q' (List.mem_cons_of_mem _ hq')) vs (by simpa using hl))
      unfold Param.accepts; rw [(hf q (List.mem_cons_self ..)).2]

/-- `setAll` on the sums -/
theorem setAll_free (pl pl' : PList ℝ) (vs : List ℝ) (hf : Free pl) (h : setAll pl vs = .ok pl') :
    Free pl' ∧ names pl' = names pl ∧ (vs.length = pl.length → values pl' = vs) :=
  ⟨Free.of_like (setAll_like pl vs pl' hf.good h) hf, setAll_names pl vs pl' h,
   fun hl => setAll_values (hf.accepts vs hl) pl' hf.good h⟩

/-! ### convexity of an interval constraint -/

theorem Interval.isCorrect_mid (c : Interval ℝ) (a b : ℝ) (ha : c.isCorrect a = true) (hb : c.isCorrect b = true) :
    c.isCorrect (1 / 2 * (a + b)) = true := by
  rw [Interval.isCorrect_iff_bounds'] at ha hb ⊢
  obtain ⟨ha1, ha2⟩ := ha
  obtain ⟨hb1, hb2⟩ := hb
  constructor
  · cases hlo : c.lo with
    | negInf =>
      rw [hlo] at ha1
      split
      · exact bot_le
      · exact EReal.bot_lt_coe _
    | posInf =>
      rw [hlo] at ha1
      exfalso
      split at ha1
      · simp only [Bound.toEReal_posInf, top_le_iff] at ha1; exact EReal.coe_ne_top _ ha1
      · simp only [Bound.toEReal_posInf] at ha1; exact not_top_lt ha1
    | fin l =>
      rw [hlo] at ha1 hb1
      simp only [Bound.toEReal_fin] at ha1 hb1 ⊢
      split at ha1
      · rename_i hi; rw [if_pos hi] at hb1 ⊢
        rw [EReal.coe_le_coe_iff] at ha1 hb1 ⊢; linarith
      · rename_i hi; rw [if_neg hi] at hb1 ⊢
        rw [EReal.coe_lt_coe_iff] at ha1 hb1 ⊢; linarith
  · cases hhi : c.hi with
    | posInf =>
      split
      · exact le_top
      · exact EReal.coe_lt_top _
    | negInf =>
      rw [hhi] at ha2
      exfalso
      split at ha2
      · simp only [Bound.toEReal_negInf, le_bot_iff] at ha2; exact EReal.coe_ne_bot _ ha2
      · simp only [Bound.toEReal_negInf] at ha2; exact not_lt_bot ha2
    | fin l =>
      rw [hhi] at ha2 hb2
      simp only [Bound.toEReal_fin] at ha2 hb2 ⊢
      split at ha2
      · rename_i hi; rw [if_pos hi] at hb2 ⊢
        rw [EReal.coe_le_coe_iff] at ha2 hb2 ⊢; linarith
      · rename_i hi; rw [if_neg hi] at hb2 ⊢
        rw [EReal.coe_lt_coe_iff] at ha2 hb2 ⊢; linarith

theorem accepts_mid (p : Param ℝ) (a b : ℝ) (ha : p.accepts a = true) (hb : p.accepts b = true) :
    p.accepts (1 / 2 * (a + b)) = true := by
  unfold Param.accepts at ha hb ⊢
  cases hc : p.constraint with
  | none => rfl
  | some c => rw [hc] at ha hb; exact Interval.isCorrect_mid c a b ha hb

/-- the midpoints of two lists `Like` a third are accepted by either -/
theorem Like.accepts_mids {P a b : PList ℝ} (ha : Like P a) (hb : Like P b) :
    List.Forall₂ (fun (q : NP ℝ) (v : ℝ) => q.p.accepts v = true) a
      (((values a).zip (values b)).map (fun ab => Scalar.ofRat 1 2 * (ab.1 + ab.2))) := by
  induction ha generalizing b with
  | nil => cases hb; exact List.Forall₂.nil
  | cons hxa _ ih =>
    cases hb with
    | cons hxb hr =>
      obtain ⟨_, w1, e1, a1⟩ := hxa
      obtain ⟨_, w2, e2, a2⟩ := hxb
      refine List.Forall₂.cons ?_ (ih hr)
      simp only [e1, e2, reval_accepts, reval_value, ScalarReal.ofRat_eq]
      have := accepts_mid _ w1 w2 a1 a2
      norm_num at this ⊢
      exact this

/-! ### evaluations -/

/-- the function has the length of `pt0` and agrees with it outside the names `ns` -/
def Off (pt0 : List ℝ) (ns : List Nat) (fn : Fn ℝ) : Prop :=
  fn.point.length = pt0.length ∧ ∀ i, i ∉ ns → fn.point[i]? = pt0[i]?

/-- an evaluation at a list named `ns`: the value is `obj (matchPoint pt0 ·)` whatever the function
held on `ns` -/
theorem eval_off (obj : List ℝ → ℝ) (D : Deriv ℝ) (cap : Option Nat) (pt0 : List ℝ) (ns : List Nat)
    (fn fn' : Fn ℝ) (pl : PList ℝ) (v : ℝ) (hoff : Off pt0 ns fn) (hn : names pl = ns)
    (h : (Fn.iface obj D cap).f fn pl = .ok (fn', v)) :
    fn'.point = matchPoint pt0 pl ∧ v = obj (matchPoint pt0 pl) ∧ Off pt0 ns fn' := by
  obtain ⟨hp, hv, _⟩ := iface_f_point obj D cap _ _ _ _ h
  have e : fn'.point = matchPoint pt0 pl := by
    rw [hp]; exact matchPoint_congr pl _ _ hoff.1 (fun i hi => hoff.2 i (by rw [← hn]; exact hi))
  refine ⟨e, by rw [hv, e], by rw [e, matchPoint_length], ?_⟩
  intro i hi
  rw [e]; exact matchPoint_frame pl pt0 i (by rw [hn]; exact hi)

/-- the vertex values are the objective at the vertices -/
def Exact (obj : List ℝ → ℝ) (pt0 : List ℝ) (sx : List (PList ℝ)) (y : List ℝ) : Prop :=
  sx.length = y.length ∧ ∀ (i : Nat) (v : PList ℝ) (yi : ℝ), sx[i]? = some v → y[i]? = some yi → yi = obj (matchPoint pt0 v)

theorem Exact.nil (obj : List ℝ → ℝ) (pt0 : List ℝ) : Exact obj pt0 [] [] :=
  ⟨rfl, fun i v yi h => by simp at h⟩

theorem Exact.snoc {obj : List ℝ → ℝ} {pt0 : List ℝ} {sx : List (PList ℝ)} {y : List ℝ} (h : Exact obj pt0 sx y)
    (v : PList ℝ) (yv : ℝ) (hv : yv = obj (matchPoint pt0 v)) : Exact obj pt0 (sx ++ [v]) (y ++ [yv]) := by
  refine ⟨by rw [List.length_append, List.length_append, h.1]; rfl, ?_⟩
  intro i w yi h1 h2
  by_cases hi : i < sx.length
  · rw [List.getElem?_append_left hi] at h1
    rw [List.getElem?_append_left (by rw [← h.1]; exact hi)] at h2
    exact h.2 i w yi h1 h2
  · rw [List.getElem?_append_right (not_lt.1 hi)] at h1
    rw [List.getElem?_append_right (by rw [← h.1]; exact not_lt.1 hi)] at h2
    rw [← h.1] at h2
    cases hk : i - sx.length with
    | zero =>
      rw [hk] at h1 h2
      simp only [List.getElem?_cons_zero, Option.some.injEq] at h1 h2
      rw [← h1, ← h2]; exact hv
    | succ k => rw [hk] at h1; simp at h1

theorem Exact.cons {obj : List ℝ → ℝ} {pt0 : List ℝ} {sx : List (PList ℝ)} {y : List ℝ} (h : Exact obj pt0 sx y)
    (v : PList ℝ) (yv : ℝ) (hv : yv = obj (matchPoint pt0 v)) : Exact obj pt0 (v :: sx) (yv :: y) := by
  refine ⟨by rw [List.length_cons, List.length_cons, h.1], ?_⟩
  intro i w yi h1 h2
  cases i with
  | zero =>
    simp only [List.getElem?_cons_zero, Option.some.injEq] at h1 h2
    rw [← h1, ← h2]; exact hv
  | succ k =>
    simp only [List.getElem?_cons_succ] at h1 h2
    exact h.2 k w yi h1 h2

theorem Exact.set {obj : List ℝ → ℝ} {pt0 : List ℝ} {sx : List (PList ℝ)} {y : List ℝ} (h : Exact obj pt0 sx y)
    (k : Nat) (v : PList ℝ) (yv : ℝ) (hv : yv = obj (matchPoint pt0 v)) : Exact obj pt0 (sx.set k v) (y.set k yv) := by
  refine ⟨by rw [List.length_set, List.length_set, h.1], ?_⟩
  intro i w yi h1 h2
  by_cases hik : k = i
  · subst hik
    by_cases hk : k < sx.length
    · rw [List.getElem?_set_self hk] at h1
      rw [List.getElem?_set_self (by rw [← h.1]; exact hk)] at h2
      simp only [Option.some.injEq] at h1 h2
      rw [← h1, ← h2]; exact hv
    · rw [List.getElem?_eq_none (by rw [List.length_set]; exact not_lt.1 hk)] at h1; cases h1
  · rw [List.getElem?_set_ne hik] at h1 h2
    exact h.2 i w yi h1 h2

/-! ### the ranking loop -/

/-- the third component of the ranking loop on its own -/
noncomputable def lowStep (y : List ℝ) (iL i : Nat) : Nat := if y.getD i 0 ≤ y.getD iL 0 then i else iL

theorem rank_low (y : List ℝ) (y0 y1 : ℝ) :
    (rank y y0 y1).2.2 = (List.range y.length).foldl (lowStep y) 0 := by
  unfold rank
  have key : ∀ (l : List Nat) (init : Nat × Nat × Nat),
      (l.foldl (fun (st : Nat × Nat × Nat) i =>
        let (iH, iN, iL) := st
        let yi := y.getD i Scalar.zero
        let iL := if Scalar.leb yi (y.getD iL Scalar.zero) then i else iL
        if Scalar.gtb yi (y.getD iH Scalar.zero) then (i, iH, iL)
        else if Scalar.gtb yi (y.getD iN Scalar.zero) && i != iH then (iH, i, iL)
        else (iH, iN, iL)) init).2.2 = l.foldl (lowStep y) init.2.2 := by
    intro l
    induction l with
    | nil => intro init; rfl
    | cons i r ih =>
      intro init
      rw [List.foldl_cons, List.foldl_cons, ih]
      congr 1
      obtain ⟨iH, iN, iL⟩ := init
      simp only [lowStep, ScalarReal.zero_eq, ScalarReal.leb_iff]
      split_ifs <;> rfl
  rw [key]
  split_ifs <;> rfl

theorem low_argmin (y : List ℝ) : ∀ n, 
    ((List.range n).foldl (lowStep y) 0 = 0 ∨ (List.range n).foldl (lowStep y) 0 < n) ∧
    ∀ j, j < n → y.getD ((List.range n).foldl (lowStep y) 0) 0 ≤ y.getD j 0 := by
  intro n
  induction n with
  | zero => exact ⟨Or.inl rfl, fun j hj => absurd hj (Nat.not_lt_zero _)⟩
  | succ n ih =>
    rw [List.range_succ, List.foldl_append, List.foldl_cons, List.foldl_nil]
    generalize (List.range n).foldl (lowStep y) 0 = m at ih
    obtain ⟨h1, h2⟩ := ih
    unfold lowStep
    by_cases hc : y.getD n 0 ≤ y.getD m 0
    · rw [if_pos hc]
      refine ⟨Or.inr (Nat.lt_succ_self _), ?_⟩
      intro j hj
      rcases Nat.lt_succ_iff_lt_or_eq.1 hj with hlt | rfl
      · exact le_trans hc (h2 j hlt)
      · exact le_refl _
    · rw [if_neg hc]
      refine ⟨h1.imp id (fun h => Nat.lt_succ_of_lt h), ?_⟩
      intro j hj
      rcases Nat.lt_succ_iff_lt_or_eq.1 hj with hlt | rfl
      · exact h2 j hlt
      · exact le_of_lt (not_le.1 hc)

/-- the index of the lowest vertex is that of an existing vertex value, not above any other -/
theorem rank_argmin (y : List ℝ) (y0 y1 : ℝ) (hy : 0 < y.length) :
    (rank y y0 y1).2.2 < y.length ∧ ∀ (j : Nat) (yj : ℝ), y[j]? = some yj → y.getD (rank y y0 y1).2.2 0 ≤ yj := by
  rw [rank_low]
  obtain ⟨h1, h2⟩ := low_argmin y y.length
  refine ⟨by rcases h1 with h | h; rw [h]; exact hy; exact h, ?_⟩
  intro j yj hj
  have hjl : j < y.length := by
    by_contra hc; rw [List.getElem?_eq_none (not_lt.1 hc)] at hj; cases hj
  have := h2 j hjl
  rw [List.getD_eq_getElem?_getD (l := y) (i := j), hj] at this
  exact this

/-! ### the invariant of the method -/

variable (obj : List ℝ → ℝ) (D : Deriv ℝ) (cap : Option Nat)

/-- `pt0`: the function's point when `init` was called; `P0`: the list given to `init` with the policy
applied.  The function has not moved off the names; the optimiser's list and every vertex are `P0`
holding other feasible values; the sums carry the names and no constraint; the vertex values are
exact. -/
structure Simplex.Inv (pt0 : List ℝ) (P0 : PList ℝ) (s : St (Fn ℝ) (Simplex ℝ) ℝ) : Prop where
  off : Off pt0 (names P0) s.fn
  params : Like P0 s.core.params
  verts : ∀ v ∈ s.ext.simplex, Like P0 v
  psum : Free s.ext.pSum ∧ names s.ext.pSum = names P0
  exact : Exact obj pt0 s.ext.simplex s.ext.y

theorem mem_set_cases {β : Type} {l : List β} {k : Nat} {a x : β} (h : x ∈ l.set k a) : x = a ∨ x ∈ l := by
  rcases List.mem_or_eq_of_mem_set h with h | h
  · exact Or.inr h
  · exact Or.inl h

/-- `getPSum` -/
theorem getPSum_spec (P0 params : PList ℝ) (sx : List (PList ℝ)) (ps : PList ℝ) (hp : Like P0 params) (hg : Good P0)
    (h : getPSum params sx = .ok ps) : Free ps ∧ names ps = names P0 := by
  unfold getPSum at h
  simp only [] at h
  have hgp := hp.good hg
  have hfree : Free (params.map (fun q => ({ q with p := q.p.removeConstraint.1 } : NP ℝ))) := by
    intro q hq
    obtain ⟨q0, hq0, rfl⟩ := List.mem_map.1 hq
    exact ⟨(hgp q0 hq0).1, rfl⟩
  obtain ⟨h1, h2, _⟩ := setAll_free _ _ _ hfree h
  refine ⟨h1, ?_⟩
  rw [h2, ← hp.names]
  unfold names; rw [List.map_map]; rfl

/-- `tryExtrapolation`: the invariant is kept; the lists of vertices and of values keep their lengths;
no vertex value increases; the optimiser's list and the indices are not touched -/
theorem tryExtrapolation_spec (pt0 : List ℝ) (P0 : PList ℝ) (hg : Good P0)
    (s s' : St (Fn ℝ) (Simplex ℝ) ℝ) (fac yTry : ℝ)
    (hi : Simplex.Inv obj pt0 P0 s) (h : tryExtrapolation (Fn.iface obj D cap) s fac = .ok (s', yTry)) :
    Simplex.Inv obj pt0 P0 s' ∧ s'.core.params = s.core.params ∧ s'.ext.iLowest = s.ext.iLowest ∧
    s'.ext.iHighest = s.ext.iHighest ∧
    (∀ (j : Nat) (yj : ℝ), s.ext.y[j]? = some yj → ∃ yj', s'.ext.y[j]? = some yj' ∧ yj' ≤ yj) := by
  unfold tryExtrapolation at h
  simp only [] at h
  split at h
  · rename_i hiv yHi hsx hy
    split at h
    · cases h
    · rename_i pTry hset
      split at h
      · cases h
      · rename_i fn1 yT hf
        have hgp := hi.params.good hg
        have hlT : Like P0 pTry := hi.params.trans (setAll_like _ _ _ hgp hset)
        obtain ⟨_, e2, e3⟩ := eval_off obj D cap pt0 (names P0) _ _ pTry yT hi.off hlT.names hf
        split at h
        · rename_i hlt
          split at h
          · cases h
          · rename_i ps hps
            split at h
            · cases h
            · rename_i hi' hhi
              simp only [Except.ok.injEq, Prod.mk.injEq] at h
              obtain ⟨rfl, rfl⟩ := h
              have hlH : Like P0 hiv := hi.verts hiv (List.mem_of_getElem? hsx)
              have hgH := hlH.good hg
              have hlH' : Like P0 hi' := hlH.trans (setAll_like _ _ _ hgH hhi)
              have hvals : values hi' = values pTry := setAll_values (hlH.accepts_values hlT) hi' hgH hhi
              obtain ⟨f1, f2, _⟩ := setAll_free _ _ _ hi.psum.1 hps
              refine ⟨⟨e3, hi.params, ?_, ⟨f1, by rw [f2]; exact hi.psum.2⟩, ?_⟩, rfl, rfl, rfl, ?_⟩
              · intro v hv
                rcases mem_set_cases hv with rfl | hm
                · exact hlH'
                · exact hi.verts v hm
              · apply hi.exact.set
                rw [e2]
                congr 1
                exact (matchPoint_nv pt0 _ _ (by rw [hlH'.names, hlT.names]) hvals).symm
              · intro j yj hj
                by_cases hjk : s.ext.iHighest = j
                · subst hjk
                  have hlt' : yT < yHi := (ScalarReal.ltb_iff _ _).1 hlt
                  have hjl : s.ext.iHighest < s.ext.y.length := by
                    by_contra hc; rw [List.getElem?_eq_none (not_lt.1 hc)] at hj; cases hj
                  rw [hy] at hj
                  simp only [Option.some.injEq] at hj
                  exact ⟨yT, List.getElem?_set_self hjl, by rw [← hj]; exact le_of_lt hlt'⟩
                · exact ⟨yj, by show (s.ext.y.set _ _)[j]? = _; rw [List.getElem?_set_ne hjk]; exact hj, le_refl _⟩
        · simp only [Except.ok.injEq, Prod.mk.injEq] at h
          obtain ⟨rfl, rfl⟩ := h
          exact ⟨⟨e3, hi.params, hi.verts, hi.psum, hi.exact⟩, rfl, rfl, rfl, fun j yj hj => ⟨yj, hj, le_refl _⟩⟩
  · cases h

/-- the contraction: the invariant is kept, the lengths too; the lowest vertex and its value, the
optimiser's list and the index of the lowest vertex are not touched -/
theorem shrinkAll_spec (pt0 : List ℝ) (P0 : PList ℝ) (hg : Good P0) :
    ∀ (l : List Nat) (s s' : St (Fn ℝ) (Simplex ℝ) ℝ), Simplex.Inv obj pt0 P0 s →
      shrinkAll (Fn.iface obj D cap) l s = .ok s' →
      Simplex.Inv obj pt0 P0 s' ∧ s'.core.params = s.core.params ∧ s'.ext.iLowest = s.ext.iLowest ∧
      s'.ext.y[s.ext.iLowest]? = s.ext.y[s.ext.iLowest]? := by
  intro l
  induction l with
  | nil =>
    intro s s' hi h
    rw [shrinkAll] at h
    simp only [Except.ok.injEq] at h
    subst h
    exact ⟨hi, rfl, rfl, rfl⟩
  | cons i r ih =>
    intro s s' hi h
    rw [shrinkAll] at h
    simp only [] at h
    split at h
    · exact ih s s' hi h
    · rename_i hne
      have hne' : i ≠ s.ext.iLowest := by simpa using hne
      split at h
      · rename_i vi lo hvi hlo
        split at h
        · cases h
        · rename_i ps hps
          split at h
          · cases h
          · rename_i vi' hvi'
            split at h
            · cases h
            · rename_i fn1 yi hf
              have hlV : Like P0 vi := hi.verts vi (List.mem_of_getElem? hvi)
              have hlL : Like P0 lo := hi.verts lo (List.mem_of_getElem? hlo)
              have hgV := hlV.good hg
              obtain ⟨f1, f2, f3⟩ := setAll_free _ _ _ hi.psum.1 hps
              have hnps : names ps = names P0 := by rw [f2]; exact hi.psum.2
              have hlen : (((values vi).zip (values lo)).map (fun ab => Scalar.ofRat 1 2 * (ab.1 + ab.2))).length
                  = s.ext.pSum.length := by
                rw [List.length_map, List.length_zip, values_length, values_length, hlV.length, hlL.length, min_self,
                  ← names_length s.ext.pSum, hi.psum.2, names_length]
              have hvps := f3 hlen
              have hacc := hlV.accepts_mids hlL
              rw [← hvps] at hacc
              have hvals : values vi' = values ps := setAll_values hacc vi' hgV hvi'
              have hlV' : Like P0 vi' := hlV.trans (setAll_like _ _ _ hgV hvi')
              obtain ⟨_, e2, e3⟩ := eval_off obj D cap pt0 (names P0) _ _ ps yi hi.off hnps hf
              obtain ⟨a, b, c, d⟩ := ih _ s' (by
                refine ⟨e3, hi.params, ?_, ⟨f1, hnps⟩, ?_⟩
                · intro v hv
                  rcases mem_set_cases hv with rfl | hm
                  · exact hlV'
                  · exact hi.verts v hm
                · apply hi.exact.set
                  rw [e2]
                  congr 1
                  exact (matchPoint_nv pt0 _ _ (by rw [hlV'.names, hnps]) hvals).symm) h
              refine ⟨a, b, c, ?_⟩
              simp only [] at d
              rw [d, List.getElem?_set_ne hne']
      · cases h

/-- the end of `doStep` -/
theorem simplexReport_spec (pt0 : List ℝ) (P0 : PList ℝ) (t s' : St (Fn ℝ) (Simplex ℝ) ℝ) (iL : Nat) (v yl : ℝ)
    (hi : Simplex.Inv obj pt0 P0 t) (hiL : t.ext.iLowest = iL) (hy : t.ext.y[iL]? = some yl)
    (h : simplexReport t iL = (s', v)) :
    Simplex.Inv obj pt0 P0 s' ∧ s'.ext.simplex[s'.ext.iLowest]? = some s'.core.params ∧
    s'.ext.y[s'.ext.iLowest]? = some v ∧ v = yl := by
  have hlt : iL < t.ext.simplex.length := by
    rw [hi.exact.1]
    by_contra hc; rw [List.getElem?_eq_none (not_lt.1 hc)] at hy; cases hy
  have hv : t.ext.y.getD iL Scalar.zero = yl := by
    rw [List.getD_eq_getElem?_getD, hy]; rfl
  unfold simplexReport at h
  split at h
  · rename_i best hb
    simp only [Prod.mk.injEq] at h
    obtain ⟨rfl, rfl⟩ := h
    refine ⟨⟨hi.off, hi.verts best (List.mem_of_getElem? hb), hi.verts, hi.psum, hi.exact⟩, ?_, ?_, hv⟩
    · show t.ext.simplex[t.ext.iLowest]? = some best; rw [hiL]; exact hb
    · show t.ext.y[t.ext.iLowest]? = some _; rw [hiL, hv]; exact hy
  · rename_i hb
    rw [List.getElem?_eq_getElem hlt] at hb; cases hb

theorem simplexDoStep_spec (pt0 : List ℝ) (P0 : PList ℝ) (hg : Good P0)
    (s s' : St (Fn ℝ) (Simplex ℝ) ℝ) (v : ℝ)
    (hi : Simplex.Inv obj pt0 P0 s) (h : simplexDoStep (Fn.iface obj D cap) s = .ok (s', v)) :
    Simplex.Inv obj pt0 P0 s' ∧ s'.ext.simplex[s'.ext.iLowest]? = some s'.core.params ∧
    s'.ext.y[s'.ext.iLowest]? = some v ∧ ∀ (j : Nat) (yj : ℝ), s.ext.y[j]? = some yj → v ≤ yj := by
  unfold simplexDoStep at h
  simp only [] at h
  split at h
  · rename_i y0 y1 v0 hy0 hy1 hv0
    have hylen : 0 < s.ext.y.length := by
      by_contra hc; rw [List.getElem?_eq_none (not_lt.1 hc)] at hy0; cases hy0
    obtain ⟨hiLlt, hmin⟩ := rank_argmin s.ext.y y0 y1 hylen
    generalize rank s.ext.y y0 y1 = r at h hiLlt hmin
    obtain ⟨iH, iN, iL⟩ := r
    simp only [] at h hiLlt hmin
    have hyL : s.ext.y[iL]? = some (s.ext.y.getD iL 0) := by
      rw [List.getD_eq_getElem?_getD, List.getElem?_eq_getElem hiLlt]; rfl
    generalize s.ext.y.getD iL 0 = yL at hyL hmin
    split at h
    · cases h
    · rename_i best hbest
      -- the state the trials start from
      have hA : Simplex.Inv obj pt0 P0
          ({ s with core := { s.core with params := best },
                    ext := { s.ext with iHighest := iH, iNextHighest := iN, iLowest := iL } } : St (Fn ℝ) (Simplex ℝ) ℝ) :=
        ⟨hi.off, hi.verts best (List.mem_of_getElem? hbest), hi.verts, hi.psum, hi.exact⟩
      split at h
      · cases h
      · rename_i s1 yT1 ht1
        obtain ⟨i1, _, l1, _, d1⟩ := tryExtrapolation_spec obj D cap pt0 P0 hg _ s1 _ yT1 hA ht1
        simp only [] at l1 d1
        obtain ⟨yL1, hyL1, hle1⟩ := d1 iL yL hyL
        split at h
        · split at h
          · cases h
          · rename_i s2 yT2 ht2
            obtain ⟨i2, _, l2, _, d2⟩ := tryExtrapolation_spec obj D cap pt0 P0 hg s1 s2 _ yT2 i1 ht2
            obtain ⟨yL2, hyL2, hle2⟩ := d2 iL yL1 hyL1
            simp only [Except.ok.injEq] at h
            obtain ⟨a, b, c, d⟩ := simplexReport_spec obj pt0 P0 s2 s' iL v yL2 i2 (by rw [l2, l1]) hyL2 h
            exact ⟨a, b, c, fun j yj hj => by rw [d]; exact le_trans hle2 (le_trans hle1 (hmin j yj hj))⟩
        · split at h
          · split at h
            · cases h
            · rename_i s2 yT2 ht2
              obtain ⟨i2, _, l2, _, d2⟩ := tryExtrapolation_spec obj D cap pt0 P0 hg s1 s2 _ yT2 i1 ht2
              obtain ⟨yL2, hyL2, hle2⟩ := d2 iL yL1 hyL1
              split at h
              · split at h
                · cases h
                · rename_i s3 hsh
                  obtain ⟨i3, p3, l3, e3⟩ := shrinkAll_spec obj D cap pt0 P0 hg _ s2 s3 i2 hsh
                  have hl2 : s2.ext.iLowest = iL := by rw [l2, l1]
                  rw [hl2] at e3
                  split at h
                  · cases h
                  · rename_i ps hps
                    simp only [Except.ok.injEq] at h
                    obtain ⟨f1, f2⟩ := getPSum_spec P0 _ _ ps i3.params hg hps
                    have hI : Simplex.Inv obj pt0 P0
                        ({ s3 with core := { s3.core with nbEval := s3.core.nbEval + v0.length },
                                   ext := { s3.ext with pSum := ps } } : St (Fn ℝ) (Simplex ℝ) ℝ) :=
                      ⟨i3.off, i3.params, i3.verts, ⟨f1, f2⟩, i3.exact⟩
                    obtain ⟨a, b, c, d⟩ := simplexReport_spec obj pt0 P0 _ s' iL v yL2
                      hI (by show s3.ext.iLowest = iL; rw [l3, hl2])
                      (by show s3.ext.y[iL]? = _; rw [e3]; exact hyL2) h
                    exact ⟨a, b, c, fun j yj hj => by rw [d]; exact le_trans hle2 (le_trans hle1 (hmin j yj hj))⟩
              · simp only [Except.ok.injEq] at h
                obtain ⟨a, b, c, d⟩ := simplexReport_spec obj pt0 P0 s2 s' iL v yL2 i2 (by rw [l2, l1]) hyL2 h
                exact ⟨a, b, c, fun j yj hj => by rw [d]; exact le_trans hle2 (le_trans hle1 (hmin j yj hj))⟩
          · simp only [Except.ok.injEq] at h
            obtain ⟨a, b, c, d⟩ := simplexReport_spec obj pt0 P0 s1 s' iL v yL1 i1 l1 hyL1 h
            exact ⟨a, b, c, fun j yj hj => by rw [d]; exact le_trans hle1 (hmin j yj hj)⟩
  · cases h

/-! ### `init` -/

/-- the vertices `1 … nDim` of the initial simplex -/
theorem simplexVertices_spec (pt0 : List ℝ) (P0 : PList ℝ) (hg : Good P0) :
    ∀ (l : List Nat) (fn fn' : Fn ℝ) (vs vs' : List (PList ℝ)) (ys ys' : List ℝ),
      Off pt0 (names P0) fn → (∀ v ∈ vs, Like P0 v) → Exact obj pt0 vs ys →
      simplexVertices (Fn.iface obj D cap) P0 l fn vs ys = .ok (fn', vs', ys') →
      Off pt0 (names P0) fn' ∧ (∀ v ∈ vs', Like P0 v) ∧ Exact obj pt0 vs' ys' := by
  intro l
  induction l with
  | nil =>
    intro fn fn' vs vs' ys ys' ho hv he h
    rw [simplexVertices] at h
    simp only [Except.ok.injEq, Prod.mk.injEq] at h
    obtain ⟨rfl, rfl, rfl⟩ := h
    exact ⟨ho, hv, he⟩
  | cons i r ih =>
    intro fn fn' vs vs' ys ys' ho hv he h
    rw [simplexVertices] at h
    split at h
    · cases h
    · rename_i w hset
      split at h
      · cases h
      · rename_i fn1 yw hf
        have hlw : Like P0 w := setAll_like _ _ _ hg hset
        obtain ⟨_, e2, e3⟩ := eval_off obj D cap pt0 (names P0) _ _ w yw ho hlw.names hf
        refine ih fn1 fn' _ vs' _ ys' e3 ?_ (he.snoc w yw e2) h
        intro v hv'
        rcases List.mem_append.1 hv' with hm | hm
        · exact hv v hm
        · rw [List.mem_singleton] at hm; rw [hm]; exact hlw

/-- `init` on a freshly constructed optimiser (`iLowest_ = 0`; `doInit` does not reset it): the
invariant holds, the reported vertex is vertex 0 — the list given to `init` — and its value is the
objective at the starting point -/
theorem simplexInit_spec (s s1 : St (Fn ℝ) (Simplex ℝ) ℝ) (params : PList ℝ) (hgood : Good params)
    (h : (simplexAlgo (Fn.iface obj D cap)).init s params = .ok s1) :
    Simplex.Inv obj s.fn.point (applyPolicy s.core.policy params) s1 ∧
    s1.ext.simplex[s1.ext.iLowest]? = some s1.core.params ∧
    s1.ext.y[s1.ext.iLowest]? = some (obj (matchPoint s.fn.point params)) := by
  have hg : Good (applyPolicy s.core.policy params) := applyPolicy_good _ _ hgood
  have hoff : Off s.fn.point (names (applyPolicy s.core.policy params)) s.fn := ⟨rfl, fun _ _ => rfl⟩
  unfold Algo.init at h
  simp only [] at h
  split at h
  · cases h
  · rename_i sa hdi
    simp only [Except.ok.injEq] at h
    subst h
    change simplexDoInit (Fn.iface obj D cap) _ params = .ok sa at hdi
    unfold simplexDoInit at hdi
    simp only [] at hdi
    split at hdi
    · cases hdi
    · rename_i fn1 vs ys hvs
      obtain ⟨o1, v1, x1⟩ := simplexVertices_spec obj D cap s.fn.point _ hg _ _ fn1 [] vs [] ys hoff
        (fun v hv => nomatch hv) (Exact.nil obj _) hvs
      split at hdi
      · cases hdi
      · rename_i fn2 y0 hf
        obtain ⟨_, e2, e3⟩ := eval_off obj D cap s.fn.point _ _ _ _ y0 o1 rfl hf
        split at hdi
        · cases hdi
        · rename_i ps hps
          simp only [Except.ok.injEq] at hdi
          subst hdi
          obtain ⟨f1, f2⟩ := getPSum_spec _ _ _ ps (Like.refl hg) hg hps
          refine ⟨⟨e3, Like.refl hg, ?_, ⟨f1, f2⟩, x1.cons _ y0 e2⟩, ?_, ?_⟩
          · intro v hv
            rcases List.mem_cons.1 hv with rfl | hm
            · exact Like.refl hg
            · exact v1 v hm
          · rfl
          · show (y0 :: ys)[0]? = _
            rw [e2, matchPoint_applyPolicy]; rfl

/-! ### the run -/

/-- the invariant of a run: `Simplex.Inv`, the optimiser's list is the vertex `iLowest`, whose value is
not above `B` -/
structure Simplex.Run (B : ℝ) (pt0 : List ℝ) (P0 : PList ℝ) (s : St (Fn ℝ) (Simplex ℝ) ℝ) : Prop where
  inv : Simplex.Inv obj pt0 P0 s
  best : s.ext.simplex[s.ext.iLowest]? = some s.core.params
  below : ∃ yl, s.ext.y[s.ext.iLowest]? = some yl ∧ yl ≤ B

theorem Simplex.Run.congr {B : ℝ} {pt0 : List ℝ} {P0 : PList ℝ} {s t : St (Fn ℝ) (Simplex ℝ) ℝ}
    (h : Simplex.Run obj B pt0 P0 s) (hf : t.fn = s.fn) (hp : t.core.params = s.core.params) (he : t.ext = s.ext) :
    Simplex.Run obj B pt0 P0 t :=
  ⟨⟨by rw [hf]; exact h.inv.off, by rw [hp]; exact h.inv.params, by rw [he]; exact h.inv.verts,
    by rw [he]; exact h.inv.psum, by rw [he]; exact h.inv.exact⟩, by rw [he, hp]; exact h.best, by rw [he]; exact h.below⟩

theorem simplex_step_run (B : ℝ) (pt0 : List ℝ) (P0 : PList ℝ) (hg : Good P0)
    (s s' : St (Fn ℝ) (Simplex ℝ) ℝ) (v : ℝ)
    (hi : Simplex.Run obj B pt0 P0 s) (h : (simplexAlgo (Fn.iface obj D cap)).step s = .ok (s', v)) :
    Simplex.Run obj B pt0 P0 s' := by
  obtain ⟨s1, hd1, hc⟩ := step_cases _ s h
  obtain ⟨a, b, c, d⟩ := simplexDoStep_spec obj D cap pt0 P0 hg s s1 v hi.inv hd1
  obtain ⟨yl, hyl, hle⟩ := hi.below
  have h1 : Simplex.Run obj B pt0 P0 s1 := ⟨a, b, v, c, le_trans (d _ yl hyl) hle⟩
  rcases hc with ⟨_, rfl⟩ | ⟨_, rfl⟩
  · exact h1.congr obj rfl rfl rfl
  · exact h1.congr obj rfl rfl rfl

/-- `DownhillSimplexMethod::optimize` from a state that satisfies the invariant -/
theorem simplexOptimize_spec (B : ℝ) (pt0 : List ℝ) (P0 : PList ℝ) (hg : Good P0)
    (hnd : (names P0).Nodup) (hlt : ∀ n ∈ names P0, n < pt0.length) (fuel : Nat)
    (s s2 : St (Fn ℝ) (Simplex ℝ) ℝ) (v : ℝ)
    (hi : Simplex.Run obj B pt0 P0 s) (h : simplexOptimize (Fn.iface obj D cap) fuel s = .ok (s2, v)) :
    v ≤ B ∧ v = obj s2.fn.point ∧ Sync s2.fn s2.core.params ∧ s2.fn.point = matchPoint pt0 s2.core.params ∧
    Simplex.Run obj B pt0 P0 s2 := by
  unfold simplexOptimize at h
  split at h
  · cases h
  · rename_i sL vL hopt
    have hL : Simplex.Run obj B pt0 P0 sL := by
      unfold Algo.optimize at hopt
      split at hopt
      · cases hopt
      · cases hl : (simplexAlgo (Fn.iface obj D cap)).loop fuel { s with core := { s.core with tol := false, nbEval := 1 } } with
        | error e => rw [hl] at hopt; cases hopt
        | ok sL' =>
          rw [hl] at hopt
          simp only [Except.ok.injEq, Prod.mk.injEq] at hopt
          obtain ⟨rfl, _⟩ := hopt
          exact loop_invariant _ (Simplex.Run obj B pt0 P0)
            (fun u u' w hu _ hst => simplex_step_run obj D cap B pt0 P0 hg u u' w hu hst)
            (fun u hu => hu.congr obj rfl rfl rfl) fuel
            ({ s with core := { s.core with tol := false, nbEval := 1 } } : St (Fn ℝ) (Simplex ℝ) ℝ) _
            (hi.congr obj rfl rfl rfl) hl
    split at h
    · cases h
    · rename_i best hb
      split at h
      · cases h
      · rename_i fn2 v2 hf
        simp only [Except.ok.injEq, Prod.mk.injEq] at h
        obtain ⟨rfl, rfl⟩ := h
        have hbp : best = sL.core.params := by
          have := hL.best; rw [hb] at this; exact Option.some.inj this
        subst hbp
        have hn : names sL.core.params = names P0 := hL.inv.params.names
        obtain ⟨e1, e2, e3⟩ := eval_off obj D cap pt0 (names P0) _ _ _ _ hL.inv.off hn hf
        obtain ⟨yl, hyl, hle⟩ := hL.below
        have hyv : yl = obj (matchPoint pt0 sL.core.params) := hL.inv.exact.2 _ _ _ hb hyl
        refine ⟨by rw [e2, ← hyv]; exact hle, by rw [e2, e1], ?_, e1, ?_⟩
        · exact sync_of_matchPoint fn2 pt0 sL.core.params e1 (by rw [hn]; exact hnd)
            (fun q hq => hlt _ (by rw [← hn]; exact mem_names hq))
        · exact ⟨⟨e3, hL.inv.params, hL.inv.verts, hL.inv.psum, hL.inv.exact⟩, hL.best, hL.below⟩

end Bpp.Optim
