import BppProofs.Lemmas.Number
import BppProofs.Lemmas.Keyval
import BppModel.Text.DistText
/-! Helper lemmas for `Props/C17Dist.lean`: a numeral of the strict decimal grammar is a value the
procedure parser gives back untouched; lookups in the map built from an argument list. -/
namespace Bpp.Text.DistText
open Bpp.Text Bpp.Text.Number Bpp.Text.Keyval

/-- a character that the procedure syntax does not interpret -/
def plain (c : Char) : Prop := c ≠ ',' ∧ c ≠ '(' ∧ c ≠ ')' ∧ c ≠ '=' ∧ isSpace c = false

theorem digit_plain {c : Char} (h : isDigit c = true) : plain c := by
  have hs : isSpace c = false := by
    cases hh : isSpace c with
    | false => rfl
    | true => rw [isSpace_not_digit hh] at h; cases h
  refine ⟨?_, ?_, ?_, ?_, hs⟩ <;> (intro e; subst e; revert h; decide)

theorem depthOk_plain (v : Str) (h : ∀ c ∈ v, plain c) : depthOk 0 v = true := by
  induction v with
  | nil => rfl
  | cons c r ih =>
    obtain ⟨h1, h2, h3, _, _⟩ := h c (by simp)
    have e1 : (c == ',') = false := by simpa using h1
    have e2 : delta c = 0 := by
      have a : (c == '(') = false := by simpa using h2
      have b : (c == ')') = false := by simpa using h3
      simp [delta, a, b]
    simp only [depthOk, e1, Bool.false_eq_true, if_false, e2, Int.add_zero]
    exact ih (fun c hc => h c (by simp [hc]))

theorem dropWhile_head_false {p : Char → Bool} (l : Str) (h : ∀ c, l.head? = some c → p c = false) :
    l.dropWhile p = l := by
  cases l with
  | nil => rfl
  | cons a r => simp [List.dropWhile, h a rfl]

theorem trim_plain (v : Str) (h : ∀ c ∈ v, plain c) : trim v = v := by
  unfold trim removeLastWS removeFirstWS
  rw [dropWhile_head_false v (fun c hc => (h c (List.mem_of_mem_head? hc)).2.2.2.2)]
  rw [dropWhile_head_false v.reverse (fun c hc => by
    have : c ∈ v.reverse := List.mem_of_mem_head? hc
    exact (h c (by simpa using this)).2.2.2.2)]
  simp

theorem valOk_plain (v : Str) (h : ∀ c ∈ v, plain c) : ValOk v = true := by
  simp [ValOk, depthOk_plain v h, trim_plain v h]

theorem render_plain (p : DecParts) (hwf : p.WF) : ∀ c ∈ p.render '.' 'e', plain c := by
  obtain ⟨h1, h2, _, _, h5⟩ := hwf
  intro c hc
  unfold DecParts.render at hc
  simp only [List.mem_append] at hc
  rcases hc with ((hc | hc) | hc) | hc
  · split at hc
    · simp only [List.mem_singleton] at hc; subst hc; unfold plain; decide
    · cases hc
  · exact digit_plain (h1 c hc)
  · split at hc
    · rcases List.mem_cons.mp hc with rfl | hc
      · unfold plain; decide
      · exact digit_plain (h2 c hc)
    · cases hc
  · cases hex : p.ex with
    | none => rw [hex] at hc; cases hc
    | some e =>
      obtain ⟨sg, ds⟩ := e
      rw [hex] at hc h5
      simp only at hc h5
      obtain ⟨hsg, hds, _⟩ := h5
      rcases List.mem_cons.mp hc with rfl | hc
      · unfold plain; decide
      · rcases List.mem_append.mp hc with hc | hc
        · rcases hsg with rfl | rfl | rfl
          · cases hc
          · simp at hc; subst hc; unfold plain; decide
          · simp at hc; subst hc; unfold plain; decide
        · exact digit_plain (hds c hc)

theorem render_ne_nil (p : DecParts) (hwf : p.WF) : p.render '.' 'e' ≠ [] := by
  obtain ⟨_, _, h3, h4, _⟩ := hwf
  unfold DecParts.render
  rcases h3 with h | h
  · cases hip : p.ip with
    | nil => exact absurd hip h
    | cons a r => cases p.neg <;> simp
  · have : p.hasDec = true := by
      cases hd : p.hasDec with
      | true => rfl
      | false => exact absurd (h4 hd) h
    cases p.neg <;> simp [this]

/-! ### lookups -/

theorem mapFind_insert' (k k' v : Str) (m : Map) :
    mapFind k' (mapInsert k v m) = if k' = k then some v else mapFind k' m := by
  induction m with
  | nil => by_cases h : k' = k <;> simp [mapInsert, mapFind, h]
  | cons a m ih =>
    rcases a with ⟨ka, va⟩
    simp only [mapInsert]
    by_cases h1 : k = ka
    · subst h1
      by_cases h : k' = k <;> simp [mapFind, h]
    · have h1' : (k == ka) = false := by simpa using h1
      simp only [h1', Bool.false_eq_true, if_false]
      by_cases h2 : strLt k ka = true
      · by_cases h : k' = k <;> simp [h2, mapFind, h]
      · simp only [h2, Bool.false_eq_true, if_false, mapFind, ih]
        by_cases h : k' = k
        · subst h
          have : (k' == ka) = false := by simpa using h1
          simp [this]
        · simp [h]

/-- a key bound once in the argument list is found with its value -/
theorem mapFind_foldl (kvs : List (Str × Str)) (m0 : Map) (k v : Str) (hmem : (k, v) ∈ kvs)
    (huniq : ∀ v', (k, v') ∈ kvs → v' = v) :
    mapFind k (kvs.foldl (fun m kv => mapInsert kv.1 kv.2 m) m0) = some v := by
  induction kvs generalizing m0 with
  | nil => cases hmem
  | cons a r ih =>
    simp only [List.foldl_cons]
    by_cases hr : (k, v) ∈ r
    · exact ih _ hr (fun v' hv' => huniq v' (by simp [hv']))
    · have ha : a = (k, v) := by
        rcases List.mem_cons.mp hmem with h | h
        · exact h.symm
        · exact absurd h hr
      subst ha
      -- no later binding of `k`
      have hnone : ∀ kv ∈ r, kv.1 ≠ k := by
        intro kv hkv e
        have : kv = (k, kv.2) := by rw [← e]
        rw [this] at hkv
        have := huniq kv.2 (by simp [hkv])
        rw [this] at hkv
        exact hr hkv
      have key : ∀ (r : List (Str × Str)) (m : Map), (∀ kv ∈ r, kv.1 ≠ k) →
          mapFind k (r.foldl (fun m kv => mapInsert kv.1 kv.2 m) m) = mapFind k m := by
        intro r
        induction r with
        | nil => intro m _; rfl
        | cons b r ih2 =>
          intro m hb
          simp only [List.foldl_cons]
          rw [ih2 _ (fun kv hkv => hb kv (by simp [hkv])), mapFind_insert']
          have : k ≠ b.1 := fun e => hb b (by simp) e.symm
          simp [this]
      rw [key r _ hnone, mapFind_insert']
      simp

theorem nodup_fst_inj {α β : Type} (l : List (α × β)) (hd : (l.map (·.1)).Nodup) (a b : α × β)
    (ha : a ∈ l) (hb : b ∈ l) (h : a.1 = b.1) : a = b := by
  induction l with
  | nil => cases ha
  | cons x r ih =>
    simp only [List.map_cons, List.nodup_cons, List.mem_map, not_exists, not_and] at hd
    rcases List.mem_cons.mp ha with rfl | ha' <;> rcases List.mem_cons.mp hb with rfl | hb'
    · rfl
    · exact absurd h.symm (hd.1 b hb')
    · exact absurd h (hd.1 a ha')
    · exact ih hd.2 ha' hb'

end Bpp.Text.DistText
