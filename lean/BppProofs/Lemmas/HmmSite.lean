import BppProofs.Lemmas.Hmm
import BppProofs.Lemmas.HmmLogPost
/-!
Helper lemmas for C13: the single-site posterior accessor of the log-sum class
(`getHiddenStatesPosteriorProbabilitiesForASite`, which walks the break points on its own) agrees with
the corresponding row of the all-sites accessor, for every valid vector of break points — in
particular at, just before and just after a break point.
-/
namespace Bpp.Hmm
open Bpp

/-- the single-site walk counts the break points `≤ site` -/
theorem logPostIdx1_eq (site : Nat) (bps : List Nat) (hs : bps.Pairwise (· < ·)) :
    logPostIdx1 site bps = (bps.filter (fun b => decide (b ≤ site))).length := by
  induction bps with
  | nil => rfl
  | cons b bs ih =>
    have hbs : ∀ x ∈ bs, b < x := (List.pairwise_cons.mp hs).1
    simp only [logPostIdx1]
    by_cases hb : b ≤ site
    · simp only [hb, if_true, List.filter_cons, decide_true, List.length_cons]
      rw [ih (List.pairwise_cons.mp hs).2]; omega
    · simp only [hb, if_false, List.filter_cons, decide_false]
      have : bs.filter (fun x => decide (x ≤ site)) = [] := by
        rw [List.filter_eq_nil_iff]
        intro x hx; have := hbs x hx; simp; omega
      simp [this]

/-- the all-sites walk at position `i + k` has advanced past the break points `≤ i + k` -/
theorem logPostIdx_get (T cnt i : Nat) (bps : List Nat) (idx : Nat) (hT : i + cnt = T)
    (hs : bps.Pairwise (· < ·)) (hb : ∀ b ∈ bps, i ≤ b ∧ b < T) (k : Nat) (hk : k < cnt) :
    (logPostIdx T cnt i bps idx)[k]? = some (idx + (bps.filter (fun b => decide (b ≤ i + k))).length) := by
  induction cnt generalizing i bps idx k with
  | zero => omega
  | succ cnt ih =>
    cases bps with
    | nil =>
      have h2 : (i == T) = false := by simp; omega
      simp only [logPostIdx, nextBrk, h2, Bool.false_eq_true, if_false]
      cases k with
      | zero => simp
      | succ k =>
        simp only [List.getElem?_cons_succ]
        rw [ih (i + 1) [] idx (by omega) List.Pairwise.nil (by simp) k (by omega)]
        simp
    | cons b bs =>
      have hb0 := hb b List.mem_cons_self
      have hbs : ∀ x ∈ bs, b < x := (List.pairwise_cons.mp hs).1
      have hs' := (List.pairwise_cons.mp hs).2
      by_cases hib : i = b
      · subst hib
        simp only [logPostIdx, nextBrk, beq_self_eq_true, if_true, List.tail_cons]
        have hfil0 : ∀ m, i ≤ m → ((i :: bs).filter (fun x => decide (x ≤ m))).length = 1 + (bs.filter (fun x => decide (x ≤ m))).length := by
          intro m hm
          simp only [List.filter_cons, hm, decide_true, if_true, List.length_cons]; omega
        cases k with
        | zero =>
          simp only [List.getElem?_cons_zero, Nat.add_zero]
          rw [hfil0 i (Nat.le_refl _)]
          have : bs.filter (fun x => decide (x ≤ i)) = [] := by
            rw [List.filter_eq_nil_iff]; intro x hx; have := hbs x hx; simp; omega
          simp [this]
        | succ k =>
          simp only [List.getElem?_cons_succ]
          rw [ih (i + 1) bs (idx + 1) (by omega) hs'
            (fun x hx => ⟨by have := hbs x hx; omega, (hb x (List.mem_cons_of_mem _ hx)).2⟩) k (by omega)]
          rw [hfil0 (i + (k + 1)) (by omega)]
          congr 1
          have : i + 1 + k = i + (k + 1) := by omega
          rw [this]; omega
      · have hlt : i < b := by omega
        have h2 : (i == b) = false := by simp; omega
        simp only [logPostIdx, nextBrk, h2, Bool.false_eq_true, if_false]
        cases k with
        | zero =>
          simp only [List.getElem?_cons_zero, Nat.add_zero]
          have : (b :: bs).filter (fun x => decide (x ≤ i)) = [] := by
            rw [List.filter_eq_nil_iff]; intro x hx
            rcases List.mem_cons.mp hx with rfl | hx
            · simp; omega
            · have := hbs x hx; simp; omega
          simp [this]
        | succ k =>
          simp only [List.getElem?_cons_succ]
          rw [ih (i + 1) (b :: bs) idx (by omega) hs
            (fun x hx => ⟨by
              rcases List.mem_cons.mp hx with rfl | hx
              · omega
              · have := hbs x hx; omega, (hb x hx).2⟩) k (by omega)]
          have : i + 1 + k = i + (k + 1) := by omega
          rw [this]

theorem mapM_option_get {β γ : Type} (f : β → Option γ) (l : List β) (m : List γ) (h : l.mapM f = some m) :
    m.length = l.length ∧ ∀ i, i < l.length → m[i]? = (l[i]?).bind f := by
  induction l generalizing m with
  | nil =>
    simp only [List.mapM_nil, Option.pure_def, Option.some.injEq] at h
    subst h; simp
  | cons x xs ih =>
    rw [List.mapM_cons] at h
    cases hx : f x with
    | none => simp [hx] at h
    | some y =>
      cases hxs : xs.mapM f with
      | none => simp [hx, hxs] at h
      | some ys =>
        simp only [hx, hxs, Option.pure_def, Option.bind_eq_bind, Option.bind_some, Option.some.injEq] at h
        subst h
        obtain ⟨h1, h2⟩ := ih ys hxs
        refine ⟨by simp [h1], ?_⟩
        intro i hi
        cases i with
        | zero => simp [hx]
        | succ i =>
          simp only [List.getElem?_cons_succ]
          exact h2 i (by simpa using hi)

/-- for valid break points the single-site accessor answers row `site` of the all-sites accessor -/
theorem logPosteriorSite_eq_row {α : Type} [Scalar α] (fw : LogFwd α) (back : List (List α)) (bps : List Nat)
    (hlen : back.length = fw.logLik.length)
    (hv : bps.Pairwise (· < ·) ∧ ∀ b ∈ bps, 1 ≤ b ∧ b < fw.logLik.length)
    (m : List (List α)) (hm : logPosteriorOf fw back bps = some m) (site : Nat) (hs : site < fw.logLik.length) :
    logPosteriorSiteOf fw back bps site = m[site]? := by
  unfold logPosteriorOf at hm
  set T := fw.logLik.length with hT
  have hidxlen : (logPostIdx T T 0 bps 0).length = T := by
    have : ∀ cnt i bps idx, (logPostIdx T cnt i bps idx).length = cnt := by
      intro cnt
      induction cnt with
      | zero => intros; rfl
      | succ cnt ih => intro i bps idx; simp only [logPostIdx]; split <;> simp [ih]
    exact this T 0 bps 0
  obtain ⟨_, hget⟩ := mapM_option_get _ _ m hm
  have hzl : (List.zip (List.zip fw.logLik back) (logPostIdx T T 0 bps 0)).length = T := by
    simp [List.length_zip, hlen, hidxlen, ← hT]
  rw [hget site (by rw [hzl]; exact hs)]
  have hidx := logPostIdx_get T T 0 bps 0 (by omega) hv.1 (fun b hb => ⟨Nat.zero_le _, (hv.2 b hb).2⟩) site hs
  simp only [Nat.zero_add] at hidx
  have hf : fw.logLik[site]? = some (fw.logLik[site]'hs) := List.getElem?_eq_getElem hs
  have hbk : back[site]? = some (back[site]'(by rw [hlen]; exact hs)) := List.getElem?_eq_getElem _
  have hz : (List.zip (List.zip fw.logLik back) (logPostIdx T T 0 bps 0))[site]?
      = some ((fw.logLik[site]'hs, back[site]'(by rw [hlen]; exact hs)), (bps.filter (fun b => decide (b ≤ site))).length) := by
    rw [List.getElem?_zip_eq_some]
    exact ⟨by rw [List.getElem?_zip_eq_some]; exact ⟨hf, hbk⟩, hidx⟩
  unfold logPosteriorSiteOf
  rw [hz]
  simp only [hf, hbk, Option.bind_some]
  rw [logPostIdx1_eq site bps hv.1]

end Bpp.Hmm
