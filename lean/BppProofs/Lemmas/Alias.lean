import Mathlib.Data.List.Nodup
import Mathlib.Order.Basic
import Mathlib.Algebra.Order.Ring.Rat
import BppModel.Alias
import BppModel.AliasSpec
import BppProofs.Lemmas.ParamList
/-! Helper lemmas for C03 (parameter aliases).  Property theorems are in `Props/C03.lean`. -/
namespace Bpp.Alias
open Bpp.ParamList (Bnd Con Par Store ObjId nameOf find? hasParameter names startsWith)

/-! ## Worlds that differ in parameter values only -/

/-- the value of parameter object `i` -/
def val (w : World) (i : ObjId) : Rat := (w.heap.get i).value

/-- the parameter object a listener writes to: `&(*pl_)[alias_]` -/
def tgt (w : World) (l : Nat) : Option ObjId :=
  match w.objs (w.lis l).pl with
  | none => none
  | some o => o.params[(w.lis l).alias]?

/-- `w'` is `w` up to the values of parameter objects -/
structure SameBut (w w' : World) : Prop where
  lsn : w'.lsn = w.lsn
  lis : w'.lis = w.lis
  lnext : w'.lnext = w.lnext
  objs : w'.objs = w.objs
  next : w'.heap.next = w.heap.next
  name : ∀ i, (w'.heap.get i).name = (w.heap.get i).name
  con : ∀ i, (w'.heap.get i).con = (w.heap.get i).con

theorem SameBut.refl (w : World) : SameBut w w := ⟨rfl, rfl, rfl, rfl, rfl, fun _ => rfl, fun _ => rfl⟩

theorem SameBut.trans {a b c : World} (x : SameBut a b) (y : SameBut b c) : SameBut a c :=
  ⟨y.lsn.trans x.lsn, y.lis.trans x.lis, y.lnext.trans x.lnext, y.objs.trans x.objs, y.next.trans x.next,
   fun i => (y.name i).trans (x.name i), fun i => (y.con i).trans (x.con i)⟩

theorem SameBut.tgt {w w' : World} (s : SameBut w w') (l : Nat) : tgt w' l = tgt w l := by
  simp only [Alias.tgt, s.lis, s.objs]

theorem SameBut.nameOf {w w' : World} (s : SameBut w w') (i : ObjId) : nameOf w'.heap i = nameOf w.heap i := s.name i

theorem SameBut.find? {w w' : World} (s : SameBut w w') (l : List ObjId) (n : String) :
    find? w'.heap l n = find? w.heap l n :=
  ParamList.find?_congr (fun i _ => s.name i) n

theorem SameBut.rejects {w w' : World} (s : SameBut w w') (i : ObjId) (v : Rat) :
    (w'.heap.get i).rejects v = (w.heap.get i).rejects v := by
  simp only [Par.rejects, s.con i]

theorem sameBut_putValue (w : World) (i : ObjId) (v : Rat) : SameBut w (w.putValue i v) := by
  refine ⟨rfl, rfl, rfl, rfl, rfl, fun j => ?_, fun j => ?_⟩ <;>
  · simp only [World.putValue, ParamList.get_put]; split <;> simp_all

@[simp] theorem val_putValue (w : World) (i j : ObjId) (v : Rat) :
    val (w.putValue i v) j = if j = i then v else val w j := by
  simp only [val, World.putValue, ParamList.get_put]; split <;> rfl

theorem fireList_sameBut {k : World → ObjId → Rat → WR} (hk : ∀ w t u, SameBut w (k w t u).w) (src : ObjId) :
    ∀ (ls : List Nat) (w : World), SameBut w (fireList k src w ls).w
  | [], w => SameBut.refl w
  | l :: rest, w => by
    simp only [fireList]
    split
    · exact SameBut.refl w
    · split
      · exact SameBut.refl w
      · split
        · exact SameBut.refl w
        · split
          · exact hk _ _ _
          · exact (hk _ _ _).trans (fireList_sameBut hk src rest _)

theorem setV_sameBut : ∀ (f : Nat) (w : World) (i : ObjId) (v : Rat), SameBut w (setV f w i v).w
  | 0, w, _, _ => SameBut.refl w
  | f + 1, w, i, v => by
    simp only [setV]
    split
    · exact SameBut.refl w
    · split
      · exact SameBut.refl w
      · exact (sameBut_putValue w i v).trans (fireList_sameBut (setV_sameBut f) i _ _)

/-! ## What a successful `setValue` does: `Step v w w'`

Every value either stays or becomes `v`; whenever a parameter object changed, every listener
attached to it has written `v` into its target. -/

structure Step (v : Rat) (w w' : World) : Prop extends SameBut w w' where
  onlyV : ∀ i, val w' i = val w i ∨ val w' i = v
  fired : ∀ i, val w' i ≠ val w i → ∀ l ∈ w.lsn i, ∀ t, tgt w l = some t → val w' t = v

theorem Step.refl (v : Rat) (w : World) : Step v w w :=
  { toSameBut := SameBut.refl w, onlyV := fun _ => Or.inl rfl, fired := fun i h => absurd rfl h }

theorem Step.trans {v : Rat} {a b c : World} (x : Step v a b) (y : Step v b c) : Step v a c where
  toSameBut := x.toSameBut.trans y.toSameBut
  onlyV i := by
    rcases y.onlyV i with h | h
    · rw [h]; exact x.onlyV i
    · exact Or.inr h
  fired i hi l hl t ht := by
    by_cases h1 : val b i = val a i
    · -- changed in the second part
      have h2 : val c i ≠ val b i := by rw [h1]; exact hi
      exact y.fired i h2 l (by rw [x.lsn]; exact hl) t (by rw [x.toSameBut.tgt]; exact ht)
    · have hb : val b t = v := x.fired i h1 l hl t ht
      rcases y.onlyV t with h | h
      · rw [h, hb]
      · exact h

/-- the loop over the listeners of `src` (whose value is `v` and stays `v`) -/
theorem fireList_step {k : World → ObjId → Rat → WR} {v : Rat}
    (hk : ∀ w t u, (k w t u).err = none → Step u w (k w t u).w ∧ val (k w t u).w t = u) (src : ObjId) :
    ∀ (ls : List Nat) (w : World), val w src = v → (fireList k src w ls).err = none →
      Step v w (fireList k src w ls).w ∧ ∀ l ∈ ls, ∀ t, tgt w l = some t → val (fireList k src w ls).w t = v
  | [], w, _, _ => ⟨Step.refl v w, fun l hl => by cases hl⟩
  | l :: rest, w, hv, herr => by
    have hv' : (w.heap.get src).value = v := hv
    simp only [fireList] at herr ⊢
    cases ho : w.objs (w.lis l).pl with
    | none => simp [ho] at herr
    | some o =>
      simp only [ho] at herr ⊢
      cases ht : o.params[(w.lis l).alias]? with
      | none => simp [ht] at herr
      | some t =>
        simp only [ht] at herr ⊢
        by_cases hname : (nameOf w.heap t != (w.lis l).name) = true
        · simp [hname] at herr
        · have hname' : (nameOf w.heap t != (w.lis l).name) = false := by simpa using hname
          simp only [hname', hv', Bool.false_eq_true, if_false] at herr ⊢
          cases hnone : (k w t v).err with
          | some e => simp [hnone] at herr
          | none =>
            simp only [hnone] at herr ⊢
            obtain ⟨s1, t1⟩ := hk w t v hnone
            have hsrc : val (k w t v).w src = v := by
              rcases s1.onlyV src with h | h
              · rw [h]; exact hv
              · exact h
            obtain ⟨s2, t2⟩ := fireList_step hk src rest (k w t v).w hsrc herr
            refine ⟨s1.trans s2, fun l' hl' t' ht' => ?_⟩
            rcases List.mem_cons.1 hl' with rfl | hl'
            · have : t' = t := by
                simp only [tgt, ho] at ht'
                rw [ht] at ht'; exact (Option.some.inj ht').symm
              subst this
              rcases s2.onlyV t' with h | h
              · rw [h]; exact t1
              · exact h
            · exact t2 l' hl' t' (by rw [s1.toSameBut.tgt]; exact ht')

/-- **what `Parameter::setValue` does when it returns**: `Step v` and the object itself holds `v` -/
theorem setV_step : ∀ (f : Nat) (w : World) (i : ObjId) (v : Rat), (setV f w i v).err = none →
    Step v w (setV f w i v).w ∧ val (setV f w i v).w i = v
  | 0, w, i, v, h => by simp [setV] at h
  | f + 1, w, i, v, h => by
    simp only [setV] at h ⊢
    by_cases h1 : v = (w.heap.get i).value
    · simp only [h1, if_true]
      exact ⟨Step.refl _ w, rfl⟩
    · simp only [h1, if_false] at h ⊢
      by_cases h2 : (w.heap.get i).rejects v = true
      · simp [h2] at h
      · simp only [h2, Bool.false_eq_true, if_false] at h ⊢
        have hsb := sameBut_putValue w i v
        have hvi : val (w.putValue i v) i = v := by simp
        obtain ⟨s, t⟩ := fireList_step (setV_step f) i (w.lsn i) (w.putValue i v) hvi h
        refine ⟨⟨hsb.trans s.toSameBut, fun j => ?_, fun j hj l hl t' ht' => ?_⟩, ?_⟩
        · rcases s.onlyV j with e | e
          · rw [e, val_putValue]; split
            · exact Or.inr rfl
            · exact Or.inl rfl
          · exact Or.inr e
        · by_cases hji : j = i
          · subst hji
            exact t l hl t' (by rw [hsb.tgt]; exact ht')
          · have : val (w.putValue i v) j = val w j := by simp [hji]
            exact s.fired j (by rw [this]; exact hj) l (by rw [hsb.lsn]; exact hl) t' (by rw [hsb.tgt]; exact ht')
        · rcases s.onlyV i with e | e
          · rw [e]; exact hvi
          · exact e

theorem setValue_step (w : World) (i : ObjId) (v : Rat) (h : (setValue w i v).err = none) :
    Step v w (setValue w i v).w ∧ val (setValue w i v).w i = v := setV_step _ w i v h

theorem setValue_sameBut (w : World) (i : ObjId) (v : Rat) : SameBut w (setValue w i v).w := setV_sameBut _ w i v

/-! ## Why a value changed: the entry point, or a listener of a changed object -/

/-- every change between `w` and `w'` is at an entry point (`E`) or is caused by a listener of a
changed object -/
def Cause (E : ObjId → Prop) (w w' : World) : Prop :=
  ∀ j, val w' j ≠ val w j → E j ∨ ∃ x l, l ∈ w.lsn x ∧ tgt w l = some j ∧ val w' x ≠ val w x

theorem fireList_cause {k : World → ObjId → Rat → WR} {v : Rat}
    (hk : ∀ w t u, (k w t u).err = none → Step u w (k w t u).w ∧ val (k w t u).w t = u)
    (hc : ∀ w t u, (k w t u).err = none → Cause (· = t) w (k w t u).w) (src : ObjId) :
    ∀ (ls : List Nat) (w : World), val w src = v → (fireList k src w ls).err = none →
      Cause (fun j => ∃ l ∈ ls, tgt w l = some j) w (fireList k src w ls).w
  | [], w, _, _ => fun j hj => absurd rfl hj
  | l :: rest, w, hv, herr => by
    have hv' : (w.heap.get src).value = v := hv
    have hstep := (fireList_step hk src (l :: rest) w hv herr).1
    simp only [fireList] at herr hstep ⊢
    cases ho : w.objs (w.lis l).pl with
    | none => simp [ho] at herr
    | some o =>
      simp only [ho] at herr hstep ⊢
      cases ht : o.params[(w.lis l).alias]? with
      | none => simp [ht] at herr
      | some t =>
        simp only [ht] at herr hstep ⊢
        by_cases hname : (nameOf w.heap t != (w.lis l).name) = true
        · simp [hname] at herr
        · have hname' : (nameOf w.heap t != (w.lis l).name) = false := by simpa using hname
          simp only [hname', hv', Bool.false_eq_true, if_false] at herr hstep ⊢
          cases hnone : (k w t v).err with
          | some e => simp [hnone] at herr
          | none =>
            simp only [hnone] at herr hstep ⊢
            obtain ⟨s1, _⟩ := hk w t v hnone
            have c1 := hc w t v hnone
            have hsrc : val (k w t v).w src = v := by
              rcases s1.onlyV src with h | h
              · rw [h]; exact hv
              · exact h
            have s2 := (fireList_step hk src rest (k w t v).w hsrc herr).1
            have c2 := fireList_cause hk hc src rest (k w t v).w hsrc herr
            have htl : tgt w l = some t := by simp only [tgt, ho, ht]
            intro j hj
            by_cases h1 : val (k w t v).w j = val w j
            · -- changed by the rest of the loop
              have h2 : val (fireList k src (k w t v).w rest).w j ≠ val (k w t v).w j := by rw [h1]; exact hj
              rcases c2 j h2 with ⟨l', hl', htg⟩ | ⟨x, l', hl', htg, hx⟩
              · exact Or.inl ⟨l', List.mem_cons_of_mem _ hl', by rw [← s1.toSameBut.tgt]; exact htg⟩
              · refine Or.inr ⟨x, l', by rw [← s1.lsn]; exact hl', by rw [← s1.toSameBut.tgt]; exact htg, ?_⟩
                -- `x` changed in the second part, hence overall
                have hfv : val (fireList k src (k w t v).w rest).w x = v := by
                  rcases s2.onlyV x with e | e
                  · exact absurd e hx
                  · exact e
                rcases s1.onlyV x with e | e
                · rw [← e]; exact hx
                · rw [e] at hx; exact absurd hfv hx
            · rcases c1 j h1 with rfl | ⟨x, l', hl', htg, hx⟩
              · exact Or.inl ⟨l, List.mem_cons_self .., htl⟩
              · refine Or.inr ⟨x, l', hl', htg, ?_⟩
                have hxv : val (k w t v).w x = v := by
                  rcases s1.onlyV x with e | e
                  · exact absurd e hx
                  · exact e
                rcases s2.onlyV x with e | e
                · rw [e]; exact hx
                · rw [e, ← hxv]; exact hx

theorem setV_cause : ∀ (f : Nat) (w : World) (i : ObjId) (v : Rat), (setV f w i v).err = none →
    Cause (· = i) w (setV f w i v).w
  | 0, w, i, v, h => by simp [setV] at h
  | f + 1, w, i, v, h => by
    have hstep := (setV_step (f + 1) w i v h)
    simp only [setV] at h hstep ⊢
    by_cases h1 : v = (w.heap.get i).value
    · simp only [h1, if_true]
      exact fun j hj => absurd rfl hj
    · simp only [h1, if_false] at h hstep ⊢
      by_cases h2 : (w.heap.get i).rejects v = true
      · simp [h2] at h
      · simp only [h2, Bool.false_eq_true, if_false] at h hstep ⊢
        have hsb := sameBut_putValue w i v
        have hvi : val (w.putValue i v) i = v := by simp
        have c := fireList_cause (setV_step f) (setV_cause f) i (w.lsn i) (w.putValue i v) hvi h
        have s := (fireList_step (setV_step f) i (w.lsn i) (w.putValue i v) hvi h).1
        have hfi : val (fireList (setV f) i (w.putValue i v) (w.lsn i)).w i = v := hstep.2
        have hne : val w i ≠ v := fun e => h1 e.symm
        intro j hj
        by_cases hji : j = i
        · exact Or.inl hji
        · have hp : val (w.putValue i v) j = val w j := by simp [hji]
          rcases c j (by rw [hp]; exact hj) with ⟨l, hl, htg⟩ | ⟨x, l, hl, htg, hx⟩
          · exact Or.inr ⟨i, l, hl, by rw [← hsb.tgt]; exact htg, by rw [hfi]; exact fun e => hne e.symm⟩
          · refine Or.inr ⟨x, l, by rw [← hsb.lsn]; exact hl, by rw [← hsb.tgt]; exact htg, ?_⟩
            by_cases hxi : x = i
            · subst hxi; rw [hfi]; exact fun e => hne e.symm
            · have : val (w.putValue x v) x = v := by simp
              have hp' : val (w.putValue i v) x = val w x := by simp [hxi]
              rw [← hp']; exact hx

theorem setValue_cause (w : World) (i : ObjId) (v : Rat) (h : (setValue w i v).err = none) :
    Cause (· = i) w (setValue w i v).w := setV_cause _ w i v h

/-! ## Chains of listeners -/

/-- `b` is reached from `x` through listeners whose two ends hold the same value in `w` -/
inductive SyncPath (w : World) : ObjId → ObjId → Prop
  | refl (x : ObjId) : SyncPath w x x
  | step {x y b : ObjId} {l : Nat} : l ∈ w.lsn x → tgt w l = some y → val w y = val w x → SyncPath w y b → SyncPath w x b

theorem Step.syncPath {v : Rat} {w w' : World} (s : Step v w w') {x b : ObjId} (p : SyncPath w x b) :
    val w' x = v → val w' b = v := by
  induction p with
  | refl x => exact id
  | @step x y b l hl ht hs _ ih =>
    intro hx
    apply ih
    by_cases hc : val w' x = val w x
    · have : val w y = v := by rw [hs, ← hc, hx]
      rcases s.onlyV y with e | e
      · rw [e, this]
      · exact e
    · exact s.fired x hc l hl y ht

/-- direct link: a changed object is equalled by the target of each of its listeners -/
theorem Step.tracks_direct {v : Rat} {w w' : World} (s : Step v w w') {a b : ObjId} {l : Nat}
    (hl : l ∈ w.lsn a) (ht : tgt w l = some b) (hc : val w' a ≠ val w a) : val w' b = val w' a := by
  have ha : val w' a = v := by
    rcases s.onlyV a with e | e
    · exact absurd e hc
    · exact e
  rw [ha]; exact s.fired a hc l hl b ht

/-- chain of any length: first link unconditional, the following ones in sync before the update -/
theorem Step.tracks_chain {v : Rat} {w w' : World} (s : Step v w w') {a x b : ObjId} {l : Nat}
    (hl : l ∈ w.lsn a) (ht : tgt w l = some x) (p : SyncPath w x b) (hc : val w' a ≠ val w a) :
    val w' b = val w' a := by
  have ha : val w' a = v := by
    rcases s.onlyV a with e | e
    · exact absurd e hc
    · exact e
  rw [ha]; exact s.syncPath p (s.fired a hc l hl x ht)

/-! ## Fuel is never exhausted: every effective recursive call turns one more value into `v` -/

/-- the parameters of every object are allocated -/
def ParamsValid (w : World) : Prop := ∀ k o, w.objs k = some o → ∀ t ∈ o.params, t < w.heap.next

theorem ParamsValid.sameBut {w w' : World} (p : ParamsValid w) (s : SameBut w w') : ParamsValid w' := by
  intro k o ho t ht
  rw [s.objs] at ho; rw [s.next]; exact p k o ho t ht

theorem tgt_valid {w : World} (p : ParamsValid w) {l : Nat} {t : ObjId} (h : tgt w l = some t) : t < w.heap.next := by
  simp only [tgt] at h
  split at h
  · cases h
  · rename_i o ho
    exact p _ o ho t (List.mem_of_getElem? h)

/-- number of allocated parameter objects whose value is not `v` -/
def cnt (v : Rat) (w : World) : Nat := (List.range w.heap.next).countP (fun j => decide (val w j ≠ v))

theorem countP_lt_of_witness {α : Type} {p q : α → Bool} : ∀ {l : List α} (_ : ∀ x ∈ l, q x = true → p x = true)
    {a : α} (_ : a ∈ l) (_ : p a = true) (_ : q a = false), l.countP q < l.countP p
  | x :: xs, himp, a, ha, hpa, hqa => by
    have hle : xs.countP q ≤ xs.countP p :=
      List.countP_mono_left (fun y hy h => himp y (List.mem_cons_of_mem _ hy) h)
    rcases List.mem_cons.1 ha with rfl | ha'
    · rw [List.countP_cons_of_pos hpa, List.countP_cons_of_neg (by simp [hqa])]
      omega
    · have ih := countP_lt_of_witness (fun y hy h => himp y (List.mem_cons_of_mem _ hy) h) ha' hpa hqa
      by_cases hq : q x = true
      · rw [List.countP_cons_of_pos hq, List.countP_cons_of_pos (himp x (List.mem_cons_self ..) hq)]; omega
      · rw [List.countP_cons_of_neg hq]
        by_cases hp : p x = true
        · rw [List.countP_cons_of_pos hp]; omega
        · rw [List.countP_cons_of_neg hp]; exact ih

theorem cnt_putValue_lt {w : World} {i : ObjId} {v : Rat} (hi : i < w.heap.next) (hv : val w i ≠ v) :
    cnt v (w.putValue i v) < cnt v w := by
  unfold cnt
  have hn : (w.putValue i v).heap.next = w.heap.next := rfl
  rw [hn]
  refine countP_lt_of_witness (a := i) (fun x _ h => ?_) (List.mem_range.2 hi) (by simpa using hv) (by simp)
  simp only [val_putValue, decide_eq_true_eq] at h ⊢
  split at h
  · exact absurd rfl h
  · exact h

theorem cnt_mono {v : Rat} {w w' : World} (s : Step v w w') : cnt v w' ≤ cnt v w := by
  unfold cnt
  rw [s.next]
  refine List.countP_mono_left (fun j _ h => ?_)
  simp only [decide_eq_true_eq] at h ⊢
  rcases s.onlyV j with e | e
  · rw [← e]; exact h
  · exact absurd e h

theorem fireList_no_hang {k : World → ObjId → Rat → WR} {v : Rat} {f : Nat}
    (hk : ∀ w t u, (k w t u).err = none → Step u w (k w t u).w ∧ val (k w t u).w t = u)
    (hn : ∀ w t, ParamsValid w → t < w.heap.next → cnt v w < f → (k w t v).err ≠ some .hang) (src : ObjId) :
    ∀ (ls : List Nat) (w : World), ParamsValid w → val w src = v → cnt v w < f →
      (fireList k src w ls).err ≠ some .hang
  | [], w, _, _, _ => by simp [fireList]
  | l :: rest, w, pv, hv, hc => by
    have hv' : (w.heap.get src).value = v := hv
    simp only [fireList]
    cases ho : w.objs (w.lis l).pl with
    | none => simp
    | some o =>
      simp only []
      cases ht : o.params[(w.lis l).alias]? with
      | none => simp
      | some t =>
        simp only []
        by_cases hname : (nameOf w.heap t != (w.lis l).name) = true
        · simp [hname]
        · have hname' : (nameOf w.heap t != (w.lis l).name) = false := by simpa using hname
          simp only [hname', hv', Bool.false_eq_true, if_false]
          have htv : t < w.heap.next := pv _ o ho t (List.mem_of_getElem? ht)
          cases hnone : (k w t v).err with
          | some e =>
            simp only []
            intro he
            exact hn w t pv htv hc (by rw [hnone, Option.some.inj he])
          | none =>
            simp only []
            obtain ⟨s1, _⟩ := hk w t v hnone
            have hsrc : val (k w t v).w src = v := by
              rcases s1.onlyV src with h | h
              · rw [h]; exact hv
              · exact h
            exact fireList_no_hang hk hn src rest _ (pv.sameBut s1.toSameBut) hsrc (Nat.lt_of_le_of_lt (cnt_mono s1) hc)

theorem setV_no_hang_aux : ∀ (f : Nat) (w : World) (i : ObjId) (v : Rat), ParamsValid w → i < w.heap.next →
    cnt v w < f → (setV f w i v).err ≠ some .hang
  | 0, _, _, _, _, _, h => by omega
  | f + 1, w, i, v, pv, hi, hc => by
    simp only [setV]
    by_cases h1 : v = (w.heap.get i).value
    · simp [h1]
    · simp only [h1, if_false]
      by_cases h2 : (w.heap.get i).rejects v = true
      · simp [h2]
      · simp only [h2, Bool.false_eq_true, if_false]
        have hlt : cnt v (w.putValue i v) < cnt v w := cnt_putValue_lt hi (fun e => h1 e.symm)
        exact fireList_no_hang (setV_step f) (fun w t pv ht hc => setV_no_hang_aux f w t v pv ht hc) i _ _
          (pv.sameBut (sameBut_putValue w i v)) (by simp) (by omega)

theorem cnt_le (v : Rat) (w : World) : cnt v w ≤ w.heap.next := by
  unfold cnt
  exact Nat.le_trans List.countP_le_length (by simp)

/-- **`setValue` never runs out of fuel** (whatever the wiring of the listeners, cycles included) -/
theorem setValue_no_hang (w : World) (i : ObjId) (v : Rat) (pv : ParamsValid w) (hi : i < w.heap.next) :
    (setValue w i v).err ≠ some .hang :=
  setV_no_hang_aux _ w i v pv hi (by have := cnt_le v w; unfold World.fuel; omega)

/-! ## Constraint intersection (`IntervalConstraint::operator&`) -/

def loOk (b : Bnd) (incl : Bool) (v : Rat) : Bool := if incl then b.leV v else b.ltV v
def hiOk (b : Bnd) (incl : Bool) (v : Rat) : Bool := if incl then b.geV v else b.gtV v

theorem accepts_eq (c : Con) (v : Rat) : c.accepts v = (loOk c.lo c.inclLo v && hiOk c.hi c.inclHi v) := rfl

theorem interLo_ok (a b : Bnd) (ia ib : Bool) (v : Rat) :
    loOk (if Bnd.lt a b then (b, ib) else if Bnd.lt b a then (a, ia) else (a, ia && ib)).1
         (if Bnd.lt a b then (b, ib) else if Bnd.lt b a then (a, ia) else (a, ia && ib)).2 v
      = (loOk a ia v && loOk b ib v) := by
  cases a <;> cases b <;> cases ia <;> cases ib <;>
    simp only [Bnd.lt, loOk, Bnd.leV, Bnd.ltV] <;> try (simp; done)
  all_goals
    rename_i x y
    rcases lt_trichotomy x y with h | h | h
    · have h' : ¬ y < x := not_lt.2 h.le
      simp [h]
      grind
    · subst h; simp <;> grind
    · have h' : ¬ x < y := not_lt.2 h.le
      simp [h, h']
      grind

theorem interHi_ok (a b : Bnd) (ia ib : Bool) (v : Rat) :
    hiOk (if Bnd.lt b a then (b, ib) else if Bnd.lt a b then (a, ia) else (a, ia && ib)).1
         (if Bnd.lt b a then (b, ib) else if Bnd.lt a b then (a, ia) else (a, ia && ib)).2 v
      = (hiOk a ia v && hiOk b ib v) := by
  cases a <;> cases b <;> cases ia <;> cases ib <;>
    simp only [Bnd.lt, hiOk, Bnd.geV, Bnd.gtV] <;> try (simp; done)
  all_goals
    rename_i x y
    rcases lt_trichotomy x y with h | h | h
    · have h' : ¬ y < x := not_lt.2 h.le
      simp [h, h']
      grind
    · subst h; simp <;> grind
    · have h' : ¬ x < y := not_lt.2 h.le
      simp [h]
      grind

/-- the intersection accepts exactly the values both operands accept -/
theorem Con.inter_accepts (c d : Con) (v : Rat) : (Con.inter c d).accepts v = (c.accepts v && d.accepts v) := by
  rw [accepts_eq, accepts_eq c, accepts_eq d]
  simp only [Con.inter]
  rw [interLo_ok, interHi_ok]
  cases loOk c.lo c.inclLo v <;> cases loOk d.lo d.inclLo v <;> cases hiOk c.hi c.inclHi v <;> simp

/-- "accepted by the constraint, if any" -/
def accOpt (c : Option Con) (v : Rat) : Bool :=
  match c with
  | some c => c.accepts v
  | none => true

/-- what the pair form leaves as constraints: a value accepted by both new constraints was
accepted by both old ones; when both parameters were constrained they end with one common
constraint that accepts exactly the values both accepted -/
theorem aliasConSpec_sem (c1 c2 : Option Con) (v : Rat) :
    (accOpt (aliasConSpec c1 c2).1 v = true ∧ accOpt (aliasConSpec c1 c2).2 v = true →
      accOpt c1 v = true ∧ accOpt c2 v = true) ∧
    (c1.isSome = true → c2.isSome = true →
      (accOpt (aliasConSpec c1 c2).1 v = (accOpt c1 v && accOpt c2 v)) ∧
      (accOpt (aliasConSpec c1 c2).2 v = (accOpt c1 v && accOpt c2 v))) := by
  cases c1 with
  | none => cases c2 <;> simp [aliasConSpec, accOpt]
  | some c =>
    cases c2 with
    | none => simp [aliasConSpec, accOpt]
    | some d =>
      by_cases h : c = d
      · subst h; simp [aliasConSpec, accOpt]
      · simp only [aliasConSpec, h, if_false, accOpt, Con.inter_accepts]
        cases c.accepts v <;> cases d.accepts v <;> simp

end Bpp.Alias
