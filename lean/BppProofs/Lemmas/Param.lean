import BppProofs.Lemmas.Interval
import BppModel.Param
/-!
Helper lemmas for C01: `Parameter::setValue`, `AutoParameter::setValue` at `ℝ`.
-/
namespace Bpp
open ScalarReal

theorem TINY_pos : (0 : ℝ) < Constants.TINY := by
  simp only [Constants.TINY, ofRat_eq]; positivity

theorem ereal_lt_sub {e : EReal} {a h : ℝ} (hh : e + (a : EReal) < (h : EReal)) : e < ((h - a : ℝ) : EReal) := by
  induction e using EReal.rec with
  | bot => exact EReal.bot_lt_coe _
  | coe x =>
    rw [← EReal.coe_add, EReal.coe_lt_coe_iff] at hh
    rw [EReal.coe_lt_coe_iff]; linarith
  | top => rw [EReal.top_add_coe] at hh; exact absurd hh (not_top_lt)

theorem ereal_coe_add_lt {e : EReal} {l a a' : ℝ} (hh : (l : EReal) + (a : EReal) < e) (ha : a' ≤ a) :
    ((l + a' : ℝ) : EReal) < e := by
  rw [← EReal.coe_add] at hh
  exact lt_of_le_of_lt (EReal.coe_le_coe_iff.2 (by linarith)) hh

namespace Interval

theorem isCorrect_iff_bounds' (c : Interval ℝ) (v : ℝ) :
    c.isCorrect v = true ↔
      (if c.inclLo then c.lo.toEReal ≤ v else c.lo.toEReal < v) ∧
      (if c.inclHi then (v : EReal) ≤ c.hi.toEReal else (v : EReal) < c.hi.toEReal) := by
  unfold isCorrect; rw [isCorrectB_iff_mem, mem_denote]; rfl

theorem wide_iff (c : Interval ℝ) : c.wide = true ↔
    0 ≤ c.prec ∧ (c.lo.toEReal + ((c.prec + Constants.TINY : ℝ) : EReal)) < c.hi.toEReal := by
  unfold wide
  simp [Bound.ltb_iff, Bound.toEReal_addS]



theorem geV_iff (c : Interval ℝ) (v : ℝ) : c.geV (.fin v) = true ↔ (v : EReal) ≤ c.lo.toEReal := by
  unfold geV; rw [Bound.geb_iff]; rfl

/-- what `getAcceptedLimit` answers to a rejected finite request on a wide interval -/
theorem alimit_spec (c : Interval ℝ) (v : ℝ) (hw : c.wide = true) (hrej : c.isCorrect v = false) :
    (c.geV (.fin v) = true ∧ ∃ l limit, c.lo = .fin l ∧ v ≤ l ∧ c.getAcceptedLimit (.fin v) = .fin limit ∧
        l ≤ limit ∧ limit ≤ l + c.prec ∧
        (c.isCorrect limit = true ∨ (limit = l ∧ c.isCorrect (l + Constants.TINY) = true))) ∨
    (c.geV (.fin v) = false ∧ ∃ h limit, c.hi = .fin h ∧ h ≤ v ∧ c.getAcceptedLimit (.fin v) = .fin limit ∧
        h - c.prec ≤ limit ∧ limit ≤ h ∧
        (c.isCorrect limit = true ∨
          (limit = h ∧ c.isCorrect (h + Constants.TINY) = false ∧ c.isCorrect (h - Constants.TINY) = true))) := by
  obtain ⟨hp0, hwd⟩ := (wide_iff c).1 hw
  have hT := TINY_pos
  have hrejB : c.isCorrectB (.fin v) = false := hrej
  by_cases hg : (v : EReal) ≤ c.lo.toEReal
  · left
    have hgeV : c.geV (.fin v) = true := (geV_iff c v).2 hg
    refine ⟨hgeV, ?_⟩
    cases hlo : c.lo with
    | negInf => rw [hlo] at hg; simp at hg
    | posInf => rw [hlo] at hwd; simp at hwd
    | fin l =>
      rw [hlo] at hg hwd
      simp only [Bound.toEReal_fin] at hg hwd
      have hvl : v ≤ l := EReal.coe_le_coe_iff.1 hg
      cases hil : c.inclLo with
      | true =>
        refine ⟨l, l, rfl, hvl, ?_, le_refl _, by linarith, Or.inl ?_⟩
        · simp [getAcceptedLimit, hrejB, hgeV, strictLowerBound, hil, hlo]
        · rw [isCorrect_iff_bounds']
          simp only [hil, if_true, hlo, Bound.toEReal_fin, le_refl, true_and]
          have : ((l + 0 : ℝ) : EReal) < c.hi.toEReal := ereal_coe_add_lt hwd (by linarith)
          rw [add_zero] at this
          split_ifs <;> [exact this.le; exact this]
      | false =>
        have hlim : c.getAcceptedLimit (.fin v) = .fin (l + c.prec) := by
          simp [getAcceptedLimit, hrejB, hgeV, strictLowerBound, hil, hlo, Bound.addS]
        rcases hp0.lt_or_eq with hpos | hzero
        · refine ⟨l, l + c.prec, rfl, hvl, hlim, by linarith, le_refl _, Or.inl ?_⟩
          rw [isCorrect_iff_bounds']
          simp only [hil, Bool.false_eq_true, if_false, hlo, Bound.toEReal_fin]
          have : ((l + c.prec : ℝ) : EReal) < c.hi.toEReal := ereal_coe_add_lt hwd (by linarith)
          refine ⟨EReal.coe_lt_coe_iff.2 (by linarith), ?_⟩
          split_ifs <;> [exact this.le; exact this]
        · refine ⟨l, l + c.prec, rfl, hvl, hlim, by linarith, le_refl _, Or.inr ⟨by linarith, ?_⟩⟩
          rw [isCorrect_iff_bounds']
          simp only [hil, Bool.false_eq_true, if_false, hlo, Bound.toEReal_fin]
          have : ((l + Constants.TINY : ℝ) : EReal) < c.hi.toEReal := ereal_coe_add_lt hwd (by linarith)
          refine ⟨EReal.coe_lt_coe_iff.2 (by linarith), ?_⟩
          split_ifs <;> [exact this.le; exact this]
  · right
    have hgeV : c.geV (.fin v) = false := by
      rw [Bool.eq_false_iff, Ne, geV_iff]; exact hg
    refine ⟨hgeV, ?_⟩
    have hlov : c.lo.toEReal < (v : EReal) := not_le.1 hg
    -- the upper test is the one that fails
    have hup : ¬ (if c.inclHi then (v : EReal) ≤ c.hi.toEReal else (v : EReal) < c.hi.toEReal) := by
      intro hu
      have : c.isCorrect v = true := by
        rw [isCorrect_iff_bounds']
        refine ⟨?_, hu⟩
        split_ifs <;> [exact hlov.le; exact hlov]
      rw [hrej] at this; cases this
    cases hhi : c.hi with
    | posInf => rw [hhi] at hup; exfalso; apply hup; split_ifs <;> simp [EReal.coe_lt_top]
    | negInf => rw [hhi] at hwd; simp at hwd
    | fin h =>
      rw [hhi] at hup hwd
      simp only [Bound.toEReal_fin] at hup hwd
      have hlo_lt : ∀ a : ℝ, a ≤ c.prec + Constants.TINY → c.lo.toEReal < ((h - a : ℝ) : EReal) := by
        intro a ha
        have := ereal_lt_sub hwd
        exact lt_of_lt_of_le this (EReal.coe_le_coe_iff.2 (by linarith))
      have hhv : h ≤ v := by
        by_contra hlt
        apply hup
        have : (v : EReal) < (h : EReal) := EReal.coe_lt_coe_iff.2 (not_le.1 hlt)
        split_ifs <;> [exact this.le; exact this]
      cases hiu : c.inclHi with
      | true =>
        refine ⟨h, h, rfl, hhv, ?_, by linarith, le_refl _, Or.inl ?_⟩
        · simp [getAcceptedLimit, hrejB, hgeV, strictUpperBound, hiu, hhi]
        · rw [isCorrect_iff_bounds']
          simp only [hiu, if_true, hhi, Bound.toEReal_fin, le_refl, and_true]
          have := hlo_lt 0 (by linarith)
          rw [sub_zero] at this
          split_ifs <;> [exact this.le; exact this]
      | false =>
        have hlim : c.getAcceptedLimit (.fin v) = .fin (h - c.prec) := by
          simp [getAcceptedLimit, hrejB, hgeV, strictUpperBound, hiu, hhi, Bound.subS]
        rcases hp0.lt_or_eq with hpos | hzero
        · refine ⟨h, h - c.prec, rfl, hhv, hlim, le_refl _, by linarith, Or.inl ?_⟩
          rw [isCorrect_iff_bounds']
          simp only [hiu, Bool.false_eq_true, if_false, hhi, Bound.toEReal_fin]
          have := hlo_lt c.prec (by linarith)
          refine ⟨?_, EReal.coe_lt_coe_iff.2 (by linarith)⟩
          split_ifs <;> [exact this.le; exact this]
        · refine ⟨h, h - c.prec, rfl, hhv, hlim, le_refl _, by linarith, Or.inr ⟨by linarith, ?_, ?_⟩⟩
          · rw [Bool.eq_false_iff, Ne, isCorrect_iff_bounds']
            simp only [hiu, Bool.false_eq_true, if_false, hhi, Bound.toEReal_fin]
            rintro ⟨_, h2⟩
            have := EReal.coe_lt_coe_iff.1 h2
            linarith
          · rw [isCorrect_iff_bounds']
            simp only [hiu, Bool.false_eq_true, if_false, hhi, Bound.toEReal_fin]
            have := hlo_lt Constants.TINY (by linarith)
            refine ⟨?_, EReal.coe_lt_coe_iff.2 (by linarith)⟩
            split_ifs <;> [exact this.le; exact this]


/-- on a wide interval an included finite bound is itself accepted -/
theorem isCorrect_lo_of_wide (c : Interval ℝ) (l : ℝ) (hw : c.wide = true) (hlo : c.lo = .fin l)
    (hil : c.inclLo = true) : c.isCorrect l = true := by
  obtain ⟨hp0, hwd⟩ := (wide_iff c).1 hw
  have hT := TINY_pos
  rw [hlo] at hwd; simp only [Bound.toEReal_fin] at hwd
  rw [isCorrect_iff_bounds']
  simp only [hil, if_true, hlo, Bound.toEReal_fin, le_refl, true_and]
  have : ((l + 0 : ℝ) : EReal) < c.hi.toEReal := ereal_coe_add_lt hwd (by linarith)
  rw [add_zero] at this
  split_ifs <;> [exact this.le; exact this]

theorem isCorrect_hi_of_wide (c : Interval ℝ) (h : ℝ) (hw : c.wide = true) (hhi : c.hi = .fin h)
    (hiu : c.inclHi = true) : c.isCorrect h = true := by
  obtain ⟨hp0, hwd⟩ := (wide_iff c).1 hw
  have hT := TINY_pos
  rw [hhi] at hwd; simp only [Bound.toEReal_fin] at hwd
  rw [isCorrect_iff_bounds']
  simp only [hiu, if_true, hhi, Bound.toEReal_fin, le_refl, and_true]
  have := lt_of_lt_of_le (ereal_lt_sub hwd) (EReal.coe_le_coe_iff.2 (by linarith : h - (c.prec + Constants.TINY) ≤ h))
  split_ifs <;> [exact this.le; exact this]

/-- the exact answer of `getAcceptedLimit` to a rejected finite request on a wide interval, and
which of `limit`, `limit ± TINY` is accepted: on the lower side the bound itself when included,
one precision step inside when excluded (accepted iff the precision is positive; with precision 0
`bound + TINY` is); symmetrically on the upper side (where `bound + TINY` is rejected) -/
theorem alimit_exact (c : Interval ℝ) (v : ℝ) (hw : c.wide = true) (hrej : c.isCorrect v = false) :
    (c.geV (.fin v) = true ∧ ∃ l, c.lo = .fin l ∧ v ≤ l ∧
        c.getAcceptedLimit (.fin v) = .fin (if c.inclLo then l else l + c.prec) ∧
        (c.inclLo = true → c.isCorrect l = true) ∧
        (c.inclLo = false → 0 < c.prec → c.isCorrect (l + c.prec) = true) ∧
        (c.inclLo = false → c.prec = 0 → c.isCorrect l = false ∧ c.isCorrect (l + Constants.TINY) = true)) ∨
    (c.geV (.fin v) = false ∧ ∃ h, c.hi = .fin h ∧ h ≤ v ∧
        c.getAcceptedLimit (.fin v) = .fin (if c.inclHi then h else h - c.prec) ∧
        (c.inclHi = true → c.isCorrect h = true) ∧
        (c.inclHi = false → 0 < c.prec → c.isCorrect (h - c.prec) = true) ∧
        (c.inclHi = false → c.prec = 0 → c.isCorrect h = false ∧ c.isCorrect (h + Constants.TINY) = false ∧
            c.isCorrect (h - Constants.TINY) = true)) := by
  obtain ⟨hp0, hwd⟩ := (wide_iff c).1 hw
  have hT := TINY_pos
  have hrejB : c.isCorrectB (.fin v) = false := hrej
  rcases alimit_spec c v hw hrej with ⟨hg, l, limit, hlo, hvl, hlim, h1, h2, hok⟩ | ⟨hg, h, limit, hhi, hhv, hlim, h1, h2, hok⟩
  · left
    refine ⟨hg, l, hlo, hvl, ?_, fun hil => isCorrect_lo_of_wide c l hw hlo hil, ?_, ?_⟩
    · cases hil : c.inclLo <;> simp [getAcceptedLimit, hrejB, hg, strictLowerBound, hil, hlo, Bound.addS]
    · intro hil hpos
      rw [hlo] at hwd; simp only [Bound.toEReal_fin] at hwd
      rw [isCorrect_iff_bounds']
      simp only [hil, Bool.false_eq_true, if_false, hlo, Bound.toEReal_fin]
      have : ((l + c.prec : ℝ) : EReal) < c.hi.toEReal := ereal_coe_add_lt hwd (by linarith)
      refine ⟨EReal.coe_lt_coe_iff.2 (by linarith), ?_⟩
      split_ifs <;> [exact this.le; exact this]
    · intro hil hz
      rw [hlo] at hwd; simp only [Bound.toEReal_fin] at hwd
      constructor
      · rw [Bool.eq_false_iff, Ne, isCorrect_iff_bounds']
        simp only [hil, Bool.false_eq_true, if_false, hlo, Bound.toEReal_fin]
        rintro ⟨h3, _⟩; exact lt_irrefl _ h3
      · rw [isCorrect_iff_bounds']
        simp only [hil, Bool.false_eq_true, if_false, hlo, Bound.toEReal_fin]
        have : ((l + Constants.TINY : ℝ) : EReal) < c.hi.toEReal := ereal_coe_add_lt hwd (by linarith)
        refine ⟨EReal.coe_lt_coe_iff.2 (by linarith), ?_⟩
        split_ifs <;> [exact this.le; exact this]
  · right
    rw [hhi] at hwd; simp only [Bound.toEReal_fin] at hwd
    have hlo_lt : ∀ a : ℝ, a ≤ c.prec + Constants.TINY → c.lo.toEReal < ((h - a : ℝ) : EReal) := by
      intro a ha
      exact lt_of_lt_of_le (ereal_lt_sub hwd) (EReal.coe_le_coe_iff.2 (by linarith))
    refine ⟨hg, h, hhi, hhv, ?_, fun hiu => isCorrect_hi_of_wide c h hw hhi hiu, ?_, ?_⟩
    · cases hiu : c.inclHi <;> simp [getAcceptedLimit, hrejB, hg, strictUpperBound, hiu, hhi, Bound.subS]
    · intro hiu hpos
      rw [isCorrect_iff_bounds']
      simp only [hiu, Bool.false_eq_true, if_false, hhi, Bound.toEReal_fin]
      have := hlo_lt c.prec (by linarith)
      refine ⟨?_, EReal.coe_lt_coe_iff.2 (by linarith)⟩
      split_ifs <;> [exact this.le; exact this]
    · intro hiu hz
      refine ⟨?_, ?_, ?_⟩
      · rw [Bool.eq_false_iff, Ne, isCorrect_iff_bounds']
        simp only [hiu, Bool.false_eq_true, if_false, hhi, Bound.toEReal_fin]
        rintro ⟨_, h3⟩; exact lt_irrefl _ h3
      · rw [Bool.eq_false_iff, Ne, isCorrect_iff_bounds']
        simp only [hiu, Bool.false_eq_true, if_false, hhi, Bound.toEReal_fin]
        rintro ⟨_, h3⟩
        have := EReal.coe_lt_coe_iff.1 h3
        linarith
      · rw [isCorrect_iff_bounds']
        simp only [hiu, Bool.false_eq_true, if_false, hhi, Bound.toEReal_fin]
        have := hlo_lt Constants.TINY (by linarith)
        refine ⟨?_, EReal.coe_lt_coe_iff.2 (by linarith)⟩
        split_ifs <;> [exact this.le; exact this]

/-- with both bounds included, `getAcceptedLimit` is `getLimit`: for a rejected request on a wide
interval it is the (accepted) bound on the request's side -/
theorem alimit_closed (c : Interval ℝ) (v : ℝ) (hw : c.wide = true) (hcl : c.inclLo = true ∧ c.inclHi = true)
    (hrej : c.isCorrect v = false) :
    ∃ b, c.getAcceptedLimit (.fin v) = .fin b ∧ c.getLimit (.fin v) = .fin b ∧ c.isCorrect b = true := by
  have hrejB : c.isCorrectB (.fin v) = false := hrej
  rcases alimit_spec c v hw hrej with ⟨hg, l, _, hlo, -⟩ | ⟨hg, h, _, hhi, -⟩
  · refine ⟨l, ?_, ?_, isCorrect_lo_of_wide c l hw hlo hcl.1⟩
    · simp [getAcceptedLimit, hrejB, hg, strictLowerBound, hcl.1, hlo]
    · simp [getLimit, hrejB, hg, hlo]
  · refine ⟨h, ?_, ?_, isCorrect_hi_of_wide c h hw hhi hcl.2⟩
    · simp [getAcceptedLimit, hrejB, hg, strictUpperBound, hcl.2, hhi]
    · simp [getLimit, hrejB, hg, hhi]

end Interval

namespace Param

/-- C01's invariant at `ℝ`: a constraint, if present, contains the stored value -/
def Inv (p : Param ℝ) : Prop := ∀ c, p.constraint = some c → (p.value : EReal) ∈ c.denote

theorem accepts_iff (p : Param ℝ) (v : ℝ) :
    p.accepts v = true ↔ ∀ c, p.constraint = some c → (v : EReal) ∈ c.denote := by
  unfold accepts
  cases h : p.constraint with
  | none => simp
  | some c => simp [Interval.isCorrect, Interval.isCorrectB_iff_mem]

theorem invOk_iff (p : Param ℝ) : p.invOk = true ↔ p.Inv := accepts_iff p p.value

theorem accepts_some {p : Param ℝ} {c : Interval ℝ} (hc : p.constraint = some c) (v : ℝ) :
    p.accepts v = c.isCorrect v := by
  unfold accepts; rw [hc]

/-- the three ways `Parameter::setValue` can go -/
theorem svb_cases (p : Param ℝ) (v : ℝ) :
    (|v - p.value| ≤ p.precision / 2 ∧ p.setValueBase v = .ok p) ∨
    (p.precision / 2 < |v - p.value| ∧ p.accepts v = true ∧ p.setValueBase v = .ok { p with value := v }) ∨
    (p.precision / 2 < |v - p.value| ∧ p.accepts v = false ∧ p.setValueBase v = .error .constraint) := by
  unfold Param.setValueBase
  by_cases h : p.precision / 2 < |v - p.value|
  · have h' : Scalar.gtb (Scalar.abs (v - p.value)) (p.precision / Scalar.ofInt 2) = true := by
      simpa using h
    rw [if_pos h']
    cases ha : p.accepts v
    · right; right; exact ⟨h, rfl, by simp⟩
    · right; left; exact ⟨h, rfl, by simp⟩
  · have h' : ¬ Scalar.gtb (Scalar.abs (v - p.value)) (p.precision / Scalar.ofInt 2) = true := by
      simpa using h
    rw [if_neg h']
    left; exact ⟨not_lt.1 h, rfl⟩

theorem svb_ok {p : Param ℝ} {v : ℝ} {p' : Param ℝ} (h : p.setValueBase v = .ok p') :
    (p' = p ∧ |v - p.value| ≤ p.precision / 2) ∨
    (p' = { p with value := v } ∧ p.precision / 2 < |v - p.value| ∧ p.accepts v = true) := by
  rcases svb_cases p v with ⟨a, e⟩ | ⟨a, b, e⟩ | ⟨a, b, e⟩ <;> rw [e] at h
  · left; exact ⟨(Except.ok.inj h).symm, a⟩
  · right; exact ⟨(Except.ok.inj h).symm, a, b⟩
  · cases h

theorem svb_err {p : Param ℝ} {v : ℝ} {e : PErr} (h : p.setValueBase v = .error e) :
    e = .constraint ∧ p.precision / 2 < |v - p.value| ∧ p.accepts v = false := by
  rcases svb_cases p v with ⟨a, e'⟩ | ⟨a, b, e'⟩ | ⟨a, b, e'⟩ <;> rw [e'] at h
  · cases h
  · cases h
  · exact ⟨(Except.error.inj h).symm, a, b⟩

theorem svb_inv {p : Param ℝ} {v : ℝ} {p' : Param ℝ} (hi : p.Inv) (h : p.setValueBase v = .ok p') : p'.Inv := by
  rcases svb_ok h with ⟨rfl, _⟩ | ⟨rfl, _, ha⟩
  · exact hi
  · exact (accepts_iff p v).1 ha

theorem svb_fields {p : Param ℝ} {v : ℝ} {p' : Param ℝ} (h : p.setValueBase v = .ok p') :
    p'.constraint = p.constraint ∧ p'.precision = p.precision ∧ p'.auto = p.auto := by
  rcases svb_ok h with ⟨rfl, _⟩ | ⟨rfl, _, _⟩ <;> exact ⟨rfl, rfl, rfl⟩

/-- every successful auto-correcting call is the result of one successful plain call -/
theorem sva_from_svb {p : Param ℝ} {v : ℝ} {p' : Param ℝ} (h : p.setValueAuto v = .ok p') :
    ∃ x, p.setValueBase x = .ok p' := by
  unfold setValueAuto at h
  split at h
  · next q h1 => exact ⟨v, by rw [h1]; exact congrArg _ (Except.ok.inj h)⟩
  · split at h
    · cases h
    · split at h
      · next limit _ =>
        split at h
        · next q h2 => exact ⟨limit, by rw [h2]; exact congrArg _ (Except.ok.inj h)⟩
        · split at h
          · next q h3 => exact ⟨_, by rw [h3]; exact congrArg _ (Except.ok.inj h)⟩
          · exact ⟨_, h⟩
      · cases h

theorem sva_inv {p : Param ℝ} {v : ℝ} {p' : Param ℝ} (hi : p.Inv) (h : p.setValueAuto v = .ok p') : p'.Inv := by
  obtain ⟨x, hx⟩ := sva_from_svb h; exact svb_inv hi hx

theorem sva_fields {p : Param ℝ} {v : ℝ} {p' : Param ℝ} (h : p.setValueAuto v = .ok p') :
    p'.constraint = p.constraint ∧ p'.precision = p.precision ∧ p'.auto = p.auto := by
  obtain ⟨x, hx⟩ := sva_from_svb h; exact svb_fields hx

theorem auto_spec (p : Param ℝ) (v : ℝ) (c : Interval ℝ) (hc : p.constraint = some c)
    (hp : 0 ≤ p.precision) (hw : c.wide = true) :
    ∃ p', p.setValueAuto v = .ok p' ∧
      (c.isCorrect v = true → |p'.value - v| ≤ p.precision / 2) ∧
      (c.isCorrect v = false →
        (c.geV (.fin v) = true ∧ ∃ l, c.lo = .fin l ∧ v ≤ l ∧
            p'.value ≤ l + max c.prec Constants.TINY + p.precision / 2) ∨
        (c.geV (.fin v) = false ∧ ∃ h, c.hi = .fin h ∧ h ≤ v ∧
            h - max c.prec Constants.TINY - p.precision / 2 ≤ p'.value)) := by
  have hT := TINY_pos
  have hm1 : c.prec ≤ max c.prec Constants.TINY := le_max_left _ _
  have hm2 : Constants.TINY ≤ max c.prec Constants.TINY := le_max_right _ _
  have hacc : ∀ x, p.accepts x = c.isCorrect x := accepts_some hc
  rcases svb_cases p v with ⟨a, e⟩ | ⟨a, b, e⟩ | ⟨a, b, e⟩
  · -- within the precision window: nothing happens
    refine ⟨p, by simp only [setValueAuto, e], ?_, ?_⟩
    · intro _; rw [abs_sub_comm]; exact a
    · intro hrej
      have ha := abs_le.1 a
      rcases Interval.alimit_spec c v hw hrej with ⟨hg, l, limit, hlo, hvl, -⟩ | ⟨hg, h, limit, hhi, hhv, -⟩
      · left; exact ⟨hg, l, hlo, hvl, by linarith [ha.1, ha.2]⟩
      · right; exact ⟨hg, h, hhi, hhv, by linarith [ha.1, ha.2]⟩
  · -- accepted and stored
    refine ⟨{ p with value := v }, by simp only [setValueAuto, e], ?_, ?_⟩
    · intro _; simp; linarith
    · intro hrej; rw [hacc, hrej] at b; cases b
  · -- rejected: correct
    have hrej : c.isCorrect v = false := by rw [← hacc]; exact b
    have first : ∀ q, (c.isCorrect v = true → |q - v| ≤ p.precision / 2) := by
      intro q h; rw [hrej] at h; cases h
    rcases Interval.alimit_spec c v hw hrej with
      ⟨hg, l, limit, hlo, hvl, hlim, h1, h2, hok⟩ | ⟨hg, h, limit, hhi, hhv, hlim, h1, h2, hok⟩
    · -- below the interval
      rcases svb_cases p limit with ⟨a2, e2⟩ | ⟨a2, b2, e2⟩ | ⟨a2, b2, e2⟩
      · have ha := abs_le.1 a2
        refine ⟨p, by simp only [setValueAuto, e, hc, hlim, e2], first _, fun _ => Or.inl ⟨hg, l, hlo, hvl, ?_⟩⟩
        linarith [ha.1, ha.2]
      · refine ⟨{ p with value := limit }, by simp only [setValueAuto, e, hc, hlim, e2], first _,
          fun _ => Or.inl ⟨hg, l, hlo, hvl, ?_⟩⟩
        show limit ≤ _; linarith
      · rw [hacc] at b2
        rcases hok with hok | ⟨hl, hok⟩
        · rw [hok] at b2; cases b2
        · subst hl
          rcases svb_cases p (limit + Constants.TINY) with ⟨a3, e3⟩ | ⟨a3, b3, e3⟩ | ⟨a3, b3, e3⟩
          · have ha := abs_le.1 a3
            refine ⟨p, by simp only [setValueAuto, e, hc, hlim, e2, e3], first _, fun _ => Or.inl ⟨hg, limit, hlo, hvl, ?_⟩⟩
            linarith [ha.1, ha.2]
          · refine ⟨{ p with value := limit + Constants.TINY }, by simp only [setValueAuto, e, hc, hlim, e2, e3], first _,
              fun _ => Or.inl ⟨hg, limit, hlo, hvl, ?_⟩⟩
            show limit + Constants.TINY ≤ _; linarith
          · rw [hacc, hok] at b3; cases b3
    · -- above the interval
      rcases svb_cases p limit with ⟨a2, e2⟩ | ⟨a2, b2, e2⟩ | ⟨a2, b2, e2⟩
      · have ha := abs_le.1 a2
        refine ⟨p, by simp only [setValueAuto, e, hc, hlim, e2], first _, fun _ => Or.inr ⟨hg, h, hhi, hhv, ?_⟩⟩
        linarith [ha.1, ha.2]
      · refine ⟨{ p with value := limit }, by simp only [setValueAuto, e, hc, hlim, e2], first _,
          fun _ => Or.inr ⟨hg, h, hhi, hhv, ?_⟩⟩
        show _ ≤ limit; linarith
      · rw [hacc] at b2
        rcases hok with hok | ⟨hl, hno, hok⟩
        · rw [hok] at b2; cases b2
        · subst hl
          rcases svb_cases p (limit + Constants.TINY) with ⟨a3, e3⟩ | ⟨a3, b3, e3⟩ | ⟨a3, b3, e3⟩
          · have ha := abs_le.1 a3
            refine ⟨p, by simp only [setValueAuto, e, hc, hlim, e2, e3], first _, fun _ => Or.inr ⟨hg, limit, hhi, hhv, ?_⟩⟩
            linarith [ha.1, ha.2]
          · rw [hacc, hno] at b3; cases b3
          · rcases svb_cases p (limit - Constants.TINY) with ⟨a4, e4⟩ | ⟨a4, b4, e4⟩ | ⟨a4, b4, e4⟩
            · have ha := abs_le.1 a4
              refine ⟨p, by simp only [setValueAuto, e, hc, hlim, e2, e3, e4], first _, fun _ => Or.inr ⟨hg, limit, hhi, hhv, ?_⟩⟩
              linarith [ha.1, ha.2]
            · refine ⟨{ p with value := limit - Constants.TINY }, by simp only [setValueAuto, e, hc, hlim, e2, e3, e4], first _,
                fun _ => Or.inr ⟨hg, limit, hhi, hhv, ?_⟩⟩
              show _ ≤ limit - Constants.TINY; linarith
            · rw [hacc, hok] at b4; cases b4


/-- the invariant only looks at value and constraint -/
theorem Inv_congr {p q : Param ℝ} (hv : q.value = p.value) (hc : q.constraint = p.constraint) (h : p.Inv) : q.Inv := by
  intro c hq; rw [hv]; exact h c (hc ▸ hq)

theorem setPrecision_nonneg (p : Param ℝ) (x : ℝ) : 0 ≤ (p.setPrecision x).precision := by
  unfold setPrecision
  by_cases h : x < 0 <;> simp [h, le_of_not_gt]

theorem construct_ok {v : ℝ} {c : Option (Interval ℝ)} {prec : ℝ} {a : Bool} {p : Param ℝ}
    (h : Param.construct v c prec a = .ok p) :
    p.Inv ∧ 0 ≤ p.precision ∧ p.value = v ∧ p.constraint = c ∧ p.auto = a := by
  unfold construct at h
  simp only at h
  split at h
  · next hacc =>
    have := Except.ok.inj h; subst this
    refine ⟨?_, setPrecision_nonneg _ _, rfl, rfl, rfl⟩
    exact Inv_congr rfl rfl ((accepts_iff _ v).1 hacc)
  · cases h

theorem construct_err {v : ℝ} {c : Option (Interval ℝ)} {prec : ℝ} {a : Bool} {e : PErr}
    (h : Param.construct v c prec a = .error e) :
    e = .constraint ∧ ∃ c', c = some c' ∧ c'.isCorrect v = false := by
  unfold construct at h
  simp only at h
  split at h
  · cases h
  · next hacc =>
    refine ⟨(Except.error.inj h).symm, ?_⟩
    cases c with
    | none => simp [accepts] at hacc
    | some c' => exact ⟨c', rfl, by simpa [accepts] using hacc⟩

theorem setConstraint_ok {p : Param ℝ} {c : Option (Interval ℝ)} {p' : Param ℝ} (h : p.setConstraint c = .ok p') :
    p' = { p with constraint := c } ∧ (∀ c', c = some c' → c'.isCorrect p.value = true) := by
  unfold setConstraint at h
  cases c with
  | none => exact ⟨(Except.ok.inj h).symm, by simp⟩
  | some c' =>
    simp only at h
    split at h
    · cases h
    · next hh => exact ⟨(Except.ok.inj h).symm, by intro c'' hc; cases hc; simpa using hh⟩

theorem setConstraint_err {p : Param ℝ} {c : Option (Interval ℝ)} {e : PErr} (h : p.setConstraint c = .error e) :
    e = .constraint ∧ ∃ c', c = some c' ∧ c'.isCorrect p.value = false := by
  unfold setConstraint at h
  cases c with
  | none => cases h
  | some c' =>
    simp only at h
    split at h
    · next hh => exact ⟨(Except.error.inj h).symm, c', rfl, by simpa using hh⟩
    · cases h

/-- the executable nearest-value predicate holds for every successful auto-correcting call on a
wide interval (any slack `k ≥ 1`) -/
theorem auto_nearestOk {p : Param ℝ} {v : ℝ} {c : Interval ℝ} {p' : Param ℝ} (hc : p.constraint = some c)
    (hp : 0 ≤ p.precision) (hw : c.wide = true) (hinv : p.Inv) (h : p.setValueAuto v = .ok p')
    (k : Int) (hk : 1 ≤ k) : p.nearestOk (Scalar.ofInt k) v p'.value = true := by
  obtain ⟨q, hq, f1, f2⟩ := auto_spec p v c hc hp hw
  rw [h] at hq; have := Except.ok.inj hq; subst this
  have hinv' : p'.Inv := sva_inv hinv h
  have hc' : p'.constraint = some c := by rw [(sva_fields h).1, hc]
  have hmem := (Interval.mem_denote c _).1 (hinv' c hc')
  have hT := TINY_pos
  have hk' : (1 : ℝ) ≤ (k : ℝ) := by exact_mod_cast hk
  have hmax : 0 < max c.prec Constants.TINY := lt_of_lt_of_le hT (le_max_right _ _)
  have hkm : max c.prec Constants.TINY ≤ (k : ℝ) * max c.prec Constants.TINY := le_mul_of_one_le_left hmax.le hk'
  unfold nearestOk
  rw [hc]
  simp only [ScalarReal.max_eq, ScalarReal.ofInt_eq, ScalarReal.abs_eq]
  cases hv : c.isCorrect v with
  | true => simpa using f1 hv
  | false =>
    simp only [Bool.false_eq_true, if_false]
    rcases f2 hv with ⟨hg, l, hlo, hvl, hb⟩ | ⟨hg, h', hhi, hhv, hb⟩
    · rw [hg, if_pos rfl, hlo]
      simp only [ScalarReal.leb_iff]
      have hlw : l ≤ p'.value := by
        have := hmem.1; rw [hlo] at this
        split_ifs at this
        · exact EReal.coe_le_coe_iff.1 this
        · exact (EReal.coe_lt_coe_iff.1 this).le
      rw [abs_of_nonneg (by linarith)]
      push_cast
      linarith
    · rw [hg]
      simp only [Bool.false_eq_true, if_false, hhi, ScalarReal.leb_iff]
      have hwh : p'.value ≤ h' := by
        have := hmem.2; rw [hhi] at this
        split_ifs at this
        · exact EReal.coe_le_coe_iff.1 this
        · exact (EReal.coe_lt_coe_iff.1 this).le
      rw [abs_of_nonpos (by linarith)]
      push_cast
      linarith

/-- what the executable predicate (slack 1) means -/
theorem nearestOk_sound {p : Param ℝ} {v w : ℝ} {c : Interval ℝ} (hc : p.constraint = some c)
    (h : p.nearestOk (Scalar.ofInt 1) v w = true) (u : ℝ) (hu : c.isCorrect u = true) :
    |w - v| ≤ |u - v| + max c.prec Constants.TINY + p.precision / 2 := by
  have hT := TINY_pos
  have hmax : 0 < max c.prec Constants.TINY := lt_of_lt_of_le hT (le_max_right _ _)
  have humem := (Interval.isCorrect_iff_bounds' c u).1 hu
  unfold nearestOk at h
  rw [hc] at h
  simp only [ScalarReal.max_eq, ScalarReal.ofInt_eq, ScalarReal.abs_eq] at h
  cases hv : c.isCorrect v with
  | true =>
    rw [hv, if_pos rfl, ScalarReal.leb_iff] at h
    push_cast at h
    linarith [abs_nonneg (u - v)]
  | false =>
    rw [hv] at h
    simp only [Bool.false_eq_true, if_false] at h
    cases hg : c.geV (.fin v) with
    | true =>
      rw [hg, if_pos rfl] at h
      cases hlo : c.lo with
      | negInf => rw [hlo] at h; cases h
      | posInf => rw [hlo] at h; cases h
      | fin l =>
        rw [hlo] at h
        simp only [ScalarReal.leb_iff] at h
        push_cast at h
        have hlu : l ≤ u := by
          have := humem.1; rw [hlo] at this
          split_ifs at this
          · exact EReal.coe_le_coe_iff.1 this
          · exact (EReal.coe_lt_coe_iff.1 this).le
        have := le_abs_self (u - v)
        linarith
    | false =>
      rw [hg] at h
      simp only [Bool.false_eq_true, if_false] at h
      cases hhi : c.hi with
      | negInf => rw [hhi] at h; cases h
      | posInf => rw [hhi] at h; cases h
      | fin h' =>
        rw [hhi] at h
        simp only [ScalarReal.leb_iff] at h
        push_cast at h
        have huh : u ≤ h' := by
          have := humem.2; rw [hhi] at this
          split_ifs at this
          · exact EReal.coe_le_coe_iff.1 this
          · exact (EReal.coe_lt_coe_iff.1 this).le
        have := neg_abs_le (u - v)
        linarith

end Param
end Bpp
