import BppProofs.Lemmas.AliasInv
/-! Copy construction and assignment of an `AbstractParameterAliasable` (C03): what `cloneAll`,
`rebuildIndep`, `rebuildReg` build, and the invariant of the result. -/
namespace Bpp.Alias
open Bpp.ParamList (Bnd Con Par Store ObjId nameOf find? hasParameter names startsWith)

/-! ## `cloneAll` -/

structure Cloned (w W : World) (l cl : List ObjId) : Prop where
  next : W.heap.next = w.heap.next + l.length
  len : cl.length = l.length
  lis : W.lis = w.lis
  lnext : W.lnext = w.lnext
  objs : W.objs = w.objs
  old : ∀ i, i < w.heap.next → W.heap.get i = w.heap.get i ∧ W.lsn i = w.lsn i
  new : ∀ j i, l[j]? = some i → cl[j]? = some (w.heap.next + j) ∧
    W.heap.get (w.heap.next + j) = w.heap.get i ∧ W.lsn (w.heap.next + j) = w.lsn i

theorem cloneAll_spec : ∀ (l : List ObjId) (w : World), (∀ i ∈ l, i < w.heap.next) →
    Cloned w (cloneAll w l).1 l (cloneAll w l).2
  | [], w, _ => ⟨by simp [cloneAll], rfl, rfl, rfl, rfl, fun _ _ => ⟨rfl, rfl⟩, fun j i h => by simp at h⟩
  | a :: rest, w, hv => by
    have ha : a < w.heap.next := hv a (List.mem_cons_self ..)
    have hrest : ∀ i ∈ rest, i < (w.allocPar (w.heap.get a) (w.lsn a)).1.heap.next := fun i hi => by
      have := hv i (List.mem_cons_of_mem _ hi)
      exact Nat.lt_succ_of_lt this
    have ih := cloneAll_spec rest (w.allocPar (w.heap.get a) (w.lsn a)).1 hrest
    simp only [cloneAll]
    refine ⟨?_, ?_, ?_, ?_, ?_, ?_, ?_⟩
    · rw [ih.next]; simp only [allocPar_next, List.length_cons]; omega
    · simp only [List.length_cons, ih.len]
    · rw [ih.lis]; rfl
    · rw [ih.lnext]; rfl
    · rw [ih.objs]; rfl
    · intro i hi
      obtain ⟨h1, h2⟩ := ih.old i (by simp only [allocPar_next]; omega)
      have hne : i ≠ w.heap.next := Nat.ne_of_lt hi
      rw [h1, h2]; simp [hne]
    · intro j i hj
      cases j with
      | zero =>
        simp only [List.getElem?_cons_zero, Option.some.injEq] at hj
        subst hj
        obtain ⟨h1, h2⟩ := ih.old w.heap.next (by simp)
        refine ⟨by simp, ?_, ?_⟩
        · rw [Nat.add_zero, h1]; simp
        · rw [Nat.add_zero, h2]; simp
      | succ j =>
        simp only [List.getElem?_cons_succ] at hj
        obtain ⟨h1, h2, h3⟩ := ih.new j i hj
        have hi : i < w.heap.next := hv i (List.mem_cons_of_mem _ (List.mem_of_getElem? hj))
        have hne : i ≠ w.heap.next := Nat.ne_of_lt hi
        have e : (w.allocPar (w.heap.get a) (w.lsn a)).1.heap.next + j = w.heap.next + (j + 1) := by
          simp only [allocPar_next]; omega
        rw [e] at h1 h2 h3
        refine ⟨by simpa using h1, ?_, ?_⟩
        · rw [h2]; simp [hne]
        · rw [h3]; simp [hne]

/-! ## `rebuildIndep` -/

theorem rebuildIndep_spec {W : World} {pre : String} {cl : List ObjId} (φ : ObjId → ObjId) :
    ∀ (srcs ind : List ObjId),
      (∀ s ∈ srcs, ∃ x, nameOf W.heap s = pre ++ x ∧ find? W.heap cl (pre ++ x) = some (φ s) ∧
        nameOf W.heap (φ s) = pre ++ x) →
      (names W.heap srcs).Nodup →
      (∀ s ∈ srcs, nameOf W.heap s ∉ names W.heap ind) →
      rebuildIndep pre cl W ind srcs = ({ w := W }, ind ++ srcs.map φ)
  | [], ind, _, _, _ => by simp [rebuildIndep]
  | s :: rest, ind, hφ, nd, hdis => by
    obtain ⟨x, hx, hf, hn⟩ := hφ s (List.mem_cons_self ..)
    simp only [names, List.map_cons, List.nodup_cons] at nd
    have hhas : hasParameter W.heap ind (pre ++ x) = false := by
      rw [ParamList.hasParameter_false_iff, ← hx]; exact hdis s (List.mem_cons_self ..)
    simp only [rebuildIndep, hx, stripNs_append, hf, shareParameter, hn, hhas, Bool.false_eq_true, if_false]
    rw [rebuildIndep_spec φ rest (ind ++ [φ s]) (fun t ht => hφ t (List.mem_cons_of_mem _ ht)) nd.2]
    · simp
    · intro t ht hm
      rw [ParamList.names_append] at hm
      rcases List.mem_append.1 hm with a | a
      · exact hdis t (List.mem_cons_of_mem _ ht) a
      · simp only [names, List.map_cons, List.map_nil, List.mem_singleton] at a
        rw [hn, ← hx] at a
        exact nd.1 (List.mem_map.2 ⟨t, ht, a⟩)

/-! ## `retarget` and `rebuildReg` -/

/-- the new listener list of one parameter in the inner loop -/
def retargeted (w : World) (id : String) (newL : Nat) (c : ObjId) : List Nat :=
  if (w.lsn c).any (fun l => (w.lis l).id == id) then (w.lsn c).filter (fun l => (w.lis l).id != id) ++ [newL]
  else w.lsn c

theorem retarget_spec (id : String) (newL : Nat) : ∀ (cl : List ObjId) (w : World), cl.Nodup →
    (retarget id newL w cl).heap = w.heap ∧ (retarget id newL w cl).lis = w.lis ∧
    (retarget id newL w cl).lnext = w.lnext ∧ (retarget id newL w cl).objs = w.objs ∧
    (∀ c, c ∉ cl → (retarget id newL w cl).lsn c = w.lsn c) ∧
    (∀ c ∈ cl, (retarget id newL w cl).lsn c = retargeted w id newL c)
  | [], w, _ => ⟨rfl, rfl, rfl, rfl, fun _ _ => rfl, fun c hc => by cases hc⟩
  | a :: rest, w, nd => by
    simp only [List.nodup_cons] at nd
    simp only [retarget]
    by_cases hc : (w.lsn a).any (fun l => (w.lis l).id == id) = true
    · simp only [hc, if_true]
      obtain ⟨h1, h2, h3, h4, h5, h6⟩ := retarget_spec id newL rest
        (w.setLsn a ((w.lsn a).filter (fun l => (w.lis l).id != id) ++ [newL])) nd.2
      refine ⟨h1, h2, h3, h4, fun c hcn => ?_, fun c hcm => ?_⟩
      · rw [h5 c (fun m => hcn (List.mem_cons_of_mem _ m))]
        have : c ≠ a := fun e => hcn (e ▸ List.mem_cons_self ..)
        simp [this]
      · rcases List.mem_cons.1 hcm with rfl | hm
        · rw [h5 c nd.1]; simp [retargeted, hc]
        · have : c ≠ a := fun e => nd.1 (e ▸ hm)
          rw [h6 c hm]; simp [retargeted, this]
    · have hc' : (w.lsn a).any (fun l => (w.lis l).id == id) = false := by simpa using hc
      simp only [hc', Bool.false_eq_true, if_false]
      obtain ⟨h1, h2, h3, h4, h5, h6⟩ := retarget_spec id newL rest w nd.2
      refine ⟨h1, h2, h3, h4, fun c hcn => h5 c (fun m => hcn (List.mem_cons_of_mem _ m)), fun c hcm => ?_⟩
      rcases List.mem_cons.1 hcm with rfl | hm
      · rw [h5 c nd.1]; simp [retargeted, hc']
      · exact h6 c hm

/-- what `rebuildReg` may assume of the world `w0` it starts from (just after the parameters were
cloned), of the clones `cl` and of the source's registry `R` -/
structure RCtx (w0 : World) (cl : List ObjId) (R : List (String × Nat)) : Prop where
  clNodup : cl.Nodup
  keys : (R.map Prod.fst).Nodup
  lids : (R.map Prod.snd).Nodup
  regId : ∀ e ∈ R, (w0.lis e.2).id = e.1 ∧ e.2 < w0.lnext
  lsnReg : ∀ c ∈ cl, ∀ x ∈ w0.lsn c, ((w0.lis x).id, x) ∈ R

/-- the state of `rebuildReg` after the entries `done`: `nu` pairs every processed listener
object of the source with its clone -/
structure RR (w0 w : World) (d : Nat) (cl : List ObjId) (done : List (String × Nat)) (nu : List (Nat × Nat))
    (acc : List (String × Nat)) : Prop where
  heap : w.heap = w0.heap
  objs : w.objs = w0.objs
  lnext : w0.lnext ≤ w.lnext
  lisOld : ∀ x, x < w0.lnext → w.lis x = w0.lis x
  nuFst : nu.map Prod.fst = done.map Prod.snd
  nuNew : ∀ p ∈ nu, w0.lnext ≤ p.2 ∧ p.2 < w.lnext ∧ w.lis p.2 = { w0.lis p.1 with pl := d }
  nuInj : (nu.map Prod.snd).Nodup
  lsnOut : ∀ c, c ∉ cl → w.lsn c = w0.lsn c
  lsnIn : ∀ c ∈ cl, ∀ x, x ∈ w.lsn c ↔
    (x ∈ w0.lsn c ∧ x ∉ done.map Prod.snd) ∨ (∃ l, (l, x) ∈ nu ∧ l ∈ w0.lsn c)
  accMem : ∀ q, q ∈ acc ↔ ∃ e ∈ done, ∃ x, (e.2, x) ∈ nu ∧ q = (e.1, x)
  accKeys : (acc.map Prod.fst).Nodup

theorem RR.init (w0 : World) (d : Nat) (cl : List ObjId) : RR w0 w0 d cl [] [] [] where
  heap := rfl
  objs := rfl
  lnext := Nat.le_refl _
  lisOld _ _ := rfl
  nuFst := rfl
  nuNew p hp := by cases hp
  nuInj := List.nodup_nil
  lsnOut _ _ := rfl
  lsnIn c _ x := by simp
  accMem q := by simp
  accKeys := List.nodup_nil

theorem RR.step {w0 w : World} {d : Nat} {cl : List ObjId} {R done todo : List (String × Nat)} {nu : List (Nat × Nat)}
    {acc : List (String × Nat)} {id : String} {l : Nat} (ctx : RCtx w0 cl R) (hR : R = done ++ (id, l) :: todo)
    (r : RR w0 w d cl done nu acc) :
    RR w0 (retarget id w.lnext (w.allocLis { w.lis l with pl := d }).1 cl) d cl (done ++ [(id, l)])
      (nu ++ [(l, w.lnext)]) (mapInsert id w.lnext acc) := by
  have heR : (id, l) ∈ R := by rw [hR]; simp
  have hdoneR : ∀ e ∈ done, e ∈ R := fun e he => by rw [hR]; exact List.mem_append_left _ he
  have hkeys := ctx.keys
  have hlids := ctx.lids
  rw [hR] at hkeys hlids
  simp only [List.map_append, List.map_cons] at hkeys hlids
  have hidnew : id ∉ done.map Prod.fst := fun m =>
    (List.nodup_append.1 hkeys).2.2 id m id (List.mem_cons_self ..) rfl
  have hlnew : l ∉ done.map Prod.snd := fun m =>
    (List.nodup_append.1 hlids).2.2 l m l (List.mem_cons_self ..) rfl
  obtain ⟨hlid, hllt⟩ := ctx.regId _ heR
  simp only at hlid hllt
  have hwl : w.lis l = w0.lis l := r.lisOld l hllt
  set ν := w.lnext with hν
  set A := (w.allocLis { w.lis l with pl := d }).1 with hA
  obtain ⟨t1, t2, t3, t4, t5, t6⟩ := retarget_spec id ν cl A ctx.clNodup
  have hAlis : ∀ x, x ≠ ν → A.lis x = w.lis x := fun x hx => if_neg hx
  have hAν : A.lis ν = { w0.lis l with pl := d } := by
    show (if ν = w.lnext then _ else _) = _
    rw [if_pos rfl, hwl]
  have hAlsn : A.lsn = w.lsn := rfl
  -- ids of the listeners currently attached to a clone
  have hidOf : ∀ c ∈ cl, ∀ x ∈ w.lsn c, ((A.lis x).id = id ↔ x = l) ∧ x ≠ ν := by
    intro c hc x hx
    rcases (r.lsnIn c hc x).1 hx with ⟨hx0, _⟩ | ⟨l', hl', _⟩
    · have hreg := ctx.lsnReg c hc x hx0
      obtain ⟨_, hxlt⟩ := ctx.regId _ hreg
      simp only at hxlt
      have hxν : x ≠ ν := Nat.ne_of_lt (Nat.lt_of_lt_of_le hxlt r.lnext)
      refine ⟨?_, hxν⟩
      rw [hAlis x hxν, r.lisOld x hxlt]
      constructor
      · intro hid
        rw [hid] at hreg
        have h1 := (mapFind?_eq_some ctx.keys).2 hreg
        have h2 := (mapFind?_eq_some ctx.keys).2 heR
        rw [h1] at h2; exact Option.some.inj h2
      · rintro rfl; exact hlid
    · obtain ⟨n1, n2, n3⟩ := r.nuNew _ hl'
      simp only at n1 n2 n3
      have hxν : x ≠ ν := Nat.ne_of_lt n2
      refine ⟨?_, hxν⟩
      rw [hAlis x hxν, n3]
      simp only
      have hl'd : l' ∈ done.map Prod.snd := by rw [← r.nuFst]; exact List.mem_map.2 ⟨_, hl', rfl⟩
      obtain ⟨e', he', hs'⟩ := List.mem_map.1 hl'd
      have hid' := (ctx.regId e' (hdoneR e' he')).1
      rw [hs'] at hid'
      constructor
      · intro hid
        exact absurd (List.mem_map.2 ⟨e', he', by rw [← hid, hid']⟩) hidnew
      · rintro rfl
        exact absurd (Nat.lt_of_lt_of_le hllt n1) (Nat.lt_irrefl _)
  have hlin : ∀ c ∈ cl, (l ∈ w.lsn c ↔ l ∈ w0.lsn c) := by
    intro c hc
    rw [r.lsnIn c hc l]
    constructor
    · rintro (⟨a, _⟩ | ⟨l', hl', _⟩)
      · exact a
      · exact absurd (Nat.lt_of_lt_of_le hllt (r.nuNew _ hl').1) (Nat.lt_irrefl _)
    · intro a; exact Or.inl ⟨a, hlnew⟩
  have hany : ∀ c ∈ cl, ((A.lsn c).any (fun x => (A.lis x).id == id) = true ↔ l ∈ w0.lsn c) := by
    intro c hc
    rw [List.any_eq_true, hAlsn]
    constructor
    · rintro ⟨x, hx, hid⟩
      have := ((hidOf c hc x hx).1).1 (by simpa using hid)
      subst this
      exact (hlin c hc).1 hx
    · intro a
      exact ⟨l, (hlin c hc).2 a, by simpa using ((hidOf c hc l ((hlin c hc).2 a)).1).2 rfl⟩
  have hfilter : ∀ c ∈ cl, ∀ x, x ∈ (A.lsn c).filter (fun x => (A.lis x).id != id) ↔ x ∈ w.lsn c ∧ x ≠ l := by
    intro c hc x
    rw [List.mem_filter, hAlsn]
    constructor
    · rintro ⟨hx, hne⟩
      refine ⟨hx, fun e => ?_⟩
      have := ((hidOf c hc x hx).1).2 e
      rw [this] at hne; simp at hne
    · rintro ⟨hx, hne⟩
      refine ⟨hx, ?_⟩
      have := (hidOf c hc x hx).1
      simp only [bne_iff_ne, ne_eq]
      exact fun e => hne (this.1 e)
  refine
    { heap := by rw [t1]; exact r.heap, objs := by rw [t4]; exact r.objs,
      lnext := by rw [t3]; exact Nat.le_trans r.lnext (Nat.le_succ _),
      lisOld := ?_, nuFst := by simp [r.nuFst], nuNew := ?_, nuInj := ?_, lsnOut := ?_, lsnIn := ?_, accMem := ?_, accKeys := ?_ }
  · intro x hx
    rw [t2, hAlis x (Nat.ne_of_lt (Nat.lt_of_lt_of_le hx r.lnext))]; exact r.lisOld x hx
  · intro p hp
    rw [t3, t2]
    rcases List.mem_append.1 hp with hp | hp
    · obtain ⟨n1, n2, n3⟩ := r.nuNew p hp
      refine ⟨n1, Nat.lt_succ_of_lt n2, ?_⟩
      rw [hAlis p.2 (Nat.ne_of_lt n2)]; exact n3
    · rw [List.mem_singleton.1 hp]
      exact ⟨r.lnext, Nat.lt_succ_self _, hAν⟩
  · rw [List.map_append, List.nodup_append]
    refine ⟨r.nuInj, by simp, ?_⟩
    intro a ha b hb
    simp only [List.map_cons, List.map_nil, List.mem_singleton] at hb
    obtain ⟨p, hp, rfl⟩ := List.mem_map.1 ha
    rw [hb]; exact Nat.ne_of_lt (r.nuNew p hp).2.1
  · intro c hc
    rw [t5 c hc]; exact r.lsnOut c hc
  · intro c hc x
    rw [t6 c hc]
    simp only [retargeted]
    by_cases hl0 : l ∈ w0.lsn c
    · rw [if_pos ((hany c hc).2 hl0), List.mem_append, hfilter c hc x, List.mem_singleton]
      constructor
      · rintro (⟨hx, hne⟩ | rfl)
        · rcases (r.lsnIn c hc x).1 hx with ⟨a, b⟩ | ⟨l', hl', hl'0⟩
          · left; refine ⟨a, ?_⟩
            simp only [List.map_append, List.map_cons, List.map_nil, List.mem_append, List.mem_singleton]
            rintro (m | m)
            · exact b m
            · exact hne m
          · right; exact ⟨l', List.mem_append_left _ hl', hl'0⟩
        · right; exact ⟨l, by simp, hl0⟩
      · rintro (⟨a, b⟩ | ⟨l', hl', hl'0⟩)
        · simp only [List.map_append, List.map_cons, List.map_nil, List.mem_append, List.mem_singleton, not_or] at b
          left; exact ⟨(r.lsnIn c hc x).2 (Or.inl ⟨a, b.1⟩), b.2⟩
        · rcases List.mem_append.1 hl' with hl' | hl'
          · left
            refine ⟨(r.lsnIn c hc x).2 (Or.inr ⟨l', hl', hl'0⟩), ?_⟩
            intro hxl
            have h1 := (r.nuNew _ hl').1
            simp only at h1
            rw [hxl] at h1
            exact absurd (Nat.lt_of_lt_of_le hllt h1) (Nat.lt_irrefl _)
          · simp only [List.mem_singleton, Prod.mk.injEq] at hl'
            right; exact hl'.2
    · have : ¬ ((A.lsn c).any (fun x => (A.lis x).id == id) = true) := fun h => hl0 ((hany c hc).1 h)
      rw [if_neg this, hAlsn, r.lsnIn c hc x]
      constructor
      · rintro (⟨a, b⟩ | ⟨l', hl', hl'0⟩)
        · left; refine ⟨a, ?_⟩
          simp only [List.map_append, List.map_cons, List.map_nil, List.mem_append, List.mem_singleton]
          rintro (m | m)
          · exact b m
          · exact hl0 (m ▸ a)
        · right; exact ⟨l', List.mem_append_left _ hl', hl'0⟩
      · rintro (⟨a, b⟩ | ⟨l', hl', hl'0⟩)
        · simp only [List.map_append, List.map_cons, List.map_nil, List.mem_append, List.mem_singleton, not_or] at b
          left; exact ⟨a, b.1⟩
        · rcases List.mem_append.1 hl' with hl' | hl'
          · right; exact ⟨l', hl', hl'0⟩
          · simp only [List.mem_singleton, Prod.mk.injEq] at hl'
            exact absurd (hl'.1 ▸ hl'0) hl0
  · have hfreshAcc : id ∉ acc.map Prod.fst := by
      intro m
      obtain ⟨q, hq, hk⟩ := List.mem_map.1 m
      obtain ⟨e, he, x, _, rfl⟩ := (r.accMem q).1 hq
      exact hidnew (List.mem_map.2 ⟨e, he, hk⟩)
    intro q
    rw [mem_mapInsert hfreshAcc]
    constructor
    · rintro (rfl | hq)
      · exact ⟨(id, l), by simp, ν, by simp, rfl⟩
      · obtain ⟨e, he, x, hx, rfl⟩ := (r.accMem q).1 hq
        exact ⟨e, List.mem_append_left _ he, x, List.mem_append_left _ hx, rfl⟩
    · rintro ⟨e, he, x, hx, rfl⟩
      rcases List.mem_append.1 he with he | he
      · rcases List.mem_append.1 hx with hx | hx
        · right; exact (r.accMem _).2 ⟨e, he, x, hx, rfl⟩
        · simp only [List.mem_singleton, Prod.mk.injEq] at hx
          exact absurd (List.mem_map.2 ⟨e, he, hx.1⟩) hlnew
      · rw [List.mem_singleton.1 he] at hx ⊢
        simp only at hx
        rcases List.mem_append.1 hx with hx | hx
        · have : l ∈ nu.map Prod.fst := List.mem_map.2 ⟨_, hx, rfl⟩
          rw [r.nuFst] at this
          exact absurd this hlnew
        · simp only [List.mem_singleton, Prod.mk.injEq] at hx
          left; rw [hx.2]
  · have hfreshAcc : id ∉ acc.map Prod.fst := by
      intro m
      obtain ⟨q, hq, hk⟩ := List.mem_map.1 m
      obtain ⟨e, he, x, _, rfl⟩ := (r.accMem q).1 hq
      exact hidnew (List.mem_map.2 ⟨e, he, hk⟩)
    exact keys_mapInsert hfreshAcc r.accKeys

theorem rebuildReg_RR {w0 : World} {d : Nat} {cl : List ObjId} {R : List (String × Nat)} (ctx : RCtx w0 cl R) :
    ∀ (todo done : List (String × Nat)) (nu : List (Nat × Nat)) (acc : List (String × Nat)) (w : World),
      R = done ++ todo → RR w0 w d cl done nu acc →
      ∃ nu', RR w0 (rebuildReg d cl w acc todo).1 d cl R nu' (rebuildReg d cl w acc todo).2
  | [], done, nu, acc, w, hR, r => by
    rw [List.append_nil] at hR; subst hR
    exact ⟨nu, r⟩
  | (id, l) :: rest, done, nu, acc, w, hR, r => by
    simp only [rebuildReg]
    exact rebuildReg_RR ctx rest (done ++ [(id, l)]) _ _ _ (by rw [hR]; simp) (r.step ctx hR)

/-! ## The rebuilt object -/

theorem Cloned.mem {w W : World} {l cl : List ObjId} (c : Cloned w W l cl) {x : ObjId} (hx : x ∈ cl) :
    ∃ j i, l[j]? = some i ∧ cl[j]? = some x ∧ x = w.heap.next + j := by
  obtain ⟨j, hj, e⟩ := List.mem_iff_getElem.1 hx
  have hjl : j < l.length := c.len ▸ hj
  have hl : l[j]? = some l[j] := List.getElem?_eq_getElem hjl
  obtain ⟨h1, _⟩ := c.new j _ hl
  have h2 : cl[j]? = some x := by rw [List.getElem?_eq_getElem hj, e]
  rw [h2] at h1
  exact ⟨j, l[j], hl, h2, Option.some.inj h1⟩

theorem Cloned.nodup {w W : World} {l cl : List ObjId} (c : Cloned w W l cl) : cl.Nodup := by
  rw [List.nodup_iff_injective_getElem]
  intro a b hab
  have ha : a.1 < l.length := c.len ▸ a.2
  have hb : b.1 < l.length := c.len ▸ b.2
  obtain ⟨h1, _⟩ := c.new a.1 _ (List.getElem?_eq_getElem ha)
  obtain ⟨h2, _⟩ := c.new b.1 _ (List.getElem?_eq_getElem hb)
  rw [List.getElem?_eq_getElem a.2] at h1
  rw [List.getElem?_eq_getElem b.2] at h2
  have e1 := Option.some.inj h1
  have e2 := Option.some.inj h2
  have : w.heap.next + a.1 = w.heap.next + b.1 := by rw [← e1, ← e2]; exact hab
  exact Fin.ext (by omega)

theorem Cloned.pos {w W : World} {l cl : List ObjId} (c : Cloned w W l cl) {j : Nat} {x : ObjId}
    (hx : cl[j]? = some x) : ∃ i, l[j]? = some i ∧ x = w.heap.next + j := by
  have hj : j < cl.length := (List.getElem?_eq_some_iff.1 hx).1
  have hjl : j < l.length := c.len ▸ hj
  obtain ⟨h1, _⟩ := c.new j _ (List.getElem?_eq_getElem hjl)
  rw [hx] at h1
  exact ⟨l[j], List.getElem?_eq_getElem hjl, Option.some.inj h1⟩

/-- the clone of the parameter object `s` of the source -/
def cloneOf (w : World) (o : Obj) (s : ObjId) : ObjId := w.heap.next + o.params.idxOf s

theorem cloneOf_pos {w : World} {k : Nat} {o : Obj} (h : ObjInv w k o) {j : Nat} {i : ObjId} (hj : o.params[j]? = some i) :
    cloneOf w o i = w.heap.next + j := by
  have hlt := (List.getElem?_eq_some_iff.1 hj).1
  have hji : o.params[j] = i := (List.getElem?_eq_some_iff.1 hj).2
  have hidx : o.params.idxOf i = j := by
    rw [← hji]; exact List.Nodup.idxOf_getElem h.idsNodup j hlt
  simp only [cloneOf, hidx]

/-- the object built by the two loops, given the clones `cl`, the rebuilt registry `reg'` -/
abbrev rebuiltObj (w : World) (o : Obj) (cl : List ObjId) (reg' : List (String × Nat)) : Obj :=
  { params := cl, indep := o.indep.map (cloneOf w o), reg := reg', pre := o.pre }

theorem rebuild_ok {w B : World} {s d : Nat} {o : Obj} {cl : List ObjId} {wc : World} (hs : ObjInv w s o)
    (hc : Cloned w wc o.params cl)
    (bh : B.heap = wc.heap) (bl : B.lsn = wc.lsn) (bli : B.lis = wc.lis) (bln : B.lnext = wc.lnext) :
    ∃ nu reg' Wf, rebuild B o d cl [] [] = ({ w := Wf.setObj d (rebuiltObj w o cl reg') } : WR) ∧
      RR B Wf d cl o.reg nu reg' := by
  -- names and listeners of the clones
  have hcl : ∀ j i, o.params[j]? = some i → cl[j]? = some (w.heap.next + j) ∧
      B.heap.get (w.heap.next + j) = w.heap.get i ∧ B.lsn (w.heap.next + j) = w.lsn i := by
    intro j i hj
    obtain ⟨a, b, c⟩ := hc.new j i hj
    exact ⟨a, by rw [bh]; exact b, by rw [bl]; exact c⟩
  have hold : ∀ i, i < w.heap.next → B.heap.get i = w.heap.get i := fun i hi => by rw [bh]; exact (hc.old i hi).1
  have hnamesCl : names B.heap cl = names w.heap o.params := by
    apply List.ext_getElem?
    intro j
    simp only [names, List.getElem?_map]
    cases hj : o.params[j]? with
    | none =>
      have : cl[j]? = none := by
        rw [List.getElem?_eq_none_iff] at hj ⊢; rw [hc.len]; exact hj
      rw [this]; rfl
    | some i =>
      obtain ⟨a, b, _⟩ := hcl j i hj
      rw [a]; simp only [Option.map_some, nameOf, b]
  -- the independent list
  have hind : rebuildIndep o.pre cl B [] o.indep = ({ w := B }, [] ++ o.indep.map (cloneOf w o)) := by
    refine rebuildIndep_spec (cloneOf w o) o.indep [] ?_ ?_ (fun _ _ hm => by cases hm)
    · intro t ht
      have htp := hs.indepSub t ht
      obtain ⟨x, hx, _⟩ := hs.plain t htp
      obtain ⟨j, hj⟩ := hs.exists_pos htp
      obtain ⟨a, b, _⟩ := hcl j t hj
      have hnt : nameOf B.heap t = o.pre ++ x := by
        simp only [nameOf, hold t (hs.valid t htp)]; exact hx
      have hnc : nameOf B.heap (cloneOf w o t) = o.pre ++ x := by
        rw [cloneOf_pos hs hj]; simp only [nameOf, b]; exact hx
      refine ⟨x, hnt, ?_, hnc⟩
      rw [find?_iff (by rw [hnamesCl]; exact hs.nodup)]
      exact ⟨by rw [cloneOf_pos hs hj]; exact List.mem_of_getElem? a, hnc⟩
    · have : names B.heap o.indep = names w.heap o.indep :=
        ParamList.names_congr (fun i hi => by simp only [nameOf, hold i (hs.valid i (hs.indepSub i hi))])
      rw [this]; exact hs.indepNames
  -- the registry
  have ctx : RCtx B cl o.reg := by
    refine ⟨hc.nodup, hs.regKeys, hs.lisNodup, fun e he => ?_, fun c hcm x hx => ?_⟩
    · rw [bli, hc.lis, bln, hc.lnext]; exact ⟨(hs.regOk e he).id, (hs.regOk e he).lt⟩
    · obtain ⟨j, i, hj, hcj, rfl⟩ := hc.mem hcm
      obtain ⟨_, _, c3⟩ := hcl j i hj
      rw [c3] at hx
      rw [bli, hc.lis]
      exact (hs.lsnOk i (List.mem_of_getElem? hj) x hx).1
  obtain ⟨nu, rr⟩ := rebuildReg_RR (d := d) ctx o.reg [] [] [] B rfl (RR.init B d cl)
  refine ⟨nu, (rebuildReg d cl B [] o.reg).2, (rebuildReg d cl B [] o.reg).1, ?_, rr⟩
  simp only [rebuild, hind, List.nil_append]

theorem objInv_rebuilt {w B Wf : World} {s d : Nat} {o : Obj} {cl : List ObjId} {wc : World} {nu : List (Nat × Nat)}
    {reg' : List (String × Nat)} (hs : ObjInv w s o) (hc : Cloned w wc o.params cl)
    (bh : B.heap = wc.heap) (bl : B.lsn = wc.lsn) (bli : B.lis = wc.lis) (bln : B.lnext = wc.lnext)
    (rr : RR B Wf d cl o.reg nu reg') :
    ObjInv (Wf.setObj d (rebuiltObj w o cl reg')) d (rebuiltObj w o cl reg') := by
  set n := w.heap.next with hn
  have hcl : ∀ j i, o.params[j]? = some i → cl[j]? = some (n + j) ∧
      Wf.heap.get (n + j) = w.heap.get i ∧ B.lsn (n + j) = w.lsn i := by
    intro j i hj
    obtain ⟨a, b, c⟩ := hc.new j i hj
    exact ⟨a, by rw [rr.heap, bh]; exact b, by rw [bl]; exact c⟩
  have hBlis : ∀ x, x < w.lnext → Wf.lis x = w.lis x := by
    intro x hx
    rw [rr.lisOld x (by rw [bln, hc.lnext]; exact hx), bli, hc.lis]
  have hnuLis : ∀ p ∈ nu, Wf.lis p.2 = { w.lis p.1 with pl := d } := by
    intro p hp
    rw [(rr.nuNew p hp).2.2, bli, hc.lis]
  have hnuFun : ∀ l x x', (l, x) ∈ nu → (l, x') ∈ nu → x = x' := by
    intro l x x' h1 h2
    have nd : (nu.map Prod.fst).Nodup := by rw [rr.nuFst]; exact hs.lisNodup
    have := List.inj_on_of_nodup_map nd h1 h2 rfl
    exact (Prod.mk.inj this).2
  have hnuEx : ∀ e ∈ o.reg, ∃ x, (e.2, x) ∈ nu := by
    intro e he
    have : e.2 ∈ nu.map Prod.fst := by rw [rr.nuFst]; exact List.mem_map.2 ⟨e, he, rfl⟩
    obtain ⟨p, hp, hpe⟩ := List.mem_map.1 this
    exact ⟨p.2, by rw [← hpe]; exact hp⟩
  -- positions correspond
  have hposCl : ∀ j c, cl[j]? = some c → ∃ i, o.params[j]? = some i ∧ c = n + j := fun j c h => hc.pos h
  have hnameCl : ∀ j i, o.params[j]? = some i → nameOf Wf.heap (n + j) = nameOf w.heap i := by
    intro j i hj; simp only [nameOf, (hcl j i hj).2.1]
  have hfol : Follows (Wf.setObj d (rebuiltObj w o cl reg')) (rebuiltObj w o cl reg') = Follows w o := by
    funext c q
    apply propext
    constructor
    · rintro ⟨q', hq', hc', t, ht, htn⟩
      obtain ⟨e, he, x, hx, rfl⟩ := (rr.accMem q').1 hq'
      simp only [setObj_lis, hnuLis _ hx] at hc' htn
      obtain ⟨i, hi, rfl⟩ := hposCl q t ht
      refine ⟨e, he, hc', i, hi, ?_⟩
      rw [← hnameCl q i hi]; exact htn
    · rintro ⟨e, he, hc', i, hi, hin⟩
      obtain ⟨x, hx⟩ := hnuEx e he
      refine ⟨(e.1, x), (rr.accMem _).2 ⟨e, he, x, hx, rfl⟩, ?_, n + q, (hcl q i hi).1, ?_⟩
      · simp only [setObj_lis, hnuLis _ hx]; exact hc'
      · simp only [setObj_lis, setObj_heap, hnuLis _ hx]
        rw [hnameCl q i hi]; exact hin
  refine
    { valid := ?_, nodup := ?_, plain := ?_, indepSub := ?_, indepNodup := ?_, indepIff := ?_, regKeys := rr.accKeys,
      regOk := ?_, lsnOk := ?_, once := ?_, acyclic := fun p => by rw [hfol]; exact hs.acyclic p, hasRoot := ?_ }
  · intro c hcm
    obtain ⟨j, i, hj, _, rfl⟩ := hc.mem hcm
    have hlt := (List.getElem?_eq_some_iff.1 hj).1
    show n + j < Wf.heap.next
    rw [rr.heap, bh, hc.next]; omega
  · show (names Wf.heap cl).Nodup
    have : names Wf.heap cl = names w.heap o.params := by
      apply List.ext_getElem?
      intro j
      simp only [names, List.getElem?_map]
      cases hj : o.params[j]? with
      | none =>
        have : cl[j]? = none := by
          rw [List.getElem?_eq_none_iff] at hj ⊢; rw [hc.len]; exact hj
        rw [this]; rfl
      | some i =>
        rw [(hcl j i hj).1]; simp only [Option.map_some, hnameCl j i hj]
    rw [this]; exact hs.nodup
  · intro c hcm
    obtain ⟨j, i, hj, _, rfl⟩ := hc.mem hcm
    show ∃ x, nameOf Wf.heap (n + j) = o.pre ++ x ∧ Plain x
    rw [hnameCl j i hj]; exact hs.plain i (List.mem_of_getElem? hj)
  · intro c hcm
    obtain ⟨t, ht, rfl⟩ := List.mem_map.1 hcm
    obtain ⟨j, hj⟩ := hs.exists_pos (hs.indepSub t ht)
    show cloneOf w o t ∈ cl
    rw [cloneOf_pos hs hj]; exact List.mem_of_getElem? (hcl j t hj).1
  · refine List.Nodup.map_on ?_ hs.indepNodup
    intro a ha b hb e
    obtain ⟨ja, hja⟩ := hs.exists_pos (hs.indepSub a ha)
    obtain ⟨jb, hjb⟩ := hs.exists_pos (hs.indepSub b hb)
    rw [cloneOf_pos hs hja, cloneOf_pos hs hjb] at e
    have : ja = jb := Nat.add_left_cancel e
    subst this
    rw [hja] at hjb; exact Option.some.inj hjb
  · intro c hcm
    obtain ⟨j, i, hj, hcj, rfl⟩ := hc.mem hcm
    have him := List.mem_of_getElem? hj
    show n + j ∈ o.indep.map (cloneOf w o) ↔ _
    have h1 : n + j ∈ o.indep.map (cloneOf w o) ↔ i ∈ o.indep := by
      constructor
      · intro hm
        obtain ⟨t, ht, hte⟩ := List.mem_map.1 hm
        obtain ⟨jt, hjt⟩ := hs.exists_pos (hs.indepSub t ht)
        rw [cloneOf_pos hs hjt] at hte
        have : jt = j := Nat.add_left_cancel hte
        subst this
        rw [hj] at hjt; cases hjt; exact ht
      · intro hi
        exact List.mem_map.2 ⟨i, hi, cloneOf_pos hs hj⟩
    rw [h1, hs.indepIff i him]
    constructor
    · rintro hno ⟨q', hq', ht⟩
      obtain ⟨e, he, x, hx, rfl⟩ := (rr.accMem q').1 hq'
      simp only [setObj_lis, hnuLis _ hx] at ht
      obtain ⟨i', hi', hpos⟩ := hposCl _ _ ht
      have : (w.lis e.2).alias = j := (Nat.add_left_cancel hpos).symm
      rw [this] at hi'
      rw [hj] at hi'; cases hi'
      exact hno ⟨e, he, by rw [this]; exact hj⟩
    · rintro hno ⟨e, he, ht⟩
      obtain ⟨x, hx⟩ := hnuEx e he
      have hje : (w.lis e.2).alias = j := hs.pos_inj ht hj
      refine hno ⟨(e.1, x), (rr.accMem _).2 ⟨e, he, x, hx, rfl⟩, ?_⟩
      simp only [setObj_lis, hnuLis _ hx]
      rw [hje]; exact hcj
  · intro q' hq'
    obtain ⟨e, he, x, hx, rfl⟩ := (rr.accMem q').1 hq'
    obtain ⟨r1, r2, r3, ⟨t, ht, htn, htl⟩, ⟨u, y, hu, hun, hnm, hid⟩⟩ := hs.regOk e he
    obtain ⟨jt, hjt⟩ := hs.exists_pos ht
    have hxl := hnuLis _ hx
    simp only at hxl
    refine ⟨(rr.nuNew _ hx).2.1, by simp only [setObj_lis, hxl]; exact r2, by simp only [setObj_lis, hxl],
      ⟨n + jt, List.mem_of_getElem? (hcl jt t hjt).1, ?_, ?_⟩, ⟨n + (w.lis e.2).alias, y, ?_, ?_, ?_, ?_⟩⟩
    · simp only [setObj_lis, setObj_heap, hxl]; rw [hnameCl jt t hjt]; exact htn
    · simp only [setObj_lsn]
      rw [rr.lsnIn _ (List.mem_of_getElem? (hcl jt t hjt).1)]
      right; exact ⟨e.2, hx, by rw [(hcl jt t hjt).2.2]; exact htl⟩
    · simp only [setObj_lis, hxl]; exact (hcl _ u hu).1
    · simp only [setObj_heap]; rw [hnameCl _ u hu]; exact hun
    · simp only [setObj_lis, hxl]; exact hnm
    · simp only [setObj_lis, hxl]; exact hid
  · intro c hcm x hx
    obtain ⟨j, i, hj, hcj, rfl⟩ := hc.mem hcm
    simp only [setObj_lsn] at hx
    have hB : B.lsn (n + j) = w.lsn i := (hcl j i hj).2.2
    rcases (rr.lsnIn _ hcm x).1 hx with ⟨a, b⟩ | ⟨l, hl, hl0⟩
    · rw [hB] at a
      exact absurd (List.mem_map.2 ⟨_, (hs.lsnOk i (List.mem_of_getElem? hj) x a).1, rfl⟩) b
    · rw [hB] at hl0
      obtain ⟨a, b⟩ := hs.lsnOk i (List.mem_of_getElem? hj) l hl0
      have hxl := hnuLis _ hl
      simp only at hxl
      refine ⟨?_, ?_⟩
      · simp only [setObj_lis, hxl]
        exact (rr.accMem _).2 ⟨_, a, x, hl, rfl⟩
      · simp only [setObj_lis, setObj_heap, hxl]
        rw [hnameCl j i hj]; exact b
  · intro q1 hq1 q2 hq2 ha
    obtain ⟨e1, he1, x1, hx1, rfl⟩ := (rr.accMem q1).1 hq1
    obtain ⟨e2, he2, x2, hx2, rfl⟩ := (rr.accMem q2).1 hq2
    simp only [setObj_lis, hnuLis _ hx1, hnuLis _ hx2] at ha
    have := hs.once e1 he1 e2 he2 ha
    subst this
    rw [hnuFun _ _ _ hx1 hx2]
  · intro hne hnil
    have hnil' : o.indep.map (cloneOf w o) = [] := hnil
    have hpe : o.params ≠ [] := by
      intro e
      have : cl.length = 0 := by rw [hc.len, e]; rfl
      exact hne (List.eq_nil_of_length_eq_zero this)
    exact hs.hasRoot hpe (List.map_eq_nil_iff.1 hnil')

/-! ## Copy construction and assignment preserve the invariant -/

/-- what copy construction / assignment of slot `s` into slot `d` did -/
structure Rebuilt (w : World) (s d : Nat) (o : Obj) (W : World) where
  cl : List ObjId
  reg' : List (String × Nat)
  inv : ObjInv W d (rebuiltObj w o cl reg')
  objs : W.objs = fun j => if j = d then some (rebuiltObj w o cl reg') else w.objs j
  next : w.heap.next ≤ W.heap.next
  lnext : w.lnext ≤ W.lnext
  old : ∀ i, i < w.heap.next → W.heap.get i = w.heap.get i ∧ W.lsn i = w.lsn i
  lisOld : ∀ l, l < w.lnext → W.lis l = w.lis l
  fresh : ∀ c ∈ cl, w.heap.next ≤ c
  /-- position by position, a clone carries the name, value and constraint of its original … -/
  same : ∀ (j : Nat) i, o.params[j]? = some i → ∃ c, cl[j]? = some c ∧ W.heap.get c = w.heap.get i
  len : cl.length = o.params.length
  clPos : ∀ (j : Nat) c, cl[j]? = some c → c = w.heap.next + j
  /-- … and answers to the same listener ids -/
  ids : ∀ (j : Nat) i c, o.params[j]? = some i → cl[j]? = some c → ∀ id, hasListener W c id = hasListener w i id

theorem rebuilt_of {w B Wf : World} {s d : Nat} {o : Obj} {cl : List ObjId} {wc : World} {nu : List (Nat × Nat)}
    {reg' : List (String × Nat)} (hs : ObjInv w s o) (hc : Cloned w wc o.params cl)
    (bh : B.heap = wc.heap) (bl : B.lsn = wc.lsn) (bli : B.lis = wc.lis) (bln : B.lnext = wc.lnext)
    (bo : ∀ j, j ≠ d → B.objs j = w.objs j)
    (rr : RR B Wf d cl o.reg nu reg') : Nonempty (Rebuilt w s d o (Wf.setObj d (rebuiltObj w o cl reg'))) := by
  have hfresh : ∀ c ∈ cl, w.heap.next ≤ c := by
    intro c hcm
    obtain ⟨j, i, _, _, rfl⟩ := hc.mem hcm
    exact Nat.le_add_right _ _
  have hnotcl : ∀ i, i < w.heap.next → i ∉ cl := fun i hi hm => Nat.lt_irrefl _ (Nat.lt_of_lt_of_le hi (hfresh i hm))
  refine ⟨⟨cl, reg', objInv_rebuilt hs hc bh bl bli bln rr, ?_, ?_, ?_, ?_, ?_, hfresh, ?_, hc.len,
    fun j c h => (hc.pos h).choose_spec.2, ?_⟩⟩
  · funext j
    simp only [setObj_objs]
    split
    · rfl
    · rename_i hj; rw [rr.objs]; exact bo j hj
  · show w.heap.next ≤ Wf.heap.next
    rw [rr.heap, bh, hc.next]; exact Nat.le_add_right _ _
  · show w.lnext ≤ Wf.lnext
    have := rr.lnext; rw [bln, hc.lnext] at this; exact this
  · intro i hi
    refine ⟨?_, ?_⟩
    · show Wf.heap.get i = _
      rw [rr.heap, bh]; exact (hc.old i hi).1
    · show Wf.lsn i = _
      rw [rr.lsnOut i (hnotcl i hi), bl]; exact (hc.old i hi).2
  · intro l hl
    show Wf.lis l = _
    rw [rr.lisOld l (by rw [bln, hc.lnext]; exact hl), bli, hc.lis]
  · intro j i hj
    obtain ⟨a, b, _⟩ := hc.new j i hj
    exact ⟨_, a, by show Wf.heap.get _ = _; rw [rr.heap, bh]; exact b⟩
  · intro j i c hj hcj id
    obtain ⟨a, _, c3⟩ := hc.new j i hj
    rw [a] at hcj; cases hcj
    have hcm : w.heap.next + j ∈ cl := List.mem_of_getElem? a
    have hB : B.lsn (w.heap.next + j) = w.lsn i := by rw [bl]; exact c3
    -- membership in the clone's listener list, id by id
    simp only [hasListener, setObj_lsn, setObj_lis]
    rw [Bool.eq_iff_iff, List.any_eq_true, List.any_eq_true]
    constructor
    · rintro ⟨x, hx, hid⟩
      rcases (rr.lsnIn _ hcm x).1 hx with ⟨a1, b1⟩ | ⟨l, hl, hl0⟩
      · rw [hB] at a1
        exact absurd (List.mem_map.2 ⟨_, (hs.lsnOk i (List.mem_of_getElem? hj) x a1).1, rfl⟩) b1
      · rw [hB] at hl0
        refine ⟨l, hl0, ?_⟩
        rw [(rr.nuNew _ hl).2.2, bli, hc.lis] at hid
        exact hid
    · rintro ⟨l, hl0, hid⟩
      have hreg := (hs.lsnOk i (List.mem_of_getElem? hj) l hl0).1
      have : l ∈ nu.map Prod.fst := by rw [rr.nuFst]; exact List.mem_map.2 ⟨_, hreg, rfl⟩
      obtain ⟨p, hp, hpl⟩ := List.mem_map.1 this
      refine ⟨p.2, (rr.lsnIn _ hcm p.2).2 (Or.inr ⟨l, by rw [← hpl]; exact hp, by rw [hB]; exact hl0⟩), ?_⟩
      rw [(rr.nuNew _ hp).2.2, bli, hc.lis, hpl]
      exact hid

theorem Rebuilt.inv_world {w W : World} {s d : Nat} {o : Obj} (h : Inv w) (r : Rebuilt w s d o W) : Inv W := by
  refine h.update (k := d) (P := oldParams w d) r.objs (fun o' ho' => oldParams_some o' ho') oldParams_none ?_ r.inv
    (fun c hc => Or.inr (r.fresh c hc))
  exact ⟨r.next, r.lnext, fun i hi _ => ⟨by simp only [nameOf, (r.old i hi).1], (r.old i hi).2⟩, fun l hl _ => r.lisOld l hl⟩

theorem copyConstruct_rebuilt {w : World} (h : Inv w) {s d : Nat} {o : Obj} (ho : w.objs s = some o) :
    (copyConstruct w s d).err = none ∧ Nonempty (Rebuilt w s d o (copyConstruct w s d).w) := by
  have hs := h.obj s o ho
  have hc := cloneAll_spec o.params w hs.valid
  obtain ⟨nu, reg', Wf, heq, rr⟩ := rebuild_ok (B := (cloneAll w o.params).1) (d := d) hs hc rfl rfl rfl rfl
  simp only [copyConstruct, ho, heq]
  exact ⟨trivial, rebuilt_of hs hc rfl rfl rfl rfl (fun j _ => by rw [hc.objs]) rr⟩

theorem assign_rebuilt {w : World} (h : Inv w) {s d : Nat} {o od : Obj} (ho : w.objs s = some o)
    (hd : w.objs d = some od) (hsd : s ≠ d) :
    (assign w s d).err = none ∧ Nonempty (Rebuilt w s d o (assign w s d).w) := by
  have hs := h.obj s o ho
  have hc := cloneAll_spec o.params w hs.valid
  obtain ⟨nu, reg', Wf, heq, rr⟩ := rebuild_ok (d := d)
    (B := (cloneAll w o.params).1.setObj d { params := (cloneAll w o.params).2, indep := [], reg := [], pre := o.pre })
    hs hc rfl rfl rfl rfl
  simp only [assign, ho, hd, hsd, if_false, heq]
  refine ⟨trivial, rebuilt_of (B := (cloneAll w o.params).1.setObj d
    { params := (cloneAll w o.params).2, indep := [], reg := [], pre := o.pre }) hs hc rfl rfl rfl rfl (fun j hj => ?_) rr⟩
  simp only [setObj_objs, hj, if_false, hc.objs]

theorem inv_copyConstruct {w : World} (h : Inv w) (s d : Nat) : Inv (copyConstruct w s d).w := by
  cases ho : w.objs s with
  | none =>
    have : copyConstruct w s d = { w := w, err := some .ub } := by simp [copyConstruct, ho]
    rw [this]; exact h
  | some o =>
    obtain ⟨_, ⟨r⟩⟩ := copyConstruct_rebuilt h (d := d) ho
    exact r.inv_world h

theorem inv_assign {w : World} (h : Inv w) (s d : Nat) : Inv (assign w s d).w := by
  cases ho : w.objs s with
  | none =>
    have : assign w s d = { w := w, err := some .ub } := by simp [assign, ho]
    rw [this]; exact h
  | some o =>
    cases hd : w.objs d with
    | none =>
      have : assign w s d = { w := w, err := some .ub } := by simp [assign, ho, hd]
      rw [this]; exact h
    | some od =>
      by_cases hsd : s = d
      · have : assign w s d = { w := w } := by simp [assign, ho, hd, hsd]
        rw [this]; exact h
      · obtain ⟨_, ⟨r⟩⟩ := assign_rebuilt h ho hd hsd
        exact r.inv_world h

end Bpp.Alias
