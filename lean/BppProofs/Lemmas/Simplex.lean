import BppModel.Simplex
import BppProofs.Lemmas.ScalarReal
namespace Bpp.Simplex
open Bpp

def AllPos (l : List ℝ) : Prop := ∀ x ∈ l, 0 < x
def InOpen (l : List ℝ) : Prop := ∀ x ∈ l, 0 < x ∧ x < 1

theorem foldl_add_eq (l : List ℝ) (a : ℝ) : l.foldl (· + ·) a = a + l.sum := by
  induction l generalizing a with
  | nil => simp
  | cons h t ih => simp [List.foldl_cons, ih]; ring

theorem vsum_eq (l : List ℝ) : vsum l = l.sum := by
  unfold vsum; rw [foldl_add_eq]; simp

/-! ## method 1 -/
theorem probsGlobal_length (θ : List ℝ) (x : ℝ) : (probsGlobal θ x).length = θ.length + 1 := by
  induction θ generalizing x with
  | nil => simp [probsGlobal]
  | cons th rest ih => simp [probsGlobal, ih]

theorem probsGlobal_sum (θ : List ℝ) (x : ℝ) : (probsGlobal θ x).sum = x := by
  induction θ generalizing x with
  | nil => simp [probsGlobal]
  | cons th rest ih => simp [probsGlobal, ih]; ring

theorem probsGlobal_nonneg (θ : List ℝ) (x : ℝ) (hx : 0 ≤ x) (h : ∀ t ∈ θ, 0 ≤ t ∧ t ≤ 1) :
    ∀ p ∈ probsGlobal θ x, 0 ≤ p := by
  induction θ generalizing x with
  | nil => simp [probsGlobal, hx]
  | cons th rest ih =>
    have ht := h th (by simp)
    intro p hp
    simp only [probsGlobal, List.mem_cons] at hp
    rcases hp with rfl | hp
    · exact mul_nonneg ht.1 hx
    · refine ih (x * (Scalar.one - th)) ?_ (fun t m => h t (by simp [m])) p hp
      simp only [ScalarReal.one_eq]; exact mul_nonneg hx (by linarith [ht.2])

theorem probsGlobal_pos (θ : List ℝ) (x : ℝ) (hx : 0 < x) (h : InOpen θ) :
    AllPos (probsGlobal θ x) := by
  induction θ generalizing x with
  | nil => simp [probsGlobal, AllPos, hx]
  | cons th rest ih =>
    have ht := h th (by simp)
    intro p hp
    simp only [probsGlobal, List.mem_cons] at hp
    rcases hp with rfl | hp
    · exact mul_pos ht.1 hx
    · refine ih (x * (Scalar.one - th)) ?_ (fun t m => h t (by simp [m])) p hp
      simp only [ScalarReal.one_eq]; exact mul_pos hx (by linarith [ht.2])

theorem paramsGlobal_length (p : List ℝ) (y : ℝ) : (paramsGlobal p y).length = p.length - 1 := by
  induction p generalizing y with
  | nil => simp [paramsGlobal]
  | cons a rest ih =>
    cases rest with
    | nil => simp [paramsGlobal]
    | cons b r => simp [paramsGlobal, ih]

theorem sum_pos_of_allPos {l : List ℝ} (h : AllPos l) (hne : l ≠ []) : 0 < l.sum := by
  induction l with
  | nil => exact absurd rfl hne
  | cons a r ih =>
    have ha := h a (by simp)
    by_cases hr : r = []
    · subst hr; simpa using ha
    · have := ih (fun x m => h x (by simp [m])) hr
      simp; linarith

theorem global_roundtrip (p : List ℝ) (y : ℝ) (hp : AllPos p) (hne : p ≠ []) (hs : p.sum = y) :
    probsGlobal (paramsGlobal p y) y = p := by
  induction p generalizing y with
  | nil => exact absurd rfl hne
  | cons a rest ih =>
    cases rest with
    | nil => simp at hs; simp [paramsGlobal, probsGlobal, hs]
    | cons b r =>
      have ha := hp a (by simp)
      have hrest : AllPos (b :: r) := fun x m => hp x (by simp [m])
      have hpos := sum_pos_of_allPos hrest (by simp)
      have hy : y ≠ 0 := by simp at hs hpos; linarith
      have hs' : (b :: r).sum = y - a := by simp at hs ⊢; linarith
      simp only [paramsGlobal, probsGlobal, ScalarReal.one_eq]
      have e1 : a / y * y = a := by field_simp
      have e2 : y * (1 - a / y) = y - a := by field_simp
      rw [e1, e2, ih (y - a) hrest (by simp) hs']

theorem paramsGlobal_inOpen (p : List ℝ) (y : ℝ) (hp : AllPos p) (hs : p.sum = y) :
    InOpen (paramsGlobal p y) := by
  induction p generalizing y with
  | nil => simp [paramsGlobal, InOpen]
  | cons a rest ih =>
    cases rest with
    | nil => simp [paramsGlobal, InOpen]
    | cons b r =>
      have ha := hp a (by simp)
      have hrest : AllPos (b :: r) := fun x m => hp x (by simp [m])
      have hpos := sum_pos_of_allPos hrest (by simp)
      have hy : 0 < y := by simp at hs hpos; linarith
      have hs' : (b :: r).sum = y - a := by simp at hs ⊢; linarith
      intro t ht
      simp only [paramsGlobal, List.mem_cons] at ht
      rcases ht with rfl | ht
      · constructor
        · positivity
        · rw [div_lt_one hy]; simp at hs hpos; linarith
      · exact ih (y - a) hrest hs' t ht

theorem probsGlobal_ne_nil (θ : List ℝ) (x : ℝ) : probsGlobal θ x ≠ [] := by
  cases θ <;> simp [probsGlobal]

theorem global_left_inverse (θ : List ℝ) (x : ℝ) (hx : x ≠ 0) (h : ∀ t ∈ θ, t ≠ 1) :
    paramsGlobal (probsGlobal θ x) x = θ := by
  induction θ generalizing x with
  | nil => simp [probsGlobal, paramsGlobal]
  | cons th rest ih =>
    have ht := h th (by simp)
    simp only [probsGlobal, ScalarReal.one_eq]
    obtain ⟨q, r, hq⟩ : ∃ q r, probsGlobal rest (x * (1 - th)) = q :: r := by
      cases hh : probsGlobal rest (x * (1 - th)) with
      | nil => exact absurd hh (probsGlobal_ne_nil _ _)
      | cons q r => exact ⟨q, r, rfl⟩
    rw [hq]; simp only [paramsGlobal]; rw [← hq]
    have e1 : th * x / x = th := by field_simp
    have e2 : x - th * x = x * (1 - th) := by ring
    have hx' : x * (1 - th) ≠ 0 := mul_ne_zero hx (sub_ne_zero.mpr (Ne.symm ht))
    rw [e1, e2, ih (x * (1 - th)) hx' (fun t m => h t (by simp [m]))]

/-! ## method 2 -/
theorem rawLocal_length (al : List ℝ) (c : ℝ) : (rawLocal al c).length = al.length + 1 := by
  induction al generalizing c with
  | nil => simp [rawLocal]
  | cons a r ih => simp [rawLocal, ih]

theorem normLocal_eq (al : List ℝ) (c : ℝ) (hc : c = 1) : normLocal (rawLocal al c) = (rawLocal al c).sum := by
  subst hc
  cases al with
  | nil => simp [normLocal, rawLocal]
  | cons a r => simp [normLocal, rawLocal, foldl_add_eq]

theorem rawLocal_pos (al : List ℝ) (c : ℝ) (hc : 0 < c) (h : AllPos al) : AllPos (rawLocal al c) := by
  induction al generalizing c with
  | nil => simp [rawLocal, AllPos, hc]
  | cons a r ih =>
    intro p hp
    simp only [rawLocal, List.mem_cons] at hp
    rcases hp with rfl | hp
    · exact hc
    · exact ih (c * a) (mul_pos hc (h a (by simp))) (fun x m => h x (by simp [m])) p hp

theorem alphas_pos (θ : List ℝ) (h : InOpen θ) : AllPos (alphas θ) := by
  intro x hx
  simp only [alphas, List.mem_map] at hx
  obtain ⟨t, ht, rfl⟩ := hx
  have := h t ht
  simp only [ScalarReal.one_eq]
  exact div_pos (by linarith) this.1

/-- raw products from the parameters of a positive vector: `c · q / a` -/
theorem rawLocal_params (a : ℝ) (rest : List ℝ) (c : ℝ) (hp : AllPos (a :: rest)) :
    rawLocal (alphas (paramsLocal (a :: rest))) c = (a :: rest).map (fun q => c * q / a) := by
  induction rest generalizing a c with
  | nil =>
    have ha := hp a (by simp)
    simp [paramsLocal, alphas, rawLocal]; field_simp
  | cons b r ih =>
    have ha := hp a (by simp)
    have hb := hp b (by simp)
    have hrest : AllPos (b :: r) := fun x m => hp x (by simp [m])
    have hne : a ≠ 0 := ne_of_gt ha
    have hne' : b ≠ 0 := ne_of_gt hb
    have hab : a + b ≠ 0 := by positivity
    simp only [paramsLocal, alphas, List.map_cons, rawLocal, ScalarReal.one_eq]
    have e : c * ((1 - a / (a + b)) / (a / (a + b))) = c * b / a := by field_simp; ring
    have := ih b (c * b / a) hrest
    simp only [alphas, ScalarReal.one_eq] at this
    rw [e, this]
    simp only [List.map_cons, List.cons.injEq]
    refine ⟨by field_simp, by field_simp, ?_⟩
    apply List.map_congr_left
    intro q _; field_simp

theorem TINY_pos : (0:ℝ) < (TINY : ℝ) := by simp [TINY]
theorem TINY_lt_one : (TINY : ℝ) < 1 := by simp [TINY]; norm_num



theorem sum_map_div (l : List ℝ) (x : ℝ) : (l.map (fun v => v / x)).sum = l.sum / x := by
  induction l with
  | nil => simp
  | cons a r ih => simp [ih, add_div]

theorem rawLocal_sum_ge (al : List ℝ) (c : ℝ) (hc : 0 < c) (h : AllPos al) : c ≤ (rawLocal al c).sum := by
  cases al with
  | nil => simp [rawLocal]
  | cons a r =>
    have hp := rawLocal_pos r (c * a) (mul_pos hc (h a (by simp))) (fun x m => h x (by simp [m]))
    have := sum_pos_of_allPos hp (by cases r <;> simp [rawLocal])
    simp [rawLocal]; linarith

theorem probsLocal_eq (dim : Nat) (θ : List ℝ) (h : InOpen θ) :
    probsLocal dim θ = (rawLocal (alphas θ) 1).map (fun v => v / (rawLocal (alphas θ) 1).sum) := by
  have hge := rawLocal_sum_ge (alphas θ) 1 one_pos (alphas_pos θ h)
  have hT := TINY_lt_one
  simp only [probsLocal, ScalarReal.one_eq, normLocal_eq _ 1 rfl, ScalarReal.gtb_iff]
  rw [if_pos (by linarith)]

theorem probsLocal_length (dim : Nat) (θ : List ℝ) : (probsLocal dim θ).length = θ.length + 1 := by
  simp only [probsLocal]; split <;> simp [rawLocal_length, alphas]

theorem probsLocal_sum (dim : Nat) (θ : List ℝ) (h : InOpen θ) : (probsLocal dim θ).sum = 1 := by
  have hge := rawLocal_sum_ge (alphas θ) 1 one_pos (alphas_pos θ h)
  rw [probsLocal_eq dim θ h, sum_map_div]; exact div_self (by linarith)

theorem probsLocal_pos (dim : Nat) (θ : List ℝ) (h : InOpen θ) : AllPos (probsLocal dim θ) := by
  have hge := rawLocal_sum_ge (alphas θ) 1 one_pos (alphas_pos θ h)
  rw [probsLocal_eq dim θ h]
  intro p hp
  simp only [List.mem_map] at hp
  obtain ⟨v, hv, rfl⟩ := hp
  exact div_pos (rawLocal_pos _ 1 one_pos (alphas_pos θ h) v hv) (by linarith)

theorem paramsLocal_length (p : List ℝ) : (paramsLocal p).length = p.length - 1 := by
  induction p with
  | nil => simp [paramsLocal]
  | cons a rest ih =>
    cases rest with
    | nil => simp [paramsLocal]
    | cons b r => simp [paramsLocal, ih]

theorem paramsLocal_inOpen (p : List ℝ) (hp : AllPos p) : InOpen (paramsLocal p) := by
  induction p with
  | nil => simp [paramsLocal, InOpen]
  | cons a rest ih =>
    cases rest with
    | nil => simp [paramsLocal, InOpen]
    | cons b r =>
      have ha := hp a (by simp)
      have hb := hp b (by simp)
      intro t ht
      simp only [paramsLocal, List.mem_cons] at ht
      rcases ht with rfl | ht
      · constructor
        · positivity
        · rw [div_lt_one (by positivity)]; linarith
      · exact ih (fun x m => hp x (by simp [m])) t ht

/-- the local-ratio coding normalises: whatever the (positive) sum -/
theorem local_roundtrip_normalises (dim : Nat) (p : List ℝ) (hp : AllPos p) (hne : p ≠ []) :
    probsLocal dim (paramsLocal p) = p.map (fun q => q / p.sum) := by
  cases p with
  | nil => exact absurd rfl hne
  | cons a rest =>
    have ha := hp a (by simp)
    have hS := sum_pos_of_allPos hp hne
    rw [probsLocal_eq dim _ (paramsLocal_inOpen _ hp), rawLocal_params a rest 1 hp]
    have hsum : ((a :: rest).map (fun q => 1 * q / a)).sum = (a :: rest).sum / a := by
      rw [← sum_map_div]; congr 1; apply List.map_congr_left; intro q _; ring
    rw [hsum, List.map_map]
    apply List.map_congr_left
    intro q _
    simp only [Function.comp]
    have : (a :: rest).sum ≠ 0 := ne_of_gt hS
    field_simp

theorem local_roundtrip (dim : Nat) (p : List ℝ) (hp : AllPos p) (hne : p ≠ []) (hs : p.sum = 1) :
    probsLocal dim (paramsLocal p) = p := by
  rw [local_roundtrip_normalises dim p hp hne, hs]; simp

theorem paramsLocal_scale (l : List ℝ) (x : ℝ) (hx : 0 < x) (hl : AllPos l) :
    paramsLocal (l.map (fun v => v / x)) = paramsLocal l := by
  induction l with
  | nil => simp [paramsLocal]
  | cons a rest ih =>
    cases rest with
    | nil => simp [paramsLocal]
    | cons b r =>
      have ha := hl a (by simp)
      have hb := hl b (by simp)
      have := ih (fun x m => hl x (by simp [m]))
      simp only [List.map_cons, paramsLocal] at this ⊢
      rw [this]
      congr 1
      have : a + b ≠ 0 := by positivity
      field_simp

theorem paramsLocal_raw (al : List ℝ) (c : ℝ) (hc : 0 < c) (h : AllPos al) :
    paramsLocal (rawLocal al c) = al.map (fun a => 1 / (1 + a)) := by
  induction al generalizing c with
  | nil => simp [rawLocal, paramsLocal]
  | cons a r ih =>
    have ha := h a (by simp)
    have := ih (c * a) (mul_pos hc ha) (fun x m => h x (by simp [m]))
    cases r with
    | nil =>
      simp [rawLocal, paramsLocal]; field_simp
    | cons b r' =>
      simp only [rawLocal, paramsLocal, List.map_cons] at this ⊢
      rw [this]
      simp only [List.cons.injEq, and_true]
      field_simp

theorem local_left_inverse (dim : Nat) (θ : List ℝ) (h : InOpen θ) :
    paramsLocal (probsLocal dim θ) = θ := by
  have hge := rawLocal_sum_ge (alphas θ) 1 one_pos (alphas_pos θ h)
  rw [probsLocal_eq dim θ h, paramsLocal_scale _ _ (by linarith) (rawLocal_pos _ 1 one_pos (alphas_pos θ h)),
    paramsLocal_raw _ 1 one_pos (alphas_pos θ h)]
  simp only [alphas, List.map_map]
  conv_rhs => rw [← List.map_id θ]
  apply List.map_congr_left
  intro t ht
  have := h t ht
  simp only [Function.comp, ScalarReal.one_eq, id]
  have : t ≠ 0 := ne_of_gt this.1
  field_simp
  ring


end Bpp.Simplex
