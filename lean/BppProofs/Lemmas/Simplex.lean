import BppModel.Simplex
import BppProofs.Lemmas.ScalarReal
namespace Bpp.Simplex
open Bpp

def AllPos (l : List ℝ) : Prop := ∀ x ∈ l, 0 < x
def InOpen (l : List ℝ) : Prop := ∀ x ∈ l, 0 < x ∧ x < 1

theorem foldl_add_eq (l : List ℝ) (a : ℝ) : l.foldl (· + ·) a = a + l.sum := by
  induction l generalizing a with
  | nil => simp
  | cons h t ih => simp [List.foldl_cons, ih]; ring

theorem vsum_eq (l : List ℝ) : vsum l = l.sum := by
  unfold vsum; rw [foldl_add_eq]; simp

/-! ## method 1 -/
theorem probsGlobal_length (θ : List ℝ) (x : ℝ) : (probsGlobal θ x).length = θ.length + 1 := by
  induction θ generalizing x with
  | nil => simp [probsGlobal]
  | cons th rest ih => simp [probsGlobal, ih]

theorem probsGlobal_sum (θ : List ℝ) (x : ℝ) : (probsGlobal θ x).sum = x := by
  induction θ generalizing x with
  | nil => simp [probsGlobal]
  | cons th rest ih => simp [probsGlobal, ih]; ring

theorem probsGlobal_nonneg (θ : List ℝ) (x : ℝ) (hx : 0 ≤ x) (h : ∀ t ∈ θ, 0 ≤ t ∧ t ≤ 1) :
    ∀ p ∈ probsGlobal θ x, 0 ≤ p := by
  induction θ generalizing x with
  | nil => simp [probsGlobal, hx]
  | cons th rest ih =>
    have ht := h th (by simp)
    intro p hp
    simp only [probsGlobal, List.mem_cons] at hp
    rcases hp with rfl | hp
    · exact mul_nonneg ht.1 hx
    · refine ih (x * (Scalar.one - th)) ?_ (fun t m => h t (by simp [m])) p hp
      simp only [ScalarReal.one_eq]; exact mul_nonneg hx (by linarith [ht.2])

theorem probsGlobal_pos (θ : List ℝ) (x : ℝ) (hx : 0 < x) (h : InOpen θ) :
    AllPos (probsGlobal θ x) := by
  induction θ generalizing x with
  | nil => simp [probsGlobal, AllPos, hx]
  | cons th rest ih =>
    have ht := h th (by simp)
    intro p hp
    simp only [probsGlobal, List.mem_cons] at hp
    rcases hp with rfl | hp
    · exact mul_pos ht.1 hx
    · refine ih (x * (Scalar.one - th)) ?_ (fun t m => h t (by simp [m])) p hp
      simp only [ScalarReal.one_eq]; exact mul_pos hx (by linarith [ht.2])

theorem paramsGlobal_length (p : List ℝ) (y : ℝ) : (paramsGlobal p y).length = p.length - 1 := by
  induction p generalizing y with
  | nil => simp [paramsGlobal]
  | cons a rest ih =>
    cases rest with
    | nil => simp [paramsGlobal]
    | cons b r => simp [paramsGlobal, ih]

theorem sum_pos_of_allPos {l : List ℝ} (h : AllPos l) (hne : l ≠ []) : 0 < l.sum := by
  induction l with
  | nil => exact absurd rfl hne
  | cons a r ih =>
    have ha := h a (by simp)
    by_cases hr : r = []
    · subst hr; simpa using ha
    · have := ih (fun x m => h x (by simp [m])) hr
      simp; linarith

theorem global_roundtrip (p : List ℝ) (y : ℝ) (hp : AllPos p) (hne : p ≠ []) (hs : p.sum = y) :
    probsGlobal (paramsGlobal p y) y = p := by
  induction p generalizing y with
  | nil => exact absurd rfl hne
  | cons a rest ih =>
    cases rest with
    | nil => simp at hs; simp [paramsGlobal, probsGlobal, hs]
    | cons b r =>
      have ha := hp a (by simp)
      have hrest : AllPos (b :: r) := fun x m => hp x (by simp [m])
      have hpos := sum_pos_of_allPos hrest (by simp)
      have hy : y ≠ 0 := by simp at hs hpos; linarith
      have hs' : (b :: r).sum = y - a := by simp at hs ⊢; linarith
      simp only [paramsGlobal, probsGlobal, ScalarReal.one_eq]
      have e1 : a / y * y = a := by field_simp
      have e2 : y * (1 - a / y) = y - a := by field_simp
      rw [e1, e2, ih (y - a) hrest (by simp) hs']

theorem paramsGlobal_inOpen (p : List ℝ) (y : ℝ) (hp : AllPos p) (hs : p.sum = y) :
    InOpen (paramsGlobal p y) := by
  induction p generalizing y with
  | nil => simp [paramsGlobal, InOpen]
  | cons a rest ih =>
    cases rest with
    | nil => simp [paramsGlobal, InOpen]
    | cons b r =>
      have ha := hp a (by simp)
      have hrest : AllPos (b :: r) := fun x m => hp x (by simp [m])
      have hpos := sum_pos_of_allPos hrest (by simp)
      have hy : 0 < y := by simp at hs hpos; linarith
      have hs' : (b :: r).sum = y - a := by simp at hs ⊢; linarith
      intro t ht
      simp only [paramsGlobal, List.mem_cons] at ht
      rcases ht with rfl | ht
      · constructor
        · positivity
        · rw [div_lt_one hy]; simp at hs hpos; linarith
      · exact ih (y - a) hrest hs' t ht

theorem probsGlobal_ne_nil (θ : List ℝ) (x : ℝ) : probsGlobal θ x ≠ [] := by
  cases θ <;> simp [probsGlobal]

theorem global_left_inverse (θ : List ℝ) (x : ℝ) (hx : x ≠ 0) (h : ∀ t ∈ θ, t ≠ 1) :
    paramsGlobal (probsGlobal θ x) x = θ := by
  induction θ generalizing x with
  | nil => simp [probsGlobal, paramsGlobal]
  | cons th rest ih =>
    have ht := h th (by simp)
    simp only [probsGlobal, ScalarReal.one_eq]
    obtain ⟨q, r, hq⟩ : ∃ q r, probsGlobal rest (x * (1 - th)) = q :: r := by
      cases hh : probsGlobal rest (x * (1 - th)) with
      | nil => exact absurd hh (probsGlobal_ne_nil _ _)
      | cons q r => exact ⟨q, r, rfl⟩
    rw [hq]; simp only [paramsGlobal]; rw [← hq]
    have e1 : th * x / x = th := by field_simp
    have e2 : x - th * x = x * (1 - th) := by ring
    have hx' : x * (1 - th) ≠ 0 := mul_ne_zero hx (sub_ne_zero.mpr (Ne.symm ht))
    rw [e1, e2, ih (x * (1 - th)) hx' (fun t m => h t (by simp [m]))]

/-! ## method 2 -/
theorem rawLocal_length (al : List ℝ) (c : ℝ) : (rawLocal al c).length = al.length + 1 := by
  induction al generalizing c with
  | nil => simp [rawLocal]
  | cons a r ih => simp [rawLocal, ih]

theorem normLocal_eq (al : List ℝ) (c : ℝ) (hc : c = 1) : normLocal (rawLocal al c) = (rawLocal al c).sum := by
  subst hc
  cases al with
  | nil => simp [normLocal, rawLocal]
  | cons a r => simp [normLocal, rawLocal, foldl_add_eq]

theorem rawLocal_pos (al : List ℝ) (c : ℝ) (hc : 0 < c) (h : AllPos al) : AllPos (rawLocal al c) := by
  induction al generalizing c with
  | nil => simp [rawLocal, AllPos, hc]
  | cons a r ih =>
    intro p hp
    simp only [rawLocal, List.mem_cons] at hp
    rcases hp with rfl | hp
    · exact hc
    · exact ih (c * a) (mul_pos hc (h a (by simp))) (fun x m => h x (by simp [m])) p hp

theorem alphas_pos (θ : List ℝ) (h : InOpen θ) : AllPos (alphas θ) := by
  intro x hx
  simp only [alphas, List.mem_map] at hx
  obtain ⟨t, ht, rfl⟩ := hx
  have := h t ht
  simp only [ScalarReal.one_eq]
  exact div_pos (by linarith) this.1

/-- raw products from the parameters of a positive vector: `c · q / a` -/
theorem rawLocal_params (a : ℝ) (rest : List ℝ) (c : ℝ) (hp : AllPos (a :: rest)) :
    rawLocal (alphas (paramsLocal (a :: rest))) c = (a :: rest).map (fun q => c * q / a) := by
  induction rest generalizing a c with
  | nil =>
    have ha := hp a (by simp)
    simp [paramsLocal, alphas, rawLocal]; field_simp
  | cons b r ih =>
    have ha := hp a (by simp)
    have hb := hp b (by simp)
    have hrest : AllPos (b :: r) := fun x m => hp x (by simp [m])
    have hne : a ≠ 0 := ne_of_gt ha
    have hne' : b ≠ 0 := ne_of_gt hb
    have hab : a + b ≠ 0 := by positivity
    simp only [paramsLocal, alphas, List.map_cons, rawLocal, ScalarReal.one_eq]
    have e : c * ((1 - a / (a + b)) / (a / (a + b))) = c * b / a := by field_simp; ring
    have := ih b (c * b / a) hrest
    simp only [alphas, ScalarReal.one_eq] at this
    rw [e, this]
    simp only [List.map_cons, List.cons.injEq]
    refine ⟨by field_simp, by field_simp, ?_⟩
    apply List.map_congr_left
    intro q _; field_simp

theorem TINY_pos : (0:ℝ) < (TINY : ℝ) := by simp [TINY]
theorem TINY_lt_one : (TINY : ℝ) < 1 := by simp [TINY]; norm_num



theorem sum_map_div (l : List ℝ) (x : ℝ) : (l.map (fun v => v / x)).sum = l.sum / x := by
  induction l with
  | nil => simp
  | cons a r ih => simp [ih, add_div]

theorem rawLocal_sum_ge (al : List ℝ) (c : ℝ) (hc : 0 < c) (h : AllPos al) : c ≤ (rawLocal al c).sum := by
  cases al with
  | nil => simp [rawLocal]
  | cons a r =>
    have hp := rawLocal_pos r (c * a) (mul_pos hc (h a (by simp))) (fun x m => h x (by simp [m]))
    have := sum_pos_of_allPos hp (by cases r <;> simp [rawLocal])
    simp [rawLocal]; linarith

theorem probsLocal_eq (dim : Nat) (θ : List ℝ) (h : InOpen θ) :
    probsLocal dim θ = (rawLocal (alphas θ) 1).map (fun v => v / (rawLocal (alphas θ) 1).sum) := by
  have hge := rawLocal_sum_ge (alphas θ) 1 one_pos (alphas_pos θ h)
  have hT := TINY_lt_one
  simp only [probsLocal, ScalarReal.one_eq, normLocal_eq _ 1 rfl, ScalarReal.gtb_iff]
  rw [if_pos (by linarith)]

theorem probsLocal_length (dim : Nat) (θ : List ℝ) : (probsLocal dim θ).length = θ.length + 1 := by
  simp only [probsLocal]; split <;> simp [rawLocal_length, alphas]

theorem probsLocal_sum (dim : Nat) (θ : List ℝ) (h : InOpen θ) : (probsLocal dim θ).sum = 1 := by
  have hge := rawLocal_sum_ge (alphas θ) 1 one_pos (alphas_pos θ h)
  rw [probsLocal_eq dim θ h, sum_map_div]; exact div_self (by linarith)

theorem probsLocal_pos (dim : Nat) (θ : List ℝ) (h : InOpen θ) : AllPos (probsLocal dim θ) := by
  have hge := rawLocal_sum_ge (alphas θ) 1 one_pos (alphas_pos θ h)
  rw [probsLocal_eq dim θ h]
  intro p hp
  simp only [List.mem_map] at hp
  obtain ⟨v, hv, rfl⟩ := hp
  exact div_pos (rawLocal_pos _ 1 one_pos (alphas_pos θ h) v hv) (by linarith)

theorem paramsLocal_length (p : List ℝ) : (paramsLocal p).length = p.length - 1 := by
  induction p with
  | nil => simp [paramsLocal]
  | cons a rest ih =>
    cases rest with
    | nil => simp [paramsLocal]
    | cons b r => simp [paramsLocal, ih]

theorem paramsLocal_inOpen (p : List ℝ) (hp : AllPos p) : InOpen (paramsLocal p) := by
  induction p with
  | nil => simp [paramsLocal, InOpen]
  | cons a rest ih =>
    cases rest with
    | nil => simp [paramsLocal, InOpen]
    | cons b r =>
      have ha := hp a (by simp)
      have hb := hp b (by simp)
      intro t ht
      simp only [paramsLocal, List.mem_cons] at ht
      rcases ht with rfl | ht
      · constructor
        · positivity
        · rw [div_lt_one (by positivity)]; linarith
      · exact ih (fun x m => hp x (by simp [m])) t ht

/-- the local-ratio coding normalises: whatever the (positive) sum -/
theorem local_roundtrip_normalises (dim : Nat) (p : List ℝ) (hp : AllPos p) (hne : p ≠ []) :
    probsLocal dim (paramsLocal p) = p.map (fun q => q / p.sum) := by
  cases p with
  | nil => exact absurd rfl hne
  | cons a rest =>
    have ha := hp a (by simp)
    have hS := sum_pos_of_allPos hp hne
    rw [probsLocal_eq dim _ (paramsLocal_inOpen _ hp), rawLocal_params a rest 1 hp]
    have hsum : ((a :: rest).map (fun q => 1 * q / a)).sum = (a :: rest).sum / a := by
      rw [← sum_map_div]; congr 1; apply List.map_congr_left; intro q _; ring
    rw [hsum, List.map_map]
    apply List.map_congr_left
    intro q _
    simp only [Function.comp]
    have : (a :: rest).sum ≠ 0 := ne_of_gt hS
    field_simp

theorem local_roundtrip (dim : Nat) (p : List ℝ) (hp : AllPos p) (hne : p ≠ []) (hs : p.sum = 1) :
    probsLocal dim (paramsLocal p) = p := by
  rw [local_roundtrip_normalises dim p hp hne, hs]; simp

theorem paramsLocal_scale (l : List ℝ) (x : ℝ) (hx : 0 < x) (hl : AllPos l) :
    paramsLocal (l.map (fun v => v / x)) = paramsLocal l := by
  induction l with
  | nil => simp [paramsLocal]
  | cons a rest ih =>
    cases rest with
    | nil => simp [paramsLocal]
    | cons b r =>
      have ha := hl a (by simp)
      have hb := hl b (by simp)
      have := ih (fun x m => hl x (by simp [m]))
      simp only [List.map_cons, paramsLocal] at this ⊢
      rw [this]
      congr 1
      have : a + b ≠ 0 := by positivity
      field_simp

theorem paramsLocal_raw (al : List ℝ) (c : ℝ) (hc : 0 < c) (h : AllPos al) :
    paramsLocal (rawLocal al c) = al.map (fun a => 1 / (1 + a)) := by
  induction al generalizing c with
  | nil => simp [rawLocal, paramsLocal]
  | cons a r ih =>
    have ha := h a (by simp)
    have := ih (c * a) (mul_pos hc ha) (fun x m => h x (by simp [m]))
    cases r with
    | nil =>
      simp [rawLocal, paramsLocal]; field_simp
    | cons b r' =>
      simp only [rawLocal, paramsLocal, List.map_cons] at this ⊢
      rw [this]
      simp only [List.cons.injEq, and_true]
      field_simp

theorem local_left_inverse (dim : Nat) (θ : List ℝ) (h : InOpen θ) :
    paramsLocal (probsLocal dim θ) = θ := by
  have hge := rawLocal_sum_ge (alphas θ) 1 one_pos (alphas_pos θ h)
  rw [probsLocal_eq dim θ h, paramsLocal_scale _ _ (by linarith) (rawLocal_pos _ 1 one_pos (alphas_pos θ h)),
    paramsLocal_raw _ 1 one_pos (alphas_pos θ h)]
  simp only [alphas, List.map_map]
  conv_rhs => rw [← List.map_id θ]
  apply List.map_congr_left
  intro t ht
  have := h t ht
  simp only [Function.comp, ScalarReal.one_eq, id]
  have : t ≠ 0 := ne_of_gt this.1
  field_simp
  ring



/-! ## method 3: bit manipulation -/

theorem clearBit_eq (k b : Nat) (hb : b < 64) (hk : k < 2 ^ (b + 1)) : clearBit k b = k % 2 ^ b := by
  apply Nat.eq_of_testBit_eq
  intro j
  simp only [clearBit, allOnes64, Nat.testBit_and, Nat.testBit_xor, Nat.testBit_mod_two_pow, Nat.one_shiftLeft,
    Nat.testBit_two_pow]
  have h64 : (0xFFFFFFFFFFFFFFFF : Nat) = 2 ^ 64 - 1 := by norm_num
  rw [h64, Nat.testBit_two_pow_sub_one]
  by_cases hj : j < b
  · have : j < 64 := by omega
    have : b ≠ j := by omega
    simp [*]
  · by_cases hjb : j = b
    · subst hjb; simp [hb]
    · have hlt : b + 1 ≤ j := by omega
      have : k.testBit j = false := by
        apply Nat.testBit_lt_two_pow
        exact lt_of_lt_of_le hk (Nat.pow_le_pow_right (by norm_num) hlt)
      simp [this, hj]

theorem bitLen_zero : bitLen 0 = 0 := by rw [bitLen]; simp
theorem bitLen_pos (n : Nat) (h : n ≠ 0) : bitLen n = bitLen (n / 2) + 1 := by
  rw [bitLen]; simp [h, Nat.shiftRight_eq_div_pow]

theorem lt_two_pow_bitLen (n : Nat) : n < 2 ^ bitLen n := by
  induction n using Nat.strong_induction_on with
  | _ n ih =>
    by_cases h : n = 0
    · subst h; simp [bitLen_zero]
    · rw [bitLen_pos n h, pow_succ]
      have := ih (n / 2) (by omega)
      omega

theorem bitLen_eq_of (k b : Nat) (h1 : 2 ^ b ≤ k) (h2 : k < 2 ^ (b + 1)) : bitLen k = b + 1 := by
  induction b generalizing k with
  | zero =>
    have : k = 1 := by simp at h1 h2; omega
    subst this
    rw [bitLen_pos 1 (by norm_num)]; simp [bitLen_zero]
  | succ b ih =>
    have hk : k ≠ 0 := by have := Nat.pos_of_ne_zero (pow_ne_zero (b + 1) (by norm_num : (2:Nat) ≠ 0)); omega
    rw [bitLen_pos k hk, ih (k / 2)]
    · rw [pow_succ] at h1; omega
    · rw [pow_succ] at h2; omega

theorem bitLen_le (n B : Nat) (h : n < 2 ^ B) : bitLen n ≤ B := by
  induction B generalizing n with
  | zero => have : n = 0 := by simpa using h
            subst this; simp [bitLen_zero]
  | succ B ih =>
    by_cases hn : n = 0
    · subst hn; simp [bitLen_zero]
    · rw [bitLen_pos n hn]
      have := ih (n / 2) (by rw [pow_succ] at h; omega)
      omega


section Walk

variable (dim : Nat) (θ : Nat → ℝ)

/-- the partial walk over the `b` low bits -/
noncomputable def W (b k : Nat) : ℝ := binWalk dim θ b k 1

theorem binWalk_mul (ld k : Nat) (x : ℝ) : binWalk dim θ ld k x = x * binWalk dim θ ld k 1 := by
  induction ld generalizing k x with
  | zero => simp [binWalk]
  | succ ld ih =>
    simp only [binWalk]
    rw [ih]
    conv_rhs => rw [ih]
    split
    · ring
    · split <;> ring

theorem W_zero (k : Nat) : W dim θ 0 k = 1 := by simp [W, binWalk]

theorem W_succ_hi (b k : Nat) (hb : b < 64) (h1 : 2 ^ b ≤ k) (h2 : k < 2 ^ (b + 1)) :
    W dim θ (b + 1) k = θ k * W dim θ b (k - 2 ^ b) := by
  have hs : k >>> b ≠ 0 := by
    rw [Nat.shiftRight_eq_div_pow]
    exact Nat.ne_of_gt (Nat.div_pos h1 (by positivity))
  have hc : clearBit k b = k - 2 ^ b := by
    rw [clearBit_eq k b hb h2]
    rw [pow_succ] at h2
    rw [Nat.mod_eq_sub_mod h1, Nat.mod_eq_of_lt (by omega)]
  simp only [W, binWalk, hs, ne_eq, not_false_eq_true, if_true, hc]
  rw [binWalk_mul]; ring

theorem W_succ_lo (b k : Nat) (hb : b < 64) (h1 : k < 2 ^ b) :
    W dim θ (b + 1) k = (if k + 2 ^ b < dim then 1 - θ (k + 2 ^ b) else 1) * W dim θ b k := by
  have hs : k >>> b = 0 := by
    rw [Nat.shiftRight_eq_div_pow]; exact Nat.div_eq_of_lt h1
  have hc : clearBit k b = k := by
    rw [clearBit_eq k b hb (by rw [pow_succ]; omega), Nat.mod_eq_of_lt h1]
  simp only [W, binWalk, hs, ne_eq, not_true_eq_false, if_false, hc, Nat.one_shiftLeft, ScalarReal.one_eq]
  rw [binWalk_mul]
  split <;> ring

theorem W_nonneg (h : ∀ k, 0 ≤ θ k ∧ θ k ≤ 1) (b k : Nat) : 0 ≤ W dim θ b k := by
  unfold W
  suffices ∀ x : ℝ, 0 ≤ x → 0 ≤ binWalk dim θ b k x from this 1 zero_le_one
  induction b generalizing k with
  | zero => intro x hx; simpa [binWalk] using hx
  | succ b ih =>
    intro x hx
    simp only [binWalk]
    apply ih
    split
    · exact mul_nonneg hx (h k).1
    · split
      · simp only [ScalarReal.one_eq]; exact mul_nonneg hx (by linarith [(h (k + 1 <<< b)).2])
      · exact hx

theorem W_pos (h : ∀ k, 1 ≤ k → k < dim → 0 < θ k ∧ θ k < 1) (b k : Nat) (hb : b ≤ 64)
    (hk : k < 2 ^ b) (hd : k < dim) : 0 < W dim θ b k := by
  induction b generalizing k with
  | zero => simp [W_zero]
  | succ b ih =>
    by_cases h1 : 2 ^ b ≤ k
    · rw [W_succ_hi dim θ b k (by omega) h1 hk]
      have hk1 : 1 ≤ k := le_trans (Nat.one_le_two_pow) h1
      exact mul_pos (h k hk1 hd).1 (ih (k - 2 ^ b) (by omega) (by rw [pow_succ] at hk; omega) (by omega))
    · rw [W_succ_lo dim θ b k (by omega) (by omega)]
      refine mul_pos ?_ (ih k (by omega) (by omega) hd)
      split
      · rename_i hlt
        have := (h (k + 2 ^ b) (by have := Nat.one_le_two_pow (n := b); omega) hlt).2
        linarith
      · exact one_pos

/-- the walk only reads parameters theta_1 .. theta_(dim-1) -/
theorem W_congr (θ' : Nat → ℝ) (h : ∀ k, 1 ≤ k → k < dim → θ k = θ' k) (b k : Nat) (hb : b ≤ 64)
    (hk : k < 2 ^ b) (hd : k < dim) : W dim θ b k = W dim θ' b k := by
  induction b generalizing k with
  | zero => simp [W_zero]
  | succ b ih =>
    by_cases h1 : 2 ^ b ≤ k
    · rw [W_succ_hi dim θ b k (by omega) h1 hk, W_succ_hi dim θ' b k (by omega) h1 hk]
      have hk1 : 1 ≤ k := le_trans (Nat.one_le_two_pow) h1
      rw [h k hk1 hd, ih (k - 2 ^ b) (by omega) (by rw [pow_succ] at hk; omega) (by omega)]
    · rw [W_succ_lo dim θ b k (by omega) (by omega), W_succ_lo dim θ' b k (by omega) (by omega),
        ih k (by omega) (by omega) hd]
      congr 1
      split
      · rename_i hlt
        rw [h (k + 2 ^ b) (by have := Nat.one_le_two_pow (n := b); omega) hlt]
      · rfl


end Walk

section Mass
open Finset

theorem sum_even_odd (g : ℕ → ℝ) (n : ℕ) (hz : ∀ j, n ≤ j → g j = 0) :
    ∑ j ∈ range n, g j = ∑ j ∈ range n, g (2 * j) + ∑ j ∈ range n, g (2 * j + 1) := by
  have h2 : ∀ m, ∑ j ∈ range (2 * m), g j = ∑ j ∈ range m, (g (2 * j) + g (2 * j + 1)) := by
    intro m
    induction m with
    | zero => simp
    | succ m ih =>
      rw [show 2 * (m + 1) = 2 * m + 1 + 1 by ring, sum_range_succ, sum_range_succ, ih, sum_range_succ]
      ring
  rw [← sum_add_distrib, ← h2, two_mul, sum_range_add]
  have : ∑ x ∈ range n, g (n + x) = 0 := sum_eq_zero (fun x _ => hz _ (by omega))
  rw [this, add_zero]

variable (dim : Nat) (p : Nat → ℝ)

/-- mass of the indices `t < dim` with `t ≡ r (mod 2^b)`, written as the loop of the code reads it -/
noncomputable def M (b r : Nat) : ℝ :=
  ∑ j ∈ range dim, if j * 2 ^ b + r < dim then p (j * 2 ^ b + r) else 0

theorem M_split (b r : Nat) : M dim p b r = M dim p (b + 1) r + M dim p (b + 1) (r + 2 ^ b) := by
  unfold M
  rw [sum_even_odd (fun j => if j * 2 ^ b + r < dim then p (j * 2 ^ b + r) else 0) dim]
  · congr 1
    · apply sum_congr rfl; intro j _
      have : 2 * j * 2 ^ b + r = j * 2 ^ (b + 1) + r := by rw [pow_succ]; ring
      simp only [this]
    · apply sum_congr rfl; intro j _
      have : (2 * j + 1) * 2 ^ b + r = j * 2 ^ (b + 1) + (r + 2 ^ b) := by rw [pow_succ]; ring
      simp only [this]
  · intro j hj
    have : ¬ (j * 2 ^ b + r < dim) := by
      have := Nat.one_le_two_pow (n := b)
      have : j ≤ j * 2 ^ b := Nat.le_mul_of_pos_right j (by omega)
      omega
    simp [this]

theorem M_of_ge (b r : Nat) (h : dim ≤ r) : M dim p b r = 0 := by
  unfold M; apply sum_eq_zero; intro j _
  have : ¬ (j * 2 ^ b + r < dim) := by omega
  simp [this]

theorem M_top (b r : Nat) (h : dim ≤ 2 ^ b) (hr : r < dim) : M dim p b r = p r := by
  unfold M
  rw [sum_eq_single 0]
  · simp [hr]
  · intro j _ hj
    have : ¬ (j * 2 ^ b + r < dim) := by
      have : 2 ^ b ≤ j * 2 ^ b := Nat.le_mul_of_pos_left _ (by omega)
      omega
    simp [this]
  · intro h0; exact absurd (mem_range.mpr (by omega)) h0

theorem M_pos (hp : ∀ t, t < dim → 0 < p t) (b r : Nat) (hr : r < dim) : 0 < M dim p b r := by
  unfold M
  apply sum_pos'
  · intro j _; split
    · exact le_of_lt (hp _ ‹_›)
    · exact le_refl _
  · exact ⟨0, mem_range.mpr (by omega), by simp [hr, hp r hr]⟩

theorem M_congr (p' : Nat → ℝ) (h : ∀ t, t < dim → p t = p' t) (b r : Nat) : M dim p b r = M dim p' b r := by
  unfold M; apply sum_congr rfl; intro j _
  split
  · exact h _ ‹_›
  · rfl

theorem M_zero_zero : M dim p 0 0 = ∑ j ∈ range dim, p j := by
  unfold M; apply sum_congr rfl; intro j hj
  simp [mem_range.mp hj]


end Mass

section Acc
open Finset

variable (dim : Nat) (p : Nat → ℝ)

theorem binAcc_eq (li2 pi : Nat) (fuel j : Nat) (i0 i1 : ℝ) :
    binAcc dim p li2 pi fuel j i0 i1 =
      (i0 + ∑ x ∈ range fuel, (if (j + x) * 2 ^ li2 + pi < dim then p ((j + x) * 2 ^ li2 + pi) else 0),
       i1 + ∑ x ∈ range fuel, (if (j + x) * 2 ^ li2 + (pi + 2 ^ (li2 - 1)) < dim
          then p ((j + x) * 2 ^ li2 + (pi + 2 ^ (li2 - 1))) else 0)) := by
  induction fuel generalizing j i0 i1 with
  | zero => simp [binAcc]
  | succ fuel ih =>
    simp only [binAcc, Nat.shiftLeft_eq, Nat.one_mul, ge_iff_le]
    by_cases ht : dim ≤ j * 2 ^ li2 + pi
    · rw [if_pos ht]
      have hmono : ∀ x, j * 2 ^ li2 ≤ (j + x) * 2 ^ li2 := fun x => Nat.mul_le_mul_right _ (by omega)
      have z0 : ∑ x ∈ range (fuel + 1), (if (j + x) * 2 ^ li2 + pi < dim then p ((j + x) * 2 ^ li2 + pi) else 0) = 0 := by
        apply sum_eq_zero; intro x _
        have := hmono x
        rw [if_neg (by omega)]
      have z1 : ∑ x ∈ range (fuel + 1), (if (j + x) * 2 ^ li2 + (pi + 2 ^ (li2 - 1)) < dim
          then p ((j + x) * 2 ^ li2 + (pi + 2 ^ (li2 - 1))) else 0) = 0 := by
        apply sum_eq_zero; intro x _
        rw [if_neg (Nat.not_lt.mpr (le_trans ht (Nat.add_le_add (hmono x) (Nat.le_add_right _ _))))]
      rw [z0, z1]; simp
    · rw [if_neg ht, ih]
      rw [sum_range_succ' _ fuel, sum_range_succ' _ fuel]
      simp only [Nat.add_zero]
      have e : ∀ x, j + 1 + x = j + (x + 1) := fun x => by omega
      simp only [e]
      have e2 : j * 2 ^ li2 + pi + 2 ^ (li2 - 1) = j * 2 ^ li2 + (pi + 2 ^ (li2 - 1)) := by omega
      rw [e2, if_pos (by omega : j * 2 ^ li2 + pi < dim)]
      refine Prod.ext ?_ ?_
      · simp only; ring
      · simp only; split <;> ring

theorem binAcc_M (li2 pi : Nat) :
    binAcc dim p li2 pi dim 0 0 0 = (M dim p li2 pi, M dim p li2 (pi + 2 ^ (li2 - 1))) := by
  rw [binAcc_eq]; simp [M]

/-- the parameter computed by the code for index `i` whose strongest bit is `b` -/
theorem thetaBinary_eq (i b : Nat) (hb : b < 64) (h1 : 2 ^ b ≤ i) (h2 : i < 2 ^ (b + 1)) :
    thetaBinary dim p i =
      M dim p (b + 1) i / (M dim p (b + 1) (i - 2 ^ b) + M dim p (b + 1) i) := by
  have hl : bitLen i = b + 1 := bitLen_eq_of i b h1 h2
  have hc : clearBit i b = i - 2 ^ b := by
    rw [clearBit_eq i b hb h2]
    rw [pow_succ] at h2
    rw [Nat.mod_eq_sub_mod h1, Nat.mod_eq_of_lt (by omega)]
  simp only [thetaBinary, hl, Nat.add_sub_cancel, hc, ScalarReal.zero_eq]
  rw [binAcc_M]
  have : i - 2 ^ b + 2 ^ b = i := by omega
  simp only [Nat.add_sub_cancel, this]


end Acc

section Marginal
open Finset

variable (dim : Nat) (θ : Nat → ℝ)

/-- Marginals of the probabilities produced by the binary walk: the mass of the class
`t ≡ r (mod 2^b)` is the partial walk over the `b` low bits of `r`. -/
theorem marginal_walk (B : Nat) (hB : B ≤ 64) (hdim : dim ≤ 2 ^ B) (d b : Nat) (hbd : b + d = B)
    (r : Nat) (hr : r < 2 ^ b) (hrd : r < dim) :
    M dim (fun i => W dim θ B i) b r = W dim θ b r := by
  induction d generalizing b r with
  | zero =>
    have : b = B := by omega
    subst this
    rw [M_top dim _ b r hdim hrd]
  | succ d ih =>
    have hb : b < 64 := by omega
    rw [M_split, ih (b + 1) (by omega) r (by rw [pow_succ]; omega) hrd, W_succ_lo dim θ b r hb hr]
    by_cases hlt : r + 2 ^ b < dim
    · rw [ih (b + 1) (by omega) (r + 2 ^ b) (by rw [pow_succ]; omega) hlt,
        W_succ_hi dim θ b (r + 2 ^ b) hb (by omega) (by rw [pow_succ]; omega), if_pos hlt]
      simp only [Nat.add_sub_cancel]; ring
    · rw [M_of_ge dim _ (b + 1) (r + 2 ^ b) (by omega), if_neg hlt]; ring

/-- every parameter vector: the probabilities of the binary coding sum to one -/
theorem walk_sum_one (hd : 0 < dim) (B : Nat) (hB : B ≤ 64) (hdim : dim ≤ 2 ^ B) :
    ∑ i ∈ range dim, W dim θ B i = 1 := by
  rw [← M_zero_zero dim (fun i => W dim θ B i), marginal_walk dim θ B hB hdim B 0 (by omega) 0 (by simp) hd, W_zero]

/-- the parameters recomputed from the walk's probabilities are the parameters -/
theorem theta_of_walk (h : ∀ k, 1 ≤ k → k < dim → 0 < θ k ∧ θ k < 1) (B : Nat) (hB : B ≤ 64)
    (hdim : dim ≤ 2 ^ B) (i : Nat) (hi1 : 1 ≤ i) (hi : i < dim) :
    thetaBinary dim (fun i => W dim θ B i) i = θ i := by
  obtain ⟨b, h1, h2⟩ : ∃ b, 2 ^ b ≤ i ∧ i < 2 ^ (b + 1) :=
    ⟨Nat.log2 i, by rw [Nat.log2_eq_log_two]; exact Nat.pow_log_le_self 2 (by omega),
      by rw [Nat.log2_eq_log_two]; exact Nat.lt_pow_succ_log_self (by norm_num) i⟩
  have hbB : b < B := by
    by_contra hc
    have : 2 ^ B ≤ 2 ^ b := Nat.pow_le_pow_right (by norm_num) (by omega)
    omega
  have hb : b < 64 := by omega
  rw [thetaBinary_eq dim _ i b hb h1 h2]
  have hr : i - 2 ^ b < 2 ^ b := by rw [pow_succ] at h2; omega
  obtain ⟨d, hd⟩ : ∃ d, b + 1 + d = B := ⟨B - (b + 1), by omega⟩
  rw [marginal_walk dim θ B hB hdim d (b + 1) hd i h2 hi,
    marginal_walk dim θ B hB hdim d (b + 1) hd (i - 2 ^ b) (by rw [pow_succ]; omega) (by omega),
    W_succ_hi dim θ b i hb h1 h2, W_succ_lo dim θ b (i - 2 ^ b) hb hr]
  have e : i - 2 ^ b + 2 ^ b = i := by omega
  rw [e, if_pos hi]
  have hW := W_pos dim θ h b (i - 2 ^ b) (by omega) hr (by omega)
  have : W dim θ b (i - 2 ^ b) ≠ 0 := ne_of_gt hW
  field_simp
  ring


end Marginal

section Roundtrip
open Finset

variable (dim : Nat) (p : Nat → ℝ)

/-- walking with the parameters computed from a positive vector gives the class masses,
divided by the total -/
theorem walk_of_theta (hp : ∀ t, t < dim → 0 < p t) (b : Nat) (hb : b ≤ 64) (k : Nat)
    (hk : k < 2 ^ b) (hd : k < dim) :
    W dim (fun i => thetaBinary dim p i) b k = M dim p b k / M dim p 0 0 := by
  have hS : M dim p 0 0 ≠ 0 := ne_of_gt (M_pos dim p hp 0 0 (by omega))
  induction b generalizing k with
  | zero =>
    have : k = 0 := by simpa using hk
    subst this
    rw [W_zero, div_self hS]
  | succ b ih =>
    have hb' : b < 64 := by omega
    by_cases h1 : 2 ^ b ≤ k
    · have hr : k - 2 ^ b < 2 ^ b := by rw [pow_succ] at hk; omega
      rw [W_succ_hi dim _ b k hb' h1 hk, ih (by omega) (k - 2 ^ b) hr (by omega)]
      rw [thetaBinary_eq dim p k b hb' h1 hk, M_split dim p b (k - 2 ^ b)]
      have e : k - 2 ^ b + 2 ^ b = k := by omega
      rw [e]
      have hpos : 0 < M dim p (b + 1) (k - 2 ^ b) + M dim p (b + 1) k :=
        add_pos (M_pos dim p hp _ _ (by omega)) (M_pos dim p hp _ _ hd)
      have := ne_of_gt hpos
      field_simp
    · have h1' : k < 2 ^ b := by omega
      rw [W_succ_lo dim _ b k hb' h1', ih (by omega) k h1' hd, M_split dim p b k]
      by_cases hlt : k + 2 ^ b < dim
      · rw [if_pos hlt]
        rw [thetaBinary_eq dim p (k + 2 ^ b) b hb' (by omega) (by rw [pow_succ]; omega)]
        simp only [Nat.add_sub_cancel]
        have hpos : 0 < M dim p (b + 1) k + M dim p (b + 1) (k + 2 ^ b) :=
          add_pos (M_pos dim p hp _ _ hd) (M_pos dim p hp _ _ hlt)
        have := ne_of_gt hpos
        field_simp
        ring
      · rw [if_neg hlt, M_of_ge dim p (b + 1) (k + 2 ^ b) (by omega)]; ring

theorem walk_roundtrip (hp : ∀ t, t < dim → 0 < p t) (B : Nat) (hB : B ≤ 64) (hdim : dim ≤ 2 ^ B)
    (i : Nat) (hi : i < dim) :
    W dim (fun i => thetaBinary dim p i) B i = p i / ∑ j ∈ range dim, p j := by
  rw [walk_of_theta dim p hp B hB i (by omega) hi, M_top dim p B i hdim hi, M_zero_zero]

/-- the parameters computed from a positive vector are in ]0,1[ -/
theorem thetaBinary_inOpen (hp : ∀ t, t < dim → 0 < p t) (i : Nat) (hi1 : 1 ≤ i) (hi : i < dim)
    (h64 : dim ≤ 2 ^ 64) :
    0 < thetaBinary dim p i ∧ thetaBinary dim p i < 1 := by
  obtain ⟨b, h1, h2⟩ : ∃ b, 2 ^ b ≤ i ∧ i < 2 ^ (b + 1) :=
    ⟨Nat.log2 i, by rw [Nat.log2_eq_log_two]; exact Nat.pow_log_le_self 2 (by omega),
      by rw [Nat.log2_eq_log_two]; exact Nat.lt_pow_succ_log_self (by norm_num) i⟩
  have hb : b < 64 := by
    by_contra hc
    have : 2 ^ 64 ≤ 2 ^ b := Nat.pow_le_pow_right (by norm_num) (by omega)
    omega
  rw [thetaBinary_eq dim p i b hb h1 h2]
  have p0 := M_pos dim p hp (b + 1) (i - 2 ^ b) (by omega)
  have p1 := M_pos dim p hp (b + 1) i hi
  constructor
  · positivity
  · rw [div_lt_one (by positivity)]; linarith


end Roundtrip

section BinaryLists
open Finset

theorem sum_map_range (f : Nat → ℝ) (n : Nat) : ((List.range n).map f).sum = ∑ i ∈ range n, f i := by
  induction n with
  | zero => simp
  | succ n ih => rw [List.range_succ, List.map_append, List.sum_append, ih, sum_range_succ]; simp

theorem sum_nth (p : List ℝ) : ∑ j ∈ range p.length, nth p j = p.sum := by
  rw [← sum_map_range]
  congr 1
  apply List.ext_getElem
  · simp
  · intro i h1 h2
    have : i < p.length := by simpa using h2
    simp [nth, List.getD_eq_getElem?_getD, this]

theorem probsBinary_length (dim : Nat) (θ : List ℝ) : (probsBinary dim θ).length = dim := by
  simp [probsBinary, probsBinaryF]

theorem nth_probsBinary (dim : Nat) (θ : List ℝ) (t : Nat) (ht : t < dim) :
    nth (probsBinary dim θ) t = W dim (lookup θ) (bitLen dim) t := by
  simp [nth, probsBinary, probsBinaryF, W, List.getD_eq_getElem?_getD, ht]

theorem getElem_probsBinary (dim : Nat) (θ : List ℝ) (t : Nat) (ht : t < (probsBinary dim θ).length) :
    (probsBinary dim θ)[t] = W dim (lookup θ) (bitLen dim) t := by
  simp [probsBinary, probsBinaryF, W]

theorem lookup_bounds (θ : List ℝ) (h : ∀ t ∈ θ, 0 ≤ t ∧ t ≤ 1) (k : Nat) :
    0 ≤ lookup θ k ∧ lookup θ k ≤ 1 := by
  have hd : (default : ℝ) = 0 := rfl
  unfold lookup
  split
  · simp [hd]
  · rw [List.getD_eq_getElem?_getD]
    cases hh : θ[k - 1]? with
    | none => simp [hd]
    | some v => simpa using h v (List.mem_of_getElem? hh)

theorem lookup_inOpen (θ : List ℝ) (dim : Nat) (hl : θ.length = dim - 1) (h : InOpen θ) (k : Nat)
    (h1 : 1 ≤ k) (h2 : k < dim) : 0 < lookup θ k ∧ lookup θ k < 1 := by
  unfold lookup
  rw [if_neg (by omega), List.getD_eq_getElem?_getD, List.getElem?_eq_getElem (by omega)]
  simpa using h _ (List.getElem_mem (by omega))

theorem bitLen_le64 (dim : Nat) (h : dim < 2 ^ 31) : bitLen dim ≤ 64 :=
  le_trans (bitLen_le dim 31 h) (by norm_num)

theorem probsBinary_sum (dim : Nat) (θ : List ℝ) (hd : 0 < dim) (h31 : dim < 2 ^ 31) :
    (probsBinary dim θ).sum = 1 := by
  simp only [probsBinary, probsBinaryF]
  rw [sum_map_range]
  have := walk_sum_one dim (lookup θ) hd (bitLen dim) (bitLen_le64 dim h31) (le_of_lt (lt_two_pow_bitLen dim))
  simpa [W] using this

theorem probsBinary_nonneg (dim : Nat) (θ : List ℝ) (h : ∀ t ∈ θ, 0 ≤ t ∧ t ≤ 1) :
    ∀ p ∈ probsBinary dim θ, 0 ≤ p := by
  intro p hp
  simp only [probsBinary, probsBinaryF, List.mem_map] at hp
  obtain ⟨i, _, rfl⟩ := hp
  have := W_nonneg dim (lookup θ) (lookup_bounds θ h) (bitLen dim) i
  simpa [W] using this

theorem probsBinary_pos (dim : Nat) (θ : List ℝ) (hl : θ.length = dim - 1) (h : InOpen θ) (h31 : dim < 2 ^ 31) :
    AllPos (probsBinary dim θ) := by
  intro p hp
  simp only [probsBinary, probsBinaryF, List.mem_map, List.mem_range] at hp
  obtain ⟨i, hi, rfl⟩ := hp
  have := W_pos dim (lookup θ) (lookup_inOpen θ dim hl h) _ i (bitLen_le64 dim h31)
    (lt_of_lt_of_le hi (le_of_lt (lt_two_pow_bitLen dim))) hi
  simpa [W] using this

theorem paramsBinary_length (p : List ℝ) : (paramsBinary p).length = p.length - 1 := by
  simp [paramsBinary, paramsBinaryF]

theorem lookup_paramsBinary (p : List ℝ) (k : Nat) (h1 : 1 ≤ k) (h2 : k < p.length) :
    lookup (paramsBinary p) k = thetaBinary p.length (nth p) k := by
  unfold lookup
  rw [if_neg (by omega), List.getD_eq_getElem?_getD]
  simp only [paramsBinary, paramsBinaryF]
  rw [List.getElem?_map, List.getElem?_range (by omega)]
  simp only [Option.map_some, Option.getD_some]
  congr 1; omega

theorem nth_pos (p : List ℝ) (hp : AllPos p) (t : Nat) (ht : t < p.length) : 0 < nth p t := by
  unfold nth
  rw [List.getD_eq_getElem?_getD, List.getElem?_eq_getElem ht]
  simpa using hp _ (List.getElem_mem ht)

theorem binary_roundtrip_normalises (p : List ℝ) (hp : AllPos p) (h31 : p.length < 2 ^ 31) :
    probsBinary p.length (paramsBinary p) = p.map (fun q => q / p.sum) := by
  apply List.ext_getElem
  · simp [probsBinary_length]
  · intro i h1 h2
    have hi : i < p.length := by simpa [probsBinary_length] using h1
    rw [getElem_probsBinary]
    rw [W_congr p.length (lookup (paramsBinary p)) (fun k => thetaBinary p.length (nth p) k)
      (fun k a b => lookup_paramsBinary p k a b) _ i (bitLen_le64 _ h31)
      (lt_of_lt_of_le hi (le_of_lt (lt_two_pow_bitLen _))) hi]
    rw [walk_roundtrip p.length (nth p) (nth_pos p hp) _ (bitLen_le64 _ h31)
      (le_of_lt (lt_two_pow_bitLen _)) i hi, sum_nth]
    simp [nth, List.getD_eq_getElem?_getD, hi]

theorem paramsBinary_inOpen (p : List ℝ) (hp : AllPos p) (h31 : p.length < 2 ^ 31) :
    InOpen (paramsBinary p) := by
  intro t ht
  simp only [paramsBinary, paramsBinaryF, List.mem_map, List.mem_range] at ht
  obtain ⟨i, hi, rfl⟩ := ht
  exact thetaBinary_inOpen p.length (nth p) (nth_pos p hp) (i + 1) (by omega) (by omega)
    (le_trans (le_of_lt h31) (by norm_num))

theorem thetaBinary_congr (dim : Nat) (p p' : Nat → ℝ) (h : ∀ t, t < dim → p t = p' t) (i : Nat)
    (hi1 : 1 ≤ i) (hi : i < dim) (h64 : dim ≤ 2 ^ 64) : thetaBinary dim p i = thetaBinary dim p' i := by
  obtain ⟨b, h1, h2⟩ : ∃ b, 2 ^ b ≤ i ∧ i < 2 ^ (b + 1) :=
    ⟨Nat.log2 i, by rw [Nat.log2_eq_log_two]; exact Nat.pow_log_le_self 2 (by omega),
      by rw [Nat.log2_eq_log_two]; exact Nat.lt_pow_succ_log_self (by norm_num) i⟩
  have hb : b < 64 := by
    by_contra hc
    have : 2 ^ 64 ≤ 2 ^ b := Nat.pow_le_pow_right (by norm_num) (by omega)
    omega
  rw [thetaBinary_eq dim p i b hb h1 h2, thetaBinary_eq dim p' i b hb h1 h2,
    M_congr dim p p' h, M_congr dim p p' h]

theorem binary_left_inverse (dim : Nat) (θ : List ℝ) (hl : θ.length = dim - 1) (h : InOpen θ)
    (h31 : dim < 2 ^ 31) : paramsBinary (probsBinary dim θ) = θ := by
  apply List.ext_getElem
  · simp [paramsBinary_length, probsBinary_length, hl]
  · intro i h1 h2
    have hi : i + 1 < dim := by omega
    simp only [paramsBinary, paramsBinaryF, probsBinary_length, List.getElem_map, List.getElem_range]
    rw [thetaBinary_congr dim _ (fun t => W dim (lookup θ) (bitLen dim) t)
      (fun t ht => nth_probsBinary dim θ t ht) (i + 1) (by omega) hi (le_trans (le_of_lt h31) (by norm_num))]
    rw [theta_of_walk dim (lookup θ) (lookup_inOpen θ dim hl h) _ (bitLen_le64 dim h31)
      (le_of_lt (lt_two_pow_bitLen dim)) (i + 1) (by omega) hi]
    unfold lookup
    rw [if_neg (by omega), List.getD_eq_getElem?_getD]
    simp [h2]


end BinaryLists

section Ordered

/-! ## OrderedSimplex -/

/-- Σ_j l_j / j  with j the 1-based index starting at i -/
noncomputable def H : List ℝ → Nat → ℝ
  | [], _ => 0
  | p :: r, i => p / (i : ℝ) + H r (i + 1)

/-- Σ_j l_j (j - c + 1) / j -/
noncomputable def T : List ℝ → Nat → Nat → ℝ
  | [], _, _ => 0
  | p :: r, i, c => p * ((i : ℝ) - c + 1) / (i : ℝ) + T r (i + 1) c

theorem orderedValues_length (p : List ℝ) (i : Nat) : (orderedValues p i).length = p.length := by
  induction p generalizing i with
  | nil => simp [orderedValues]
  | cons a r ih => simp [orderedValues, ih]

theorem orderedValues_head (p : List ℝ) (i : Nat) :
    (orderedValues p i).headD 0 = H p i := by
  induction p generalizing i with
  | nil => simp [orderedValues, H]
  | cons a r ih =>
    simp only [orderedValues, H, ScalarReal.zero_eq, ScalarReal.ofInt_eq, List.headD_cons]
    rw [ih (i + 1)]; push_cast; ring

theorem T_succ (l : List ℝ) (i c : Nat) (hi : 1 ≤ i) : T l i c = T l i (c + 1) + H l i := by
  induction l generalizing i with
  | nil => simp [T, H]
  | cons a r ih =>
    simp only [T, H]
    rw [ih (i + 1) (by omega)]
    have : (i : ℝ) ≠ 0 := by positivity
    push_cast; field_simp; ring

theorem orderedValues_sum (p : List ℝ) (i : Nat) (hi : 1 ≤ i) : (orderedValues p i).sum = T p i i := by
  induction p generalizing i with
  | nil => simp [orderedValues, T]
  | cons a r ih =>
    have hh := orderedValues_head r (i + 1)
    simp only [orderedValues, List.sum_cons, ScalarReal.zero_eq, ScalarReal.ofInt_eq]
    rw [hh, ih (i + 1) (by omega)]
    simp only [T]
    rw [T_succ r (i + 1) i (by omega)]
    have : (i : ℝ) ≠ 0 := by positivity
    push_cast; field_simp; ring

theorem T_one (l : List ℝ) (i : Nat) (hi : 1 ≤ i) : T l i 1 = l.sum := by
  induction l generalizing i with
  | nil => simp [T]
  | cons a r ih =>
    simp only [T, List.sum_cons]
    rw [ih (i + 1) (by omega)]
    have : (i : ℝ) ≠ 0 := by positivity
    push_cast; field_simp; ring

/-- Σ v = Σ p -/
theorem orderedValues_sum_eq (p : List ℝ) : (orderedValues p 1).sum = p.sum := by
  rw [orderedValues_sum p 1 (le_refl _), T_one p 1 (le_refl _)]

theorem H_nonneg (l : List ℝ) (i : Nat) (h : ∀ x ∈ l, 0 ≤ x) : 0 ≤ H l i := by
  induction l generalizing i with
  | nil => simp [H]
  | cons a r ih =>
    simp only [H]
    have := ih (i + 1) (fun x m => h x (by simp [m]))
    have := h a (by simp)
    positivity

def NonIncreasing : List ℝ → Prop
  | [] => True
  | [_] => True
  | a :: b :: r => b ≤ a ∧ NonIncreasing (b :: r)

theorem orderedValues_nonincreasing (p : List ℝ) (i : Nat) (h : ∀ x ∈ p, 0 ≤ x) :
    NonIncreasing (orderedValues p i) ∧ ∀ v ∈ orderedValues p i, 0 ≤ v := by
  induction p generalizing i with
  | nil => simp [orderedValues, NonIncreasing]
  | cons a r ih =>
    have ha := h a (by simp)
    have hr : ∀ x ∈ r, 0 ≤ x := fun x m => h x (by simp [m])
    obtain ⟨ih1, ih2⟩ := ih (i + 1) hr
    have hh := orderedValues_head r (i + 1)
    have hH := H_nonneg r (i + 1) hr
    have hdiv : 0 ≤ a / (i : ℝ) := by positivity
    simp only [orderedValues, ScalarReal.zero_eq, ScalarReal.ofInt_eq]
    rw [hh]
    constructor
    · cases hv : orderedValues r (i + 1) with
      | nil => simp [NonIncreasing]
      | cons v vs =>
        rw [hv] at hh ih1
        simp only [List.headD_cons] at hh
        simp only [NonIncreasing]
        refine ⟨?_, ih1⟩
        push_cast; linarith
    · intro v hv
      simp only [List.mem_cons] at hv
      rcases hv with rfl | hv
      · push_cast; linarith
      · exact ih2 v hv


end Ordered

section Ordered2

theorem orderedToProbs_length (v : List ℝ) (i : Nat) : (orderedToProbs v i).length = v.length := by
  induction v generalizing i with
  | nil => simp [orderedToProbs]
  | cons a r ih =>
    cases r with
    | nil => simp [orderedToProbs]
    | cons b r' => simp [orderedToProbs, ih]

theorem orderedValues_toProbs (v : List ℝ) (i : Nat) (hi : 1 ≤ i) :
    orderedValues (orderedToProbs v i) i = v := by
  have hne : ((i : ℤ) : ℝ) ≠ 0 := by push_cast; positivity
  induction v generalizing i with
  | nil => simp [orderedToProbs, orderedValues]
  | cons a r ih =>
    cases r with
    | nil =>
      simp only [orderedToProbs, orderedValues, List.headD_nil, ScalarReal.zero_eq, ScalarReal.ofInt_eq]
      congr 1; field_simp; ring
    | cons b r' =>
      simp only [orderedToProbs, orderedValues, ScalarReal.ofInt_eq]
      rw [ih (i + 1) (by omega) (by push_cast; positivity)]
      simp only [List.headD_cons]
      congr 1; field_simp; ring

theorem orderedToProbs_values (p : List ℝ) (i : Nat) (hi : 1 ≤ i) :
    orderedToProbs (orderedValues p i) i = p := by
  have hne : ((i : ℤ) : ℝ) ≠ 0 := by push_cast; positivity
  induction p generalizing i with
  | nil => simp [orderedToProbs, orderedValues]
  | cons a r ih =>
    cases r with
    | nil =>
      simp only [orderedToProbs, orderedValues, List.headD_nil, ScalarReal.zero_eq, ScalarReal.ofInt_eq]
      congr 1; field_simp; ring
    | cons b r' =>
      have ih' := ih (i + 1) (by omega) (by push_cast; positivity)
      obtain ⟨v0, vr, hv⟩ : ∃ v0 vr, orderedValues (b :: r') (i + 1) = v0 :: vr := by
        simp [orderedValues]
      rw [orderedValues]
      rw [hv] at ih' ⊢
      simp only [List.headD_cons, orderedToProbs, ScalarReal.ofInt_eq]
      rw [ih']
      congr 1; field_simp; ring

/-- strictly decreasing, last value positive -/
def StrictDecrPos : List ℝ → Prop
  | [] => True
  | [a] => 0 < a
  | a :: b :: r => b < a ∧ StrictDecrPos (b :: r)

theorem orderedToProbs_pos (v : List ℝ) (i : Nat) (hi : 1 ≤ i) (h : StrictDecrPos v) :
    AllPos (orderedToProbs v i) := by
  induction v generalizing i with
  | nil => simp [orderedToProbs, AllPos]
  | cons a r ih =>
    have hpos : (0 : ℝ) < ((i : ℤ) : ℝ) := by push_cast; positivity
    cases r with
    | nil =>
      simp only [StrictDecrPos] at h
      simp only [orderedToProbs, ScalarReal.ofInt_eq, AllPos, List.mem_singleton]
      rintro x rfl; exact mul_pos hpos h
    | cons b r' =>
      simp only [StrictDecrPos] at h
      intro x hx
      simp only [orderedToProbs, ScalarReal.ofInt_eq, List.mem_cons] at hx
      rcases hx with rfl | hx
      · exact mul_pos hpos (by linarith [h.1])
      · exact ih (i + 1) (by omega) h.2 x (by simpa [orderedToProbs] using hx)

theorem orderedToProbs_sum (v : List ℝ) : (orderedToProbs v 1).sum = v.sum := by
  conv_rhs => rw [← orderedValues_toProbs v 1 (le_refl _)]
  rw [orderedValues_sum_eq]


end Ordered2

section Codings

/-! ## the three codings together -/

def ValidMethod (m : Nat) : Prop := m = 1 ∨ m = 2 ∨ m = 3

theorem probsOf_one (dim : Nat) (θ : List ℝ) : probsOf 1 dim θ = some (probsGlobal θ 1) := by
  simp [probsOf]
theorem paramsOf_one (p : List ℝ) : paramsOf 1 p = paramsGlobal p 1 := by
  simp [paramsOf]

theorem probsOf_spec (m dim : Nat) (θ : List ℝ) (hm : ValidMethod m) (hd : 0 < dim) (h31 : dim < 2 ^ 31)
    (hl : θ.length = dim - 1) (h : InOpen θ) :
    ∃ p, probsOf m dim θ = some p ∧ p.length = dim ∧ p.sum = 1 ∧ AllPos p := by
  rcases hm with rfl | rfl | rfl
  · exact ⟨_, probsOf_one dim θ, by rw [probsGlobal_length]; omega, probsGlobal_sum θ 1, probsGlobal_pos θ 1 one_pos h⟩
  · exact ⟨_, rfl, by rw [probsLocal_length]; omega, probsLocal_sum dim θ h, probsLocal_pos dim θ h⟩
  · exact ⟨_, rfl, probsBinary_length dim θ, probsBinary_sum dim θ hd h31, probsBinary_pos dim θ hl h h31⟩

theorem paramsOf_length (m : Nat) (p : List ℝ) (hm : ValidMethod m) : (paramsOf m p).length = p.length - 1 := by
  rcases hm with rfl | rfl | rfl
  · rw [paramsOf_one]; exact paramsGlobal_length p 1
  · exact paramsLocal_length p
  · exact paramsBinary_length p

theorem paramsOf_inOpen (m : Nat) (p : List ℝ) (hm : ValidMethod m) (hp : AllPos p) (hs : p.sum = 1)
    (h31 : p.length < 2 ^ 31) : InOpen (paramsOf m p) := by
  rcases hm with rfl | rfl | rfl
  · rw [paramsOf_one]; exact paramsGlobal_inOpen p 1 hp hs
  · exact paramsLocal_inOpen p hp
  · exact paramsBinary_inOpen p hp h31

theorem roundtrip_all (m : Nat) (p : List ℝ) (hm : ValidMethod m) (hp : AllPos p) (hne : p ≠ [])
    (hs : p.sum = 1) (h31 : p.length < 2 ^ 31) : probsOf m p.length (paramsOf m p) = some p := by
  rcases hm with rfl | rfl | rfl
  · simp only [probsOf, paramsOf, ScalarReal.one_eq]; rw [global_roundtrip p 1 hp hne hs]
  · simp only [probsOf, paramsOf]; rw [local_roundtrip _ p hp hne hs]
  · simp only [probsOf, paramsOf]; rw [binary_roundtrip_normalises p hp h31, hs]; simp

theorem left_inverse_all (m dim : Nat) (θ p : List ℝ) (hm : ValidMethod m) (h31 : dim < 2 ^ 31)
    (hl : θ.length = dim - 1) (h : InOpen θ) (e : probsOf m dim θ = some p) : paramsOf m p = θ := by
  rcases hm with rfl | rfl | rfl
  · simp only [probsOf_one, Option.some.injEq] at e; subst e
    rw [paramsOf_one]
    exact global_left_inverse θ 1 one_ne_zero (fun t mm => ne_of_lt (h t mm).2)
  · simp only [probsOf, Option.some.injEq] at e; subst e
    exact local_left_inverse dim θ h
  · simp only [probsOf, Option.some.injEq] at e; subst e
    exact binary_left_inverse dim θ hl h h31


end Codings

section Object

/-! ## the object: invariant and operations -/

/-- state invariant: parameters in the open cube, probabilities = image of the parameters -/
structure Inv (s : St ℝ) : Prop where
  method : ValidMethod s.method
  dim_pos : 0 < s.dim
  dim_lt : s.dim < 2 ^ 31
  len : s.params.length = s.dim - 1
  inOpen : InOpen s.params
  probs : probsOf s.method s.dim s.params = some s.probs

theorem Inv.sum_one {s : St ℝ} (h : Inv s) : s.probs.sum = 1 ∧ AllPos s.probs ∧ s.probs.length = s.dim := by
  obtain ⟨p, e, l, su, po⟩ := probsOf_spec s.method s.dim s.params h.method h.dim_pos h.dim_lt h.len h.inOpen
  rw [h.probs] at e; cases e; exact ⟨su, po, l⟩

theorem inConstraint_open (v : ℝ) : inConstraint false v = true ↔ 0 < v ∧ v < 1 := by
  simp [inConstraint]
theorem inConstraint_closed (v : ℝ) : inConstraint true v = true ↔ 0 ≤ v ∧ v ≤ 1 := by
  simp [inConstraint]
theorem inConstraint_of_open (a : Bool) (v : ℝ) (h : 0 < v ∧ v < 1) : inConstraint a v = true := by
  cases a
  · exact (inConstraint_open v).mpr h
  · exact (inConstraint_closed v).mpr ⟨le_of_lt h.1, le_of_lt h.2⟩

theorem mkParam_ok (a : Bool) (v : ℝ) (h : 0 < v ∧ v < 1) : mkParam a v = .ok v := by
  have : (0:ℝ) < |v - 0| := by simpa using ne_of_gt h.1
  simp only [mkParam, ScalarReal.zero_eq, ScalarReal.abs_eq, ScalarReal.gtb_iff, this, if_true,
    inConstraint_of_open a v h]

theorem mapM_mkParam (a : Bool) (l : List ℝ) (h : InOpen l) : l.mapM (mkParam a) = .ok l := by
  induction l with
  | nil => rfl
  | cons v r ih =>
    rw [List.mapM_cons, mkParam_ok a v (h v (by simp)), ih (fun x m => h x (by simp [m]))]
    rfl

theorem sumOk_of (p : List ℝ) (hs : p.sum = 1) : sumOk p = true := by
  have : ¬ ((1000000:ℝ)⁻¹ < 0) := by norm_num
  simp [sumOk, vsum_eq, hs, SMALL, Scalar.gtb, Scalar.ltb, this]

theorem all_inConstraint (a : Bool) (θ : List ℝ) (h : InOpen θ) : θ.all (inConstraint a) = true := by
  rw [List.all_eq_true]; intro x hx; exact inConstraint_of_open a x (h x hx)

theorem inOpen_of_all (θ : List ℝ) (h : θ.all (inConstraint false) = true) : InOpen θ := by
  rw [List.all_eq_true] at h; intro x hx; exact (inConstraint_open x).mp (h x hx)

theorem eq_of_not_changed (c θ : List ℝ) (hl : c.length = θ.length)
    (h : (List.zip c θ).any (fun (x, v) => !(Scalar.eqb x v)) = false) : c = θ := by
  induction c generalizing θ with
  | nil => cases θ with
    | nil => rfl
    | cons _ _ => simp at hl
  | cons a r ih =>
    cases θ with
    | nil => simp at hl
    | cons b t =>
      simp only [List.zip_cons_cons, List.any_cons, Bool.or_eq_false_iff, Bool.not_eq_false',
        ScalarReal.eqb_iff] at h
      rw [h.1, ih t (by simpa using hl) h.2]

/-- `fire` on a state whose parameters are admissible re-establishes the invariant -/
theorem fire_inv (s : St ℝ) (hm : ValidMethod s.method) (hd : 0 < s.dim) (h31 : s.dim < 2 ^ 31)
    (hl : s.params.length = s.dim - 1) (ho : InOpen s.params) : Inv (fire s) := by
  obtain ⟨p, e, _⟩ := probsOf_spec s.method s.dim s.params hm hd h31 hl ho
  have : fire s = { s with probs := p } := by
    simp only [fire, Nat.ne_of_gt hd, if_false, e]
  rw [this]
  exact ⟨hm, hd, h31, hl, ho, e⟩

theorem fire_eq_of_inv (s : St ℝ) (h : Inv s) : fire s = s := by
  simp only [fire, Nat.ne_of_gt h.dim_pos, if_false, h.probs]

/-- `matchParametersValues` with parameters in the open cube -/
theorem matchParams_ok (s : St ℝ) (h : Inv s) (θ : List ℝ) (hl : θ.length = s.dim - 1) (ho : InOpen θ) :
    ∃ s', matchParams s θ = .ok s' ∧ Inv s' ∧ s'.params = θ ∧ s'.dim = s.dim ∧ s'.method = s.method
      ∧ s'.allowNull = s.allowNull := by
  simp only [matchParams, all_inConstraint s.allowNull θ ho, if_true]
  by_cases hc : (List.zip s.params θ).any (fun (c, v) => !(Scalar.eqb c v)) = true
  · simp only [hc, if_true]
    refine ⟨_, rfl, fire_inv _ h.method h.dim_pos h.dim_lt hl ho, ?_⟩
    simp only [fire, Nat.ne_of_gt h.dim_pos, if_false]
    split <;> simp
  · have hc' := eq_false_of_ne_true hc
    have := eq_of_not_changed s.params θ (by rw [h.len, hl]) hc'
    simp only [hc', Bool.false_eq_true, if_false]
    exact ⟨s, rfl, h, this, rfl, rfl, rfl⟩

/-- whatever vector is passed: if `matchParametersValues` returns, under the strict constraint the
invariant holds again; if it raises the object is unchanged (`Except`) -/
theorem matchParams_inv (s : St ℝ) (h : Inv s) (ha : s.allowNull = false) (θ : List ℝ)
    (hl : θ.length = s.dim - 1) (s' : St ℝ) (e : matchParams s θ = .ok s') : Inv s' := by
  simp only [matchParams, ha] at e
  by_cases hall : θ.all (inConstraint false) = true
  · have ho := inOpen_of_all θ hall
    obtain ⟨s'', e', hi, _⟩ := matchParams_ok s h θ hl ho
    simp only [matchParams, ha, hall, if_true] at e'
    simp only [hall, if_true] at e
    rw [e] at e'; cases e'; exact hi
  · simp [hall] at e


end Object

section Object2

/-- a probability vector in the sense of the property: positive entries, sum one, a dimension
the `int` shifts of the binary coding are defined for -/
structure ValidProbs (p : List ℝ) : Prop where
  pos : AllPos p
  ne : p ≠ []
  sum : p.sum = 1
  len : p.length < 2 ^ 31

theorem construct_ok (p : List ℝ) (m : Nat) (a : Bool) (hm : ValidMethod m) (hp : ValidProbs p) :
    ∃ s, construct p m a = .ok s ∧ s.probs = p ∧ s.params = paramsOf m p ∧ Inv s ∧ s.allowNull = a := by
  have hl : p.length ≠ 0 := by have := hp.ne; cases p <;> simp_all
  have ho := paramsOf_inOpen m p hm hp.pos hp.sum hp.len
  simp only [construct, hl, if_false, sumOk_of p hp.sum, Bool.not_true, Bool.false_eq_true,
    mapM_mkParam a _ ho]
  refine ⟨_, rfl, rfl, rfl, ?_, rfl⟩
  exact ⟨hm, Nat.pos_of_ne_zero hl, hp.len, by simp [paramsOf_length m p hm], ho,
    roundtrip_all m p hm hp.pos hp.ne hp.sum hp.len⟩

theorem setFrequencies_ok (s : St ℝ) (h : Inv s) (p : List ℝ) (hp : ValidProbs p) (hl : p.length = s.dim) :
    ∃ s', setFrequencies s p = .ok s' ∧ s'.probs = p ∧ s'.params = paramsOf s.method p ∧ Inv s' := by
  have ho := paramsOf_inOpen s.method p h.method hp.pos hp.sum hp.len
  have hlen : (paramsOf s.method p).length = s.dim - 1 := by rw [paramsOf_length _ _ h.method, hl]
  have htake : p.take s.dim = p := by rw [← hl]; exact List.take_length
  obtain ⟨s', e, hi, hpar, hd, hme, _⟩ := matchParams_ok s h (paramsOf s.method p) hlen ho
  simp only [setFrequencies, Nat.ne_of_gt h.dim_pos, if_false, sumOk_of p hp.sum, Bool.not_true,
    Bool.false_eq_true, hl, ne_eq, not_true_eq_false, htake]
  refine ⟨s', e, ?_, hpar, hi⟩
  have e1 := hi.probs
  rw [hpar, hd, hme, ← hl, roundtrip_all s.method p h.method hp.pos hp.ne hp.sum hp.len] at e1
  exact (Option.some.inj e1).symm

theorem setFrequencies_inv (s : St ℝ) (h : Inv s) (ha : s.allowNull = false) (p : List ℝ) (s' : St ℝ)
    (e : setFrequencies s p = .ok s') : Inv s' := by
  simp only [setFrequencies, Nat.ne_of_gt h.dim_pos, if_false] at e
  split at e
  · cases e
  · split at e
    · cases e
    · rename_i hlt
      refine matchParams_inv s h ha _ ?_ s' e
      rw [paramsOf_length _ _ h.method, List.length_take]
      have : s.dim ≤ p.length := by omega
      simp [this]

theorem setOne_ok (s : St ℝ) (h : Inv s) (i : Nat) (v : ℝ) (hi : 1 ≤ i ∧ i < s.dim) (hv : 0 < v ∧ v < 1) :
    ∃ s', setOne s i v = .ok s' ∧ Inv s' ∧ s'.params = s.params.set (i - 1) v := by
  have hnf : ¬ (i = 0 ∨ s.params.length < i) := by rw [h.len]; omega
  simp only [setOne, hnf, if_false, ScalarReal.zero_eq, ScalarReal.abs_eq, ScalarReal.gtb_iff,
    inConstraint_of_open s.allowNull v hv, if_true]
  have hset : InOpen (s.params.set (i - 1) v) := by
    intro x hx
    rcases List.mem_or_eq_of_mem_set hx with hx | rfl
    · exact h.inOpen x hx
    · exact hv
  by_cases hc : 0 < |v - s.params.getD (i - 1) default|
  · simp only [hc, if_true]
    refine ⟨_, rfl, fire_inv _ h.method h.dim_pos h.dim_lt (by simp [h.len]) hset, ?_⟩
    simp only [fire, Nat.ne_of_gt h.dim_pos, if_false]
    split <;> simp
  · simp only [hc, if_false]
    refine ⟨_, rfl, by rw [fire_eq_of_inv s h]; exact h, ?_⟩
    rw [fire_eq_of_inv s h]
    have hv' : v = s.params.getD (i - 1) default := by
      have : |v - s.params.getD (i - 1) default| = 0 := le_antisymm (not_lt.mp hc) (abs_nonneg _)
      linarith [abs_eq_zero.mp this]
    have hlt : i - 1 < s.params.length := by rw [h.len]; omega
    rw [List.getD_eq_getElem?_getD, List.getElem?_eq_getElem hlt] at hv'
    simp only [Option.getD_some] at hv'
    rw [hv']; exact (List.set_getElem_self hlt).symm

theorem setOne_inv (s : St ℝ) (h : Inv s) (ha : s.allowNull = false) (i : Nat) (v : ℝ) (s' : St ℝ)
    (e : setOne s i v = .ok s') : Inv s' := by
  by_cases hnf : (i = 0 ∨ s.params.length < i)
  · simp [setOne, hnf] at e
  · by_cases hg : Scalar.gtb (Scalar.abs (v - s.params.getD (i - 1) default)) Scalar.zero = true
    · by_cases hc : inConstraint s.allowNull v = true
      · have hv := (inConstraint_open v).mp (ha ▸ hc)
        have hi : 1 ≤ i ∧ i < s.dim := by rw [h.len] at hnf; have := h.dim_pos; omega
        obtain ⟨s'', e', hi', _⟩ := setOne_ok s h i v hi hv
        rw [e] at e'; cases e'; exact hi'
      · have hc' := eq_false_of_ne_true hc
        simp only [setOne, hnf, hg, hc', Bool.false_eq_true, if_false, if_true] at e
        cases e
    · have hg' := eq_false_of_ne_true hg
      simp only [setOne, hnf, hg', Bool.false_eq_true, if_false] at e
      cases e; rw [fire_eq_of_inv s h]; exact h


end Object2

section Object3

theorem matchParams_gen (s : St ℝ) (hm : ValidMethod s.method) (hd : 0 < s.dim) (h31 : s.dim < 2 ^ 31)
    (hls : s.params.length = s.dim - 1) (θ : List ℝ) (hl : θ.length = s.dim - 1) (ho : InOpen θ)
    (hsame : s.params = θ → probsOf s.method s.dim θ = some s.probs) :
    ∃ s', matchParams s θ = .ok s' ∧ Inv s' ∧ s'.params = θ ∧ s'.dim = s.dim ∧ s'.method = s.method
      ∧ s'.allowNull = s.allowNull := by
  simp only [matchParams, all_inConstraint s.allowNull θ ho, if_true]
  by_cases hc : (List.zip s.params θ).any (fun (c, v) => !(Scalar.eqb c v)) = true
  · simp only [hc, if_true]
    refine ⟨_, rfl, fire_inv _ hm hd h31 hl ho, ?_⟩
    simp only [fire, Nat.ne_of_gt hd, if_false]
    split <;> simp
  · have hc' := eq_false_of_ne_true hc
    have := eq_of_not_changed s.params θ (by rw [hls, hl]) hc'
    simp only [hc', Bool.false_eq_true, if_false]
    exact ⟨s, rfl, ⟨hm, hd, h31, hls, this ▸ ho, by rw [this]; exact hsame this⟩, this, rfl, rfl, rfl⟩

noncomputable def uniform (dim : Nat) : List ℝ := List.replicate dim (1 / (dim : ℝ))

theorem uniform_valid (dim : Nat) (hd : 0 < dim) (h31 : dim < 2 ^ 31) : ValidProbs (uniform dim) := by
  have hne : (dim : ℝ) ≠ 0 := by positivity
  refine ⟨?_, ?_, ?_, by simpa [uniform] using h31⟩
  · intro x hx
    simp only [uniform, List.mem_replicate] at hx
    rw [hx.2]; positivity
  · intro h
    have : (uniform dim).length = 0 := by rw [h]; rfl
    simp [uniform] at this; omega
  · simp [uniform, List.sum_replicate]; field_simp

theorem paramsLocal_replicate (n : Nat) (c : ℝ) (hc : c ≠ 0) :
    paramsLocal (List.replicate n c) = List.replicate (n - 1) (1 / 2) := by
  induction n with
  | zero => simp [paramsLocal]
  | succ n ih =>
    cases n with
    | zero => simp [paramsLocal]
    | succ k =>
      simp only [List.replicate_succ, paramsLocal] at ih ⊢
      rw [ih]
      simp only [Nat.add_sub_cancel, List.replicate_succ]
      congr 1
      field_simp; ring

theorem uniform_eq (dim : Nat) : List.replicate dim (1 / (((dim : Int) : ℝ))) = uniform dim := by
  simp [uniform]

theorem constructDim_ok (dim m : Nat) (a : Bool) (hm : ValidMethod m) (hd : 0 < dim) (h31 : dim < 2 ^ 31) :
    ∃ s, constructDim dim m a = .ok s ∧ s.probs = uniform dim ∧ Inv s ∧ s.allowNull = a ∧ s.dim = dim
      ∧ s.method = m := by
  have hu := uniform_valid dim hd h31
  have hlen : (uniform dim).length = dim := by simp [uniform]
  have hne : (dim : ℝ) ≠ 0 := by positivity
  rcases hm with rfl | rfl | rfl
  · have ho := paramsGlobal_inOpen (uniform dim) 1 hu.pos hu.sum
    simp only [constructDim, Nat.ne_of_gt hd, if_false, ScalarReal.one_eq, ScalarReal.ofInt_eq, uniform_eq, mapM_mkParam a _ ho]
    refine ⟨_, rfl, rfl, ?_, rfl, rfl, rfl⟩
    refine ⟨Or.inl rfl, hd, h31, by simp [paramsGlobal_length, hlen], ho, ?_⟩
    have := roundtrip_all 1 (uniform dim) (Or.inl rfl) hu.pos hu.ne hu.sum hu.len
    rw [hlen, paramsOf_one] at this
    exact this
  · have hp : paramsLocal (uniform dim) = List.replicate (dim - 1) (1 / 2) :=
      paramsLocal_replicate dim _ (by positivity)
    have ho : InOpen (List.replicate (dim - 1) (Scalar.ofRat 1 2 : ℝ)) := by
      intro x hx; simp only [List.mem_replicate] at hx; rw [hx.2]; simp; norm_num
    simp only [constructDim, Nat.ne_of_gt hd, if_false, ScalarReal.one_eq, ScalarReal.ofInt_eq, uniform_eq, mapM_mkParam a _ ho]
    refine ⟨_, rfl, rfl, ?_, rfl, rfl, rfl⟩
    refine ⟨Or.inr (Or.inl rfl), hd, h31, by simp, ho, ?_⟩
    have := roundtrip_all 2 (uniform dim) (Or.inr (Or.inl rfl)) hu.pos hu.ne hu.sum hu.len
    rw [hlen] at this
    simp only [paramsOf] at this
    rw [hp] at this
    simpa using this
  · have ho : InOpen (List.replicate (dim - 1) (Scalar.ofRat 1 2 : ℝ)) := by
      intro x hx; simp only [List.mem_replicate] at hx; rw [hx.2]; simp; norm_num
    have ho' := paramsOf_inOpen 3 (uniform dim) (Or.inr (Or.inr rfl)) hu.pos hu.sum hu.len
    have hrt := roundtrip_all 3 (uniform dim) (Or.inr (Or.inr rfl)) hu.pos hu.ne hu.sum hu.len
    rw [hlen] at hrt
    simp only [constructDim, Nat.ne_of_gt hd, if_false, ScalarReal.one_eq, ScalarReal.ofInt_eq, uniform_eq, mapM_mkParam a _ ho]
    obtain ⟨s', e, hi, hpar, hdim, hme, hal⟩ := matchParams_gen
      ⟨dim, 3, a, List.replicate (dim - 1) (Scalar.ofRat 1 2 : ℝ), uniform dim⟩ (Or.inr (Or.inr rfl)) hd h31
      (by simp) (paramsOf 3 (uniform dim)) (by rw [paramsOf_length _ _ (Or.inr (Or.inr rfl)), hlen]) ho'
      (fun _ => hrt)
    have htake : (uniform dim).take dim = uniform dim := by exact List.take_of_length_le (by rw [hlen])
    refine ⟨s', ?_, ?_, hi, hal, hdim, hme⟩
    · show (do let θ ← pure _; setFrequencies _ _) = _
      simp only [pure_bind, setFrequencies, Nat.ne_of_gt hd, if_false, sumOk_of _ hu.sum, Bool.not_true,
        Bool.false_eq_true, hlen, ne_eq, not_true_eq_false, htake]
      exact e
    · have e1 := hi.probs
      rw [hpar, hdim, hme] at e1
      simp only at e1
      rw [hrt] at e1
      exact (Option.some.inj e1).symm


end Object3

section Histories

/-! ## histories -/

inductive Op where
  | setFreq (p : List ℝ)
  | setPar (θ : List ℝ)
  | setOne (i : Nat) (v : ℝ)

noncomputable def applyOp (s : St ℝ) : Op → Except Err (St ℝ)
  | .setFreq p => setFrequencies s p
  | .setPar θ => matchParams s θ
  | .setOne i v => Simplex.setOne s i v

/-- one call; a call that raises leaves the object as it was -/
noncomputable def stepOp (s : St ℝ) (o : Op) : St ℝ :=
  match applyOp s o with
  | .ok s' => s'
  | .error _ => s

noncomputable def run (s : St ℝ) (ops : List Op) : St ℝ := ops.foldl stepOp s

def Same (s s' : St ℝ) : Prop := s'.dim = s.dim ∧ s'.method = s.method ∧ s'.allowNull = s.allowNull

theorem fire_same (s : St ℝ) : Same s (fire s) := by
  simp only [fire, Same]
  split
  · exact ⟨rfl, rfl, rfl⟩
  · split <;> exact ⟨rfl, rfl, rfl⟩

theorem matchParams_same (s s' : St ℝ) (θ : List ℝ) (e : matchParams s θ = .ok s') : Same s s' := by
  simp only [matchParams] at e
  split at e
  · split at e
    · cases e; exact fire_same _
    · cases e; exact ⟨rfl, rfl, rfl⟩
  · cases e

theorem applyOp_same (s s' : St ℝ) (o : Op) (e : applyOp s o = .ok s') : Same s s' := by
  cases o with
  | setFreq p =>
    simp only [applyOp, setFrequencies] at e
    split at e
    · cases e; exact ⟨rfl, rfl, rfl⟩
    · split at e
      · cases e
      · split at e
        · cases e
        · exact matchParams_same s s' _ e
  | setPar θ => exact matchParams_same s s' θ e
  | setOne i v =>
    simp only [applyOp, Simplex.setOne] at e
    split at e
    · cases e
    · split at e
      · split at e
        · cases e; exact fire_same _
        · cases e
      · cases e; exact fire_same _

theorem stepOp_same (s : St ℝ) (o : Op) : Same s (stepOp s o) := by
  unfold stepOp
  cases h : applyOp s o with
  | ok s' => exact applyOp_same s s' o h
  | error _ => exact ⟨rfl, rfl, rfl⟩

/-- the only well-formedness asked of a call under the strict constraint: `matchParametersValues`
is given one value per parameter, `setFrequencies` a vector of at least `dim` entries (the C++ reads
`probas[0 .. dim-1]` without a test: a shorter vector is read out of bounds — undefined behaviour,
nothing can be claimed afterwards; the model answers `Err.ub`) -/
def WellFormed (dim : Nat) : Op → Prop
  | .setPar θ => θ.length = dim - 1
  | .setFreq p => dim ≤ p.length
  | _ => True

/-- Strict constraint `]0,1[`: the invariant survives EVERY history of well-formed calls — whatever
the values of the arguments (rejected calls change nothing, accepted ones re-establish it). -/
theorem inv_run_strict (s : St ℝ) (h : Inv s) (ha : s.allowNull = false) (ops : List Op)
    (hw : ∀ o ∈ ops, WellFormed s.dim o) : Inv (run s ops) := by
  induction ops generalizing s with
  | nil => exact h
  | cons o rest ih =>
    have hs := stepOp_same s o
    have hstep : Inv (stepOp s o) := by
      unfold stepOp
      cases e : applyOp s o with
      | error _ => exact h
      | ok s' =>
        cases o with
        | setFreq p => exact setFrequencies_inv s h ha p s' e
        | setPar θ => exact matchParams_inv s h ha θ (hw (.setPar θ) (by simp)) s' e
        | setOne i v => exact setOne_inv s h ha i v s' e
    simp only [run, List.foldl_cons]
    exact ih (stepOp s o) hstep (by rw [hs.2.2]; exact ha)
      (fun o' ho' => by rw [hs.1]; exact hw o' (by simp [ho']))

/-- arguments inside the property's quantifier: probability vectors with positive entries,
parameter vectors in the open cube -/
def Admissible (dim : Nat) : Op → Prop
  | .setFreq p => ValidProbs p ∧ p.length = dim
  | .setPar θ => θ.length = dim - 1 ∧ InOpen θ
  | .setOne i v => (1 ≤ i ∧ i < dim) ∧ (0 < v ∧ v < 1)

/-- either constraint: admissible calls are all accepted and keep the invariant -/
theorem inv_run_admissible (s : St ℝ) (h : Inv s) (ops : List Op)
    (hw : ∀ o ∈ ops, Admissible s.dim o) : Inv (run s ops) := by
  induction ops generalizing s with
  | nil => exact h
  | cons o rest ih =>
    have hs := stepOp_same s o
    have hstep : Inv (stepOp s o) := by
      have ho := hw o (by simp)
      unfold stepOp
      cases o with
      | setFreq p =>
        obtain ⟨s', e, _, _, hi⟩ := setFrequencies_ok s h p ho.1 ho.2
        simp only [applyOp, e]; exact hi
      | setPar θ =>
        obtain ⟨s', e, hi, _⟩ := matchParams_ok s h θ ho.1 ho.2
        simp only [applyOp, e]; exact hi
      | setOne i v =>
        obtain ⟨s', e, hi, _⟩ := setOne_ok s h i v ho.1 ho.2
        simp only [applyOp, e]; exact hi
    simp only [run, List.foldl_cons]
    exact ih (stepOp s o) hstep (fun o' ho' => by rw [hs.1]; exact hw o' (by simp [ho']))


end Histories

section OrderedObject

/-! ## OrderedSimplex objects -/

structure OInv (o : OSt ℝ) : Prop where
  base : Inv o.base
  values : o.values = orderedValues o.base.probs 1

theorem OInv.spec {o : OSt ℝ} (h : OInv o) :
    NonIncreasing o.values ∧ o.values.sum = 1 ∧ (∀ v ∈ o.values, 0 ≤ v) ∧ o.values.length = o.base.dim := by
  obtain ⟨hs, hp, hl⟩ := h.base.sum_one
  have hnn : ∀ x ∈ o.base.probs, 0 ≤ x := fun x m => le_of_lt (hp x m)
  obtain ⟨h1, h2⟩ := orderedValues_nonincreasing o.base.probs 1 hnn
  rw [h.values]
  exact ⟨h1, by rw [orderedValues_sum_eq, hs], h2, by rw [orderedValues_length, hl]⟩

theorem oRefresh_inv (b : St ℝ) (h : Inv b) : OInv (oRefresh b) := ⟨h, rfl⟩

/-- an ordered vector in the sense of the property: strictly decreasing positive values, sum one -/
structure ValidOrdered (v : List ℝ) : Prop where
  decr : StrictDecrPos v
  ne : v ≠ []
  sum : v.sum = 1
  len : v.length < 2 ^ 31

theorem validOrdered_probs {v : List ℝ} (hv : ValidOrdered v) : ValidProbs (orderedToProbs v 1) := by
  refine ⟨orderedToProbs_pos v 1 (le_refl _) hv.decr, ?_, by rw [orderedToProbs_sum, hv.sum],
    by rw [orderedToProbs_length]; exact hv.len⟩
  intro h
  have := orderedToProbs_length v 1
  rw [h] at this
  exact hv.ne (List.length_eq_zero_iff.mp this.symm)

theorem oSetFrequencies_ok (o : OSt ℝ) (h : Inv o.base) (v : List ℝ) (hv : ValidOrdered v)
    (hl : v.length = o.base.dim) :
    ∃ o', oSetFrequencies o v = .ok o' ∧ o'.values = v ∧ OInv o' ∧ o'.base.probs = orderedToProbs v 1 := by
  have hp := validOrdered_probs hv
  obtain ⟨b, e, hpr, _, hi⟩ := setFrequencies_ok o.base h (orderedToProbs v 1) hp
    (by rw [orderedToProbs_length, hl])
  have hne : ¬ (v.length = 0) := by have := h.dim_pos; omega
  have hne2 : ¬ (v.length ≠ o.base.dim) := by omega
  refine ⟨⟨b, v⟩, ?_, rfl, ⟨hi, ?_⟩, hpr⟩
  · simp only [oSetFrequencies, hne, hne2, if_false, e]; rfl
  · show v = orderedValues b.probs 1
    rw [hpr, orderedValues_toProbs v 1 (le_refl _)]

theorem oConstructDim_ok (dim m : Nat) (a : Bool) (hm : ValidMethod m) (hd : 0 < dim) (h31 : dim < 2 ^ 31) :
    ∃ o, oConstructDim dim m a = .ok o ∧ OInv o ∧ o.base.dim = dim ∧ o.base.method = m ∧ o.base.allowNull = a := by
  obtain ⟨s, e, _, hi, ha, hdim, hme⟩ := constructDim_ok dim m a hm hd h31
  exact ⟨oRefresh s, by simp only [oConstructDim, e]; rfl, oRefresh_inv s hi, hdim, hme, ha⟩

theorem oConstruct_ok (v : List ℝ) (m : Nat) (a : Bool) (hm : ValidMethod m) (hv : ValidOrdered v) :
    ∃ o, oConstruct v m a = .ok o ∧ o.values = v ∧ OInv o ∧ o.base.allowNull = a := by
  have hpos : 0 < v.length := List.length_pos_of_ne_nil hv.ne
  obtain ⟨s, e, _, hi, ha, hdim, hme⟩ := constructDim_ok v.length m a hm hpos hv.len
  obtain ⟨o', e', hval, hoi, _⟩ := oSetFrequencies_ok ⟨s, v⟩ hi v hv hdim.symm
  refine ⟨o', ?_, hval, hoi, ?_⟩
  · simp only [oConstruct, e]; exact e'
  · have hne : ¬ (v.length = 0) := by omega
    have hne2 : ¬ (v.length ≠ s.dim) := by omega
    simp only [oSetFrequencies, hne, hne2, if_false] at e'
    cases e1 : setFrequencies s (orderedToProbs v 1) with
    | error err => rw [e1] at e'; cases e'
    | ok b =>
      rw [e1] at e'
      have : o' = ⟨b, v⟩ := by cases e'; rfl
      rw [this]
      have := applyOp_same s b (.setFreq (orderedToProbs v 1)) e1
      rw [this.2.2, ha]

theorem oMatchParams_ok (o : OSt ℝ) (h : OInv o) (θ : List ℝ) (hl : θ.length = o.base.dim - 1) (ho : InOpen θ) :
    ∃ o', oMatchParams o θ = .ok o' ∧ OInv o' ∧ o'.base.params = θ := by
  obtain ⟨s', e, hi, hpar, _⟩ := matchParams_ok o.base h.base θ hl ho
  simp only [oMatchParams, e]
  by_cases hc : (List.zip o.base.params θ).any (fun (c, v) => !(Scalar.eqb c v)) = true
  · exact ⟨oRefresh s', by simp only [hc, if_true]; rfl, oRefresh_inv s' hi, hpar⟩
  · have hc' := eq_false_of_ne_true hc
    have := eq_of_not_changed o.base.params θ (by rw [h.base.len, hl]) hc'
    exact ⟨o, by simp only [hc', Bool.false_eq_true, if_false]; rfl, h, this⟩

theorem oSetOne_ok (o : OSt ℝ) (h : OInv o) (i : Nat) (v : ℝ) (hi : 1 ≤ i ∧ i < o.base.dim) (hv : 0 < v ∧ v < 1) :
    ∃ o', oSetOne o i v = .ok o' ∧ OInv o' := by
  obtain ⟨s', e, hi', _⟩ := setOne_ok o.base h.base i v hi hv
  exact ⟨oRefresh s', by simp only [oSetOne, e]; rfl, oRefresh_inv s' hi'⟩


end OrderedObject

end Bpp.Simplex
