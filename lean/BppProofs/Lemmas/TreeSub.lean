import BppProofs.Lemmas.TreeRooted
/-
Subtree and leaves-under queries on a valid rooted tree: they list, each once, the descendants of
the node (resp. the descendants without son), and the fuel `node count + 2` is never exhausted.
-/
namespace Bpp.Graph
open AL

namespace DTree
variable {g : G} {P : PTree}

theorem outNeighbors (h : DTree g P) {n : Nat} (hn : n ∈ P.nodes) : g.outNeighbors n = some (g.outKeys n) :=
  G.outNeighbors_of_hasNode ((h.nodes n).1 hn)

theorem outKeys_nodup (h : DTree g P) (n : Nat) : (g.outKeys n).Nodup := G.nodup_of_asc (G.asc_outKeys h.cons.sorted n)

/-- a generic loop over the sons: each son contributes the list `L c` of its subtree -/
theorem sons_fold (h : DTree g P) {n : Nat} (f : Nat → List Nat → TRes (List Nat)) (Q : Nat → Prop)
    (step : TRes (List Nat) → Nat → TRes (List Nat)) (hstep : ∀ m s, step (.ok m) s = f s m) :
    ∀ (ls m : List Nat), ls.Nodup → (∀ c ∈ ls, P.par c = some n) →
      (∀ c ∈ ls, ∀ m, ∃ l, f c m = .ok (m ++ l) ∧ l.Nodup ∧ ∀ x, x ∈ l ↔ (IsAnc P.par c x ∧ Q x)) →
      ∃ l : List Nat, ls.foldl step (TRes.ok m) = TRes.ok (m ++ l) ∧ l.Nodup ∧
        ∀ x, x ∈ l ↔ ∃ c ∈ ls, IsAnc P.par c x ∧ Q x := by
  intro ls
  induction ls with
  | nil => intro m _ _ _; exact ⟨[], by simp, List.nodup_nil, by simp⟩
  | cons c rest ih =>
    intro m hnd hpar hsub
    have hnd' := List.nodup_cons.1 hnd
    obtain ⟨l1, h1, hn1, hm1⟩ := hsub c (List.mem_cons_self ..) m
    obtain ⟨l2, h2, hn2, hm2⟩ := ih (m ++ l1) hnd'.2 (fun d hd => hpar d (List.mem_cons_of_mem _ hd))
      (fun d hd => hsub d (List.mem_cons_of_mem _ hd))
    refine ⟨l1 ++ l2, ?_, ?_, ?_⟩
    · simp only [List.foldl, hstep, h1]
      rw [h2, List.append_assoc]
    · rw [List.nodup_append]
      refine ⟨hn1, hn2, ?_⟩
      intro a ha b hb hab
      subst hab
      obtain ⟨d, hd, hda, _⟩ := (hm2 a).1 hb
      have hcd : c ≠ d := fun e => hnd'.1 (e ▸ hd)
      exact h.wf.sons_disjoint (hpar c (List.mem_cons_self ..)) (hpar d (List.mem_cons_of_mem _ hd)) hcd ((hm1 a).1 ha).1 hda
    · intro x
      rw [List.mem_append, hm1 x, hm2 x]
      constructor
      · rintro (hx | ⟨d, hd, hx⟩)
        · exact ⟨c, List.mem_cons_self .., hx⟩
        · exact ⟨d, List.mem_cons_of_mem _ hd, hx⟩
      · rintro ⟨d, hd, hx⟩
        rcases List.mem_cons.1 hd with e | hd'
        · subst e; exact .inl hx
        · exact .inr ⟨d, hd', hx⟩

/-- `fillSubtreeMetNodes_`: the descendants of `n`, each once, `n` first -/
theorem subtreeNodes (h : DTree g P) : ∀ (fuel n : Nat) (met : List Nat), n ∈ P.nodes → g.nodes.length + 1 ≤ fuel + P.rank n →
    ∃ l, T.subtreeNodes g fuel n met = .ok (met ++ l) ∧ l.Nodup ∧ ∀ x, x ∈ l ↔ IsAnc P.par n x := by
  intro fuel
  induction fuel with
  | zero => intro n met hn hf; have := h.rank_lt hn; omega
  | succ f ih =>
    intro n met hn hf
    simp only [T.subtreeNodes]
    rw [h.outNeighbors hn]
    simp only
    obtain ⟨l, h1, h2, h3⟩ := h.sons_fold (n := n) (fun s m => T.subtreeNodes g f s m) (fun _ => True)
      (fun acc s => match acc with | .ok m => T.subtreeNodes g f s m | r => r) (fun _ _ => rfl) (g.outKeys n) (met ++ [n])
      (h.outKeys_nodup n) (fun c hc => (h.mem_outKeys n c).1 hc)
      (by
        intro c hc m
        have hpc := (h.mem_outKeys n c).1 hc
        have hm := h.wf.par_mem hpc
        obtain ⟨l, h1, h2, h3⟩ := ih c m hm.1 (by omega)
        exact ⟨l, h1, h2, fun x => by rw [h3 x]; simp⟩)
    refine ⟨n :: l, ?_, ?_, ?_⟩
    · refine Eq.trans h1 ?_; simp
    · rw [List.nodup_cons]
      refine ⟨?_, h2⟩
      intro hnl
      obtain ⟨c, hc, hcn, _⟩ := (h3 n).1 hnl
      exact h.wf.son_not_anc ((h.mem_outKeys n c).1 hc) hcn
    · intro x
      rw [List.mem_cons, h3 x]
      constructor
      · rintro (e | ⟨c, hc, hcx, _⟩)
        · subst e; exact .refl _
        · exact IsAnc.trans (IsAnc.of_par ((h.mem_outKeys n c).1 hc)) hcx
      · intro hx
        by_cases hxn : x = n
        · exact .inl hxn
        · obtain ⟨c, hpc, hcx⟩ := IsAnc.under_son hx hxn
          exact .inr ⟨c, (h.mem_outKeys n c).2 hpc, hcx, trivial⟩

theorem isLeafT (h : DTree g P) {n : Nat} (hn : n ∈ P.nodes) : T.isLeafT g n = some (decide (g.outKeys n = [])) := by
  have hnode := (h.nodes n).1 hn
  unfold T.isLeafT RowQ.nbOut G.rowOf G.outKeys
  rw [G.hasNode_iff] at hnode
  obtain ⟨r, hr⟩ := hnode
  simp [hr, h.dir, AL.keys]

/-- `fillListOfLeaves_`: the descendants of `n` without son, each once -/
theorem leavesUnder (h : DTree g P) : ∀ (fuel n : Nat) (found : List Nat), n ∈ P.nodes → g.nodes.length + 1 ≤ fuel + P.rank n →
    ∃ l, T.leavesUnder g fuel n found = .ok (found ++ l) ∧ l.Nodup ∧ ∀ x, x ∈ l ↔ (IsAnc P.par n x ∧ g.outKeys x = []) := by
  intro fuel
  induction fuel with
  | zero => intro n found hn hf; have := h.rank_lt hn; omega
  | succ f ih =>
    intro n found hn hf
    simp only [T.leavesUnder]
    rw [h.outNeighbors hn, h.isLeafT hn]
    simp only
    by_cases hleaf : g.outKeys n = []
    · simp only [hleaf, decide_true]
      refine ⟨[n], rfl, by simp, ?_⟩
      intro x
      simp only [List.mem_singleton]
      constructor
      · intro e; subst e; exact ⟨.refl _, hleaf⟩
      · rintro ⟨hx, _⟩
        by_cases hxn : x = n
        · exact hxn
        · obtain ⟨c, hpc, _⟩ := IsAnc.under_son hx hxn
          have := (h.mem_outKeys n c).2 hpc
          rw [hleaf] at this; cases this
    · simp only [hleaf, decide_false]
      obtain ⟨l, h1, h2, h3⟩ := h.sons_fold (n := n) (fun s m => T.leavesUnder g f s m) (fun x => g.outKeys x = [])
        (fun acc s => match acc with | .ok m => T.leavesUnder g f s m | r => r) (fun _ _ => rfl) (g.outKeys n) found
        (h.outKeys_nodup n) (fun c hc => (h.mem_outKeys n c).1 hc)
        (by
          intro c hc m
          have hpc := (h.mem_outKeys n c).1 hc
          have hm := h.wf.par_mem hpc
          exact ih c m hm.1 (by omega))
      refine ⟨l, h1, h2, ?_⟩
      intro x
      rw [h3 x]
      constructor
      · rintro ⟨c, hc, hcx, hq⟩
        exact ⟨IsAnc.trans (IsAnc.of_par ((h.mem_outKeys n c).1 hc)) hcx, hq⟩
      · rintro ⟨hx, hq⟩
        have hxn : x ≠ n := fun e => hleaf (e ▸ hq)
        obtain ⟨c, hpc, hcx⟩ := IsAnc.under_son hx hxn
        exact ⟨c, (h.mem_outKeys n c).2 hpc, hcx, hq⟩

end DTree
end Bpp.Graph
