import BppProofs.Lemmas.AliasHist
/-! What can be observed (`svOf`) of a copied / renamed / untouched object (C03). -/
namespace Bpp.Alias
open Bpp.ParamList (Bnd Con Par Store ObjId nameOf find? hasParameter names startsWith)

theorem map_eq_of_getElem? {α β γ : Type} {l : List α} {m : List β} {f : α → γ} {g : β → γ}
    (hlen : l.length = m.length) (h : ∀ (j : Nat) a b, l[j]? = some a → m[j]? = some b → f a = g b) : l.map f = m.map g := by
  apply List.ext_getElem?
  intro j
  simp only [List.getElem?_map]
  cases ha : l[j]? with
  | none =>
    have : m[j]? = none := by rw [List.getElem?_eq_none_iff] at ha ⊢; rw [← hlen]; exact ha
    rw [this]; rfl
  | some a =>
    have hj : j < m.length := hlen ▸ (List.getElem?_eq_some_iff.1 ha).1
    rw [List.getElem?_eq_getElem hj]
    simp only [Option.map_some]
    rw [h j a _ ha (List.getElem?_eq_getElem hj)]

theorem findIdx?_nodup {l : List ObjId} (nd : l.Nodup) {j : Nat} {a : ObjId} (h : l[j]? = some a) :
    l.findIdx? (fun x => x == a) = some j := by
  rw [List.findIdx?_eq_some_iff_getElem]
  obtain ⟨hj, e⟩ := List.getElem?_eq_some_iff.1 h
  refine ⟨hj, by simp [e], fun i hij => ?_⟩
  have hi : i < l.length := Nat.lt_trans hij hj
  simp only [beq_iff_eq, Bool.not_eq_true, beq_eq_false_iff_ne, ne_eq]
  intro e'
  have := (List.Nodup.getElem_inj_iff nd (hi := hi) (hj := hj)).1 (e'.trans e.symm)
  omega

/-- an object whose parameter objects and attached listeners are the same in `W` as in `w` looks the same -/
theorem svOf_congr {w W : World} {o : Obj} (hsub : ∀ i ∈ o.indep, i ∈ o.params)
    (hget : ∀ i ∈ o.params, W.heap.get i = w.heap.get i)
    (hid : ∀ i ∈ o.params, ∀ id, hasListener W i id = hasListener w i id) : svOf W o = svOf w o := by
  have hname : ∀ i ∈ o.params, nameOf W.heap i = nameOf w.heap i := fun i hi => by simp only [nameOf, hget i hi]
  have hshort : shortNames W o = shortNames w o := by
    simp only [shortNames]; exact List.map_congr_left (fun i hi => by rw [hname i hi])
  simp only [svOf, SV.mk.injEq, true_and]
  refine ⟨?_, ?_, ?_⟩
  · exact List.map_congr_left (fun i hi => by rw [hname i hi, hget i hi])
  · simp only [linksOf, hshort]
    apply List.flatMap_congr
    intro i hi
    rw [hname i hi]
    congr 1
    apply List.filter_congr
    intro y _
    exact hid i hi _
  · apply List.map_congr_left
    intro i hi
    rw [hname i (hsub i hi)]

/-- **the copy looks exactly like its source**: same namespace, same names / values / constraints in
the same order, same links, same independent list (names, order, and positions of the shared objects) -/
theorem svOf_copy {w W : World} {s d : Nat} {o : Obj} (hs : ObjInv w s o) (r : Rebuilt w s d o W) :
    svOf W (rebuiltObj w o r.cl r.reg') = svOf w o := by
  have hlen := r.len
  have hsame : ∀ (j : Nat) c i, r.cl[j]? = some c → o.params[j]? = some i → W.heap.get c = w.heap.get i := by
    intro j c i hc hi
    obtain ⟨c', hc', e⟩ := r.same j i hi
    rw [hc] at hc'; cases hc'; exact e
  have hname : ∀ (j : Nat) c i, r.cl[j]? = some c → o.params[j]? = some i → nameOf W.heap c = nameOf w.heap i :=
    fun j c i hc hi => by simp only [nameOf, hsame j c i hc hi]
  have hshort : shortNames W (rebuiltObj w o r.cl r.reg') = shortNames w o := by
    simp only [shortNames]
    exact map_eq_of_getElem? hlen (fun j c i hc hi => by rw [hname j c i hc hi])
  have hclnd : r.cl.Nodup := List.Nodup.of_map _ r.inv.nodup
  simp only [svOf, SV.mk.injEq, true_and]
  refine ⟨?_, ?_, ?_⟩
  · exact map_eq_of_getElem? hlen (fun j c i hc hi => by rw [hname j c i hc hi, hsame j c i hc hi])
  · simp only [linksOf, hshort, List.flatMap_def]
    congr 1
    refine map_eq_of_getElem? hlen (fun j c i hc hi => ?_)
    rw [hname j c i hc hi]
    congr 1
    apply List.filter_congr
    intro y _
    exact r.ids j i c hi hc _
  · simp only [List.map_map]
    apply List.map_congr_left
    intro i hi
    obtain ⟨j, hj⟩ := hs.exists_pos (hs.indepSub i hi)
    obtain ⟨c, hc, _⟩ := r.same j i hj
    have hcc : cloneOf w o i = c := by rw [cloneOf_pos hs hj, r.clPos j c hc]
    simp only [Function.comp, hcc]
    rw [hname j c i hc hj]
    have h1 : r.cl.findIdx? (fun x => x == c) = some j := findIdx?_nodup hclnd hc
    have h2 : o.params.findIdx? (fun x => x == i) = some j := findIdx?_nodup hs.idsNodup hj
    show (nameOf w.heap i, r.cl.findIdx? (fun x => x == c)) = (nameOf w.heap i, o.params.findIdx? (fun x => x == i))
    rw [h1, h2]

/-! ## Links seen from outside = registered links -/

theorem ObjInv.short {w : World} {k : Nat} {o : Obj} (h : ObjInv w k o) {i : ObjId} (hi : i ∈ o.params) :
    ∃ x, nameOf w.heap i = o.pre ++ x ∧ Plain x ∧ stripNs o.pre (nameOf w.heap i) = x := by
  obtain ⟨x, hx, px⟩ := h.plain i hi
  exact ⟨x, hx, px, by rw [hx, stripNs_append]⟩

theorem mem_shortNames {w : World} {k : Nat} {o : Obj} (h : ObjInv w k o) {y : String} :
    y ∈ shortNames w o ↔ ∃ t ∈ o.params, nameOf w.heap t = o.pre ++ y := by
  simp only [shortNames, List.mem_map]
  constructor
  · rintro ⟨t, ht, rfl⟩
    obtain ⟨x, hx, _, hs⟩ := h.short ht
    exact ⟨t, ht, by rw [hs]; exact hx⟩
  · rintro ⟨t, ht, hn⟩
    exact ⟨t, ht, by rw [hn, stripNs_append]⟩

/-- `(x, y)` is a visible link iff the listener id `__alias_y_to_x` is registered (for parameters
`x`, `y` of the object) -/
theorem mem_linksOf {w : World} {k : Nat} {o : Obj} (h : ObjInv w k o) {x y : String} :
    (x, y) ∈ linksOf w o ↔ x ∈ shortNames w o ∧ y ∈ shortNames w o ∧ aliasId x y ∈ o.reg.map Prod.fst := by
  simp only [linksOf, List.mem_flatMap, List.mem_map, List.mem_filter, Prod.mk.injEq]
  constructor
  · rintro ⟨i, hi, y', ⟨hy', hl⟩, hx, rfl⟩
    refine ⟨by rw [← hx]; exact List.mem_map.2 ⟨i, hi, rfl⟩, hy', ?_⟩
    simp only [hasListener, List.any_eq_true, beq_iff_eq] at hl
    obtain ⟨l, hl1, hl2⟩ := hl
    obtain ⟨hreg, _⟩ := h.lsnOk i hi l hl1
    rw [hl2, hx] at hreg
    exact ⟨_, hreg, rfl⟩
  · rintro ⟨hx, hy, e, he, hk⟩
    obtain ⟨sx, hsx, hsxn⟩ := (mem_shortNames h).1 hx
    obtain ⟨ty, hty, htyn⟩ := (mem_shortNames h).1 hy
    obtain ⟨_, r2, _, ⟨s, hs, hsn, hsl⟩, ⟨t, y', ht, htn, _, hid⟩⟩ := h.regOk e he
    have py : Plain y := by
      obtain ⟨z, hz, pz⟩ := h.plain ty hty
      have : z = y := append_left_cancel' (hz.symm.trans htyn)
      exact this ▸ pz
    have py' : Plain y' := by
      obtain ⟨z, hz, pz⟩ := h.plain t (List.mem_of_getElem? ht)
      have : z = y' := append_left_cancel' (hz.symm.trans htn)
      exact this ▸ pz
    obtain ⟨e1, e2⟩ := aliasId_inj py' py (hid.symm.trans hk)
    have hsx' : s = sx := h.name_inj hs hsx (by rw [hsn, e1, hsxn])
    subst hsx'
    refine ⟨s, hs, y, ⟨hy, ?_⟩, by rw [hsxn, stripNs_append], rfl⟩
    simp only [hasListener, List.any_eq_true, beq_iff_eq]
    refine ⟨e.2, hsl, ?_⟩
    rw [r2, hsxn, stripNs_append, hk]

/-! ## The clause `tracksOk` read on the model -/

theorem value?_svOf (w : World) (o : Obj) (x : String) :
    (svOf w o).value? x = (find? w.heap o.params (o.pre ++ x)).map (val w) := by
  simp only [SV.value?, svOf, find?, List.find?_map, Option.map_map]
  rfl

/-- a visible link is a wired listener -/
theorem link_of_mem_linksOf {w : World} {k : Nat} {o : Obj} (h : ObjInv w k o) (ho : w.objs k = some o) {x y : String}
    (hl : (x, y) ∈ linksOf w o) :
    ∃ ix iy l, find? w.heap o.params (o.pre ++ x) = some ix ∧ find? w.heap o.params (o.pre ++ y) = some iy ∧
      l ∈ w.lsn ix ∧ tgt w l = some iy := by
  obtain ⟨hx, hy, hk⟩ := (mem_linksOf h).1 hl
  obtain ⟨e, he, hek⟩ := List.mem_map.1 hk
  obtain ⟨sx, hsx, hsxn⟩ := (mem_shortNames h).1 hx
  obtain ⟨ty, hty, htyn⟩ := (mem_shortNames h).1 hy
  obtain ⟨s, t, y', hs, ht, hsn, htn, hid, hsl, htg⟩ := h.link ho he
  have py : Plain y := by
    obtain ⟨z, hz, pz⟩ := h.plain ty hty
    have : z = y := append_left_cancel' (hz.symm.trans htyn)
    exact this ▸ pz
  have py' : Plain y' := by
    obtain ⟨z, hz, pz⟩ := h.plain t ht
    have : z = y' := append_left_cancel' (hz.symm.trans htn)
    exact this ▸ pz
  obtain ⟨e1, e2⟩ := aliasId_inj py' py (hid.symm.trans hek)
  subst e2
  refine ⟨s, t, e.2, (find?_iff h.nodup).2 ⟨hs, by rw [hsn, e1]⟩, (find?_iff h.nodup).2 ⟨ht, htn⟩, hsl, htg⟩

/-- `y` is reached from `x` through visible links that are in sync in the view -/
inductive SyncPathV (s : SV) : String → String → Prop
  | refl (x : String) : SyncPathV s x x
  | step {x y z : String} : (x, y) ∈ s.links → s.synced (x, y) = true → SyncPathV s y z → SyncPathV s x z

theorem SyncPathV.trans {s : SV} {x y z : String} (p : SyncPathV s x y) (q : SyncPathV s y z) : SyncPathV s x z := by
  induction p with
  | refl => exact q
  | step hl hs _ ih => exact SyncPathV.step hl hs (ih q)

theorem SyncPathV.snoc {s : SV} {x y z : String} (p : SyncPathV s x y) (hl : (y, z) ∈ s.links) (hs : s.synced (y, z) = true) :
    SyncPathV s x z := p.trans (SyncPathV.step hl hs (SyncPathV.refl z))

/-- everything `syncedBelow` returns is reached from the initial front through in-sync links -/
theorem syncedBelow_sound (s : SV) : ∀ (f : Nat) (front : List String) (y : String), y ∈ s.syncedBelow f front →
    ∃ x ∈ front, SyncPathV s x y
  | 0, front, y, hy => ⟨y, hy, SyncPathV.refl y⟩
  | f + 1, front, y, hy => by
    simp only [SV.syncedBelow] at hy
    split at hy
    · exact ⟨y, hy, SyncPathV.refl y⟩
    · obtain ⟨x, hx, hp⟩ := syncedBelow_sound s f _ y hy
      rcases List.mem_append.1 hx with hx | hx
      · exact ⟨x, hx, hp⟩
      · obtain ⟨l, hl, rfl⟩ := List.mem_map.1 hx
        obtain ⟨hlm, hc⟩ := List.mem_filter.1 hl
        simp only [Bool.and_eq_true, Bool.not_eq_true', List.contains_iff_mem] at hc
        refine ⟨l.1, by simpa using hc.1.1, ?_⟩
        exact SyncPathV.step (x := l.1) (y := l.2) (by cases l; exact hlm) (by cases l; exact hc.1.2) hp

/-- a view path in sync is a world path in sync -/
theorem syncPath_of_view {w : World} {k : Nat} {o : Obj} (h : ObjInv w k o) (ho : w.objs k = some o) {x y : String}
    (p : SyncPathV (svOf w o) x y) {ix : ObjId} (hx : find? w.heap o.params (o.pre ++ x) = some ix) :
    ∃ iy, find? w.heap o.params (o.pre ++ y) = some iy ∧ SyncPath w ix iy := by
  induction p generalizing ix with
  | refl x => exact ⟨ix, hx, SyncPath.refl ix⟩
  | @step a b c hl hs _ ih =>
    obtain ⟨ia, ib, l, ha, hb, hla, htg⟩ := link_of_mem_linksOf h ho hl
    rw [hx] at ha; cases ha
    obtain ⟨ic, hc, pc⟩ := ih hb
    refine ⟨ic, hc, SyncPath.step hla htg ?_ pc⟩
    simp only [SV.synced, value?_svOf, hx, hb, Option.map_some, beq_iff_eq, Option.some.injEq] at hs
    exact hs.symm

/-- **`tracksOk` holds of the model** for `setParameterValue`: the clause the driver evaluates on the
implementation's views is a consequence of `Step` (`alias_tracks_direct` / `alias_tracks_chain`) -/
theorem tracksOk_setv {w : World} (h : Inv w) {k : Nat} {o : Obj} (ho : w.objs k = some o) (n : String) (v : Rat)
    (ok : (apSetParameterValue w k n v).err = none) :
    tracksOk (svOf w o) (svOf (apSetParameterValue w k n v).w o) = true := by
  have hi := h.obj k o ho
  have sb := (update_sameBut w k).1 n v
  set w' := (apSetParameterValue w k n v).w with hw'
  have hfind : ∀ z, find? w'.heap o.params z = find? w.heap o.params z := fun z => sb.find? o.params z
  -- the underlying `Step`
  obtain ⟨i0, hstep⟩ : ∃ i0, Step v w w' := by
    simp only [apSetParameterValue, ho, setParameterValue] at ok hw'
    cases hf : find? w.heap o.params (o.pre ++ n) with
    | none => simp [hf] at ok
    | some i =>
      simp only [hf] at ok hw'
      exact ⟨i, by rw [hw']; exact (setValue_step w i v ok).1⟩
  simp only [tracksOk, List.all_eq_true, Bool.or_eq_true, beq_iff_eq]
  intro x hx
  by_cases hsame : (svOf w o).value? x = (svOf w' o).value? x
  · exact Or.inl hsame
  right
  intro y hy
  -- `x` is a parameter whose value changed
  have hxs : x ∈ shortNames w o := by simpa [SV.shorts, SV.short, svOf, shortNames] using hx
  obtain ⟨ix, hix, hixn⟩ := (mem_shortNames hi).1 hxs
  have hfx : find? w.heap o.params (o.pre ++ x) = some ix := (find?_iff hi.nodup).2 ⟨hix, hixn⟩
  have hchg : val w' ix ≠ val w ix := by
    intro e
    apply hsame
    rw [value?_svOf, value?_svOf, hfind, hfx]
    simp only [Option.map_some, e]
  -- `y` is reached from a child of `x`
  obtain ⟨c, hc, hp⟩ := syncedBelow_sound (svOf w o) _ _ y hy
  have hcl : (x, c) ∈ linksOf w o := by
    simp only [SV.children, List.mem_map, List.mem_filter, beq_iff_eq] at hc
    obtain ⟨l, ⟨hl, hl1⟩, hl2⟩ := hc
    cases l; simp only at hl1 hl2; subst hl1 hl2; exact hl
  obtain ⟨ix', ic, l, hx', hcf, hlx, htg⟩ := link_of_mem_linksOf hi ho hcl
  rw [hfx] at hx'; cases hx'
  obtain ⟨iy, hyf, py⟩ := syncPath_of_view hi ho hp hcf
  have := hstep.tracks_chain hlx htg py hchg
  rw [value?_svOf, value?_svOf, hfind, hfind, hyf, hfx]
  simp only [Option.map_some, this]

end Bpp.Alias
