import BppProofs.Lemmas.AliasHist
/-! What can be observed (`svOf`) of a copied / renamed / untouched object (C03). -/
namespace Bpp.Alias
open Bpp.ParamList (Bnd Con Par Store ObjId nameOf find? hasParameter names startsWith)

theorem map_eq_of_getElem? {α β γ : Type} {l : List α} {m : List β} {f : α → γ} {g : β → γ}
    (hlen : l.length = m.length) (h : ∀ (j : Nat) a b, l[j]? = some a → m[j]? = some b → f a = g b) : l.map f = m.map g := by
  apply List.ext_getElem?
  intro j
  simp only [List.getElem?_map]
  cases ha : l[j]? with
  | none =>
    have : m[j]? = none := by rw [List.getElem?_eq_none_iff] at ha ⊢; rw [← hlen]; exact ha
    rw [this]; rfl
  | some a =>
    have hj : j < m.length := hlen ▸ (List.getElem?_eq_some_iff.1 ha).1
    rw [List.getElem?_eq_getElem hj]
    simp only [Option.map_some]
    rw [h j a _ ha (List.getElem?_eq_getElem hj)]

theorem findIdx?_nodup {l : List ObjId} (nd : l.Nodup) {j : Nat} {a : ObjId} (h : l[j]? = some a) :
    l.findIdx? (fun x => x == a) = some j := by
  rw [List.findIdx?_eq_some_iff_getElem]
  obtain ⟨hj, e⟩ := List.getElem?_eq_some_iff.1 h
  refine ⟨hj, by simp [e], fun i hij => ?_⟩
  have hi : i < l.length := Nat.lt_trans hij hj
  simp only [beq_iff_eq, Bool.not_eq_true, beq_eq_false_iff_ne, ne_eq]
  intro e'
  have := (List.Nodup.getElem_inj_iff nd (hi := hi) (hj := hj)).1 (e'.trans e.symm)
  omega

/-- an object whose parameter objects and attached listeners are the same in `W` as in `w` looks the same -/
theorem svOf_congr {w W : World} {o : Obj} (hsub : ∀ i ∈ o.indep, i ∈ o.params)
    (hget : ∀ i ∈ o.params, W.heap.get i = w.heap.get i)
    (hid : ∀ i ∈ o.params, ∀ id, hasListener W i id = hasListener w i id) : svOf W o = svOf w o := by
  have hname : ∀ i ∈ o.params, nameOf W.heap i = nameOf w.heap i := fun i hi => by simp only [nameOf, hget i hi]
  have hshort : shortNames W o = shortNames w o := by
    simp only [shortNames]; exact List.map_congr_left (fun i hi => by rw [hname i hi])
  simp only [svOf, SV.mk.injEq, true_and]
  refine ⟨?_, ?_, ?_⟩
  · exact List.map_congr_left (fun i hi => by rw [hname i hi, hget i hi])
  · simp only [linksOf, hshort]
    apply List.flatMap_congr
    intro i hi
    rw [hname i hi]
    congr 1
    apply List.filter_congr
    intro y _
    exact hid i hi _
  · apply List.map_congr_left
    intro i hi
    rw [hname i (hsub i hi)]

/-- **the copy looks exactly like its source**: same namespace, same names / values / constraints in
the same order, same links, same independent list (names, order, and positions of the shared objects) -/
theorem svOf_copy {w W : World} {s d : Nat} {o : Obj} (hs : ObjInv w s o) (r : Rebuilt w s d o W) :
    svOf W (rebuiltObj w o r.cl r.reg') = svOf w o := by
  have hlen := r.len
  have hsame : ∀ (j : Nat) c i, r.cl[j]? = some c → o.params[j]? = some i → W.heap.get c = w.heap.get i := by
    intro j c i hc hi
    obtain ⟨c', hc', e⟩ := r.same j i hi
    rw [hc] at hc'; cases hc'; exact e
  have hname : ∀ (j : Nat) c i, r.cl[j]? = some c → o.params[j]? = some i → nameOf W.heap c = nameOf w.heap i :=
    fun j c i hc hi => by simp only [nameOf, hsame j c i hc hi]
  have hshort : shortNames W (rebuiltObj w o r.cl r.reg') = shortNames w o := by
    simp only [shortNames]
    exact map_eq_of_getElem? hlen (fun j c i hc hi => by rw [hname j c i hc hi])
  have hclnd : r.cl.Nodup := List.Nodup.of_map _ r.inv.nodup
  simp only [svOf, SV.mk.injEq, true_and]
  refine ⟨?_, ?_, ?_⟩
  · exact map_eq_of_getElem? hlen (fun j c i hc hi => by rw [hname j c i hc hi, hsame j c i hc hi])
  · simp only [linksOf, hshort, List.flatMap_def]
    congr 1
    refine map_eq_of_getElem? hlen (fun j c i hc hi => ?_)
    rw [hname j c i hc hi]
    congr 1
    apply List.filter_congr
    intro y _
    exact r.ids j i c hi hc _
  · simp only [List.map_map]
    apply List.map_congr_left
    intro i hi
    obtain ⟨j, hj⟩ := hs.exists_pos (hs.indepSub i hi)
    obtain ⟨c, hc, _⟩ := r.same j i hj
    have hcc : cloneOf w o i = c := by rw [cloneOf_pos hs hj, r.clPos j c hc]
    simp only [Function.comp, hcc]
    rw [hname j c i hc hj]
    have h1 : r.cl.findIdx? (fun x => x == c) = some j := findIdx?_nodup hclnd hc
    have h2 : o.params.findIdx? (fun x => x == i) = some j := findIdx?_nodup hs.idsNodup hj
    show (nameOf w.heap i, r.cl.findIdx? (fun x => x == c)) = (nameOf w.heap i, o.params.findIdx? (fun x => x == i))
    rw [h1, h2]

/-! ## Links seen from outside = registered links -/

theorem ObjInv.short {w : World} {k : Nat} {o : Obj} (h : ObjInv w k o) {i : ObjId} (hi : i ∈ o.params) :
    ∃ x, nameOf w.heap i = o.pre ++ x ∧ Plain x ∧ stripNs o.pre (nameOf w.heap i) = x := by
  obtain ⟨x, hx, px⟩ := h.plain i hi
  exact ⟨x, hx, px, by rw [hx, stripNs_append]⟩

theorem mem_shortNames {w : World} {k : Nat} {o : Obj} (h : ObjInv w k o) {y : String} :
    y ∈ shortNames w o ↔ ∃ t ∈ o.params, nameOf w.heap t = o.pre ++ y := by
  simp only [shortNames, List.mem_map]
  constructor
  · rintro ⟨t, ht, rfl⟩
    obtain ⟨x, hx, _, hs⟩ := h.short ht
    exact ⟨t, ht, by rw [hs]; exact hx⟩
  · rintro ⟨t, ht, hn⟩
    exact ⟨t, ht, by rw [hn, stripNs_append]⟩

/-- `(x, y)` is a visible link iff the listener id `__alias_y_to_x` is registered (for parameters
`x`, `y` of the object) -/
theorem mem_linksOf {w : World} {k : Nat} {o : Obj} (h : ObjInv w k o) {x y : String} :
    (x, y) ∈ linksOf w o ↔ x ∈ shortNames w o ∧ y ∈ shortNames w o ∧ aliasId x y ∈ o.reg.map Prod.fst := by
  simp only [linksOf, List.mem_flatMap, List.mem_map, List.mem_filter, Prod.mk.injEq]
  constructor
  · rintro ⟨i, hi, y', ⟨hy', hl⟩, hx, rfl⟩
    refine ⟨by rw [← hx]; exact List.mem_map.2 ⟨i, hi, rfl⟩, hy', ?_⟩
    simp only [hasListener, List.any_eq_true, beq_iff_eq] at hl
    obtain ⟨l, hl1, hl2⟩ := hl
    obtain ⟨hreg, _⟩ := h.lsnOk i hi l hl1
    rw [hl2, hx] at hreg
    exact ⟨_, hreg, rfl⟩
  · rintro ⟨hx, hy, e, he, hk⟩
    obtain ⟨sx, hsx, hsxn⟩ := (mem_shortNames h).1 hx
    obtain ⟨ty, hty, htyn⟩ := (mem_shortNames h).1 hy
    obtain ⟨_, r2, _, ⟨s, hs, hsn, hsl⟩, ⟨t, y', ht, htn, _, hid⟩⟩ := h.regOk e he
    have py : Plain y := by
      obtain ⟨z, hz, pz⟩ := h.plain ty hty
      have : z = y := append_left_cancel' (hz.symm.trans htyn)
      exact this ▸ pz
    have py' : Plain y' := by
      obtain ⟨z, hz, pz⟩ := h.plain t (List.mem_of_getElem? ht)
      have : z = y' := append_left_cancel' (hz.symm.trans htn)
      exact this ▸ pz
    obtain ⟨e1, e2⟩ := aliasId_inj py' py (hid.symm.trans hk)
    have hsx' : s = sx := h.name_inj hs hsx (by rw [hsn, e1, hsxn])
    subst hsx'
    refine ⟨s, hs, y, ⟨hy, ?_⟩, by rw [hsxn, stripNs_append], rfl⟩
    simp only [hasListener, List.any_eq_true, beq_iff_eq]
    refine ⟨e.2, hsl, ?_⟩
    rw [r2, hsxn, stripNs_append, hk]

end Bpp.Alias
