import BppProofs.Lemmas.Rand
import Mathlib.Algebra.BigOperators.Group.List.Basic
import Mathlib.Algebra.Order.BigOperators.Group.List
import Mathlib.Tactic.FieldSimp
import Mathlib.Tactic.Positivity
/-! Lemmas for C18 over the reals: each pick, as a function of the uniform draw, selects an
explicit interval; p-value range; parameter conventions of the sampler wrappers. -/
namespace Bpp.Rand
open Bpp

/-! `Scalar` arithmetic at ℝ is Mathlib's arithmetic -/
@[simp] theorem sadd (x y : ℝ) : @HAdd.hAdd ℝ ℝ ℝ (@instHAdd ℝ (Scalar.toAdd)) x y = x + y := rfl
@[simp] theorem ssub (x y : ℝ) : @HSub.hSub ℝ ℝ ℝ (@instHSub ℝ (Scalar.toSub)) x y = x - y := rfl
@[simp] theorem sdiv (x y : ℝ) : @HDiv.hDiv ℝ ℝ ℝ (@instHDiv ℝ (Scalar.toDiv)) x y = x / y := rfl
@[simp] theorem smul (x y : ℝ) : @HMul.hMul ℝ ℝ ℝ (@instHMul ℝ (Scalar.toMul)) x y = x * y := rfl

theorem cumSum_real (w : List ℝ) : cumSum w = cumSumFrom (0 : ℝ) w := by
  cases w with
  | nil => rfl
  | cons x xs => simp [cumSum, cumSumFrom]

theorem cumSumFrom_getLast (acc : ℝ) : ∀ (l : List ℝ) (h : cumSumFrom acc l ≠ []),
    (cumSumFrom acc l).getLast h = acc + l.sum
  | [], h => absurd rfl h
  | [y], _ => by simp [cumSumFrom]
  | y :: z :: zs, _ => by
    have := cumSumFrom_getLast (acc + y) (z :: zs) (by simp [cumSumFrom])
    simp only [cumSumFrom, sadd, List.sum_cons] at this ⊢
    rw [List.getLast_cons (by simp)]
    rw [this]; ring

theorem searchLt_ge (u : ℝ) : ∀ (l : List ℝ) (i0 i : Nat), searchLt u l i0 = some i → i0 ≤ i :=
  fun l i0 i h => (searchLt_bounds u l i0 i h).1

theorem searchLt_none_iff (u : ℝ) : ∀ (l : List ℝ) (i0 : Nat), searchLt u l i0 = none ↔ ∀ y ∈ l, y ≤ u
  | [], _ => by simp [searchLt]
  | s :: ss, i0 => by
    unfold searchLt
    by_cases h : u < s
    · simp [h]
    · simp only [ScalarReal.ltb_iff, h, if_false, searchLt_none_iff u ss (i0 + 1), List.mem_cons, forall_eq_or_imp]
      exact ⟨fun h' => ⟨not_lt.mp h, h'⟩, fun h' => h'.2⟩

/-- the search over the normalised cumulative sums, decomposed at the picked position -/
theorem searchLt_cum (u S : ℝ) (hS : 0 < S) (x : ℝ) (post : List ℝ) : ∀ (pre : List ℝ) (acc : ℝ) (i0 : Nat),
    (∀ y ∈ pre, 0 ≤ y) → acc / S ≤ u →
    (searchLt u ((cumSumFrom acc (pre ++ x :: post)).map (· / S)) i0 = some (i0 + pre.length) ↔
      (acc + pre.sum) / S ≤ u ∧ u < (acc + pre.sum + x) / S)
  | [], acc, i0, _, hacc => by
    simp only [List.nil_append, cumSumFrom, sadd, List.map_cons, searchLt, ScalarReal.ltb_iff, List.length_nil,
      List.sum_nil, add_zero]
    by_cases h : u < (acc + x) / S
    · simp [h, hacc]
    · simp only [h, if_false, and_false, iff_false]
      intro hh
      have := searchLt_ge u _ _ _ hh
      omega
  | y :: pre, acc, i0, hpre, hacc => by
    have hy : 0 ≤ y := hpre y List.mem_cons_self
    have hpre' : ∀ z ∈ pre, 0 ≤ z := fun z hz => hpre z (List.mem_cons_of_mem _ hz)
    have hps : 0 ≤ pre.sum := List.sum_nonneg hpre'
    simp only [List.cons_append, cumSumFrom, sadd, List.map_cons, searchLt, ScalarReal.ltb_iff, List.length_cons, List.sum_cons]
    by_cases h : u < (acc + y) / S
    · simp only [h, if_true, Option.some.injEq]
      constructor
      · intro hh; omega
      · rintro ⟨h1, _⟩
        have : (acc + y) / S ≤ (acc + (y + pre.sum)) / S := by
          apply div_le_div_of_nonneg_right _ hS.le; linarith
        linarith
    · simp only [h, if_false]
      have ih := searchLt_cum u S hS x post pre (acc + y) (i0 + 1) hpre' (not_lt.mp h)
      have e : i0 + (pre.length + 1) = i0 + 1 + pre.length := by omega
      rw [e, ih]
      have e2 : acc + y + pre.sum = acc + (y + pre.sum) := by ring
      rw [e2]

/-- `weighted_pick_law`, index form -/
theorem weightedIndex_law (pre : List ℝ) (x : ℝ) (post : List ℝ) (u : ℝ)
    (hw : ∀ y ∈ pre ++ x :: post, 0 ≤ y) (hS : 0 < (pre ++ x :: post).sum) (hu0 : 0 ≤ u) (hu1 : u < 1) :
    weightedIndex (pre ++ x :: post).length (pre ++ x :: post) u = .ok pre.length ↔
      pre.sum / (pre ++ x :: post).sum ≤ u ∧ u < (pre.sum + x) / (pre ++ x :: post).sum := by
  set w := pre ++ x :: post with hwdef
  set S := w.sum with hSdef
  have hcne : cumSum w ≠ [] := by
    intro h; have := cumSum_length w; rw [h] at this; simp [hwdef] at this
  have hlast : (cumSum w).getLast hcne = S := by
    have h2 : cumSumFrom (0 : ℝ) w ≠ [] := by rw [← cumSum_real]; exact hcne
    have := cumSumFrom_getLast 0 w h2
    simp only [zero_add] at this
    simp only [cumSum_real, this, hSdef]
  have hpre : ∀ y ∈ pre, 0 ≤ y := fun y hy => hw y (List.mem_append_left _ hy)
  have key := searchLt_cum u S hS x post pre 0 0 hpre (by simpa using hu0)
  simp only [zero_add] at key
  have hwi : weightedIndex w.length w u = weightedPos w.length ((cumSum w).map (· / S)) u := by
    simp only [weightedIndex, normalize_ok hcne, hlast]
  have htake : List.take w.length ((cumSum w).map (· / S)) = (cumSumFrom (0:ℝ) w).map (· / S) := by
    rw [List.take_of_length_le (by simp [cumSum_length]), cumSum_real]
  rw [hwi]
  unfold weightedPos
  rw [htake]
  cases hs : searchLt u ((cumSumFrom (0:ℝ) w).map (· / S)) 0 with
  | some i =>
    simp only [Except.ok.injEq]
    rw [← key, hs]
    simp
  | none =>
    exfalso
    have hall := (searchLt_none_iff u _ 0).mp hs
    have h2 : cumSumFrom (0 : ℝ) w ≠ [] := by rw [← cumSum_real]; exact hcne
    have hmem : (cumSumFrom (0:ℝ) w).getLast h2 / S ∈ (cumSumFrom (0:ℝ) w).map (· / S) :=
      List.mem_map.mpr ⟨_, List.getLast_mem h2, rfl⟩
    have := hall _ hmem
    rw [cumSumFrom_getLast, zero_add, div_self hS.ne'] at this
    linarith
/-! ### pickFromCumSum -/
theorem searchLe_ge (u : ℝ) : ∀ (l : List ℝ) (i0 i : Nat), searchLe u l i0 = some i → i0 ≤ i ∧ i < i0 + l.length
  | [], _, _, h => by cases h
  | s :: ss, i0, i, h => by
    unfold searchLe at h
    split at h
    · simp only [Option.some.injEq] at h; subst h; simp
    · have := searchLe_ge u ss (i0 + 1) i h
      simp only [List.length_cons]; omega

theorem searchLe_none_iff (u : ℝ) : ∀ (l : List ℝ) (i0 : Nat), searchLe u l i0 = none ↔ ∀ y ∈ l, y < u
  | [], _ => by simp [searchLe]
  | s :: ss, i0 => by
    unfold searchLe
    by_cases h : u ≤ s
    · simp [h]
    · simp only [ScalarReal.leb_iff, h, if_false, searchLe_none_iff u ss (i0 + 1), List.mem_cons, forall_eq_or_imp]
      exact ⟨fun h' => ⟨not_le.mp h, h'⟩, fun h' => h'.2⟩

theorem searchLe_decomp (u x : ℝ) (post : List ℝ) : ∀ (pre : List ℝ) (i0 : Nat),
    searchLe u (pre ++ x :: post) i0 = some (i0 + pre.length) ↔ (∀ y ∈ pre, y < u) ∧ u ≤ x
  | [], i0 => by
    simp only [List.nil_append, searchLe, ScalarReal.leb_iff, List.length_nil, Nat.add_zero]
    by_cases h : u ≤ x
    · simp [h]
    · simp only [h, if_false, and_false, iff_false]
      intro hh; have := searchLe_ge u _ _ _ hh; omega
  | y :: pre, i0 => by
    simp only [List.cons_append, searchLe, ScalarReal.leb_iff, List.length_cons, List.mem_cons, forall_eq_or_imp]
    by_cases h : u ≤ y
    · simp only [h, if_true, Option.some.injEq]
      constructor
      · intro hh; omega
      · rintro ⟨⟨h1, _⟩, _⟩; linarith
    · simp only [h, if_false]
      have ih := searchLe_decomp u x post pre (i0 + 1)
      have e : i0 + (pre.length + 1) = i0 + 1 + pre.length := by omega
      rw [e, ih]
      exact ⟨fun h' => ⟨⟨not_le.mp h, h'.1⟩, h'.2⟩, fun h' => ⟨h'.1.2, h'.2⟩⟩

/-- `pickFromCumSum` on `c = pre ++ x :: post` returns the position of `x` iff every earlier entry
is `< u` and (`x` is the last entry or `u ≤ x`) -/
theorem pickFromCumSum_decomp (pre : List ℝ) (x : ℝ) (post : List ℝ) (u : ℝ) :
    pickFromCumSum (pre ++ x :: post) u = .ok pre.length ↔ (∀ y ∈ pre, y < u) ∧ (post = [] ∨ u ≤ x) := by
  have hne : (pre ++ x :: post).isEmpty = false := by simp
  unfold pickFromCumSum
  simp only [hne, Bool.false_eq_true, if_false]
  cases post using List.reverseRecOn with
  | nil =>
    -- x is the last entry: the loop runs over `pre` only
    have hd : (pre ++ [x]).dropLast = pre := List.dropLast_concat
    rw [hd]
    cases hs : searchLe u pre 0 with
    | none =>
      have := (searchLe_none_iff u pre 0).mp hs
      simpa using this
    | some i =>
      have hb := searchLe_ge u pre 0 i hs
      simp only [Except.ok.injEq, true_or, and_true]
      constructor
      · intro hi; omega
      · intro hall
        have := (searchLe_none_iff u pre 0).mpr hall
        rw [this] at hs; cases hs
  | append_singleton post' z _ =>
    have hd : (pre ++ x :: (post' ++ [z])).dropLast = pre ++ x :: post' := by
      rw [show pre ++ x :: (post' ++ [z]) = (pre ++ x :: post') ++ [z] by simp, List.dropLast_concat]
    rw [hd]
    have key := searchLe_decomp u x post' pre 0
    simp only [Nat.zero_add] at key
    have hpne : post' ++ [z] ≠ [] := by simp
    simp only [hpne, false_or]
    cases hs : searchLe u (pre ++ x :: post') 0 with
    | some i =>
      simp only [Except.ok.injEq]
      rw [← key, hs]; simp
    | none =>
      have hall := (searchLe_none_iff u _ 0).mp hs
      simp only [Except.ok.injEq, List.length_append, List.length_cons]
      constructor
      · intro hi; omega
      · rintro ⟨_, hx⟩
        have := hall x (by simp)
        linarith

/-! ### multinomial / discrete draw: inverse cdf with a running sum -/
theorem invCdf_ge (s r : ℝ) : ∀ (ps : List ℝ) (cum : ℝ) (j i : Nat), invCdf s r cum ps j = some i → j ≤ i ∧ i < j + ps.length
  | [], _, _, _, h => by cases h
  | p :: ps, cum, j, i, h => by
    unfold invCdf at h
    dsimp only at h
    split at h
    · simp only [Option.some.injEq] at h; subst h; simp
    · have := invCdf_ge s r ps _ (j + 1) i h
      simp only [List.length_cons]; omega

theorem invCdf_decomp (s r : ℝ) (hs : 0 < s) (x : ℝ) (post : List ℝ) : ∀ (pre : List ℝ) (cum : ℝ) (j : Nat),
    (∀ y ∈ pre, 0 ≤ y) →
    (invCdf s r cum (pre ++ x :: post) j = some (j + pre.length) ↔
      (pre = [] ∨ cum + pre.sum / s < r) ∧ r ≤ cum + (pre.sum + x) / s)
  | [], cum, j, _ => by
    simp only [List.nil_append, invCdf, sadd, sdiv, ScalarReal.leb_iff, List.length_nil, Nat.add_zero, List.sum_nil, zero_add, true_or, true_and]
    by_cases h : r ≤ cum + x / s
    · simp [h]
    · simp only [h, if_false, iff_false]
      intro hh; have := invCdf_ge s r _ _ _ _ hh; omega
  | y :: pre, cum, j, hpre => by
    have hy : 0 ≤ y := hpre y List.mem_cons_self
    have hpre' : ∀ z ∈ pre, 0 ≤ z := fun z hz => hpre z (List.mem_cons_of_mem _ hz)
    have hps : 0 ≤ pre.sum := List.sum_nonneg hpre'
    simp only [List.cons_append, invCdf, sadd, sdiv, ScalarReal.leb_iff, List.length_cons, List.sum_cons, reduceCtorEq, false_or]
    by_cases h : r ≤ cum + y / s
    · simp only [h, if_true, Option.some.injEq]
      constructor
      · intro hh; omega
      · rintro ⟨h1, _⟩
        have : y / s ≤ (y + pre.sum) / s := by
          apply div_le_div_of_nonneg_right _ hs.le; linarith
        linarith
    · simp only [h, if_false]
      have ih := invCdf_decomp s r hs x post pre (cum + y / s) (j + 1) hpre'
      have e : j + (pre.length + 1) = j + 1 + pre.length := by omega
      rw [e, ih]
      have e1 : cum + y / s + pre.sum / s = cum + (y + pre.sum) / s := by rw [add_div]; ring
      have e2 : cum + y / s + (pre.sum + x) / s = cum + (y + pre.sum + x) / s := by rw [add_div, add_div, add_div]; ring
      rw [e1, e2]
      constructor
      · rintro ⟨h1, h2⟩
        refine ⟨?_, h2⟩
        rcases h1 with rfl | h1
        · simpa using not_le.mp h
        · exact h1
      · rintro ⟨h1, h2⟩
        exact ⟨Or.inr h1, h2⟩

theorem invCdf_none_total (s r : ℝ) : ∀ (ps : List ℝ) (cum : ℝ) (j : Nat),
    invCdf s r cum ps j = none → ps ≠ [] → cum + ps.sum / s < r
  | [], _, _, _, h => absurd rfl h
  | p :: ps, cum, j, h, _ => by
    unfold invCdf at h
    dsimp only at h
    split at h
    · cases h
    · rename_i hle
      simp only [sadd, sdiv, ScalarReal.leb_iff, not_le] at hle
      by_cases hps : ps = []
      · subst hps; simpa using hle
      · have := invCdf_none_total s r ps _ (j + 1) h hps
        simp only [sadd, sdiv] at this
        rw [List.sum_cons, add_div]; linarith

theorem sumFromZero_real (l : List ℝ) : sumFromZero l = l.sum := by
  unfold sumFromZero
  have : ∀ (acc : ℝ), List.foldl (fun x1 x2 => x1 + x2) acc l = acc + l.sum := by
    induction l with
    | nil => intro acc; simp
    | cons y ys ih => intro acc; simp only [List.foldl_cons, List.sum_cons]; rw [ih]; ring
  simpa using this 0

/-- `multinomialState` on `probs = pre ++ x :: post` -/
theorem multinomialState_decomp (pre : List ℝ) (x : ℝ) (post : List ℝ) (r : ℝ)
    (hw : ∀ y ∈ pre ++ x :: post, 0 ≤ y) (hS : 0 < (pre ++ x :: post).sum) :
    multinomialState (pre ++ x :: post) r = pre.length ↔
      (pre = [] ∨ pre.sum / (pre ++ x :: post).sum < r) ∧ r ≤ (pre.sum + x) / (pre ++ x :: post).sum := by
  have hpre : ∀ y ∈ pre, 0 ≤ y := fun y hy => hw y (List.mem_append_left _ hy)
  have key := invCdf_decomp (pre ++ x :: post).sum r hS x post pre 0 0 hpre
  simp only [zero_add] at key
  unfold multinomialState
  rw [sumFromZero_real]
  simp only [ScalarReal.ofInt_eq, Int.cast_zero]
  cases hs : invCdf (pre ++ x :: post).sum r 0 (pre ++ x :: post) 0 with
  | some i => rw [← key, hs]; simp
  | none =>
    rw [← key, hs]
    simp only [List.length_append, List.length_cons, reduceCtorEq, iff_false]
    omega

/-- with `r ≤ 1` (and positive total, non-negative entries) a state is always found -/
theorem multinomialState_lt (probs : List ℝ) (r : ℝ) (hw : ∀ y ∈ probs, 0 ≤ y) (hS : 0 < probs.sum) (hr : r ≤ 1) :
    multinomialState probs r < probs.length := by
  unfold multinomialState
  rw [sumFromZero_real]
  simp only [ScalarReal.ofInt_eq, Int.cast_zero]
  cases hs : invCdf probs.sum r 0 probs 0 with
  | some i => have := invCdf_ge _ _ _ _ _ _ hs; simpa using this.2
  | none =>
    exfalso
    have hne : probs ≠ [] := by intro h; subst h; simp at hS
    have := invCdf_none_total probs.sum r probs 0 0 hs hne
    rw [zero_add, div_self hS.ne'] at this
    linarith
section Generic
variable {α : Type} [Scalar α]

theorem invCdf_bounds (s r : α) : ∀ (ps : List α) (cum : α) (j i : Nat), invCdf s r cum ps j = some i → j ≤ i ∧ i < j + ps.length
  | [], _, _, _, h => by cases h
  | p :: ps, cum, j, i, h => by
    unfold invCdf at h
    dsimp only at h
    split at h
    · simp only [Option.some.injEq] at h; subst h; simp
    · have := invCdf_bounds s r ps _ (j + 1) i h
      simp only [List.length_cons]; omega

theorem multinomialState_le (probs : List α) (r : α) : multinomialState probs r ≤ probs.length := by
  unfold multinomialState
  cases h : invCdf (sumFromZero probs) r (Scalar.ofInt 0) probs 0 with
  | none => simp
  | some i => have := invCdf_bounds _ _ _ _ _ _ h; simp only; omega

theorem multinomialLoop_eq (probs : List α) : ∀ (n : Nat) (draws : List α), n ≤ draws.length →
    multinomialLoop probs n draws = .ok ((draws.take n).map (multinomialState probs))
  | 0, _, _ => by simp [multinomialLoop]
  | n + 1, [], h => by simp at h
  | n + 1, r :: rs, h => by
    have := multinomialLoop_eq probs n rs (by simpa using h)
    simp [multinomialLoop, this]

theorem multinomialLoop_starved (probs : List α) : ∀ (n : Nat) (draws : List α), draws.length < n →
    multinomialLoop probs n draws = .error .starved
  | 0, _, h => by simp at h
  | n + 1, [], _ => by simp [multinomialLoop]
  | n + 1, r :: rs, h => by
    have := multinomialLoop_starved probs n rs (by simpa using h)
    simp [multinomialLoop, this]

theorem randMultinomial_eq (probs : List α) (n : Nat) (draws : List α) (hok : multinomialRaises probs n = false)
    (h : n ≤ draws.length) : randMultinomial probs n draws = .ok ((draws.take n).map (multinomialState probs)) := by
  simp only [randMultinomial, hok, Bool.false_eq_true, if_false, multinomialLoop_eq probs n draws h]
end Generic

theorem sum_indicator_zero (a : Nat) : ∀ (k : Nat), k ≤ a → ((List.range k).map (fun j => if a = j then 1 else 0)).sum = 0
  | 0, _ => by simp
  | k + 1, h => by
    rw [List.range_succ, List.map_append, List.sum_append, sum_indicator_zero a k (by omega)]
    have : a ≠ k := by omega
    simp [this]

theorem sum_indicator_one (a : Nat) : ∀ (k : Nat), a < k → ((List.range k).map (fun j => if a = j then 1 else 0)).sum = 1
  | 0, h => by omega
  | k + 1, h => by
    rw [List.range_succ, List.map_append, List.sum_append]
    by_cases hk : a = k
    · subst hk; rw [sum_indicator_zero a a (le_refl _)]; simp
    · rw [sum_indicator_one a k (by omega)]; simp [hk]

/-- the histogram over the states `0..k` of a list of states `≤ k` adds up to its length -/
theorem counts_sum (k : Nat) : ∀ (states : List Nat), (∀ s ∈ states, s ≤ k) → (counts k states).sum = states.length
  | [], _ => by simp [counts]
  | a :: l, h => by
    have ih := counts_sum k l (fun s hs => h s (List.mem_cons_of_mem _ hs))
    have ha : a < k + 1 := Nat.lt_succ_of_le (h a List.mem_cons_self)
    unfold counts at ih ⊢
    have : (List.range (k + 1)).map (fun j => List.count j (a :: l))
        = (List.range (k + 1)).map (fun j => List.count j l + (if a = j then 1 else 0)) := by
      apply List.map_congr_left; intro j _
      rw [List.count_cons]; simp only [beq_iff_eq]
    rw [this, List.sum_map_add, ih, sum_indicator_one a (k + 1) ha]
    simp
/-! ### discrete draw of a distribution -/
theorem dRandFrom_mem (r : ℝ) : ∀ (dist : List (ℝ × ℝ)) (cum : ℝ), dist ≠ [] →
    r ≤ cum + (dist.map (·.2)).sum → dRandFrom r cum dist ∈ dist.map (·.1)
  | [], _, h, _ => absurd rfl h
  | (c, p) :: rest, cum, _, hr => by
    unfold dRandFrom
    dsimp only
    by_cases h : r ≤ cum + p
    · simp [h]
    · simp only [sadd, ScalarReal.leb_iff, h, if_false, List.map_cons, List.mem_cons]
      right
      have hrest : rest ≠ [] := by
        intro h0; subst h0; simp at hr; exact h hr
      apply dRandFrom_mem r rest (cum + p) hrest
      simp only [List.map_cons, List.sum_cons] at hr
      linarith

theorem dRandFrom_decomp (r : ℝ) (c p : ℝ) (post : List (ℝ × ℝ)) : ∀ (pre : List (ℝ × ℝ)) (cum : ℝ),
    (∀ y ∈ pre, 0 ≤ y.2) → (pre = [] ∨ cum + (pre.map (·.2)).sum < r) → r ≤ cum + (pre.map (·.2)).sum + p →
    dRandFrom r cum (pre ++ (c, p) :: post) = c
  | [], cum, _, _, hr => by
    simp only [List.map_nil, List.sum_nil, add_zero] at hr
    simp [dRandFrom, hr]
  | (c', p') :: pre, cum, hpre, hlo, hr => by
    have hp' : 0 ≤ p' := hpre (c', p') List.mem_cons_self
    have hpre' : ∀ y ∈ pre, 0 ≤ y.2 := fun y hy => hpre y (List.mem_cons_of_mem _ hy)
    have hs : 0 ≤ (pre.map (·.2)).sum := List.sum_nonneg (by
      intro x hx; obtain ⟨y, hy, rfl⟩ := List.mem_map.mp hx; exact hpre' y hy)
    simp only [List.map_cons, List.sum_cons, reduceCtorEq, false_or] at hlo hr
    have h : ¬ r ≤ cum + p' := by linarith
    simp only [List.cons_append, dRandFrom, sadd, ScalarReal.leb_iff, h, if_false]
    apply dRandFrom_decomp r c p post pre (cum + p') hpre'
    · by_cases hp : pre = []
      · exact Or.inl hp
      · right; linarith
    · linarith

/-! ### permutation p-value -/
theorem countGe_le (stat : ℝ) (sims : List ℝ) : countGe stat sims ≤ sims.length := by
  unfold countGe; exact List.length_filter_le _ _

theorem pvalueOfCount_range (count nb : Nat) (h : count ≤ nb) :
    0 < (pvalueOfCount count nb : ℝ) ∧ (pvalueOfCount count nb : ℝ) ≤ 1 := by
  unfold pvalueOfCount
  simp only [ScalarReal.ofInt_eq, sdiv]
  have h1 : (0 : ℝ) < ((((count + 1 : Nat) : Int)) : ℝ) := by push_cast; positivity
  have h2 : (0 : ℝ) < ((((nb + 1 : Nat) : Int)) : ℝ) := by push_cast; positivity
  refine ⟨div_pos h1 h2, ?_⟩
  rw [div_le_one h2]
  push_cast
  have : (count : ℝ) ≤ nb := by exact_mod_cast h
  linarith

/-! ### parameter conventions of the sampler wrappers -/
noncomputable def Expr.eval (ρ : String → ℝ) : Expr → ℝ
  | .var n => ρ n
  | .lit n d => (n : ℝ) / (d : ℝ)
  | .sqrt e => Real.sqrt (Expr.eval ρ e)
  | .add a b => Expr.eval ρ a + Expr.eval ρ b
  | .sub a b => Expr.eval ρ a - Expr.eval ρ b
  | .mul a b => Expr.eval ρ a * Expr.eval ρ b
  | .div a b => Expr.eval ρ a / Expr.eval ρ b

theorem Expr.eval_norm (ρ : String → ℝ) (hρ : ∀ n ∈ nonnegParams, 0 ≤ ρ n) : ∀ (e : Expr), Expr.eval ρ (Expr.norm e) = Expr.eval ρ e
  | .var _ => rfl
  | .lit _ _ => rfl
  | .sqrt a => by simp only [Expr.norm, Expr.eval, Expr.eval_norm ρ hρ a]
  | .sub a b => by simp only [Expr.norm, Expr.eval, Expr.eval_norm ρ hρ a, Expr.eval_norm ρ hρ b]
  | .add a b => by
    have ha := Expr.eval_norm ρ hρ a
    have hb := Expr.eval_norm ρ hρ b
    unfold Expr.norm
    split
    · rename_i ha'
      rw [ha'] at ha
      simp only [Expr.eval] at ha ⊢
      rw [← ha, hb]; simp
    · rename_i hb' _
      rw [hb'] at hb
      simp only [Expr.eval] at hb ⊢
      rw [← hb, ha]; simp
    · rename_i x y ha' _
      rw [ha'] at ha
      split
      · rename_i hy
        simp only [Expr.eval] at ha ⊢
        rw [← ha, ← hb, ← hy]; ring
      · simp only [Expr.eval] at ha ⊢
        rw [ha, hb]
    · simp only [Expr.eval, ha, hb]
  | .mul a b => by
    have ha := Expr.eval_norm ρ hρ a
    have hb := Expr.eval_norm ρ hρ b
    unfold Expr.norm
    split
    · rename_i x y hx hy
      rw [hx] at ha; rw [hy] at hb
      simp only [Expr.eval] at ha hb ⊢
      split
      · rename_i hxy
        obtain ⟨hxy, hmem⟩ := hxy
        subst hxy
        rw [← ha, ← hb]; simp only [Expr.eval]
        exact (Real.mul_self_sqrt (hρ x hmem)).symm
      · simp only [Expr.eval]; rw [ha, hb]
    · simp only [Expr.eval, ha, hb]
  | .div a b => by
    have ha := Expr.eval_norm ρ hρ a
    have hb := Expr.eval_norm ρ hρ b
    unfold Expr.norm
    split
    · rename_i a' hb'
      rw [hb'] at hb
      simp only [Expr.eval] at hb ⊢
      rw [← hb, ha]; simp
    · rename_i y ha' hb'
      rw [ha'] at ha; rw [hb'] at hb
      simp only [Expr.eval] at ha hb ⊢
      rw [← ha, ← hb]; simp
    · simp only [Expr.eval, ha, hb]

/-- a law with real parameters in the canonical parametrisation: that of `loc + X`, `X ~ fam params` -/
structure Law where
  fam : LawFam
  params : List ℝ
  loc : ℝ

noncomputable def LawS.eval (ρ : String → ℝ) (l : LawS) : Law := ⟨l.fam, l.params.map (Expr.eval ρ), Expr.eval ρ l.loc⟩

theorem LawS.eval_norm (ρ : String → ℝ) (hρ : ∀ n ∈ nonnegParams, 0 ≤ ρ n) (l : LawS) : l.norm.eval ρ = l.eval ρ := by
  unfold LawS.norm LawS.eval
  simp only [List.map_map, Law.mk.injEq, true_and]
  refine ⟨?_, Expr.eval_norm ρ hρ l.loc⟩
  apply List.map_congr_left
  intro e _
  exact Expr.eval_norm ρ hρ e

theorem law_eq_of_norm_eq {a b : LawS} (h : a.norm = b.norm) (ρ : String → ℝ) (hρ : ∀ n ∈ nonnegParams, 0 ≤ ρ n) :
    a.eval ρ = b.eval ρ := by
  rw [← LawS.eval_norm ρ hρ a, ← LawS.eval_norm ρ hρ b, h]

theorem wrapperOk_sound {w : Wrapper} (h : wrapperOk w = true) :
    ∃ a b, stdLawS w.family w.args = some a ∧ libLawS w.name = some b ∧
      ∀ ρ : String → ℝ, (∀ n ∈ nonnegParams, 0 ≤ ρ n) → a.eval ρ = b.eval ρ := by
  unfold wrapperOk at h
  split at h
  · rename_i a b ha hb
    exact ⟨a, b, ha, hb, law_eq_of_norm_eq (of_decide_eq_true h)⟩
  · cases h

theorem randCOk_sound {ws : List Wrapper} {r : RandC} (h : randCOk ws r = true) :
    ∃ a b, randCLawS ws r = some a ∧ distLawS r.dist = some b ∧
      ∀ ρ : String → ℝ, (∀ n ∈ nonnegParams, 0 ≤ ρ n) → a.eval ρ = b.eval ρ := by
  unfold randCOk at h
  split at h
  · rename_i a b ha hb
    exact ⟨a, b, ha, hb, law_eq_of_norm_eq (of_decide_eq_true h)⟩
  · cases h

theorem wrappers_all_ok : Generated.wrappers.all wrapperOk = true := by decide
theorem randCs_all_ok : Generated.randCs.all (randCOk Generated.wrappers) = true := by decide
/-! ### hidden Markov chain sampling -/
theorem subtractSearch_ge (u : ℝ) : ∀ (l : List ℝ) (i0 i : Nat), subtractSearch u l i0 = some i → i0 ≤ i ∧ i < i0 + l.length
  | [], _, _, h => by cases h
  | p :: ps, i0, i, h => by
    unfold subtractSearch at h
    dsimp only at h
    split at h
    · simp only [Option.some.injEq] at h; subst h; simp
    · have := subtractSearch_ge _ ps (i0 + 1) i h
      simp only [List.length_cons]; omega

theorem subtractSearch_none : ∀ (l : List ℝ) (u : ℝ) (i0 : Nat), 0 ≤ u → subtractSearch u l i0 = none → l.sum ≤ u
  | [], _, _, hu, _ => by simpa using hu
  | p :: ps, u, i0, _, h => by
    unfold subtractSearch at h
    dsimp only at h
    split at h
    · cases h
    · rename_i hlt
      simp only [ssub, ScalarReal.ofInt_eq, Int.cast_zero, ScalarReal.ltb_iff, not_lt] at hlt
      have := subtractSearch_none ps _ (i0 + 1) hlt h
      rw [List.sum_cons]; linarith

theorem subtractSearch_decomp (x : ℝ) (post : List ℝ) : ∀ (pre : List ℝ) (u : ℝ) (i0 : Nat),
    (∀ y ∈ pre, 0 ≤ y) → 0 ≤ u →
    (subtractSearch u (pre ++ x :: post) i0 = some (i0 + pre.length) ↔ pre.sum ≤ u ∧ u < pre.sum + x)
  | [], u, i0, _, hu => by
    simp only [List.nil_append, subtractSearch, ssub, ScalarReal.ofInt_eq, Int.cast_zero, ScalarReal.ltb_iff,
      List.length_nil, Nat.add_zero, List.sum_nil, zero_add]
    by_cases h : u - x < 0
    · simp only [h, if_true, true_iff]; exact ⟨hu, by linarith⟩
    · simp only [h, if_false]
      constructor
      · intro hh; have := subtractSearch_ge _ _ _ _ hh; omega
      · rintro ⟨_, h2⟩; exact absurd (by linarith) h
  | y :: pre, u, i0, hpre, hu => by
    have hy : 0 ≤ y := hpre y List.mem_cons_self
    have hpre' : ∀ z ∈ pre, 0 ≤ z := fun z hz => hpre z (List.mem_cons_of_mem _ hz)
    have hps : 0 ≤ pre.sum := List.sum_nonneg hpre'
    simp only [List.cons_append, subtractSearch, ssub, ScalarReal.ofInt_eq, Int.cast_zero, ScalarReal.ltb_iff,
      List.length_cons, List.sum_cons]
    by_cases h : u - y < 0
    · simp only [h, if_true, Option.some.injEq]
      constructor
      · intro hh; omega
      · rintro ⟨h1, _⟩; linarith
    · simp only [h, if_false]
      have ih := subtractSearch_decomp x post pre (u - y) (i0 + 1) hpre' (by linarith)
      have e : i0 + (pre.length + 1) = i0 + 1 + pre.length := by omega
      rw [e, ih]
      constructor
      · rintro ⟨h1, h2⟩; exact ⟨by linarith, by linarith⟩
      · rintro ⟨h1, h2⟩; exact ⟨by linarith, by linarith⟩

/-- a probability row (non-negative, sum 1) and a draw `u < 1`: a state is always found -/
theorem hmmState_defined (p : List ℝ) (u : ℝ) (hs : p.sum = 1) (hu0 : 0 ≤ u) (hu : u < 1) (dflt : Option Nat) :
    ∃ i, hmmState p u dflt = .ok i ∧ i < p.length := by
  unfold hmmState
  cases h : subtractSearch u p 0 with
  | some i => exact ⟨i, rfl, by have := subtractSearch_ge u p 0 i h; omega⟩
  | none => have := subtractSearch_none p u 0 hu0 h; linarith
end Bpp.Rand
