import BppProofs.Lemmas.NumDerivRaise
/-!
C12 helper lemmas, part 13 (round 2): the remaining fall-back paths, end to end — five-point backward
and forward one-sided formulas, two-point right-hand probe, halved-step retries of the two- and
three-point schemes.  Situation: one selected variable, passed with a constraint (`qv`, precision 0)
that refuses some probes; no constraint on the wrapped function's side (`FreeFn`), `|f| < VERY_BIG`
at the base point and on the probed segments (`BoundedNear`; two- and three-point schemes only).
-/
namespace Bpp.NumDeriv
open Bpp Bpp.Scalar

/-! ### five-point probes -/

/-- a five-point probe accepted by the constraint of the probed parameter (`p` keeps its tail) -/
theorem probe5_ok (f : List ℝ → ℝ) {params B : PList ℝ} (hF : FreeFn f params B) {var : Name} {fn : Fn ℝ}
    (q0 : Param ℝ) (rest : PList ℝ) (h : RI f params B var fn (q0 :: rest)) (hprec : q0.prec = 0) (x : ℝ)
    (hacc : q0.violates x = false) :
    ∃ fn', probe5 f fn (q0 :: rest) x = (fn', { q0 with value := x } :: rest, some (f (values (upd1 B var x)))) ∧
      RI f params B var fn' ({ q0 with value := x } :: rest) := by
  obtain ⟨hok, q0', rest', hp, hq0, hnd, hrest, hlen, hD⟩ := h
  injection hp with hp1 hp2
  subst hp1; subst hp2
  have hc := hF.ctx
  unfold probe5
  simp only []
  rw [setValue_ok q0 x hprec hacc]
  simp only []
  have hnd' : (names ({ q0 with value := x } :: rest)).Nodup := by
    rw [names_cons]; rw [names_cons] at hnd; exact hnd
  have hav : anyViolation fn.params ({ q0 with value := x } :: rest) = false :=
    anyViolation_nocon _ _ (hD.nocon hF.nocon)
  obtain ⟨fired, heq, hnf⟩ := setParameters_eq f fn ({ q0 with value := x } :: rest) (hc.own hD) hnd' hav
  have hupd : updL ({ q0 with value := x } :: rest) fn.params = upd1 B var x :=
    updL_dev_eq hc var { q0 with value := x } rest hq0 hrest hD
  rw [heq, hupd]
  have hDnew : Dev B (upd1 B var x) (fun n => n = var ∨ n ∈ names rest) :=
    (dev_upd1 B var x).mono (fun n hn => Or.inl hn)
  cases fired with
  | true =>
    simp only [if_true]
    have hOK : ((fn.withParams (upd1 B var x)).fire f).OK f := fire_OK f _
    exact ⟨_, rfl, hOK, _, rest, rfl, hq0, hnd', hrest, hlen, hDnew⟩
  | false =>
    simp only [Bool.false_eq_true, if_false]
    have hsame := hnf rfl
    rw [hupd] at hsame
    have hOK : (fn.withParams (upd1 B var x)).OK f := by
      unfold Fn.OK; rw [withParams_params, hsame]; exact hok
    refine ⟨_, ?_, hOK, _, rest, rfl, hq0, hnd', hrest, hlen, hDnew⟩
    have : (fn.withParams (upd1 B var x)).fval = f (values (upd1 B var x)) := hOK
    rw [this]

/-- a five-point probe refused by the constraint of the probed parameter: nothing happens -/
theorem probe5_refused (f : List ℝ → ℝ) (fn : Fn ℝ) (q0 : Param ℝ) (rest : PList ℝ) (x : ℝ)
    (hprec : q0.prec = 0) (hne : x ≠ q0.value) (hrej : q0.violates x = true) :
    probe5 f fn (q0 :: rest) x = (fn, q0 :: rest, none) := by
  unfold probe5
  simp only []
  have : q0.setValue x = .error .constraint := by
    unfold Param.setValue
    have hg : gtb (Scalar.abs (x - q0.value)) (q0.prec / ofInt 2) = true := by
      rw [ScalarReal.gtb_iff, hprec]; simp; exact sub_ne_zero.mpr hne
    rw [if_pos hg, hrej]; rfl
  rw [this]

/-- the sub-list of a five-point iteration: the passed parameter first -/
theorem sub5_shape (f : List ℝ → ℝ) {params B : PList ℝ} {w0 : W ℝ} {slot : W ℝ → ℝ} {lp : Loop ℝ}
    (hLI : LI f params B w0 slot lp) (var : Name) (qv : Param ℝ) (hqv : find? params var = some qv)
    (hlast : lp.lastVar ≠ some var) :
    ∃ rest, subNames params (match lp.lastVar with
      | none => [var]
      | some l => [var, l]) = .ok (qv :: rest) := by
  obtain ⟨_, _, hl, _, _⟩ := hLI
  cases hlv : lp.lastVar with
  | none => exact ⟨[], subNames_one params var qv hqv⟩
  | some l =>
    obtain ⟨ql, hql⟩ : ∃ ql, find? params l = some ql := by
      cases hf : find? params l with
      | none => exact absurd ((has_iff params l).mp (hl l hlv)) (find?_none hf)
      | some q => exact ⟨q, rfl⟩
    exact ⟨[ql], subNames_two params var l qv ql hqv hql (fun e => hlast (by rw [hlv, e]))⟩

/-- backward branch: `x - 2H` accepted, `x + 2H` refused, `x - H` accepted -/
theorem probes5_backward (f : List ℝ → ℝ) {params B : PList ℝ} (hF : FreeFn f params B) {var : Name} {fn : Fn ℝ}
    (qv : Param ℝ) (rest : PList ℝ) (hri : RI f params B var fn (qv :: rest)) (hprec : qv.prec = 0)
    (x H f3 : ℝ) (hH : H ≠ 0)
    (hacc2 : qv.violates (x - ofInt 2 * H) = false) (hrej : qv.violates (x + ofInt 2 * H) = true)
    (hacc1 : qv.violates (x - H) = false) :
    (probes5 f fn (qv :: rest) x H f3).2.2 = some
      (d1Side f3 (f (values (upd1 B var (x - H)))) H,
       d2Side f3 (f (values (upd1 B var (x - H)))) (f (values (upd1 B var (x - ofInt 2 * H)))) H) := by
  have h2H : (ofInt 2 : ℝ) * H ≠ 0 := by
    simp only [ScalarReal.ofInt_eq]; push_cast; exact mul_ne_zero (by norm_num) hH
  obtain ⟨fn1, e1, r1⟩ := probe5_ok f hF qv rest hri hprec (x - ofInt 2 * H) hacc2
  have e2 := probe5_refused f fn1 { qv with value := x - ofInt 2 * H } rest (x + ofInt 2 * H) hprec
    (by show x + ofInt 2 * H ≠ x - ofInt 2 * H; intro e; apply h2H; linarith) (by rw [violates_value_irrel]; exact hrej)
  obtain ⟨fn3, e3, r3⟩ := probe5_ok f hF { qv with value := x - ofInt 2 * H } rest r1 hprec (x - H)
    (by rw [violates_value_irrel]; exact hacc1)
  obtain ⟨fn4, e4, _⟩ := probe5_ok f hF { qv with value := x - H } rest r3 hprec (x - ofInt 2 * H)
    (by rw [violates_value_irrel]; exact hacc2)
  unfold probes5
  simp only [e1]
  unfold central5
  simp only [e2]
  unfold backward5
  simp only [e3, e4]

/-- forward branch: `x - 2H` refused, `x + H` and `x + 2H` accepted -/
theorem probes5_forward (f : List ℝ → ℝ) {params B : PList ℝ} (hF : FreeFn f params B) {var : Name} {fn : Fn ℝ}
    (qv : Param ℝ) (rest : PList ℝ) (hri : RI f params B var fn (qv :: rest)) (hprec : qv.prec = 0)
    (x H f3 : ℝ) (hH : H ≠ 0) (hval : qv.value = x)
    (hrej : qv.violates (x - ofInt 2 * H) = true)
    (hacc1 : qv.violates (x + H) = false) (hacc2 : qv.violates (x + ofInt 2 * H) = false) :
    (probes5 f fn (qv :: rest) x H f3).2.2 = some
      (d1Side (f (values (upd1 B var (x + H)))) f3 H,
       d2Side (f (values (upd1 B var (x + ofInt 2 * H)))) (f (values (upd1 B var (x + H)))) f3 H) := by
  have h2H : (ofInt 2 : ℝ) * H ≠ 0 := by
    simp only [ScalarReal.ofInt_eq]; push_cast; exact mul_ne_zero (by norm_num) hH
  have e1 := probe5_refused f fn qv rest (x - ofInt 2 * H) hprec
    (by rw [hval]; intro e; apply h2H; linarith) hrej
  obtain ⟨fn2, e2, r2⟩ := probe5_ok f hF qv rest hri hprec (x + H) hacc1
  obtain ⟨fn3, e3, _⟩ := probe5_ok f hF { qv with value := x + H } rest r2 hprec (x + ofInt 2 * H)
    (by rw [violates_value_irrel]; exact hacc2)
  unfold probes5
  simp only [e1]
  unfold forward5
  simp only [e2, e3]

/-- one iteration of the five-point loop whose probes end in `some d` -/
theorem step5_of_probes (f : List ℝ → ℝ) {params B : PList ℝ} {w0 : W ℝ} (lp : Loop ℝ)
    (hLI : LI f params B w0 (fun w => w.f3) lp) (i : Nat) (var : Name) (b qv : Param ℝ)
    (hqv : find? params var = some qv) (hb : find? B var = some b) (hlast : lp.lastVar ≠ some var)
    (d : ℝ × ℝ)
    (hpr : ∀ rest, RI f params B var lp.w.fn (qv :: rest) →
      (probes5 f lp.w.fn (qv :: rest) b.value ((one + Scalar.abs b.value) * lp.w.h) lp.w.f3).2.2 = some d) :
    (step5 f params lp i var).2 = none ∧ (step5 f params lp i var).1.lastVar = some var ∧
    (step5 f params lp i var).1.w.der1 = setAt lp.w.der1 i (some d.1) ∧
    (step5 f params lp i var).1.w.der2 = setAt lp.w.der2 i (some d.2) := by
  have hhas : has params var = true := (has_iff params var).mpr (by
    have := find?_some hqv; rw [← this.2]; exact List.mem_map_of_mem this.1)
  have hval := valueOf_base hLI var b hb hlast
  obtain ⟨rest, hsub⟩ := sub5_shape f hLI var qv hqv hlast
  have hri := sub_RI f hLI var (qv :: rest) hsub
  have h5 := hpr rest hri
  unfold step5
  have hnh : (!has params var) = false := by rw [hhas]; rfl
  rw [hnh]
  simp only [Bool.false_eq_true, if_false]
  split
  · rename_i e he
    have := hsub.symm.trans he
    cases this
  · rename_i p' hp'
    have hpp : p' = qv :: rest := by
      have := hsub.symm.trans hp'
      injection this with this; exact this.symm
    subst hpp
    rw [hval]
    simp only []
    rcases hs : probes5 f lp.w.fn (qv :: rest) b.value ((one + Scalar.abs b.value) * lp.w.h) lp.w.f3 with ⟨fn5, p5, o5⟩
    rw [hs] at h5
    simp only [] at h5
    subst h5
    exact ⟨rfl, rfl, rfl, rfl⟩

/-- `updateDerivatives` of the five-point scheme for one selected variable: everything but the
iteration itself -/
theorem update5_single (f : List ℝ → ℝ) (w : W ℝ) (params : PList ℝ) (v : Name) (hown : Own w.fn) (hok : w.fn.OK f)
    (hF : FreeFn f params w.fn.params) (hpnd : (names params).Nodup) (hc1 : w.c1 = true) (hvars : w.vars = [v]) :
    ∃ fn1, fn1.fval = f (values w.fn.params) ∧
      LI f params w.fn.params { w with fn := fn1, f3 := fn1.fval } (fun w => w.f3)
        { w := { w with fn := fn1, f3 := fn1.fval }, p := [], lastVar := none } ∧
      ∀ lp1, step5 f params { w := { w with fn := fn1, f3 := fn1.fval }, p := [], lastVar := none } 0 v = (lp1, none) →
        (update5 f w params).2 = none ∧ (update5 f w params).1.der1 = lp1.w.der1 ∧
        (update5 f w params).1.der2 = lp1.w.der2 := by
  have hc := hF.ctx
  have hown0 : Own ((w.fn.enable1 false).enable2 false) := by unfold Own; simp; exact hown
  have hok0 : ((w.fn.enable1 false).enable2 false).OK f := enable2_OK f _ _ (enable1_OK f _ _ hok)
  have hnc0 : ∀ p ∈ ((w.fn.enable1 false).enable2 false).params, p.con = none := by simpa using hF.nocon
  have h0 := first_set f ((w.fn.enable1 false).enable2 false) hown0 hok0 (by simpa using hc.sync) hpnd
  have hn0 := setParameters_nocon f ((w.fn.enable1 false).enable2 false) params hnc0
  rcases hs1 : ((w.fn.enable1 false).enable2 false).setParameters f params with ⟨fn1, e1⟩
  rw [hs1] at h0 hn0
  simp only [] at hn0
  subst hn0
  obtain ⟨g1, g2, g3, _, _⟩ := h0
  simp only [] at g1 g2 g3
  have hp1 : fn1.params = w.fn.params := by have := g1 trivial; simpa using this
  have hval : fn1.fval = f (values w.fn.params) := by rw [← hp1]; exact g2
  have hLI0 : LI f params w.fn.params { w with fn := fn1, f3 := fn1.fval } (fun w => w.f3)
      { w := { w with fn := fn1, f3 := fn1.fval }, p := [], lastVar := none } :=
    ⟨g2, (by rw [hp1]; exact Dev.refl _ _), (fun l h => by cases h), Frame.refl _, rfl⟩
  refine ⟨fn1, hval, hLI0, ?_⟩
  intro lp1 hs
  have hLI1 := step5_LI f hc _ hLI0 0 v _ hs rfl
  unfold update5
  have hcond : (w.c1 && decide (w.vars.length > 0)) = true := by simp [hc1, hvars]
  rw [if_pos hcond]
  simp only [hs1]
  have hloop : loopGo (step5 f params) w.vars 0 { w := { w with fn := fn1, f3 := fn1.fval }, p := [], lastVar := none }
      = (lp1, none) := by
    have : ∀ (vs : List Name) (X : Loop ℝ), vs = [v] → step5 f params X 0 v = (lp1, none) →
        loopGo (step5 f params) vs 0 X = (lp1, none) := by
      intro vs X hv hX; subst hv; unfold loopGo; rw [hX]; simp only []; unfold loopGo; rfl
    exact this _ _ hvars hs
  rw [hloop]
  simp only []
  have hnl : ∀ p ∈ lp1.w.fn.params, p.con = none := hLI1.2.1.nocon hF.nocon
  obtain ⟨q1, q2, q3, _⟩ := finish_free f params lp1.lastVar lp1.w hnl hLI1.2.2.1
  exact ⟨q1, q2, q3⟩


/-! ### two- and three-point schemes: refused tries -/

/-- a try refused by the constraint of the probed parameter: the loop goes on with the next step
(`h < 0 → -h`, otherwise `h / -2`) -/
theorem retry_skip (f : List ℝ → ℝ) (rp : Bool) (value : ℝ) (n : Nat) (fn : Fn ℝ) (q0 : Param ℝ) (rest : PList ℝ)
    (h : ℝ) (fv : Option ℝ) (hprec : q0.prec = 0) (hne : value + h ≠ q0.value) (hrej : q0.violates (value + h) = true) :
    retry f rp (n + 2) fn (q0 :: rest) value h fv =
      retry f rp (n + 1) fn (q0 :: rest) value (if ltb h zero then -h else h / (-(ofInt 2))) fv := by
  have href := attempt_refused f fn q0 rest (value + h) hprec hne hrej
  conv_lhs => unfold retry
  simp only [href, Bool.false_eq_true, if_false, Nat.add_one_ne_zero]

/-- beginning of an iteration of the two- and three-point loops for a variable passed with precision 0 -/
theorem prepare_shape (f : List ℝ → ℝ) {params B : PList ℝ} (hc : Ctx params B) {w0 : W ℝ} {slot : W ℝ → ℝ} {lp : Loop ℝ}
    (hLI : LI f params B w0 slot lp) (var : Name) (b qv : Param ℝ) (hqv : find? params var = some qv)
    (hb : find? B var = some b) (hlast : lp.lastVar ≠ some var) (hprec : qv.prec = 0) :
    ∃ rest, prepare params lp.w.h lp var = .ok (qv :: rest, b.value, -(one + Scalar.abs b.value) * lp.w.h) := by
  have hval := valueOf_base hLI var b hb hlast
  obtain ⟨_, _, hl, _, _⟩ := hLI
  have hadj : ltb (Scalar.abs (-(one + Scalar.abs b.value) * lp.w.h)) qv.prec = false := by
    rw [hprec, ScalarReal.ltb_false_iff, ScalarReal.abs_eq]; exact abs_nonneg _
  unfold prepare
  simp only []
  cases hlv : lp.lastVar with
  | none =>
    simp only []
    rw [subNames_one params var qv hqv, hval]
    simp only []
    rw [hadj]
    exact ⟨[], by simp⟩
  | some l =>
    simp only []
    obtain ⟨ql, hql⟩ : ∃ ql, find? params l = some ql := by
      cases hf : find? params l with
      | none => exact absurd ((has_iff params l).mp (hl l hlv)) (find?_none hf)
      | some q => exact ⟨q, rfl⟩
    rw [subNames_two params var l qv ql hqv hql (fun e => hlast (by rw [hlv, e])), hval]
    simp only []
    rw [hadj]
    exact ⟨[ql], by simp⟩

/-- the first retry loop when the try on the left is refused and the one on the right accepted, or
when both are refused and the one on the left with half the step is accepted: outcome by the list
`hs` of refused steps followed by the accepted step `ha` -/
theorem retry_two_refused (f : List ℝ → ℝ) {params B : PList ℝ} (hF : FreeFn f params B) {var : Name} (rp : Bool)
    (value : ℝ) (fn : Fn ℝ) (q0 : Param ℝ) (rest : PList ℝ) (H : ℝ) (fv : Option ℝ)
    (hri : RI f params B var fn (q0 :: rest)) (hprec : q0.prec = 0) (hval : q0.value = value) (hH : 0 < H)
    (hrejL : q0.violates (value + -H) = true) (hrejR : q0.violates (value + H) = true)
    (hacc : q0.violates (value + H / (-(ofInt 2))) = false)
    (hbx : tooBig (f (values (upd1 B var (value + H / (-(ofInt 2)))))) = false) :
    (retry f rp 10 fn (q0 :: rest) value (-H) fv).exc = none ∧
    (retry f rp 10 fn (q0 :: rest) value (-H) fv).hf = some (H / (-(ofInt 2))) ∧
    (retry f rp 10 fn (q0 :: rest) value (-H) fv).h = H / (-(ofInt 2)) ∧
    (retry f rp 10 fn (q0 :: rest) value (-H) fv).fv = some (f (values (upd1 B var (value + H / (-(ofInt 2)))))) ∧
    (retry f rp 10 fn (q0 :: rest) value (-H) fv).p = [{ q0 with value := value + H / (-(ofInt 2)) }] ∧
    (retry f rp 10 fn (q0 :: rest) value (-H) fv).fn.params = upd1 B var (value + H / (-(ofInt 2))) ∧
    (retry f rp 10 fn (q0 :: rest) value (-H) fv).fn.OK f := by
  have hneg : ltb (-H) zero = true := by rw [ScalarReal.ltb_iff]; simp only [ScalarReal.zero_eq]; linarith
  have hpos : ltb H zero = false := by rw [ScalarReal.ltb_false_iff]; simp only [ScalarReal.zero_eq]; linarith
  have s1 := retry_skip f rp value 8 fn q0 rest (-H) fv hprec (by rw [hval]; intro e; linarith) hrejL
  rw [hneg] at s1
  simp only [if_true, neg_neg] at s1
  have s2 := retry_skip f rp value 7 fn q0 rest H fv hprec (by rw [hval]; intro e; linarith) hrejR
  rw [hpos] at s2
  simp only [Bool.false_eq_true, if_false] at s2
  rw [s1, s2]
  have h2 : H / (-(ofInt 2)) ≠ 0 := by
    simp only [ScalarReal.ofInt_eq]; push_cast
    exact div_ne_zero (ne_of_gt hH) (by norm_num)
  exact retry_ok f hF rp value 7 fn q0 rest (H / (-(ofInt 2))) fv hri hprec hacc h2 hbx


/-- two-point scheme, right-hand probe: `x - H` refused, `x + H` accepted -/
theorem step2_right (f : List ℝ → ℝ) {params B : PList ℝ} (hF : FreeFn f params B) {w0 : W ℝ} (lp : Loop ℝ)
    (hLI : LI f params B w0 (fun w => w.f1) lp) (i : Nat) (var : Name) (b qv : Param ℝ)
    (hqv : find? params var = some qv) (hb : find? B var = some b) (hlast : lp.lastVar ≠ some var) (hh : 0 < lp.w.h)
    (hprec : qv.prec = 0) (hB : BoundedNear f B lp.w.h)
    (hrej : qv.violates (b.value + -((one + Scalar.abs b.value) * lp.w.h)) = true)
    (hacc : qv.violates (b.value + (one + Scalar.abs b.value) * lp.w.h) = false) :
    (step2 f params lp i var).2 = none ∧ (step2 f params lp i var).1.lastVar = some var ∧
    (step2 f params lp i var).1.w.der1 = setAt lp.w.der1 i (some (d1Two lp.w.f1
        (f (values (upd1 B var (b.value + (one + Scalar.abs b.value) * lp.w.h))))
        ((one + Scalar.abs b.value) * lp.w.h))) := by
  have hc := hF.ctx
  have hhas : has params var = true := (has_iff params var).mpr (by
    have := find?_some hqv; rw [← this.2]; exact List.mem_map_of_mem this.1)
  have hqval : qv.value = b.value :=
    (hc.sync qv (find?_some hqv).1 b (find?_some hb).1 (by rw [(find?_some hb).2, (find?_some hqv).2])).symm
  obtain ⟨rest, hprep⟩ := prepare_shape f hc hLI var b qv hqv hb hlast hprec
  have eH : -(one + Scalar.abs b.value) * lp.w.h = -((one + Scalar.abs b.value) * lp.w.h) := by ring
  rw [eH] at hprep
  have hri := prepare_RI f hLI var lp.w.h (qv :: rest) b.value _ hprep
  have hpos : (0 : ℝ) < (one + Scalar.abs b.value) * lp.w.h := by
    have : (0 : ℝ) < one + Scalar.abs b.value := by
      simp only [ScalarReal.one_eq, ScalarReal.abs_eq]; positivity
    exact mul_pos this hh
  obtain ⟨a1, a2, a3, a4, a5, _, _⟩ := retry_flip f hF true b.value 8 lp.w.fn qv rest _ none hri hprec hqval
    (by linarith : -((one + Scalar.abs b.value) * lp.w.h) < 0) hrej (by rw [neg_neg]; exact hacc)
    (hB.at' var b hb _ 1 (by simp) (by ring))
  rw [neg_neg] at a2 a3 a4 a5
  unfold step2
  have hnh : (!has params var) = false := by rw [hhas]; rfl
  rw [hnh]
  simp only [Bool.false_eq_true, if_false, hprep]
  simp only [a1, a2, a3, a4, a5, Option.isSome_none, Bool.false_eq_true, if_false]
  exact ⟨trivial, trivial, trivial⟩

/-- two-point scheme, halved step: `x - H` and `x + H` refused, `x - H/2` accepted -/
theorem step2_halved (f : List ℝ → ℝ) {params B : PList ℝ} (hF : FreeFn f params B) {w0 : W ℝ} (lp : Loop ℝ)
    (hLI : LI f params B w0 (fun w => w.f1) lp) (i : Nat) (var : Name) (b qv : Param ℝ)
    (hqv : find? params var = some qv) (hb : find? B var = some b) (hlast : lp.lastVar ≠ some var) (hh : 0 < lp.w.h)
    (hprec : qv.prec = 0) (hB : BoundedNear f B lp.w.h)
    (hrejL : qv.violates (b.value + -((one + Scalar.abs b.value) * lp.w.h)) = true)
    (hrejR : qv.violates (b.value + (one + Scalar.abs b.value) * lp.w.h) = true)
    (hacc : qv.violates (b.value + (one + Scalar.abs b.value) * lp.w.h / (-(ofInt 2))) = false) :
    (step2 f params lp i var).2 = none ∧ (step2 f params lp i var).1.lastVar = some var ∧
    (step2 f params lp i var).1.w.der1 = setAt lp.w.der1 i (some (d1Two lp.w.f1
        (f (values (upd1 B var (b.value + (one + Scalar.abs b.value) * lp.w.h / (-(ofInt 2))))))
        ((one + Scalar.abs b.value) * lp.w.h / (-(ofInt 2))))) := by
  have hc := hF.ctx
  have hhas : has params var = true := (has_iff params var).mpr (by
    have := find?_some hqv; rw [← this.2]; exact List.mem_map_of_mem this.1)
  have hqval : qv.value = b.value :=
    (hc.sync qv (find?_some hqv).1 b (find?_some hb).1 (by rw [(find?_some hb).2, (find?_some hqv).2])).symm
  obtain ⟨rest, hprep⟩ := prepare_shape f hc hLI var b qv hqv hb hlast hprec
  have eH : -(one + Scalar.abs b.value) * lp.w.h = -((one + Scalar.abs b.value) * lp.w.h) := by ring
  rw [eH] at hprep
  have hri := prepare_RI f hLI var lp.w.h (qv :: rest) b.value _ hprep
  have hpos : (0 : ℝ) < (one + Scalar.abs b.value) * lp.w.h := by
    have : (0 : ℝ) < one + Scalar.abs b.value := by
      simp only [ScalarReal.one_eq, ScalarReal.abs_eq]; positivity
    exact mul_pos this hh
  obtain ⟨a1, a2, a3, a4, a5, _, _⟩ := retry_two_refused f hF true b.value lp.w.fn qv rest _ none hri hprec hqval hpos
    hrejL hrejR hacc
    (hB.at' var b hb _ (-1 / 2) (by rw [abs_le]; constructor <;> norm_num)
      (by simp only [ScalarReal.ofInt_eq]; push_cast; ring))
  unfold step2
  have hnh : (!has params var) = false := by rw [hhas]; rfl
  rw [hnh]
  simp only [Bool.false_eq_true, if_false, hprep]
  simp only [a1, a2, a3, a4, a5, Option.isSome_none, Bool.false_eq_true, if_false]
  exact ⟨trivial, trivial, trivial⟩

/-- three-point scheme, halved step: `x - H` and `x + H` refused, `x - H/2` and `x + H/2` accepted:
symmetric probes with half the step -/
theorem step3_halved (f : List ℝ → ℝ) {params B : PList ℝ} (hF : FreeFn f params B) {w0 : W ℝ} (lp : Loop ℝ)
    (hLI : LI f params B w0 (fun w => w.f2) lp) (i : Nat) (var : Name) (b qv : Param ℝ)
    (hqv : find? params var = some qv) (hb : find? B var = some b) (hlast : lp.lastVar ≠ some var) (hh : 0 < lp.w.h)
    (hprec : qv.prec = 0) (hB : BoundedNear f B lp.w.h)
    (hrejL : qv.violates (b.value + -((one + Scalar.abs b.value) * lp.w.h)) = true)
    (hrejR : qv.violates (b.value + (one + Scalar.abs b.value) * lp.w.h) = true)
    (haccL : qv.violates (b.value + (one + Scalar.abs b.value) * lp.w.h / (-(ofInt 2))) = false)
    (haccR : qv.violates (b.value + -((one + Scalar.abs b.value) * lp.w.h / (-(ofInt 2)))) = false) :
    (step3 f params lp i var).2 = none ∧ (step3 f params lp i var).1.lastVar = some var ∧
    (step3 f params lp i var).1.w.der1 = setAt lp.w.der1 i (some (d1Three
        (f (values (upd1 B var (b.value + (one + Scalar.abs b.value) * lp.w.h / (-(ofInt 2))))))
        (f (values (upd1 B var (b.value + -((one + Scalar.abs b.value) * lp.w.h / (-(ofInt 2)))))))
        ((one + Scalar.abs b.value) * lp.w.h / (-(ofInt 2))) (-((one + Scalar.abs b.value) * lp.w.h / (-(ofInt 2)))))) ∧
    (step3 f params lp i var).1.w.der2 = setAt lp.w.der2 i (some (d2Three
        (f (values (upd1 B var (b.value + (one + Scalar.abs b.value) * lp.w.h / (-(ofInt 2)))))) lp.w.f2
        (f (values (upd1 B var (b.value + -((one + Scalar.abs b.value) * lp.w.h / (-(ofInt 2)))))))
        ((one + Scalar.abs b.value) * lp.w.h / (-(ofInt 2))) (-((one + Scalar.abs b.value) * lp.w.h / (-(ofInt 2)))))) := by
  have hc := hF.ctx
  have hhas : has params var = true := (has_iff params var).mpr (by
    have := find?_some hqv; rw [← this.2]; exact List.mem_map_of_mem this.1)
  have hqval : qv.value = b.value :=
    (hc.sync qv (find?_some hqv).1 b (find?_some hb).1 (by rw [(find?_some hb).2, (find?_some hqv).2])).symm
  obtain ⟨rest, hprep⟩ := prepare_shape f hc hLI var b qv hqv hb hlast hprec
  have eH : -(one + Scalar.abs b.value) * lp.w.h = -((one + Scalar.abs b.value) * lp.w.h) := by ring
  rw [eH] at hprep
  have hri := prepare_RI f hLI var lp.w.h (qv :: rest) b.value _ hprep
  have hpos : (0 : ℝ) < (one + Scalar.abs b.value) * lp.w.h := by
    have : (0 : ℝ) < one + Scalar.abs b.value := by
      simp only [ScalarReal.one_eq, ScalarReal.abs_eq]; positivity
    exact mul_pos this hh
  obtain ⟨a1, a2, a3, a4, a5, a6, a7⟩ := retry_two_refused f hF true b.value lp.w.fn qv rest _ none hri hprec hqval hpos
    hrejL hrejR haccL
    (hB.at' var b hb _ (-1 / 2) (by rw [abs_le]; constructor <;> norm_num)
      (by simp only [ScalarReal.ofInt_eq]; push_cast; ring))
  -- second loop
  have hhalf : (one + Scalar.abs b.value) * lp.w.h / (-(ofInt 2)) < 0 := by
    simp only [ScalarReal.ofInt_eq]; push_cast
    exact div_neg_of_pos_of_neg hpos (by norm_num)
  have hlt : ltb ((one + Scalar.abs b.value) * lp.w.h / (-(ofInt 2))) zero = true := by
    rw [ScalarReal.ltb_iff]; simpa using hhalf
  have hri3 : RI f params B var (retry f true 10 lp.w.fn (qv :: rest) b.value (-((one + Scalar.abs b.value) * lp.w.h)) none).fn
      [{ qv with value := b.value + (one + Scalar.abs b.value) * lp.w.h / (-(ofInt 2)) }] := by
    refine ⟨a7, _, [], rfl, (find?_some hqv).2, by simp [names], by simp, by simp, ?_⟩
    rw [a6]
    exact (dev_upd1 B var _).mono (fun n hn => Or.inl hn)
  obtain ⟨c1, c2, _, c4, _, _, _⟩ := retry_ok f hF false b.value 9 _
    { qv with value := b.value + (one + Scalar.abs b.value) * lp.w.h / (-(ofInt 2)) } []
    (-((one + Scalar.abs b.value) * lp.w.h / (-(ofInt 2)))) none hri3 hprec
    (by rw [violates_value_irrel]; exact haccR) (neg_ne_zero.mpr (ne_of_lt hhalf))
    (hB.at' var b hb _ (1 / 2) (by rw [abs_le]; constructor <;> norm_num)
      (by simp only [ScalarReal.ofInt_eq]; push_cast; ring))
  unfold step3
  have hnh : (!has params var) = false := by rw [hhas]; rfl
  rw [hnh]
  simp only [Bool.false_eq_true, if_false, hprep]
  simp only [a1, a2, a3, a4, a5, Option.isSome_none, Bool.false_eq_true, if_false, hlt, if_true, c1, c2, c4]
  exact ⟨trivial, trivial, trivial, trivial⟩

/-- `updateDerivatives` of the two-point scheme for one selected variable: everything but the
iteration itself -/
theorem update2_single (f : List ℝ → ℝ) (w : W ℝ) (params : PList ℝ) (v : Name) (hown : Own w.fn) (hok : w.fn.OK f)
    (hF : FreeFn f params w.fn.params) (hb0 : tooBig (f (values w.fn.params)) = false)
    (hpnd : (names params).Nodup) (hc1 : w.c1 = true) (hvars : w.vars = [v]) :
    ∃ fn1, fn1.fval = f (values w.fn.params) ∧
      LI f params w.fn.params { w with fn := fn1, f1 := fn1.fval } (fun w => w.f1)
        { w := { w with fn := fn1, f1 := fn1.fval }, p := [], lastVar := none } ∧
      ∀ lp1, step2 f params { w := { w with fn := fn1, f1 := fn1.fval }, p := [], lastVar := none } 0 v = (lp1, none) →
        (update2 f w params).2 = none ∧ (update2 f w params).1.der1 = lp1.w.der1 := by
  have hc := hF.ctx
  have hown0 : Own (w.fn.enable1 false) := by unfold Own; simp; exact hown
  have hok0 : (w.fn.enable1 false).OK f := enable1_OK f _ _ hok
  have hnc0 : ∀ p ∈ (w.fn.enable1 false).params, p.con = none := by simpa using hF.nocon
  have h0 := first_set f (w.fn.enable1 false) hown0 hok0 (by simpa using hc.sync) hpnd
  have hn0 := setParameters_nocon f (w.fn.enable1 false) params hnc0
  rcases hs1 : (w.fn.enable1 false).setParameters f params with ⟨fn1, e1⟩
  rw [hs1] at h0 hn0
  simp only [] at hn0
  subst hn0
  obtain ⟨g1, g2, g3, _, _⟩ := h0
  simp only [] at g1 g2 g3
  have hp1 : fn1.params = w.fn.params := by have := g1 trivial; simpa using this
  have hval : fn1.fval = f (values w.fn.params) := by rw [← hp1]; exact g2
  have hLI0 : LI f params w.fn.params { w with fn := fn1, f1 := fn1.fval } (fun w => w.f1)
      { w := { w with fn := fn1, f1 := fn1.fval }, p := [], lastVar := none } :=
    ⟨g2, (by rw [hp1]; exact Dev.refl _ _), (fun l h => by cases h), Frame.refl _, rfl⟩
  refine ⟨fn1, hval, hLI0, ?_⟩
  intro lp1 hs
  have hLI1 := step2_LI f hc _ hLI0 0 v _ hs rfl
  unfold update2
  have hcond : (w.c1 && decide (w.vars.length > 0)) = true := by simp [hc1, hvars]
  rw [if_pos hcond]
  simp only [hs1]
  have htb : tooBig fn1.fval = false := by rw [hval]; exact hb0
  rw [htb]
  simp only [Bool.false_eq_true, if_false]
  have hloop : loopGo (step2 f params) w.vars 0 { w := { w with fn := fn1, f1 := fn1.fval }, p := [], lastVar := none }
      = (lp1, none) := by
    have : ∀ (vs : List Name) (X : Loop ℝ), vs = [v] → step2 f params X 0 v = (lp1, none) →
        loopGo (step2 f params) vs 0 X = (lp1, none) := by
      intro vs X hv hX; subst hv; unfold loopGo; rw [hX]; simp only []; unfold loopGo; rfl
    exact this _ _ hvars hs
  rw [hloop]
  simp only []
  have hnl : ∀ p ∈ lp1.w.fn.params, p.con = none := hLI1.2.1.nocon hF.nocon
  obtain ⟨q1, q2, _, _⟩ := finish_free f params lp1.lastVar lp1.w hnl hLI1.2.2.1
  exact ⟨q1, q2⟩

/-- the same for the three-point scheme without cross derivatives -/
theorem update3_single (f : List ℝ → ℝ) (w : W ℝ) (params : PList ℝ) (v : Name) (hown : Own w.fn) (hok : w.fn.OK f)
    (hF : FreeFn f params w.fn.params) (hb0 : tooBig (f (values w.fn.params)) = false)
    (hpnd : (names params).Nodup) (hc1 : w.c1 = true) (hcx : w.cx = false)
    (hvars : w.vars = [v]) :
    ∃ fn1, fn1.fval = f (values w.fn.params) ∧
      LI f params w.fn.params { w with fn := fn1, f2 := fn1.fval } (fun w => w.f2)
        { w := { w with fn := fn1, f2 := fn1.fval }, p := [], lastVar := none } ∧
      ∀ lp1, step3 f params { w := { w with fn := fn1, f2 := fn1.fval }, p := [], lastVar := none } 0 v = (lp1, none) →
        (update3 f w params).2 = none ∧ (update3 f w params).1.der1 = lp1.w.der1 ∧
        (update3 f w params).1.der2 = lp1.w.der2 := by
  have hc := hF.ctx
  have hown0 : Own ((w.fn.enable1 false).enable2 false) := by unfold Own; simp; exact hown
  have hok0 : ((w.fn.enable1 false).enable2 false).OK f := enable2_OK f _ _ (enable1_OK f _ _ hok)
  have hnc0 : ∀ p ∈ ((w.fn.enable1 false).enable2 false).params, p.con = none := by simpa using hF.nocon
  have h0 := first_set f ((w.fn.enable1 false).enable2 false) hown0 hok0 (by simpa using hc.sync) hpnd
  have hn0 := setParameters_nocon f ((w.fn.enable1 false).enable2 false) params hnc0
  rcases hs1 : ((w.fn.enable1 false).enable2 false).setParameters f params with ⟨fn1, e1⟩
  rw [hs1] at h0 hn0
  simp only [] at hn0
  subst hn0
  obtain ⟨g1, g2, g3, _, _⟩ := h0
  simp only [] at g1 g2 g3
  have hp1 : fn1.params = w.fn.params := by have := g1 trivial; simpa using this
  have hval : fn1.fval = f (values w.fn.params) := by rw [← hp1]; exact g2
  have hLI0 : LI f params w.fn.params { w with fn := fn1, f2 := fn1.fval } (fun w => w.f2)
      { w := { w with fn := fn1, f2 := fn1.fval }, p := [], lastVar := none } :=
    ⟨g2, (by rw [hp1]; exact Dev.refl _ _), (fun l h => by cases h), Frame.refl _, rfl⟩
  refine ⟨fn1, hval, hLI0, ?_⟩
  intro lp1 hs
  have hLI1 := step3_LI f hc _ hLI0 0 v _ hs rfl
  unfold update3
  have hcond : (w.c1 && decide (w.vars.length > 0)) = true := by simp [hc1, hvars]
  rw [if_pos hcond]
  simp only [hs1]
  have htb : tooBig fn1.fval = false := by rw [hval]; exact hb0
  rw [htb]
  simp only [Bool.false_eq_true, if_false]
  have hloop : loopGo (step3 f params) w.vars 0 { w := { w with fn := fn1, f2 := fn1.fval }, p := [], lastVar := none }
      = (lp1, none) := by
    have : ∀ (vs : List Name) (X : Loop ℝ), vs = [v] → step3 f params X 0 v = (lp1, none) →
        loopGo (step3 f params) vs 0 X = (lp1, none) := by
      intro vs X hv hX; subst hv; unfold loopGo; rw [hX]; simp only []; unfold loopGo; rfl
    exact this _ _ hvars hs
  rw [hloop]
  simp only []
  have hcx' : lp1.w.cx = false := by rw [hLI1.2.2.2.1.cx]; exact hcx
  rw [hcx']
  simp only [Bool.false_eq_true, if_false]
  have hnl : ∀ p ∈ lp1.w.fn.params, p.con = none := hLI1.2.1.nocon hF.nocon
  obtain ⟨q1, q2, q3, _⟩ := finish_free f params lp1.lastVar lp1.w hnl hLI1.2.2.1
  exact ⟨q1, q2, q3⟩

/-! ### the ten tries of the first retry loop, in general -/

/-- the step after a refused try (Two:86-89, Three:88-91) -/
noncomputable def nextStep (h : ℝ) : ℝ := if ltb h zero then -h else h / (-(ofInt 2))

/-- the `k`-th step tried: `h, -h, -h/2, h/2, h/4, …` for `h < 0` -/
noncomputable def stepAt (h : ℝ) : Nat → ℝ
  | 0 => h
  | k + 1 => stepAt (nextStep h) k

theorem nextStep_ne_zero {h : ℝ} (hh : h ≠ 0) : nextStep h ≠ 0 := by
  unfold nextStep
  split
  · exact neg_ne_zero.mpr hh
  · simp only [ScalarReal.ofInt_eq]; push_cast; exact div_ne_zero hh (by norm_num)

theorem abs_nextStep_le (h : ℝ) : |nextStep h| ≤ |h| := by
  unfold nextStep
  split
  · rw [abs_neg]
  · simp only [ScalarReal.ofInt_eq]; push_cast
    rw [abs_div, abs_neg, abs_two]
    have := abs_nonneg h
    linarith

theorem stepAt_ne_zero : ∀ (k : Nat) {h : ℝ}, h ≠ 0 → stepAt h k ≠ 0
  | 0, _, hh => hh
  | k + 1, _, hh => stepAt_ne_zero k (nextStep_ne_zero hh)

theorem abs_stepAt_le : ∀ (k : Nat) (h : ℝ), |stepAt h k| ≤ |h|
  | 0, _ => le_refl _
  | k + 1, h => le_trans (abs_stepAt_le k (nextStep h)) (abs_nextStep_le h)

/-- `j` tries refused by the constraint of the probed parameter, one after the other -/
theorem retry_skip_many (f : List ℝ → ℝ) (rp : Bool) (value : ℝ) (fn : Fn ℝ) (q0 : Param ℝ) (rest : PList ℝ)
    (fv : Option ℝ) (hprec : q0.prec = 0) (hval : q0.value = value) :
    ∀ (j n : Nat) (h : ℝ), h ≠ 0 → (∀ i, i < j → q0.violates (value + stepAt h i) = true) →
      retry f rp (n + 1 + j) fn (q0 :: rest) value h fv = retry f rp (n + 1) fn (q0 :: rest) value (stepAt h j) fv := by
  intro j
  induction j with
  | zero => intro n h _ _; rfl
  | succ j ih =>
    intro n h hh hrej
    have e : n + 1 + (j + 1) = (n + j) + 2 := by omega
    rw [e, retry_skip f rp value (n + j) fn q0 rest h fv hprec (by rw [hval]; intro e'; apply hh; linarith)
      (hrej 0 (by omega))]
    have e2 : n + j + 1 = n + 1 + j := by omega
    rw [e2]
    exact ih n (nextStep h) (nextStep_ne_zero hh) (fun i hi => hrej (i + 1) (by omega))

/-- two-point scheme, in general: the first `j < 10` tries are refused by the constraint the variable
is passed with, the next one is accepted: the derivative is the difference quotient with that step -/
theorem step2_first_accepted (f : List ℝ → ℝ) {params B : PList ℝ} (hF : FreeFn f params B) {w0 : W ℝ} (lp : Loop ℝ)
    (hLI : LI f params B w0 (fun w => w.f1) lp) (i : Nat) (var : Name) (b qv : Param ℝ)
    (hqv : find? params var = some qv) (hb : find? B var = some b) (hlast : lp.lastVar ≠ some var) (hh : lp.w.h ≠ 0)
    (hprec : qv.prec = 0) (hB : BoundedNear f B lp.w.h) (j : Nat) (hj : j < 10)
    (hrej : ∀ k, k < j → qv.violates (b.value + stepAt (-(one + Scalar.abs b.value) * lp.w.h) k) = true)
    (hacc : qv.violates (b.value + stepAt (-(one + Scalar.abs b.value) * lp.w.h) j) = false) :
    (step2 f params lp i var).2 = none ∧ (step2 f params lp i var).1.lastVar = some var ∧
    (step2 f params lp i var).1.w.der1 = setAt lp.w.der1 i (some (d1Two lp.w.f1
        (f (values (upd1 B var (b.value + stepAt (-(one + Scalar.abs b.value) * lp.w.h) j))))
        (stepAt (-(one + Scalar.abs b.value) * lp.w.h) j))) := by
  have hc := hF.ctx
  have hhas : has params var = true := (has_iff params var).mpr (by
    have := find?_some hqv; rw [← this.2]; exact List.mem_map_of_mem this.1)
  have hqval : qv.value = b.value :=
    (hc.sync qv (find?_some hqv).1 b (find?_some hb).1 (by rw [(find?_some hb).2, (find?_some hqv).2])).symm
  obtain ⟨rest, hprep⟩ := prepare_shape f hc hLI var b qv hqv hb hlast hprec
  have hri := prepare_RI f hLI var lp.w.h (qv :: rest) b.value _ hprep
  have h0 : -(one + Scalar.abs b.value) * lp.w.h ≠ 0 := by
    simp only [ScalarReal.one_eq, ScalarReal.abs_eq]
    have : (1 + |b.value|) ≠ 0 := by positivity
    exact mul_ne_zero (neg_ne_zero.mpr this) hh
  have hbx : tooBig (f (values (upd1 B var (b.value + stepAt (-(one + Scalar.abs b.value) * lp.w.h) j)))) = false := by
    apply hB.line var b hb
    rw [add_sub_cancel_left]
    refine le_trans (abs_stepAt_le j _) ?_
    simp only [ScalarReal.one_eq, ScalarReal.abs_eq, abs_mul, abs_neg]
    rw [abs_of_nonneg (by positivity : (0 : ℝ) ≤ 1 + |b.value|)]
  have e10 : 10 = (9 - j) + 1 + j := by omega
  have hsk := retry_skip_many f true b.value lp.w.fn qv rest none hprec hqval j (9 - j) _ h0 hrej
  rw [← e10] at hsk
  obtain ⟨a1, a2, a3, a4, a5, _, _⟩ := retry_ok f hF true b.value (9 - j) lp.w.fn qv rest _ none hri hprec hacc
    (stepAt_ne_zero j h0) hbx
  rw [← hsk] at a1 a2 a3 a4 a5
  unfold step2
  have hnh : (!has params var) = false := by rw [hhas]; rfl
  rw [hnh]
  simp only [Bool.false_eq_true, if_false, hprep]
  simp only [a1, a2, a3, a4, a5, Option.isSome_none, Bool.false_eq_true, if_false]
  exact ⟨trivial, trivial, trivial⟩

/-- `[x]` for a one-element array -/
theorem setAt_single (l : List (DVal ℝ)) (x : DVal ℝ) (hl : l.length = 1) : setAt l 0 x = [x] := by
  cases l with
  | nil => simp at hl
  | cons a r =>
    cases r with
    | nil => rfl
    | cons c r' => simp at hl

theorem base_value (f : List ℝ → ℝ) (l : PList ℝ) (hnd : (names l).Nodup) (v : Name) (b : Param ℝ)
    (hb : find? l v = some b) : upd1 l v b.value = l := by
  apply upd1_same
  intro p hp hn
  have := find?_of_mem hnd hp
  rw [hn, hb] at this; injection this with this; rw [this]

end Bpp.NumDeriv
