import BppProofs.Lemmas.AliasRefuse
/-! C03, round 2: the clauses `checkStep` evaluates after the value updates and after the bulk alias
form, proved of the model (`tracksOk` under `Op.tracked`, `sameShape`, `bulkOk`). -/
namespace Bpp.Alias
open Bpp.ParamList (Bnd Con Par Store ObjId nameOf find? hasParameter names startsWith)

/-- a wired link is a visible link -/
theorem lk_view {w : World} {k : Nat} {o : Obj} (h : ObjInv w k o) (ho : w.objs k = some o) {s t : ObjId} (lk : Lk w o s t) :
    ∃ x y, (x, y) ∈ linksOf w o ∧ nameOf w.heap s = o.pre ++ x ∧ nameOf w.heap t = o.pre ++ y := by
  obtain ⟨e, he, hn, ht, _⟩ := lk.entry h ho
  obtain ⟨s', t', x, y, hs', hsn', hsrc, ht', htn', hl⟩ := link_of_entry h he
  rw [ht] at ht'; cases ht'
  exact ⟨x, y, hl, by rw [hn, hsrc], htn'⟩

/-- a visible link is a wired link -/
theorem view_lk {w : World} {k : Nat} {o : Obj} (h : ObjInv w k o) (ho : w.objs k = some o) {x y : String}
    (hl : (x, y) ∈ linksOf w o) : ∃ s t, Lk w o s t ∧ nameOf w.heap s = o.pre ++ x ∧ nameOf w.heap t = o.pre ++ y := by
  obtain ⟨ix, iy, l, hx, hy, hlx, htg⟩ := link_of_mem_linksOf h ho hl
  obtain ⟨hxm, hxn⟩ := ParamList.find?_some hx
  obtain ⟨_, hyn⟩ := ParamList.find?_some hy
  exact ⟨ix, iy, ⟨hxm, l, hlx, htg⟩, hxn, hyn⟩

theorem namesIndepOnly_sound {w : World} {k : Nat} {o : Obj} (h : ObjInv w k o) {src : List (String × Rat)}
    (hv : namesIndepOnly (svOf w o) src = true) : NamesIndep w o src := by
  intro e he t hf
  obtain ⟨htm, htn⟩ := ParamList.find?_some hf
  simp only [namesIndepOnly, List.all_eq_true, Bool.or_eq_true, Bool.not_eq_true', List.any_eq_true, beq_iff_eq] at hv
  rcases hv e he with hno | ⟨i, hi, hin⟩
  · exfalso
    have : (svOf w o).params.any (fun p => p.name == e.1) = true := by
      simp only [svOf, List.any_map, List.any_eq_true, Function.comp, beq_iff_eq]
      exact ⟨t, htm, htn⟩
    rw [this] at hno; cases hno
  · simp only [svOf, List.mem_map] at hi
    obtain ⟨j, hj, rfl⟩ := hi
    simp only at hin
    have : j = t := h.name_inj (h.indepSub j hj) htm (hin.trans htn.symm)
    exact this ▸ hj

theorem srcConsistent_sound {w : World} {k : Nat} {o : Obj} (h : ObjInv w k o) (ho : w.objs k = some o)
    {src : List (String × Rat)} (hv : srcConsistent (svOf w o) src = true) : SrcCons w o src := by
  intro s t lk
  obtain ⟨x, y, hl, hs, ht⟩ := lk_view h ho lk
  simp only [srcConsistent, List.all_eq_true, beq_iff_eq] at hv
  have := hv (x, y) hl
  simp only [svOf] at this
  rw [hs, ht]; exact this.symm

/-- **alias_tracks, the clause evaluated on the implementation, for every tracked update**: `tracksOk`
holds of the model after `setParameterValue` (any parameter), after `setParametersValues` /
`matchParametersValues` whose source names independent parameters only, and after
`setAllParametersValues` whose source is consistent with the links -/
theorem tracksOk_updates {w : World} (h : Inv w) {k : Nat} {o : Obj} (ho : w.objs k = some o) :
    (∀ n v, (apSetParameterValue w k n v).err = none →
      tracksOk (svOf w o) (svOf (apSetParameterValue w k n v).w o) = true) ∧
    (∀ src, namesIndepOnly (svOf w o) src = true → (apSetParametersValues w k src).err = none →
      tracksOk (svOf w o) (svOf (apSetParametersValues w k src).w o) = true) ∧
    (∀ src, namesIndepOnly (svOf w o) src = true → (apMatchParametersValues w k src).1.err = none →
      tracksOk (svOf w o) (svOf (apMatchParametersValues w k src).1.w o) = true) ∧
    (∀ src, srcConsistent (svOf w o) src = true → (apSetAllParametersValues w k src).err = none →
      tracksOk (svOf w o) (svOf (apSetAllParametersValues w k src).w o) = true) := by
  have hi := h.obj k o ho
  refine ⟨fun n v ok => tracksOk_setv h ho n v ok, fun src hn ok => ?_, fun src hn ok => ?_, fun src hc ok => ?_⟩
  · have hN := namesIndepOnly_sound hi hn
    simp only [apSetParametersValues, ho, setParametersValues] at ok ⊢
    cases hc : Alias.checkSome w o.params src with
    | some e => simp [hc] at ok
    | none =>
      simp only [hc] at ok ⊢
      exact tracksOk_of_tr (tr_applySome src w hi ho ok) hi ho (fun s u lk => namesIndep_not_target hi ho hN lk)
  · have hN := namesIndepOnly_sound hi hn
    simp only [apMatchParametersValues, ho, matchParametersValues] at ok ⊢
    cases hc : Alias.checkSome w o.params src with
    | some e => simp [hc] at ok
    | none =>
      simp only [hc] at ok ⊢
      exact tracksOk_of_tr (tr_matchSome src w hi ho ok) hi ho (fun s u lk => namesIndep_not_target hi ho hN lk)
  · exact tracksOk_of_tr (tr_setAll hi ho (srcConsistent_sound hi ho hc) ok) hi ho (fun _ _ _ x => x)

/-- the bulk form keeps the names of all parameter objects -/
theorem bulkAlias_name {w : World} (h : Inv w) (k : Nat) (es : List (String × String)) (ok : (bulkAlias w k es).err = none)
    (j : ObjId) : nameOf (bulkAlias w k es).w.heap j = nameOf w.heap j := by
  simp only [bulkAlias, bulkAliasG] at ok ⊢
  cases ho : w.objs k with
  | none => simp [ho] at ok
  | some o =>
    simp only [ho] at ok ⊢
    cases hl : (bulkLoop k ((mkMap es).length + 1) w
        ((o.params.filter (fun i => (mapFind? (nameOf w.heap i) (mkMap es)).isNone)).map w.heap.get) (mkMap es)).err with
    | some e => simp [hl] at ok
    | none =>
      simp only [hl] at ok ⊢
      obtain ⟨g, _, _⟩ := bulkLoop_done k _ w _ (mkMap es) h hl
      obtain ⟨o', ho', _⟩ := g.obj o ho
      simp only [ho', if_true]
      rw [(syncLinks_sameBut _ _ _).nameOf]; exact g.name j

/-- **the clause `bulkOk` holds of the model** -/
theorem bulkOk_model {w : World} (h : Inv w) {k : Nat} {o : Obj} (ho : w.objs k = some o) (es : List (String × String))
    (ok : (bulkAlias w k es).err = none) :
    ∃ o', (bulkAlias w k es).w.objs k = some o' ∧ bulkOk es (svOf w o) (svOf (bulkAlias w k es).w o') = true := by
  have hi := h.obj k o ho
  have hI := inv_bulkAlias h k es
  by_cases hpre : o.pre = ""
  swap
  · -- under a namespace nothing is claimed
    cases ho' : (bulkAlias w k es).w.objs k with
    | none =>
      exfalso
      have := bulkAlias_linked h k es ok
      cases hm : mkMap es with
      | nil =>
        -- no entry: the world is unchanged up to values
        simp only [bulkAlias, bulkAliasG, ho, hm] at ho'
        simp [bulkLoop, syncLinks, ho] at ho'
      | cons e t =>
        obtain ⟨o'', ho'', _⟩ := this e (by rw [hm]; exact List.mem_cons_self ..)
        rw [ho'] at ho''; cases ho''
    | some o' =>
      refine ⟨o', rfl, ?_⟩
      simp only [bulkOk, Bool.or_eq_true, bne_iff_ne, ne_eq]
      left; exact hpre
  obtain ⟨o', ho', hp, hq, hnew, hold⟩ := bulkAlias_synced h ho hpre es ok
  have hi' := hI.obj k o' ho'
  have hq' : o'.pre = "" := hq.trans hpre
  have hname := bulkAlias_name h k es ok
  refine ⟨o', ho', ?_⟩
  have hval : ∀ (i : ObjId) (x : String), i ∈ o'.params → nameOf (bulkAlias w k es).w.heap i = o'.pre ++ x →
      (svOf (bulkAlias w k es).w o').value? x = some (val (bulkAlias w k es).w i) := by
    intro i x him hn
    rw [value?_svOf, (find?_iff hi'.nodup).2 ⟨him, hn⟩]; rfl
  have hvalb : ∀ (i : ObjId) (x : String), i ∈ o.params → nameOf w.heap i = o.pre ++ x →
      (svOf w o).value? x = some (val w i) := by
    intro i x him hn
    rw [value?_svOf, (find?_iff hi.nodup).2 ⟨him, hn⟩]; rfl
  simp only [bulkOk, Bool.or_eq_true, Bool.and_eq_true, List.all_eq_true, List.contains_iff_mem]
  right
  refine ⟨fun e he => ?_, fun l hl => ?_⟩
  · obtain ⟨s, t, lk, hs, ht, hsy⟩ := hnew e he
    obtain ⟨x, y, hxy, hsx, hty⟩ := lk_view hi' ho' lk
    rw [hname, hs, hq', String.empty_append] at hsx
    rw [hname, ht, hq', String.empty_append] at hty
    subst hsx hty
    refine ⟨hxy, ?_⟩
    simp only [SV.synced]
    rw [hval s _ lk.1 (by rw [hname, hs, hq', String.empty_append]),
      hval t _ (lk.target_mem hi' ho') (by rw [hname, ht, hq', String.empty_append]), hsy]
    simp
  · obtain ⟨x, y⟩ := l
    obtain ⟨s, t, lk, hs, ht⟩ := view_lk hi ho hl
    obtain ⟨lk', htr⟩ := hold s t lk
    obtain ⟨x', y', hxy, hsx, hty⟩ := lk_view hi' ho' lk'
    rw [hname, hs, hq] at hsx
    rw [hname, ht, hq] at hty
    have ex := append_left_cancel' hsx
    have ey := append_left_cancel' hty
    subst ex ey
    refine ⟨hxy, ?_⟩
    have hsm' : s ∈ o'.params := lk'.1
    have htm' : t ∈ o'.params := lk'.target_mem hi' ho'
    have hbs := hvalb s x lk.1 hs
    have hbt := hvalb t y (lk.target_mem hi ho) ht
    have has := hval s x hsm' (by rw [hname, hs, hq])
    have hat := hval t y htm' (by rw [hname, ht, hq])
    simp only [SV.synced, hbs, hbt, has, hat, Bool.or_eq_true, Bool.and_eq_true, beq_iff_eq, Option.some.injEq,
      Bool.not_eq_true', beq_eq_false_iff_ne, ne_eq]
    by_cases hc : val (bulkAlias w k es).w s = val w s
    · by_cases hsb : val w t = val w s
      · right; rw [htr (Or.inr hsb)]
      · left; exact ⟨hc.symm, fun e => hsb e.symm⟩
    · right; rw [htr (Or.inl hc)]

end Bpp.Alias
