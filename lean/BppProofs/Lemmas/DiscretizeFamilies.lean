import BppModel.DiscretizeFamilies
import BppProofs.Lemmas.DiscretizeMedian
import Mathlib.Analysis.SpecialFunctions.Exp
import Mathlib.Analysis.SpecialFunctions.Log.Basic
/-!
C09: the hypotheses `H` (`ParentOK`) *proved* for the families whose `pProb`, `qProb`,
`Expectation` are closed forms: exponential, truncated exponential, uniform.
-/
namespace Bpp.Discretize
open Bpp Real

/-- the core inequality: for `0 < lam`, `a ≤ b`,
`a (e^{-lam a} − e^{-lam b}) ≤ e^{-lam a}(a + 1/lam) − e^{-lam b}(b + 1/lam) ≤ b (e^{-lam a} − e^{-lam b})` -/
theorem exp_mean_ineq (lam a b : ℝ) (hl : 0 < lam) (hab : a ≤ b) :
    a * (exp (-lam * a) - exp (-lam * b)) ≤ exp (-lam * a) * (a + 1 / lam) - exp (-lam * b) * (b + 1 / lam) ∧
    exp (-lam * a) * (a + 1 / lam) - exp (-lam * b) * (b + 1 / lam) ≤ b * (exp (-lam * a) - exp (-lam * b)) := by
  set t := lam * (b - a) with ht
  have ht0 : 0 ≤ t := mul_nonneg hl.le (by linarith)
  have hea : exp (-lam * a) = exp (-lam * b) * exp t := by
    rw [← exp_add]; congr 1; rw [ht]; ring
  have heb : exp (-lam * b) = exp (-lam * a) * exp (-t) := by
    rw [← exp_add]; congr 1; rw [ht]; ring
  have h1 : t + 1 ≤ exp t := add_one_le_exp t
  have h2 : -t + 1 ≤ exp (-t) := add_one_le_exp (-t)
  have hpb : 0 < exp (-lam * b) := exp_pos _
  have hpa : 0 < exp (-lam * a) := exp_pos _
  have hba : b - a = t / lam := by rw [ht]; field_simp
  constructor
  · -- difference = (1/lam) e^{-lam b} (e^t − 1 − t) ≥ 0
    have : exp (-lam * a) * (a + 1 / lam) - exp (-lam * b) * (b + 1 / lam) - a * (exp (-lam * a) - exp (-lam * b))
        = (1 / lam) * (exp (-lam * b) * (exp t - 1 - t)) := by
      rw [hea]
      have : b = a + t / lam := by linarith
      rw [this]; field_simp; ring
    have hnn : 0 ≤ (1 / lam) * (exp (-lam * b) * (exp t - 1 - t)) :=
      mul_nonneg (by positivity) (mul_nonneg hpb.le (by linarith))
    linarith
  · have : b * (exp (-lam * a) - exp (-lam * b)) - (exp (-lam * a) * (a + 1 / lam) - exp (-lam * b) * (b + 1 / lam))
        = (1 / lam) * (exp (-lam * a) * (exp (-t) - 1 + t)) := by
      rw [heb]
      have : b = a + t / lam := by linarith
      rw [this]; field_simp; ring
    have hnn : 0 ≤ (1 / lam) * (exp (-lam * a) * (exp (-t) - 1 + t)) :=
      mul_nonneg (by positivity) (mul_nonneg hpa.le (by linarith))
    linarith

/-! ## exponential -/

@[simp] theorem expParent_P (lam x : ℝ) : (expParent lam).P x = 1 - exp (-lam * x) := by simp [expParent]
@[simp] theorem expParent_Q (lam u : ℝ) : (expParent lam).Q u = -log (1 - u) / lam := by simp [expParent]
@[simp] theorem expParent_E (lam a : ℝ) : (expParent lam).E a = 1 / lam - exp (-a * lam) * (a + 1 / lam) := by simp [expParent]

/-- `H` holds for the exponential parent on every domain (rate `lam > 0`) -/
theorem exponential_parentOK (lam lo hi : ℝ) (hl : 0 < lam) : ParentOK (expParent lam) lo hi where
  mono x y _ hxy _ := by
    simp only [expParent_P]
    have : exp (-lam * y) ≤ exp (-lam * x) := exp_le_exp.2 (by nlinarith)
    linarith
  qmono u v _ huv hv := by
    simp only [expParent_P, expParent_Q] at *
    have hv1 : 0 < 1 - v := by have := exp_pos (-lam * hi); linarith
    have : log (1 - v) < log (1 - u) := log_lt_log hv1 (by linarith)
    apply div_lt_div_of_pos_right _ hl; linarith
  qp x _ _ := by
    simp only [expParent_P, expParent_Q]
    rw [show 1 - (1 - exp (-lam * x)) = exp (-lam * x) by ring, log_exp]; field_simp
  pq u _ hu := by
    simp only [expParent_P, expParent_Q] at *
    have hu1 : 0 < 1 - u := by have := exp_pos (-lam * hi); linarith
    rw [show -lam * (-log (1 - u) / lam) = log (1 - u) by field_simp, exp_log hu1]; ring
  mean a b _ hab _ := by
    simp only [expParent_P, expParent_E]
    have := exp_mean_ineq lam a b hl hab
    rw [show -a * lam = -lam * a by ring, show -b * lam = -lam * b by ring]
    constructor <;> [have := this.1; have := this.2] <;> linarith

/-! ## uniform -/

theorem unifParent_P (mn mx x : ℝ) (hx : mn ≤ x) (hw : mn < mx) : (unifParent mn mx).P x = (x - mn) / (mx - mn) := by
  simp only [unifParent]
  by_cases h : x ≤ mn
  · have : x = mn := le_antisymm h hx
    simp [this]
  · simp [h]

theorem unifParent_E (mn mx a : ℝ) (h1 : mn ≤ a) (h2 : a ≤ mx) (hw : mn < mx) :
    (unifParent mn mx).E a = (a * a - mn * mn) / (mx - mn) / 2 := by
  simp only [unifParent, two_eq]
  by_cases h : a ≤ mn
  · have : a = mn := le_antisymm h h1
    simp [this]
  · simp only [ScalarReal.leb_iff, h, if_false, ScalarReal.geb_iff]
    by_cases h3 : mx ≤ a
    · have : a = mx := le_antisymm h2 h3
      subst this
      have : a - mn ≠ 0 := by linarith
      simp only [le_refl, if_true]; field_simp; ring
    · simp [h3]

@[simp] theorem unifParent_Q (mn mx u : ℝ) : (unifParent mn mx).Q u = mn + u * (mx - mn) := by simp [unifParent]

/-- `H` holds for the uniform parent on every sub-interval of its support -/
theorem uniform_parentOK (mn mx lo hi : ℝ) (hw : mn < mx) (h1 : mn ≤ lo) (h2 : hi ≤ mx) (hl : lo ≤ hi) :
    ParentOK (unifParent mn mx) lo hi where
  mono x y hx hxy hy := by
    rw [unifParent_P mn mx x (h1.trans hx) hw, unifParent_P mn mx y (h1.trans (hx.trans hxy)) hw]
    apply div_le_div_of_nonneg_right _ (by linarith); linarith
  qmono u v _ huv _ := by
    simp only [unifParent_Q]; nlinarith
  qp x hx _ := by
    rw [unifParent_P mn mx x (h1.trans hx) hw, unifParent_Q]
    have : mx - mn ≠ 0 := by linarith
    field_simp; ring
  pq u hu _ := by
    rw [unifParent_P mn mx lo h1 hw] at hu
    have hu0 : 0 ≤ u := le_trans (div_nonneg (by linarith) (by linarith)) hu
    rw [unifParent_Q, unifParent_P mn mx _ (by nlinarith) hw]
    have : mx - mn ≠ 0 := by linarith
    field_simp; ring
  mean a b ha hab hb := by
    have ha1 : mn ≤ a := h1.trans ha
    have hb2 : b ≤ mx := hb.trans h2
    rw [unifParent_P mn mx a ha1 hw, unifParent_P mn mx b (ha1.trans hab) hw,
      unifParent_E mn mx a ha1 (hab.trans hb2) hw, unifParent_E mn mx b (ha1.trans hab) hb2 hw]
    have hwp : 0 < mx - mn := by linarith
    constructor
    · rw [← sub_nonneg]
      have : (b * b - mn * mn) / (mx - mn) / 2 - (a * a - mn * mn) / (mx - mn) / 2 - a * ((b - mn) / (mx - mn) - (a - mn) / (mx - mn))
          = (b - a) ^ 2 / (2 * (mx - mn)) := by field_simp; ring
      rw [this]; positivity
    · rw [← sub_nonneg]
      have : b * ((b - mn) / (mx - mn) - (a - mn) / (mx - mn)) - ((b * b - mn * mn) / (mx - mn) / 2 - (a * a - mn * mn) / (mx - mn) / 2)
          = (b - a) ^ 2 / (2 * (mx - mn)) := by field_simp; ring
      rw [this]; positivity

/-! ## truncated exponential -/

theorem texpCond_eq (lam tp : ℝ) : (texpCond lam tp : ℝ) = 1 - exp (-lam * tp) := by simp [texpCond]

theorem texpCond_pos (lam tp : ℝ) (hl : 0 < lam) (ht : 0 < tp) : 0 < (texpCond lam tp : ℝ) := by
  rw [texpCond_eq]
  have : exp (-lam * tp) < 1 := by rw [exp_lt_one_iff]; nlinarith
  linarith

theorem texpParent_P (lam tp x : ℝ) (hl : 0 < lam) (ht : 0 < tp) (hx : x ≤ tp) :
    (texpParent lam tp (texpCond lam tp)).P x = (1 - exp (-lam * x)) / (1 - exp (-lam * tp)) := by
  have hc := texpCond_pos lam tp hl ht
  rw [texpCond_eq] at hc
  simp only [texpParent, texpCond_eq, ScalarReal.geb_iff, ScalarReal.one_eq, ScalarReal.exp_eq]
  by_cases h : tp ≤ x
  · have : x = tp := le_antisymm hx h
    subst this
    simp only [le_refl, if_true]
    exact (div_self hc.ne').symm
  · simp [h]

theorem texpParent_Q (lam tp u : ℝ) (hl : 0 < lam) :
    (texpParent lam tp (texpCond lam tp)).Q u = -log (1 - (1 - exp (-lam * tp)) * u) / lam := by
  simp only [texpParent, texpCond_eq, ScalarReal.eqb_iff, ScalarReal.one_eq, ScalarReal.exp_eq, ScalarReal.log_eq]
  by_cases h : u = 1
  · subst h
    simp only [if_true, mul_one]
    rw [show 1 - (1 - exp (-lam * tp)) = exp (-lam * tp) by ring, log_exp]; field_simp
  · simp [h]

theorem texpParent_E (lam tp a : ℝ) (ha : a ≤ tp) :
    (texpParent lam tp (texpCond lam tp)).E a = (1 / lam - exp (-a * lam) * (a + 1 / lam)) / (1 - exp (-lam * tp)) := by
  simp only [texpParent, texpCond_eq, ScalarReal.ltb_iff, ScalarReal.one_eq, ScalarReal.exp_eq]
  by_cases h : a < tp
  · simp [h]
  · have : a = tp := le_antisymm ha (not_lt.1 h)
    subst this; simp

/-- `H` holds for the truncated exponential parent on every domain below the truncation point
(rate `lam > 0`, truncation point `tp > 0`) -/
theorem truncated_exponential_parentOK (lam tp lo hi : ℝ) (hl : 0 < lam) (ht : 0 < tp) (hlo : lo ≤ hi) (hhi : hi ≤ tp) :
    ParentOK (texpParent lam tp (texpCond lam tp)) lo hi := by
  have hc := texpCond_pos lam tp hl ht
  rw [texpCond_eq] at hc
  have hE := exponential_parentOK lam lo hi hl
  have hc' : (1 - exp (-(lam * tp))) ≠ 0 := by have := hc.ne'; simpa [neg_mul] using this
  refine ⟨?_, ?_, ?_, ?_, ?_⟩
  · intro x y hx hxy hy
    rw [texpParent_P lam tp x hl ht (hxy.trans (hy.trans hhi)), texpParent_P lam tp y hl ht (hy.trans hhi)]
    have := hE.mono x y hx hxy hy
    simp only [expParent_P] at this
    exact div_le_div_of_nonneg_right this hc.le
  · intro u v hu huv hv
    rw [texpParent_P lam tp lo hl ht (hlo.trans hhi)] at hu
    rw [texpParent_P lam tp hi hl ht hhi] at hv
    rw [texpParent_Q lam tp u hl, texpParent_Q lam tp v hl]
    have := hE.qmono ((1 - exp (-lam * tp)) * u) ((1 - exp (-lam * tp)) * v)
      (by simp only [expParent_P]; rw [div_le_iff₀ hc] at hu; linarith)
      (by nlinarith)
      (by simp only [expParent_P]; rw [le_div_iff₀ hc] at hv; linarith)
    simpa using this
  · intro x hx hxh
    rw [texpParent_P lam tp x hl ht (hxh.trans hhi), texpParent_Q lam tp _ hl]
    have := hE.qp x hx hxh
    simp only [expParent_P, expParent_Q] at this
    rw [show (1 - exp (-lam * tp)) * ((1 - exp (-lam * x)) / (1 - exp (-lam * tp))) = 1 - exp (-lam * x) by field_simp [hc']]
    exact this
  · intro u hu hv
    rw [texpParent_P lam tp lo hl ht (hlo.trans hhi)] at hu
    rw [texpParent_P lam tp hi hl ht hhi] at hv
    have h1 : (expParent lam).P lo ≤ (1 - exp (-lam * tp)) * u := by
      simp only [expParent_P]; rw [div_le_iff₀ hc] at hu; linarith
    have h2 : (1 - exp (-lam * tp)) * u ≤ (expParent lam).P hi := by
      simp only [expParent_P]; rw [le_div_iff₀ hc] at hv; linarith
    have hq : (texpParent lam tp (texpCond lam tp)).Q u = (expParent lam).Q ((1 - exp (-lam * tp)) * u) := by
      rw [texpParent_Q lam tp u hl]; simp
    rw [hq, texpParent_P lam tp _ hl ht ((hE.q_le_hi hlo h1 h2).trans hhi)]
    have := hE.pq _ h1 h2
    simp only [expParent_P] at this
    rw [this]; field_simp [hc']
  · intro a b ha hab hb
    rw [texpParent_P lam tp a hl ht (hab.trans (hb.trans hhi)), texpParent_P lam tp b hl ht (hb.trans hhi),
      texpParent_E lam tp a (hab.trans (hb.trans hhi)), texpParent_E lam tp b (hb.trans hhi)]
    have := hE.mean a b ha hab hb
    simp only [expParent_P, expParent_E] at this
    constructor
    · rw [← sub_div, ← sub_div, ← mul_div_assoc, div_le_div_iff_of_pos_right hc]; linarith [this.1]
    · rw [← sub_div, ← sub_div, ← mul_div_assoc, div_le_div_iff_of_pos_right hc]; linarith [this.2]

end Bpp.Discretize
