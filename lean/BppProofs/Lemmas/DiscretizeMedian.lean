import BppProofs.Lemmas.DiscretizeEqInt
/-!
C09: median-valued classes of `discretizeEqualProportions` at `ℝ`.
-/
namespace Bpp.Discretize
open Bpp

/-- raw values of the median branch -/
theorem eqPropRaw_median (par : Parent ℝ) (s : DD ℝ) (hne : par.P s.dom.hi ≠ par.P s.dom.lo) (hmed : s.median = true) :
    (eqPropRaw par s).2 = rescale (medians par s.n s.dom.lo s.dom.hi (par.P s.dom.lo) ((par.P s.dom.hi - par.P s.dom.lo) / (s.n : ℝ)))
      (par.E s.dom.hi - par.E s.dom.lo) ((par.P s.dom.hi - par.P s.dom.lo) / (s.n : ℝ)) := by
  have hne' : Scalar.eqb (par.P s.dom.hi) (par.P s.dom.lo) = false := by
    cases hh : Scalar.eqb (par.P s.dom.hi) (par.P s.dom.lo) with
    | false => rfl
    | true => exact absurd ((ScalarReal.eqb_iff _ _).1 hh) hne
  unfold eqPropRaw
  simp only [hne', Bool.not_false, if_true, hmed, nat_eq]

/-- the rescaling condition of the repaired code -/
def Rescaled (vals : List ℝ) (mean : ℝ) : Prop := vals.sum ≠ 0 ∧ 0 < mean / vals.sum

theorem rescale_cases (vals : List ℝ) (mean ec : ℝ) :
    (Rescaled vals mean → rescale vals mean ec = vals.map (fun v => v * (mean / vals.sum / ec))) ∧
    (¬ Rescaled vals mean → rescale vals mean ec = vals) := by
  unfold rescale Rescaled
  simp only [sumL_eq, Bool.and_eq_true, Bool.not_eq_true', ScalarReal.gtb_iff, ScalarReal.zero_eq]
  by_cases h : vals.sum = 0
  · have : Scalar.eqb vals.sum (0 : ℝ) = true := by simpa using h
    simp [h, this]
  · have : Scalar.eqb vals.sum (0 : ℝ) = false := by
      cases hh : Scalar.eqb vals.sum (0 : ℝ) with
      | false => rfl
      | true => exact absurd ((ScalarReal.eqb_iff _ _).1 hh) h
    simp only [this, true_and, ne_eq, h, not_false_eq_true]
    constructor
    · intro hp; simp [hp]
    · intro hp; simp [hp]

theorem sum_map_mul_right (l : List ℝ) (c : ℝ) : (l.map (fun v => v * c)).sum = l.sum * c := by
  induction l with
  | nil => simp
  | cons a t ih => simp [ih]; ring

/-- rescaled medians: the discrete mean is the parent's mean over the domain (no hypothesis on
the parent: this is what the rescaling is for) -/
theorem eqProp_mean_median (par : Parent ℝ) (s s' : DD ℝ) (hn : 1 ≤ s.n) (hp : 0 ≤ s.prec)
    (hne : par.P s.dom.hi ≠ par.P s.dom.lo) (hmed : s.median = true)
    (hresc : Rescaled (medians par s.n s.dom.lo s.dom.hi (par.P s.dom.lo) ((par.P s.dom.hi - par.P s.dom.lo) / (s.n : ℝ)))
      (par.E s.dom.hi - par.E s.dom.lo))
    (hr : resolved par s = true) (h : eqProp par s = .ok s') :
    discreteMean s' = (par.E s.dom.hi - par.E s.dom.lo) / (par.P s.dom.hi - par.P s.dom.lo) := by
  have hn' : (0 : ℝ) < s.n := by exact_mod_cast hn
  have hd := eqProp_resolved par s s' hp hr h
  have hraw := eqPropRaw_median par s hne hmed
  rw [(rescale_cases _ _ _).1 hresc] at hraw
  unfold discreteMean
  rw [sumL_eq, hd, hraw]
  simp only [List.map_map]
  set M := medians par s.n s.dom.lo s.dom.hi (par.P s.dom.lo) ((par.P s.dom.hi - par.P s.dom.lo) / (s.n : ℝ)) with hM
  have e : ((fun kv : ℝ × ℝ => kv.2 * kv.1) ∘ (fun v => (v, 1 / (s.n : ℝ))) ∘
      fun v : ℝ => v * ((par.E s.dom.hi - par.E s.dom.lo) / M.sum / ((par.P s.dom.hi - par.P s.dom.lo) / (s.n : ℝ)))) =
      fun v => v * ((1 / (s.n : ℝ)) * ((par.E s.dom.hi - par.E s.dom.lo) / M.sum / ((par.P s.dom.hi - par.P s.dom.lo) / (s.n : ℝ)))) := by
    funext v; simp only [Function.comp]; ring
  rw [e, sum_map_mul_right]
  have hc : par.P s.dom.hi - par.P s.dom.lo ≠ 0 := sub_ne_zero.2 hne
  have ht := hresc.1
  field_simp

/-- under `H`, in the non-degenerate branch: `lower :: bounds ++ [upper]` are the quantiles of
`minX + i·ec`, `i = 0..n`, and the medians those of `minX + (i + ½)·ec`: every median lies in its
class -/
theorem medians_in_class (par : Parent ℝ) (s : DD ℝ) (hn : 1 ≤ s.n) (hl : s.dom.lo ≤ s.dom.hi)
    (H : ParentOK par s.dom.lo s.dom.hi) (hne : par.P s.dom.hi ≠ par.P s.dom.lo) :
    let ec := (par.P s.dom.hi - par.P s.dom.lo) / (s.n : ℝ)
    let F : ℕ → ℝ := fun i => par.Q (par.P s.dom.lo + (i : ℝ) * ec)
    let G : ℕ → ℝ := fun i => par.Q (par.P s.dom.lo + ((i : ℝ) + 1 / 2) * ec)
    s.dom.lo :: (eqPropRaw par s).1 ++ [s.dom.hi] = (List.range' 0 (s.n + 1)).map F ∧
    medians par s.n s.dom.lo s.dom.hi (par.P s.dom.lo) ec = (List.range' 0 s.n).map G ∧
    (∀ i, i < s.n → F i ≤ G i ∧ G i ≤ F (i + 1)) ∧ (∀ i j, i < j → j < s.n → G i < G j) := by
  intro ec F G
  have hn' : (0 : ℝ) < s.n := by exact_mod_cast hn
  have hne' : Scalar.eqb (par.P s.dom.hi) (par.P s.dom.lo) = false := by
    cases hh : Scalar.eqb (par.P s.dom.hi) (par.P s.dom.lo) with
    | false => rfl
    | true => exact absurd ((ScalarReal.eqb_iff _ _).1 hh) hne
  have hle : par.P s.dom.lo ≤ par.P s.dom.hi := H.mono _ _ le_rfl hl le_rfl
  have hecpos : 0 < ec := ec_pos par _ _ s.n hn H hl hne
  have hnec : (s.n : ℝ) * ec = par.P s.dom.hi - par.P s.dom.lo := by simp only [ec]; field_simp
  have hu : ∀ x : ℝ, 0 ≤ x → x ≤ s.n → par.P s.dom.lo ≤ par.P s.dom.lo + x * ec ∧ par.P s.dom.lo + x * ec ≤ par.P s.dom.hi :=
    fun x h0 h1 => u_range (par.P s.dom.lo) (par.P s.dom.hi) s.n hn hle x h0 h1
  have hF0 : F 0 = s.dom.lo := by simp only [F]; simp [H.qp s.dom.lo le_rfl hl]
  have hFn : F s.n = s.dom.hi := by
    simp only [F]; rw [hnec]; simp [H.qp s.dom.hi hl le_rfl]
  refine ⟨?_, ?_, ?_, ?_⟩
  · have hb : (eqPropRaw par s).1 = (List.range (s.n - 1)).map (fun i => F (i + 1)) := by
      unfold eqPropRaw
      simp only [hne', Bool.not_false, if_true]
      have : eqPropBounds par s.n s.dom.lo s.dom.hi (par.P s.dom.lo) ((par.P s.dom.hi - par.P s.dom.lo) / nat s.n) =
          (List.range (s.n - 1)).map (fun i => F (i + 1)) := by
        unfold eqPropBounds
        apply List.map_congr_left
        intro i hi
        simp only [List.mem_range] at hi
        simp only [nat_eq, F]
        have r := hu ((i + 1 : ℕ) : ℝ) (by positivity) (by exact_mod_cast (by omega : i + 1 ≤ s.n))
        exact insideDomain_id _ _ _ (H.q_ge_lo hl r.1 r.2) (H.q_le_hi hl r.1 r.2)
      split <;> exact this
    rw [hb, ← bounds_as_range F s.n hn, hF0, hFn]
  · unfold medians
    rw [List.range_eq_range']
    apply List.map_congr_left
    intro i hi
    have hi' : i < s.n := by simpa using hi
    simp only [nat_eq, half_eq, G]
    have hi2 : (i : ℝ) + 1 ≤ s.n := by exact_mod_cast hi'
    have r := hu ((i : ℝ) + 1 / 2) (by positivity) (by linarith)
    exact insideDomain_id _ _ _ (H.q_ge_lo hl r.1 r.2) (H.q_le_hi hl r.1 r.2)
  · intro i hi
    have hi2 : (i : ℝ) + 1 ≤ s.n := by exact_mod_cast hi
    have r0 := hu (i : ℝ) (by positivity) (by linarith)
    have r1 := hu ((i : ℝ) + 1 / 2) (by positivity) (by linarith)
    have r2 := hu ((i + 1 : ℕ) : ℝ) (by positivity) (by exact_mod_cast hi)
    constructor
    · apply H.q_mono r0.1 _ r1.2; nlinarith
    · apply H.q_mono r1.1 _ r2.2; push_cast; nlinarith
  · intro i j hij hj
    have hj2 : (j : ℝ) + 1 ≤ s.n := by exact_mod_cast hj
    have hij2 : (i : ℝ) + 1 ≤ j := by exact_mod_cast hij
    have r1 := hu ((i : ℝ) + 1 / 2) (by positivity) (by linarith)
    have r2 := hu ((j : ℝ) + 1 / 2) (by positivity) (by linarith)
    apply H.qmono _ _ r1.1 _ r2.2; nlinarith

/-- median-valued classes that are not rescaled lie in their own class -/
theorem eqProp_median_in_class (par : Parent ℝ) (s s' : DD ℝ) (hn : 1 ≤ s.n) (hp : 0 ≤ s.prec) (hl : s.dom.lo ≤ s.dom.hi)
    (H : ParentOK par s.dom.lo s.dom.hi) (hne : par.P s.dom.hi ≠ par.P s.dom.lo) (hmed : s.median = true)
    (hresc : ¬ Rescaled (medians par s.n s.dom.lo s.dom.hi (par.P s.dom.lo) ((par.P s.dom.hi - par.P s.dom.lo) / (s.n : ℝ)))
      (par.E s.dom.hi - par.E s.dom.lo))
    (hr : resolved par s = true) (h : eqProp par s = .ok s') : valuesInClass s' = true := by
  have hd := eqProp_resolved par s s' hp hr h
  obtain ⟨m, _, hs'⟩ := eqProp_ok par s s' h
  have hb : s'.allBounds = s.dom.lo :: (eqPropRaw par s).1 ++ [s.dom.hi] := by rw [hs']; rfl
  have hraw := eqPropRaw_median par s hne hmed
  rw [(rescale_cases _ _ _).2 hresc] at hraw
  obtain ⟨h1, h2, h3, _⟩ := medians_in_class par s hn hl H hne
  have hc : s'.cats = (eqPropRaw par s).2 := by
    simp only [DD.cats, TMap.keys, hd, List.map_map]
    exact List.map_id' _
  simp only [valuesInClass, hb, hc, hraw, h1, h2, pairs_map_range', List.zip_map']
  simp only [List.all_map, List.all_eq_true, Function.comp, Bool.and_eq_true, ScalarReal.leb_iff]
  intro i hi
  exact h3 i (by simpa using hi)

end Bpp.Discretize
